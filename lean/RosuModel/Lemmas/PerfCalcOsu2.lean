import RosuModel.Lemmas.PerfCalcOsu

/-! osu! pp formulas over ℝ: the accuracy, flashlight and aim values. -/

namespace Rosu.PerfCalc
open PPOps
open Rosu.Finite (OsuState)

theorem ite_mul_pos {c : Prop} [Decidable c] {pp f : ℝ} (h : 0 < pp) (hf : c → 0 < f) :
    0 < (if c then pp * f else pp) := by
  split_ifs with hc
  · exact mul_pos h (hf hc)
  · exact h

/-! ## accuracy value -/

/-- (b) `compute_accuracy_value ≥ 0` for every calculator state (no hypothesis) -/
theorem computeAccuracyBody_nonneg (c : OsuCalc ℝ) : 0 ≤ computeAccuracyBody c := by
  · unfold computeAccuracyBody
    extract_lets amount s b0 b1 v0 v1 v2
    have hb1 : (0 : ℝ) ≤ b1 := by
      show (0 : ℝ) ≤ (if PPOps.lt b0 0.0 = true then 0.0 else b0)
      split_ifs with h
      · norm_num
      · have := (r_lt_false b0 0.0).1 (by simpa using h)
        have h0 : (0.0 : ℝ) = 0 := by norm_num
        rw [h0] at this; exact not_lt.mp this
    have h0 : (0 : ℝ) ≤ v0 := by
      show (0 : ℝ) ≤ (1.52163 : ℝ) ^ c.attrs.od * b1 ^ (24.0 : ℝ) * 2.83
      have e1 : (0 : ℝ) ≤ (1.52163 : ℝ) ^ c.attrs.od := Real.rpow_nonneg (by norm_num) _
      have e2 : (0 : ℝ) ≤ b1 ^ (24.0 : ℝ) := Real.rpow_nonneg hb1 _
      have e3 : (0 : ℝ) ≤ 2.83 := by norm_num
      exact mul_nonneg (mul_nonneg e1 e2) e3
    have h1 : (0 : ℝ) ≤ v1 := by
      refine mul_nonneg h0 (le_min ?_ (by norm_num))
      exact Real.rpow_nonneg (div_nonneg (Nat.cast_nonneg _) (by norm_num)) _
    have h2 : (0 : ℝ) ≤ v2 := by
      show (0 : ℝ) ≤ (if c.mods.bl = true then v1 * 1.14 else if (c.mods.hd || c.mods.tc) = true then v1 * 1.08 else v1)
      have e14 : (0 : ℝ) ≤ 1.14 := by norm_num
      have e08 : (0 : ℝ) ≤ 1.08 := by norm_num
      split_ifs
      · exact mul_nonneg h1 e14
      · exact mul_nonneg h1 e08
      · exact h1
    exact ite_mul_nonneg h2 (fun _ => (by norm_num : (0 : ℝ) ≤ 1.02))

theorem computeAccuracyValue_nonneg (c : OsuCalc ℝ) : 0 ≤ computeAccuracyValue c := by
  unfold computeAccuracyValue
  by_cases h : c.mods.rx = true
  · rw [if_pos h]; norm_num
  · rw [if_neg h]; exact computeAccuracyBody_nonneg c

/-- (a) `compute_accuracy_value`: both partial operations are always in their domain -/
theorem computeAccuracyBodyDom_true (c : OsuCalc ℝ) : computeAccuracyBodyDom c = true := by
  unfold computeAccuracyBodyDom
  · have e1 : (if c.amountHitObjectsWithAcc > 0 then nz (PPOps.ofNat (c.amountHitObjectsWithAcc * 6) : ℝ) else true) = true := by
      split_ifs with h
      · rw [nz_iff]; simp only [r_ofNat]; exact_mod_cast (by omega : c.amountHitObjectsWithAcc * 6 ≠ 0)
      · rfl
    have e2 : powfDom (PPOps.ofNat c.amountHitObjectsWithAcc / 1000.0 : ℝ) (0.3 : ℝ) = true := by
      apply powfDom_of_nonneg _ (by norm_num)
      simp only [r_div, r_ofNat]
      exact div_nonneg (Nat.cast_nonneg _) (by norm_num)
    rw [e1, e2]; rfl

theorem computeAccuracyValueDom_true (c : OsuCalc ℝ) : computeAccuracyValueDom c = true := by
  unfold computeAccuracyValueDom
  by_cases h : c.mods.rx = true
  · rw [if_pos h]
  · rw [if_neg h]; exact computeAccuracyBodyDom_true c

/-! ## flashlight value -/

/-- the hypotheses shared by the osu! component theorems: what `OsuPerformance::calculate` and
`generate_state` guarantee about the calculator's fields -/
structure OsuCalcBase (c : OsuCalc ℝ) : Prop where
  hits_pos : 0 < c.state.totalHits
  acc_nonneg : 0 ≤ c.acc
  emc_nonneg : 0 ≤ c.effectiveMissCount
  emc_le : c.effectiveMissCount ≤ (c.state.totalHits : ℝ)

theorem OsuCalcBase.totalHits_pos {c : OsuCalc ℝ} (B : OsuCalcBase c) : (0 : ℝ) < c.totalHits := by
  unfold OsuCalc.totalHits; simp only [r_ofNat]; exact_mod_cast B.hits_pos

/-- the miss factor of the flashlight value: `0.97 · (1 − (m/t)^0.775)^(m^0.875)` -/
theorem flashlightMissFactor_nonneg {m t : ℝ} (hm : 0 ≤ m) (ht : 0 < t) (hmt : m ≤ t) :
    (0 : ℝ) ≤ 0.97 * (1.0 - (m / t) ^ (0.775 : ℝ)) ^ (m ^ (0.875 : ℝ)) := by
  have hq0 : 0 ≤ m / t := div_nonneg hm ht.le
  have hq1 : m / t ≤ 1 := (div_le_one ht).2 hmt
  have hp : (m / t) ^ (0.775 : ℝ) ≤ 1 := Real.rpow_le_one hq0 hq1 (by norm_num)
  have h1 : (1.0 : ℝ) = 1 := by norm_num
  have hb : (0 : ℝ) ≤ 1.0 - (m / t) ^ (0.775 : ℝ) := by rw [h1]; linarith
  exact mul_nonneg (by norm_num) (Real.rpow_nonneg hb _)

theorem flashlightLengthFactor_pos {t : ℝ} (ht : 0 < t) :
    (0 : ℝ) < 0.7 + 0.1 * min (t / 200.0) 1.0
      + (if PPOps.lt 200.0 t = true then 1.0 else 0.0) * 0.2 * min ((t - 200.0) / 200.0) 1.0 := by
  have h1 : (0 : ℝ) ≤ 0.1 * min (t / 200.0) 1.0 :=
    mul_nonneg (by norm_num) (le_min (by positivity) (by norm_num))
  have h7 : (0 : ℝ) < 0.7 := by norm_num
  split_ifs with h
  · have ht2 : (200.0 : ℝ) < t := (r_lt _ _).1 h
    have : (0 : ℝ) ≤ min ((t - 200.0) / 200.0) 1.0 :=
      le_min (div_nonneg (by linarith) (by norm_num)) (by norm_num)
    have : (0 : ℝ) ≤ 1.0 * 0.2 * min ((t - 200.0) / 200.0) 1.0 :=
      mul_nonneg (by norm_num) this
    linarith
  · have : (0.0 : ℝ) * 0.2 * min ((t - 200.0) / 200.0) 1.0 = 0 := by norm_num
    linarith

/-- (b) `compute_flashlight_value ≥ 0` -/
theorem computeFlashlightBody_nonneg (c : OsuCalc ℝ) (B : OsuCalcBase c) :
    0 ≤ computeFlashlightBody c := by
  · unfold computeFlashlightBody
    extract_lets v0 totalHits v1 v2 v3 v4
    have ht : (0 : ℝ) < totalHits := B.totalHits_pos
    have h0 : (0 : ℝ) ≤ v0 := flashlightDifficultyToPerformance_nonneg _
    have h1 : (0 : ℝ) ≤ v1 := by
      refine ite_mul_nonneg h0 (fun _ => ?_)
      exact flashlightMissFactor_nonneg B.emc_nonneg ht B.emc_le
    have h2 : (0 : ℝ) ≤ v2 := mul_nonneg h1 (getComboScalingFactor_mem c).1
    have h3 : (0 : ℝ) ≤ v3 := mul_nonneg h2 (flashlightLengthFactor_pos ht).le
    have h4 : (0 : ℝ) ≤ v4 := by
      refine mul_nonneg h3 ?_
      show (0 : ℝ) ≤ 0.5 + c.acc / 2.0
      have : (0 : ℝ) ≤ c.acc / 2.0 := div_nonneg B.acc_nonneg (by norm_num)
      have h5 : (0 : ℝ) ≤ 0.5 := by norm_num
      linarith
    exact mul_nonneg h4 (odFactor_pos (by norm_num) (by norm_num) _).le

theorem computeFlashlightValue_nonneg (c : OsuCalc ℝ) (B : OsuCalcBase c) :
    0 ≤ computeFlashlightValue c := by
  unfold computeFlashlightValue
  by_cases h : (!c.mods.fl) = true
  · rw [if_pos h]; norm_num
  · rw [if_neg h]; exact computeFlashlightBody_nonneg c B

/-- (a) `compute_flashlight_value`: every partial operation in its domain -/
theorem computeFlashlightBodyDom_true (c : OsuCalc ℝ) (B : OsuCalcBase c) :
    computeFlashlightBodyDom c = true := by
  unfold computeFlashlightBodyDom
  · have ht : (0 : ℝ) < c.totalHits := B.totalHits_pos
    have e2 := getComboScalingFactorDom_true c
    have e1 : (if PPOps.lt 0.0 c.effectiveMissCount = true then
        nz c.totalHits && powfDom (c.effectiveMissCount / c.totalHits) (0.775 : ℝ)
          && powfDom c.effectiveMissCount (0.875 : ℝ)
          && powfDom (1.0 - PPOps.powf (c.effectiveMissCount / c.totalHits) 0.775) (PPOps.powf c.effectiveMissCount 0.875)
       else true) = true := by
      split_ifs with h
      · have hm : (0 : ℝ) < c.effectiveMissCount := by
          have := (r_lt _ _).1 h
          have h0 : (0.0 : ℝ) = 0 := by norm_num
          rwa [h0] at this
        have hle : c.effectiveMissCount ≤ c.totalHits := B.emc_le
        have hq0 : 0 ≤ c.effectiveMissCount / c.totalHits := div_nonneg hm.le ht.le
        have hq1 : c.effectiveMissCount / c.totalHits ≤ 1 := (div_le_one ht).2 hle
        have hp : (c.effectiveMissCount / c.totalHits) ^ (0.775 : ℝ) ≤ 1 :=
          Real.rpow_le_one hq0 hq1 (by norm_num)
        have a1 : nz c.totalHits = true := by rw [nz_iff]; exact ht.ne'
        have a2 : powfDom (c.effectiveMissCount / c.totalHits) (0.775 : ℝ) = true :=
          powfDom_of_nonneg hq0 (by norm_num)
        have a3 : powfDom c.effectiveMissCount (0.875 : ℝ) = true := powfDom_of_pos _ hm
        have a4 : powfDom (1.0 - PPOps.powf (c.effectiveMissCount / c.totalHits) 0.775)
            (PPOps.powf c.effectiveMissCount 0.875) = true := by
          apply powfDom_of_nonneg
          · have h1 : (1.0 : ℝ) = 1 := by norm_num
            show (0 : ℝ) ≤ 1.0 - (c.effectiveMissCount / c.totalHits) ^ (0.775 : ℝ)
            rw [h1]; linarith
          · exact Real.rpow_nonneg hm.le _
        rw [a1, a2, a3, a4]; rfl
      · rfl
    rw [e1, e2]; rfl

theorem computeFlashlightValueDom_true (c : OsuCalc ℝ) (B : OsuCalcBase c) :
    computeFlashlightValueDom c = true := by
  unfold computeFlashlightValueDom
  by_cases h : (!c.mods.fl) = true
  · rw [if_pos h]
  · rw [if_neg h]; exact computeFlashlightBodyDom_true c B

/-! ## aim value -/

/-- additional hypotheses of the aim value -/
structure OsuAimOK (c : OsuCalc ℝ) : Prop where
  /-- the miss penalty takes `ln(count)^0.94` and divides by it -/
  strain : 0 < c.effectiveMissCount → 1 < c.attrs.aimDifficultStrainCount
  /-- `1 + 0.04·(12 − ar) ≥ 0` (HD / TC bonus) -/
  ar_le : c.attrs.ar ≤ 37
  /-- `1.3 + x·(1 − 0.003·hp²) ≥ 0` (Blinds) -/
  hp_sq : c.attrs.hp * c.attrs.hp ≤ 1000 / 3
  /-- `u32` subtractions of the slider estimate -/
  combo : c.usingClassicSliderAcc = true → c.state.maxCombo ≤ c.attrs.maxCombo
  ends : c.usingClassicSliderAcc = false → c.state.sliderEndHits ≤ c.attrs.nSliders
  ticks : c.usingClassicSliderAcc = false → c.state.largeTickHits ≤ c.attrs.nLargeTicks

theorem osuArFactorAim_nonneg (c : OsuCalc ℝ) :
    (0 : ℝ) ≤ (if c.mods.rx = true then 0.0
      else if PPOps.lt 10.33 c.attrs.ar = true then 0.3 * (c.attrs.ar - 10.33)
      else if PPOps.lt c.attrs.ar 8.0 = true then 0.05 * (8.0 - c.attrs.ar) else 0.0) := by
  split_ifs with h1 h2 h3
  · norm_num
  · have := (r_lt _ _).1 h2
    exact mul_nonneg (by norm_num) (by linarith)
  · have := (r_lt _ _).1 h3
    exact mul_nonneg (by norm_num) (by linarith)
  · norm_num

theorem blindsFactor_nonneg {t m acc hp : ℝ} (ht : 0 ≤ t) (hm : 0 ≤ m) (hacc : 0 ≤ acc)
    (hhp : hp * hp ≤ 1000 / 3) :
    (0 : ℝ) ≤ 1.3 + (t * (0.0016 / (1.0 + 2.0 * m)) * acc ^ (16.0 : ℝ)) * (1.0 - 0.003 * hp * hp) := by
  have h1 : (0 : ℝ) ≤ 1.0 - 0.003 * hp * hp := by norm_num; nlinarith
  have hd : (0 : ℝ) < 1.0 + 2.0 * m := by norm_num; linarith
  have h2 : (0 : ℝ) ≤ 0.0016 / (1.0 + 2.0 * m) := div_nonneg (by norm_num) hd.le
  have h3 : (0 : ℝ) ≤ acc ^ (16.0 : ℝ) := Real.rpow_nonneg hacc _
  have : (0 : ℝ) ≤ (t * (0.0016 / (1.0 + 2.0 * m)) * acc ^ (16.0 : ℝ)) * (1.0 - 0.003 * hp * hp) :=
    mul_nonneg (mul_nonneg (mul_nonneg ht h2) h3) h1
  have h13 : (0 : ℝ) ≤ 1.3 := by norm_num
  linarith

/-- (b) `compute_aim_value ≥ 0` -/
theorem computeAimBody_nonneg (c : OsuCalc ℝ) (B : OsuCalcBase c) (A : OsuAimOK c) :
    0 ≤ computeAimBody c := by
  · unfold computeAimBody
    extract_lets d0 est snf d1 v0 totalHits lenBonus v1 v2 arFactor v3 v4 v5
    have ht : (0 : ℝ) < totalHits := B.totalHits_pos
    have hl : (0 : ℝ) < lenBonus := osuLenBonus_pos ht
    have h0 : (0 : ℝ) ≤ v0 := (strainDifficultyToPerformance_pos d1).le
    have h1 : (0 : ℝ) ≤ v1 := mul_nonneg h0 hl.le
    have h2 : (0 : ℝ) ≤ v2 := by
      refine ite_mul_nonneg h1 (fun hm => ?_)
      have hm' : (0 : ℝ) < c.effectiveMissCount := by
        have := (r_lt _ _).1 hm
        have h0 : (0.0 : ℝ) = 0 := by norm_num
        rwa [h0] at this
      exact (calculateMissPenalty_mem B.emc_nonneg (A.strain hm')).1.le
    have har : (0 : ℝ) ≤ arFactor := osuArFactorAim_nonneg c
    have h3 : (0 : ℝ) ≤ v3 := by
      refine mul_nonneg h2 ?_
      show (0 : ℝ) ≤ 1.0 + arFactor * lenBonus
      exact one_add_mul_nonneg har hl.le
    have h4 : (0 : ℝ) ≤ v4 := by
      show (0 : ℝ) ≤ (if c.mods.bl = true then
          v3 * (1.3 + (totalHits * (0.0016 / (1.0 + 2.0 * c.effectiveMissCount)) * c.acc ^ (16.0 : ℝ))
            * (1.0 - 0.003 * c.attrs.hp * c.attrs.hp))
        else if (c.mods.hd || c.mods.tc) = true then v3 * (1.0 + 0.04 * (12.0 - c.attrs.ar)) else v3)
      split_ifs
      · exact mul_nonneg h3 (blindsFactor_nonneg ht.le B.emc_nonneg B.acc_nonneg A.hp_sq)
      · refine mul_nonneg h3 ?_
        have := A.ar_le
        norm_num; linarith
      · exact h3
    have h5 : (0 : ℝ) ≤ v5 := mul_nonneg h4 B.acc_nonneg
    exact mul_nonneg h5 (odFactor_pos (by norm_num) (by norm_num) _).le

theorem computeAimValue_nonneg (c : OsuCalc ℝ) (B : OsuCalcBase c) (A : OsuAimOK c) :
    0 ≤ computeAimValue c := by
  unfold computeAimValue
  by_cases h : c.mods.ap = true
  · rw [if_pos h]; norm_num
  · rw [if_neg h]; exact computeAimBody_nonneg c B A

/-- (a) `compute_aim_value`: every partial operation in its domain -/
theorem computeAimBodyDom_true (c : OsuCalc ℝ) (B : OsuCalcBase c) (A : OsuAimOK c) :
    computeAimBodyDom c = true := by
  unfold computeAimBodyDom
  · have ht : (0 : ℝ) < c.totalHits := B.totalHits_pos
    have e1 : (if (decide (c.attrs.nSliders > 0) && PPOps.lt 0.0 c.attrs.aimDifficultSliderCount) = true then
        (if c.usingClassicSliderAcc = true then decide (c.state.maxCombo ≤ c.attrs.maxCombo)
         else decide (c.state.sliderEndHits ≤ c.attrs.nSliders) && decide (c.state.largeTickHits ≤ c.attrs.nLargeTicks))
          && PPOps.le 0.0 c.attrs.aimDifficultSliderCount && nz c.attrs.aimDifficultSliderCount
      else true) = true := by
      split_ifs with h hcl
      · rw [Bool.and_eq_true] at h
        have hpos : (0 : ℝ) < c.attrs.aimDifficultSliderCount := by
          have := (r_lt _ _).1 h.2
          have h0 : (0.0 : ℝ) = 0 := by norm_num
          rwa [h0] at this
        have a1 : decide (c.state.maxCombo ≤ c.attrs.maxCombo) = true := decide_eq_true (A.combo hcl)
        have a2 : PPOps.le (0.0 : ℝ) c.attrs.aimDifficultSliderCount = true := by
          rw [r_le]; have h0 : (0.0 : ℝ) = 0 := by norm_num
          rw [h0]; exact hpos.le
        have a3 : nz c.attrs.aimDifficultSliderCount = true := by rw [nz_iff]; exact hpos.ne'
        rw [a1, a2, a3]; rfl
      · rw [Bool.and_eq_true] at h
        have hpos : (0 : ℝ) < c.attrs.aimDifficultSliderCount := by
          have := (r_lt _ _).1 h.2
          have h0 : (0.0 : ℝ) = 0 := by norm_num
          rwa [h0] at this
        have hcl' : c.usingClassicSliderAcc = false := by simpa using hcl
        have a0 : decide (c.state.sliderEndHits ≤ c.attrs.nSliders) = true := decide_eq_true (A.ends hcl')
        have a1 : decide (c.state.largeTickHits ≤ c.attrs.nLargeTicks) = true := decide_eq_true (A.ticks hcl')
        have a2 : PPOps.le (0.0 : ℝ) c.attrs.aimDifficultSliderCount = true := by
          rw [r_le]; have h0 : (0.0 : ℝ) = 0 := by norm_num
          rw [h0]; exact hpos.le
        have a3 : nz c.attrs.aimDifficultSliderCount = true := by rw [nz_iff]; exact hpos.ne'
        rw [a0, a1, a2, a3]; rfl
      · rfl
    have e2 : osuLenBonusDom c.totalHits = true := osuLenBonusDom_true ht
    have e3 : (if PPOps.lt 0.0 c.effectiveMissCount = true then
          calculateMissPenaltyDom c.effectiveMissCount c.attrs.aimDifficultStrainCount
        else true) = true := by
      split_ifs with hm
      · have hm' : (0 : ℝ) < c.effectiveMissCount := by
          have := (r_lt _ _).1 hm
          have h0 : (0.0 : ℝ) = 0 := by norm_num
          rwa [h0] at this
        exact calculateMissPenaltyDom_true B.emc_nonneg (A.strain hm')
      · rfl
    have e4 : (if c.mods.bl = true then nz (1.0 + 2.0 * c.effectiveMissCount : ℝ) else true) = true := by
      split_ifs
      · rw [nz_iff]
        have := B.emc_nonneg
        have : (0 : ℝ) < 1.0 + 2.0 * c.effectiveMissCount := by norm_num; linarith
        exact this.ne'
      · rfl
    rw [e1, e2, e3, e4]; rfl

theorem computeAimValueDom_true (c : OsuCalc ℝ) (B : OsuCalcBase c) (A : OsuAimOK c) :
    computeAimValueDom c = true := by
  unfold computeAimValueDom
  by_cases h : c.mods.ap = true
  · rw [if_pos h]
  · rw [if_neg h]; exact computeAimBodyDom_true c B A

end Rosu.PerfCalc
