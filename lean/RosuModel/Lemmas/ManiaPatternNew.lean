import RosuModel.Lemmas.ManiaPatternSafeLoop
import RosuModel.Lemmas.ManiaPatternTime
import Mathlib.Data.Rat.Floor

/-!
The slider arithmetic of `PathObjectPatternGenerator::new` establishes what the generators rely on:
`start_time ≤ end_time`, `segment_duration ≥ 0`, `segment_duration · span_count ≤ end_time − start_time`
— given a non-negative float increment (`dist · beat_len · spans · 0.01 / slider_multiplier ≥ 0`, true
of decoded maps: `expected_dist ≥ 0`, beat length and slider multiplier positive) and the law that
`floor(i + d) ≥ i` for `d ≥ 0`.
-/
namespace Rosu.ManiaPattern
open Rosu.Safety Rosu.Rng Rosu.ConvertWF

variable {F : Type}

/-- `(f64::from(i) + d).floor() as i32` is at least `i` for `d ≥ 0`, and an `i32` -/
structure FloorLaw (A : PArith F) : Prop where
  floor_add : ∀ (i : Int) (d : F), -2147483648 ≤ i → i ≤ 2147483647 → A.le (A.pct 0) d = true →
    i ≤ A.floorI32 (A.add (A.ofInt i) d) ∧ A.floorI32 (A.add (A.ofInt i) d) ≤ 2147483647

theorem ratArith_floorLaw : FloorLaw ratArith where
  floor_add := by
    intro i d h1 h2 hd
    simp only [ratArith, decide_eq_true_eq] at hd ⊢
    have hd0 : (0 : Rat) ≤ d := by simpa using hd
    have hfl : i ≤ Rat.floor ((i : Rat) + d) := by
      rw [Rat.le_floor_iff]; linarith
    constructor
    · omega
    · omega

/-- what `new` hands to the generator -/
theorem pathNew_wf {A : PArith F} (hF : FloorLaw A) (startT span : Int) (dist beatLen sm : F)
    (hlo : -2147483648 ≤ startT) (hhi : startT ≤ 2147483647) (hspan : 1 ≤ span)
    (hd : A.le (A.pct 0) (pathNewDelta A span dist beatLen sm) = true)
    (r : Int × Int) (h : pathNew A startT span dist beatLen sm = .ok r) :
    startT ≤ r.1 ∧ r.1 ≤ 2147483647 ∧ r.1 - startT ≤ 2147483647 ∧ 0 ≤ r.2 ∧ r.2 * span ≤ r.1 - startT := by
  unfold pathNew at h
  simp only at h
  have hf := hF.floor_add startT _ hlo hhi hd
  generalize A.floorI32 (A.add (A.ofInt startT) (pathNewDelta A span dist beatLen sm)) = e at h hf
  obtain ⟨d, hsub, h2⟩ := bind_ok h
  unfold i32sub at hsub
  split at hsub
  · cases hsub
  · rename_i hr
    cases hsub
    rw [if_neg (by omega), if_neg (by omega)] at h2
    cases h2
    have hnn : 0 ≤ e - startT := by omega
    refine ⟨hf.1, hf.2, by omega, Int.tdiv_nonneg hnn (by omega), ?_⟩
    rw [Int.tdiv_eq_ediv_of_nonneg hnn]
    exact Int.ediv_mul_le _ (by omega)

/-- **(c) with the constructor included**: the end time and segment duration `new` computes make
every note the path generator emits have `end ≥ start`. -/
theorem path_new_then_generate_durations {A : PArith F} (hF : FloorLaw A) (total : Nat) (x : Int)
    (sample ct : Nat) (prev : Pat) (cd : F) (nodes : List Nat) (fuel : Nat)
    (startT span : Int) (dist beatLen sm : F)
    (hlo : -2147483648 ≤ startT) (hhi : startT ≤ 2147483647) (hspan : 1 ≤ span)
    (hd : A.le (A.pct 0) (pathNewDelta A span dist beatLen sm) = true)
    (e seg : Int) (hnew : pathNew A startT span dist beatLen sm = .ok (e, seg))
    (s : Osu) (ps : List Pat) (s' : Osu)
    (h : pathGenerate A ⟨total, x, sample, ct, prev, cd, span, startT, e, seg, nodes, fuel⟩ s = .ok (ps, s')) :
    ∀ p ∈ ps, ∀ n ∈ p.notes, TimeOk n.time := by
  have w := pathNew_wf hF startT span dist beatLen sm hlo hhi hspan hd _ hnew
  exact pathGenerate_t _ w.1 w.2.2.2.1 s _ h

/-- …and `SliderWf` except for the headroom of the last `start_time += segment_duration` -/
theorem sliderWf_of_new {A : PArith F} (hF : FloorLaw A) (startT span : Int) (dist beatLen sm : F)
    (hlo : -2147483648 ≤ startT) (hhi : startT ≤ 2147483647) (hspan : 1 ≤ span)
    (hd : A.le (A.pct 0) (pathNewDelta A span dist beatLen sm) = true)
    (e seg : Int) (hnew : pathNew A startT span dist beatLen sm = .ok (e, seg))
    (hfit : startT + seg * (span + 1) ≤ 2147483647) : SliderWf span startT e seg := by
  have w := pathNew_wf hF startT span dist beatLen sm hlo hhi hspan hd _ hnew
  exact ⟨hspan, w.2.2.2.1, hlo, w.1, w.2.2.1, w.2.1, w.2.2.2.2, hfit⟩

end Rosu.ManiaPattern

namespace Rosu.ManiaPattern
open Rosu.Safety Rosu.Rng

/-! ## (d) duplicates: what `find_available_column` guarantees -/

theorem facLoopA_valid (avoid : Option Nat) (pats : List Cols) (next : Osu → Nat → M (Nat × Osu)) :
    ∀ (fuel : Nat) (s : Osu) (col c : Nat) (s' : Osu),
      facLoopA avoid pats next fuel s col = .ok (c, s') → isValidA avoid pats c = .ok true := by
  intro fuel
  induction fuel with
  | zero => intro s col c s' h; cases h
  | succ k ih =>
    intro s col c s' h
    unfold facLoopA at h
    split at h
    · cases h
    · split at h
      · cases h
      · rename_i hv; cases h; exact hv
      · exact ih _ _ _ _ h

/-- the column `find_available_column` returns is valid: not excluded by the `validation` closure
and free in every pattern it was given -/
theorem findAvail_valid {avoid : Option Nat} {pats : List Cols} {lower upper : Nat}
    {next : Osu → Nat → M (Nat × Osu)} {fuel : Nat} {s s' : Osu} {initial c : Nat}
    (h : findAvail avoid pats lower upper next fuel s initial = .ok (c, s')) :
    isValidA avoid pats c = .ok true := by
  unfold findAvail at h
  split at h
  · cases h
  · rename_i hv; cases h; exact hv
  · split at h
    · cases h
    · cases h
    · exact facLoopA_valid avoid pats next fuel s initial c s' h

/-- …in particular it is not yet a column of the pattern being built -/
theorem findAvail_fresh {avoid : Option Nat} {p : Cols} {ps : List Cols} {lower upper : Nat}
    {next : Osu → Nat → M (Nat × Osu)} {fuel : Nat} {s s' : Osu} {initial c : Nat} (hc : c < 16)
    (h : findAvail avoid (p :: ps) lower upper next fuel s initial = .ok (c, s')) :
    p.testBit c = false := by
  have hv := findAvail_valid h
  rw [isValidA_eq avoid _ hc] at hv
  simp only [List.all_cons, Except.ok.injEq, Bool.and_eq_true, Bool.not_eq_true'] at hv
  exact hv.2.1

end Rosu.ManiaPattern
