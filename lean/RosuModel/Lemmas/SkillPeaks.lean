import RosuModel.Lemmas.Skill

/-!
Strain skeleton: a property of the values the strain functions return is inherited by every stored
and exported peak (`Model/Skill.lean`, the section loop of `define_skill!`).

`Pr` is a predicate on `f64` bit patterns that holds for `+0.0` and is closed under `f64::max`
(e.g. "non-negative and not NaN" = pattern `≤ +inf`); `Inv` is an invariant of the skill's own state
(e.g. `current_strain ≥ 0`) that both strain functions preserve.  Then every peak of every section —
closed or open — satisfies `Pr`, for every object list and every fuel.
-/

namespace Rosu.Skill
open Rosu.SV

variable {T P σ : Type}

/-- closure conditions -/
structure PeakClosed (A : Arith T) (F : StrainFns T P σ) (Inv : σ → Prop) (Pr : Nat → Prop) : Prop where
  zero : Pr 0
  fmax : ∀ a b, Pr a → Pr b → Pr (A.fmax a b)
  sv : ∀ s o, Inv s → Inv (F.strainValueAt s o).1 ∧ Pr (F.strainValueAt s o).2
  ini : ∀ s t o, Inv s → Inv (F.initialStrain s t o).1 ∧ Pr (F.initialStrain s t o).2

/-- invariant: skill state, open section peak, stored peaks -/
def AllP (Inv : σ → Prop) (Pr : Nat → Prop) (st : State T σ) : Prop :=
  Inv st.sk ∧ Pr st.sectionPeak ∧ ∀ x ∈ st.peaks.abs, Pr x

theorem pr_canon {Pr : Nat → Prop} (h0 : Pr 0) {b : Nat} (hb : Pr b) : Pr (canon b) := by
  unfold canon; split
  · exact hb
  · exact h0

theorem push_allP {Pr : Nat → Prop} (h0 : Pr 0) {s : SVec} (hw : WF s) (hl : s.len + 1 < SIGN) {b : Nat}
    (hb : Pr b) (hs : ∀ x ∈ s.abs, Pr x) : ∀ x ∈ (s.push b).abs, Pr x := by
  rw [push_abs s b (hw.bound hl)]
  intro x hx
  rw [List.mem_append] at hx
  rcases hx with hx | hx
  · exact hs x hx
  · rw [List.mem_singleton] at hx; rw [hx]; exact pr_canon h0 hb

variable (A : Arith T) (F : StrainFns T P σ) (Inv : σ → Prop) (Pr : Nat → Prop)

theorem sectionLoop_allP (hb : Bounded A F) (hc : PeakClosed A F Inv Pr) (o : Obj T P) :
    ∀ (fuel : Nat) (st st' : State T σ), sectionLoop A F o fuel st = some st' →
    st'.peaks.len + 1 < SIGN → Good st → AllP Inv Pr st → AllP Inv Pr st' := by
  intro fuel
  induction fuel with
  | zero =>
    intro st st' h _ _ ha
    simp only [sectionLoop] at h
    split at h
    · cases h
    · cases h; exact ha
  | succ fuel ih =>
    intro st st' h hl hg ha
    simp only [sectionLoop] at h
    split at h
    · have hm := sectionLoop_mono A F o fuel _ _ h
      simp only [push_len] at hm
      have hi := hc.ini st.sk st.sectionEnd o ha.1
      exact ih _ _ h hl ⟨push_WF hg.1 _ hg.2 (by omega), hb.ini _ _ _⟩
        ⟨hi.1, hi.2, push_allP hc.zero hg.1 (by omega) ha.2.1 ha.2.2⟩
    · cases h; exact ha

theorem process_allP (hb : Bounded A F) (hc : PeakClosed A F Inv Pr) (fuel : Nat)
    (o : Obj T P) (st st' : State T σ) (h : process A F fuel st o = some st')
    (hl : st'.peaks.len + 1 < SIGN) (hg : Good st) (ha : AllP Inv Pr st) : AllP Inv Pr st' := by
  unfold process at h
  simp only at h
  split at h
  · cases h
  · rename_i s hs
    cases h
    have hg0 : Good (if o.idx = 0 then { st with sectionEnd := A.ceilSec o.startTime } else st) := by
      split <;> exact hg
    have ha0 : AllP Inv Pr (if o.idx = 0 then { st with sectionEnd := A.ceilSec o.startTime } else st) := by
      split <;> exact ha
    have h1 := sectionLoop_allP A F Inv Pr hb hc o fuel _ s hs hl hg0 ha0
    have hv := hc.sv s.sk o h1.1
    exact ⟨hv.1, hc.fmax _ _ hv.2 h1.2.1, h1.2.2⟩

theorem processAll_allP (hb : Bounded A F) (hc : PeakClosed A F Inv Pr) (fuel : Nat)
    (os : List (Obj T P)) : ∀ (st st' : State T σ), processAll A F fuel st os = some st' →
    st'.peaks.len + 1 < SIGN → Good st → AllP Inv Pr st → AllP Inv Pr st' := by
  induction os with
  | nil => intro st st' h _ _ ha; simp only [processAll] at h; cases h; exact ha
  | cons o os ih =>
    intro st st' h hl hg ha
    unfold processAll at h
    split at h
    · cases h
    · rename_i s hs
      have hm := processAll_mono A F fuel os s st' h
      exact ih s st' h hl (process_good A F hb fuel o st s hs (by omega) hg)
        (process_allP A F Inv Pr hb hc fuel o st s hs (by omega) hg ha)

/-- Every exported peak (`strains()` / what `difficulty_value` folds over) satisfies `Pr`. -/
theorem exported_peaks_allP (hb : Bounded A F) (hc : PeakClosed A F Inv Pr) (fuel : Nat) (zero : T) (s0 : σ)
    (h0 : Inv s0) (os : List (Obj T P)) (st : State T σ)
    (h : processAll A F fuel (State.init zero s0) os = some st) (hl : st.peaks.len + 1 < SIGN) :
    exportPeaks st = some (currentStrainPeaks st).abs ∧ ∀ x ∈ (currentStrainPeaks st).abs, Pr x := by
  have hg := processAll_good A F hb fuel os _ st h hl (init_good zero s0)
  have hinit : AllP Inv Pr (State.init zero s0) := by
    refine ⟨h0, hc.zero, ?_⟩
    intro x hx
    simp [State.init, SVec.empty, SVec.abs, absList] at hx
  have ha := processAll_allP A F Inv Pr hb hc fuel os _ st h hl (init_good zero s0) hinit
  exact ⟨(exportPeaks_spec hg hl).1, push_allP hc.zero hg.1 hl ha.2.1 ha.2.2⟩

end Rosu.Skill
