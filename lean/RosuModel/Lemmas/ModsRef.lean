import RosuModel.Lemmas.ModsAccessors

/-! The `&GameModsIntermode` spelling: `checked_bits` of a set that came from bits, and the
resulting downgrade to the Legacy representation. -/
namespace Rosu.Mods
open Rosu.Gen.Mods

/-- bit positions the accessors read -/
def relevant : List Nat := [0, 1, 2, 3, 4, 6, 7, 8, 10, 12, 13, 15, 16, 17, 18, 19, 24, 26, 27, 28]

def cbStep (acc : Option Nat) (m : IMod) : Option Nat :=
  match acc, m.bits with
  | some a, some b => some (b ||| a)
  | _, _ => none

theorem checkedBits_eq (s : List IMod) : checkedBits s = (imIter s).foldl cbStep (some 0) := rfl

theorem foldl_cbStep (l : List IMod) (acc : Nat) (h : ∀ m ∈ l, m.bits.isSome = true) :
    ∃ c, l.foldl cbStep (some acc) = some c ∧
      ∀ i, c.testBit i = (acc.testBit i || l.any (fun m => (m.bits.getD 0).testBit i)) := by
  induction l generalizing acc with
  | nil => exact ⟨acc, rfl, by simp⟩
  | cons m l ih =>
    have hm := h m (List.mem_cons_self ..)
    obtain ⟨mb, hmb⟩ := Option.isSome_iff_exists.mp hm
    obtain ⟨c, hc, ht⟩ := ih (mb ||| acc) (fun x hx => h x (List.mem_cons_of_mem _ hx))
    refine ⟨c, ?_, ?_⟩
    · simp only [List.foldl_cons, cbStep, hmb]; exact hc
    · intro i
      rw [ht i]
      simp only [Nat.testBit_or, List.any_cons, hmb, Option.getD_some]
      cases mb.testBit i <;> cases acc.testBit i <;> simp

theorem bits_isSome_of_mem (b : Nat) (m : IMod) (h : m ∈ imIter (fromBits b)) : m.bits.isSome = true := by
  have h2 := ((mem_imIter _ _).mp h).2
  rw [mem_fromBits] at h2
  cases m <;> simp_all [bitOf, IMod.idx, IMod.bits]

theorem any_imIter (s : List IMod) (p : IMod → Bool) :
    (imIter s).any p = orderAll.any (fun m => s.contains m && p m) := by
  unfold imIter; rw [List.any_filter]

theorem checkedBits_fromBits (b : Nat) :
    ∃ c, checkedBits (fromBits b) = some c ∧ ∀ i ∈ relevant, c.testBit i = b.testBit i := by
  obtain ⟨c, hc, ht⟩ := foldl_cbStep (imIter (fromBits b)) 0 (bits_isSome_of_mem b)
  refine ⟨c, by rw [checkedBits_eq]; exact hc, ?_⟩
  intro i hi
  rw [ht i, any_imIter]
  simp only [relevant, List.mem_cons, List.mem_nil_iff, or_false] at hi
  rcases hi with rfl | rfl | rfl | rfl | rfl | rfl | rfl | rfl | rfl | rfl | rfl | rfl | rfl | rfl | rfl | rfl | rfl | rfl | rfl | rfl <;>
    (simp only [orderAll, List.any_cons, List.any_nil, contains_fromBits, bitOf, IMod.idx, IMod.bits,
      Option.map, Option.getD, bit, Nat.testBit_or, Nat.testBit_two_pow, Nat.zero_testBit]
     simp [adjBit]) <;>
    (try (cases b.testBit 6 <;> cases b.testBit 9 <;> simp))
/-- every row reads a relevant bit (or none) -/
def rowRelevant (row : String × IMod × Option LName) : Bool :=
  match row.2.1.idx with
  | some i => relevant.contains i
  | none => true

theorem snapshot_legacy_congr (hrows : hasModRows.all rowOk = true) (hrel : hasModRows.all rowRelevant = true)
    (c b : Nat) (h : ∀ i ∈ relevant, c.testBit i = b.testBit i) :
    (Rep.legacy (legacyFromBits c) : Rep Rat).snapshot = (Rep.legacy (legacyFromBits b) : Rep Rat).snapshot := by
  have hflag : ∀ row ∈ hasModRows,
      (Rep.legacy (legacyFromBits c) : Rep Rat).flag row = (Rep.legacy (legacyFromBits b) : Rep Rat).flag row := by
    intro row hrow
    have hok := List.all_eq_true.mp hrows row hrow
    have hr := List.all_eq_true.mp hrel row hrow
    rw [flag_legacy Rat row hok, flag_legacy Rat row hok]
    unfold bitOf
    unfold rowRelevant at hr
    cases hi : row.2.1.idx with
    | none => rfl
    | some i =>
      rw [hi] at hr
      exact h i (by simpa using hr)
  have hflagAt : ∀ i, (Rep.legacy (legacyFromBits c) : Rep Rat).flagAt i =
      (Rep.legacy (legacyFromBits b) : Rep Rat).flagAt i := by
    intro i
    unfold Rep.flagAt
    cases hg : hasModRows[i]? with
    | none => rfl
    | some row => exact hflag row (List.mem_of_getElem? hg)
  have hb : ∀ i, i ∈ relevant → c.testBit i = b.testBit i := h
  simp only [Rep.snapshot, Snapshot.mk.injEq]
  refine ⟨?_, ?_, hflagAt rowHr, rfl, rfl, ?_, ?_, rfl, rfl, rfl, rfl, rfl, rfl, List.map_congr_left hflag⟩
  · simp only [Rep.clockRate, legacyClockRate_eq, hb 6 (by decide), hb 8 (by decide)]
  · unfold Rep.mult
    rw [find?_congr' multChain _ _ (fun x _ => hflagAt x.1)]
  · rw [reflection_legacy, reflection_legacy, hb 4 (by decide)]
  · rw [maniaKeys_legacy, maniaKeys_legacy]
    simp only [keysOf, hb 26 (by decide), hb 28 (by decide), hb 27 (by decide), hb 15 (by decide),
      hb 16 (by decide), hb 17 (by decide), hb 18 (by decide), hb 19 (by decide), hb 24 (by decide)]

/-- the `&GameModsIntermode` spelling (`From<&GameModsIntermode>`: `checked_bits()` succeeds for
every set that came from bits, so the mods are downgraded to `Legacy`) reports exactly what the
`u32` spelling reports -/
theorem ref_spelling_snapshot (hrows : hasModRows.all rowOk = true) (hrel : hasModRows.all rowRelevant = true)
    (b : Nat) : (spell Rat .intermodeRef b).snapshot = (spell Rat .u32 b).snapshot := by
  obtain ⟨c, hc, ht⟩ := checkedBits_fromBits b
  simp only [spell, hc]
  exact snapshot_legacy_congr hrows hrel c b ht

end Rosu.Mods
