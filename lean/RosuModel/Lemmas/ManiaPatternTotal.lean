import RosuModel.Lemmas.ManiaPatternPath

/-!
No checked operation fails (C05 side): `find_available_column` of the three generators is total up
to fuel exhaustion whenever a free column exists in its range; the end-time (spinner) generator
never fails except by fuel exhaustion, the free column following from its own guard
(`prev.column_with_objs() != total_columns`) for every key count but 8.
-/
namespace Rosu.ManiaPattern
open Rosu.Safety Rosu.Rng Rosu.ConvertWF

variable {F : Type}

/-- "ran to completion, or ran out of fuel in a PRNG-driven retry loop" -/
def OkOrFuel {α : Type} (x : M α) : Prop := (∃ r, x = .ok r) ∨ x = .error .fuel

/-- the failure of a run, if any (decidable form for concrete witnesses) -/
def failOf {α : Type} : M α → Option Fail
  | .ok _ => none
  | .error e => some e

theorem failOf_of_okOrFuel {α : Type} {x : M α} (h : OkOrFuel x) : failOf x = none ∨ failOf x = some .fuel := by
  rcases h with ⟨r, hr⟩ | hr
  · rw [hr]; exact Or.inl rfl
  · rw [hr]; exact Or.inr rfl

theorem isValidA_eq (avoid : Option Nat) (pats : List Cols) {c : Nat} (h : c < 16) :
    isValidA avoid pats c = .ok (decide (avoid ≠ some c) && pats.all (fun p => !p.testBit c)) := by
  unfold isValidA
  split
  · rename_i he; simp [he]
  · rename_i he; rw [isValid_eq pats h]; simp [he]

theorem hasValidA_true (avoid : Option Nat) (pats : List Cols) :
    ∀ (n lower : Nat), lower + n ≤ 16 →
      (∃ c, lower ≤ c ∧ c < lower + n ∧ isValidA avoid pats c = .ok true) →
      hasValidA avoid pats lower n = .ok true := by
  intro n
  induction n with
  | zero => intro lower _ ⟨c, h1, h2, _⟩; omega
  | succ n ih =>
    intro lower hle ⟨c, h1, h2, h3⟩
    unfold hasValidA
    have hl : lower < 16 := by omega
    rw [isValidA_eq avoid pats hl]
    cases hb : (decide (avoid ≠ some lower) && pats.all (fun p => !p.testBit lower))
    · simp only
      apply ih (lower + 1) (by omega)
      refine ⟨c, ?_, by omega, h3⟩
      have : c ≠ lower := by
        intro he; subst he
        rw [isValidA_eq avoid pats hl, hb] at h3; cases h3
      omega
    · rfl

theorem facLoopA_total (avoid : Option Nat) (pats : List Cols) (next : Osu → Nat → M (Nat × Osu))
    (hnext : ∀ s col, col < 16 → ∃ c s', next s col = .ok (c, s') ∧ c < 16) :
    ∀ (fuel : Nat) (s : Osu) (col : Nat), col < 16 → OkOrFuel (facLoopA avoid pats next fuel s col) := by
  intro fuel
  induction fuel with
  | zero => intro s col _; exact Or.inr rfl
  | succ k ih =>
    intro s col hcol
    unfold facLoopA
    obtain ⟨c, s', hn, hc⟩ := hnext s col hcol
    rw [hn]
    simp only
    rw [isValidA_eq avoid pats hc]
    cases (decide (avoid ≠ some c) && pats.all (fun p => !p.testBit c))
    · exact ih s' c hc
    · exact Or.inl ⟨_, rfl⟩

/-- **`find_available_column` is total up to fuel**: with the range inside the 16 bits of
`ContainedColumns`, a column source that stays below 16, and a free column in `[lower, upper)` —
the `assert!` precondition — neither the shifts nor the `assert!` fail. -/
theorem findAvail_total (avoid : Option Nat) (pats : List Cols) (lower upper : Nat)
    (next : Osu → Nat → M (Nat × Osu)) (fuel : Nat) (s : Osu) (initial : Nat)
    (hu : upper ≤ 16) (hi : initial < 16)
    (hnext : ∀ s col, col < 16 → ∃ c s', next s col = .ok (c, s') ∧ c < 16)
    (hfree : ∃ c, lower ≤ c ∧ c < upper ∧ isValidA avoid pats c = .ok true) :
    OkOrFuel (findAvail avoid pats lower upper next fuel s initial) := by
  unfold findAvail
  rw [isValidA_eq avoid pats hi]
  cases (decide (avoid ≠ some initial) && pats.all (fun p => !p.testBit initial))
  · simp only
    obtain ⟨c, h1, h2, h3⟩ := hfree
    rw [hasValidA_true avoid pats (upper - lower) lower (by omega) ⟨c, h1, by omega, h3⟩]
    exact facLoopA_total avoid pats next hnext fuel s initial hi
  · exact Or.inl ⟨_, rfl⟩

theorem randomNext_total {A : PArith F} (hA : RangeLaw A) {lo hi : Nat} (h : lo < hi) (hh : hi ≤ 16)
    (s : Osu) (col : Nat) : ∃ c s', randomNext A lo hi s col = .ok (c, s') ∧ c < 16 := by
  refine ⟨(getRandomColumn A s lo hi).1, (getRandomColumn A s lo hi).2, rfl, ?_⟩
  have := getRandomColumn_bounds hA s lo hi h (by omega)
  omega

theorem Pat.single_ok {c : Nat} (t : NoteTime) (h : c < 16) : ∃ p, Pat.single c t = .ok p := by
  unfold Pat.single Pat.add
  rw [Cols.insert_some _ h]
  exact ⟨_, rfl⟩

/-! ## counting: a pattern inside `[0, T)` that does not fill it leaves a column free -/

theorem filter_lt_range_length (T : Nat) : ∀ n, ((List.range n).filter (fun i => decide (i < T))).length = min n T := by
  intro n
  induction n with
  | zero => simp
  | succ n ih =>
    rw [List.range_succ, List.filter_append, List.length_append, ih]
    by_cases h : n < T
    · simp [h]; omega
    · simp [h]; omega

/-- all columns of `[0, T)` occupied and none outside: `column_with_objs() == T` -/
theorem Cols.len_eq_of_full (p : Cols) (T : Nat) (hT : T ≤ 16) (hin : ∀ c, p.testBit c = true → c < T)
    (hfull : ∀ c, c < T → p.testBit c = true) : Cols.len p = T := by
  unfold Cols.len
  have : (List.range 16).filter (fun i => p.testBit i) = (List.range 16).filter (fun i => decide (i < T)) := by
    apply List.filter_congr
    intro i _
    by_cases h : i < T
    · simp [h, hfull i h]
    · cases hb : p.testBit i
      · simp [h]
      · exact absurd (hin i hb) h
  rw [this, filter_lt_range_length]
  omega

/-- the guard `column_with_objs() != total_columns` yields a free column of `[0, T)` -/
theorem free_of_count_ne (p : Cols) (T : Nat) (hT : T ≤ 16) (hin : ∀ c, p.testBit c = true → c < T)
    (hne : Cols.len p ≠ T) : ∃ c, c < T ∧ p.testBit c = false := by
  apply Classical.byContradiction
  intro hno
  apply hne
  apply Cols.len_eq_of_full p T hT hin
  intro c hc
  cases hb : p.testBit c
  · exact absurd ⟨c, hc, hb⟩ hno
  · rfl

/-! ## the end-time generator never fails (except by fuel) -/

/-- **(b) for the end-time generator.**  If stacking is forbidden (`prev.column_with_objs() !=
total_columns`) and a column of the draw range `[lower, total)` is free in the previous pattern,
`EndTimeObjectPatternGenerator::generate()` runs to completion (or exhausts the fuel of its random
retry loop): no shift overflow, no failed `assert!`. -/
theorem endGenerate_total {A : PArith F} (hA : RangeLaw A) (g : EndIn) (h1 : 1 ≤ g.total)
    (h16 : g.total ≤ 16) (s : Osu)
    (hfree : g.prev.count ≠ g.total →
      ∃ c, (if g.total = 8 then 1 else 0) ≤ c ∧ c < g.total ∧ g.prev.cols.testBit c = false) :
    OkOrFuel (endGenerate A g s) := by
  unfold endGenerate
  simp only
  split
  · obtain ⟨p, hp⟩ := Pat.single_ok (if g.hold = true then NoteTime.holdObject else NoteTime.atObject)
      (by omega : 0 < 16)
    rw [hp]; exact Or.inl ⟨_, rfl⟩
  · have hlow : (if g.total = 8 then randomStart g.total else 0) < g.total := by
      have := randomStart_lt h1
      split <;> omega
    have hlow' : (if g.total = 8 then randomStart g.total else 0) = (if g.total = 8 then 1 else 0) := by
      unfold randomStart; split <;> simp_all
    have hstep : OkOrFuel (endRandomColumn A g (if g.total = 8 then randomStart g.total else 0) s) := by
      unfold endRandomColumn
      simp only
      generalize (if g.total = 8 then randomStart g.total else 0) = lower at hlow hlow'
      have hb := getRandomColumn_bounds hA s lower g.total hlow (by omega)
      generalize getRandomColumn A s lower g.total = rc at hb
      obtain ⟨c0, s1⟩ := rc
      simp only at hb ⊢
      apply findAvail_total _ _ _ _ _ _ _ _ h16 (by omega)
        (fun s col _ => randomNext_total hA hlow h16 s col)
      by_cases hne : g.prev.count != g.total
      · simp only [hne, if_true]
        have hne' : g.prev.count ≠ g.total := by simpa using hne
        obtain ⟨c, hc1, hc2, hc3⟩ := hfree hne'
        refine ⟨c, by omega, hc2, ?_⟩
        rw [isValidA_eq none _ (by omega : c < 16)]
        simp [hc3]
      · simp only [hne]
        refine ⟨lower, Nat.le_refl _, hlow, ?_⟩
        rw [isValidA_eq none _ (by omega : lower < 16)]
        simp
    rcases hstep with ⟨⟨c, s'⟩, hr⟩ | hr
    · rw [hr]
      have hc : c < g.total := by
        have hb := getRandomColumn_bounds hA s _ g.total hlow (by omega)
        unfold endRandomColumn at hr
        simp only at hr
        exact findAvail_inv (· < g.total)
          (fun s col c s' _ hn => (randomNext_inv hA hlow (by omega) s col c s' hn).2) hb.2 hr
      obtain ⟨p, hp⟩ := Pat.single_ok (if g.hold = true then NoteTime.holdObject else NoteTime.atObject)
        (by omega : c < 16)
      simp only [bind, Except.bind]
      rw [hp]; exact Or.inl ⟨_, rfl⟩
    · rw [hr]; exact Or.inr rfl

/-- For every key count except 8 the hypothesis of `endGenerate_total` is discharged by the
generator's own guard: a previous pattern inside `[0, total)` that does not fill it. -/
theorem endGenerate_total_not8 {A : PArith F} (hA : RangeLaw A) (g : EndIn) (h1 : 1 ≤ g.total)
    (h16 : g.total ≤ 16) (h8 : g.total ≠ 8) (s : Osu)
    (hin : ∀ c, g.prev.cols.testBit c = true → c < g.total) :
    OkOrFuel (endGenerate A g s) := by
  apply endGenerate_total hA g h1 h16 s
  intro hne
  obtain ⟨c, hc, hb⟩ := free_of_count_ne g.prev.cols g.total h16 hin hne
  exact ⟨c, by simp [h8], hc, hb⟩

end Rosu.ManiaPattern
