import RosuModel.Lemmas.PerfCalcSmall
import RosuModel.Lemmas.FiniteXF

/-! taiko pp formulas over ℝ: Wilson bound, deviation, side conditions, sign, zero hits. -/

namespace Rosu.PerfCalc
open PPOps
open Rosu.Finite (TaikoState)

/-- What the theorems use about the special functions: signs on the open domains.  These are facts
about the rational approximations `erf_imp` / `erf_inv_impl`; they are NOT proved here (hypotheses of
the taiko / osu! theorems), and are checked on the implementation on a dense grid by the `PP erf` /
`PP erfinv` lines (the model's transcription is bit-identical to the code there). -/
structure ErfFacts (sf : Special ℝ) : Prop where
  /-- only up to `1 − 10⁻¹¹`: for the transcribed approximation the claim is FALSE on all of (0,1) over ℝ
  (the last branch of `erf_inv_impl` has a negative leading coefficient: `Y + P(x)/Q(x) < 0` for
  `x = sqrt(−ln(1−z)) > 6.6·10⁹`); the Wilson bounds the calculators pass stay below `1 − 10⁻¹¹`
  for up to `2³⁴` hits (`pLowerBound_le`) -/
  erfInv_pos : ∀ z : ℝ, 0 < z → z ≤ 1 - 1e-11 → 0 < sf.erfInv z
  erf_pos : ∀ x : ℝ, 0 < x → 0 < sf.erf x

theorem zCrit_pos : (0 : ℝ) < zCrit := by
  unfold zCrit; norm_num

theorem pLowerBound_eq_K (n p : ℝ) :
    pLowerBound n p
      = Rosu.Finite.pLowerK n p zCrit (Real.sqrt (n * p * (1 - p) + zCrit * zCrit / 4)) := by
  unfold pLowerBound Rosu.Finite.pLowerK
  simp only [r_add, r_sub, r_mul, r_div, r_lit, r_sqrt]
  norm_num

/-- Wilson lower bound strictly inside (0,1) for `n > 0`, `0 < p ≤ 1` -/
theorem pLowerBound_mem (n p : ℝ) (hn : 0 < n) (hp0 : 0 < p) (hp1 : p ≤ 1) :
    0 < pLowerBound n p ∧ pLowerBound n p < 1 := by
  rw [pLowerBound_eq_K]
  have hrad : 0 ≤ n * p * (1 - p) + zCrit * zCrit / 4 := by
    have : 0 ≤ 1 - p := by linarith
    have := zCrit_pos
    positivity
  exact Rosu.Finite.pLowerK_mem_Ioo n p zCrit _ hn hp0 hp1 zCrit_pos (Real.sqrt_nonneg _)
    (Real.mul_self_sqrt hrad)

/-- the number of (relevant) hits the bound `1 − 10⁻¹¹` is good for -/
def maxHits : ℝ := 17179869184

/-- the Wilson bound stays away from 1: `≤ 1 − (z²/2)/(n + z²) ≤ 1 − 10⁻¹¹` for `n ≤ 2³⁴` -/
theorem pLowerBound_le (n p : ℝ) (hn : 0 < n) (hp0 : 0 ≤ p) (hp1 : p ≤ 1) (hN : n ≤ maxHits) :
    pLowerBound n p ≤ 1 - 1e-11 := by
  rw [pLowerBound_eq_K]
  have hz : (zCrit : ℝ) = 2.32634787404 := rfl
  have hz0 := zCrit_pos
  have hd : 0 < n + zCrit * zCrit := by positivity
  rw [Rosu.Finite.pLowerK_eq n p zCrit _ hd.ne', div_le_iff₀ hd]
  have hsq : 0 ≤ zCrit * Real.sqrt (n * p * (1 - p) + zCrit * zCrit / 4) :=
    mul_nonneg hz0.le (Real.sqrt_nonneg _)
  have hnp : n * p ≤ n := by nlinarith
  unfold maxHits at hN
  have hzz : zCrit * zCrit = (2.32634787404 : ℝ) * 2.32634787404 := by rw [hz]
  rw [hzz] at hsq ⊢
  norm_num at hsq ⊢
  nlinarith

theorem pLowerBoundDom_true (n p : ℝ) (hn : 0 < n) (hp0 : 0 ≤ p) (hp1 : p ≤ 1) :
    pLowerBoundDom n p = true := by
  unfold pLowerBoundDom
  have hz := zCrit_pos
  have h1 : nz (n + zCrit * zCrit : ℝ) = true := by
    rw [nz_iff]; positivity
  have h2 : PPOps.le (0.0 : ℝ) (n * p * (1.0 - p) + zCrit * zCrit / 4.0) = true := by
    rw [r_le]
    have : 0 ≤ 1 - p := by linarith
    norm_num
    positivity
  rw [Bool.and_eq_true]
  exact ⟨h1, h2⟩

theorem sqrt_two_pos : (0 : ℝ) < Real.sqrt 2.0 := Real.sqrt_pos.2 (by norm_num)

theorem sqrt_two_mul_pos {u : ℝ} (hu : 0 < u) : (0 : ℝ) < Real.sqrt 2.0 * u := mul_pos sqrt_two_pos hu

theorem zero_le_max_one (x : ℝ) : (0 : ℝ) ≤ max 1.0 x := le_trans (by norm_num) (le_max_left _ _)

theorem one_add_mul_nonneg {c x : ℝ} (hc : 0 ≤ c) (hx : 0 ≤ x) : (0 : ℝ) ≤ 1.0 + c * x := by
  have : (1.0 : ℝ) = 1 := by norm_num
  rw [this]; positivity

section
variable (sf : Special ℝ)

/-- the state's proportion of greats -/
theorem taiko_hits_le (s : TaikoState) (hN : s.totalHits ≤ 2 ^ 34) : (s.totalHits : ℝ) ≤ maxHits := by
  unfold maxHits
  have : ((2 ^ 34 : ℕ) : ℝ) = 17179869184 := by norm_num
  rw [← this]; exact_mod_cast hN

theorem taiko_p_bounds (s : TaikoState) (h : s.n300 ≠ 0) :
    (0 : ℝ) < (s.totalHits : ℝ) ∧ (0 : ℝ) < (s.n300 : ℝ) / (s.totalHits : ℝ)
      ∧ (s.n300 : ℝ) / (s.totalHits : ℝ) ≤ 1 := by
  have h3 : 0 < s.n300 := Nat.pos_of_ne_zero h
  have ht : s.n300 ≤ s.totalHits := by unfold TaikoState.totalHits; omega
  have hn : (0 : ℝ) < (s.totalHits : ℝ) := by exact_mod_cast (by omega : 0 < s.totalHits)
  refine ⟨hn, by positivity, ?_⟩
  rw [div_le_one hn]; exact_mod_cast ht

/-- `compute_deviation_upper_bound` returns a positive number whenever it returns -/
theorem taikoDeviationUpperBound_pos (E : ErfFacts sf) (a : TaikoAttrs ℝ) (s : TaikoState)
    (hN : s.totalHits ≤ 2 ^ 34) (v : ℝ)
    (h : taikoDeviationUpperBound sf a s = some v) : 0 < v := by
  unfold taikoDeviationUpperBound at h
  split at h
  · exact absurd h (by simp)
  · rename_i hg
    simp only [Bool.or_eq_true, decide_eq_true_eq, r_le, not_or] at hg
    obtain ⟨h3, hw⟩ := hg
    obtain ⟨hn, hp0, hp1⟩ := taiko_p_bounds s h3
    have hb := pLowerBound_mem _ _ hn hp0 hp1
    simp only [Option.some.injEq] at h
    rw [← h]
    simp only [r_div, r_mul, r_sqrt, r_ofNat]
    have he := E.erfInv_pos _ hb.1 (pLowerBound_le _ _ hn hp0.le hp1 (taiko_hits_le s hN))
    have hw' : (0 : ℝ) < a.greatHitWindow := by
      have := not_le.mp hw; norm_num at this; exact this
    have := sqrt_two_pos
    positivity

theorem taikoDeviationUpperBoundDom_true (E : ErfFacts sf) (a : TaikoAttrs ℝ) (s : TaikoState)
    (hN : s.totalHits ≤ 2 ^ 34) :
    taikoDeviationUpperBoundDom sf a s = true := by
  unfold taikoDeviationUpperBoundDom
  split
  · rfl
  · rename_i hg
    simp only [Bool.or_eq_true, decide_eq_true_eq, r_le, not_or] at hg
    obtain ⟨h3, _⟩ := hg
    obtain ⟨hn, hp0, hp1⟩ := taiko_p_bounds s h3
    have hb := pLowerBound_mem _ _ hn hp0 hp1
    have he := E.erfInv_pos _ hb.1 (pLowerBound_le _ _ hn hp0.le hp1 (taiko_hits_le s hN))
    have h2 := sqrt_two_pos
    simp only [r_div, r_mul, r_sqrt, r_ofNat, Bool.and_eq_true, nz_iff, r_lt, r_neg]
    refine ⟨⟨⟨⟨hn.ne', pLowerBoundDom_true _ _ hn hp0.le hp1⟩, ?_⟩, ?_⟩, ?_⟩
    · have : (-1.0 : ℝ) < 0 := by norm_num
      linarith [hb.1]
    · have : (1.0 : ℝ) = 1 := by norm_num
      rw [this]; exact hb.2
    · positivity

/-- `estimated_unstable_rate` -/
noncomputable def taikoEur (a : TaikoAttrs ℝ) (s : TaikoState) : Option ℝ :=
  (taikoDeviationUpperBound sf a s).map fun v => v * 10.0

theorem taikoEur_pos (E : ErfFacts sf) (a : TaikoAttrs ℝ) (s : TaikoState) (hN : s.totalHits ≤ 2 ^ 34) (u : ℝ)
    (h : taikoEur sf a s = some u) : 0 < u := by
  unfold taikoEur at h
  cases hv : taikoDeviationUpperBound sf a s with
  | none => rw [hv] at h; exact absurd h (by simp)
  | some v =>
    rw [hv] at h
    simp only [Option.map_some, Option.some.injEq, r_mul, r_lit] at h
    have := taikoDeviationUpperBound_pos sf E a s hN v hv
    rw [← h]; norm_num; exact this

theorem taikoEur_none_of_n300_zero (a : TaikoAttrs ℝ) (s : TaikoState) (h : s.n300 = 0) :
    taikoEur sf a s = none := by
  unfold taikoEur taikoDeviationUpperBound
  simp [h]

/-- hypotheses on the taiko attributes: `stars ≥ 0`, `0 ≤ mono_stamina_factor < 5/3`
(`acc_scaling_shift = 500 − 300·msf` stays positive; the difficulty calculation produces
`msf = (mono/stamina)^5 ∈ [0,1]`) -/
structure TaikoAttrsOK (a : TaikoAttrs ℝ) : Prop where
  stars_nonneg : 0 ≤ a.stars
  msf_nonneg : 0 ≤ a.monoStaminaFactor
  msf_lt : a.monoStaminaFactor < 5 / 3

theorem taikoBaseDifficulty_ge_one (stars : ℝ) : (1 : ℝ) ≤ 5.0 * max 1.0 (stars / 0.110) - 4.0 := by
  have hm : (1.0 : ℝ) ≤ max 1.0 (stars / 0.110) := le_max_left _ _
  generalize max (1.0 : ℝ) (stars / 0.110) = mx at hm ⊢
  norm_num at hm ⊢
  linarith

theorem taiko_erf_arg_pos (a : TaikoAttrs ℝ) (H : TaikoAttrsOK a) {u : ℝ} (hu : 0 < u) :
    (0 : ℝ) < (((500 : ℕ) : ℝ) - ((100 : ℕ) : ℝ) * (a.monoStaminaFactor * ((3 : ℕ) : ℝ))) / (Real.sqrt 2.0 * u) := by
  have h2 := H.msf_lt
  apply div_pos _ (sqrt_two_mul_pos hu)
  have e1 : ((500 : ℕ) : ℝ) = 500 := by norm_num
  have e2 : ((100 : ℕ) : ℝ) = 100 := by norm_num
  have e3 : ((3 : ℕ) : ℝ) = 3 := by norm_num
  rw [e1, e2, e3]
  linarith

theorem taikoDifficultyValue_nonneg (E : ErfFacts sf) (a : TaikoAttrs ℝ) (H : TaikoAttrsOK a) (m : TaikoMods)
    (emc : ℝ) (eur : Option ℝ) (hu : ∀ u, eur = some u → 0 < u) :
    0 ≤ taikoDifficultyValue sf a m emc eur := by
  unfold taikoDifficultyValue
  cases eur with
  | none => show (0 : ℝ) ≤ 0.0; norm_num
  | some u =>
    have hu := hu u rfl
    show 0 ≤ taikoDifficultyBody sf a m emc u
    unfold taikoDifficultyBody
    extract_lets baseDifficulty dv0 dv1 lengthBonus dv2 dv3 dv4 dv5 dv6 accScalingExp accScalingShift
    have hb1 : (1 : ℝ) ≤ baseDifficulty := taikoBaseDifficulty_ge_one a.stars
    have hb0 : (0 : ℝ) ≤ baseDifficulty := le_trans zero_le_one hb1
    have h0 : 0 ≤ dv0 := by
      show (0 : ℝ) ≤ min (baseDifficulty ^ (3.0 : ℝ) / 69052.51) (baseDifficulty ^ (2.25 : ℝ) / 1250.0)
      have e1 : (0 : ℝ) ≤ baseDifficulty ^ (3.0 : ℝ) := Real.rpow_nonneg hb0 _
      have e2 : (0 : ℝ) ≤ baseDifficulty ^ (2.25 : ℝ) := Real.rpow_nonneg hb0 _
      exact le_min (by positivity) (by positivity)
    have h1 : 0 ≤ dv1 := by
      refine mul_nonneg h0 ?_
      show (0 : ℝ) ≤ 1.0 + 0.10 * max 0.0 (a.stars - 10.0)
      exact one_add_mul_nonneg (by norm_num) (le_trans (by norm_num) (le_max_left _ _))
    have hlb : (0 : ℝ) ≤ lengthBonus := by
      show (0 : ℝ) ≤ 1.0 + 0.1 * min 1.0 ((a.maxCombo : ℝ) / 1500.0)
      exact one_add_mul_nonneg (by norm_num) (le_min (by norm_num) (by positivity))
    have h2 : 0 ≤ dv2 := mul_nonneg h1 hlb
    have h3 : 0 ≤ dv3 := mul_nonneg h2 (Real.rpow_nonneg (by norm_num : (0 : ℝ) ≤ 0.986) _)
    have h4 : 0 ≤ dv4 := ite_mul_nonneg h3 (fun _ => (by norm_num : (0 : ℝ) ≤ 0.9))
    have h5 : 0 ≤ dv5 := ite_mul_nonneg h4 (fun _ => (by norm_num : (0 : ℝ) ≤ 1.025))
    have h6 : 0 ≤ dv6 := ite_mul_nonneg h5 (fun _ => zero_le_max_one _)
    refine mul_nonneg h6 (Real.rpow_nonneg ?_ _)
    exact (E.erf_pos _ (taiko_erf_arg_pos a H hu)).le

theorem taikoDifficultyValueDom_true (E : ErfFacts sf) (a : TaikoAttrs ℝ) (H : TaikoAttrsOK a) (m : TaikoMods)
    (emc : ℝ) (eur : Option ℝ) (hu : ∀ u, eur = some u → 0 < u) :
    taikoDifficultyValueDom sf a m emc eur = true := by
  unfold taikoDifficultyValueDom
  cases eur with
  | none => rfl
  | some u =>
    have hu := hu u rfl
    show taikoDifficultyBodyDom sf a u = true
    unfold taikoDifficultyBodyDom
    extract_lets baseDifficulty accScalingExp accScalingShift
    have hb1 : (1 : ℝ) ≤ baseDifficulty := taikoBaseDifficulty_ge_one a.stars
    have h2 := sqrt_two_pos
    rw [Bool.and_eq_true, Bool.and_eq_true]
    refine ⟨⟨powfDom_of_pos _ (lt_of_lt_of_le one_pos hb1), ?_⟩, ?_⟩
    · rw [nz_iff]; exact (sqrt_two_mul_pos hu).ne'
    · exact powfDom_of_pos _ (E.erf_pos _ (taiko_erf_arg_pos a H hu))

theorem taikoAccuracyValue_nonneg (a : TaikoAttrs ℝ) (H : TaikoAttrsOK a) (m : TaikoMods) (s : TaikoState)
    (eur : Option ℝ) (hu : ∀ u, eur = some u → 0 < u) :
    0 ≤ taikoAccuracyValue a m s eur := by
  unfold taikoAccuracyValue
  split
  · norm_num
  · cases eur with
    | none => show (0 : ℝ) ≤ 0.0; norm_num
    | some u =>
      have hu := hu u rfl
      show 0 ≤ taikoAccuracyBody a m s u
      unfold taikoAccuracyBody
      extract_lets accValue lengthBonus
      have h0 : 0 ≤ accValue := by
        show (0 : ℝ) ≤ (70.0 / u) ^ (1.1 : ℝ) * a.stars ^ (0.4 : ℝ) * 100.0
        have e1 : (0 : ℝ) ≤ (70.0 / u) ^ (1.1 : ℝ) := Real.rpow_nonneg (by positivity) _
        have e2 : (0 : ℝ) ≤ a.stars ^ (0.4 : ℝ) := Real.rpow_nonneg H.stars_nonneg _
        positivity
      exact ite_mul_nonneg h0 (fun _ => zero_le_max_one _)

theorem taikoAccuracyValueDom_true (a : TaikoAttrs ℝ) (H : TaikoAttrsOK a) (m : TaikoMods) (s : TaikoState)
    (eur : Option ℝ) (hu : ∀ u, eur = some u → 0 < u) :
    taikoAccuracyValueDom a m s eur = true := by
  unfold taikoAccuracyValueDom
  split
  · rfl
  · cases eur with
    | none => rfl
    | some u =>
      have hu := hu u rfl
      show taikoAccuracyBodyDom a s u = true
      unfold taikoAccuracyBodyDom
      rw [Bool.and_eq_true, Bool.and_eq_true, Bool.and_eq_true]
      refine ⟨⟨⟨?_, ?_⟩, ?_⟩, ?_⟩
      · rw [nz_iff]; exact hu.ne'
      · apply powfDom_of_pos; simp only [r_div, r_lit]; positivity
      · exact powfDom_of_nonneg H.stars_nonneg (by norm_num)
      · apply powfDom_of_nonneg _ (by norm_num)
        simp only [r_div, r_lit, r_ofNat]; positivity

/-- the final combination `(d^1.1 + a^1.1)^(1/1.1) · multiplier` -/
theorem taiko_combine_nonneg {d acc mult : ℝ} (hd : 0 ≤ d) (ha : 0 ≤ acc) (hm : 0 ≤ mult) :
    0 ≤ (d ^ (1.1 : ℝ) + acc ^ (1.1 : ℝ)) ^ (1.0 / 1.1 : ℝ) * mult := by
  have e1 : (0 : ℝ) ≤ d ^ (1.1 : ℝ) := Real.rpow_nonneg hd _
  have e2 : (0 : ℝ) ≤ acc ^ (1.1 : ℝ) := Real.rpow_nonneg ha _
  exact mul_nonneg (Real.rpow_nonneg (by linarith) _) hm

/-- `effective_miss_count` of `TaikoPerformanceCalculator::calculate` -/
noncomputable def taikoEmc (s : TaikoState) : ℝ :=
  if s.n300 + s.n100 > 0 then max (1000.0 / ((s.n300 + s.n100 : ℕ) : ℝ)) 1.0 * (s.misses : ℝ) else 0.0

/-- `multiplier` -/
noncomputable def taikoMultiplier (a : TaikoAttrs ℝ) (m : TaikoMods) : ℝ :=
  let multiplier : ℝ := 1.13
  let multiplier := if m.hd && !a.isConvert then multiplier * 1.075 else multiplier
  if m.ez then multiplier * 0.95 else multiplier

theorem taikoCalculate_eur (a : TaikoAttrs ℝ) (m : TaikoMods) (s : TaikoState) :
    (taikoCalculate sf a m s).estimatedUnstableRate = taikoEur sf a s := rfl
theorem taikoCalculate_emc (a : TaikoAttrs ℝ) (m : TaikoMods) (s : TaikoState) :
    (taikoCalculate sf a m s).effectiveMissCount = taikoEmc s := rfl
theorem taikoCalculate_diff (a : TaikoAttrs ℝ) (m : TaikoMods) (s : TaikoState) :
    (taikoCalculate sf a m s).ppDifficulty = taikoDifficultyValue sf a m (taikoEmc s) (taikoEur sf a s) := rfl
theorem taikoCalculate_acc (a : TaikoAttrs ℝ) (m : TaikoMods) (s : TaikoState) :
    (taikoCalculate sf a m s).ppAcc = taikoAccuracyValue a m s (taikoEur sf a s) := rfl
theorem taikoCalculate_pp (a : TaikoAttrs ℝ) (m : TaikoMods) (s : TaikoState) :
    (taikoCalculate sf a m s).pp
      = ((taikoCalculate sf a m s).ppDifficulty ^ (1.1 : ℝ) + (taikoCalculate sf a m s).ppAcc ^ (1.1 : ℝ))
          ^ (1.0 / 1.1 : ℝ) * taikoMultiplier a m := rfl

theorem taikoEmc_nonneg (s : TaikoState) : 0 ≤ taikoEmc s := by
  unfold taikoEmc
  split_ifs
  · exact mul_nonneg (le_trans (by norm_num) (le_max_right _ _)) (by positivity)
  · norm_num

theorem taikoMultiplier_pos (a : TaikoAttrs ℝ) (m : TaikoMods) : 0 < taikoMultiplier a m := by
  unfold taikoMultiplier
  extract_lets m0 m1
  have h0 : (0 : ℝ) < m0 := by show (0 : ℝ) < 1.13; norm_num
  have h1 : (0 : ℝ) < m1 := by
    show (0 : ℝ) < (if (m.hd && !a.isConvert) = true then m0 * 1.075 else m0)
    split_ifs
    · exact mul_pos h0 (by norm_num)
    · exact h0
  split_ifs
  · exact mul_pos h1 (by norm_num)
  · exact h1

/-- (b) taiko: every output is non-negative (the unstable rate positive when present) -/
theorem taikoCalculate_nonneg (E : ErfFacts sf) (a : TaikoAttrs ℝ) (H : TaikoAttrsOK a) (m : TaikoMods)
    (s : TaikoState) (hN : s.totalHits ≤ 2 ^ 34) :
    0 ≤ (taikoCalculate sf a m s).pp ∧ 0 ≤ (taikoCalculate sf a m s).ppAcc
      ∧ 0 ≤ (taikoCalculate sf a m s).ppDifficulty ∧ 0 ≤ (taikoCalculate sf a m s).effectiveMissCount
      ∧ ∀ u, (taikoCalculate sf a m s).estimatedUnstableRate = some u → 0 < u := by
  have hu := taikoEur_pos sf E a s hN
  have hd : 0 ≤ (taikoCalculate sf a m s).ppDifficulty := by
    rw [taikoCalculate_diff]; exact taikoDifficultyValue_nonneg sf E a H m _ _ hu
  have ha : 0 ≤ (taikoCalculate sf a m s).ppAcc := by
    rw [taikoCalculate_acc]; exact taikoAccuracyValue_nonneg a H m s _ hu
  refine ⟨?_, ha, hd, ?_, ?_⟩
  · rw [taikoCalculate_pp]; exact taiko_combine_nonneg hd ha (taikoMultiplier_pos a m).le
  · rw [taikoCalculate_emc]; exact taikoEmc_nonneg s
  · rw [taikoCalculate_eur]; exact hu

/-- `powfDom` of a non-negative base and the exponents `1.1`, `1/1.1` -/
theorem powfDom_11 {x : ℝ} (h : 0 ≤ x) : powfDom x (1.1 : ℝ) = true := powfDom_of_nonneg h (by norm_num)
theorem powfDom_inv11 {x : ℝ} (h : 0 ≤ x) : powfDom x (1.0 / 1.1 : ℝ) = true :=
  powfDom_of_nonneg h (by norm_num)

/-- (a) taiko: every partial operation of `calculate` is in its domain -/
theorem taikoCalculateDom_true (E : ErfFacts sf) (a : TaikoAttrs ℝ) (H : TaikoAttrsOK a) (m : TaikoMods)
    (s : TaikoState) (hN : s.totalHits ≤ 2 ^ 34) : taikoCalculateDom sf a m s = true := by
  have hu := taikoEur_pos sf E a s hN
  have hd : 0 ≤ taikoDifficultyValue sf a m (taikoEmc s) (taikoEur sf a s) :=
    taikoDifficultyValue_nonneg sf E a H m _ _ hu
  have ha : 0 ≤ taikoAccuracyValue a m s (taikoEur sf a s) := taikoAccuracyValue_nonneg a H m s _ hu
  have e1 := taikoDeviationUpperBoundDom_true sf E a s hN
  have e2 : (if s.n300 + s.n100 > 0 then nz (PPOps.ofNat (s.n300 + s.n100) : ℝ) else true) = true := by
    split_ifs with h
    · rw [nz_iff]; simp only [r_ofNat]; exact_mod_cast (by omega : s.n300 + s.n100 ≠ 0)
    · rfl
  have e3 := taikoDifficultyValueDom_true sf E a H m (taikoEmc s) (taikoEur sf a s) hu
  have e4 := taikoAccuracyValueDom_true a H m s (taikoEur sf a s) hu
  have e5 := powfDom_11 hd
  have e6 := powfDom_11 ha
  have e7 : powfDom (taikoDifficultyValue sf a m (taikoEmc s) (taikoEur sf a s) ^ (1.1 : ℝ)
      + taikoAccuracyValue a m s (taikoEur sf a s) ^ (1.1 : ℝ)) (1.0 / 1.1 : ℝ) = true :=
    powfDom_inv11 (add_nonneg (Real.rpow_nonneg hd _) (Real.rpow_nonneg ha _))
  show (taikoDeviationUpperBoundDom sf a s
    && (if s.n300 + s.n100 > 0 then nz (PPOps.ofNat (s.n300 + s.n100) : ℝ) else true)
    && taikoDifficultyValueDom sf a m (taikoEmc s) (taikoEur sf a s)
    && taikoAccuracyValueDom a m s (taikoEur sf a s)
    && powfDom (taikoDifficultyValue sf a m (taikoEmc s) (taikoEur sf a s)) (1.1 : ℝ)
    && powfDom (taikoAccuracyValue a m s (taikoEur sf a s)) (1.1 : ℝ)
    && powfDom (taikoDifficultyValue sf a m (taikoEmc s) (taikoEur sf a s) ^ (1.1 : ℝ)
      + taikoAccuracyValue a m s (taikoEur sf a s) ^ (1.1 : ℝ)) (1.0 / 1.1 : ℝ)) = true
  rw [e1, e2, e3, e4, e5, e6, e7]; rfl

/-- (c) taiko: no great (in particular zero hits) ⇒ `pp = pp_acc = pp_difficulty = 0`, no unstable
rate — for EVERY attribute value and every `erf`/`erf_inv` (no attribute is read) -/
theorem taikoCalculate_no_great (a : TaikoAttrs ℝ) (m : TaikoMods) (s : TaikoState) (h : s.n300 = 0) :
    (taikoCalculate sf a m s).pp = 0 ∧ (taikoCalculate sf a m s).ppAcc = 0
      ∧ (taikoCalculate sf a m s).ppDifficulty = 0
      ∧ (taikoCalculate sf a m s).estimatedUnstableRate = none := by
  have he := taikoEur_none_of_n300_zero sf a s h
  have hd : (taikoCalculate sf a m s).ppDifficulty = 0 := by
    rw [taikoCalculate_diff, he]; show (0.0 : ℝ) = 0; norm_num
  have ha : (taikoCalculate sf a m s).ppAcc = 0 := by
    rw [taikoCalculate_acc, he]; unfold taikoAccuracyValue
    split_ifs <;> (show (0.0 : ℝ) = 0; norm_num)
  refine ⟨?_, ha, hd, ?_⟩
  · rw [taikoCalculate_pp, hd, ha]
    have : ((0 : ℝ) ^ (1.1 : ℝ) + (0 : ℝ) ^ (1.1 : ℝ)) ^ (1.0 / 1.1 : ℝ) = 0 := by
      rw [Real.zero_rpow (by norm_num), add_zero, Real.zero_rpow (by norm_num)]
    rw [this, zero_mul]
  · rw [taikoCalculate_eur, he]

theorem taikoCalculate_zero_hits_emc (a : TaikoAttrs ℝ) (m : TaikoMods) (s : TaikoState)
    (h : s.totalHits = 0) : (taikoCalculate sf a m s).effectiveMissCount = 0 := by
  rw [taikoCalculate_emc]; unfold taikoEmc
  have : ¬ (s.n300 + s.n100 > 0) := by unfold TaikoState.totalHits at h; omega
  rw [if_neg this]; norm_num

end

end Rosu.PerfCalc
