import RosuModel.Lemmas.CurveSubdiv

/-!
# `bezier_approximate`: what a flat leaf emits (for EVERY arithmetic)

`approximate A pts path b` never fails when `1 ≤ pts.size` and the three buffers it hands to
`bezier_subdivide` are at least as long as `pts`; it appends `pts[0]` and then
`approxOut A (leftChild ++ rightChild.drop 1)` to `path`: `max 1 (pts.size - 1)` vertices.
-/
namespace Rosu.Curve

section
variable {S D : Type} (A : Arith S D)

theorem length_approxFrom : ∀ (a : Pos S) (l : List (Pos S)),
    (approxFrom A a l).length = l.length / 2
  | _, [] => by simp [approxFrom]
  | _, [_] => by simp [approxFrom]
  | _, _ :: c :: rest => by
    simp only [approxFrom, List.length_cons, length_approxFrom c rest]; omega

/-- What `bezier_approximate` emits after `points[0]` for the chain `l[..count] ++ r[1..count]`. -/
def approxOut (chain : List (Pos S)) : List (Pos S) :=
  match chain with
  | _ :: c1 :: rest => approxFrom A c1 rest
  | _ => []

theorem length_approxOut (chain : List (Pos S)) :
    (approxOut A chain).length = (chain.length - 2) / 2 := by
  match chain with
  | [] => simp [approxOut]
  | [_] => simp [approxOut]
  | _ :: c1 :: rest => simp [approxOut, length_approxFrom]

/-- The chain of `bezier_approximate` on `pts`: the left child followed by the right child without
its first point (which is the last point of the left child). -/
def chainOf (pts : List (Pos S)) : List (Pos S) :=
  leftChildOf A pts ++ (rightChildOf A pts).drop 1

theorem length_chainOf (pts : List (Pos S)) :
    (chainOf A pts).length = pts.length + (pts.length - 1) := by
  simp [chainOf, length_leftChildOf, length_rightChildOf]

theorem extract_one_toList {α : Type} (r : Array α) (n : Nat) :
    (r.extract 1 n).toList = ((r.extract 0 n).toList).drop 1 := by
  apply List.ext_getElem?
  intro k
  rw [List.getElem?_drop, Array.getElem?_toList, Array.getElem?_toList, Array.getElem?_extract,
    Array.getElem?_extract]
  by_cases h : k < min n r.size - 1
  · have h' : 1 + k < min n r.size - 0 := by omega
    rw [if_pos h, if_pos h', Nat.zero_add]
  · have h' : ¬ 1 + k < min n r.size - 0 := by omega
    rw [if_neg h, if_neg h']

/-- ★ `bezier_approximate` never fails on long enough buffers, and what it appends to `path`. -/
theorem approximate_spec (pts path : Array (Pos S)) (b : Bez S) (h1 : 1 ≤ pts.size)
    (hb : pts.size ≤ b.left.size ∧ pts.size ≤ b.right.size ∧ pts.size ≤ b.mid.size) :
    ∃ path' b', approximate A pts path b = .ok (path', b') ∧
      (∃ p0, pts[0]? = some p0 ∧
        path' = path.push p0 ++ (approxOut A (chainOf A pts.toList)).toArray) ∧
      b'.left.size = b.left.size ∧ b'.right.size = b.right.size ∧ b'.mid.size = b.mid.size ∧
      b'.leftChild = b.leftChild := by
  obtain ⟨l', r', mid', hs, hl, hr, hm, hL, hR⟩ :=
    subdivide_spec A pts b.left b.right b.mid h1 hb.1 hb.2.1 hb.2.2
  obtain ⟨p0, hp0⟩ := exists_getElem? (a := pts) (i := 0) (by omega)
  have hneed : need (decide (pts.size ≤ l'.size) && decide (1 ≤ pts.size) &&
      decide (pts.size ≤ r'.size)) = .ok () := by
    have h2 : pts.size ≤ l'.size := by omega
    have h3 : pts.size ≤ r'.size := by omega
    simp [need, h1, h2, h3]
  have hchain : (l'.extract 0 pts.size).toList ++ (r'.extract 1 pts.size).toList
      = chainOf A pts.toList := by
    rw [extract_one_toList, hL, hR, chainOf]
  refine ⟨path.push p0 ++ (approxOut A (chainOf A pts.toList)).toArray,
    { b with left := l', right := r', mid := mid' }, ?_, ⟨p0, hp0, rfl⟩, hl, hr, hm, rfl⟩
  simp only [approximate, hs, getC_ok_some hp0, hneed, hchain, bind, Except.bind]
  rfl

/-- the number of vertices a flat leaf emits, `pts.size = 1` included -/
theorem approximate_size' (pts path : Array (Pos S)) (b : Bez S) (h1 : 1 ≤ pts.size)
    (hb : pts.size ≤ b.left.size ∧ pts.size ≤ b.right.size ∧ pts.size ≤ b.mid.size)
    (path' : Array (Pos S)) (b' : Bez S) (h : approximate A pts path b = .ok (path', b')) :
    path'.size = path.size + 1 + (pts.size - 2) := by
  obtain ⟨p, b'', e, ⟨p0, _, hp⟩, _⟩ := approximate_spec A pts path b h1 hb
  rw [e] at h
  injection h with h
  injection h with h _
  subst h
  rw [hp]
  simp only [Array.size_append, Array.size_push, List.size_toArray, length_approxOut,
    length_chainOf, Array.length_toList]
  omega

/-- a flat leaf with `n ≥ 2` control points emits exactly `n - 1` vertices -/
theorem approximate_size (pts path : Array (Pos S)) (b : Bez S) (h2 : 2 ≤ pts.size)
    (hb : pts.size ≤ b.left.size ∧ pts.size ≤ b.right.size ∧ pts.size ≤ b.mid.size)
    (path' : Array (Pos S)) (b' : Bez S) (h : approximate A pts path b = .ok (path', b')) :
    path'.size = path.size + (pts.size - 1) := by
  rw [approximate_size' A pts path b (by omega) hb path' b' h]; omega

/-- a single control point: `points[0]` is still pushed -/
theorem approximate_size_one (pts path : Array (Pos S)) (b : Bez S) (h1 : pts.size = 1)
    (hb : pts.size ≤ b.left.size ∧ pts.size ≤ b.right.size ∧ pts.size ≤ b.mid.size)
    (path' : Array (Pos S)) (b' : Bez S) (h : approximate A pts path b = .ok (path', b')) :
    path'.size = path.size + 1 := by
  rw [approximate_size' A pts path b (by omega) hb path' b' h]; omega

end

end Rosu.Curve
