import RosuModel.Lemmas.CurveBasic
import Mathlib.Algebra.Order.Field.Basic
import Mathlib.Algebra.Order.AbsoluteValue.Basic
import Mathlib.Tactic.Linarith
import Mathlib.Tactic.Ring
import Mathlib.Tactic.Positivity

/-!
# `idx_of_dist` (binary search) and `position_at` over an ordered field
-/
namespace Rosu.Curve

/-! ## small lemmas about the checked operations -/

theorem getC_eq_ok {α : Type} (a : Array α) (i : Nat) (v : α) :
    getC a i = .ok v ↔ a[i]? = some v := by
  unfold getC
  cases h : a[i]? with
  | none => simp
  | some w => simp

theorem getC_of_lt {α : Type} (a : Array α) (i : Nat) (h : i < a.size) :
    getC a i = .ok a[i] := by
  rw [getC_eq_ok]; simp [h]

section General
variable {S D : Type} (A : Arith S D)

/-- The halving loop never fails when called with enough fuel inside the slice. -/
theorem bsLoop_okF (lengths : Array D) (d : D) :
    ∀ (fuel size base : Nat), 1 ≤ size → base + size ≤ lengths.size → size ≤ fuel →
      ∃ b, bsLoop A lengths d fuel size base = .ok b ∧ b < lengths.size := by
  intro fuel
  induction fuel with
  | zero => intro size base h1 h2 h3; omega
  | succ f ih =>
    intro size base h1 h2 h3
    unfold bsLoop
    by_cases hs : 1 < size
    · have hmid : base + size / 2 < lengths.size := by omega
      simp only [hs, if_true, getC_of_lt _ _ hmid, bind, Except.bind]
      split
      · exact ih _ _ (by omega) (by omega) (by omega)
      · exact ih _ _ (by omega) (by omega) (by omega)
    · simp only [hs, if_false]
      exact ⟨base, rfl, by omega⟩

/-- `idx_of_dist` never fails (for any arithmetic). -/
theorem idxOfDist_okF (lengths : Array D) (d : D) :
    ∃ i, idxOfDist A lengths d = .ok i := by
  unfold idxOfDist
  by_cases h0 : lengths.size = 0
  · simp [h0]
  · obtain ⟨b, hb, hlt⟩ := bsLoop_okF A lengths d lengths.size lengths.size 0
      (by omega) (by omega) (le_refl _)
    simp only [h0, if_false, hb, bind, Except.bind, getC_of_lt _ _ hlt]
    split <;> exact ⟨_, rfl⟩

end General

theorem sorted_get {K : Type} [LinearOrder K] {lengths : Array K} (hs : lengths.toList.Pairwise (· ≤ ·)) (i j : Nat)
    (hi : i < lengths.size) (hj : j < lengths.size) (hij : i ≤ j) : lengths[i] ≤ lengths[j] := by
  rcases Nat.lt_or_eq_of_le hij with h | h
  · have := (List.pairwise_iff_getElem.mp hs) i j (by simpa using hi) (by simpa using hj) h
    simpa using this
  · subst h; exact le_rfl

variable {K : Type} [Field K] [LinearOrder K] [IsStrictOrderedRing K] (T : Transc K)

omit [IsStrictOrderedRing K] in
theorem cmpLen_gt (len d : K) : (cmpLen (fieldArith T) len d == .gt) = decide (d < len) := by
  unfold cmpLen
  simp only [fieldArith]
  by_cases h1 : len < d
  · have : ¬ d < len := not_lt.mpr h1.le
    simp [h1, this]
  · by_cases h2 : d < len <;> simp [h1, h2]

omit [IsStrictOrderedRing K] in
theorem cmpLen_eq (len d : K) : cmpLen (fieldArith T) len d =
    if len < d then .lt else if d < len then .gt else .eq := by
  unfold cmpLen
  simp only [fieldArith, decide_eq_true_eq]

theorem dEps_pos : (0 : K) < dEps (fieldArith T) := by
  unfold dEps
  simp only [fieldArith]
  norm_num

omit [IsStrictOrderedRing K] in
/-- The loop invariant of `binary_search_by`. -/
theorem bsLoop_spec (lengths : Array K) (d : K) (hsorted : lengths.toList.Pairwise (· ≤ ·)) :
    ∀ (fuel size base : Nat), 1 ≤ size → base + size ≤ lengths.size → size ≤ fuel →
      (base = 0 ∨ ∃ h : base < lengths.size, lengths[base] ≤ d) →
      (∀ j (hj : j < lengths.size), base + size ≤ j → d < lengths[j]) →
      ∃ b, bsLoop (fieldArith T) lengths d fuel size base = .ok b ∧ ∃ hb : b < lengths.size,
        (b = 0 ∨ lengths[b] ≤ d) ∧ (∀ j (hj : j < lengths.size), b + 1 ≤ j → d < lengths[j]) := by
  intro fuel
  induction fuel with
  | zero => intro size base h1 h2 h3; omega
  | succ f ih =>
    intro size base h1 h2 h3 hb hu
    unfold bsLoop
    by_cases hs : 1 < size
    · have hmid : base + size / 2 < lengths.size := by omega
      simp only [hs, if_true, getC_of_lt _ _ hmid, bind, Except.bind, cmpLen_gt]
      by_cases hgt : d < lengths[base + size / 2]
      · simp only [hgt, decide_true, if_true]
        refine ih _ _ (by omega) (by omega) (by omega) hb ?_
        intro j hj hjl
        exact lt_of_lt_of_le hgt (sorted_get hsorted _ _ hmid hj (by omega))
      · simp only [hgt, decide_false, Bool.false_eq_true, if_false]
        refine ih _ _ (by omega) (by omega) (by omega) (Or.inr ⟨hmid, not_lt.mp hgt⟩) ?_
        intro j hj hjl
        exact hu j hj (by omega)
    · simp only [hs, if_false]
      have : size = 1 := by omega
      subst this
      refine ⟨base, rfl, by omega, ?_, hu⟩
      rcases hb with h | ⟨_, h⟩
      · exact Or.inl h
      · exact Or.inr h

omit [IsStrictOrderedRing K] in
/-- `idx_of_dist` on sorted lengths: the partition point of `d`. -/
theorem idxOfDist_spec (lengths : Array K) (d : K) (hsorted : lengths.toList.Pairwise (· ≤ ·)) :
    ∃ i, idxOfDist (fieldArith T) lengths d = .ok i ∧ i ≤ lengths.size ∧
      (∀ j (hj : j < lengths.size), j < i → lengths[j] ≤ d) ∧
      (∀ (hi : i < lengths.size), d ≤ lengths[i]) ∧
      (∀ j (hj : j < lengths.size), j < i →
        lengths[j] < d ∨ (i < lengths.size ∧ lengths[i]? = some d)) := by
  unfold idxOfDist
  by_cases h0 : lengths.size = 0
  · refine ⟨0, by simp [h0], by omega, ?_, ?_, ?_⟩
    · intro j hj; omega
    · intro hi; omega
    · intro j hj; omega
  · obtain ⟨b, hb, hlt, hlow, hup⟩ := bsLoop_spec T lengths d hsorted lengths.size lengths.size 0
      (by omega) (by omega) (le_refl _) (Or.inl rfl) (by intro j hj h; omega)
    simp only [h0, if_false, hb, bind, Except.bind, getC_of_lt _ _ hlt, cmpLen_eq]
    by_cases h1 : lengths[b] < d
    · simp only [h1, if_true]
      refine ⟨b + 1, rfl, by omega, ?_, ?_, ?_⟩
      · intro j hj hjb
        exact le_trans (sorted_get hsorted _ _ hj hlt (by omega)) h1.le
      · intro hi; exact (hup _ hi (le_refl _)).le
      · intro j hj hjb
        exact Or.inl (lt_of_le_of_lt (sorted_get hsorted _ _ hj hlt (by omega)) h1)
    · by_cases h2 : d < lengths[b]
      · simp only [h1, h2, if_true, if_false]
        have hb0 : b = 0 := by
          rcases hlow with h | h
          · exact h
          · exact absurd h (not_le.mpr h2)
        subst hb0
        refine ⟨0, rfl, by omega, ?_, ?_, ?_⟩
        · intro j hj hjb; omega
        · intro hi; exact h2.le
        · intro j hj hjb; omega
      · simp only [h1, h2, if_false]
        have heq : lengths[b] = d := le_antisymm (not_lt.mp h2) (not_lt.mp h1)
        refine ⟨b, rfl, by omega, ?_, ?_, ?_⟩
        · intro j hj hjb
          exact le_trans (sorted_get hsorted _ _ hj hlt (by omega)) heq.le
        · intro hi; exact heq.ge
        · intro j hj hjb
          exact Or.inr ⟨hlt, by simp [hlt, heq]⟩

/-! ## `position_at` -/

omit [IsStrictOrderedRing K] in
theorem zero_field : zero (fieldArith T) = (⟨0, 0⟩ : Pos K) := by
  simp [zero, fieldArith]

omit [IsStrictOrderedRing K] in
/-- with an empty path the answer is `Pos::default()` -/
theorem positionAt_empty (c : Curve K K) (h : c.path.size = 0) (p : K) :
    positionAt (fieldArith T) c p = .ok ⟨0, 0⟩ := by
  obtain ⟨i, hi⟩ := idxOfDist_okF (fieldArith T) c.lengths (progressToDist (fieldArith T) c.lengths p)
  simp only [positionAt, hi, bind, Except.bind, interpolateVertices, h, if_true, zero_field]

/-- the interpolation weight is in `[0, 1]` -/
theorem weight_bounds {d d0 d1 : K} (h0 : d0 ≤ d) (h1 : d ≤ d1) (hlt : d0 < d1) :
    0 ≤ (d - d0) / (d1 - d0) ∧ (d - d0) / (d1 - d0) ≤ 1 := by
  have hpos : 0 < d1 - d0 := sub_pos.mpr hlt
  refine ⟨div_nonneg (sub_nonneg.mpr h0) hpos.le, ?_⟩
  rw [div_le_one hpos]
  linarith

/-- `interpolate_vertices` at a partition point `i` of `d`. -/
theorem interpolateVertices_convex (path : Array (Pos K)) (lengths : Array K) (i : Nat) (d : K)
    (hsize : path.size ≤ lengths.size) (hne : 0 < path.size)
    (hlow : ∀ j (hj : j < lengths.size), j < i → lengths[j] ≤ d)
    (hup : ∀ (hi : i < lengths.size), d ≤ lengths[i]) :
    ∃ q, interpolateVertices (fieldArith T) path lengths i d = .ok q ∧
      ((∃ j : Nat, path[j]? = some q) ∨
       (∃ (i : Nat) (p0 p1 : Pos K) (w : K), path[i]? = some p0 ∧ path[i+1]? = some p1 ∧
          0 ≤ w ∧ w ≤ 1 ∧ q = ⟨p0.x + (p1.x - p0.x) * w, p0.y + (p1.y - p0.y) * w⟩)) := by
  have hne' : ¬ path.size = 0 := by omega
  simp only [interpolateVertices, hne', if_false]
  by_cases hi0 : i = 0
  · subst hi0
    simp only [if_true, getC_of_lt _ _ hne]
    exact ⟨_, rfl, Or.inl ⟨0, by simp [hne]⟩⟩
  · simp only [hi0, if_false]
    by_cases hip : i < path.size
    · have hil : i < lengths.size := by omega
      have him : i - 1 < path.size := by omega
      have hilm : i - 1 < lengths.size := by omega
      have h1 : 1 ≤ i := by omega
      simp only [Array.getElem?_eq_getElem hip, subC, h1, if_true, getC_of_lt _ _ him,
        getC_of_lt _ _ hilm, getC_of_lt _ _ hil, bind, Except.bind]
      by_cases hclose : (fieldArith T).dLe ((fieldArith T).dAbs
          ((fieldArith T).dSub lengths[i - 1] lengths[i])) (dEps (fieldArith T)) = true
      · simp only [hclose, if_true]
        exact ⟨_, rfl, Or.inl ⟨i - 1, by simp [him]⟩⟩
      · simp only [hclose]
        have hd0 : lengths[i - 1] ≤ d := hlow _ hilm (by omega)
        have hd1 : d ≤ lengths[i] := hup hil
        have hlt : lengths[i - 1] < lengths[i] := by
          rcases lt_or_eq_of_le (le_trans hd0 hd1) with h | h
          · exact h
          · exfalso; apply hclose
            simp only [fieldArith, decide_eq_true_eq, h, sub_self, abs_zero]
            exact (dEps_pos T).le
        have hw := weight_bounds hd0 hd1 hlt
        refine ⟨_, rfl, Or.inr ⟨i - 1, path[i - 1], path[i],
          (d - lengths[i - 1]) / (lengths[i] - lengths[i - 1]), by simp [him], ?_, hw.1, hw.2, rfl⟩⟩
        have : i - 1 + 1 = i := by omega
        rw [this]; simp [hip]
    · have hnone : path[i]? = none := by simp; omega
      have h1 : 1 ≤ path.size := by omega
      have hl : path.size - 1 < path.size := by omega
      simp only [hnone, subC, h1, if_true, getC_of_lt _ _ hl, bind, Except.bind]
      exact ⟨_, rfl, Or.inl ⟨path.size - 1, by simp [hl]⟩⟩

/-- `position_at(p)` is a vertex or a convex combination of two consecutive vertices -/
theorem positionAt_convex (c : Curve K K) (hsize : c.path.size ≤ c.lengths.size)
    (hsorted : c.lengths.toList.Pairwise (· ≤ ·)) (hne : 0 < c.path.size) (p : K) :
    ∃ q, positionAt (fieldArith T) c p = .ok q ∧
      ((∃ j : Nat, c.path[j]? = some q) ∨
       (∃ (i : Nat) (p0 p1 : Pos K) (w : K), c.path[i]? = some p0 ∧ c.path[i+1]? = some p1 ∧
          0 ≤ w ∧ w ≤ 1 ∧ q = ⟨p0.x + (p1.x - p0.x) * w, p0.y + (p1.y - p0.y) * w⟩)) := by
  obtain ⟨i, hi, hile, hlow, hup, -⟩ :=
    idxOfDist_spec T c.lengths (progressToDist (fieldArith T) c.lengths p) hsorted
  simp only [positionAt, hi, bind, Except.bind]
  exact interpolateVertices_convex T c.path c.lengths i _ hsize hne hlow hup

theorem convex_bound {a b w lo hi : K} (h0 : 0 ≤ w) (h1 : w ≤ 1) (ha : lo ≤ a ∧ a ≤ hi)
    (hb : lo ≤ b ∧ b ≤ hi) : lo ≤ a + (b - a) * w ∧ a + (b - a) * w ≤ hi := by
  have e : a + (b - a) * w = a * (1 - w) + b * w := by ring
  have hw : 0 ≤ 1 - w := by linarith
  rw [e]
  constructor
  · have : lo = lo * (1 - w) + lo * w := by ring
    rw [this]
    exact add_le_add (mul_le_mul_of_nonneg_right ha.1 hw) (mul_le_mul_of_nonneg_right hb.1 h0)
  · have : hi = hi * (1 - w) + hi * w := by ring
    rw [this]
    exact add_le_add (mul_le_mul_of_nonneg_right ha.2 hw) (mul_le_mul_of_nonneg_right hb.2 h0)

/-- hence inside the bounding box of the vertices -/
theorem positionAt_in_bbox (c : Curve K K) (hsize : c.path.size ≤ c.lengths.size)
    (hsorted : c.lengths.toList.Pairwise (· ≤ ·)) (hne : 0 < c.path.size) (lo hi : Pos K)
    (hbox : ∀ v ∈ c.path.toList, lo.x ≤ v.x ∧ v.x ≤ hi.x ∧ lo.y ≤ v.y ∧ v.y ≤ hi.y) (p : K) :
    ∃ q, positionAt (fieldArith T) c p = .ok q ∧
      lo.x ≤ q.x ∧ q.x ≤ hi.x ∧ lo.y ≤ q.y ∧ q.y ≤ hi.y := by
  have hmem : ∀ (j : Nat) (v : Pos K), c.path[j]? = some v → v ∈ c.path.toList := by
    intro j v h
    rw [Array.mem_toList_iff]
    exact Array.mem_of_getElem? h
  obtain ⟨q, hq, hcase⟩ := positionAt_convex T c hsize hsorted hne p
  refine ⟨q, hq, ?_⟩
  rcases hcase with ⟨j, hj⟩ | ⟨i, p0, p1, w, h0, h1, hw0, hw1, rfl⟩
  · exact hbox q (hmem j q hj)
  · have b0 := hbox p0 (hmem _ _ h0)
    have b1 := hbox p1 (hmem _ _ h1)
    have bx := convex_bound hw0 hw1 ⟨b0.1, b0.2.1⟩ ⟨b1.1, b1.2.1⟩
    have by' := convex_bound hw0 hw1 ⟨b0.2.2.1, b0.2.2.2⟩ ⟨b1.2.2.1, b1.2.2.2⟩
    exact ⟨bx.1, bx.2, by'.1, by'.2⟩

end Rosu.Curve
