import RosuModel.Model.CatchSkill
import RosuModel.Lemmas.SkillOpsReal
import RosuModel.Lemmas.SkillV

/-!
osu!catch `Movement` skill over ℝ (`realCasts`: both float widths read as ℝ): every partial
operation is in-domain, the `clamp` assertions hold, every value is non-negative.
-/

namespace Rosu.CatchSkill
open Rosu.SkillOps
open Rosu.Skill (Obj)

local notation "RC" => realCasts

/-- state invariant of `Movement` -/
structure Inv (s : St ℝ ℝ) : Prop where
  lastStrainTime : 0 ≤ s.lastStrainTime
  current : 0 ≤ s.currentStrain

/-- what `CatchDifficultyObject::new` guarantees: `strain_time = max(delta_time, 40) ≥ 40` -/
def ObjOK (o : Obj ℝ (DObj ℝ ℝ)) : Prop := 40 ≤ o.data.strainTime

theorem new_inv : Inv (St.new : St ℝ ℝ) := by
  constructor <;> simp only [St.new, r_lit] <;> norm_num

/-! ### the stages of `strain_value_of` -/

theorem weightedStrainTime_real (cr st : ℝ) : weightedStrainTime cr st = st + 13 + 3 / cr := by
  unfold weightedStrainTime
  simp only [r_add, r_div, r_lit]
  norm_num

/-- `weighted_strain_time ≥ 53 > 0`: the final division and `sqrt_strain` are safe -/
theorem weightedStrainTime_pos {cr st : ℝ} (hcr : 0 < cr) (hst : 40 ≤ st) :
    53 ≤ weightedStrainTime cr st := by
  rw [weightedStrainTime_real]
  have : 0 < 3 / cr := by positivity
  linarith

theorem baseAddition_nonneg (d : ℝ) : 0 ≤ baseAddition RC d := by
  unfold baseAddition
  simp only [r_div, r_powf, r_toF, r_abs, r_lit]
  have : (0 : ℝ) ≤ |d| ^ (OfScientific.ofScientific 13 true 1 : ℝ) := Real.rpow_nonneg (abs_nonneg d) _
  positivity

theorem directionTerm_nonneg (d ld lst w : ℝ) : 0 ≤ directionTerm RC d ld lst w := by
  unfold directionTerm
  simp only [r_div, r_mul, r_add, r_sub, r_powf, r_toF, r_abs, r_lit, r_fmax, r_fmin, r_sqrt,
    directionChangeBonus]
  have h1 : (0 : ℝ) ≤ Real.sqrt (lst + OfScientific.ofScientific 160 true 1) := Real.sqrt_nonneg _
  have h2 : (0 : ℝ) ≤ min |d| (OfScientific.ofScientific 500 true 1) / OfScientific.ofScientific 500 true 1 := by
    apply div_nonneg (le_min (abs_nonneg d) (by norm_num)) (by norm_num)
  have h3 : (0 : ℝ) ≤ max (min |ld| (OfScientific.ofScientific 700 true 1) / OfScientific.ofScientific 700 true 1)
      (OfScientific.ofScientific 38 true 2) := le_max_of_le_right (by norm_num)
  have h4 : (0 : ℝ) ≤ max (OfScientific.ofScientific 10 true 1
      - (w / OfScientific.ofScientific 10000 true 1) ^ (OfScientific.ofScientific 30 true 1 : ℝ))
      (OfScientific.ofScientific 0 true 1) := le_max_of_le_right (by norm_num)
  have h5 : (0 : ℝ) ≤ (OfScientific.ofScientific 210 true 1 : ℝ) / Real.sqrt (lst + OfScientific.ofScientific 160 true 1) :=
    div_nonneg (by norm_num) h1
  positivity

theorem movementTerm_nonneg (d sq : ℝ) (hsq : 0 ≤ sq) : 0 ≤ movementTerm RC d sq := by
  unfold movementTerm
  simp only [r_div, r_mul, r_toF, r_abs, r_lit, r_fmin, normalizedHitobjectRadius]
  have h1 : (0 : ℝ) ≤ min |d| (OfScientific.ofScientific 410 true 1 * OfScientific.ofScientific 20 true 1) :=
    le_min (abs_nonneg d) (by norm_num)
  have h2 : (0 : ℝ) ≤ OfScientific.ofScientific 410 true 1 * OfScientific.ofScientific 60 true 1 := by norm_num
  have h3 : (0 : ℝ) ≤ OfScientific.ofScientific 125 true 1 := by norm_num
  positivity

theorem movedAddition_nonneg (d ld lst w : ℝ) : 0 ≤ movedAddition RC d ld lst w := by
  unfold movedAddition
  have hb := baseAddition_nonneg d
  have hd := directionTerm_nonneg d ld lst w
  have hm := movementTerm_nonneg d (FOps.sqrt w) (by rw [r_sqrt]; exact Real.sqrt_nonneg _)
  dsimp only
  split
  · split
    · simp only [r_add]; linarith
    · simp only [r_add]; linarith
  · exact hb

/-- the edge-dash factor is `≥ 1` when `dist_to_hyper_dash ≤ 20`, the bonus is `≥ 0` and
`strain_time · clock_rate ≥ 0` (the `powf(1.5)` base is then non-negative) -/
theorem edgeFactor_ge_one {e dist st cr : ℝ} (he : 0 ≤ e) (hd : dist ≤ 20) (hst : 0 ≤ st * cr) :
    1 ≤ edgeFactor RC e dist st cr := by
  unfold edgeFactor
  simp only [r_div, r_mul, r_add, r_sub, r_powf, r_toF, r_lit, r_fmin]
  have h1 : (0 : ℝ) ≤ (OfScientific.ofScientific 200 true 1 - dist) / OfScientific.ofScientific 200 true 1 := by
    apply div_nonneg _ (by norm_num)
    norm_num; linarith
  have h2 : (0 : ℝ) ≤ min (st * cr) (OfScientific.ofScientific 2650 true 1) / OfScientific.ofScientific 2650 true 1 :=
    div_nonneg (le_min hst (by norm_num)) (by norm_num)
  have h3 := Real.rpow_nonneg h2 (OfScientific.ofScientific 15 true 1 : ℝ)
  have : (0 : ℝ) ≤ e * ((OfScientific.ofScientific 200 true 1 - dist) / OfScientific.ofScientific 200 true 1)
      * (min (st * cr) (OfScientific.ofScientific 2650 true 1) / OfScientific.ofScientific 2650 true 1)
        ^ (OfScientific.ofScientific 15 true 1 : ℝ) := by positivity
  norm_num at this ⊢
  linarith

/-- the `clamp` assertion of `strain_value_of` (`min <= max`) holds: the bounds are
`normalized_pos ∓ 25` -/
theorem clamp_player_pos_some (x np : ℝ) :
    ∃ p, clampChecked x (np - (normalizedHitobjectRadius - absolutePlayerPositioningError))
      (np + (normalizedHitobjectRadius - absolutePlayerPositioningError)) = some p := by
  unfold clampChecked
  have : FOps.le (np - (normalizedHitobjectRadius - absolutePlayerPositioningError : ℝ))
      (np + (normalizedHitobjectRadius - absolutePlayerPositioningError)) = true := by
    rw [r_le]
    simp only [normalizedHitobjectRadius, absolutePlayerPositioningError, r_lit]
    norm_num
    linarith
  rw [this]
  exact ⟨_, rfl⟩

/-- **`strain_value_of` over ℝ**: the `clamp` assertion holds, the value is `≥ 0`, the new
`last_strain_time` is the object's `strain_time`. -/
theorem strainValueOf_spec (hcw : ℝ) {cr : ℝ} (hcr : 0 < cr) {s : St ℝ ℝ} {o : Obj ℝ (DObj ℝ ℝ)}
    (ho : ObjOK o) :
    ∃ s' v, strainValueOf RC hcw cr s o = some (s', v) ∧ 0 ≤ v ∧
      s'.lastStrainTime = o.data.strainTime ∧ s'.currentStrain = s.currentStrain := by
  unfold ObjOK at ho
  obtain ⟨p, hp⟩ := clamp_player_pos_some (s.lastPlayerPos.getD o.data.lastNormalizedPos) o.data.normalizedPos
  have hw := weightedStrainTime_pos hcr ho
  have hw0 : (0 : ℝ) ≤ weightedStrainTime cr o.data.strainTime := by linarith
  have hstcr : 0 ≤ o.data.strainTime * cr := mul_nonneg (by linarith) hcr.le
  unfold strainValueOf
  simp only [hp]
  refine ⟨_, _, rfl, ?_, rfl, rfl⟩
  -- the value: (stage 1 · edge factor | 0) / weighted
  have hm := movedAddition_nonneg (p - s.lastPlayerPos.getD o.data.lastNormalizedPos) s.lastDistMoved
    s.lastStrainTime (weightedStrainTime cr o.data.strainTime)
  have he0 : (0 : ℝ) ≤ (0.0 : ℝ) := by rw [r_lit]; norm_num
  have he1 : (0 : ℝ) ≤ (0.0 : ℝ) + 5.7 := by rw [r_add, r_lit, r_lit]; norm_num
  rw [r_div]
  apply div_nonneg _ hw0
  split
  · -- buzz condition
    split
    · dsimp only; exact he0
    · dsimp only
      split
      · rename_i hle
        rw [r_le] at hle
        have hle' : o.data.lastDistToHyperDash ≤ 20 := by
          rw [r_lit] at hle; norm_num at hle; exact hle
        split
        · dsimp only; rw [r_mul]
          exact mul_nonneg hm (le_trans zero_le_one (edgeFactor_ge_one he0 hle' hstcr))
        · dsimp only; rw [r_mul]
          exact mul_nonneg hm (le_trans zero_le_one (edgeFactor_ge_one he1 hle' hstcr))
      · dsimp only; exact hm
  · dsimp only
    split
    · rename_i hle
      rw [r_le] at hle
      have hle' : o.data.lastDistToHyperDash ≤ 20 := by
        rw [r_lit] at hle; norm_num at hle; exact hle
      split
      · dsimp only; rw [r_mul]
        exact mul_nonneg hm (le_trans zero_le_one (edgeFactor_ge_one he0 hle' hstcr))
      · dsimp only; rw [r_mul]
        exact mul_nonneg hm (le_trans zero_le_one (edgeFactor_ge_one he1 hle' hstcr))
    · dsimp only; exact hm

theorem strainDecayBase_real : (strainDecayBase : ℝ) = 0.2 := by
  simp only [strainDecayBase, r_lit]

/-- **`strain_value_at` over ℝ** (macro default, `STRAIN_DECAY_BASE = 0.2`):
`current·0.2^(Δt/1000) + strain_value_of ≥ 0`. -/
theorem strainValueAt_spec (hcw : ℝ) {cr : ℝ} (hcr : 0 < cr) {s : St ℝ ℝ} {o : Obj ℝ (DObj ℝ ℝ)}
    (hs : Inv s) (ho : ObjOK o) :
    ∃ s' v, strainValueAt RC hcw cr s o = some (s', v) ∧ Inv s' ∧ 0 ≤ v := by
  have hdec : 0 ≤ s.currentStrain * strainDecay o.data.deltaTime strainDecayBase := by
    rw [strainDecay_real, r_mul, strainDecayBase_real]
    exact mul_nonneg hs.current (Real.rpow_nonneg (by norm_num) _)
  obtain ⟨s1, v1, e, hv, hl, hc⟩ := strainValueOf_spec hcw hcr
    (s := { s with currentStrain := s.currentStrain * strainDecay o.data.deltaTime strainDecayBase }) ho
  unfold strainValueAt
  simp only [e]
  have hval : 0 ≤ s.currentStrain * strainDecay o.data.deltaTime strainDecayBase + v1 * skillMultiplier := by
    simp only [skillMultiplier, r_lit] at hdec ⊢
    norm_num
    linarith
  refine ⟨_, _, rfl, ⟨?_, hval⟩, hval⟩
  show 0 ≤ s1.lastStrainTime
  rw [hl]
  unfold ObjOK at ho
  linarith

theorem initialStrain_nonneg {s : St ℝ ℝ} (hs : Inv s) (t : ℝ) (o : Obj ℝ (DObj ℝ ℝ)) :
    0 ≤ initialStrain s t o := by
  unfold initialStrain
  rw [strainDecay_real, r_mul, strainDecayBase_real]
  exact mul_nonneg hs.current (Real.rpow_nonneg (by norm_num) _)

theorem fns_ok (hcw : ℝ) {cr : ℝ} (hcr : 0 < cr) :
    FnsOK (fns RC hcw cr) Inv (fun v : ℝ => 0 ≤ v) (fun v : ℝ => 0 ≤ v) ObjOK where
  value := by
    intro s o s' v hs ho h
    obtain ⟨s1, v1, e, hi, hv⟩ := strainValueAt_spec hcw hcr hs ho
    simp only [fns] at h
    rw [e] at h
    cases h
    exact ⟨hi, hv, hv⟩
  initial := fun s t o hs _ => initialStrain_nonneg hs t o

theorem fns_safe (hcw : ℝ) {cr : ℝ} (hcr : 0 < cr) (s : St ℝ ℝ) (o : Obj ℝ (DObj ℝ ℝ)) (hs : Inv s)
    (ho : ObjOK o) : ((fns RC hcw cr).strainValueAt s o).isSome := by
  obtain ⟨s1, v1, e, _⟩ := strainValueAt_spec hcw hcr hs ho
  simp only [fns, e, Option.isSome_some]

/-! ### difficulty objects: `strain_time = max(delta_time, 40) ≥ 40` -/

theorem scanObjects_ok (rate sf : ℝ) : ∀ (rest : List (Palpable ℝ ℝ)) (last : Palpable ℝ ℝ) (i : Nat) (p : ℝ),
    ∀ d ∈ scanObjects rate sf last i p rest, ObjOK d := by
  intro rest
  induction rest with
  | nil => intro _ _ _ d hd; simp [scanObjects] at hd
  | cons b rest ih =>
    intro last i p d hd
    simp only [scanObjects, List.mem_cons] at hd
    rcases hd with hd | hd
    · subst hd
      unfold ObjOK DObj.new
      simp only [r_fmax, r_lit]
      exact le_trans (by norm_num) (le_max_right _ _)
    · exact ih b (i + 1) _ d hd

theorem createDifficultyObjects_ok (rate hcw : ℝ) (objs : List (Palpable ℝ ℝ)) :
    ∀ d ∈ createDifficultyObjects rate hcw objs, ObjOK d := by
  cases objs with
  | nil => intro d hd; simp [createDifficultyObjects] at hd
  | cons f rest =>
    simp only [createDifficultyObjects]
    exact scanObjects_ok rate _ rest f 0 _

/-! ### catcher width and `initialize_hyper_dash` -/

theorem calculateCatchWidth_nonneg (cs : ℝ) : 0 ≤ calculateCatchWidth RC cs := by
  unfold calculateCatchWidth catchWidthByScale
  simp only [r_mul, r_abs, areaCatcherSize, allowedCatchRange, r_lit]
  have := abs_nonneg (calculateScale RC cs)
  have h1 : (0 : ℝ) ≤ OfScientific.ofScientific 10675 true 2 := by norm_num
  have h2 : (0 : ℝ) ≤ OfScientific.ofScientific 8 true 1 := by norm_num
  positivity

theorem calculateScale_real (cs : ℝ) : calculateScale RC cs = 1 - 0.7 * ((cs - 5) / 5) := by
  unfold calculateScale
  simp only [r_toF, r_toS, r_sub, r_mul, r_div, r_lit]
  norm_num

theorem calculateCatchWidth_pos {cs : ℝ} (h : cs < 12) : 0 < calculateCatchWidth RC cs := by
  unfold calculateCatchWidth catchWidthByScale
  rw [calculateScale_real]
  simp only [r_mul, r_abs, areaCatcherSize, allowedCatchRange, r_lit]
  have hs : (0 : ℝ) < 1 - 0.7 * ((cs - 5) / 5) := by linarith
  rw [abs_of_pos hs]
  have h1 : (0 : ℝ) < OfScientific.ofScientific 10675 true 2 := by norm_num
  have h2 : (0 : ℝ) < OfScientific.ofScientific 8 true 1 := by norm_num
  positivity

/-- for `cs < 12` (in particular for every `cs ∈ [0, 11]`) the catcher has positive width, so
`scaling_factor = 41 / half_catcher_width` divides by a positive number -/
theorem halfCatcherWidth_pos {cs : ℝ} (h : cs < 12) : 0 < halfCatcherWidth RC cs := by
  unfold halfCatcherWidth
  have hw := calculateCatchWidth_pos h
  simp only [r_mul, r_sub, r_fmax, r_lit]
  have hm1 : max (cs - 5.5) (0 : ℝ) < 6.5 := max_lt (by linarith) (by norm_num)
  have h2 : (0 : ℝ) < 1 - max (cs - 5.5) (0 : ℝ) * 0.0625 := by nlinarith
  have h3 : (0 : ℝ) < calculateCatchWidth RC cs * 0.5 := by positivity
  have := mul_pos h3 h2
  norm_num at this ⊢
  exact this

theorem hyperHalfCatcherWidth_nonneg (cs : ℝ) : 0 ≤ hyperHalfCatcherWidth RC cs := by
  unfold hyperHalfCatcherWidth
  simp only [r_div, r_toF, allowedCatchRange, r_lit]
  have := calculateCatchWidth_nonneg cs
  have h2 : (0 : ℝ) ≤ OfScientific.ofScientific 20 true 1 := by norm_num
  have h3 : (0 : ℝ) ≤ OfScientific.ofScientific 8 true 1 := by norm_num
  positivity

/-- the `clamp(0.0, half_catcher_width)` assertion of `initialize_hyper_dash` holds, so the loop
runs through; the result has as many objects, and only the hyper-dash fields change -/
theorem hyperLoop_some {hcw : ℝ} (h : 0 ≤ hcw) : ∀ (objs : List (Palpable ℝ ℝ)) (st : HState ℝ),
    ∃ l, hyperLoop RC hcw st objs = some l ∧ l.length = objs.length := by
  intro objs
  induction objs with
  | nil => intro st; exact ⟨[], rfl, rfl⟩
  | cons curr rest ih =>
    intro st
    cases rest with
    | nil => exact ⟨[curr], rfl, rfl⟩
    | cons next rest =>
      have hstep : ∃ r, hyperStep RC hcw st curr next = some r := by
        unfold hyperStep
        simp only []
        generalize (if FOps.lt (effectiveX curr) (effectiveX next) = true then (1 : Int) else -1) = dir
        by_cases hlt : FOps.lt (distToHyper RC hcw st dir curr next) 0.0 = true
        · rw [if_pos hlt]; exact ⟨_, rfl⟩
        · have : FOps.le (0.0 : ℝ) hcw = true := by rw [r_le, r_lit]; norm_num; exact h
          rw [if_neg hlt]
          unfold clampChecked
          rw [if_pos this]
          exact ⟨_, rfl⟩
      obtain ⟨⟨st', curr'⟩, hr⟩ := hstep
      obtain ⟨l, hl, hlen⟩ := ih st'
      refine ⟨curr' :: l, ?_, by simp [hlen]⟩
      unfold hyperLoop
      rw [hr]
      simp only [hl]

theorem initializeHyperDash_some (cs : ℝ) (objs : List (Palpable ℝ ℝ)) :
    ∃ l, initializeHyperDash RC cs objs = some l ∧ l.length = objs.length := by
  unfold initializeHyperDash
  exact hyperLoop_some (hyperHalfCatcherWidth_nonneg cs) objs _

end Rosu.CatchSkill
