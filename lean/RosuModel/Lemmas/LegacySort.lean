import RosuModel.Model.Sort

/-!
# `osu_legacy::sort`

* every state change is a `swap`, so any result is a permutation of the input
  (`legacySort_perm`, including the heap-sort fallback);
* on an input whose numeric keys are already non-decreasing — the only situation in which the
  decoder and the mania converter call it — every swap the quicksort part performs exchanges
  elements with equal numeric keys, so the key sequence is unchanged (`dlqs_keys_of_sorted`;
  the fallback is a hypothesis there; `Lemmas/HeapSort.lean` discharges it for `heap_sort`).
-/

namespace Rosu.Sort

variable {α : Type}

/-! ## permutation -/

section perm
variable [DecidableEq α]

theorem swap?_perm {l l' : List α} {a b : Nat} (h : swap? l a b = some l') : l'.Perm l := by
  unfold swap? at h
  split at h
  · next x y hx hy =>
    cases h
    rcases List.getElem?_eq_some_iff.mp hx with ⟨ha, hxa⟩
    rcases List.getElem?_eq_some_iff.mp hy with ⟨hb, hyb⟩
    rw [List.perm_iff_count]
    intro c
    have hb' : b < (l.set a y).length := by simpa using hb
    rw [List.count_set hb', List.count_set ha]
    have hget : (l.set a y)[b] = y := by
      rw [List.getElem_set]
      split
      · rfl
      · exact hyb
    rw [hget, hxa]
    have hpos : (x == c) = true → 0 < l.count c := by
      intro e
      have : x = c := by simpa using e
      rw [List.count_pos_iff, ← this, ← hxa]
      exact List.getElem_mem ha
    by_cases e1 : (x == c) = true
    · have := hpos e1
      by_cases e2 : (y == c) = true
      · simp only [e1, e2, if_true]; omega
      · simp only [e1, e2, if_true, Bool.false_eq_true, if_false]; omega
    · by_cases e2 : (y == c) = true
      · simp only [e1, e2, if_true, Bool.false_eq_true, if_false]; omega
      · simp only [e1, e2, Bool.false_eq_true, if_false]; omega
  · cases h

theorem swapIfGreater_perm {gt : α → α → Bool} {l l' : List α} {a b : Nat}
    (h : swapIfGreater gt l a b = some l') : l'.Perm l := by
  unfold swapIfGreater at h
  split at h
  · split at h
    · split at h
      · exact swap?_perm h
      · cases h; exact List.Perm.refl _
    · cases h
  · cases h; exact List.Perm.refl _

theorem swapNe_perm {l l' : List α} {a b : Nat} (h : swapNe l a b = some l') : l'.Perm l := by
  unfold swapNe at h
  split at h
  · exact swap?_perm h
  · cases h; exact List.Perm.refl _

theorem downHeap_perm {gt : α → α → Bool} :
    ∀ (fuel : Nat) (l : List α) (i n lo : Nat) (l' : List α),
      downHeap gt fuel l i n lo = some l' → l'.Perm l := by
  intro fuel
  induction fuel with
  | zero => intro l i n lo l' h; simp [downHeap] at h
  | succ fuel ih =>
    intro l i n lo l' h
    unfold downHeap at h
    split at h
    · split at h
      · cases h
      · split at h
        · split at h
          · cases h; exact List.Perm.refl _
          · split at h
            · cases h
            · next l2 hsw => exact (ih _ _ _ _ _ h).trans (swap?_perm hsw)
        · cases h
    · cases h; exact List.Perm.refl _

theorem heapBuild_perm {gt : α → α → Bool} (n lo : Nat) :
    ∀ (k : Nat) (l l' : List α), heapBuild gt n lo k l = some l' → l'.Perm l := by
  intro k
  induction k with
  | zero => intro l l' h; simp [heapBuild] at h; rw [h]
  | succ k ih =>
    intro l l' h
    unfold heapBuild at h
    split at h
    · cases h
    · next l2 hd => exact (ih _ _ h).trans (downHeap_perm _ _ _ _ _ _ hd)

theorem heapExtract_perm {gt : α → α → Bool} (lo : Nat) :
    ∀ (k : Nat) (l l' : List α), heapExtract gt lo k l = some l' → l'.Perm l := by
  intro k
  induction k with
  | zero => intro l l' h; simp [heapExtract] at h; rw [h]
  | succ k ih =>
    intro l l' h
    unfold heapExtract at h
    split at h
    · cases h
    · next l2 hs =>
      split at h
      · cases h
      · next l3 hd =>
        exact ((ih _ _ h).trans (downHeap_perm _ _ _ _ _ _ hd)).trans (swapNe_perm hs)

theorem heapSort_perm {gt : α → α → Bool} {l l' : List α} {lo hi : Nat}
    (h : heapSort gt l lo hi = some l') : l'.Perm l := by
  unfold heapSort at h
  split at h
  · cases h
  · simp only at h
    split at h
    · cases h
    · next l2 hb => exact (heapExtract_perm _ _ _ _ h).trans (heapBuild_perm _ _ _ _ _ hb)

theorem partLoop_perm {lt : α → α → Bool} (mid : Nat) :
    ∀ (fuel : Nat) (l : List α) (i j : Nat) (r : List α × Nat × Nat),
      partLoop lt mid fuel l i j = some r → r.1.Perm l := by
  intro fuel
  induction fuel with
  | zero => intro l i j r h; simp [partLoop] at h
  | succ fuel ih =>
    intro l i j r h
    unfold partLoop at h
    split at h
    · cases h
    · split at h
      · cases h
      · split at h
        · cases h; exact List.Perm.refl _
        · split at h
          · cases h
          · next i' _ j' _ _ l2 hsw =>
            have hp : l2.Perm l := by
              split at hsw
              · exact swap?_perm hsw
              · cases hsw; exact List.Perm.refl _
            simp only at h
            split at h
            · cases h; exact hp
            · exact (ih _ _ _ _ h).trans hp

/-- The quicksort part returns a permutation whenever its fallback does. -/
theorem dlqs_perm {gt lt : α → α → Bool} {fb : List α → Nat → Nat → Option (List α)}
    (hfb : ∀ l lo hi l', fb l lo hi = some l' → l'.Perm l) :
    ∀ (depth : Nat) (l : List α) (left right : Nat) (l' : List α),
      dlqs gt lt fb depth l left right = some l' → l'.Perm l := by
  intro depth
  induction depth with
  | zero => intro l left right l' h; exact hfb _ _ _ _ (by simpa [dlqs] using h)
  | succ depth ih =>
    intro l left right l' h
    unfold dlqs at h
    split at h
    · cases h
    · simp only at h
      split at h
      · cases h
      · next l1 h1 =>
        split at h
        · cases h
        · next l2 h2 =>
          split at h
          · cases h
          · next l3 h3 =>
            have p3 : l3.Perm l :=
              ((swapIfGreater_perm h3).trans (swapIfGreater_perm h2)).trans (swapIfGreater_perm h1)
            split at h
            · cases h
            · next l4 i j h4 =>
              have p4 : l4.Perm l := (partLoop_perm _ _ _ _ _ _ h4).trans p3
              split at h
              · cases h
              · split at h
                · split at h
                  · cases h
                  · next l5 h5 =>
                    have p5 : l5.Perm l := by
                      split at h5
                      · exact (ih _ _ _ _ h5).trans p4
                      · cases h5; exact p4
                    split at h
                    · cases h; exact p5
                    · exact (ih _ _ _ _ h).trans p5
                · split at h
                  · cases h
                  · next l5 h5 =>
                    have p5 : l5.Perm l := by
                      split at h5
                      · exact (ih _ _ _ _ h5).trans p4
                      · cases h5; exact p4
                    split at h
                    · cases h; exact p5
                    · exact (ih _ _ _ _ h).trans p5

/-- `osu_legacy::sort` returns a permutation of its input (whenever it returns). -/
theorem legacySort_perm {gt lt : α → α → Bool} {l l' : List α}
    (h : legacySort gt lt l = some l') : l'.Perm l := by
  unfold legacySort at h
  split at h
  · cases h; exact List.Perm.refl _
  · exact dlqs_perm (fun _ _ _ _ h => heapSort_perm h) _ _ _ _ _ h

end perm

/-! ## an already sorted input keeps its key sequence -/

section keys
variable (nk : α → Int) (gt lt : α → α → Bool)

/-- The comparison functions are induced by a numeric key `nk` (the IEEE value of `start_time`):
`lt` is exactly `<` on it; `gt` (the total order `total_cmp`, which refines `<`) can only hold
between elements whose numeric keys are `≥`. -/
structure KeyOrder : Prop where
  lt_iff : ∀ x y, lt x y = true ↔ nk x < nk y
  gt_imp : ∀ x y, gt x y = true → nk y ≤ nk x

/-- non-decreasing numeric keys -/
def KeysSorted (l : List α) : Prop := (l.map nk).Pairwise (· ≤ ·)

variable {nk gt lt}

theorem KeysSorted.le {l : List α} (h : KeysSorted nk l) {i j : Nat} {x y : α} (hij : i < j)
    (hx : l[i]? = some x) (hy : l[j]? = some y) : nk x ≤ nk y := by
  unfold KeysSorted at h
  rw [List.pairwise_iff_getElem] at h
  rcases List.getElem?_eq_some_iff.mp hx with ⟨hi, hxi⟩
  rcases List.getElem?_eq_some_iff.mp hy with ⟨hj, hyj⟩
  have := h i j (by simpa using hi) (by simpa using hj) hij
  simpa [hxi, hyj] using this

theorem swap?_keys {l l' : List α} {a b : Nat} {x y : α} (h : swap? l a b = some l')
    (hx : l[a]? = some x) (hy : l[b]? = some y) (he : nk x = nk y) :
    l'.map nk = l.map nk := by
  unfold swap? at h
  rw [hx, hy] at h
  simp only at h
  cases h
  rcases List.getElem?_eq_some_iff.mp hx with ⟨ha, hxa⟩
  rcases List.getElem?_eq_some_iff.mp hy with ⟨hb, hyb⟩
  rw [List.map_set, List.map_set, ← he]
  have h1 : (l.map nk).set a (nk y) = l.map nk := by
    rw [← he, ← hxa]
    have := List.set_getElem_self (as := l.map nk) (i := a) (by simpa using ha)
    simpa using this
  rw [he, h1, ← hyb]
  have := List.set_getElem_self (as := l.map nk) (i := b) (by simpa using hb)
  simpa using this

theorem swapIfGreater_keys (ho : KeyOrder nk gt lt) {l l' : List α} {a b : Nat}
    (hs : KeysSorted nk l) (hab : a ≤ b) (h : swapIfGreater gt l a b = some l') :
    l'.map nk = l.map nk := by
  unfold swapIfGreater at h
  split at h
  · next hne =>
    split at h
    · next x y hx hy =>
      split at h
      · next hgt =>
        have h1 := ho.gt_imp x y hgt
        have h2 := hs.le (by omega : a < b) hx hy
        exact swap?_keys h hx hy (by omega)
      · cases h; rfl
    · cases h
  · cases h; rfl

theorem scanUp_spec {l : List α} {mid : Nat} :
    ∀ (fuel i i' : Nat), scanUp lt l mid fuel i = some i' →
      ∃ x p, l[i']? = some x ∧ l[mid]? = some p ∧ lt x p = false := by
  intro fuel
  induction fuel with
  | zero => intro i i' h; simp [scanUp] at h
  | succ fuel ih =>
    intro i i' h
    unfold scanUp at h
    split at h
    · next x p hx hp =>
      split at h
      · exact ih _ _ h
      · next hlt =>
        cases h
        exact ⟨x, p, hx, hp, by simpa using hlt⟩
    · cases h

theorem scanDown_spec {l : List α} {mid : Nat} :
    ∀ (fuel j j' : Nat), scanDown lt l mid fuel j = some j' →
      ∃ p y, l[mid]? = some p ∧ l[j']? = some y ∧ lt p y = false := by
  intro fuel
  induction fuel with
  | zero => intro j j' h; simp [scanDown] at h
  | succ fuel ih =>
    intro j j' h
    unfold scanDown at h
    split at h
    · next p y hp hy =>
      split at h
      · split at h
        · cases h
        · exact ih _ _ h
      · next hlt =>
        cases h
        exact ⟨p, y, hp, hy, by simpa using hlt⟩
    · cases h

theorem partLoop_keys (ho : KeyOrder nk gt lt) (mid : Nat) :
    ∀ (fuel : Nat) (l : List α) (i j : Nat) (r : List α × Nat × Nat), KeysSorted nk l →
      partLoop lt mid fuel l i j = some r → r.1.map nk = l.map nk := by
  intro fuel
  induction fuel with
  | zero => intro l i j r _ h; simp [partLoop] at h
  | succ fuel ih =>
    intro l i j r hs h
    unfold partLoop at h
    split at h
    · cases h
    · next i' hu =>
      split at h
      · cases h
      · next j' hd =>
        split at h
        · cases h; rfl
        · split at h
          · cases h
          · next l2 hsw =>
            have hk : l2.map nk = l.map nk := by
              split at hsw
              · next hij =>
                obtain ⟨x, p, hx, hp, hxp⟩ := scanUp_spec _ _ _ hu
                obtain ⟨p', y, hp', hy, hpy⟩ := scanDown_spec _ _ _ hd
                rw [hp] at hp'
                cases hp'
                have h1 : ¬ nk x < nk p := fun e => by
                  have := (ho.lt_iff x p).mpr e; rw [hxp] at this; cases this
                have h2 : ¬ nk p < nk y := fun e => by
                  have := (ho.lt_iff p y).mpr e; rw [hpy] at this; cases this
                have h3 := hs.le hij hx hy
                exact swap?_keys hsw hx hy (by omega)
              · cases hsw; rfl
            have hs2 : KeysSorted nk l2 := by unfold KeysSorted; rw [hk]; exact hs
            simp only at h
            split at h
            · cases h; exact hk
            · exact (ih _ _ _ _ hs2 h).trans hk

/-- On an input with non-decreasing numeric keys the quicksort part never changes the key
sequence, provided the fallback does not (on such inputs). -/
theorem dlqs_keys_of_sorted (ho : KeyOrder nk gt lt)
    {fb : List α → Nat → Nat → Option (List α)}
    (hfb : ∀ l lo hi l', KeysSorted nk l → fb l lo hi = some l' → l'.map nk = l.map nk) :
    ∀ (depth : Nat) (l : List α) (left right : Nat) (l' : List α), KeysSorted nk l →
      dlqs gt lt fb depth l left right = some l' → l'.map nk = l.map nk := by
  intro depth
  induction depth with
  | zero => intro l left right l' hs h; exact hfb _ _ _ _ hs (by simpa [dlqs] using h)
  | succ depth ih =>
    intro l left right l' hs h
    have keep : ∀ {a b : List α}, b.map nk = a.map nk → KeysSorted nk a → KeysSorted nk b := by
      intro a b e ha; unfold KeysSorted; rw [e]; exact ha
    unfold dlqs at h
    split at h
    · cases h
    · next hlr =>
      simp only at h
      have hmid1 : left ≤ left + ((right - left) >>> 1) := Nat.le_add_right _ _
      have hmid2 : left + ((right - left) >>> 1) ≤ right := by
        have : (right - left) >>> 1 ≤ right - left := by
          rw [Nat.shiftRight_eq_div_pow]; exact Nat.div_le_self _ _
        omega
      split at h
      · cases h
      · next l1 h1 =>
        have k1 := swapIfGreater_keys ho hs hmid1 h1
        have s1 := keep k1 hs
        split at h
        · cases h
        · next l2 h2 =>
          have k2 := swapIfGreater_keys ho s1 (by omega : left ≤ right) h2
          have s2 := keep k2 s1
          split at h
          · cases h
          · next l3 h3 =>
            have k3 := swapIfGreater_keys ho s2 hmid2 h3
            have s3 := keep k3 s2
            split at h
            · cases h
            · next l4 i j h4 =>
              have k4 := partLoop_keys ho _ _ _ _ _ _ s3 h4
              have s4 := keep k4 s3
              have e4 : l4.map nk = l.map nk := k4.trans (k3.trans (k2.trans k1))
              split at h
              · cases h
              · split at h
                · split at h
                  · cases h
                  · next l5 h5 =>
                    have k5 : l5.map nk = l4.map nk := by
                      split at h5
                      · exact ih _ _ _ _ s4 h5
                      · cases h5; rfl
                    have s5 := keep k5 s4
                    split at h
                    · cases h; exact k5.trans e4
                    · exact (ih _ _ _ _ s5 h).trans (k5.trans e4)
                · split at h
                  · cases h
                  · next l5 h5 =>
                    have k5 : l5.map nk = l4.map nk := by
                      split at h5
                      · exact ih _ _ _ _ s4 h5
                      · cases h5; rfl
                    have s5 := keep k5 s4
                    split at h
                    · cases h; exact k5.trans e4
                    · exact (ih _ _ _ _ s5 h).trans (k5.trans e4)

end keys

end Rosu.Sort
