import RosuModel.Model.PipelineCatch
import RosuModel.Lemmas.SliderEventsMap
import RosuModel.Lemmas.CatchSkill
import RosuModel.Lemmas.GradualCatch
import RosuModel.Props.C02

/-!
The catch pipeline (`Model/PipelineCatch.lean`) composes the existing models without changing them:
its `record_*` sequence is `SliderEvents.catchMapEvents` of the raw objects, its gradual value is
its one-shot value with `take = i`.
-/
namespace Rosu.PipelineCatch
open Rosu.Gradual Rosu.SliderEvents Rosu.SkillOps

variable {F S : Type}

/-- what the counting models of C14 read of a decoded object -/
def toRaw : PObj F S → RawObj F
  | .fruit _ _ => .circle
  | .shower _ => .spinner
  | .stream _ _ s _ => .slider s

theorem juiceWalk_records (A : Arith F) (fuel : Nat) (z : S) :
    ∀ (evs : List (Event F)) (last : Option F) (xs : List S)
      (r : List CatchEvent × List (Rosu.ConvCatch.Nested S F)),
      juiceWalk A fuel z last evs xs = some r → juiceRecords A fuel last evs = some r.1 := by
  intro evs
  induction evs with
  | nil => intro last xs r h; simp only [juiceWalk] at h; cases h; rfl
  | cons e es ih =>
    intro last xs r h
    unfold juiceWalk at h
    unfold juiceRecords
    -- the tiny-droplet part
    cases last with
    | none =>
      simp only at h ⊢
      cases hk : e.kind with
      | lastTick =>
        simp only [hk] at h
        cases hw : juiceWalk A fuel z (some e.time) es xs with
        | none => simp [hw] at h
        | some w =>
          simp only [hw, Option.map_some, Option.some.injEq] at h
          rw [ih _ _ _ hw]; subst h; simp [recordOf]
      | head | tick | rep | tail =>
        simp only [hk] at h
        cases xs with
        | nil => simp at h
        | cons x xs' =>
          simp only at h
          cases hw : juiceWalk A fuel z (some e.time) es xs' with
          | none => simp [hw] at h
          | some w =>
            simp only [hw, Option.map_some, Option.some.injEq] at h
            rw [ih _ _ _ hw]; subst h; simp
    | some l =>
      simp only at h ⊢
      cases htd : tinyDroplets A fuel (sinceLastTick A e.time l) with
      | none => simp [htd] at h
      | some n =>
        simp only [htd] at h ⊢
        cases hk : e.kind with
        | lastTick =>
          simp only [hk] at h
          cases hw : juiceWalk A fuel z (some e.time) es xs with
          | none => simp [hw] at h
          | some w =>
            simp only [hw, Option.map_some, Option.some.injEq] at h
            rw [ih _ _ _ hw]; subst h; simp [recordOf]
        | head | tick | rep | tail =>
          simp only [hk] at h
          cases xs with
          | nil => simp at h
          | cons x xs' =>
            simp only at h
            cases hw : juiceWalk A fuel z (some e.time) es xs' with
            | none => simp [hw] at h
            | some w =>
              simp only [hw, Option.map_some, Option.some.injEq] at h
              rw [ih _ _ _ hw]; subst h; simp

/-- the `record_*` calls of the pipeline are those of `SliderEvents.catchMapEvents` -/
theorem convertAll_records (A : Arith F) (fuel : Nat) (z : S) :
    ∀ (objs : List (PObj F S)) (r : List (Rosu.ConvCatch.Obj S F) × List CatchEvent),
      convertAll A fuel z objs = .ok r → catchMapEvents A fuel (objs.map toRaw) = .ok r.2 := by
  intro objs
  induction objs with
  | nil => intro r h; simp only [convertAll] at h; cases h; rfl
  | cons o os ih =>
    intro r h
    unfold convertAll at h
    simp only [List.map_cons]
    unfold catchMapEvents
    cases ho : convertObj A fuel z o with
    | clampPanic => simp [ho] at h
    | outOfFuel => simp [ho] at h
    | ok c =>
      cases hos : convertAll A fuel z os with
      | clampPanic => simp [ho, hos] at h
      | outOfFuel => simp [ho, hos] at h
      | ok cs =>
        simp only [ho, hos] at h
        cases h
        rw [ih _ hos]
        simp only
        cases o with
        | fruit x st => simp only [convertObj] at ho; cases ho; rfl
        | shower n => simp only [convertObj] at ho; cases ho; rfl
        | stream x cp s xs =>
          simp only [convertObj] at ho
          simp only [toRaw, juiceStream]
          cases he : (catchParams A s).events A fuel with
          | clampPanic => simp [he] at ho
          | outOfFuel => simp [he] at ho
          | ok evs =>
            simp only [he] at ho ⊢
            cases hw : juiceWalk A fuel z none evs xs with
            | none => simp [hw] at ho
            | some w =>
              simp only [hw] at ho
              cases ho
              rw [juiceWalk_records A fuel z evs none xs w hw]

section
variable [FOps F] [FOps S] (C : Casts F S)

/-- the counts of the pipeline are `catchRegular` on the records of `catchMapEvents` -/
theorem catchDifficulty_counts (A : Arith F) (CA : Rosu.ConvCatch.CAr S F) (SA : SecArith F) (fuel : Nat)
    (start0 : F) (st : Settings F S) (take : Nat) (objs : List (PObj F S)) (a : CatchAttrs F)
    (h : catchDifficulty C A CA SA fuel start0 st take objs = .ok a) :
    ∃ recs, catchMapEvents A fuel (objs.map toRaw) = .ok recs ∧
      a.nFruits = (catchRegular recs take).fruits ∧ a.nDroplets = (catchRegular recs take).droplets ∧
      a.nTinyDroplets = (catchRegular recs take).tiny ∧ a.ar = st.ar ∧ a.isConvert = st.isConvert := by
  unfold catchDifficulty at h
  cases hc : convertAll A fuel (CA.ofInt 0) objs with
  | clampPanic => simp [hc] at h
  | outOfFuel => simp [hc] at h
  | ok r =>
    obtain ⟨cobjs, recs⟩ := r
    simp only [hc] at h
    refine ⟨recs, convertAll_records A fuel _ objs _ hc, ?_⟩
    cases hk : Rosu.CatchSkill.calculate C SA fuel st.clockRate st.cs take (palpables CA st start0 cobjs) with
    | panic => simp [hk, Res.bind] at h
    | fuel => simp [hk, Res.bind] at h
    | ok v =>
      simp only [hk, Res.bind, Res.ok.injEq] at h
      subst h
      exact ⟨rfl, rfl, rfl, rfl, rfl⟩

/-- **gradual = one-shot for the whole pipeline**: the attributes after the `i`-th `next()` are the
attributes of `passed_objects = i`, whenever the record stream is well formed (no tiny droplets
after the last palpable object) — in every arithmetic. -/
theorem catchGradualValue_eq (A : Arith F) (CA : Rosu.ConvCatch.CAr S F) (SA : SecArith F) (fuel : Nat)
    (start0 : F) (st : Settings F S) (i : Nat) (objs : List (PObj F S))
    (hwf : ∀ recs, catchMapEvents A fuel (objs.map toRaw) = .ok recs → CatchWellFormed recs) :
    catchGradualValue C A CA SA fuel start0 st i objs = catchDifficulty C A CA SA fuel start0 st i objs := by
  unfold catchGradualValue catchDifficulty
  cases hc : convertAll A fuel (CA.ofInt 0) objs with
  | clampPanic => rfl
  | outOfFuel => rfl
  | ok r =>
    obtain ⟨cobjs, recs⟩ := r
    simp only
    rw [Rosu.CatchSkill.gradualState_eq_calculate]
    have hcounts : (catchGradualRecs recs |>.take i).foldl CatchCounts.add CatchCounts.zero = catchRegular recs i := by
      have := catchRegular_eq_prefix recs i (hwf recs (convertAll_records A fuel _ objs _ hc))
      rw [this]; rfl
    cases Rosu.CatchSkill.calculate C SA fuel st.clockRate st.cs i (palpables CA st start0 cobjs) with
    | panic => rfl
    | fuel => rfl
    | ok v => simp only [Res.bind, hcounts]

end

end Rosu.PipelineCatch
