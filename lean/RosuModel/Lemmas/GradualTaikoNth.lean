import RosuModel.Lemmas.GradualTaiko

/-!
# `TaikoGradualDifficulty::nth` on regular maps

Regular map: `true :: true :: rest` with `rest ≠ []` (the first two objects are hits and there
is a third object) — the hypothesis of `taiko_next_eq_prefix_partial`.

`TaikoReg g i` describes the state after `i` values for **every** `i` (including the two states
`i = 0, 1` in which no difficulty object has been consumed, where `nth` takes one of its three
`(take, idx)` fast paths); `TaikoDrained g` is the state after a `next`/`nth` that returned
`None` (the iterator has been run dry over the trailing non-hits).  Every operation maps these
states to these states, `nth k` yields the value number `i + min (k+1) remaining`.
-/

namespace Rosu.Gradual

variable {S : Type}

/-- State after `i` values (any `i ≤` number of hits) on the regular map `true :: true :: rest`. -/
structure TaikoReg (sk : Skills S) (rest : List Bool) (g : TaikoGrad S) (i : Nat) : Prop where
  idx : g.idx = i
  combo : g.maxCombo = i
  pos : g.iterPos = cutLen rest (i - 2)
  skills : g.skills = processedPrefix sk (cutLen rest (i - 2))
  le : i ≤ 2 + hitsIn rest

/-- State after an exhausted `next`: all values reported, the difficulty-object iterator dry. -/
structure TaikoDrained (sk : Skills S) (rest : List Bool) (g : TaikoGrad S) : Prop where
  idx : g.idx = 2 + hitsIn rest
  combo : g.maxCombo = 2 + hitsIn rest
  pos : g.iterPos = rest.length
  skills : g.skills = processedPrefix sk rest.length

/-- The states an operation sequence can reach. -/
def TaikoSt (sk : Skills S) (rest : List Bool) (g : TaikoGrad S) (i : Nat) : Prop :=
  TaikoReg sk rest g i ∨ (i = 2 + hitsIn rest ∧ TaikoDrained sk rest g)

theorem TaikoReg.ofCanon {sk : Skills S} {rest : List Bool} {g : TaikoGrad S} {i : Nat}
    (h : TaikoCanon sk rest g i) : TaikoReg sk rest g i :=
  ⟨h.idx, h.combo, h.pos, h.skills, h.le⟩

theorem TaikoReg.toCanon {sk : Skills S} {rest : List Bool} {g : TaikoGrad S} {i : Nat}
    (h : TaikoReg sk rest g i) (h2 : 2 ≤ i) : TaikoCanon sk rest g i :=
  ⟨h.idx, h.combo, h.pos, h.skills, h2, h.le⟩

theorem taikoNew_reg (sk : Skills S) (rest : List Bool) :
    TaikoReg sk rest (taikoNew sk (true :: true :: rest)) 0 :=
  ⟨rfl, rfl, by simp [taikoNew, cutLen_zero], by simp [taikoNew, cutLen_zero, processedPrefix, processFrom],
    Nat.zero_le _⟩

theorem hits_regular (rest : List Bool) :
    ((true :: true :: rest).filter id).length = 2 + hitsIn rest := by
  show hitsIn (true :: true :: rest) = _
  rw [hitsIn_cons, hitsIn_cons]; simp; omega

/-! ## `next` -/

theorem taikoNext_reg (sk : Skills S) (rest : List Bool) (hne : rest ≠ []) (g : TaikoGrad S) (i : Nat)
    (hc : TaikoReg sk rest g i) :
    (i < 2 + hitsIn rest →
      (taikoNext sk (true :: true :: rest) g).1 = some (taikoValue sk rest (i + 1)) ∧
      TaikoReg sk rest (taikoNext sk (true :: true :: rest) g).2 (i + 1)) ∧
    (i = 2 + hitsIn rest → (taikoNext sk (true :: true :: rest) g).1 = none ∧
      TaikoDrained sk rest (taikoNext sk (true :: true :: rest) g).2) := by
  rcases Nat.lt_or_ge i 2 with hlt2 | hge2
  · -- no difficulty object yet
    obtain ⟨hidx, hcombo, hpos, hsk, hle⟩ := hc
    have hdrop : (true :: true :: rest).drop 2 = rest := rfl
    have hemp : rest.isEmpty = false := by cases rest <;> simp_all
    have h0 : i - 2 = 0 := by omega
    have h1 : i + 1 - 2 = 0 := by omega
    rw [h0] at hpos hsk
    refine ⟨fun _ => ?_, fun h => by omega⟩
    have hi : i = 0 ∨ i = 1 := by omega
    rcases hi with hi | hi <;> subst hi
    · refine ⟨?_, ⟨?_, ?_, ?_, ?_, by omega⟩⟩ <;>
        simp [taikoNext, hdrop, hemp, hidx, taikoFirstCombos, taikoValue, hpos, hsk]
    · refine ⟨?_, ⟨?_, ?_, ?_, ?_, by omega⟩⟩ <;>
        simp [taikoNext, hdrop, hemp, hidx, taikoFirstCombos, taikoValue, hpos, hsk]
  · have hcan := hc.toCanon hge2
    have h := taikoNext_spec sk rest g i hcan
    refine ⟨fun hlt => ⟨(h.1 hlt).1, TaikoReg.ofCanon (h.1 hlt).2⟩, fun heq => ⟨h.2 heq, ?_⟩⟩
    obtain ⟨hidx, hcombo, hpos, hsk, hle⟩ := hc
    have hdrop : (true :: true :: rest).drop 2 = rest := rfl
    have hqle : cutLen rest (i - 2) ≤ rest.length := cutLen_le _ _
    have hrem : hitsIn (rest.drop (cutLen rest (i - 2))) = 0 := by
      rw [hitsIn_drop_cutLen rest _ (by omega)]; omega
    have hidx2 : g.idx ≥ 2 := by omega
    have hl := taikoHitLoop_dry sk rest (rest.length + 1) g _ hpos hsk hqle hrem (by omega)
    simp only [taikoNext, hdrop, hidx2, ↓reduceIte, hl]
    exact ⟨by simp [hidx, heq], by simp [hcombo, heq], rfl, rfl⟩

theorem taikoNext_drained (sk : Skills S) (rest : List Bool) (g : TaikoGrad S)
    (hd : TaikoDrained sk rest g) : taikoNext sk (true :: true :: rest) g = (none, g) := by
  obtain ⟨hidx, hcombo, hpos, hsk⟩ := hd
  have hdrop : (true :: true :: rest).drop 2 = rest := rfl
  have hidx2 : g.idx ≥ 2 := by omega
  have hdrop0 : hitsIn (rest.drop rest.length) = 0 := by simp [hitsIn]
  have hl := taikoHitLoop_dry sk rest (rest.length + 1) g rest.length hpos hsk (Nat.le_refl _) hdrop0
    (by omega)
  simp only [taikoNext, hdrop, hidx2, ↓reduceIte, hl]
  congr 1
  cases g
  simp_all

/-! ## the `for _ in 0..take` loop of `nth` -/

/-- One round of the loop body: the inner hit loop stops right after the next hit. -/
theorem taikoHitLoop_canon (sk : Skills S) (rest : List Bool) (g : TaikoGrad S) (i : Nat)
    (hc : TaikoCanon sk rest g i) (hlt : i < 2 + hitsIn rest) :
    ∃ g', taikoHitLoop sk rest (rest.length + 1) g = (true, g') ∧
      TaikoCanon sk rest { g' with maxCombo := g'.maxCombo + 1, idx := g'.idx + 1 } (i + 1) := by
  obtain ⟨hidx, hcombo, hpos, hsk, hge, hle⟩ := hc
  have hrem : hitsIn (rest.drop (cutLen rest (i - 2))) = hitsIn rest - (i - 2) :=
    hitsIn_drop_cutLen rest (i - 2) (by omega)
  have hh : 1 ≤ hitsIn (rest.drop (cutLen rest (i - 2))) := by omega
  have hf : cutLen (rest.drop (cutLen rest (i - 2))) 1 ≤ rest.length + 1 := by
    have := cutLen_le (rest.drop (cutLen rest (i - 2))) 1
    simp at this; omega
  have hl := taikoHitLoop_hit sk rest (rest.length + 1) g _ hpos hsk hh hf
  have hnext : cutLen rest (i - 2) + cutLen (rest.drop (cutLen rest (i - 2))) 1 =
      cutLen rest (i + 1 - 2) := by
    rw [← cutLen_add]; congr 1; omega
  rw [hnext] at hl
  exact ⟨_, hl, ⟨by simp [hidx], by simp [hcombo], rfl, rfl, by omega, by omega⟩⟩

theorem taikoNthLoop_canon (sk : Skills S) (rest : List Bool) :
    ∀ (k : Nat) (g : TaikoGrad S) (i : Nat), TaikoCanon sk rest g i → i + k ≤ 2 + hitsIn rest →
      ∃ g', taikoNthLoop sk rest k g = (true, g') ∧ TaikoCanon sk rest g' (i + k) := by
  intro k
  induction k with
  | zero => intro g i hc _; exact ⟨g, rfl, hc⟩
  | succ k ih =>
    intro g i hc hk
    obtain ⟨g1, h1, hc1⟩ := taikoHitLoop_canon sk rest g i hc (by omega)
    obtain ⟨g2, h2, hc2⟩ := ih _ (i + 1) hc1 (by omega)
    refine ⟨g2, ?_, by rw [show i + (k + 1) = i + 1 + k by omega]; exact hc2⟩
    unfold taikoNthLoop
    rw [h1]
    exact h2

/-! ## `nth` -/

/-- The part of `nth` after the `(take, idx)` match: the loop and the final `self.next()`. -/
def taikoNthTail (sk : Skills S) (objs : List Bool) (take1 : Nat) (g1 : TaikoGrad S) :
    Res (Nat × S) × TaikoGrad S :=
  match taikoNthLoop sk (objs.drop 2) take1 g1 with
  | (false, g2) => (.none, g2)
  | (true, g2) =>
    match taikoNext sk objs g2 with
    | (some v, g3) => (.some v, g3)
    | (none, g3) => (.none, g3)

/-- The `(take, idx)` match of `nth` (first-two-objects fast paths). -/
def taikoNthPrefix (fc : FirstTwoCombos) (g : TaikoGrad S) (take : Nat) : TaikoGrad S × Nat :=
  if g.idx ≥ 2 ∨ take = 0 then (g, take)
  else if take = 1 ∧ g.idx = 0 then
    ({ g with idx := g.idx + 1,
              maxCombo := match fc with
                | .none => g.maxCombo | .onlyFirst => 1 | .onlySecond => g.maxCombo | .both => 1 },
     take - 1)
  else if g.idx = 0 then
    ({ g with idx := g.idx + 2,
              maxCombo := match fc with
                | .none => g.maxCombo | .onlyFirst => 1 | .onlySecond => 1 | .both => 2 },
     take - 2)
  else
    ({ g with idx := g.idx + 1,
              maxCombo := match fc with
                | .none => g.maxCombo | .onlyFirst => 1 | .onlySecond => 1 | .both => 2 },
     take - 1)

theorem taikoNth_eq (sk : Skills S) (objs : List Bool) (g : TaikoGrad S) (n : Nat) (checked : Bool) :
    taikoNth sk objs g n checked =
      match (if checked then taikoLen objs g else some (wsub (objs.filter id).length g.idx)) with
      | none => (.panic, g)
      | some len =>
        let p := taikoNthPrefix (taikoFirstCombos objs) g (min n (len - 1))
        taikoNthTail sk objs p.2 p.1 := by
  rfl

/-- `len()` as used by `nth`, in both build profiles, when `idx ≤ total_hits`. -/
theorem taikoLenSel (rest : List Bool) (g : TaikoGrad S) (i : Nat) (hidx : g.idx = i)
    (hle : i ≤ 2 + hitsIn rest) (checked : Bool) :
    (if checked then taikoLen (true :: true :: rest) g
      else some (wsub ((true :: true :: rest).filter id).length g.idx)) =
      some (2 + hitsIn rest - i) := by
  cases checked
  · simp only [Bool.false_eq_true, ↓reduceIte, hits_regular, hidx, wsub, hle]
  · simp only [↓reduceIte, taikoLen, hits_regular, hidx, csub, hle]

/-- The tail from a regular state: `take1` loop rounds (only taken once two values are out) plus
the final `next` report value number `i1 + take1 + 1`. -/
theorem taikoNthTail_reg (sk : Skills S) (rest : List Bool) (hne : rest ≠ []) (g1 : TaikoGrad S)
    (i1 take1 : Nat) (hc : TaikoReg sk rest g1 i1) (h2 : take1 = 0 ∨ 2 ≤ i1)
    (hk : i1 + take1 + 1 ≤ 2 + hitsIn rest) :
    (taikoNthTail sk (true :: true :: rest) take1 g1).1 = .some (taikoValue sk rest (i1 + take1 + 1)) ∧
    TaikoReg sk rest (taikoNthTail sk (true :: true :: rest) take1 g1).2 (i1 + take1 + 1) := by
  have hdrop : (true :: true :: rest).drop 2 = rest := rfl
  have hloop : ∃ g2, taikoNthLoop sk rest take1 g1 = (true, g2) ∧ TaikoReg sk rest g2 (i1 + take1) := by
    rcases h2 with h0 | hge
    · subst h0; exact ⟨g1, rfl, hc⟩
    · obtain ⟨g2, hl, hc2⟩ := taikoNthLoop_canon sk rest take1 g1 i1 (hc.toCanon hge) (by omega)
      exact ⟨g2, hl, TaikoReg.ofCanon hc2⟩
  obtain ⟨g2, hl, hc2⟩ := hloop
  obtain ⟨hv, hc3⟩ := (taikoNext_reg sk rest hne g2 _ hc2).1 (by omega)
  unfold taikoNthTail
  rw [hdrop, hl]
  simp only
  generalize hr : taikoNext sk (true :: true :: rest) g2 = r at hv hc3
  obtain ⟨rv, rg⟩ := r
  simp only at hv hc3
  subst hv
  exact ⟨rfl, hc3⟩

/-- `nth k` from the state after `i` values: if values remain it reports value number
`i + min (k+1) remaining` and ends in the regular state with that index; when exhausted it returns
`None` and drains the iterator.  Both build profiles (`checked`). -/
theorem taikoNth_reg (sk : Skills S) (rest : List Bool) (hne : rest ≠ []) (g : TaikoGrad S) (i k : Nat)
    (checked : Bool) (hc : TaikoReg sk rest g i) :
    (i < 2 + hitsIn rest →
      let j := i + min (k + 1) (2 + hitsIn rest - i)
      (taikoNth sk (true :: true :: rest) g k checked).1 = .some (taikoValue sk rest j) ∧
      TaikoReg sk rest (taikoNth sk (true :: true :: rest) g k checked).2 j) ∧
    (i = 2 + hitsIn rest →
      (taikoNth sk (true :: true :: rest) g k checked).1 = .none ∧
      TaikoDrained sk rest (taikoNth sk (true :: true :: rest) g k checked).2) := by
  have hfc : taikoFirstCombos (true :: true :: rest) = .both := rfl
  rw [taikoNth_eq, taikoLenSel rest g i hc.idx hc.le checked]
  simp only [hfc]
  constructor
  · intro hlt
    generalize htake : min k (2 + hitsIn rest - i - 1) = take
    rw [show i + min (k + 1) (2 + hitsIn rest - i) = i + take + 1 by omega]
    obtain ⟨hidx, hcombo, hpos, hsk, hle⟩ := hc
    rcases Nat.lt_or_ge i 2 with hlt2 | hge2
    · have h0 : i - 2 = 0 := by omega
      rw [h0] at hpos hsk
      by_cases ht0 : take = 0
      · -- no fast path: plain `next`
        have hp : taikoNthPrefix .both g take = (g, take) := by
          unfold taikoNthPrefix; rw [if_pos (Or.inr ht0)]
        rw [hp]
        have := taikoNthTail_reg sk rest hne g i take ⟨hidx, hcombo, by rw [h0]; exact hpos,
          by rw [h0]; exact hsk, hle⟩ (Or.inl ht0) (by omega)
        exact this
      · have hi : i = 0 ∨ i = 1 := by omega
        rcases hi with hi | hi <;> subst hi
        · by_cases ht1 : take = 1
          · -- `(1, 0)`: skip the first object
            have hp : taikoNthPrefix .both g take = ({ g with idx := g.idx + 1, maxCombo := 1 }, take - 1) := by
              unfold taikoNthPrefix
              rw [if_neg (by omega), if_pos ⟨ht1, hidx⟩]
            rw [hp]
            have := taikoNthTail_reg sk rest hne { g with idx := g.idx + 1, maxCombo := 1 } 1 (take - 1)
              ⟨by simp [hidx], rfl, by simpa using hpos, by simpa using hsk, by omega⟩
              (Or.inl (by omega)) (by omega)
            rw [show 0 + take + 1 = 1 + (take - 1) + 1 by omega]; exact this
          · -- `(_, 0)`: skip the first two objects
            have hp : taikoNthPrefix .both g take = ({ g with idx := g.idx + 2, maxCombo := 2 }, take - 2) := by
              unfold taikoNthPrefix
              rw [if_neg (by omega), if_neg (by omega), if_pos hidx]
            rw [hp]
            have := taikoNthTail_reg sk rest hne { g with idx := g.idx + 2, maxCombo := 2 } 2 (take - 2)
              ⟨by simp [hidx], rfl, by simpa using hpos, by simpa using hsk, by omega⟩
              (Or.inr (Nat.le_refl _)) (by omega)
            rw [show 0 + take + 1 = 2 + (take - 2) + 1 by omega]; exact this
        · -- `(_, 1)`: skip the second object
          have hp : taikoNthPrefix .both g take = ({ g with idx := g.idx + 1, maxCombo := 2 }, take - 1) := by
            unfold taikoNthPrefix
            rw [if_neg (by omega), if_neg (by omega), if_neg (by omega)]
          rw [hp]
          have := taikoNthTail_reg sk rest hne { g with idx := g.idx + 1, maxCombo := 2 } 2 (take - 1)
            ⟨by simp [hidx], rfl, by simpa using hpos, by simpa using hsk, by omega⟩
            (Or.inr (Nat.le_refl _)) (by omega)
          rw [show 1 + take + 1 = 2 + (take - 1) + 1 by omega]; exact this
    · have hp : taikoNthPrefix .both g take = (g, take) := by
        unfold taikoNthPrefix; rw [if_pos (Or.inl (by omega))]
      rw [hp]
      have := taikoNthTail_reg sk rest hne g i take ⟨hidx, hcombo, hpos, hsk, hle⟩ (Or.inr hge2) (by omega)
      exact this
  · intro heq
    have htake : min k (2 + hitsIn rest - i - 1) = 0 := by omega
    rw [htake]
    have hp : taikoNthPrefix .both g 0 = (g, 0) := by
      unfold taikoNthPrefix; rw [if_pos (Or.inr rfl)]
    rw [hp]
    have hn := (taikoNext_reg sk rest hne g i hc).2 heq
    unfold taikoNthTail
    simp only [taikoNthLoop]
    generalize hr : taikoNext sk (true :: true :: rest) g = r at hn
    obtain ⟨rv, rg⟩ := r
    obtain ⟨hv, hd⟩ := hn
    simp only at hv hd
    subst hv
    exact ⟨rfl, hd⟩

theorem taikoNth_drained (sk : Skills S) (rest : List Bool) (g : TaikoGrad S) (k : Nat)
    (checked : Bool) (hd : TaikoDrained sk rest g) :
    taikoNth sk (true :: true :: rest) g k checked = (.none, g) := by
  rw [taikoNth_eq, taikoLenSel rest g _ hd.idx (Nat.le_refl _) checked]
  have htake : min k (2 + hitsIn rest - (2 + hitsIn rest) - 1) = 0 := by omega
  simp only [htake]
  have hp : taikoNthPrefix (taikoFirstCombos (true :: true :: rest)) g 0 = (g, 0) := by
    unfold taikoNthPrefix; rw [if_pos (Or.inr rfl)]
  rw [hp]
  unfold taikoNthTail
  simp only [taikoNthLoop, taikoNext_drained sk rest g hd]

/-! ## `len` and iterated `next` -/

theorem taikoLen_st (sk : Skills S) (rest : List Bool) (g : TaikoGrad S) (i : Nat)
    (hs : TaikoSt sk rest g i) :
    taikoLen (true :: true :: rest) g = some (2 + hitsIn rest - i) := by
  have h : g.idx = i ∧ i ≤ 2 + hitsIn rest := by
    rcases hs with h | ⟨he, h⟩
    · exact ⟨h.idx, h.le⟩
    · exact ⟨by rw [h.idx, he], by omega⟩
  have := taikoLenSel rest g i h.1 h.2 true
  simpa using this

theorem taiko_nexts_reg (sk : Skills S) (rest : List Bool) (hne : rest ≠ []) (k : Nat) (g : TaikoGrad S)
    (i : Nat) (hc : TaikoReg sk rest g i) (hk : i + k ≤ 2 + hitsIn rest) :
    ((taikoMachine sk (true :: true :: rest)).nexts g k).1 =
      (List.range k).map (fun d => Res.some (taikoValue sk rest (i + d + 1))) ∧
    TaikoReg sk rest ((taikoMachine sk (true :: true :: rest)).nexts g k).2 (i + k) := by
  induction k generalizing g i with
  | zero => simpa [Machine.nexts] using hc
  | succ k ih =>
    have hlt : i < 2 + hitsIn rest := by omega
    obtain ⟨hv, hc'⟩ := (taikoNext_reg sk rest hne g i hc).1 hlt
    have ih' := ih _ (i + 1) hc' (by omega)
    simp only [Machine.nexts]
    have hn : (taikoMachine sk (true :: true :: rest)).next g =
        (Res.some (taikoValue sk rest (i + 1)), (taikoNext sk (true :: true :: rest) g).2) := by
      show (optToRes (taikoNext sk (true :: true :: rest) g).1, _) = _
      rw [hv]; rfl
    rw [hn]
    refine ⟨?_, ?_⟩
    · simp only
      rw [ih'.1, List.range_succ_eq_map]
      simp only [List.map_cons, List.map_map, Nat.add_zero]
      congr 1
      apply List.map_congr_left
      intro d _
      simp only [Function.comp]
      congr 2
      omega
    · have e : i + (k + 1) = i + 1 + k := by omega
      rw [e]; exact ih'.2

end Rosu.Gradual
