import RosuModel.Lemmas.GradualTaiko

/-!
# `TaikoGradualDifficulty::nth`, exhausted states and arbitrary operation sequences (as fixed)

For **every** object list: `TaikoCanon g i` is the state after `i` values (`i ≤ H`, `H` = number of
hits); `TaikoDrained g` is the state after a `next`/`nth` that returned `None` (the iterator has been
run dry over the trailing non-hits).  Every operation maps these states to these states; `nth k`
never panics and yields the value number `i + min (k+1) remaining`, `len` is `H - i`.
-/

namespace Rosu.Gradual

variable {S : Type}

/-- State after an exhausted `next`: all values reported, the difficulty-object iterator dry. -/
structure TaikoDrained (sk : Skills S) (objs : List Bool) (g : TaikoGrad S) : Prop where
  idx : g.idx = hitsIn objs
  combo : g.maxCombo = hitsIn objs
  pos : g.iterPos = (objs.drop 2).length
  skills : g.skills = processedPrefix sk (objs.drop 2).length

/-- The states an operation sequence can reach. -/
def TaikoSt (sk : Skills S) (objs : List Bool) (g : TaikoGrad S) (i : Nat) : Prop :=
  TaikoCanon sk objs g i ∨ (i = hitsIn objs ∧ TaikoDrained sk objs g)

theorem taikoLen_canon (sk : Skills S) (objs : List Bool) (g : TaikoGrad S) (i : Nat)
    (hidx : g.idx = i) (hle : i ≤ hitsIn objs) : taikoLen objs g = some (hitsIn objs - i) := by
  show csub (objs.filter id).length g.idx = _
  rw [hidx]
  simp [csub, hitsIn] at hle ⊢
  exact hle

/-- `len()` never underflows: it is the number of values still to come. -/
theorem taikoLen_st (sk : Skills S) (objs : List Bool) (g : TaikoGrad S) (i : Nat)
    (hs : TaikoSt sk objs g i) : taikoLen objs g = some (hitsIn objs - i) := by
  rcases hs with h | ⟨he, h⟩
  · exact taikoLen_canon sk objs g i h.idx h.le
  · exact taikoLen_canon sk objs g i (by rw [h.idx, he]) (by omega)

/-- The exhausted core step from an undrained state: `None`, and the iterator has been run dry. -/
theorem taikoNextCore_exhausted (sk : Skills S) (objs : List Bool) (g : TaikoGrad S)
    (hc : TaikoMid sk objs g (hitsIn objs)) :
    (taikoNextCore sk objs g).1 = none ∧ TaikoDrained sk objs (taikoNextCore sk objs g).2 := by
  obtain ⟨hidx, hcombo, hpos, hsk, _⟩ := hc
  have hH := hitsIn_split objs
  have hn := nHits_eq objs
  have hcond : g.idx ≥ (taikoFirstCombos objs).nHits := by rw [hn, hidx]; omega
  have hqle : cutLen (objs.drop 2) (hitsIn objs - firstHits objs) ≤ (objs.drop 2).length := cutLen_le _ _
  have hrem := hitsIn_drop_cutLen (objs.drop 2) (hitsIn objs - firstHits objs) (by omega)
  have hh : hitsIn ((objs.drop 2).drop (cutLen (objs.drop 2) (hitsIn objs - firstHits objs))) = 0 := by omega
  have hl := taikoHitLoop_dry sk (objs.drop 2) ((objs.drop 2).length + 1) g _ hpos hsk hqle hh (by omega)
  simp only [taikoNextCore, hcond, if_true, hl]
  exact ⟨trivial, ⟨hidx, hcombo, rfl, rfl⟩⟩

/-- Once drained, `next` returns `None` and changes nothing. -/
theorem taikoNext_drained (sk : Skills S) (objs : List Bool) (g : TaikoGrad S)
    (hd : TaikoDrained sk objs g) : taikoNext sk objs g = (none, g) := by
  obtain ⟨hidx, hcombo, hpos, hsk⟩ := hd
  have hH := hitsIn_split objs
  have hn := nHits_eq objs
  have hcond : g.idx ≥ (taikoFirstCombos objs).nHits := by rw [hn, hidx]; omega
  have hdrop0 : hitsIn ((objs.drop 2).drop (objs.drop 2).length) = 0 := by
    rw [List.drop_length]; rfl
  have hl := taikoHitLoop_dry sk (objs.drop 2) ((objs.drop 2).length + 1) g (objs.drop 2).length hpos hsk
    (Nat.le_refl _) hdrop0 (by omega)
  have hcore : taikoNextCore sk objs g = (none, g) := by
    simp only [taikoNextCore, hcond, if_true, hl]
    congr 1
    cases g
    simp_all
  rw [taikoNext_of_core_none sk objs g (by rw [hcore]), hcore]

/-- With at least one hit, the canonical state after the last value is already drained. -/
theorem TaikoCanon.drained {sk : Skills S} {objs : List Bool} {g : TaikoGrad S}
    (hc : TaikoCanon sk objs g (hitsIn objs)) (h0 : 0 < hitsIn objs) : TaikoDrained sk objs g := by
  have hp : taikoPos objs (hitsIn objs) = (objs.drop 2).length := by
    unfold taikoPos; rw [if_pos ⟨h0, rfl⟩]
  exact ⟨hc.idx, hc.combo, by rw [hc.pos, hp], by rw [hc.skills, hp]⟩

/-- The exhausted `next`: `None`, and the iterator is dry. -/
theorem taikoNext_exhausted (sk : Skills S) (objs : List Bool) (g : TaikoGrad S)
    (hc : TaikoCanon sk objs g (hitsIn objs)) :
    (taikoNext sk objs g).1 = none ∧ TaikoDrained sk objs (taikoNext sk objs g).2 := by
  by_cases h0 : hitsIn objs = 0
  · have hm : TaikoMid sk objs g (hitsIn objs) := hc.toMid (Or.inr h0)
    obtain ⟨h1, h2⟩ := taikoNextCore_exhausted sk objs g hm
    rw [taikoNext_of_core_none sk objs g h1]
    exact ⟨rfl, h2⟩
  · have hd := hc.drained (by omega)
    rw [taikoNext_drained sk objs g hd]
    exact ⟨rfl, hd⟩

/-- `next` maps reachable states to reachable states. -/
theorem taikoNext_st (sk : Skills S) (objs : List Bool) (g : TaikoGrad S) (i : Nat)
    (hs : TaikoSt sk objs g i) : ∃ j, TaikoSt sk objs (taikoNext sk objs g).2 j := by
  rcases hs with hc | ⟨he, hd⟩
  · rcases Nat.lt_or_ge i (hitsIn objs) with hlt | hge
    · exact ⟨i + 1, Or.inl ((taikoNext_spec sk objs g i hc).1 hlt).2⟩
    · have heq : i = hitsIn objs := by have := hc.le; omega
      subst heq
      exact ⟨_, Or.inr ⟨rfl, (taikoNext_exhausted sk objs g hc).2⟩⟩
  · rw [taikoNext_drained sk objs g hd]
    exact ⟨i, Or.inr ⟨he, hd⟩⟩

/-- The `for _ in 0..take { loop { … } }` part of `nth` from a canonical state at or beyond the hits
of the first two objects: it advances by exactly `c` hits. -/
theorem taikoNthLoop_canon (sk : Skills S) (objs : List Bool) :
    ∀ (c : Nat) (g : TaikoGrad S) (j : Nat), TaikoMid sk objs g j → firstHits objs ≤ j ∨ c = 0 →
      j + c ≤ hitsIn objs →
      ∃ g', taikoNthLoop sk (objs.drop 2) c g = (true, g') ∧ TaikoMid sk objs g' (j + c)
  | 0, g, j, hc, _, _ => ⟨g, rfl, by simpa using hc⟩
  | c + 1, g, j, hc, hj, hle => by
    have hk : firstHits objs ≤ j := by rcases hj with h | h <;> omega
    obtain ⟨hidx, hcombo, hpos, hsk, hle'⟩ := hc
    have hH := hitsIn_split objs
    have hrem : hitsIn ((objs.drop 2).drop (cutLen (objs.drop 2) (j - firstHits objs))) =
        hitsIn (objs.drop 2) - (j - firstHits objs) :=
      hitsIn_drop_cutLen (objs.drop 2) (j - firstHits objs) (by omega)
    have hh : 1 ≤ hitsIn ((objs.drop 2).drop (cutLen (objs.drop 2) (j - firstHits objs))) := by omega
    have hf : cutLen ((objs.drop 2).drop (cutLen (objs.drop 2) (j - firstHits objs))) 1 ≤
        (objs.drop 2).length + 1 := by
      have h1 := cutLen_le ((objs.drop 2).drop (cutLen (objs.drop 2) (j - firstHits objs))) 1
      have h2 : ((objs.drop 2).drop (cutLen (objs.drop 2) (j - firstHits objs))).length ≤
          (objs.drop 2).length := by rw [List.length_drop]; omega
      omega
    have hl := taikoHitLoop_hit sk (objs.drop 2) ((objs.drop 2).length + 1) g _ hpos hsk hh hf
    have hnext : cutLen (objs.drop 2) (j - firstHits objs) +
        cutLen ((objs.drop 2).drop (cutLen (objs.drop 2) (j - firstHits objs))) 1 =
        cutLen (objs.drop 2) (j + 1 - firstHits objs) := by
      rw [← cutLen_add]; congr 1; omega
    have hc' : TaikoMid sk objs
        { g with iterPos := cutLen (objs.drop 2) (j + 1 - firstHits objs),
                 skills := processedPrefix sk (cutLen (objs.drop 2) (j + 1 - firstHits objs)),
                 maxCombo := g.maxCombo + 1, idx := g.idx + 1 } (j + 1) :=
      ⟨by simp [hidx], by simp [hcombo], rfl, rfl, by omega⟩
    obtain ⟨g', h1, h2⟩ := taikoNthLoop_canon sk objs c _ (j + 1) hc' (Or.inl (by omega)) (by omega)
    refine ⟨g', ?_, by rw [show j + (c + 1) = j + 1 + c by omega]; exact h2⟩
    simp only [taikoNthLoop, hl, hnext]
    exact h1

/-- `nth` from an undrained state after `i` hits (the canonical state when `i < H` or `i = 0`): no panic;
with more than `n` values remaining it returns the value number `i + n + 1` and leaves the canonical
state after that many values; otherwise it consumes everything that remains, returns `None` and leaves
the drained state. -/
theorem taikoNth_mid (sk : Skills S) (objs : List Bool) (g : TaikoGrad S) (i n : Nat)
    (hc : TaikoMid sk objs g i) :
    (i + n < hitsIn objs →
      (taikoNth sk objs g n).1 = .some (taikoValue sk objs (i + n + 1)) ∧
      TaikoCanon sk objs (taikoNth sk objs g n).2 (i + n + 1)) ∧
    (hitsIn objs ≤ i + n →
      (taikoNth sk objs g n).1 = .none ∧ TaikoDrained sk objs (taikoNth sk objs g n).2) := by
  have hle := hc.le
  have hlen : taikoLen objs g = some (hitsIn objs - i) := taikoLen_canon sk objs g i hc.idx hc.le
  have hn := nHits_eq objs
  -- the state after the `while take > 0 && idx < n_hits` loop
  have hskip : ∀ t, i + t ≤ hitsIn objs →
      TaikoMid sk objs
        { g with idx := g.idx + min t ((taikoFirstCombos objs).nHits - g.idx),
                 maxCombo := g.maxCombo + min t ((taikoFirstCombos objs).nHits - g.idx) }
        (i + min t (firstHits objs - i)) := by
    intro t ht
    obtain ⟨hidx, hcombo, hpos, hsk, hle⟩ := hc
    rw [hn, hidx]
    refine ⟨by simp [hidx], by simp [hcombo], ?_, ?_, by omega⟩
    · show g.iterPos = _
      rw [hpos]; congr 1; omega
    · show g.skills = _
      rw [hsk]; congr 2; omega
  have htake : i + min n (hitsIn objs - i) ≤ hitsIn objs := by omega
  have hc1 := hskip (min n (hitsIn objs - i)) htake
  obtain ⟨g2, hloop, hc2⟩ := taikoNthLoop_canon sk objs
    (min n (hitsIn objs - i) - min (min n (hitsIn objs - i)) (firstHits objs - i)) _ _ hc1
    (by omega) (by omega)
  have hsum : i + min (min n (hitsIn objs - i)) (firstHits objs - i) +
      (min n (hitsIn objs - i) - min (min n (hitsIn objs - i)) (firstHits objs - i)) =
      i + min n (hitsIn objs - i) := by omega
  rw [hsum] at hc2
  have hidx := hc.idx
  rw [hn, hidx] at hloop
  constructor
  · intro hlt
    have e : i + min n (hitsIn objs - i) = i + n := by omega
    rw [e] at hc2
    have hnx := taikoNext_mid sk objs g2 _ hc2 hlt
    simp only [taikoNth, hlen]
    rw [hn, hidx, hloop]
    simp only
    generalize taikoNext sk objs g2 = r at hnx ⊢
    obtain ⟨a, b⟩ := r
    obtain ⟨h1, h2⟩ := hnx
    simp only at h1 h2
    subst h1
    exact ⟨rfl, h2⟩
  · intro hge
    have e : i + min n (hitsIn objs - i) = hitsIn objs := by omega
    rw [e] at hc2
    obtain ⟨hx1, hx2⟩ := taikoNextCore_exhausted sk objs g2 hc2
    have hnx : (taikoNext sk objs g2).1 = none ∧ TaikoDrained sk objs (taikoNext sk objs g2).2 := by
      rw [taikoNext_of_core_none sk objs g2 hx1]; exact ⟨rfl, hx2⟩
    simp only [taikoNth, hlen]
    rw [hn, hidx, hloop]
    simp only
    generalize taikoNext sk objs g2 = r at hnx ⊢
    obtain ⟨a, b⟩ := r
    obtain ⟨h1, h2⟩ := hnx
    simp only at h1 h2
    subst h1
    exact ⟨rfl, h2⟩

/-- Once drained, `nth` returns `None` and changes nothing. -/
theorem taikoNth_drained (sk : Skills S) (objs : List Bool) (g : TaikoGrad S) (k : Nat)
    (hd : TaikoDrained sk objs g) : taikoNth sk objs g k = (.none, g) := by
  have hl : taikoLen objs g = some 0 := by
    rw [taikoLen_canon sk objs g _ hd.idx (Nat.le_refl _)]; simp
  have hg : ({ g with idx := g.idx + 0, maxCombo := g.maxCombo + 0 } : TaikoGrad S) = g := by
    cases g; rfl
  simp only [taikoNth, hl, Nat.min_zero, Nat.zero_min, Nat.sub_self, hg, taikoNthLoop,
    taikoNext_drained sk objs g hd]

/-- **`nth`**, from the canonical state after `i` values: no panic; with more than `n` values remaining it
returns the value number `i + n + 1` and leaves the canonical state after that many values; otherwise
it consumes everything that remains, returns `None` and leaves the drained state. -/
theorem taikoNth_spec (sk : Skills S) (objs : List Bool) (g : TaikoGrad S) (i n : Nat)
    (hc : TaikoCanon sk objs g i) :
    (i + n < hitsIn objs →
      (taikoNth sk objs g n).1 = .some (taikoValue sk objs (i + n + 1)) ∧
      TaikoCanon sk objs (taikoNth sk objs g n).2 (i + n + 1)) ∧
    (hitsIn objs ≤ i + n →
      (taikoNth sk objs g n).1 = .none ∧ TaikoDrained sk objs (taikoNth sk objs g n).2) := by
  have hle := hc.le
  by_cases hm : i < hitsIn objs ∨ i = 0
  · exact taikoNth_mid sk objs g i n (hc.toMid hm)
  · have heq : i = hitsIn objs := by omega
    subst heq
    have hd := hc.drained (by omega)
    refine ⟨fun h => by omega, fun _ => ?_⟩
    rw [taikoNth_drained sk objs g n hd]
    exact ⟨rfl, hd⟩

/-- `nth` maps reachable states to reachable states and never panics. -/
theorem taikoNth_st (sk : Skills S) (objs : List Bool) (g : TaikoGrad S) (i k : Nat)
    (hs : TaikoSt sk objs g i) :
    (taikoNth sk objs g k).1 ≠ .panic ∧ ∃ j, TaikoSt sk objs (taikoNth sk objs g k).2 j := by
  rcases hs with hc | ⟨he, hd⟩
  · rcases Nat.lt_or_ge (i + k) (hitsIn objs) with hlt | hge
    · obtain ⟨hv, hc'⟩ := (taikoNth_spec sk objs g i k hc).1 hlt
      exact ⟨by rw [hv]; simp, _, Or.inl hc'⟩
    · obtain ⟨hv, hd'⟩ := (taikoNth_spec sk objs g i k hc).2 hge
      exact ⟨by rw [hv]; simp, _, Or.inr ⟨rfl, hd'⟩⟩
  · rw [taikoNth_drained sk objs g k hd]
    exact ⟨by simp, i, Or.inr ⟨he, hd⟩⟩

/-- Any number of `next` calls keeps the state reachable. -/
theorem taiko_nexts_st (sk : Skills S) (objs : List Bool) :
    ∀ (n : Nat) (g : TaikoGrad S) (i : Nat), TaikoSt sk objs g i →
      ∃ j, TaikoSt sk objs ((taikoMachine sk objs).nexts g n).2 j
  | 0, g, i, hs => ⟨i, hs⟩
  | n + 1, g, i, hs => by
    obtain ⟨j, hj⟩ := taikoNext_st sk objs g i hs
    exact taiko_nexts_st sk objs n (taikoNext sk objs g).2 j hj

end Rosu.Gradual
