import RosuModel.Model.SafetyQueue

/-! Invariant of `LimitedQueue` and the lemmas behind `Props/C05.lean` (core Lean only). -/
namespace Rosu.Safety

/-- Representation invariant of a queue reachable from `new` by pushes. -/
structure LQ.WF (q : LQ) : Prop where
  cap_pos : 0 < q.cap
  length_eq : q.queue.length = q.cap
  end_lt : q.end_ < q.cap
  len_le : q.len ≤ q.cap
  /-- while the queue is not full the next slot is slot `len` -/
  notfull : q.len < q.cap → (q.end_ + 1) % q.cap = q.len

theorem LQ.new_wf {n : Nat} {q : LQ} (h : LQ.new n = some q) : q.WF ∧ q.cap = n ∧ q.len = 0 := by
  unfold LQ.new at h
  split at h
  · cases h
  · rename_i hn
    cases h
    refine ⟨⟨by simp; omega, by simp, by simp; omega, by simp, ?_⟩, rfl, rfl⟩
    intro _
    show (n - 1 + 1) % n = 0
    have : n - 1 + 1 = n := by omega
    rw [this, Nat.mod_self]

theorem LQ.new_isSome_iff (n : Nat) : (LQ.new n).isSome = true ↔ 0 < n := by
  unfold LQ.new
  split <;> simp <;> omega

theorem LQ.push_wf {q : LQ} (hw : q.WF) (v : Nat) :
    ∃ q', q.push v = some q' ∧ q'.WF ∧ q'.cap = q.cap ∧
      q'.len = (if q.len < q.cap then q.len + 1 else q.len) ∧ q'.end_ = (q.end_ + 1) % q.cap ∧
      q'.queue[q'.end_]? = some v := by
  have hc := hw.cap_pos
  have he : (q.end_ + 1) % q.cap < q.cap := Nat.mod_lt _ hc
  unfold LQ.push
  rw [if_neg (by omega)]
  simp only [setChecked, hw.length_eq, if_pos he]
  refine ⟨_, rfl, ⟨hc, by simp [hw.length_eq], he, ?_, ?_⟩, rfl, ?_, rfl, ?_⟩
  · show q.len + (if q.len < q.cap then 1 else 0) ≤ q.cap
    have := hw.len_le
    split <;> omega
  · intro hlt
    show ((q.end_ + 1) % q.cap + 1) % q.cap = q.len + (if q.len < q.cap then 1 else 0)
    have hlt' : q.len + (if q.len < q.cap then 1 else 0) < q.cap := hlt
    by_cases hl : q.len < q.cap
    · rw [if_pos hl] at hlt' ⊢
      rw [hw.notfull hl]
      exact Nat.mod_eq_of_lt hlt'
    · rw [if_neg hl] at hlt'
      exact absurd hlt' hl
  · show q.len + (if q.len < q.cap then 1 else 0) = _
    split <;> rfl
  · show (q.queue.set ((q.end_ + 1) % q.cap) v)[(q.end_ + 1) % q.cap]? = some v
    rw [List.getElem?_set_self (by rw [hw.length_eq]; exact he)]

/-- `queue[idx]` never goes out of bounds, for ANY `idx` (the modulo wraps it). -/
theorem LQ.index_isSome {q : LQ} (hw : q.WF) (i : Nat) : (q.index i).isSome = true := by
  unfold LQ.index getChecked
  rw [if_neg (by have := hw.cap_pos; omega)]
  have : (i + (if q.len = q.cap then 1 else 0) * (q.end_ + 1)) % q.cap < q.queue.length := by
    rw [hw.length_eq]; exact Nat.mod_lt _ hw.cap_pos
  rw [List.getElem?_eq_getElem this]; rfl

theorem LQ.last_isSome {q : LQ} (hw : q.WF) : (q.last).isSome = true := by
  unfold LQ.last getChecked
  split
  · rfl
  · have : q.end_ < q.queue.length := by rw [hw.length_eq]; exact hw.end_lt
    rw [List.getElem?_eq_getElem this]; rfl

theorem sliceChecked_length {l : List Nat} {a b : Nat} {r : List Nat}
    (h : sliceChecked l a b = some r) : r.length = b - a := by
  unfold sliceChecked at h
  split at h
  · cases h
    rw [List.length_take, List.length_drop]; omega
  · cases h

/-- Both slice ranges of `as_slices` are in bounds and together they have `len` elements. -/
theorem LQ.asSlices_ok {q : LQ} (hw : q.WF) :
    ∃ a b, q.asSlices = some (a, b) ∧ a.length + b.length = q.len := by
  unfold LQ.asSlices LQ.isFull
  by_cases hf : q.len = q.cap
  · have h1 : sliceChecked q.queue (q.end_ + 1) q.cap = some ((q.queue.drop (q.end_ + 1)).take (q.cap - (q.end_ + 1))) := by
      unfold sliceChecked
      rw [if_pos ⟨by have := hw.end_lt; omega, by rw [hw.length_eq]; exact Nat.le_refl _⟩]
    have h2 : sliceChecked q.queue 0 (q.end_ + 1) = some ((q.queue.drop 0).take (q.end_ + 1 - 0)) := by
      unfold sliceChecked
      rw [if_pos ⟨Nat.zero_le _, by rw [hw.length_eq]; have := hw.end_lt; omega⟩]
    simp only [hf, beq_self_eq_true, if_true, h1, h2]
    refine ⟨_, _, rfl, ?_⟩
    simp only [List.length_take, List.length_drop, hw.length_eq]
    have := hw.end_lt
    omega
  · have hne : (q.len == q.cap) = false := by simpa using hf
    have h3 : sliceChecked q.queue 0 q.len = some ((q.queue.drop 0).take (q.len - 0)) := by
      unfold sliceChecked
      rw [if_pos ⟨Nat.zero_le _, by rw [hw.length_eq]; exact hw.len_le⟩]
    simp only [hne, h3]
    refine ⟨_, _, rfl, ?_⟩
    simp only [List.length_take, List.length_drop, hw.length_eq, List.length_nil]
    have := hw.len_le
    omega

/-- Arbitrary push sequences: never a panic, the invariant holds, `len = min(len₀ + pushes, N)`. -/
theorem LQ.pushAll_wf (vs : List Nat) : ∀ {q : LQ}, q.WF →
    ∃ q', q.pushAll vs = some q' ∧ q'.WF ∧ q'.cap = q.cap ∧ q'.len = min (q.len + vs.length) q.cap := by
  induction vs with
  | nil =>
    intro q hw
    exact ⟨q, rfl, hw, rfl, by have := hw.len_le; simp; omega⟩
  | cons v vs ih =>
    intro q hw
    obtain ⟨q1, h1, hw1, hc1, hl1, _, _⟩ := LQ.push_wf hw v
    obtain ⟨q2, h2, hw2, hc2, hl2⟩ := ih hw1
    refine ⟨q2, ?_, hw2, by rw [hc2, hc1], ?_⟩
    · simp only [LQ.pushAll, h1, h2]
    · rw [hl2, hl1, hc1]
      have := hw.len_le
      simp only [List.length_cons]
      split <;> omega

end Rosu.Safety
