import RosuModel.Lemmas.ManiaPatternSafePath

/-!
(b) over the per-object loop of `convert`: one step never fails except by fuel, given the previous
pattern lies inside `[0, total)` (an invariant of the loop, `PatOk`), well-formed slider times, and —
for 7K+1 only — the two facts about the previous pattern that the 7K+1 guards do not establish
(`Free8`).  For every key count but 8 this lifts to the whole loop unconditionally.
-/
namespace Rosu.ManiaPattern
open Rosu.Safety Rosu.Rng Rosu.ConvertWF

variable {F : Type}

/-- the `i32` values `PathObjectPatternGenerator::new` computes, as the generator needs them -/
structure SliderWf (span startT endT seg : Int) : Prop where
  span_pos : 1 ≤ span
  seg_nonneg : 0 ≤ seg
  lo : -2147483648 ≤ startT
  order : startT ≤ endT
  len : endT - startT ≤ 2147483647
  hi : endT ≤ 2147483647
  seg_span : seg * span ≤ endT - startT
  fit : startT + seg * (span + 1) ≤ 2147483647

def ObjWf : ObjIn F → Prop
  | .slider _ _ _ span startT endT seg _ => SliderWf span startT endT seg
  | _ => True

/-- what 7K+1 needs of the previous pattern beyond `PatOk`: a free column among 1–7, and no lone note
in the special column -/
def Free8 (prev : Pat) : Prop :=
  (∃ c, 1 ≤ c ∧ c < 8 ∧ prev.cols.testBit c = false) ∧
  (prev.notes.length = 1 → ∀ n ∈ prev.notes.getLast?, posColumn 8 n.col % 256 ≠ 0)

theorem convertStep_safe {A : PArith F} (hP : ProbLaw A) (total : Nat) (h1 : 1 ≤ total) (h16 : total ≤ 16)
    (cd : F) (fuel : Nat) (st : ConvSt) (o : ObjIn F) (hprev : PatOk total st.prev) (ho : ObjWf o)
    (h8 : total = 8 → Free8 st.prev) :
    OkOrFuel (convertStep A total cd fuel st o) ∧
    ∀ r, convertStep A total cd fuel st o = .ok r → PatOk total r.2.prev := by
  cases o with
  | circle x sample ct =>
    constructor
    · unfold convertStep
      refine OkOrFuel.bind (hitGenerate_safe hP ⟨total, x, sample, ct, st.prev, cd, fuel⟩ h1 h16 _ _ ?_) ?_
      · intro e8 hlen _
        have e8 : total = 8 := e8
        have hf := (h8 e8).2 hlen
        unfold hitLastColumn
        simp only at hlen ⊢
        cases hl : st.prev.notes.getLast? with
        | none =>
          have : st.prev.notes = [] := List.getLast?_eq_none_iff.mp hl
          rw [this] at hlen; cases hlen
        | some n =>
          simp only
          have := hf n (by rw [hl]; rfl)
          subst e8; exact this
      · rintro ⟨p, s', stair'⟩ _
        exact OkOrFuel.ok _
    · intro r hr
      unfold convertStep at hr
      obtain ⟨⟨p, s', stair'⟩, hg, h2⟩ := bind_ok hr
      cases h2
      exact hitGenerate_ok hP.toRangeLaw ⟨total, x, sample, ct, st.prev, cd, fuel⟩ h1 h16 _ _ _ hg
  | slider x sample ct span startT endT seg nodes =>
    have hw : PathWf (⟨total, x, sample, ct, st.prev, cd, span, startT, endT, seg, nodes, fuel⟩ : PathIn F) :=
      { span_pos := ho.span_pos, seg_nonneg := ho.seg_nonneg, lo := ho.lo, order := ho.order,
        len := ho.len, hi := ho.hi, seg_span := ho.seg_span, fit := ho.fit,
        prevIn := hprev.2, free8 := fun e8 => (h8 e8).1 }
    constructor
    · unfold convertStep
      refine OkOrFuel.bind (pathGenerate_safe hP _ h1 h16 hw _) ?_
      rintro ⟨ps, s'⟩ _
      exact OkOrFuel.ok _
    · intro r hr
      unfold convertStep at hr
      obtain ⟨⟨ps, s'⟩, hg, h2⟩ := bind_ok hr
      cases h2
      have hall := pathGenerate_ok hP.toRangeLaw
        (⟨total, x, sample, ct, st.prev, cd, span, startT, endT, seg, nodes, fuel⟩ : PathIn F) h1 h16 _ _ hg
      simp only at hall ⊢
      cases hl : ps.getLast? with
      | none => simpa using hprev
      | some q =>
        simp only [Option.getD_some]
        exact hall q (List.mem_of_getLast? hl)
  | spinner sample hold short =>
    constructor
    · unfold convertStep
      refine OkOrFuel.bind (endGenerate_total hP.toRangeLaw ⟨total, sample, st.prev, hold, short, fuel⟩ h1 h16 _ ?_) ?_
      · intro hne
        by_cases e8 : total = 8
        · obtain ⟨c, hc1, hc2, hc3⟩ := (h8 e8).1
          exact ⟨c, by simp only [e8, if_true]; exact hc1, by simp only [e8]; exact hc2, hc3⟩
        · obtain ⟨c, hc, hb⟩ := free_of_count_ne st.prev.cols total h16 hprev.2 hne
          exact ⟨c, by simp [e8], hc, hb⟩
      · rintro ⟨p, s'⟩ _
        exact OkOrFuel.ok _
    · intro r hr
      unfold convertStep at hr
      obtain ⟨⟨p, s'⟩, hg, h2⟩ := bind_ok hr
      cases h2
      exact hprev

/-- **(b) over the whole conversion, every key count but 8.**  From any state whose previous pattern
lies inside `[0, total)` (in particular the initial state), for every object list with well-formed
slider times, the loop completes or runs out of fuel in a random retry loop: no shift overflow, no
`u8`/`i8`/`i32` overflow, no slice index out of range, no failed `assert!`. -/
theorem convertLoop_safe_not8 {A : PArith F} (hP : ProbLaw A) (total : Nat) (h1 : 1 ≤ total)
    (h16 : total ≤ 16) (hne8 : total ≠ 8) (cd : F) (fuel : Nat) :
    ∀ (os : List (ObjIn F)) (st : ConvSt), PatOk total st.prev → (∀ o ∈ os, ObjWf o) →
      OkOrFuel (convertLoop A total cd fuel st os) := by
  intro os
  induction os with
  | nil => intro st _ _; unfold convertLoop; exact OkOrFuel.ok _
  | cons o os ih =>
    intro st hprev hwf
    unfold convertLoop
    have hstep := convertStep_safe hP total h1 h16 cd fuel st o hprev (hwf o (List.mem_cons_self ..))
      (fun e8 => absurd e8 hne8)
    refine OkOrFuel.bind hstep.1 ?_
    rintro ⟨e, st'⟩ hs
    simp only
    refine OkOrFuel.bind (ih st' (hstep.2 _ hs) (fun o' ho' => hwf o' (List.mem_cons_of_mem _ ho'))) ?_
    rintro ⟨rest, stf⟩ _
    exact OkOrFuel.ok _

end Rosu.ManiaPattern
