import RosuModel.Lemmas.CurveBasic
import Mathlib.Analysis.SpecialFunctions.Pow.Real
import Mathlib.Tactic.Linarith
import Mathlib.Tactic.Positivity

/-!
# The real-number instance satisfies the hypotheses of the curve theorems

`realTransc`: `sqrt` is the real square root (the other transcendental operations are irrelevant to
the theorems that take hypotheses on `sqrt` and stay arbitrary).  The three hypotheses of
`Props/C09g.lean` hold: `0 ≤ √x`, `√0 = 0`, and the triangle inequality of the model's `distance`.
-/
namespace Rosu.Curve

noncomputable def realTransc : Transc ℝ where
  sqrt := Real.sqrt
  acos := fun _ => 0
  atan2 := fun _ _ => 0
  sin := fun _ => 0
  cos := fun _ => 0
  ceilUsize := fun x => ⌈x⌉₊
  pi := Real.pi

theorem real_tri (ux uy vx vy : ℝ) :
    Real.sqrt ((ux + vx) * (ux + vx) + (uy + vy) * (uy + vy)) ≤
      Real.sqrt (ux * ux + uy * uy) + Real.sqrt (vx * vx + vy * vy) := by
  have hU : 0 ≤ ux * ux + uy * uy := add_nonneg (mul_self_nonneg _) (mul_self_nonneg _)
  have hV : 0 ≤ vx * vx + vy * vy := add_nonneg (mul_self_nonneg _) (mul_self_nonneg _)
  have hs : 0 ≤ Real.sqrt (ux * ux + uy * uy) := Real.sqrt_nonneg _
  have ht : 0 ≤ Real.sqrt (vx * vx + vy * vy) := Real.sqrt_nonneg _
  have hs2 := Real.mul_self_sqrt hU
  have ht2 := Real.mul_self_sqrt hV
  set s := Real.sqrt (ux * ux + uy * uy)
  set t := Real.sqrt (vx * vx + vy * vy)
  have hdot : ux * vx + uy * vy ≤ s * t := by
    by_contra h
    have h := not_le.mp h
    have hst : 0 ≤ s * t := mul_nonneg hs ht
    have h1 : (s * t) * (s * t) < (ux * vx + uy * vy) * (ux * vx + uy * vy) := by nlinarith
    have h2 : (s * t) * (s * t) = (ux * ux + uy * uy) * (vx * vx + vy * vy) := by
      rw [← hs2, ← ht2]; ring
    nlinarith [mul_self_nonneg (ux * vy - uy * vx)]
  have hst : 0 ≤ s + t := add_nonneg hs ht
  rw [show s + t = Real.sqrt ((s + t) * (s + t)) from (Real.sqrt_mul_self hst).symm]
  apply Real.sqrt_le_sqrt
  nlinarith

theorem real_sqrt_nonneg : ∀ x, 0 ≤ realTransc.sqrt x := fun x => Real.sqrt_nonneg x

theorem real_sqrt_zero : realTransc.sqrt 0 = 0 := Real.sqrt_zero

theorem real_distance_tri (a b c : Pos ℝ) :
    distance (fieldArith realTransc) a c ≤
      distance (fieldArith realTransc) a b + distance (fieldArith realTransc) b c := by
  have := real_tri (a.x - b.x) (a.y - b.y) (b.x - c.x) (b.y - c.y)
  simp only [sub_add_sub_cancel] at this
  simpa [distance, length, psub, fieldArith, realTransc] using this

theorem real_pi_pos : 0 < realTransc.pi := Real.pi_pos

theorem real_atan2_range : ∀ y x : ℝ,
    -realTransc.pi ≤ realTransc.atan2 y x ∧ realTransc.atan2 y x ≤ realTransc.pi := by
  intro y x
  have := Real.pi_pos
  constructor <;> simp only [realTransc] <;> linarith

end Rosu.Curve
