import RosuModel.Lemmas.PipelineMania
import RosuModel.Props.C16c

/-!
The native-mania pipeline over ℝ: every column the preparation computes is `< total_columns`, so
the hypothesis of `C16c.mania_skill_safe_nonneg` is discharged for every byte list.
-/

namespace Rosu.PipelineMania
open Rosu.SkillOps

/-- what the real-number theorems need of the `as usize` cast: monotone, and `K − 1` truncates
strictly below `K` for `K ≥ 1` -/
structure PrepOK (P : PrepOps ℝ ℝ) : Prop where
  mono : ∀ a b : ℝ, a ≤ b → P.toUsize a ≤ P.toUsize b
  pred : ∀ k : ℝ, 1 ≤ k → P.toUsize (k - 1) < P.toUsize k

/-- the real-number reading of the preparation: bit patterns are read by arbitrary functions
`v64` / `v32`, `as usize` / `as u32` truncate (`⌊·⌋` clipped at 0), `round_ties_even` is any function -/
noncomputable def realPrep (v64 v32 : Nat → ℝ) (rnd : ℝ → ℝ) : PrepOps ℝ ℝ where
  dec64 := v64
  dec32 := v32
  ofI32 n := (n : ℝ)
  roundTiesEven := rnd
  floor x := (⌊x⌋ : ℝ)
  toUsize x := ⌊x⌋.toNat
  toU32 x := ⌊x⌋.toNat

theorem realPrep_ok (v64 v32 : Nat → ℝ) (rnd : ℝ → ℝ) : PrepOK (realPrep v64 v32 rnd) where
  mono := by
    intro a b h
    exact Int.toNat_le_toNat (Int.floor_le_floor h)
  pred := by
    intro k hk
    show ⌊k - 1⌋.toNat < ⌊k⌋.toNat
    rw [Int.floor_sub_one]
    have : (1 : ℤ) ≤ ⌊k⌋ := Int.le_floor.mpr (by simpa using hk)
    omega

theorem totalColumns_ge_one (P : PrepOps ℝ ℝ) (cs : ℝ) : 1 ≤ totalColumns P cs := by
  unfold totalColumns
  rw [r_fmax, r_one]
  exact le_max_right _ _

/-- **`ManiaObject::column(x, total_columns) < total_columns as usize`** for every x and every
`total_columns ≥ 1` -/
theorem column_lt (P : PrepOps ℝ ℝ) (hP : PrepOK P) (x total : ℝ) (ht : 1 ≤ total) :
    column P x total < P.toUsize total := by
  unfold column
  dsimp only
  have h1 : FOps.fmin (P.floor (x / (512.0 / total))) (total - 1.0) ≤ total - 1 := by
    rw [r_fmin, r_sub, r_one]; exact min_le_right _ _
  exact lt_of_le_of_lt (hP.mono _ _ h1) (hP.pred total ht)

end Rosu.PipelineMania
