import RosuModel.Model.ManiaSkill
import RosuModel.Lemmas.SkillOpsReal
import RosuModel.Lemmas.SkillV

/-!
osu!mania `Strain` skill over ℝ: every slice index is in bounds when the column is, every partial
operation is in-domain, ranges of the intermediate quantities, and the sign of every value.
-/

namespace Rosu.ManiaSkill
open Rosu.SkillOps
open Rosu.Skill (Obj)

/-- state invariant: the three per-column arrays have `cols` entries, all strains are `≥ 0` -/
structure Inv (cols : Nat) (s : St ℝ) : Prop where
  lenStart : s.startTimes.length = cols
  lenEnd : s.endTimes.length = cols
  lenInd : s.individualStrains.length = cols
  indNonneg : ∀ x ∈ s.individualStrains, 0 ≤ x
  individual : 0 ≤ s.individualStrain
  overall : 0 ≤ s.overallStrain
  current : 0 ≤ s.currentStrain

/-- `ManiaObject::column < total_columns` (C19) -/
def ObjOK (cols : Nat) (o : Obj ℝ (DObj ℝ)) : Prop := o.data.baseColumn < cols

theorem new_inv (cols : Nat) : Inv cols (St.new cols : St ℝ) := by
  refine ⟨by simp [St.new], by simp [St.new], by simp [St.new], ?_, ?_, ?_, ?_⟩
  · intro x hx
    simp only [St.new, List.mem_replicate] at hx
    rw [hx.2, r_lit]; norm_num
  · simp only [St.new, r_lit]; norm_num
  · simp only [St.new, r_lit]; norm_num
  · simp only [St.new, r_lit]; norm_num

theorem applyDecay_real (v d b : ℝ) : applyDecay v d b = v * b ^ (d / 1000) := by
  unfold applyDecay
  simp only [r_mul, r_powf, r_div, r_lit]
  norm_num

theorem applyDecay_nonneg {v b : ℝ} (d : ℝ) (hv : 0 ≤ v) (hb : 0 ≤ b) : 0 ≤ applyDecay v d b := by
  rw [applyDecay_real]
  exact mul_nonneg hv (Real.rpow_nonneg hb _)

/-- decayed value is at most the value when time does not run backwards (`0 < base ≤ 1`) -/
theorem applyDecay_le {v b d : ℝ} (hv : 0 ≤ v) (hb : 0 < b) (hb1 : b ≤ 1) (hd : 0 ≤ d) :
    applyDecay v d b ≤ v := by
  rw [applyDecay_real]
  have := (decay_mem_Ioc hb hb1 hd).2
  nlinarith

theorem individualDecayBase_real : (individualDecayBase : ℝ) = 0.125 := by
  simp only [individualDecayBase, r_lit]
theorem overallDecayBase_real : (overallDecayBase : ℝ) = 0.3 := by
  simp only [overallDecayBase, r_lit]

theorem logistic_real (x m k : ℝ) : logistic x m k = 1 / (1 + Real.exp (k * (m - x))) := by
  unfold logistic
  simp only [r_div, r_add, r_mul, r_sub, r_exp, r_lit]
  norm_num

/-- the denominator of `logistic` is never zero, and the value lies strictly between 0 and 1 -/
theorem logistic_mem_Ioo (x m k : ℝ) :
    (1 + Real.exp (k * (m - x)) ≠ 0) ∧ 0 < logistic x m k ∧ logistic x m k < 1 := by
  rw [logistic_real]
  have he : 0 < Real.exp (k * (m - x)) := Real.exp_pos _
  refine ⟨by positivity, by positivity, ?_⟩
  rw [div_lt_one (by positivity)]
  linarith

/-- `hold_factor ∈ [1, 1.25]` -/
def HF (acc : Acc ℝ) : Prop := 1 ≤ acc.holdFactor ∧ acc.holdFactor ≤ 1.25

theorem colStep_some (s : St ℝ) (a b : ℝ) (acc : Acc ℝ) (i : Nat) (hi : i < s.endTimes.length)
    (hlen : s.startTimes.length = s.endTimes.length) (hacc : HF acc) :
    ∃ acc', colStep s a b acc i = some acc' ∧ HF acc' := by
  unfold colStep
  have h1 : s.endTimes[i]? = some s.endTimes[i] := List.getElem?_eq_getElem hi
  have h2 : s.startTimes[i]? = some (s.startTimes[i]'(by omega)) := List.getElem?_eq_getElem (by omega)
  rw [h1, h2]
  refine ⟨_, rfl, ?_⟩
  unfold HF
  dsimp only
  split
  · rw [r_lit]; norm_num
  · exact hacc

theorem colLoop_some (s : St ℝ) (a b : ℝ) (hlen : s.startTimes.length = s.endTimes.length) :
    ∀ (is : List Nat) (acc : Acc ℝ), (∀ i ∈ is, i < s.endTimes.length) → HF acc →
      ∃ acc', colLoop s a b is acc = some acc' ∧ HF acc' := by
  intro is
  induction is with
  | nil => intro acc _ h; exact ⟨acc, rfl, h⟩
  | cons i is ih =>
    intro acc hi h
    obtain ⟨acc1, e1, h1⟩ := colStep_some s a b acc i (hi i List.mem_cons_self) hlen h
    obtain ⟨acc2, e2, h2⟩ := ih acc1 (fun j hj => hi j (List.mem_cons_of_mem _ hj)) h1
    refine ⟨acc2, ?_, h2⟩
    unfold colLoop
    rw [e1]
    exact e2

theorem mem_set_nonneg {l : List ℝ} {i : Nat} {v : ℝ} (hl : ∀ x ∈ l, 0 ≤ x) (hv : 0 ≤ v) :
    ∀ x ∈ l.set i v, 0 ≤ x := by
  intro x hx
  rcases List.mem_or_eq_of_mem_set hx with h | h
  · exact hl x h
  · rw [h]; exact hv

/-- **`strain_value_of` over ℝ**: no index panics, the state invariant is kept, the result is
`individual_strain + overall_strain − current_strain` with both strains `≥ 0`. -/
theorem strainValueOf_spec {cols : Nat} {s : St ℝ} {o : Obj ℝ (DObj ℝ)} (hs : Inv cols s)
    (ho : ObjOK cols o) :
    ∃ s' v, strainValueOf s o = some (s', v) ∧ Inv cols s' ∧ s'.currentStrain = s.currentStrain ∧
      v = s'.individualStrain + s'.overallStrain - s.currentStrain ∧
      2 ≤ s'.individualStrain ∧ 1 ≤ s'.overallStrain := by
  unfold ObjOK at ho
  have hlen : s.startTimes.length = s.endTimes.length := by rw [hs.lenStart, hs.lenEnd]
  have hacc0 : HF (⟨false, 1.0, FOps.abs (o.data.endTime - o.startTime)⟩ : Acc ℝ) := by
    unfold HF; dsimp only; rw [r_lit, r_lit]; norm_num
  obtain ⟨acc, eacc, hacc⟩ := colLoop_some s o.startTime o.data.endTime hlen
    (List.range s.endTimes.length) _ (fun i hi => List.mem_range.mp hi) hacc0
  have hc1 : o.data.baseColumn < s.individualStrains.length := by rw [hs.lenInd]; exact ho
  have hc2 : o.data.baseColumn < s.startTimes.length := by rw [hs.lenStart]; exact ho
  have hc3 : o.data.baseColumn < s.endTimes.length := by rw [hs.lenEnd]; exact ho
  have e1 : s.individualStrains[o.data.baseColumn]? = some s.individualStrains[o.data.baseColumn] :=
    List.getElem?_eq_getElem hc1
  have e2 : s.startTimes[o.data.baseColumn]? = some s.startTimes[o.data.baseColumn] :=
    List.getElem?_eq_getElem hc2
  have hind0 : 0 ≤ s.individualStrains[o.data.baseColumn] := hs.indNonneg _ (List.getElem_mem hc1)
  -- the quantities of the body
  have hhf : (1 : ℝ) ≤ acc.holdFactor := hacc.1
  have hha : 0 ≤ (if acc.isOverlapping = true then logistic acc.closestEndTime releaseThreshold 0.27 else (0.0 : ℝ)) := by
    split
    · exact (logistic_mem_Ioo _ _ _).2.1.le
    · rw [r_lit]; norm_num
  have hdec1 : 0 ≤ applyDecay s.individualStrains[o.data.baseColumn]
      (o.startTime - s.startTimes[o.data.baseColumn]) individualDecayBase :=
    applyDecay_nonneg _ hind0 (by rw [individualDecayBase_real]; norm_num)
  have hdec2 : 0 ≤ applyDecay s.overallStrain o.data.deltaTime overallDecayBase :=
    applyDecay_nonneg _ hs.overall (by rw [overallDecayBase_real]; norm_num)
  have hind : (2 : ℝ) ≤ applyDecay s.individualStrains[o.data.baseColumn]
      (o.startTime - s.startTimes[o.data.baseColumn]) individualDecayBase + 2.0 * acc.holdFactor := by
    rw [r_add, r_mul, r_lit]; norm_num; nlinarith
  have hov : (1 : ℝ) ≤ applyDecay s.overallStrain o.data.deltaTime overallDecayBase
      + (1.0 + (if acc.isOverlapping = true then logistic acc.closestEndTime releaseThreshold 0.27 else (0.0 : ℝ)))
        * acc.holdFactor := by
    rw [r_add, r_mul, r_add, r_lit]; norm_num; nlinarith
  unfold strainValueOf
  simp only [eacc, e1, e2, hc3, if_true]
  refine ⟨_, _, rfl, ?_, rfl, ?_, ?_, hov⟩
  · refine ⟨by simp [hs.lenStart], by simp [hs.lenEnd], by simp [hs.lenInd], ?_, ?_, ?_, hs.current⟩
    · exact mem_set_nonneg hs.indNonneg (le_trans (by norm_num) hind)
    · dsimp only
      split
      · rw [r_fmax]; exact le_max_of_le_left hs.individual
      · exact le_trans (by norm_num) hind
    · exact le_trans (by norm_num) hov
  · simp only [r_add, r_sub]
  · dsimp only
    split
    · rw [r_fmax]; exact le_max_of_le_right hind
    · exact hind

/-- **`strain_value_at` over ℝ**: `STRAIN_DECAY_BASE = 1`, so the returned strain is exactly
`individual_strain + overall_strain ≥ 3`. -/
theorem strainValueAt_spec {cols : Nat} {s : St ℝ} {o : Obj ℝ (DObj ℝ)} (hs : Inv cols s)
    (ho : ObjOK cols o) :
    ∃ s' v, strainValueAt s o = some (s', v) ∧ Inv cols s' ∧
      v = s'.individualStrain + s'.overallStrain ∧ s'.currentStrain = v ∧ 3 ≤ v := by
  have hcur : s.currentStrain * strainDecay o.data.deltaTime strainDecayBase = s.currentStrain := by
    rw [strainDecay_real]
    simp only [strainDecayBase, r_lit]
    norm_num
  have hs' : Inv cols { s with currentStrain := s.currentStrain * strainDecay o.data.deltaTime strainDecayBase } := by
    rw [hcur]; exact hs
  obtain ⟨s1, v1, e, hi, hc, hv, h2, h1⟩ := strainValueOf_spec hs' ho
  unfold strainValueAt
  simp only [e]
  have hval : s.currentStrain * strainDecay o.data.deltaTime strainDecayBase + v1 * skillMultiplier
      = s1.individualStrain + s1.overallStrain := by
    rw [hv]
    simp only [skillMultiplier, r_lit]
    norm_num
  refine ⟨_, _, rfl, ?_, ?_, rfl, ?_⟩
  · exact ⟨hi.lenStart, hi.lenEnd, hi.lenInd, hi.indNonneg, hi.individual, hi.overall, by
      show 0 ≤ s.currentStrain * strainDecay o.data.deltaTime strainDecayBase + v1 * skillMultiplier
      rw [hval]; linarith⟩
  · exact hval
  · show 3 ≤ s.currentStrain * strainDecay o.data.deltaTime strainDecayBase + v1 * skillMultiplier
    rw [hval]; linarith

/-- `calculate_initial_strain` over ℝ is non-negative (both decay bases are positive) -/
theorem initialStrain_nonneg {cols : Nat} {s : St ℝ} (hs : Inv cols s) (t : ℝ) (o : Obj ℝ (DObj ℝ)) :
    0 ≤ initialStrain s t o := by
  unfold initialStrain
  rw [r_add]
  have h1 := applyDecay_nonneg (t - o.data.prevStartTime) hs.individual
    (show (0 : ℝ) ≤ individualDecayBase by rw [individualDecayBase_real]; norm_num)
  have h2 := applyDecay_nonneg (t - o.data.prevStartTime) hs.overall
    (show (0 : ℝ) ≤ overallDecayBase by rw [overallDecayBase_real]; norm_num)
  simp only [r_sub] at *
  linarith

theorem fns_ok (cols : Nat) :
    FnsOK (fns : FnsV ℝ (DObj ℝ) (St ℝ)) (Inv cols) (fun v => 0 ≤ v) (fun v => 3 ≤ v) (ObjOK cols) where
  value := by
    intro s o s' v hs ho h
    obtain ⟨s1, v1, e, hi, _, _, h3⟩ := strainValueAt_spec hs ho
    simp only [fns] at h
    rw [e] at h
    cases h
    exact ⟨hi, by linarith, h3⟩
  initial := fun s t o hs _ => initialStrain_nonneg hs t o

theorem fns_safe (cols : Nat) (s : St ℝ) (o : Obj ℝ (DObj ℝ)) (hs : Inv cols s) (ho : ObjOK cols o) :
    ((fns : FnsV ℝ (DObj ℝ) (St ℝ)).strainValueAt s o).isSome := by
  obtain ⟨s1, v1, e, _⟩ := strainValueAt_spec hs ho
  simp only [fns, e, Option.isSome_some]

/-! ### difficulty objects -/

theorem scanObjects_ok (cols : Nat) (rate : ℝ) : ∀ (rest : List (MObj ℝ)) (last : MObj ℝ) (i : Nat) (p : ℝ),
    (∀ o ∈ rest, o.column < cols) → ∀ d ∈ scanObjects rate last i p rest, ObjOK cols d := by
  intro rest
  induction rest with
  | nil => intro _ _ _ _ d hd; simp [scanObjects] at hd
  | cons b rest ih =>
    intro last i p h d hd
    simp only [scanObjects, List.mem_cons] at hd
    rcases hd with hd | hd
    · subst hd
      exact h b List.mem_cons_self
    · exact ih b (i + 1) _ (fun o ho => h o (List.mem_cons_of_mem _ ho)) d hd

theorem createDifficultyObjects_ok (cols : Nat) (rate : ℝ) (objs : List (MObj ℝ))
    (h : ∀ o ∈ objs, o.column < cols) : ∀ d ∈ createDifficultyObjects rate objs, ObjOK cols d := by
  cases objs with
  | nil => intro d hd; simp [createDifficultyObjects] at hd
  | cons f rest =>
    simp only [createDifficultyObjects]
    exact scanObjects_ok cols rate rest f 0 _ (fun o ho => h o (List.mem_cons_of_mem _ ho))

/-- sorted start times and a positive clock rate give `delta_time ≥ 0` for every difficulty object -/
theorem scanObjects_delta_nonneg {rate : ℝ} (hr : 0 < rate) : ∀ (rest : List (MObj ℝ)) (last : MObj ℝ) (i : Nat) (p : ℝ),
    List.Pairwise (fun a b : MObj ℝ => a.startTime ≤ b.startTime) (last :: rest) →
    ∀ d ∈ scanObjects rate last i p rest, 0 ≤ d.data.deltaTime := by
  intro rest
  induction rest with
  | nil => intro _ _ _ _ d hd; simp [scanObjects] at hd
  | cons b rest ih =>
    intro last i p h d hd
    simp only [scanObjects, List.mem_cons] at hd
    rcases hd with hd | hd
    · subst hd
      simp only [DObj.new, r_div, r_sub]
      have : last.startTime ≤ b.startTime := (List.pairwise_cons.mp h).1 b List.mem_cons_self
      exact div_nonneg (by linarith) hr.le
    · exact ih b (i + 1) _ (List.pairwise_cons.mp h).2 d hd

end Rosu.ManiaSkill
