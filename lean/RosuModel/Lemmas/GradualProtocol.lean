import RosuModel.Model.Gradual

/-!
The `Iterator::nth` contract for an abstract gradual machine, from the per-mode specifications of
`next` and `nth`: if the reachable states are indexed by the number of values produced so far,
`next` yields value `i + 1` while `i < N` and `None` afterwards, and `nth k` yields value `i + k + 1`
when `i + k < N` and `None` otherwise, then `nth k` returns what the last of `k + 1` calls of `next`
returns — for **every** `k`.
-/

namespace Rosu.Gradual

variable {St V : Type}

/-- `k + 1` calls of `next` are `k` calls followed by one more. -/
theorem Machine.nexts_snoc (m : Machine St V) :
    ∀ (k : Nat) (g : St),
      (m.nexts g (k + 1)).1 = (m.nexts g k).1 ++ [(m.next (m.nexts g k).2).1] ∧
      (m.nexts g (k + 1)).2 = (m.next (m.nexts g k).2).2
  | 0, g => by simp [Machine.nexts]
  | k + 1, g => by
    have ih := Machine.nexts_snoc m k (m.next g).2
    constructor
    · show (m.next g).1 :: (m.nexts (m.next g).2 (k + 1)).1 = _
      rw [ih.1]; rfl
    · show (m.nexts (m.next g).2 (k + 1)).2 = _
      rw [ih.2]; rfl

/-- What the per-mode lemmas establish about `next` and `nth` on the reachable states `C g i`
(`i` = values produced so far, `N` = total number of values). -/
structure ProtocolSpec (m : Machine St V) (C : St → Nat → Prop) (N : Nat) (val : Nat → V) : Prop where
  le : ∀ g i, C g i → i ≤ N
  next_some : ∀ g i, C g i → i < N → (m.next g).1 = .some (val (i + 1)) ∧ C (m.next g).2 (i + 1)
  next_none : ∀ g i, C g i → i = N → (m.next g).1 = .none ∧ C (m.next g).2 i
  nth_some : ∀ g i k, C g i → i + k < N → (m.nth g k).1 = .some (val (i + k + 1))
  nth_none : ∀ g i k, C g i → N ≤ i + k → (m.nth g k).1 = .none

/-- After `k` calls of `next` from state `i` the machine is in state `min (i + k) N`. -/
theorem ProtocolSpec.nexts_state {m : Machine St V} {C : St → Nat → Prop} {N : Nat} {val : Nat → V}
    (h : ProtocolSpec m C N val) :
    ∀ (k : Nat) (g : St) (i : Nat), C g i → C (m.nexts g k).2 (min (i + k) N)
  | 0, g, i, hc => by
    have := h.le g i hc
    simpa [Machine.nexts, Nat.min_eq_left this] using hc
  | k + 1, g, i, hc => by
    have hle := h.le g i hc
    show C (m.nexts (m.next g).2 k).2 _
    rcases Nat.lt_or_ge i N with hlt | hge
    · have := h.nexts_state k _ (i + 1) (h.next_some g i hc hlt).2
      rwa [show i + 1 + k = i + (k + 1) by omega] at this
    · have heq : i = N := by omega
      have := h.nexts_state k _ i (h.next_none g i hc heq).2
      rw [show min (i + k) N = min (i + (k + 1)) N by omega] at this
      exact this

/-- **The `Iterator::nth` contract**, for every `k`: `nth k` returns what the last of `k + 1` calls of
`next` returns (`None` when fewer than `k + 1` values remain). -/
theorem ProtocolSpec.nth_eq_iterated_next {m : Machine St V} {C : St → Nat → Prop} {N : Nat}
    {val : Nat → V} (h : ProtocolSpec m C N val) (g : St) (i k : Nat) (hc : C g i) :
    some (m.nth g k).1 = (m.nexts g (k + 1)).1.getLast? := by
  rw [(Machine.nexts_snoc m k g).1, List.getLast?_concat]
  have hs := h.nexts_state k g i hc
  have hle := h.le g i hc
  rcases Nat.lt_or_ge (i + k) N with hlt | hge
  · rw [Nat.min_eq_left (by omega)] at hs
    rw [h.nth_some g i k hc hlt, (h.next_some _ _ hs hlt).1]
  · rw [Nat.min_eq_right hge] at hs
    rw [h.nth_none g i k hc hge, (h.next_none _ _ hs rfl).1]

end Rosu.Gradual
