import RosuModel.Model.PipelineOsu
import RosuModel.Lemmas.ConvOsu
import RosuModel.Lemmas.SliderEventsMap
import RosuModel.Lemmas.SliderEventsOrder

/-!
Structure lemmas for `Model/PipelineOsu.lean` (core Lean): the sort of the nested objects is a
permutation, `OsuObject::new`'s summaries are the descriptors of `Model/SliderEvents.lean: osuSlider`,
`prepare` depends on `take` only through the counts, and the skill fold over a prefix is the
`processedPrefix` of the abstract gradual machine instantiated with the concrete skills.
-/
namespace Rosu.PipelineOsu
open Rosu.PerfCalc Rosu.SkillOps Rosu.Gradual
open Rosu.ConvOsu (Ar P Obj Counts summary)
open Rosu.SliderEvents (SliderIn Outcome osuParams osuNested NestedKind largeTickCount OsuObjOk)

variable {R S : Type}

theorem insertNested_perm (E : Rosu.SliderEvents.Arith R) (x : Rosu.SliderEvents.Nested R) :
    ∀ l, (insertNested E x l).Perm (x :: l)
  | [] => List.Perm.refl _
  | y :: ys => by
    unfold insertNested
    split
    · exact List.Perm.refl _
    · exact ((insertNested_perm E x ys).cons y).trans (List.Perm.swap x y ys)

theorem sortNested_perm (E : Rosu.SliderEvents.Arith R) (l : List (Rosu.SliderEvents.Nested R)) :
    (sortNested E l).Perm l := by
  unfold sortNested
  suffices h : ∀ (l acc : List (Rosu.SliderEvents.Nested R)),
      (l.foldl (fun acc x => insertNested E x acc) acc).Perm (l.reverse ++ acc) by
    have := h l []
    simp only [List.append_nil] at this
    exact this.trans (List.reverse_perm l)
  intro l
  induction l with
  | nil => intro acc; exact List.Perm.refl _
  | cons x t ih =>
    intro acc
    simp only [List.foldl_cons, List.reverse_cons, List.append_assoc, List.singleton_append]
    exact (ih _).trans ((insertNested_perm E x acc).append_left _)

theorem zipNested_length (ns : List (Rosu.SliderEvents.Nested R)) (ps : List (P S))
    (h : ns.length = ps.length) : (zipNested ns ps).length = ns.length := by
  unfold zipNested
  simp [h]

/-- the large ticks of the zipped list are those of the kind list -/
theorem zipNested_largeTicks : ∀ (ns : List (Rosu.SliderEvents.Nested R)) (ps : List (P S)),
    ns.length = ps.length →
    ((zipNested ns ps).filter (fun n => n.kind = 2 ∨ n.kind = 0)).length = largeTickCount ns
  | [], [], _ => rfl
  | [], _ :: _, h => by simp at h
  | _ :: _, [], h => by simp at h
  | n :: ns, p :: ps, h => by
    have ih := zipNested_largeTicks ns ps (by simpa using h)
    unfold zipNested at ih ⊢
    unfold largeTickCount at ih ⊢
    simp only [List.zip_cons_cons, List.map_cons, List.filter_cons]
    cases hk : n.kind <;> simpa [nestedTag, hk] using ih

/-- `OsuObject::new` of a slider has the counting descriptor `osuSlider` computes from the same inputs -/
theorem newObj_slider_summary (A : Ar R S) (E : Rosu.SliderEvents.Arith R) (fuel : Nat) (pos : P S)
    (s : SliderIn R) (np : List (P S)) (le : P S) (o : Obj R S)
    (h : newObj A E fuel (.slider pos s np le) = .ok o) :
    Rosu.SliderEvents.osuSlider E fuel s = .ok (summary o) := by
  unfold newObj at h
  simp only at h
  unfold Rosu.SliderEvents.osuSlider
  simp only
  cases hev : (osuParams E s).events E fuel with
  | clampPanic => rw [hev] at h; cases h
  | outOfFuel => rw [hev] at h; cases h
  | ok evs =>
    rw [hev] at h
    simp only at h
    split at h
    · cases h
    · rename_i hlen
      have hlen' : (sortNested E (osuNested E (osuParams E s) evs)).length = np.length := by
        exact Decidable.of_not_not hlen
      simp only [Outcome.ok.injEq] at h
      subst h
      have hp := sortNested_perm E (osuNested E (osuParams E s) evs)
      have hc := Rosu.SliderEvents.nested_counts_perm _ _ hp
      unfold summary Rosu.SliderEvents.osuSliderObj
      simp only
      rw [zipNested_largeTicks _ _ hlen', zipNested_length _ _ hlen', hc.1, hc.2]

/-- every object `OsuObject::new` builds has a well-formed descriptor (a slider: nested = large ticks + tail) -/
theorem newObj_ok (A : Ar R S) (E : Rosu.SliderEvents.Arith R) (fuel : Nat) (p : PObj R S) (o : Obj R S)
    (h : newObj A E fuel p = .ok o) : OsuObjOk (summary o) := by
  cases p with
  | circle pos start =>
    simp only [newObj, Outcome.ok.injEq] at h; subst h
    show OsuObjOk ⟨.circle, 0, 0⟩
    unfold OsuObjOk
    exact ⟨fun hk => (by cases hk), fun _ => ⟨rfl, rfl⟩⟩
  | spinner pos start d =>
    simp only [newObj, Outcome.ok.injEq] at h; subst h
    show OsuObjOk ⟨.spinner, 0, 0⟩
    unfold OsuObjOk
    exact ⟨fun hk => (by cases hk), fun _ => ⟨rfl, rfl⟩⟩
  | slider pos s np le =>
    have hs := newObj_slider_summary A E fuel pos s np le o h
    obtain ⟨hk, hn, _⟩ := Rosu.SliderEvents.osuSlider_counts E fuel s _ hs
    exact ⟨fun _ => hn, fun hne => absurd hk hne⟩

theorem newObjs_spec (A : Ar R S) (E : Rosu.SliderEvents.Arith R) (fuel : Nat) :
    ∀ (objs : List (PObj R S)) (raw : List (Obj R S)), newObjs A E fuel objs = .ok raw →
      raw.length = objs.length ∧ ∀ o ∈ raw.map summary, OsuObjOk o
  | [], raw, h => by
    simp only [newObjs, Outcome.ok.injEq] at h; subst h
    exact ⟨rfl, by intro o ho; cases ho⟩
  | p :: ps, raw, h => by
    unfold newObjs at h
    cases h1 : newObj A E fuel p with
    | clampPanic => rw [h1] at h; cases h
    | outOfFuel => rw [h1] at h; cases h
    | ok a =>
      cases h2 : newObjs A E fuel ps with
      | clampPanic => rw [h1, h2] at h; cases h
      | outOfFuel => rw [h1, h2] at h; cases h
      | ok b =>
        rw [h1, h2] at h
        simp only [Outcome.ok.injEq] at h
        subst h
        obtain ⟨hl, hall⟩ := newObjs_spec A E fuel ps b h2
        refine ⟨by simp [hl], ?_⟩
        intro o ho
        simp only [List.map_cons, List.mem_cons] at ho
        rcases ho with rfl | ho
        · exact newObj_ok A E fuel p a h1
        · exact hall o ho

section
variable [PPOps R]

/-- `prepare` depends on `take` only through the counts, which are `countTake take` -/
theorem prepareAll_take (A : Ar R S) (st : Settings R) (take : Nat) (raw : List (Obj R S)) :
    ∃ p : Prepared R S, prepareAll A st take raw = .ok { p with counts := Rosu.ConvOsu.countTake take raw Counts.zero } ∧
      ∀ take', prepareAll A st take' raw = .ok { p with counts := Rosu.ConvOsu.countTake take' raw Counts.zero } := by
  obtain ⟨os, h, _⟩ := Rosu.ConvOsu.convertObjects_spec A (Rosu.ConvOsu.scalingNew A st.cs).scale st.reflection
    (Rosu.ConvOsu.timePreempt A st.arWindow st.clockRate) st.stackLeniency st.version take raw Counts.zero
  have key : ∀ t, Rosu.ConvOsu.convertObjects A (Rosu.ConvOsu.scalingNew A st.cs).scale st.reflection
      (Rosu.ConvOsu.timePreempt A st.arWindow st.clockRate) st.stackLeniency st.version t raw Counts.zero
      = some (os, Rosu.ConvOsu.countTake t raw Counts.zero) := by
    intro t
    unfold Rosu.ConvOsu.convertObjects at h ⊢
    simp only at h ⊢
    split at h
    · cases h
    · simp only [Option.some.injEq, Prod.mk.injEq] at h ⊢
      exact ⟨h.1, trivial⟩
  refine ⟨⟨os.map (Rosu.ConvOsu.computeCursor A (Rosu.ConvOsu.scalingNew A st.cs).radius), Counts.zero,
    createDiffObjs ((os.map (Rosu.ConvOsu.computeCursor A (Rosu.ConvOsu.scalingNew A st.cs).radius)).map (toRaw A))
      st.clockRate (A.toR (Rosu.ConvOsu.scalingNew A st.cs).factor),
    skillCfg st.odGreat (Rosu.ConvOsu.scalingNew A st.cs).radius
      (Rosu.ConvOsu.timePreempt A st.arWindow st.clockRate) st.hd st.mods.ap⟩, ?_, ?_⟩
  · unfold prepareAll Rosu.ConvOsu.prepare
    simp only [key take]
  · intro t
    unfold prepareAll Rosu.ConvOsu.prepare
    simp only [key t]

/-- the concrete skills as the abstract `Skills` of the gradual machine (`Model/Gradual.lean`): `process s d`
processes difficulty object `d` of the FULL list; a failure is absorbing -/
def concreteSkills (ds : List (DiffObj R)) (c : SkillCfg R) (fuel : Nat) : Gradual.Skills (SkillOps.Res (Skills R)) where
  init := .ok Skills.init
  process s d :=
    s.bind fun sk =>
      match ds[d]? with
      | some o => Skills.process ds c fuel sk o
      | none => .panic

theorem processAll_bind (ds : List (DiffObj R)) (c : SkillCfg R) (fuel : Nat) :
    ∀ (l : List (DiffObj R)) (s : SkillOps.Res (Skills R)),
      s.bind (fun sk => Skills.processAll ds c fuel sk l)
        = l.foldl (fun s o => s.bind fun sk => Skills.process ds c fuel sk o) s
  | [], s => by cases s <;> rfl
  | o :: rest, s => by
    rw [List.foldl_cons, ← processAll_bind ds c fuel rest]
    cases s <;> rfl

theorem processFrom_concrete (ds : List (DiffObj R)) (c : SkillCfg R) (fuel : Nat) :
    ∀ (k lo : Nat) (s : SkillOps.Res (Skills R)), lo + k ≤ ds.length →
      processFrom (concreteSkills ds c fuel) s lo k
        = ((ds.drop lo).take k).foldl (fun s o => s.bind fun sk => Skills.process ds c fuel sk o) s
  | 0, lo, s, _ => by simp [processFrom]
  | k + 1, lo, s, h => by
    have hlo : lo < ds.length := by omega
    have hd : ds.drop lo = ds[lo] :: ds.drop (lo + 1) := by
      rw [List.drop_eq_getElem_cons hlo]
    rw [processFrom, processFrom_concrete ds c fuel k (lo + 1) _ (by omega), hd, List.take_succ_cons,
      List.foldl_cons]
    congr 1
    show s.bind _ = s.bind _
    congr 1
    funext sk
    simp [List.getElem?_eq_getElem hlo]

/-- the skill fold of the pipeline over the first `k` difficulty objects is the processed prefix of the abstract
machine instantiated with the concrete skills -/
theorem processAll_eq_processedPrefix (ds : List (DiffObj R)) (c : SkillCfg R) (fuel : Nat) (k : Nat)
    (hk : k ≤ ds.length) :
    Skills.processAll ds c fuel Skills.init (ds.take k) = processedPrefix (concreteSkills ds c fuel) k := by
  unfold processedPrefix
  rw [processFrom_concrete ds c fuel k 0 _ (by omega), List.drop_zero, ← processAll_bind]
  rfl

theorem createDiffObjsFrom_length (clock sf : R) :
    ∀ (rest : List (RawObj R)) (ll : Option (RawObj R)) (last : RawObj R) (i : Nat),
      (createDiffObjsFrom clock sf ll last i rest).length = rest.length
  | [], _, _, _ => rfl
  | h :: rest, ll, last, i => by
    simp only [createDiffObjsFrom, List.length_cons, createDiffObjsFrom_length clock sf rest]

/-- `create_difficulty_objects`: one difficulty object per object after the first -/
theorem createDiffObjs_length (raws : List (RawObj R)) (clock sf : R) :
    (createDiffObjs raws clock sf).length = raws.length - 1 := by
  unfold createDiffObjs
  cases raws with
  | nil => rfl
  | cons f rest => simp [createDiffObjsFrom_length]

/-- the prepared difficulty-object list has one entry per object after the first -/
theorem prepared_diffObjs_length (A : Ar R S) (st : Settings R) (take : Nat) (raw : List (Obj R S))
    (p : Prepared R S) (hp : prepareAll A st take raw = .ok p) : p.diffObjs.length = raw.length - 1 := by
  obtain ⟨os, c, sc, tp, h, hl, _⟩ := Rosu.ConvOsu.prepare_spec A st.cs st.arWindow st.clockRate st.stackLeniency
    st.reflection st.version take raw
  unfold prepareAll at hp
  rw [h] at hp
  simp only [SkillOps.Res.ok.injEq] at hp
  subst hp
  simp only [createDiffObjs_length, List.length_map, hl]

/-- what a successful one-shot run went through -/
theorem osuDifficulty_ok (A : Ar R S) (E : Rosu.SliderEvents.Arith R) (fuel : Nat) (st : Settings R) (take : Nat)
    (objs : List (PObj R S)) (a : Attrs R) (h : osuDifficulty A E fuel st take objs = .ok a) :
    ∃ (raw : List (Obj R S)) (p : Prepared R S) (sk : Skills R),
      newObjs A E fuel objs = .ok raw ∧
      (∀ t, prepareAll A st t raw = .ok { p with counts := Rosu.ConvOsu.countTake t raw Counts.zero }) ∧
      Skills.processAll (if take = 0 then [] else p.diffObjs) p.cfg fuel Skills.init
        ((if take = 0 then [] else p.diffObjs).take (min objs.length take - 1)) = .ok sk ∧
      a = evalAttrs st (Rosu.ConvOsu.countTake take raw Counts.zero) sk := by
  unfold osuDifficulty at h
  cases hn : newObjs A E fuel objs with
  | clampPanic => rw [hn] at h; cases h
  | outOfFuel => rw [hn] at h; cases h
  | ok raw =>
    rw [hn] at h
    obtain ⟨p, hp, hall⟩ := prepareAll_take A st take raw
    simp only [ofOutcome, SkillOps.Res.bind, hp] at h
    refine ⟨raw, p, ?_⟩
    split at h
    · rename_i sk hsk
      simp only [SkillOps.Res.ok.injEq] at h
      exact ⟨sk, rfl, hall, hsk, h.symm⟩
    · cases h
    · cases h

/-- the gradual value for `1 ≤ i ≤ len` in terms of the same pieces -/
theorem osuGradualValue_eq (A : Ar R S) (E : Rosu.SliderEvents.Arith R) (fuel : Nat) (st : Settings R) (i : Nat)
    (objs : List (PObj R S)) (hi : 1 ≤ i) (hn : i ≤ objs.length) :
    osuGradualValue A E fuel st i objs =
      (osuDifficulty A E fuel st i objs).bind fun a => .ok (some a) := by
  unfold osuGradualValue osuDifficulty
  cases hr : newObjs A E fuel objs with
  | clampPanic => rfl
  | outOfFuel => rfl
  | ok raw =>
    obtain ⟨p, _, hall⟩ := prepareAll_take A st i raw
    simp only [ofOutcome, SkillOps.Res.bind, hall raw.length, hall i]
    have h1 : ¬ (i = 0 ∨ objs.length < i) := by omega
    have h2 : ¬ (i = 0) := by omega
    rw [if_neg h1, if_neg h2]
    have h3 : min objs.length i - 1 = i - 1 := by omega
    rw [h3]
    cases Skills.processAll p.diffObjs p.cfg fuel Skills.init (p.diffObjs.take (i - 1)) <;> rfl

end

end Rosu.PipelineOsu
