import RosuModel.Model.CatchSkill

/-!
Facts about the osu!catch pipeline that hold in EVERY arithmetic (core Lean only), hence for the
IEEE instance tied to /repo:

* difficulty objects of a prefix = prefix of the difficulty objects (`createDifficultyObjects_take`);
* the gradual calculator's skill state after `n` objects = the one-shot state for
  `passed_objects = n` (`gradualState_eq_calculate`): both paths run `initialize_hyper_dash` on the
  WHOLE list;
* `initialize_hyper_dash` is local: what it writes into the first `n` palpable objects depends only
  on the first `n + 1` objects (`hyperLoop_take`).
-/

namespace Rosu.CatchSkill
open Rosu.SkillOps
open Rosu.Skill (Obj)

variable {F S : Type} [FOps F] [FOps S] (C : Casts F S)

theorem scanObjects_take (rate : F) (sf : S) : ∀ (rest : List (Palpable F S)) (last : Palpable F S)
    (i : Nat) (p : F) (n : Nat),
    scanObjects rate sf last i p (rest.take n) = (scanObjects rate sf last i p rest).take n := by
  intro rest
  induction rest with
  | nil => intro _ _ _ n; simp [scanObjects]
  | cons b rest ih =>
    intro last i p n
    cases n with
    | zero => simp [scanObjects]
    | succ n => simp only [List.take_succ_cons, scanObjects, ih]

/-- `create_difficulty_objects(palpable.iter().take(n))` = the first `n − 1` of
`create_difficulty_objects(palpable.iter())` -/
theorem createDifficultyObjects_take (rate : F) (hcw : S) (l : List (Palpable F S)) (n : Nat) :
    createDifficultyObjects rate hcw (l.take n) = (createDifficultyObjects rate hcw l).take (n - 1) := by
  cases l with
  | nil => simp [createDifficultyObjects]
  | cons f rest =>
    cases n with
    | zero => simp [createDifficultyObjects]
    | succ n =>
      simp only [List.take_succ_cons, createDifficultyObjects, Nat.add_sub_cancel]
      exact scanObjects_take rate _ rest f 0 _ n

/-- **(d) gradual = one-shot, every arithmetic.**  The skill state of `CatchGradualDifficulty`
after its `n`-th `next()` is the skill state `DifficultyValues::calculate` reaches with
`passed_objects = n`: the same panic / fuel outcome, the same peaks and object strains. -/
theorem gradualState_eq_calculate (A : SecArith F) (fuel : Nat) (rate : F) (cs : S) (n : Nat)
    (objs : List (Palpable F S)) :
    gradualState C A fuel rate cs n objs
      = (calculate C A fuel rate cs n objs).bind fun r => .ok r.2 := by
  unfold gradualState gradualDiffObjects calculate
  cases initializeHyperDash C cs objs with
  | none => rfl
  | some palpable =>
    simp only [Option.map_some]
    rw [createDifficultyObjects_take]
    cases processAllV A FOps.fmax (fns C (halfCatcherWidth C cs) rate) fuel
      (StateV.init 0.0 St.new) ((createDifficultyObjects rate (halfCatcherWidth C cs) palpable).take (n - 1)) <;> rfl

/-- **(d) locality of `initialize_hyper_dash`, every arithmetic.**  If the loop runs through on
the whole list it runs through on the first `n + 1` objects, and the first `n` results agree:
`hyper_dash` / `dist_to_hyper_dash` of object `i` are determined by objects `0 ..= i + 1`. -/
theorem hyperLoop_take (hcw : F) : ∀ (objs : List (Palpable F S)) (st : HState F) (n : Nat)
    (l : List (Palpable F S)), hyperLoop C hcw st objs = some l →
    ∃ l', hyperLoop C hcw st (objs.take (n + 1)) = some l' ∧ l'.take n = l.take n := by
  intro objs
  induction objs with
  | nil => intro st n l h; simp only [hyperLoop] at h; cases h; exact ⟨[], by simp [hyperLoop], rfl⟩
  | cons curr rest ih =>
    intro st n l h
    cases rest with
    | nil =>
      simp only [hyperLoop] at h
      cases h
      exact ⟨[curr], by simp [hyperLoop], rfl⟩
    | cons next rest =>
      unfold hyperLoop at h
      cases hs : hyperStep C hcw st curr next with
      | none => rw [hs] at h; cases h
      | some r =>
        obtain ⟨st', curr'⟩ := r
        rw [hs] at h
        simp only at h
        cases hl : hyperLoop C hcw st' (next :: rest) with
        | none => rw [hl] at h; cases h
        | some l1 =>
          rw [hl] at h
          simp only [Option.some.injEq] at h
          subst h
          cases n with
          | zero => exact ⟨[curr], by simp [hyperLoop], rfl⟩
          | succ m =>
            obtain ⟨l2, e2, t2⟩ := ih st' m l1 hl
            refine ⟨curr' :: l2, ?_, by simp [t2]⟩
            show hyperLoop C hcw st (curr :: (next :: rest).take (m + 1)) = some (curr' :: l2)
            simp only [List.take_succ_cons] at e2 ⊢
            unfold hyperLoop
            rw [hs]
            simp only [e2]

end Rosu.CatchSkill
