import RosuModel.Lemmas.DecodeLineHit
import RosuModel.Lemmas.Decode

/-!
Lemmas about the other line parsers and the section driver of `Model/DecodeLine.lean`:
no parser panics; objects and sounds stay equally long over a whole file; the control points of a
whole file are a fold of `addLine`; routing facts of the section driver.
-/
namespace Rosu.DecodeLine
open Rosu.Decode

/-! ## no parser panics -/

theorem timeSignature_ne_panic (f : Option Str) : timeSignature f ≠ .error .panic := by
  unfold timeSignature
  cases f with
  | none => simp
  | some s =>
    simp only []
    cases parseI32 s with
    | error e => simp
    | ok v =>
      simp only []
      by_cases h : v < 1
      · rw [if_pos h]; simp
      · rw [if_neg h]; simp

theorem kiaiFlag_ne_panic (f : Option Str) : kiaiFlag f ≠ .error .panic := by
  unfold kiaiFlag
  cases f with
  | none => simp
  | some s =>
    simp only []
    cases parseI32Raw s <;> simp

theorem parseTimingLine_ne_panic (scroll : Bool) (line : Str) :
    parseTimingLine scroll line ≠ .error .panic := by
  unfold parseTimingLine
  match splitC ',' (trimComment line) with
  | [] => simp
  | [_] => simp
  | ts :: bs :: rest =>
    simp only []
    cases parseF64 ts with
    | error e => simp
    | ok time =>
      simp only []
      cases F64.parseRaw bs with
      | none => simp
      | some beatLen =>
        simp only []
        split
        · simp
        · split
          · simp
          · cases hts : timeSignature rest.head? with
            | error e =>
              simp only []
              intro hc
              injection hc with hc
              subst hc
              exact timeSignature_ne_panic _ hts
            | ok u =>
              simp only []
              cases hk : kiaiFlag rest[5]? with
              | error e =>
                simp only []
                intro hc
                injection hc with hc
                subst hc
                exact kiaiFlag_ne_panic _ hk
              | ok kiai =>
                simp only []
                split <;> simp

theorem parseEvent_ne_panic (line : Str) : parseEvent line ≠ .error .panic := by
  unfold parseEvent
  match splitC ',' (trimComment line) with
  | [] => simp
  | ty :: rest =>
    simp only []
    match eventType ty with
    | none => simp
    | some false => simp
    | some true =>
      simp only []
      match rest with
      | [] => simp
      | [_] => simp
      | ss :: es :: _ =>
        simp only []
        cases parseF64 ss with
        | error e => simp
        | ok st =>
          simp only []
          cases parseF64 es <;> simp

theorem parseDifficulty_ne_panic (d : DiffState) (line : Str) :
    (parseDifficulty d line).2 ≠ .error .panic := by
  unfold parseDifficulty
  cases difficultyArms.find? (fun a => a.key.toList == (keyValue (trimComment line)).1) with
  | none => simp
  | some a =>
    simp only []
    cases (if a.f64 then parseF64 (keyValue (trimComment line)).2
      else parseF32 (keyValue (trimComment line)).2) <;> simp

theorem parseGeneral_ne_panic (g : Nat × Nat) (line : Str) :
    (parseGeneral g line).2 ≠ .error .panic := by
  unfold parseGeneral
  cases (generalArms.find? (fun a => a.key.toList == (keyValue (trimComment line)).1)).map (·.field) with
  | none => simp
  | some key =>
    cases key <;> simp only []
    · cases parseF32 (keyValue (trimComment line)).2 <;> simp
    · cases modeOfStr (keyValue (trimComment line)).2 <;> simp

theorem parseTimingPoint_ne_panic (scroll : Bool) (s : CPS) (line : Str) :
    (parseTimingPoint scroll s line).2 ≠ .error .panic := by
  unfold parseTimingPoint
  cases h : parseTimingLine scroll line with
  | error e =>
    simp only []
    intro hc
    injection hc with hc
    subst hc
    exact parseTimingLine_ne_panic _ _ h
  | ok ln => simp

/-- (a) no line of any section makes its parser panic. -/
theorem stepLine_ne_panic (sec : Sec) (s : BState) (l : Str) :
    (stepLine sec s l).2 ≠ .error .panic := by
  cases sec <;> unfold stepLine <;> simp only []
  · exact parseGeneral_ne_panic _ _
  · simp
  · simp
  · exact parseDifficulty_ne_panic _ _
  · cases h : parseEvent l with
    | error e =>
      simp only []
      intro hc
      injection hc with hc
      subst hc
      exact parseEvent_ne_panic _ h
    | ok b => cases b <;> simp
  · exact parseTimingPoint_ne_panic _ _ _
  · simp
  · exact parseHitObject_ne_panic _ _
  · simp
  · simp
  · simp

/-! ## objects and sounds over a whole section / file -/

/-- what one line does to the hit-object part of the state -/
theorem stepLine_hs (sec : Sec) (s : BState) (l : Str) :
    (stepLine sec s l).1.hs = (if sec = .hitObjects then (parseHitObject s.hs l).1 else s.hs) := by
  cases sec <;> unfold stepLine <;> simp only [] <;> try rfl
  · cases parseEvent l with
    | error e => rfl
    | ok b => cases b <;> rfl

/-- (b) one sound per object is an invariant of every line of every section, accepted or not. -/
theorem stepLine_lengths (sec : Sec) (s : BState) (l : Str)
    (h : s.hs.sounds.length = s.hs.objects.length) :
    (stepLine sec s l).1.hs.sounds.length = (stepLine sec s l).1.hs.objects.length := by
  rw [stepLine_hs]
  by_cases hs : sec = .hitObjects
  · rw [if_pos hs]
    rcases parseHitObject_cases s.hs l with ⟨_, o, sn, ho, hsn⟩ | ⟨_, ho, hsn⟩
    · rw [ho, hsn]; simp [h]
    · rw [ho, hsn]; exact h
  · rw [if_neg hs]; exact h

theorem foldl_stepLine_lengths (r : List (Sec × Str)) (s : BState)
    (h : s.hs.sounds.length = s.hs.objects.length) :
    (r.foldl (fun s p => (stepLine p.1 s p.2).1) s).hs.sounds.length =
      (r.foldl (fun s p => (stepLine p.1 s p.2).1) s).hs.objects.length := by
  induction r generalizing s with
  | nil => exact h
  | cons p r ih => exact ih _ (stepLine_lengths p.1 s p.2 h)

theorem decodeLines_lengths (ls : List Str) :
    (decodeLines ls).hs.sounds.length = (decodeLines ls).hs.objects.length := by
  unfold decodeLines
  simp only []
  cases firstSection (parseVersion ls).2 with
  | none => rfl
  | some p =>
    obtain ⟨sec, body⟩ := p
    exact foldl_stepLine_lengths _ _ rfl

/-! ## control points over a whole file -/

/-- the control-point state is always the fold of `addLine` over some list of accepted lines -/
def CPReach (c : CPS) : Prop := ∃ lines : List TLine, c = lines.foldl (addLine exactParams) CPState.init

theorem stepLine_cps (sec : Sec) (s : BState) (l : Str) (h : CPReach s.cps) :
    CPReach (stepLine sec s l).1.cps := by
  cases sec <;> unfold stepLine <;> simp only [] <;> try exact h
  · cases parseEvent l with
    | error e => exact h
    | ok b => cases b <;> exact h
  · unfold parseTimingPoint
    cases parseTimingLine (s.mode == 1 || s.mode == 3) l with
    | error e => exact h
    | ok ln =>
      obtain ⟨lines, hl⟩ := h
      exact ⟨lines ++ [ln], by simp only [List.foldl_append, List.foldl_cons, List.foldl_nil, hl]⟩

theorem decodeLines_cps (ls : List Str) : CPReach (decodeLines ls).cps := by
  unfold decodeLines
  simp only []
  cases firstSection (parseVersion ls).2 with
  | none => exact ⟨[], rfl⟩
  | some p =>
    obtain ⟨sec, body⟩ := p
    simp only []
    have : ∀ (r : List (Sec × Str)) (s : BState), CPReach s.cps →
        CPReach (r.foldl (fun s p => (stepLine p.1 s p.2).1) s).cps := by
      intro r
      induction r with
      | nil => intro s h; exact h
      | cons p r ih => intro s h; exact ih _ (stepLine_cps p.1 s p.2 h)
    exact this _ _ ⟨[], rfl⟩

end Rosu.DecodeLine
