import RosuModel.Lemmas.CurveBasic

/-!
# `bezier_subdivide` refines de Casteljau subdivision (for EVERY arithmetic)

`subdivide A pts l r mid` (the array-and-index transcription of rosu-map's `bezier_subdivide`, every
index checked) never fails when the three buffers are at least as long as `pts`, keeps the buffer
lengths, and its first `pts.size` entries of `l` / `r` are `leftChildOf A pts.toList` /
`rightChildOf A pts.toList`.  No property of the float operations is used: both sides apply the same
`pdiv A (padd A a b) (two A)`.

The proof is element-wise (`a[k]?`): `level A k pts` is the `k`-th de Casteljau level, `midLoop`
turns the first `n + 1` entries of `mid` from a level into the next one (it reads `mid[j + 1]` before
that entry is overwritten), `subLoop` keeps the invariant "`mid` holds level `count - 1 - i`,
`l[k] = level k [0]` for the levels already left, `r[k] = level (count - 1 - k) [k]` for `k > i`".
-/
namespace Rosu.Curve

section
variable {S D : Type} (A : Arith S D)

/-! ## the spec functions, element-wise -/

/-- `(a + b) / 2.0` -/
def mp (a b : Pos S) : Pos S := pdiv A (padd A a b) (two A)

/-- The `k`-th de Casteljau level of `l`. -/
def level : Nat → List (Pos S) → List (Pos S)
  | 0, l => l
  | k + 1, l => level k (avg A l)

theorem length_avg (l : List (Pos S)) : (avg A l).length = l.length - 1 := by
  induction l with
  | nil => simp [avg]
  | cons a t ih =>
    cases t with
    | nil => simp [avg]
    | cons b rest => simp [avg] at ih ⊢; omega

theorem avg_getElem? (l : List (Pos S)) (t : Nat) :
    (avg A l)[t]? = (l[t]?).bind (fun a => (l[t + 1]?).map (fun b => mp A a b)) := by
  induction l generalizing t with
  | nil => simp [avg]
  | cons a tl ih =>
    cases tl with
    | nil => cases t <;> simp [avg]
    | cons b rest =>
      cases t with
      | zero => simp [avg, mp]
      | succ t => simpa [avg] using ih t

theorem level_succ' (k : Nat) (l : List (Pos S)) : level A (k + 1) l = avg A (level A k l) := by
  induction k generalizing l with
  | zero => simp [level]
  | succ k ih => rw [level, ih (avg A l)]; rfl

theorem length_level (k : Nat) (l : List (Pos S)) : (level A k l).length = l.length - k := by
  induction k generalizing l with
  | zero => simp [level]
  | succ k ih => rw [level, ih, length_avg]; omega

theorem leftList_getElem? (n : Nat) (l : List (Pos S)) (k : Nat) :
    (leftList A n l)[k]? = if k < n then (level A k l)[0]? else none := by
  induction n generalizing l k with
  | zero => simp [leftList]
  | succ n ih =>
    cases l with
    | nil =>
      have : level A k ([] : List (Pos S)) = [] := by
        apply List.eq_nil_of_length_eq_zero; rw [length_level]; simp
      simp [leftList, this]
    | cons a t =>
      cases k with
      | zero => simp [leftList, level]
      | succ k => simp [leftList, ih, level]

theorem length_leftList (n : Nat) (l : List (Pos S)) :
    (leftList A n l).length = min n l.length := by
  induction n generalizing l with
  | zero => simp [leftList]
  | succ n ih =>
    cases l with
    | nil => simp [leftList]
    | cons a t => simp [leftList, ih, length_avg]

theorem length_rightList (n : Nat) (l : List (Pos S)) :
    (rightList A n l).length = min n l.length := by
  induction n generalizing l with
  | zero => simp [rightList]
  | succ n ih =>
    cases l with
    | nil => simp [rightList]
    | cons a t =>
      obtain ⟨z, hz⟩ : ∃ z, (a :: t).getLast? = some z := by
        cases h : (a :: t).getLast? with
        | none => simp at h
        | some z => exact ⟨z, rfl⟩
      simp only [rightList, hz, List.length_append, ih, length_avg, List.length_cons,
        List.length_nil]
      omega

theorem length_leftChildOf (pts : List (Pos S)) : (leftChildOf A pts).length = pts.length := by
  simp [leftChildOf, length_leftList]

theorem length_rightChildOf (pts : List (Pos S)) : (rightChildOf A pts).length = pts.length := by
  simp [rightChildOf, length_rightList]

/-- the left child starts where the parent starts -/
theorem leftChildOf_head (a : Pos S) (rest : List (Pos S)) :
    (leftChildOf A (a :: rest)).head? = some a := by
  simp [leftChildOf, leftList]

/-- the right child ends where the parent ends -/
theorem rightChildOf_getLast (pts : List (Pos S)) (h : pts ≠ []) :
    (rightChildOf A pts).getLast? = pts.getLast? := by
  cases pts with
  | nil => exact absurd rfl h
  | cons a t =>
    obtain ⟨z, hz⟩ : ∃ z, (a :: t).getLast? = some z := by
      cases h : (a :: t).getLast? with
      | none => simp at h
      | some z => exact ⟨z, rfl⟩
    simp only [rightChildOf, List.length_cons, rightList, hz]
    simp

theorem rightChildOf_getElem? (l : List (Pos S)) (k : Nat) :
    (rightChildOf A l)[k]? = (level A (l.length - 1 - k) l)[k]? := by
  unfold rightChildOf
  generalize hn : l.length = n
  induction n generalizing l k with
  | zero =>
    have : l = [] := List.eq_nil_of_length_eq_zero hn
    subst this; simp [rightList, level]
  | succ n ih =>
    obtain ⟨z, hz⟩ : ∃ z, l.getLast? = some z := by
      cases h : l.getLast? with
      | none => rw [List.getLast?_eq_none_iff] at h; subst h; simp at hn
      | some z => exact ⟨z, rfl⟩
    have hla : (avg A l).length = n := by rw [length_avg]; omega
    have hlen : (rightList A n (avg A l)).length = n := by rw [length_rightList, hla]; simp
    simp only [rightList, hz]
    by_cases hk : k < n
    · rw [List.getElem?_append_left (by omega), ih (avg A l) k hla]
      have : n + 1 - 1 - k = (n - 1 - k) + 1 := by omega
      rw [this, level]
    · rw [List.getElem?_append_right (by omega), hlen]
      have : n + 1 - 1 - k = 0 := by omega
      rw [this, level]
      rw [List.getLast?_eq_getElem?, hn] at hz
      by_cases hk' : k = n
      · subst hk'; simpa using hz.symm
      · have h1 : k - n = (k - n - 1) + 1 := by omega
        rw [h1]
        simp only [List.getElem?_cons_succ, List.getElem?_nil]
        symm; rw [List.getElem?_eq_none_iff]; omega

/-- they meet at the deepest midpoint -/
theorem leftChildOf_getLast_eq_rightChildOf_head (pts : List (Pos S)) :
    (leftChildOf A pts).getLast? = (rightChildOf A pts).head? := by
  rw [List.getLast?_eq_getElem?, List.head?_eq_getElem?, length_leftChildOf,
    rightChildOf_getElem?]
  unfold leftChildOf
  rw [leftList_getElem?]
  cases pts with
  | nil => simp [level]
  | cons a t => simp

/-! ## the checked container operations -/

theorem getC_ok_some {α : Type} {a : Array α} {i : Nat} {v : α} (h : a[i]? = some v) :
    getC a i = .ok v := by
  simp [getC, h]

theorem setC_ok {α : Type} {a : Array α} {i : Nat} (v : α) (h : i < a.size) :
    setC a i v = .ok (a.setIfInBounds i v) := by
  simp [setC, h]

theorem subC_ok {a b : Nat} (h : b ≤ a) : subC a b = .ok (a - b) := by
  simp [subC, h]

theorem exists_getElem? {α : Type} {a : Array α} {i : Nat} (h : i < a.size) :
    ∃ v, a[i]? = some v := ⟨a[i], by simp [h]⟩

/-! ## `midLoop` -/

theorem midLoop_spec (n j : Nat) (mid : Array (Pos S)) (h : j + n < mid.size) :
    ∃ mid', midLoop A n j mid = .ok mid' ∧ mid'.size = mid.size ∧
      ∀ k, mid'[k]? = if j ≤ k ∧ k < j + n
        then (mid[k]?).bind (fun a => (mid[k + 1]?).map (fun b => mp A a b)) else mid[k]? := by
  induction n generalizing j mid with
  | zero => exact ⟨mid, rfl, rfl, fun k => by simp⟩
  | succ n ih =>
    obtain ⟨a, ha⟩ := exists_getElem? (a := mid) (i := j) (by omega)
    obtain ⟨b, hb⟩ := exists_getElem? (a := mid) (i := j + 1) (by omega)
    have hset := setC_ok (a := mid) (i := j) (pdiv A (padd A a b) (two A)) (by omega)
    obtain ⟨mid', h1, h2, h3⟩ := ih (j + 1) (mid.setIfInBounds j (pdiv A (padd A a b) (two A)))
      (by simp; omega)
    refine ⟨mid', ?_, by simpa using h2, fun k => ?_⟩
    · simp only [midLoop, getC_ok_some ha, getC_ok_some hb, hset, bind, Except.bind]
      exact h1
    · rw [h3 k]
      have hj : j < mid.size := by omega
      simp only [Array.getElem?_setIfInBounds, hj, if_true]
      by_cases hk : k = j
      · subst hk
        have : ¬ (k + 1 ≤ k ∧ k < k + 1 + n) := by omega
        simp [ha, hb, mp]
      · by_cases hk2 : j + 1 ≤ k ∧ k < j + 1 + n
        · have h4 : j ≤ k ∧ k < j + (n + 1) := by omega
          have h5 : ¬ j = k := by omega
          have h6 : ¬ j = k + 1 := by omega
          simp [hk2, h4, h5, h6]
        · have h4 : ¬ (j ≤ k ∧ k < j + (n + 1)) := by omega
          have h5 : ¬ j = k := by omega
          simp [hk2, h4, h5]

/-! ## `subLoop` -/

theorem subLoop_spec (P : List (Pos S)) (i d : Nat) (hid : i + d + 1 = P.length)
    (l r mid : Array (Pos S)) (sl : P.length ≤ l.size) (sr : P.length ≤ r.size)
    (sm : P.length ≤ mid.size)
    (hmid : ∀ t, t ≤ i → mid[t]? = (level A d P)[t]?)
    (hl : ∀ k, k < d → l[k]? = (level A k P)[0]?)
    (hr : ∀ k, i < k → k < P.length → r[k]? = (level A (P.length - 1 - k) P)[k]?) :
    ∃ l' r' mid', subLoop A P.length i l r mid = .ok (l', r', mid') ∧
      l'.size = l.size ∧ r'.size = r.size ∧ mid'.size = mid.size ∧
      mid'[0]? = (level A (P.length - 1) P)[0]? ∧
      (∀ k, k < P.length - 1 → l'[k]? = (level A k P)[0]?) ∧
      (∀ k, 0 < k → k < P.length → r'[k]? = (level A (P.length - 1 - k) P)[k]?) := by
  induction i generalizing d l r mid with
  | zero =>
    have hd : P.length - 1 = d := by omega
    refine ⟨l, r, mid, rfl, rfl, rfl, rfl, ?_, ?_, hr⟩
    · rw [hd]; exact hmid 0 (Nat.le_refl 0)
    · rw [hd]; exact hl
  | succ i ih =>
    obtain ⟨m0, hm0⟩ := exists_getElem? (a := mid) (i := 0) (by omega)
    obtain ⟨mi, hmi⟩ := exists_getElem? (a := mid) (i := i + 1) (by omega)
    have hs1 : subC P.length (i + 1) = .ok (d + 1) := by
      rw [subC_ok (by omega)]; congr 1; omega
    have hs2 : subC (d + 1) 1 = .ok d := by rw [subC_ok (by omega)]; rfl
    have hsl := setC_ok (a := l) (i := d) m0 (by omega)
    have hsr := setC_ok (a := r) (i := i + 1) mi (by omega)
    obtain ⟨mid1, hm1, hm2, hm3⟩ := midLoop_spec A (i + 1) 0 mid (by omega)
    obtain ⟨l', r', mid', h1, h2, h3, h4, h5, h6, h7⟩ :=
      ih (d + 1) (by omega) (l.setIfInBounds d m0) (r.setIfInBounds (i + 1) mi) mid1
        (by simpa using sl) (by simpa using sr) (by omega)
        (fun t ht => by
          rw [hm3 t, level_succ', avg_getElem?, ← hmid t (by omega), ← hmid (t + 1) (by omega)]
          have : 0 ≤ t ∧ t < 0 + (i + 1) := by omega
          rw [if_pos this])
        (fun k hk => by
          rw [Array.getElem?_setIfInBounds]
          by_cases hkd : d = k
          · subst hkd
            have : d < l.size := by omega
            simp only [this, if_true]
            rw [← hm0]; exact hmid 0 (by omega)
          · simp only [hkd, if_false]; exact hl k (by omega))
        (fun k hk hk' => by
          rw [Array.getElem?_setIfInBounds]
          by_cases hki : i + 1 = k
          · subst hki
            have : i + 1 < r.size := by omega
            simp only [this, if_true]
            rw [← hmi]
            have : P.length - 1 - (i + 1) = d := by omega
            rw [this]; exact hmid (i + 1) (Nat.le_refl _)
          · simp only [hki, if_false]; exact hr k (by omega) hk')
    refine ⟨l', r', mid', ?_, by simpa using h2, by simpa using h3, by omega, h5, h6, h7⟩
    simp only [subLoop, getC_ok_some hm0, getC_ok_some hmi, hs1, hs2, hsl, hsr, hm1, bind, Except.bind]
    exact h1

/-! ## `subdivide` -/

theorem copyPrefix_spec (dst src : Array (Pos S)) (hd : src.size ≤ dst.size) :
    ∃ m, copyPrefix dst src src.size = .ok m ∧ m.size = dst.size ∧
      ∀ t, t < src.size → m[t]? = src[t]? := by
  refine ⟨src.extract 0 src.size ++ dst.extract src.size dst.size, ?_, ?_, ?_⟩
  · simp [copyPrefix, need, hd, bind, Except.bind]
  · simp; omega
  · intro t ht
    rw [Array.getElem?_append_left (by simp; omega)]
    simp [ht]

/-- ★ `bezier_subdivide` computes the de Casteljau children and never fails when the buffers are long
enough -/
theorem subdivide_spec (pts l r mid : Array (Pos S)) (h1 : 1 ≤ pts.size)
    (hl : pts.size ≤ l.size) (hr : pts.size ≤ r.size) (hm : pts.size ≤ mid.size) :
    ∃ l' r' mid', subdivide A pts l r mid = .ok (l', r', mid') ∧
      l'.size = l.size ∧ r'.size = r.size ∧ mid'.size = mid.size ∧
      (l'.extract 0 pts.size).toList = leftChildOf A pts.toList ∧
      (r'.extract 0 pts.size).toList = rightChildOf A pts.toList := by
  obtain ⟨m0, hc1, hc2, hc3⟩ := copyPrefix_spec (dst := mid) (src := pts) hm
  have hlen : pts.toList.length = pts.size := by simp
  obtain ⟨l1, r1, mid1, e1, e2, e3, e4, e5, e6, e7⟩ :=
    subLoop_spec A pts.toList (pts.size - 1) 0 (by omega) l r m0 (by omega) (by omega) (by omega)
      (fun t ht => by rw [hc3 t (by omega)]; simp [level])
      (fun k hk => absurd hk (Nat.not_lt_zero _))
      (fun k hk hk' => by omega)
  rw [hlen] at e1 e5 e6 e7
  obtain ⟨v, hv⟩ := exists_getElem? (a := mid1) (i := 0) (by omega)
  have hs : subC pts.size 1 = .ok (pts.size - 1) := subC_ok h1
  have hsl := setC_ok (a := l1) (i := pts.size - 1) v (by omega)
  have hsr := setC_ok (a := r1) (i := 0) v (by omega)
  refine ⟨l1.setIfInBounds (pts.size - 1) v, r1.setIfInBounds 0 v, mid1, ?_, by simpa using e2,
    by simpa using e3, by omega, ?_, ?_⟩
  · simp only [subdivide, hc1, e1, getC_ok_some hv, hs, hsl, hsr, bind, Except.bind]
  · apply List.ext_getElem?
    intro k
    unfold leftChildOf
    rw [leftList_getElem?, hlen, Array.getElem?_toList, Array.getElem?_extract]
    by_cases hk : k < pts.size
    · have : k < min pts.size (l1.setIfInBounds (pts.size - 1) v).size - 0 := by simp; omega
      simp only [this, hk, if_true, Nat.zero_add]
      rw [Array.getElem?_setIfInBounds]
      by_cases hkl : pts.size - 1 = k
      · have : pts.size - 1 < l1.size := by omega
        rw [if_pos hkl, if_pos this, ← hv, e5, hkl]
      · simp only [hkl, if_false]; exact e6 k (by omega)
    · have : ¬ k < min pts.size (l1.setIfInBounds (pts.size - 1) v).size - 0 := by simp; omega
      simp [hk]
  · apply List.ext_getElem?
    intro k
    rw [rightChildOf_getElem?, hlen, Array.getElem?_toList, Array.getElem?_extract]
    by_cases hk : k < pts.size
    · have : k < min pts.size (r1.setIfInBounds 0 v).size - 0 := by simp; omega
      simp only [this, if_true, Nat.zero_add]
      rw [Array.getElem?_setIfInBounds]
      by_cases hk0 : 0 = k
      · have hr0 : 0 < r1.size := by omega
        subst hk0
        rw [if_pos hr0, ← hv, e5]; rfl
      · simp only [hk0, if_false]; exact e7 k (by omega) hk
    · have : ¬ k < min pts.size (r1.setIfInBounds 0 v).size - 0 := by simp; omega
      have h0 : pts.size - 1 - k = 0 := by omega
      simp only [this, if_false, h0, level]
      symm; rw [List.getElem?_eq_none_iff]; omega

end

end Rosu.Curve
