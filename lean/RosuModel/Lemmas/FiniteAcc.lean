import RosuModel.Model.Finite
import Mathlib.Tactic.Linarith
import Mathlib.Tactic.FieldSimp
import Mathlib.Tactic.Ring
import Mathlib.Tactic.NormNum
import Mathlib.Tactic.Positivity
import Mathlib.Algebra.Order.Field.Rat

/-! Lemmas for C09: accuracy ranges and effective-miss clamps over ℚ (`Model/Finite.lean`). -/
namespace Rosu.Finite

theorem qmax_eq_max (a b : Rat) : qmax a b = max a b := by
  unfold qmax; split <;> rename_i h
  · exact (max_eq_right h).symm
  · exact (max_eq_left (le_of_not_ge h)).symm

theorem qmin_eq_min (a b : Rat) : qmin a b = min a b := by
  unfold qmin; split <;> rename_i h
  · exact (min_eq_left h).symm
  · exact (min_eq_right (le_of_not_ge h)).symm

theorem qabs_eq_abs (a : Rat) : qabs a = |a| := by
  unfold qabs; split <;> rename_i h
  · exact (abs_of_neg h).symm
  · exact (abs_of_nonneg (le_of_not_gt h)).symm

theorem qclamp_mem (x lo hi : Rat) (h : lo ≤ hi) : lo ≤ qclamp x lo hi ∧ qclamp x lo hi ≤ hi := by
  unfold qclamp; split_ifs <;> constructor <;> linarith

/-- the shape every accuracy function has: `if den = 0 then 0 else num / den` with `0 ≤ num ≤ den` -/
theorem ratio_mem (num den : Rat) (h0 : 0 ≤ num) (h1 : num ≤ den) :
    0 ≤ (if den = 0 then 0 else num / den) ∧ (if den = 0 then 0 else num / den) ≤ 1 := by
  split_ifs with h
  · exact ⟨le_refl _, zero_le_one⟩
  · have hd : 0 < den := lt_of_le_of_ne (le_trans h0 h1) (Ne.symm h)
    exact ⟨div_nonneg h0 hd.le, (div_le_one hd).mpr h1⟩

theorem natCast_min_le_right (a b : Nat) : ((min a b : Nat) : Rat) ≤ (b : Rat) := by
  exact_mod_cast Nat.min_le_right a b

theorem osu_accNum_nonneg (s : OsuState) (o : OsuOrigin) : 0 ≤ s.accNum o := by
  cases o <;> simp only [OsuState.accNum] <;> positivity

theorem osu_accNum_le_accDen (s : OsuState) (o : OsuOrigin) : s.accNum o ≤ s.accDen o := by
  have hb : ((6 * s.n300 + 2 * s.n100 + s.n50 : Nat) : Rat) ≤ ((6 * s.totalHits : Nat) : Rat) := by
    have : 6 * s.n300 + 2 * s.n100 + s.n50 ≤ 6 * s.totalHits := by unfold OsuState.totalHits; omega
    exact_mod_cast this
  cases o with
  | stable => simpa only [OsuState.accNum, OsuState.accDen] using hb
  | withSliderAcc mlt mse =>
    simp only [OsuState.accNum, OsuState.accDen]
    have h1 := natCast_min_le_right s.sliderEndHits mse
    have h2 := natCast_min_le_right s.largeTickHits mlt
    push_cast at hb h1 h2 ⊢
    linarith
  | withoutSliderAcc mlt mst =>
    simp only [OsuState.accNum, OsuState.accDen]
    have h1 := natCast_min_le_right s.largeTickHits mlt
    have h2 := natCast_min_le_right s.smallTickHits mst
    push_cast at hb h1 h2 ⊢
    linarith

/-- the denominator is a non-negative multiple of 1/5: either `0` or at least `1/5`, so the
`FloatExt::eq(denominator, 0.0)` test (`|d| ≤ 2⁻⁵²`) of the code is the exact test `d = 0` -/
theorem osu_accDen_zero_or_ge (s : OsuState) (o : OsuOrigin) : s.accDen o = 0 ∨ 1 / 5 ≤ s.accDen o := by
  have key : ∀ k : Nat, (k : Rat) / 5 = 0 ∨ (1 : Rat) / 5 ≤ (k : Rat) / 5 := by
    intro k
    rcases Nat.eq_zero_or_pos k with h | h
    · left; simp [h]
    · right
      have : (1 : Rat) ≤ (k : Rat) := by exact_mod_cast h
      linarith
  cases o with
  | stable =>
    have := key (30 * s.totalHits)
    simp only [OsuState.accDen]; push_cast at this ⊢
    rcases this with h | h
    · left; linarith
    · right; linarith
  | withSliderAcc mlt mse =>
    have := key (30 * s.totalHits + 15 * mse + 3 * mlt)
    simp only [OsuState.accDen]; push_cast at this ⊢
    rcases this with h | h
    · left; linarith
    · right; linarith
  | withoutSliderAcc mlt mst =>
    have := key (30 * s.totalHits + 3 * mlt + mst)
    simp only [OsuState.accDen]; push_cast at this ⊢
    rcases this with h | h
    · left; linarith
    · right; linarith

theorem floatEq_zero_iff_of_fifth {d : Rat} (h : d = 0 ∨ 1 / 5 ≤ d) : floatEq d 0 = true ↔ d = 0 := by
  unfold floatEq
  rw [decide_eq_true_iff, qabs_eq_abs, sub_zero]
  constructor
  · intro he
    rcases h with h | h
    · exact h
    · exfalso
      have : |d| = d := abs_of_nonneg (by linarith)
      rw [this] at he
      unfold f64Eps at he
      norm_num at he
      linarith
  · intro h0; rw [h0]; unfold f64Eps; norm_num


/-! ### the remaining accuracy shapes -/

theorem nocombo_aux (N D : Nat) (num den : Rat) (hN : (N : Rat) = 50 * num) (hD : (D : Rat) = 50 * den) :
    (if D = 0 then (0 : Rat) else (N : Rat) / (D : Rat)) = if den = 0 then 0 else num / den := by
  by_cases hd : D = 0
  · have : den = 0 := by
      have h0 : (D : Rat) = 0 := by exact_mod_cast hd
      rw [hD] at h0; linarith
    rw [if_pos hd, if_pos this]
  · have : den ≠ 0 := by
      intro h0
      apply hd
      have : (D : Rat) = 0 := by rw [hD, h0]; ring
      exact_mod_cast this
    rw [if_neg hd, if_neg this, hN, hD, mul_div_mul_left _ _ (by norm_num : (50 : Rat) ≠ 0)]

theorem osu_noCombo_eq (s : OsuState) (o : OsuOrigin) : s.noComboAccuracy o = s.accuracy o := by
  unfold OsuState.noComboAccuracy OsuState.accuracy
  cases o with
  | stable =>
    exact nocombo_aux _ _ _ _ (by simp only [OsuState.accNum]; push_cast; ring)
      (by simp only [OsuState.accDen]; push_cast; ring)
  | withSliderAcc mlt mse =>
    exact nocombo_aux _ _ _ _ (by simp only [OsuState.accNum]; push_cast; ring)
      (by simp only [OsuState.accDen]; push_cast; ring)
  | withoutSliderAcc mlt mst =>
    exact nocombo_aux _ _ _ _ (by simp only [OsuState.accNum]; push_cast; ring)
      (by simp only [OsuState.accDen]; push_cast; ring)

theorem better_acc_mem (s : OsuState) (amount : Nat) :
    0 ≤ s.betterAccPercentage amount ∧ s.betterAccPercentage amount ≤ 1 := by
  unfold OsuState.betterAccPercentage
  simp only
  by_cases ha : amount > 0
  · rw [if_pos ha]
    have hden : (0 : Rat) < ((amount * 6 : Nat) : Rat) := by
      have : 0 < amount * 6 := by omega
      exact_mod_cast this
    have hnum : ((s.n300 : Int) - max ((s.totalHits : Int) - (amount : Int)) 0) * 6 + (s.n100 : Int) * 2 + (s.n50 : Int)
        ≤ ((amount * 6 : Nat) : Int) := by
      unfold OsuState.totalHits
      rcases le_total ((((s.n300 + s.n100 + s.n50 + s.misses : Nat) : Int)) - (amount : Int)) 0 with h | h
      · rw [max_eq_right h]; push_cast at h ⊢; omega
      · rw [max_eq_left h]; push_cast at h ⊢; omega
    have hle : ((((s.n300 : Int) - max ((s.totalHits : Int) - (amount : Int)) 0) * 6 + (s.n100 : Int) * 2 + (s.n50 : Int) : Int) : Rat)
        / ((amount * 6 : Nat) : Rat) ≤ 1 := by
      rw [div_le_one hden]
      have := (Int.cast_le (R := Rat)).mpr hnum
      simpa using this
    split_ifs with hneg
    · exact ⟨le_refl _, zero_le_one⟩
    · exact ⟨le_of_not_gt hneg, hle⟩
  · rw [if_neg ha]; simp

theorem max_spec (a b x : Rat) (h : max a b = x) : a ≤ x ∧ b ≤ x ∧ (x = a ∨ x = b) := by
  subst h
  refine ⟨le_max_left _ _, le_max_right _ _, ?_⟩
  rcases max_choice a b with e | e
  · left; exact e
  · right; exact e

theorem relevant_acc_mem (s : OsuState) (snc : Rat) (h : 0 ≤ snc) :
    0 ≤ s.relevantAcc snc ∧ s.relevantAcc snc ≤ 1 := by
  unfold OsuState.relevantAcc
  simp only [qmax_eq_max]
  by_cases h0 : snc = 0
  · rw [if_pos h0]; exact ⟨le_refl _, zero_le_one⟩
  · rw [if_neg h0]
    have hpos : 0 < snc := lt_of_le_of_ne h (Ne.symm h0)
    have hden : 0 < snc * 6 := by linarith
    have h300 : (0 : Rat) ≤ (s.n300 : Rat) := by positivity
    have h100 : (0 : Rat) ≤ (s.n100 : Rat) := by positivity
    have h50 : (0 : Rat) ≤ (s.n50 : Rat) := by positivity
    have hmiss : (0 : Rat) ≤ (s.misses : Rat) := by positivity
    have htot : ((s.totalHits : Nat) : Rat) = (s.n300 : Rat) + s.n100 + s.n50 + s.misses := by
      unfold OsuState.totalHits; push_cast; ring
    have hcast : (((s.n300 + s.n100 : Nat)) : Rat) = (s.n300 : Rat) + s.n100 := by push_cast; ring
    rw [htot, hcast]
    constructor
    · apply div_nonneg _ hden.le
      have := le_max_right ((s.n300 : Rat) - max 0 ((s.n300 : Rat) + s.n100 + s.n50 + s.misses - snc)) 0
      have := le_max_right ((s.n100 : Rat) - max (max 0 ((s.n300 : Rat) + s.n100 + s.n50 + s.misses - snc) - s.n300) 0) 0
      have := le_max_right ((s.n50 : Rat) - max (max 0 ((s.n300 : Rat) + s.n100 + s.n50 + s.misses - snc) - ((s.n300 : Rat) + s.n100)) 0) 0
      linarith
    · rw [div_le_one hden]
      generalize hr : max (0 : Rat) ((s.n300 : Rat) + s.n100 + s.n50 + s.misses - snc) = rtd
      generalize h1 : max (rtd - (s.n300 : Rat)) 0 = d1
      generalize h2 : max (rtd - ((s.n300 : Rat) + s.n100)) 0 = d2
      generalize h3 : max ((s.n300 : Rat) - rtd) 0 = r300
      generalize h4 : max ((s.n100 : Rat) - d1) 0 = r100
      generalize h5 : max ((s.n50 : Rat) - d2) 0 = r50
      obtain ⟨a0, b0, c0⟩ := max_spec _ _ _ hr
      obtain ⟨a1, b1, c1⟩ := max_spec _ _ _ h1
      obtain ⟨a2, b2, c2⟩ := max_spec _ _ _ h2
      obtain ⟨a3, b3, c3⟩ := max_spec _ _ _ h3
      obtain ⟨a4, b4, c4⟩ := max_spec _ _ _ h4
      obtain ⟨a5, b5, c5⟩ := max_spec _ _ _ h5
      rcases c0 with c0 | c0 <;> rcases c1 with c1 | c1 <;> rcases c2 with c2 | c2 <;>
      rcases c3 with c3 | c3 <;> rcases c4 with c4 | c4 <;> rcases c5 with c5 | c5 <;> linarith

theorem mania_acc_mem (s : ManiaState) (classic : Bool) :
    0 ≤ s.accuracy classic ∧ s.accuracy classic ≤ 1 := by
  unfold ManiaState.accuracy
  by_cases h0 : s.totalHits = 0
  · rw [if_pos h0]; exact ⟨le_refl _, zero_le_one⟩
  · rw [if_neg h0]
    simp only
    have hpw : 60 ≤ (if classic then 60 else 61 : Nat) := by cases classic <;> simp
    generalize (if classic then 60 else 61 : Nat) = pw at hpw
    have hden : (0 : Rat) < ((pw * s.totalHits : Nat) : Rat) := by
      have : 0 < pw * s.totalHits := Nat.mul_pos (by omega) (Nat.pos_of_ne_zero h0)
      exact_mod_cast this
    constructor
    · positivity
    · rw [div_le_one hden]
      have : pw * s.n320 + 60 * s.n300 + 40 * s.n200 + 20 * s.n100 + 10 * s.n50 ≤ pw * s.totalHits := by
        unfold ManiaState.totalHits
        have e : pw * (s.n320 + s.n300 + s.n200 + s.n100 + s.n50 + s.misses)
            = pw * s.n320 + pw * s.n300 + pw * s.n200 + pw * s.n100 + pw * s.n50 + pw * s.misses := by ring
        rw [e]
        have := Nat.mul_le_mul_right s.n300 hpw
        have := Nat.mul_le_mul_right s.n200 hpw
        have := Nat.mul_le_mul_right s.n100 hpw
        have := Nat.mul_le_mul_right s.n50 hpw
        omega
      exact_mod_cast this

theorem mania_custom_acc_mem (s : ManiaState) : 0 ≤ s.customAccuracy ∧ s.customAccuracy ≤ 1 := by
  unfold ManiaState.customAccuracy
  by_cases h0 : s.totalHits = 0
  · rw [if_pos h0]; exact ⟨le_refl _, zero_le_one⟩
  · rw [if_neg h0]
    have hden : (0 : Rat) < ((s.totalHits * 32 : Nat) : Rat) := by
      have : 0 < s.totalHits * 32 := by omega
      exact_mod_cast this
    constructor
    · positivity
    · rw [div_le_one hden]
      have : s.n320 * 32 + s.n300 * 30 + s.n200 * 20 + s.n100 * 10 + s.n50 * 5 ≤ s.totalHits * 32 := by
        unfold ManiaState.totalHits; omega
      exact_mod_cast this

/-! ### effective miss count -/

theorem final_clamp_bounds (e : Rat) (s : OsuState) :
    (s.misses : Rat) ≤ qmin (qmax e (s.misses : Rat)) (s.totalHits : Rat) ∧
      qmin (qmax e (s.misses : Rat)) (s.totalHits : Rat) ≤ (s.totalHits : Rat) := by
  rw [qmin_eq_min, qmax_eq_max]
  have hm : (s.misses : Rat) ≤ (s.totalHits : Rat) := by
    have : s.misses ≤ s.totalHits := by unfold OsuState.totalHits; omega
    exact_mod_cast this
  exact ⟨le_min (le_max_right _ _) hm, min_le_right _ _⟩

theorem emc_bounds (a : OsuCounts) (s : OsuState) (classic : Bool) (e : Rat)
    (h : effectiveMissCount a s classic = some e) : (s.misses : Rat) ≤ e ∧ e ≤ (s.totalHits : Rat) := by
  unfold effectiveMissCount at h
  simp only [Option.map_eq_some_iff] at h
  obtain ⟨x, _, hx⟩ := h
  rw [← hx]
  exact final_clamp_bounds x s

theorem emc_classic (a : OsuCounts) (s : OsuState) :
    ∃ e, effectiveMissCount a s true = some e ∧ (s.misses : Rat) ≤ e ∧ e ≤ (s.totalHits : Rat) := by
  have hsome : (effectiveMissCount a s true).isSome = true := by
    unfold effectiveMissCount
    simp only [Option.isSome_map]
    split_ifs <;> rfl
  obtain ⟨e, he⟩ := Option.isSome_iff_exists.mp hsome
  exact ⟨e, he, emc_bounds a s true e he⟩

theorem emc_lazer_total (a : OsuCounts) (s : OsuState)
    (h1 : s.sliderEndHits ≤ a.nSliders) (h2 : s.largeTickHits ≤ a.nLargeTicks) (h3 : a.nSliders ≤ a.maxCombo) :
    ∃ e, effectiveMissCount a s false = some e := by
  have hsome : (effectiveMissCount a s false).isSome = true := by
    unfold effectiveMissCount csub
    simp only [Option.isSome_map, Bool.false_eq_true, if_false, if_pos h1, if_pos h2]
    have h4 : a.nSliders - s.sliderEndHits ≤ a.maxCombo := by omega
    rw [if_pos h4]
    split_ifs <;> rfl
  exact Option.isSome_iff_exists.mp hsome

theorem relax_bounds (emc : Rat) (s : OsuState) (m100 m50 : Rat)
    (h100 : 0 ≤ m100) (h50 : 0 ≤ m50) (h0 : 0 ≤ emc) :
    0 ≤ relaxEffectiveMiss emc s m100 m50 ∧ relaxEffectiveMiss emc s m100 m50 ≤ (s.totalHits : Rat) ∧
      min emc (s.totalHits : Rat) ≤ relaxEffectiveMiss emc s m100 m50 := by
  unfold relaxEffectiveMiss
  rw [qmin_eq_min]
  have a1 : (0 : Rat) ≤ (s.n100 : Rat) * m100 := by positivity
  have a2 : (0 : Rat) ≤ (s.n50 : Rat) * m50 := by positivity
  have a3 : (0 : Rat) ≤ (s.totalHits : Rat) := by positivity
  refine ⟨le_min (by linarith) a3, min_le_right _ _, ?_⟩
  exact min_le_min_right _ (by linarith)

end Rosu.Finite
