import RosuModel.Lemmas.CurveBasic

/-!
# The NaN vertex of `circular_arc_properties`: a witness on the model

`nfArith`: an arithmetic over `Option Int` — `none` stands for a NON-FINITE `f32`/`f64` value (±∞ or NaN,
absorbing in every operation), `some n` for the finite INTEGER value `n`.  `+ − ×` on `f32` are exact
integer operations followed by the rounding to a 24-bit significand, ties to even, that IEEE single
precision performs (`roundInt24`); a division by zero yields a non-finite value, any other quotient is
truncated (the only quotients with finite operands on this witness are the constants `f32::EPSILON = 1/2^23`
and `0.1`, which become `0` and are only compared with integers / non-finite values: `|det| ≤ ε` ⇔
`det = 0` on integers); comparisons involving a non-finite value answer `false` (the NaN answer).  A
deliberately small abstraction of `f32`, precise on this witness, where every finite intermediate value up
to the division by `d` is an integer below `2^25`.  (`Rat` cannot be used: core's `Rat.add` / `Rat.mul` are
irreducible, so `decide` would not evaluate.)

Control points `b = (3244, −2736)`, `c = (3225, 104)`, `d = (3208, 2645)` (determinant 1): the test
`|(c−b) × (d−b)| ≤ f32::EPSILON` fails (the determinant is computed from small differences, exactly), but
`d = 2·(b.x·(c−d).y + c.x·(d−b).y + d.x·(b−c).y)` contains the product `3225 · 5381 = 17 353 725 > 2^24`,
which rounds to `17 353 724`; the three products then cancel to exactly `0`, the centre is `x / 0`, and every
vertex the arc emits is non-finite.  The real code: `corpus:witness-curve-arc-nonfinite-centre` (C05),
`curve-nan-vertex-arc-*` (C09), and the CURVE line `hand:…:P-inner-det1-d-cancels` with the IEEE instance.
-/
namespace Rosu.Curve

/-- `f32` rounding of an integer: nearest multiple of `2^k` where `2^(23+k) ≤ |n| < 2^(24+k)`, ties to
even; exact below `2^24`. Integers from `2^40` on are left alone (not needed here). -/
def roundInt24 (n : Int) : Int :=
  let a := n.natAbs
  match (List.range 17).find? (fun k => decide (a < 2 ^ (24 + k))) with
  | none => n
  | some k =>
    let unit := 2 ^ k
    let m := a / unit
    let r := a % unit
    let m' := if 2 * r > unit ∨ (2 * r = unit ∧ m % 2 = 1) then m + 1 else m
    if n < 0 then -((m' * unit : Nat) : Int) else ((m' * unit : Nat) : Int)

def nfLift2 (f : Int → Int → Int) : Option Int → Option Int → Option Int
  | some a, some b => some (f a b)
  | _, _ => none

def nfCmp (f : Int → Int → Bool) : Option Int → Option Int → Bool
  | some a, some b => f a b
  | _, _ => false

/-- The arithmetic described above. `sqrt`, `acos`, `sin`, `cos` of a finite value are finite
(represented by `some 0`: their value does not matter below); `atan2` is finite for ALL arguments, as in
IEEE (`atan2(±∞, ±∞) = ±π/4, ±3π/4`). -/
def nfArith : Arith (Option Int) (Option Int) where
  sOfInt n := some n
  sNeg x := x.map (fun a => -a)
  sAdd := nfLift2 fun a b => roundInt24 (a + b)
  sSub := nfLift2 fun a b => roundInt24 (a - b)
  sMul := nfLift2 fun a b => roundInt24 (a * b)
  sDiv x y := match x, y with
    | some a, some b => if b = 0 then none else some (a / b)
    | _, _ => none
  sAbs x := x.map (fun a => if a < 0 then -a else a)
  sLt := nfCmp fun a b => decide (a < b)
  sLe := nfCmp fun a b => decide (a ≤ b)
  sEq := nfCmp fun a b => decide (a = b)
  sAcos x := x.map fun _ => 0
  dOfInt n := some n
  dAdd := nfLift2 fun a b => a + b
  dSub := nfLift2 fun a b => a - b
  dMul := nfLift2 fun a b => a * b
  dDiv x y := match x, y with
    | some a, some b => if b = 0 then none else some (a / b)
    | _, _ => none
  dAbs x := x.map (fun a => if a < 0 then -a else a)
  dLt := nfCmp fun a b => decide (a < b)
  dLe := nfCmp fun a b => decide (a ≤ b)
  dSqrt x := x.map fun _ => 0
  dAtan2 _ _ := some 0
  dSin x := x.map fun _ => 0
  dCos x := x.map fun _ => 0
  dCeilUsize _ := 0
  dPi := some 3
  toD x := x
  toS x := x

def wB : Pos (Option Int) := ⟨some 3244, some (-2736)⟩
def wC : Pos (Option Int) := ⟨some 3225, some 104⟩
def wD : Pos (Option Int) := ⟨some 3208, some 2645⟩

/-- the product that does not fit 24 bits -/
theorem witness_product_rounds : roundInt24 (3225 * 5381) = 17353724 ∧ (3225 * 5381 : Int) = 17353725 := by
  decide

/-- the centre of the witness arc is non-finite although the determinant test passed -/
def centreNonFinite : Bool :=
  match arcProperties nfArith 1 wB wC wD with
  | .ok (some pr) => pr.centre.x.isNone && pr.centre.y.isNone && pr.radius.isNone
  | _ => false

theorem witness_centre_nonfinite : centreNonFinite = true := by decide

/-- With a non-finite centre every point of the arc is non-finite. -/
theorem arcPoint_nonfinite (pr : ArcProps (Option Int) (Option Int)) (hx : pr.centre.x = none)
    (hy : pr.centre.y = none) (dv dr : Option Int) (i : Nat) :
    (arcPoint nfArith pr dv dr i).x = none ∧ (arcPoint nfArith pr dv dr i).y = none := by
  simp [arcPoint, padd, nfArith, nfLift2, hx, hy]

theorem arcSubPoints_nonfinite (pr : ArcProps (Option Int) (Option Int)) (hr : pr.radius = none) :
    arcSubPoints nfArith pr = 2 := by
  simp [arcSubPoints, nfArith, nfCmp, nfLift2, hr, two, tenth, sEps]

/-- on the witness `approximate_circular_arc` does NOT fall back to bezier;
it emits two vertices and both are non-finite. -/
theorem curve_nan_vertex_witness_lemma :
    ∃ path, approximateArc nfArith 1 #[] wB wC wD = .ok (some path) ∧ path.size = 2 ∧
      ∀ v ∈ path.toList, v.x = none ∧ v.y = none := by
  have hw := witness_centre_nonfinite
  unfold centreNonFinite at hw
  match h : arcProperties nfArith 1 wB wC wD with
  | .error e => rw [h] at hw; cases hw
  | .ok none => rw [h] at hw; cases hw
  | .ok (some pr) =>
    rw [h] at hw
    simp only [Bool.and_eq_true, Option.isNone_iff_eq_none] at hw
    obtain ⟨⟨hx, hy⟩, hr⟩ := hw
    have hn := arcSubPoints_nonfinite pr hr
    refine ⟨#[] ++ ((List.range 2).map (arcPoint nfArith pr (nfArith.dOfInt 1)
      (nfArith.dMul pr.direction pr.thetaRange))).toArray, ?_, by simp, ?_⟩
    · unfold approximateArc
      simp only [h, bind, Except.bind, hn]
      simp [arcCap, subC]
    · intro v hv
      simp only [Array.toList_append, List.mem_append, List.mem_map, List.mem_range] at hv
      rcases hv with hv | ⟨i, _, rfl⟩
      · simp at hv
      · exact arcPoint_nonfinite pr hx hy _ _ i

end Rosu.Curve
