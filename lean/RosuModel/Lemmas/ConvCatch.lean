import RosuModel.Model.ConvCatch
import Mathlib.Algebra.Order.Field.Rat
import Mathlib.Tactic.Linarith
import Mathlib.Tactic.NormNum

/-!
catch `convert_objects`: the hard-rock offsets keep every fruit inside the playfield `[0, 512]`
(exact rational instance), and the PRNG consumption of an object is a fixed function of its shape,
so a prefix of the objects consumes a prefix of the stream.
-/
namespace Rosu.ConvCatch
open Rosu.Rng

/-- exact `(next_double_range(0, max(td/4, 0)) as i32).min(20)`: `⌊n·max(td,0) / 2³³⌋` capped at 20 -/
def randExact (td : Int) (n : Nat) : Int := min (((n : Int) * max td 0) / 8589934592) 20

theorem randExact_range (td : Int) (n : Nat) : 0 ≤ randExact td n ∧ randExact td n ≤ 20 := by
  unfold randExact
  have h : 0 ≤ ((n : Int) * max td 0) / 8589934592 :=
    Int.ediv_nonneg (Int.mul_nonneg (Int.natCast_nonneg n) (le_max_right _ _)) (by norm_num)
  omega

/-- exact instance: positions and times are rationals -/
def ratCAr : CAr Rat Rat where
  add := (· + ·)
  sub := (· - ·)
  neg a := -a
  lt a b := decide (a < b)
  le a b := decide (a ≤ b)
  abs a := |a|
  ofInt i := (i : Rat)
  eps := 1 / 8388608
  timeDiff a b := Int.tdiv (a - b).num (a - b).den
  rand td n := (randExact td n : Rat)
  timeLe a b := decide (a ≤ b)

theorem rand_range (td : Int) (n : Nat) : (0 : Rat) ≤ ratCAr.rand td n ∧ ratCAr.rand td n ≤ 20 := by
  have := randExact_range td n
  simp only [ratCAr]
  constructor
  · exact_mod_cast this.1
  · exact_mod_cast this.2

/-- `apply_random_offset` keeps `[0, 512]` -/
theorem applyRandomOffset_range (pos : Rat) (td : Int) (s : Osu) (h0 : 0 ≤ pos) (h1 : pos ≤ 512) :
    0 ≤ (applyRandomOffset ratCAr pos td s).1 ∧ (applyRandomOffset ratCAr pos td s).1 ≤ 512 := by
  unfold applyRandomOffset
  simp only
  have hr := rand_range td s.nextBool.2.nextInt.1
  generalize ratCAr.rand td s.nextBool.2.nextInt.1 = r at hr
  have e512 : ratCAr.ofInt 512 = (512 : Rat) := by simp [ratCAr]
  have e0 : ratCAr.ofInt 0 = (0 : Rat) := by simp [ratCAr]
  rw [e512, e0]
  cases s.nextBool.1
  · simp only [Bool.false_eq_true, if_false]
    by_cases h : (0 : Rat) ≤ pos - r
    · have hh : ratCAr.le 0 (ratCAr.sub pos r) = true := by simp [ratCAr, h]
      rw [if_pos hh]
      simp only [ratCAr]
      constructor <;> linarith
    · have hh : ¬ (ratCAr.le 0 (ratCAr.sub pos r) = true) := by simp [ratCAr, h]
      rw [if_neg hh]
      simp only [ratCAr]
      push_neg at h
      constructor <;> linarith
  · simp only [if_true]
    by_cases h : pos + r ≤ 512
    · have hh : ratCAr.le (ratCAr.add pos r) 512 = true := by simp [ratCAr, h]
      rw [if_pos hh]
      simp only [ratCAr]
      constructor <;> linarith
    · have hh : ¬ (ratCAr.le (ratCAr.add pos r) 512 = true) := by simp [ratCAr, h]
      rw [if_neg hh]
      simp only [ratCAr]
      push_neg at h
      constructor <;> linarith

/-- `apply_offset` keeps `[0, 512]` -/
theorem applyOffset_range (pos amount : Rat) (h0 : 0 ≤ pos) (h1 : pos ≤ 512) :
    0 ≤ applyOffset ratCAr pos amount ∧ applyOffset ratCAr pos amount ≤ 512 := by
  unfold applyOffset
  have e512 : ratCAr.ofInt 512 = (512 : Rat) := by simp [ratCAr]
  have e0 : ratCAr.ofInt 0 = (0 : Rat) := by simp [ratCAr]
  rw [e512, e0]
  by_cases ha : (0 : Rat) < amount
  · have hh : ratCAr.lt 0 amount = true := by simp [ratCAr, ha]
    rw [if_pos hh]
    by_cases hb : pos + amount < 512
    · have hh2 : ratCAr.lt (ratCAr.add pos amount) 512 = true := by simp [ratCAr, hb]
      rw [if_pos hh2]; simp only [ratCAr]; constructor <;> linarith
    · have hh2 : ¬ (ratCAr.lt (ratCAr.add pos amount) 512 = true) := by simp [ratCAr, hb]
      rw [if_neg hh2]; exact ⟨h0, h1⟩
  · have hh : ¬ (ratCAr.lt 0 amount = true) := by simp [ratCAr, ha]
    rw [if_neg hh]
    by_cases hb : (0 : Rat) < pos + amount
    · have hh2 : ratCAr.lt 0 (ratCAr.add pos amount) = true := by simp [ratCAr, hb]
      rw [if_pos hh2]; simp only [ratCAr]; push_neg at ha; constructor <;> linarith
    · have hh2 : ¬ (ratCAr.lt 0 (ratCAr.add pos amount) = true) := by simp [ratCAr, hb]
      rw [if_neg hh2]; exact ⟨h0, h1⟩

/-- **(b)** the offset `apply_hr_offset` writes keeps the fruit inside `[0, 512]`, for every PRNG
state, every previous position / time and every `x ∈ [0, 512]` -/
theorem applyHrOffset_range (x start : Rat) (st : St Rat Rat) (h0 : 0 ≤ x) (h1 : x ≤ 512) (off : Rat)
    (h : (applyHrOffset ratCAr x start st).1 = some off) : 0 ≤ x + off ∧ x + off ≤ 512 := by
  unfold applyHrOffset at h
  split at h
  · cases h
  · split at h
    · cases h
    · simp only at h
      split at h
      · cases h
      · split at h
        · simp only [Option.some.injEq] at h
          have := applyRandomOffset_range x (ratCAr.timeDiff start st.lastStart) st.rng h0 h1
          rw [← h]; simp only [ratCAr] at this ⊢
          constructor <;> linarith [this.1, this.2]
        · simp only [Option.some.injEq] at h
          rw [← h]
          split
          · rename_i _ last _ _ _ _ _
            have := applyOffset_range x (ratCAr.sub x last) h0 h1
            simp only [ratCAr] at this ⊢
            constructor <;> linarith [this.1, this.2]
          · simp only [ratCAr]; constructor <;> linarith

/-! ## PRNG consumption -/

variable {S T : Type}

/-- a juice stream consumes one generator step per droplet and tiny droplet, a banana shower four per
banana, a fruit without hard-rock offsets none — whatever the positions and times are -/
theorem convertOne_rng (A : CAr S T) (hr : Bool) (st : St S T) :
    (∀ x start cp nested, (convertOne A hr st (.stream x start cp nested)).2.rng =
      skip (nested.filter (fun n => n.kind = 1 ∨ n.kind = 2)).length st.rng) ∧
    (∀ n, (convertOne A hr st (.shower n)).2.rng = skip (4 * n) st.rng) ∧
    (∀ x start, hr = false → (convertOne A hr st (.fruit x start)).2.rng = st.rng) := by
  refine ⟨fun _ _ _ _ => rfl, fun _ => rfl, fun x start h => ?_⟩
  subst h; rfl

theorem applyRandomOffset_rng (A : CAr S T) (pos : S) (td : Int) (s : Osu) :
    (applyRandomOffset A pos td s).2 = s.nextBool.2.nextInt.2 := by
  unfold applyRandomOffset
  simp only
  split
  · split <;> rfl
  · split <;> rfl

/-- a hard-rock fruit consumes either nothing or exactly one `next_bool` and one `next_int` -/
theorem applyHrOffset_rng (A : CAr S T) (x : S) (start : T) (st : St S T) :
    (applyHrOffset A x start st).2.rng = st.rng ∨
    (applyHrOffset A x start st).2.rng = st.rng.nextBool.2.nextInt.2 := by
  unfold applyHrOffset
  split
  · exact Or.inl rfl
  · split
    · exact Or.inl rfl
    · simp only
      split
      · exact Or.inl rfl
      · split
        · exact Or.inr (applyRandomOffset_rng A _ _ _)
        · exact Or.inl rfl

/-- the state after converting a list of objects -/
def finalSt (A : CAr S T) (hr : Bool) (st : St S T) (os : List (Obj S T)) : St S T :=
  os.foldl (fun s o => (convertOne A hr s o).2) st

/-- **prefixes consume a prefix of the stream**: converting `os ++ os'` first does exactly what
converting `os` does (same palpables, same offsets, same PRNG states), then continues on `os'` from
the state reached — so `passed_objects` (applied after the conversion in both the one-shot and the
gradual path) never changes an offset. -/
theorem convertLoop_append (A : CAr S T) (hr : Bool) :
    ∀ (os os' : List (Obj S T)) (st : St S T),
      convertLoop A hr st (os ++ os') =
        convertLoop A hr st os ++ convertLoop A hr (finalSt A hr st os) os' := by
  intro os
  induction os with
  | nil => intro os' st; rfl
  | cons o os ih =>
    intro os' st
    simp only [List.cons_append, convertLoop, finalSt, List.foldl_cons]
    rw [ih os' (convertOne A hr st o).2]
    rfl

/-- one output list per hit object, in input order -/
theorem convertLoop_length (A : CAr S T) (hr : Bool) :
    ∀ (os : List (Obj S T)) (st : St S T), (convertLoop A hr st os).length = os.length := by
  intro os
  induction os with
  | nil => intro st; rfl
  | cons o os ih => intro st; simp [convertLoop, ih]

end Rosu.ConvCatch
