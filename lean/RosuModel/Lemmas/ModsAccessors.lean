import RosuModel.Lemmas.ModsBits
import Mathlib.Tactic.NormNum
import Mathlib.Tactic.FieldSimp
import Mathlib.Algebra.Order.Field.Rat

/-! Accessor-level lemmas for `Model/Mods.lean`: what each accessor returns, per representation,
as a function of the bits of a legacy mod set. -/
namespace Rosu.Mods
open Rosu.Gen.Mods

theorem findSome?_filter' {α β : Type} (l : List α) (p : α → Bool) (f : α → Option β) :
    (l.filter p).findSome? f = l.findSome? (fun a => if p a then f a else none) := by
  induction l with
  | nil => rfl
  | cons a l ih =>
    by_cases h : p a = true
    · simp [h, List.findSome?_cons, ih]
    · simp [h, ih]

theorem findSome?_eq_none_of {α β : Type} (l : List α) (f : α → Option β) (h : ∀ a ∈ l, f a = none) :
    l.findSome? f = none := by
  induction l with
  | nil => rfl
  | cons a l ih =>
    simp only [List.findSome?_cons, h a (List.mem_cons_self ..)]
    exact ih (fun x hx => h x (List.mem_cons_of_mem _ hx))

theorem mem_fromBits (b : Nat) (m : IMod) :
    m ∈ fromBits b ↔ bitOf (adjBit b) m = true := by
  rw [← contains_fromBits]; simp

theorem mem_imIter (s : List IMod) (m : IMod) : m ∈ imIter s ↔ m ∈ orderAll ∧ m ∈ s := by
  unfold imIter; simp [List.mem_filter]

theorem mem_orderAll (m : IMod) (h : m ≠ .Unknown) : m ∈ orderAll := by
  cases m <;> first | (exact absurd rfl h) | decide

/-! ### bits after `adjust` at the positions the accessors read -/

def special (i : Nat) : Bool := i == 5 || i == 6 || i == 9 || i == 14

theorem adjBit_plain (b i : Nat) (h : i < 32) (hs : special i = false) : adjBit b i = b.testBit i := by
  unfold special at hs
  have h5 : i ≠ 5 := by intro e; subst e; simp at hs
  have h6 : i ≠ 6 := by intro e; subst e; simp at hs
  have h9 : i ≠ 9 := by intro e; subst e; simp at hs
  have h14 : i ≠ 14 := by intro e; subst e; simp at hs
  simp [adjBit, h, h5, h6, h9, h14]

theorem adjBit_6 (b : Nat) : adjBit b 6 = (b.testBit 6 && !b.testBit 9) := by simp [adjBit]
theorem adjBit_9 (b : Nat) : adjBit b 9 = (b.testBit 9 && b.testBit 6) := by simp [adjBit]

/-! ### flags -/

/-- a generated `impl_has_mod!` row whose Legacy arm and Intermode/Lazer arms name the same
single-bit mod (or, for a `-` row, a mod without legacy bit) -/
def rowOk (row : String × IMod × Option LName) : Bool :=
  decide (row.2.1 ≠ .Unknown) &&
  match row.2.2, row.2.1.idx with
  | some n, some i => n.bits == bit i && decide (i < 30) && !special i
  | some _, none => false
  | none, none => true
  | none, some _ => false

theorem flag_legacy (R : Type) (row : String × IMod × Option LName) (h : rowOk row = true) (b : Nat) :
    (Rep.legacy (legacyFromBits b) : Rep R).flag row =
      bitOf b.testBit row.2.1 := by
  obtain ⟨fn, m, ln⟩ := row
  simp only [rowOk, Bool.and_eq_true, decide_eq_true_eq] at h
  simp only [Rep.flag, bitOf]
  cases hl : ln with
  | none =>
    cases hi : m.idx with
    | none => rfl
    | some i => simp [hl, hi] at h
  | some n =>
    cases hi : m.idx with
    | none => simp [hl, hi] at h
    | some i =>
      simp only [hl, hi, Bool.and_eq_true, beq_iff_eq, decide_eq_true_eq, Bool.not_eq_true'] at h
      obtain ⟨_, ⟨hb, h30⟩, _⟩ := h
      simp only [hb, legacyContains_bit, testBit_legacyFromBits, h30, decide_true, Bool.true_and]

theorem flag_intermode (R : Type) (row : String × IMod × Option LName) (h : rowOk row = true) (b : Nat) :
    (Rep.intermode (fromBits b) : Rep R).flag row =
      bitOf b.testBit row.2.1 := by
  obtain ⟨fn, m, ln⟩ := row
  simp only [rowOk, Bool.and_eq_true, decide_eq_true_eq] at h
  simp only [Rep.flag, contains_fromBits, bitOf]
  cases hi : m.idx with
  | none => rfl
  | some i =>
    cases hl : ln with
    | none => simp [hl, hi] at h
    | some n =>
      simp only [hl, hi, Bool.and_eq_true, beq_iff_eq, decide_eq_true_eq, Bool.not_eq_true'] at h
      obtain ⟨_, ⟨_, h30⟩, hs⟩ := h
      exact adjBit_plain b i (by omega) hs

theorem any_withMode (R : Type) (mode : Mode) (s : List IMod) (m : IMod) (hm : m ≠ .Unknown) :
    (withMode (R := R) mode s).any (fun x => x.kind == m) = (s.contains m && avail mode m) := by
  unfold withMode
  rw [Bool.eq_iff_iff]
  simp only [List.any_eq_true, List.mem_map, List.mem_filter, mem_imIter, Bool.and_eq_true,
    List.contains_iff_mem, beq_iff_eq]
  constructor
  · rintro ⟨x, ⟨k, ⟨⟨_, hk⟩, ha⟩, rfl⟩, rfl⟩
    exact ⟨hk, ha⟩
  · rintro ⟨hk, ha⟩
    exact ⟨{ kind := m }, ⟨m, ⟨⟨mem_orderAll m hm, hk⟩, ha⟩, rfl⟩, rfl⟩

theorem flag_lazer (R : Type) (row : String × IMod × Option LName) (h : rowOk row = true) (b : Nat)
    (mode : Mode) :
    (Rep.lazer mode (withMode mode (fromBits b)) : Rep R).flag row =
      (bitOf b.testBit row.2.1 && avail mode row.2.1) := by
  have hm : row.2.1 ≠ .Unknown := by
    simp only [rowOk, Bool.and_eq_true, decide_eq_true_eq] at h; exact h.1
  have := flag_intermode R row h b
  simp only [Rep.flag] at this ⊢
  rw [any_withMode R mode _ _ hm, this]

/-! ### clock rate -/

theorem legacyClockRate_eq (b : Nat) :
    legacyClockRate numQ (legacyFromBits b) =
      if b.testBit 6 then 3 / 2 else if b.testBit 8 then 3 / 4 else 1 := by
  simp [legacyClockRate, LName.bits, legacyContains_bit, testBit_legacyFromBits, numQ, lit15, lit075, lit1]

theorem imLegacyClockRate_eq (s : List IMod) :
    imLegacyClockRate numQ s =
      if IMod.Daycore ∈ s ∨ IMod.HalfTime ∈ s then 3 / 4
      else if IMod.DoubleTime ∈ s ∨ IMod.Nightcore ∈ s then 3 / 2 else 1 := by
  unfold imLegacyClockRate imIter
  rw [findSome?_filter']
  by_cases h1 : IMod.Daycore ∈ s <;> by_cases h2 : IMod.HalfTime ∈ s <;>
    by_cases h3 : IMod.DoubleTime ∈ s <;> by_cases h4 : IMod.Nightcore ∈ s <;>
    simp [orderAll, List.findSome?_cons, h1, h2, h3, h4, numQ, lit15, lit075, lit1]

theorem intermodeClockRate_eq (b : Nat) :
    imLegacyClockRate numQ (fromBits b) =
      if b.testBit 8 then 3 / 4 else if b.testBit 6 then 3 / 2 else 1 := by
  rw [imLegacyClockRate_eq]
  simp only [mem_fromBits, bitOf, IMod.idx]
  rw [adjBit_6, adjBit_9, adjBit_plain b 8 (by omega) (by decide)]
  cases b.testBit 6 <;> cases b.testBit 8 <;> cases b.testBit 9 <;> simp

/-- the Lazer closure on a default-settings mod -/
theorem lazerRateOf_default (m : IMod) :
    lazerRateOf numQ { kind := m } =
      (if m = .DoubleTime ∨ m = .Nightcore then some (3 / 2)
       else if m = .HalfTime ∨ m = .Daycore then some (3 / 4) else none) := by
  cases m <;> simp [lazerRateOf, clockLazerArms, LMod.clockRate, numQ, lit15, lit075] <;> norm_num

theorem lazerClockRate_eq (mode : Mode) (s : List IMod) :
    (Rep.lazer mode (withMode mode s) : Rep Rat).clockRate numQ =
      if IMod.Daycore ∈ s ∨ IMod.HalfTime ∈ s then 3 / 4
      else if IMod.DoubleTime ∈ s ∨ IMod.Nightcore ∈ s then 3 / 2 else 1 := by
  simp only [Rep.clockRate, withMode, imIter, List.findSome?_map, findSome?_filter', Function.comp_def,
    lazerRateOf_default]
  by_cases h1 : IMod.Daycore ∈ s <;> by_cases h2 : IMod.HalfTime ∈ s <;>
    by_cases h3 : IMod.DoubleTime ∈ s <;> by_cases h4 : IMod.Nightcore ∈ s <;>
    simp [orderAll, List.findSome?_cons, h1, h2, h3, h4, numQ, clockLazerFallback, avail]

/-! ### accessors that are functions of the flags -/

theorem flagAt_legacy_eq_intermode (R : Type) (hrows : hasModRows.all rowOk = true) (b i : Nat) :
    (Rep.legacy (legacyFromBits b) : Rep R).flagAt i = (Rep.intermode (fromBits b) : Rep R).flagAt i := by
  unfold Rep.flagAt
  cases h : hasModRows[i]? with
  | none => rfl
  | some row =>
    have hmem : row ∈ hasModRows := List.mem_of_getElem? h
    have hok := List.all_eq_true.mp hrows row hmem
    simp only [flag_legacy R row hok, flag_intermode R row hok]

/-- the mod of row `i` exists in `mode` (rows out of range: vacuous) -/
def availAt (mode : Mode) (i : Nat) : Bool :=
  match hasModRows[i]? with
  | some row => avail mode row.2.1
  | none => true

theorem flagAt_lazer_eq_legacy (R : Type) (hrows : hasModRows.all rowOk = true) (b i : Nat) (mode : Mode)
    (ha : availAt mode i = true) :
    (Rep.lazer mode (withMode mode (fromBits b)) : Rep R).flagAt i =
      (Rep.legacy (legacyFromBits b) : Rep R).flagAt i := by
  unfold Rep.flagAt
  unfold availAt at ha
  cases h : hasModRows[i]? with
  | none => rfl
  | some row =>
    have hmem : row ∈ hasModRows := List.mem_of_getElem? h
    have hok := List.all_eq_true.mp hrows row hmem
    rw [h] at ha
    simp only [flag_legacy R row hok, flag_lazer R row hok, ha, Bool.and_true]

theorem find?_congr' {α : Type} (l : List α) (p q : α → Bool) (h : ∀ a ∈ l, p a = q a) :
    l.find? p = l.find? q := by
  induction l with
  | nil => rfl
  | cons a l ih =>
    simp only [List.find?_cons, h a (List.mem_cons_self ..)]
    rw [ih (fun x hx => h x (List.mem_cons_of_mem _ hx))]

theorem mult_legacy_eq_intermode (hrows : hasModRows.all rowOk = true) (b : Nat) :
    (Rep.legacy (legacyFromBits b) : Rep Rat).mult numQ = (Rep.intermode (fromBits b) : Rep Rat).mult numQ := by
  unfold Rep.mult
  rw [find?_congr' multChain _ _ (fun c _ => flagAt_legacy_eq_intermode Rat hrows b c.1)]

theorem mult_lazer_eq_legacy (hrows : hasModRows.all rowOk = true)
    (mode : Mode) (hav : multChain.all (fun c => availAt mode c.1) = true) (b : Nat) :
    (Rep.lazer mode (withMode mode (fromBits b)) : Rep Rat).mult numQ =
      (Rep.legacy (legacyFromBits b) : Rep Rat).mult numQ := by
  unfold Rep.mult
  rw [find?_congr' multChain _ _ (fun c hc =>
    flagAt_lazer_eq_legacy Rat hrows b c.1 mode (List.all_eq_true.mp hav c hc))]

/-! ### `no_slider_head_acc`, `reflection`, `mania_keys`, DifficultyAdjust values -/

theorem classic_not_mem (b : Nat) : ¬ IMod.Classic ∈ fromBits b := by
  rw [mem_fromBits]; simp [bitOf, IMod.idx]

theorem nsh_intermode (b : Nat) (lz : Bool) :
    (Rep.intermode (fromBits b) : Rep Rat).noSliderHeadAcc lz = !lz := by
  simp [Rep.noSliderHeadAcc, nshaIntermodeMod, classic_not_mem]

theorem nsh_lazer (b : Nat) (mode : Mode) (lz : Bool) :
    (Rep.lazer mode (withMode mode (fromBits b)) : Rep Rat).noSliderHeadAcc lz = !lz := by
  have hnone : (withMode (R := Rat) mode (fromBits b)).findSome?
      (fun m => (armFor nshaLazerArms mode m.kind).map (fun d => m.nsha.getD d)) = none := by
    apply findSome?_eq_none_of
    intro a ha
    unfold withMode at ha
    obtain ⟨k, hk, rfl⟩ := List.mem_map.mp ha
    have hk2 := ((mem_imIter _ _).mp (List.mem_filter.mp hk).1).2
    have hne : k ≠ .Classic := fun e => classic_not_mem b (e ▸ hk2)
    cases k <;> first | (exact absurd rfl hne) | rfl
  simp [Rep.noSliderHeadAcc, hnone]

theorem reflection_legacy (b : Nat) :
    (Rep.legacy (legacyFromBits b) : Rep Rat).reflection =
      if b.testBit 4 then Reflection.vertical else Reflection.none := by
  simp [Rep.reflection, reflLegacy, reflLegacyElse, LName.bits, legacyContains_bit, testBit_legacyFromBits]
  cases b.testBit 4 <;> rfl

theorem reflection_intermode (b : Nat) :
    (Rep.intermode (fromBits b) : Rep Rat).reflection =
      if b.testBit 4 then Reflection.vertical else Reflection.none := by
  have h : IMod.HardRock ∈ fromBits b ↔ b.testBit 4 = true := by
    rw [mem_fromBits]; simp [bitOf, IMod.idx, adjBit_plain b 4 (by omega) (by decide)]
  by_cases h4 : b.testBit 4 = true <;>
    simp [Rep.reflection, reflIntermode, reflIntermodeElse, h, h4]

theorem reflection_lazer (b : Nat) (mode : Mode) :
    (Rep.lazer mode (withMode mode (fromBits b)) : Rep Rat).reflection =
      if mode = .osu ∧ b.testBit 4 = true then Reflection.vertical
      else if (mode = .osu ∨ mode = .catch) ∧ b.testBit 30 = true then Reflection.horizontal
      else Reflection.none := by
  have hhr : IMod.HardRock ∈ fromBits b ↔ b.testBit 4 = true := by
    rw [mem_fromBits]; simp [bitOf, IMod.idx, adjBit_plain b 4 (by omega) (by decide)]
  have hmr : IMod.Mirror ∈ fromBits b ↔ b.testBit 30 = true := by
    rw [mem_fromBits]; simp [bitOf, IMod.idx, adjBit_plain b 30 (by omega) (by decide)]
  simp only [Rep.reflection, withMode, imIter, List.findSome?_map, findSome?_filter', Function.comp_def]
  cases mode <;> by_cases h4 : b.testBit 4 = true <;> by_cases h30 : b.testBit 30 = true <;>
    simp [orderAll, List.findSome?_cons, avail, hhr, hmr, h4, h30, armFor, reflLazerArms, ReflVal.eval,
      reflLazerElse]

/-- key count by bits, in the order of the `mania_keys` chains -/
def keysOf (b : Nat) : Option Rat :=
  if b.testBit 26 = true then some 1 else if b.testBit 28 = true then some 2
  else if b.testBit 27 = true then some 3 else if b.testBit 15 = true then some 4
  else if b.testBit 16 = true then some 5 else if b.testBit 17 = true then some 6
  else if b.testBit 18 = true then some 7 else if b.testBit 19 = true then some 8
  else if b.testBit 24 = true then some 9 else none

theorem find?_map_cons {α β : Type} (a : α) (l : List α) (p : α → Bool) (f : α → β) :
    ((a :: l).find? p).map f = if p a = true then some (f a) else (l.find? p).map f := by
  simp only [List.find?_cons]; cases p a <;> simp

theorem map_ite_some {α β : Type} (c : Prop) [Decidable c] (f : α → β) (a : α) (e : Option α) :
    Option.map f (if c then some a else e) = if c then some (f a) else Option.map f e := by
  split <;> rfl

theorem maniaKeys_legacy (b : Nat) :
    ((Rep.legacy (legacyFromBits b) : Rep Rat).maniaKeys).map (·.q) = keysOf b := by
  simp only [Rep.maniaKeys, maniaKeysLegacy, Option.map_map, find?_map_cons, List.find?_nil,
    Option.map_none, LName.bits, legacyContains_bit, testBit_legacyFromBits, Function.comp_def]
  simp [keysOf, map_ite_some]

theorem maniaKeys_intermode (b : Nat) :
    ((Rep.intermode (fromBits b) : Rep Rat).maniaKeys).map (·.q) = keysOf b := by
  simp only [Rep.maniaKeys, maniaKeysIntermode, Option.map_map, find?_map_cons, List.find?_nil,
    Option.map_none, contains_fromBits, bitOf, IMod.idx, Function.comp_def]
  simp [keysOf, adjBit, map_ite_some]

theorem maniaKeys_lazer (b : Nat) (mode : Mode) :
    ((Rep.lazer mode (withMode mode (fromBits b)) : Rep Rat).maniaKeys).map (·.q) =
      if mode = .mania then keysOf b else none := by
  simp only [Rep.maniaKeys, maniaKeysLazer, Option.map_map, find?_map_cons, List.find?_nil,
    Option.map_none, Function.comp_def]
  rw [any_withMode Rat mode _ _ (by decide), any_withMode Rat mode _ _ (by decide),
    any_withMode Rat mode _ _ (by decide), any_withMode Rat mode _ _ (by decide),
    any_withMode Rat mode _ _ (by decide), any_withMode Rat mode _ _ (by decide),
    any_withMode Rat mode _ _ (by decide), any_withMode Rat mode _ _ (by decide),
    any_withMode Rat mode _ _ (by decide), any_withMode Rat mode _ _ (by decide)]
  simp only [contains_fromBits, bitOf, IMod.idx]
  cases mode <;> simp [keysOf, adjBit, avail, map_ite_some]

theorem mapAttr_lazer_default (mode : Mode) (s : List IMod) (modes : List Mode)
    (field : LMod Rat → Option Rat) (hf : ∀ m : IMod, field { kind := m } = none) :
    (Rep.lazer mode (withMode mode s) : Rep Rat).mapAttr modes field = none := by
  unfold Rep.mapAttr withMode
  apply findSome?_eq_none_of
  intro a ha
  obtain ⟨m, _, rfl⟩ := List.mem_map.mp ha
  simp [hf]

/-! ### lazer sets with payloads -/

def isRate (k : IMod) : Bool := k == .DoubleTime || k == .HalfTime || k == .Nightcore || k == .Daycore

theorem lazerRateOf_nonrate (m : LMod Rat) (h : isRate m.kind = false) : lazerRateOf numQ m = none := by
  obtain ⟨k, sp, a, c, hp, od⟩ := m
  cases k <;> simp_all [lazerRateOf, clockLazerArms, isRate]

theorem lazerRateOf_rate (m : LMod Rat) (r : Rat) (hk : isRate m.kind = true) (hs : m.speed = some r) :
    lazerRateOf numQ m = some r := by
  obtain ⟨k, sp, a, c, hp, od⟩ := m
  simp only at hs; subst hs
  cases k <;> simp_all [lazerRateOf, clockLazerArms, isRate, LMod.clockRate, numQ] <;>
    (field_simp)

/-- a lazer set whose only rate mod carries `speed_change = r` has clock rate `r` -/
theorem clockRate_with_rate (mode : Mode) (l : List (LMod Rat)) (x : LMod Rat) (r : Rat)
    (hx : x ∈ l) (hk : isRate x.kind = true) (hs : x.speed = some r)
    (huniq : ∀ m ∈ l, isRate m.kind = true → m = x) :
    (Rep.lazer mode l : Rep Rat).clockRate numQ = r := by
  simp only [Rep.clockRate]
  suffices h : l.findSome? (lazerRateOf numQ) = some r by rw [h]; rfl
  induction l with
  | nil => cases hx
  | cons a l ih =>
    rw [List.findSome?_cons]
    cases ha : isRate a.kind with
    | true =>
      have : a = x := huniq a (List.mem_cons_self ..) ha
      subst this
      rw [lazerRateOf_rate a r hk hs]
    | false =>
      rw [lazerRateOf_nonrate a ha]
      have hne : x ≠ a := by intro e; subst e; rw [hk] at ha; cases ha
      have hx' : x ∈ l := by
        cases List.mem_cons.mp hx with
        | inl h => exact absurd h hne
        | inr h => exact h
      exact ih hx' (fun m hm => huniq m (List.mem_cons_of_mem _ hm))

/-- removing the DifficultyAdjust mod -/
def noDA (l : List (LMod Rat)) : List (LMod Rat) := l.filter (fun m => m.kind != .DifficultyAdjust)

theorem flag_noDA (mode : Mode) (l : List (LMod Rat)) (row : String × IMod × Option LName)
    (h : row.2.1 ≠ .DifficultyAdjust) :
    (Rep.lazer mode (noDA l) : Rep Rat).flag row = (Rep.lazer mode l : Rep Rat).flag row := by
  simp only [Rep.flag, noDA, List.any_filter]
  congr 1
  funext m
  by_cases hm : m.kind = row.2.1
  · simp [hm, h]
  · simp [hm]

theorem clockRate_noDA (mode : Mode) (l : List (LMod Rat)) :
    (Rep.lazer mode (noDA l) : Rep Rat).clockRate numQ = (Rep.lazer mode l : Rep Rat).clockRate numQ := by
  simp only [Rep.clockRate, noDA, findSome?_filter']
  congr 2
  funext m
  by_cases hm : m.kind = .DifficultyAdjust
  · simp [hm, lazerRateOf_nonrate m (by rw [hm]; rfl)]
  · simp [hm]

theorem mapAttr_noDA (mode : Mode) (l : List (LMod Rat)) (modes : List Mode)
    (field : LMod Rat → Option Rat) :
    (Rep.lazer mode (noDA l) : Rep Rat).mapAttr modes field = none := by
  unfold Rep.mapAttr noDA
  apply findSome?_eq_none_of
  intro a ha
  have := (List.mem_filter.mp ha).2
  simp only [bne_iff_ne, ne_eq] at this
  simp [this]

/-- the value an `impl_map_attr!` accessor reports for a set with exactly one DifficultyAdjust mod -/
theorem mapAttr_unique (mode : Mode) (l : List (LMod Rat)) (da : LMod Rat) (modes : List Mode)
    (field : LMod Rat → Option Rat) (hda : da ∈ l) (hk : da.kind = .DifficultyAdjust)
    (huniq : ∀ m ∈ l, m.kind = .DifficultyAdjust → m = da) :
    (Rep.lazer mode l : Rep Rat).mapAttr modes field = if modes.contains mode then field da else none := by
  simp only [Rep.mapAttr]
  induction l with
  | nil => cases hda
  | cons a l ih =>
    rw [List.findSome?_cons]
    by_cases ha : a.kind = .DifficultyAdjust
    · have : a = da := huniq a (List.mem_cons_self ..) ha
      subst this
      cases hm : modes.contains mode with
      | true =>
        simp only [ha, beq_self_eq_true, Bool.and_self, if_true]
        cases hf : field a with
        | some v => rfl
        | none =>
          simp only
          apply findSome?_eq_none_of
          intro m hm'
          by_cases hmk : m.kind = .DifficultyAdjust
          · have := huniq m (List.mem_cons_of_mem _ hm') hmk
            subst this; simp [hf]
          · simp [hmk]
      | false =>
        simp only [Bool.and_false, Bool.false_eq_true, if_false]
        apply findSome?_eq_none_of
        intro m _; rfl
    · have hne : da ≠ a := by intro e; subst e; exact ha hk
      have hda' : da ∈ l := by
        cases List.mem_cons.mp hda with
        | inl h => exact absurd h hne
        | inr h => exact h
      have hb : (a.kind == IMod.DifficultyAdjust) = false := by simp [ha]
      simp only [hb, Bool.false_and, Bool.false_eq_true, if_false]
      exact ih hda' (fun m hm => huniq m (List.mem_cons_of_mem _ hm))

theorem reflection_agree_li (b : Nat) :
    (Rep.legacy (legacyFromBits b) : Rep Rat).reflection = (Rep.intermode (fromBits b) : Rep Rat).reflection := by
  rw [reflection_legacy, reflection_intermode]

end Rosu.Mods
