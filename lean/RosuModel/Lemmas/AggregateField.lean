import RosuModel.Lemmas.Aggregate
import Mathlib.Algebra.Order.Field.Basic
import Mathlib.Tactic.Linarith
import Mathlib.Tactic.Ring
import Mathlib.Tactic.FieldSimp

/-!
The aggregation functions of `Model/Aggregate.lean` over a linearly ordered field `K`
(the real-number reading of the `f64` formulas): closed form of the weighted loop, sign, the
bounds `max peak ≤ difficulty_value ≤ max peak / (1 − decay)`, positivity of taiko's combined
value exactly when some section has a positive combined peak, independence of the section order.
-/

set_option linter.unusedSectionVars false

namespace Rosu.Agg

variable {K : Type} [Field K] [LinearOrder K] [IsStrictOrderedRing K]

/-- The operations of a linearly ordered field: `total_cmp` is `≤`, `retain_non_zero` drops `0`. -/
def fieldOps (K : Type) [Field K] [LinearOrder K] : Ops K :=
  { zero := 0, one := 1, add := (· + ·), mul := (· * ·)
    nonZero := fun x => decide (x ≠ 0)
    ge := fun a b => decide (b ≤ a)
    pos := fun x => decide (0 < x) }

/-- `Σ termsᵢ · decayⁱ` -/
def wsum (decay : K) : List K → K
  | [] => 0
  | s :: t => s + decay * wsum decay t

theorem foldl_weighted (decay : K) (terms : List K) : ∀ (d w : K),
    (terms.foldl (fun (acc : K × K) s => (acc.1 + s * acc.2, acc.2 * decay)) (d, w)).1
      = d + w * wsum decay terms := by
  induction terms with
  | nil => intro d w; simp [wsum]
  | cons s t ih =>
    intro d w
    rw [List.foldl_cons, ih]
    simp only [wsum]
    ring

/-- The loop `difficulty += strain * weight; weight *= decay` computes `Σ termsᵢ · decayⁱ`. -/
theorem weightedSum_eq_wsum (decay : K) (terms : List K) :
    weightedSum (fieldOps K) decay terms = wsum decay terms := by
  unfold weightedSum
  have := foldl_weighted decay terms 0 1
  simpa [fieldOps] using this

theorem wsum_nonneg {decay : K} (hd : 0 ≤ decay) {terms : List K} (h : ∀ x ∈ terms, 0 ≤ x) :
    0 ≤ wsum decay terms := by
  induction terms with
  | nil => simp [wsum]
  | cons s t ih =>
    have h1 : 0 ≤ s := h s (by simp)
    have h2 := ih (fun x hx => h x (by simp [hx]))
    simp only [wsum]
    have := mul_nonneg hd h2
    linarith

theorem head_le_wsum {decay : K} (hd : 0 ≤ decay) {s : K} {t : List K} (h : ∀ x ∈ t, 0 ≤ x) :
    s ≤ wsum decay (s :: t) := by
  simp only [wsum]
  have := mul_nonneg hd (wsum_nonneg hd h)
  linarith

theorem wsum_le_bound {decay M : K} (hd : 0 ≤ decay) (hd1 : decay < 1) (hM : 0 ≤ M)
    {terms : List K} (h : ∀ x ∈ terms, x ≤ M) : wsum decay terms ≤ M / (1 - decay) := by
  have h1 : 0 < 1 - decay := by linarith
  induction terms with
  | nil => simp only [wsum]; exact div_nonneg hM h1.le
  | cons s t ih =>
    have hs : s ≤ M := h s (by simp)
    have ht := ih (fun x hx => h x (by simp [hx]))
    simp only [wsum]
    have h2 : decay * wsum decay t ≤ decay * (M / (1 - decay)) := mul_le_mul_of_nonneg_left ht hd
    have h3 : M + decay * (M / (1 - decay)) = M / (1 - decay) := by
      field_simp
      ring
    linarith

/-! ## sorting -/

theorem mem_sortDesc (O : Ops K) {l : List K} {a : K} : a ∈ sortDesc O l ↔ a ∈ l :=
  (List.mergeSort_perm l _).mem_iff

theorem sortDesc_field_sorted (l : List K) :
    (sortDesc (fieldOps K) l).Pairwise (fun a b => b ≤ a) := by
  have := List.pairwise_mergeSort (le := fun a b : K => decide (b ≤ a))
    (by intro a b c h1 h2; simp only [decide_eq_true_eq] at *; exact le_trans h2 h1)
    (by intro a b; simp only [Bool.or_eq_true, decide_eq_true_eq]; exact le_total b a) l
  simpa [sortDesc, fieldOps] using this

theorem sortDesc_field_perm {l₁ l₂ : List K} (h : l₁.Perm l₂) :
    sortDesc (fieldOps K) l₁ = sortDesc (fieldOps K) l₂ :=
  sortDesc_eq_of_perm (fieldOps K)
    (by intro a b c h1 h2; simp only [fieldOps, decide_eq_true_eq] at *; exact le_trans h2 h1)
    (by intro a b; simp only [fieldOps, Bool.or_eq_true, decide_eq_true_eq]; exact le_total b a)
    (by intro a b _ _ h1 h2; simp only [fieldOps, decide_eq_true_eq] at h1 h2; exact le_antisymm h2 h1)
    h

/-! ## `difficulty_value` -/

theorem mem_dvTermsOf {peaks : List K} {a : K} :
    a ∈ dvTermsOf (fieldOps K) peaks ↔ a ∈ peaks ∧ a ≠ 0 := by
  unfold dvTermsOf
  rw [mem_sortDesc, List.mem_filter]
  simp [fieldOps]

theorem difficultyValue_nonneg {decay : K} (hd : 0 ≤ decay) {peaks : List K}
    (h : ∀ x ∈ peaks, 0 ≤ x) : 0 ≤ difficultyValue (fieldOps K) decay peaks := by
  unfold difficultyValue
  rw [weightedSum_eq_wsum]
  exact wsum_nonneg hd (fun x hx => h x (mem_dvTermsOf.mp hx).1)

theorem difficultyValue_le {decay M : K} (hd : 0 ≤ decay) (hd1 : decay < 1) (hM : 0 ≤ M)
    {peaks : List K} (h : ∀ x ∈ peaks, x ≤ M) :
    difficultyValue (fieldOps K) decay peaks ≤ M / (1 - decay) := by
  unfold difficultyValue
  rw [weightedSum_eq_wsum]
  exact wsum_le_bound hd hd1 hM (fun x hx => h x (mem_dvTermsOf.mp hx).1)

/-- Every peak is at most the difficulty value (the highest peak has weight 1). -/
theorem peak_le_difficultyValue {decay : K} (hd : 0 ≤ decay) {peaks : List K}
    (h : ∀ x ∈ peaks, 0 ≤ x) {p : K} (hp : p ∈ peaks) :
    p ≤ difficultyValue (fieldOps K) decay peaks := by
  by_cases hp0 : p = 0
  · rw [hp0]; exact difficultyValue_nonneg hd h
  · have hmem : p ∈ dvTermsOf (fieldOps K) peaks := mem_dvTermsOf.mpr ⟨hp, hp0⟩
    have hsorted : (dvTermsOf (fieldOps K) peaks).Pairwise (fun a b => b ≤ a) :=
      sortDesc_field_sorted _
    have hnn : ∀ x ∈ dvTermsOf (fieldOps K) peaks, 0 ≤ x :=
      fun x hx => h x (mem_dvTermsOf.mp hx).1
    unfold difficultyValue
    rw [weightedSum_eq_wsum]
    generalize dvTermsOf (fieldOps K) peaks = l at hmem hsorted hnn
    cases l with
    | nil => simp at hmem
    | cons s t =>
      have hs : p ≤ s := by
        rcases List.mem_cons.mp hmem with rfl | ht
        · exact le_refl _
        · exact (List.pairwise_cons.mp hsorted).1 p ht
      exact le_trans hs (head_le_wsum hd (fun x hx => hnn x (by simp [hx])))

theorem difficultyValue_perm_field (decay : K) {v₁ v₂ : List K} (h : v₁.Perm v₂) :
    difficultyValue (fieldOps K) decay v₁ = difficultyValue (fieldOps K) decay v₂ := by
  unfold difficultyValue dvTermsOf
  rw [sortDesc_field_perm (h.filter _)]

/-! ## osu!'s variant -/

theorem mem_scalePrefix {factor : Nat → K} {k : Nat} {l : List K} {x : K}
    (h : x ∈ scalePrefix (fieldOps K) factor k l) : ∃ e ∈ l, ∃ i, x = e * factor i ∨ x = e := by
  simp only [scalePrefix, List.mem_map] at h
  obtain ⟨⟨e, i⟩, hm, hx⟩ := h
  have := List.mem_zipIdx hm
  refine ⟨e, ?_, i, ?_⟩
  · rw [this.2.2]; exact List.getElem_mem _
  · simp only at hx; split at hx
    · exact Or.inl hx.symm
    · exact Or.inr hx.symm

/-- With scaling factors in `[0, 1]` (they are `lerp(baseline, 1, log10(…)) ∈ [0.75, 1]`) and
non-negative peaks osu!'s difficulty value is non-negative … -/
theorem osuDifficultyValue_nonneg {decay : K} (hd : 0 ≤ decay) {factor : Nat → K}
    (hf : ∀ i, 0 ≤ factor i) (k : Nat) {peaks : List K} (h : ∀ x ∈ peaks, 0 ≤ x) :
    0 ≤ osuDifficultyValue (fieldOps K) factor k decay peaks := by
  unfold osuDifficultyValue osuTermsOf
  rw [weightedSum_eq_wsum]
  apply wsum_nonneg hd
  intro x hx
  obtain ⟨e, he, i, hx | hx⟩ := mem_scalePrefix ((mem_sortDesc _).mp hx)
  · rw [hx]; exact mul_nonneg (h e (mem_dvTermsOf.mp he).1) (hf i)
  · rw [hx]; exact h e (mem_dvTermsOf.mp he).1

/-- … and bounded like the generic one. -/
theorem osuDifficultyValue_le {decay M : K} (hd : 0 ≤ decay) (hd1 : decay < 1) (hM : 0 ≤ M)
    {factor : Nat → K} (hf1 : ∀ i, factor i ≤ 1) (k : Nat)
    {peaks : List K} (h0 : ∀ x ∈ peaks, 0 ≤ x) (h : ∀ x ∈ peaks, x ≤ M) :
    osuDifficultyValue (fieldOps K) factor k decay peaks ≤ M / (1 - decay) := by
  unfold osuDifficultyValue osuTermsOf
  rw [weightedSum_eq_wsum]
  apply wsum_le_bound hd hd1 hM
  intro x hx
  obtain ⟨e, he, i, hx | hx⟩ := mem_scalePrefix ((mem_sortDesc _).mp hx)
  · have he0 := h0 e (mem_dvTermsOf.mp he).1
    have heM := h e (mem_dvTermsOf.mp he).1
    rw [hx]
    calc e * factor i ≤ e * 1 := mul_le_mul_of_nonneg_left (hf1 i) he0
      _ = e := mul_one e
      _ ≤ M := heM
  · rw [hx]; exact h e (mem_dvTermsOf.mp he).1

theorem osuDifficultyValue_perm_field (factor : Nat → K) (k : Nat) (decay : K) {v₁ v₂ : List K}
    (h : v₁.Perm v₂) :
    osuDifficultyValue (fieldOps K) factor k decay v₁
      = osuDifficultyValue (fieldOps K) factor k decay v₂ := by
  unfold osuDifficultyValue osuTermsOf dvTermsOf
  rw [sortDesc_field_perm (h.filter _)]

/-! ## taiko's combined value -/

theorem mem_taikoTermsOf {comb : K → K → K → K → K} {r rd c s : List K} {a : K} :
    a ∈ taikoTermsOf (fieldOps K) comb r rd c s ↔ a ∈ zip4With comb r rd c s ∧ 0 < a := by
  unfold taikoTermsOf
  rw [mem_sortDesc, List.mem_filter]
  simp [fieldOps]

/-- Whatever the per-section arithmetic: only positive section values are summed, so the
combined value is non-negative … -/
theorem taikoCombined_nonneg {decay : K} (hd : 0 ≤ decay) (comb : K → K → K → K → K)
    (r rd c s : List K) : 0 ≤ taikoCombined (fieldOps K) comb decay r rd c s := by
  unfold taikoCombined
  rw [weightedSum_eq_wsum]
  exact wsum_nonneg hd (fun x hx => (mem_taikoTermsOf.mp hx).2.le)

/-- … and it is positive exactly when some section has a positive combined peak. -/
theorem taikoCombined_pos_iff {decay : K} (hd : 0 ≤ decay) (comb : K → K → K → K → K)
    (r rd c s : List K) :
    0 < taikoCombined (fieldOps K) comb decay r rd c s ↔ ∃ a ∈ zip4With comb r rd c s, 0 < a := by
  unfold taikoCombined
  rw [weightedSum_eq_wsum]
  constructor
  · intro h
    cases hl : taikoTermsOf (fieldOps K) comb r rd c s with
    | nil => rw [hl] at h; simp [wsum] at h
    | cons a t =>
      have : a ∈ taikoTermsOf (fieldOps K) comb r rd c s := by rw [hl]; simp
      exact ⟨a, (mem_taikoTermsOf.mp this).1, (mem_taikoTermsOf.mp this).2⟩
  · rintro ⟨a, ha, hpos⟩
    have hmem : a ∈ taikoTermsOf (fieldOps K) comb r rd c s := mem_taikoTermsOf.mpr ⟨ha, hpos⟩
    have hall : ∀ x ∈ taikoTermsOf (fieldOps K) comb r rd c s, 0 < x :=
      fun x hx => (mem_taikoTermsOf.mp hx).2
    generalize taikoTermsOf (fieldOps K) comb r rd c s = l at hmem hall
    cases l with
    | nil => simp at hmem
    | cons b t =>
      have hb : 0 < b := hall b (by simp)
      have := head_le_wsum hd (s := b) (t := t) (fun x hx => (hall x (by simp [hx])).le)
      linarith

theorem taikoCombined_le {decay M : K} (hd : 0 ≤ decay) (hd1 : decay < 1) (hM : 0 ≤ M)
    (comb : K → K → K → K → K) (r rd c s : List K) (h : ∀ a ∈ zip4With comb r rd c s, a ≤ M) :
    taikoCombined (fieldOps K) comb decay r rd c s ≤ M / (1 - decay) := by
  unfold taikoCombined
  rw [weightedSum_eq_wsum]
  exact wsum_le_bound hd hd1 hM (fun x hx => h x (mem_taikoTermsOf.mp hx).1)

theorem taikoCombined_perm_field (comb : K → K → K → K → K) (decay : K)
    {r rd c s r' rd' c' s' : List K}
    (h : ((((r.zip rd).zip c).zip s)).Perm ((((r'.zip rd').zip c').zip s'))) :
    taikoCombined (fieldOps K) comb decay r rd c s
      = taikoCombined (fieldOps K) comb decay r' rd' c' s' := by
  unfold taikoCombined taikoTermsOf
  rw [zip4With_eq_map_zip, zip4With_eq_map_zip, sortDesc_field_perm ((h.map _).filter _)]

end Rosu.Agg
