import RosuModel.Lemmas.PerfCalcReal
import Mathlib.Tactic.Linarith
import Mathlib.Tactic.Ring
import Mathlib.Tactic.NormNum
import Mathlib.Tactic.Positivity

/-!
# A verified interval-Horner checker over ℚ, and the bridge from `evalPoly` on the generated tables

`hornerBounds cs lo hi` evaluates the polynomial `Σ csᵢ xⁱ` in interval arithmetic on `[lo, hi]` with `0 ≤ lo`
(each Horner step multiplies the interval of the tail by `[lo, hi]`: the sign of the tail's bound decides which
endpoint is used).  `hornerBounds_sound`: the real polynomial lies between the two rational bounds for every real
`x ∈ [lo, hi]`.  A sign fact about a branch polynomial of `erf_imp` / `erf_inv_impl` is then a closed inequality
between rationals (`by decide +kernel` / `norm_num`).
-/
namespace Rosu.PerfCalc
open Rosu.Gen.PerfConsts

/-- exact value of a generated decimal literal -/
def dq (d : DLit) : ℚ := (if d.1 then -1 else 1) * ((d.2.1 : ℚ) / (10 : ℚ) ^ d.2.2)

/-- `Σ csᵢ xⁱ` -/
def polyR (cs : List ℚ) (x : ℝ) : ℝ := cs.foldr (fun c acc => (c : ℝ) + x * acc) 0

/-- one interval-Horner step -/
def hornerStep (lo hi c : ℚ) (b : ℚ × ℚ) : ℚ × ℚ :=
  (c + (if 0 ≤ b.1 then lo * b.1 else hi * b.1), c + (if 0 ≤ b.2 then hi * b.2 else lo * b.2))

/-- (lower, upper) bound of `polyR cs` on `[lo, hi]`, `0 ≤ lo` -/
def hornerBounds (cs : List ℚ) (lo hi : ℚ) : ℚ × ℚ := cs.foldr (hornerStep lo hi) (0, 0)

theorem hornerBounds_sound (cs : List ℚ) (lo hi : ℚ) (h0 : 0 ≤ lo) (x : ℝ) (hl : (lo : ℝ) ≤ x) (hh : x ≤ (hi : ℝ)) :
    ((hornerBounds cs lo hi).1 : ℝ) ≤ polyR cs x ∧ polyR cs x ≤ ((hornerBounds cs lo hi).2 : ℝ) := by
  have hx0 : (0 : ℝ) ≤ x := le_trans (by exact_mod_cast h0) hl
  induction cs with
  | nil => simp [hornerBounds, polyR]
  | cons c t ih =>
    obtain ⟨ihl, ihu⟩ := ih
    have e1 : hornerBounds (c :: t) lo hi = hornerStep lo hi c (hornerBounds t lo hi) := rfl
    have e2 : polyR (c :: t) x = (c : ℝ) + x * polyR t x := rfl
    rw [e1, e2]
    unfold hornerStep
    constructor
    · simp only
      split
      · rename_i hb
        have hb' : (0 : ℝ) ≤ ((hornerBounds t lo hi).1 : ℝ) := by exact_mod_cast hb
        push_cast
        have : (lo : ℝ) * ((hornerBounds t lo hi).1 : ℝ) ≤ x * polyR t x :=
          le_trans (mul_le_mul_of_nonneg_right hl hb') (mul_le_mul_of_nonneg_left ihl hx0)
        linarith
      · rename_i hb
        have hb' : ((hornerBounds t lo hi).1 : ℝ) ≤ 0 := by
          have : (hornerBounds t lo hi).1 < 0 := not_le.mp hb
          exact_mod_cast this.le
        push_cast
        have : (hi : ℝ) * ((hornerBounds t lo hi).1 : ℝ) ≤ x * polyR t x :=
          le_trans (mul_le_mul_of_nonpos_right hh hb') (mul_le_mul_of_nonneg_left ihl hx0)
        linarith
    · simp only
      split
      · rename_i hb
        have hb' : (0 : ℝ) ≤ ((hornerBounds t lo hi).2 : ℝ) := by exact_mod_cast hb
        push_cast
        have : x * polyR t x ≤ (hi : ℝ) * ((hornerBounds t lo hi).2 : ℝ) :=
          le_trans (mul_le_mul_of_nonneg_left ihu hx0) (mul_le_mul_of_nonneg_right hh hb')
        linarith
      · rename_i hb
        have hb' : ((hornerBounds t lo hi).2 : ℝ) ≤ 0 := by
          have : (hornerBounds t lo hi).2 < 0 := not_le.mp hb
          exact_mod_cast this.le
        push_cast
        have : x * polyR t x ≤ (lo : ℝ) * ((hornerBounds t lo hi).2 : ℝ) :=
          le_trans (mul_le_mul_of_nonneg_left ihu hx0) (mul_le_mul_of_nonpos_right hl hb')
        linarith

/-! ## `evalPoly` is `polyR` -/

theorem polyR_append (a : List ℚ) (c : ℚ) (x : ℝ) : polyR (a ++ [c]) x = polyR a x + x ^ a.length * c := by
  induction a with
  | nil => simp [polyR]
  | cons d t ih =>
    have e : polyR (d :: (t ++ [c])) x = (d : ℝ) + x * polyR (t ++ [c]) x := rfl
    have e' : polyR (d :: t) x = (d : ℝ) + x * polyR t x := rfl
    rw [List.cons_append, e, ih, e', List.length_cons, pow_succ]
    ring

theorem foldl_horner (x : ℝ) : ∀ (rest : List ℚ) (s : ℝ),
    rest.foldl (fun (sum : ℝ) (c : ℚ) => sum * x + (c : ℝ)) s = polyR rest.reverse x + x ^ rest.length * s
  | [], s => by simp [polyR]
  | c :: t, s => by
    rw [List.foldl_cons, foldl_horner x t, List.reverse_cons, polyR_append, List.length_reverse, List.length_cons,
      pow_succ]
    ring

theorem ofSci_true (m e : ℕ) : (OfScientific.ofScientific m true e : ℝ) = (m : ℝ) / (10 : ℝ) ^ e := by
  rw [NNRatCast.ofScientific_eq_ite, if_pos rfl]
  simp [NNRat.cast_divNat]

theorem dval_real (d : DLit) : (dval d : ℝ) = ((dq d : ℚ) : ℝ) := by
  unfold dval dq
  simp only [r_lit, ofSci_true]
  split <;> simp [r_neg]

theorem evalPoly_real (z : ℝ) (qs : List ℚ) :
    evalPoly z (qs.map (fun (q : ℚ) => (q : ℝ))) = polyR qs z := by
  unfold evalPoly
  rw [← List.map_reverse]
  cases hq : qs.reverse with
  | nil =>
    have : qs = [] := by simpa using hq
    subst this
    show (0.0 : ℝ) = polyR [] z
    simp only [polyR, List.foldr_nil, r_lit]
    norm_num
  | cons last rest =>
    have hqs : qs = rest.reverse ++ [last] := by
      have := congrArg List.reverse hq
      simpa using this
    rw [List.map_cons]
    simp only []
    rw [List.foldl_map]
    have hf : (fun (sum : ℝ) (c : ℚ) => sum * z + (c : ℝ)) = fun (sum : ℝ) (c : ℚ) => (sum * z) + (c : ℝ) := rfl
    show List.foldl (fun (sum : ℝ) (c : ℚ) => sum * z + (c : ℝ)) (last : ℝ) rest = polyR qs z
    rw [foldl_horner, hqs, polyR_append, List.length_reverse]

theorem evalPoly_tbl (z : ℝ) (l : List DLit) : evalPoly z (tbl l) = polyR (l.map dq) z := by
  rw [← evalPoly_real]
  congr 1
  unfold tbl
  rw [List.map_map]
  apply List.map_congr_left
  intro d _
  exact dval_real d

end Rosu.PerfCalc
