import RosuModel.Model.SkillOps
import RosuModel.Lemmas.Skill

/-!
Generic facts about the value-level section loop (`SkillOps.processAllV`), core Lean only:

* `processAllV_inv` — an invariant of the skill state and a predicate on strain values are
  preserved by the whole run: if `strain_value_at` and `calculate_initial_strain` only produce values
  satisfying `Pr`, every stored peak, the open section's peak satisfy `Pr` and every object strain satisfies `Po`.
* `processAllV_no_panic` — if `strain_value_at` cannot panic on states satisfying the invariant,
  the run cannot panic.
-/

namespace Rosu.SkillOps
open Rosu.Skill (Obj)

variable {R P σ : Type}

/-- every peak held by the section bookkeeping satisfies `Pr`, every object strain `Po`, the skill
state `Inv` -/
structure StateOK (Inv : σ → Prop) (Pr Po : R → Prop) (st : StateV R σ) : Prop where
  sk : Inv st.sk
  sectionPeak : Pr st.sectionPeak
  peaks : ∀ p ∈ st.peaks, Pr p
  objectStrains : ∀ p ∈ st.objectStrains, Po p

/-- what the invariant theorem needs to know about a skill -/
structure FnsOK (F : FnsV R P σ) (Inv : σ → Prop) (Pr Po : R → Prop) (ObjOK : Obj R P → Prop) : Prop where
  value : ∀ s o s' v, Inv s → ObjOK o → F.strainValueAt s o = some (s', v) → Inv s' ∧ Pr v ∧ Po v
  initial : ∀ s t o, Inv s → ObjOK o → Pr (F.initialStrain s t o)

theorem init_ok {Inv : σ → Prop} {Pr Po : R → Prop} (zero : R) (s0 : σ) (h0 : Pr zero) (hs : Inv s0) :
    StateOK Inv Pr Po (StateV.init zero s0) :=
  ⟨hs, h0, (by intro p hp; cases hp), (by intro p hp; cases hp)⟩

theorem sectionLoopV_inv (A : SecArith R) (F : FnsV R P σ) {Inv : σ → Prop} {Pr Po : R → Prop}
    {ObjOK : Obj R P → Prop} (hF : FnsOK F Inv Pr Po ObjOK) (o : Obj R P) (ho : ObjOK o) :
    ∀ (fuel : Nat) (st st' : StateV R σ), StateOK Inv Pr Po st → sectionLoopV A F o fuel st = some st' →
      StateOK Inv Pr Po st' ∧ st'.sk = st.sk := by
  intro fuel
  induction fuel with
  | zero =>
    intro st st' hst h
    unfold sectionLoopV at h
    split at h
    · cases h
    · cases h; exact ⟨hst, rfl⟩
  | succ n ih =>
    intro st st' hst h
    unfold sectionLoopV at h
    split at h
    · have hnew : StateOK Inv Pr Po
          { st with sectionPeak := F.initialStrain st.sk st.sectionEnd o,
                    sectionEnd := A.addSec st.sectionEnd,
                    peaks := st.peaks ++ [st.sectionPeak] } := by
        refine ⟨hst.sk, hF.initial _ _ _ hst.sk ho, ?_, hst.objectStrains⟩
        intro p hp
        simp only [List.mem_append, List.mem_singleton] at hp
        rcases hp with hp | hp
        · exact hst.peaks p hp
        · subst hp; exact hst.sectionPeak
      have := ih _ st' hnew h
      exact ⟨this.1, this.2⟩
    · cases h; exact ⟨hst, rfl⟩

theorem processV_inv (A : SecArith R) (fmax : R → R → R) (F : FnsV R P σ) {Inv : σ → Prop}
    {Pr Po : R → Prop} {ObjOK : Obj R P → Prop} (hF : FnsOK F Inv Pr Po ObjOK)
    (hmax : ∀ a b, Pr a → Pr b → Pr (fmax a b)) (fuel : Nat) (st st' : StateV R σ) (o : Obj R P)
    (ho : ObjOK o) (hst : StateOK Inv Pr Po st) (h : processV A fmax F fuel st o = .ok st') :
    StateOK Inv Pr Po st' := by
  unfold processV at h
  have hst0 : StateOK Inv Pr Po (if o.idx = 0 then { st with sectionEnd := A.ceilSec o.startTime } else st) := by
    split
    · exact ⟨hst.sk, hst.sectionPeak, hst.peaks, hst.objectStrains⟩
    · exact hst
  revert h
  generalize (if o.idx = 0 then { st with sectionEnd := A.ceilSec o.startTime } else st) = st0 at hst0
  intro h
  simp only at h
  cases hl : sectionLoopV A F o fuel st0 with
  | none => rw [hl] at h; cases h
  | some st1 =>
    rw [hl] at h
    obtain ⟨h1, _⟩ := sectionLoopV_inv A F hF o ho fuel st0 st1 hst0 hl
    simp only at h
    cases hv : F.strainValueAt st1.sk o with
    | none => rw [hv] at h; cases h
    | some r =>
      rw [hv] at h
      simp only [Res.ok.injEq] at h
      subst h
      obtain ⟨hi, hp, hpo⟩ := hF.value _ _ r.1 r.2 h1.sk ho (by rw [hv])
      refine ⟨hi, hmax _ _ hp h1.sectionPeak, h1.peaks, ?_⟩
      intro p hp'
      simp only [List.mem_append, List.mem_singleton] at hp'
      rcases hp' with hp' | hp'
      · exact h1.objectStrains p hp'
      · subst hp'; exact hpo

/-- **Invariant theorem of the section loop.** -/
theorem processAllV_inv (A : SecArith R) (fmax : R → R → R) (F : FnsV R P σ) {Inv : σ → Prop}
    {Pr Po : R → Prop} {ObjOK : Obj R P → Prop} (hF : FnsOK F Inv Pr Po ObjOK)
    (hmax : ∀ a b, Pr a → Pr b → Pr (fmax a b)) (fuel : Nat) :
    ∀ (os : List (Obj R P)) (st st' : StateV R σ), (∀ o ∈ os, ObjOK o) → StateOK Inv Pr Po st →
      processAllV A fmax F fuel st os = .ok st' → StateOK Inv Pr Po st' := by
  intro os
  induction os with
  | nil =>
    intro st st' _ hst h
    unfold processAllV at h
    cases h; exact hst
  | cons o os ih =>
    intro st st' hos hst h
    unfold processAllV at h
    cases hp : processV A fmax F fuel st o with
    | ok st1 =>
      rw [hp] at h
      exact ih st1 st' (fun o' ho' => hos o' (List.mem_cons_of_mem _ ho'))
        (processV_inv A fmax F hF hmax fuel st st1 o (hos o (List.mem_cons_self)) hst hp) h
    | panic => rw [hp] at h; cases h
    | fuel => rw [hp] at h; cases h

/-- **No panic.**  If `strain_value_at` succeeds on every state satisfying the invariant, the run
ends with `ok` or with exhausted fuel. -/
theorem processAllV_no_panic (A : SecArith R) (fmax : R → R → R) (F : FnsV R P σ) {Inv : σ → Prop}
    {Pr Po : R → Prop} {ObjOK : Obj R P → Prop} (hF : FnsOK F Inv Pr Po ObjOK)
    (hmax : ∀ a b, Pr a → Pr b → Pr (fmax a b))
    (hsafe : ∀ s o, Inv s → ObjOK o → (F.strainValueAt s o).isSome) (fuel : Nat) :
    ∀ (os : List (Obj R P)) (st : StateV R σ), (∀ o ∈ os, ObjOK o) → StateOK Inv Pr Po st →
      processAllV A fmax F fuel st os ≠ .panic := by
  intro os
  induction os with
  | nil => intro st _ _ h; unfold processAllV at h; cases h
  | cons o os ih =>
    intro st hos hst h
    unfold processAllV at h
    cases hp : processV A fmax F fuel st o with
    | ok st1 =>
      rw [hp] at h
      exact ih st1 (fun o' ho' => hos o' (List.mem_cons_of_mem _ ho'))
        (processV_inv A fmax F hF hmax fuel st st1 o (hos o (List.mem_cons_self)) hst hp) h
    | fuel => rw [hp] at h; cases h
    | panic =>
      -- `processV` panics only when `strainValueAt` does
      unfold processV at hp
      have hst0 : StateOK Inv Pr Po (if o.idx = 0 then { st with sectionEnd := A.ceilSec o.startTime } else st) := by
        split
        · exact ⟨hst.sk, hst.sectionPeak, hst.peaks, hst.objectStrains⟩
        · exact hst
      revert hp
      generalize (if o.idx = 0 then { st with sectionEnd := A.ceilSec o.startTime } else st) = st0 at hst0
      intro hp
      simp only at hp
      cases hl : sectionLoopV A F o fuel st0 with
      | none => rw [hl] at hp; cases hp
      | some st1 =>
        rw [hl] at hp
        obtain ⟨h1, _⟩ := sectionLoopV_inv A F hF o (hos o (List.mem_cons_self)) fuel st0 st1 hst0 hl
        have hs := hsafe st1.sk o h1.sk (hos o (List.mem_cons_self))
        simp only at hp
        cases hv : F.strainValueAt st1.sk o with
        | none => rw [hv] at hs; cases hs
        | some r => rw [hv] at hp; cases hp

/-! ### locality -/

/-- running over `os₁ ++ os₂` = running over `os₁`, then over `os₂` from the state reached -/
theorem processAllV_append (A : SecArith R) (fmax : R → R → R) (F : FnsV R P σ) (fuel : Nat) :
    ∀ (os₁ os₂ : List (Obj R P)) (st : StateV R σ),
      processAllV A fmax F fuel st (os₁ ++ os₂)
        = (processAllV A fmax F fuel st os₁).bind fun st' => processAllV A fmax F fuel st' os₂ := by
  intro os₁
  induction os₁ with
  | nil => intro os₂ st; simp [processAllV, Res.bind]
  | cons o os ih =>
    intro os₂ st
    simp only [List.cons_append, processAllV]
    cases processV A fmax F fuel st o with
    | ok st1 => exact ih os₂ st1
    | panic => rfl
    | fuel => rfl

/-- one `process` call appends exactly one object strain and keeps the stored peaks as a prefix -/
theorem processV_grows (A : SecArith R) (fmax : R → R → R) (F : FnsV R P σ) (fuel : Nat)
    (st st' : StateV R σ) (o : Obj R P) (h : processV A fmax F fuel st o = .ok st') :
    ∃ v, st'.objectStrains = st.objectStrains ++ [v] := by
  unfold processV at h
  revert h
  generalize hst0 : (if o.idx = 0 then { st with sectionEnd := A.ceilSec o.startTime } else st) = st0
  intro h
  have hobj : st0.objectStrains = st.objectStrains := by
    rw [← hst0]; split <;> rfl
  simp only at h
  cases hl : sectionLoopV A F o fuel st0 with
  | none => rw [hl] at h; cases h
  | some st1 =>
    rw [hl] at h
    have h1 : st1.objectStrains = st0.objectStrains := by
      clear h hst0 hobj
      induction fuel generalizing st0 with
      | zero =>
        unfold sectionLoopV at hl
        split at hl
        · cases hl
        · cases hl; rfl
      | succ n ih =>
        unfold sectionLoopV at hl
        split at hl
        · have := ih _ hl
          exact this
        · cases hl; rfl
    simp only at h
    cases hv : F.strainValueAt st1.sk o with
    | none => rw [hv] at h; cases h
    | some r =>
      rw [hv] at h
      simp only [Res.ok.injEq] at h
      subst h
      exact ⟨r.2, by simp only [h1, hobj]⟩

/-- **Locality of the skill.**  The strains of the first objects do not depend on later objects:
if the run over `os₁ ++ os₂` succeeds, so does the run over `os₁`, and its object strains are the
first `os₁.length` object strains of the long run. -/
theorem processAllV_prefix (A : SecArith R) (fmax : R → R → R) (F : FnsV R P σ) (fuel : Nat) :
    ∀ (os : List (Obj R P)) (st st' : StateV R σ), processAllV A fmax F fuel st os = .ok st' →
      ∃ vs, vs.length = os.length ∧ st'.objectStrains = st.objectStrains ++ vs := by
  intro os
  induction os with
  | nil => intro st st' h; unfold processAllV at h; cases h; exact ⟨[], rfl, by simp⟩
  | cons o os ih =>
    intro st st' h
    unfold processAllV at h
    cases hp : processV A fmax F fuel st o with
    | ok st1 =>
      rw [hp] at h
      obtain ⟨v, hv⟩ := processV_grows A fmax F fuel st st1 o hp
      obtain ⟨vs, hl, hvs⟩ := ih st1 st' h
      exact ⟨v :: vs, by simp [hl], by rw [hvs, hv]; simp⟩
    | panic => rw [hp] at h; cases h
    | fuel => rw [hp] at h; cases h

/-! ### the bit-level view -/

/-- the encoded concrete skill produces 64-bit patterns, as `Lemmas/Skill.lean` requires -/
theorem encFns_bounded (E : Enc R) (hE : ∀ x, E.enc x < Rosu.SV.TWO64) (A : SecArith R)
    (fmax : R → R → R) (F : FnsV R P σ) : Rosu.Skill.Bounded (encArith E A fmax) (encFns E F) where
  sv := by
    intro s o
    unfold encFns
    cases s with
    | none => simp [Rosu.SV.TWO64]
    | some s =>
      dsimp only
      cases F.strainValueAt s o with
      | none => simp [Rosu.SV.TWO64]
      | some r => exact hE _
  ini := by
    intro s t o
    unfold encFns
    cases s with
    | none => simp [Rosu.SV.TWO64]
    | some s => exact hE _
  fmax := fun _ _ _ _ => hE _

end Rosu.SkillOps
