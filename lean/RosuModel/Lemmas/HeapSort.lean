import RosuModel.Lemmas.LegacySort

/-!
# `heap_sort` (sort/mod.rs) sorts its range

Partial correctness of the literal model: whenever `heapSort gt l lo hi` returns, the keys at
positions `lo..=hi` are non-decreasing, positions outside the range are untouched and every key
inside the range comes from inside the range.  (That it does return on in-range arguments is
proved in `Lemmas/SortTotal.lean`.)

1-based heap index `k` lives at list position `lo + k - 1`.
-/

namespace Rosu.Sort

variable {α : Type}

/-- Key at a position (`0` outside the list). -/
def kv (key : α → Int) (l : List α) (p : Nat) : Int :=
  match l[p]? with
  | some x => key x
  | none => 0

/-- `gt` is "greater" for the total preorder induced by `key`. -/
structure KeyGt (key : α → Int) (gt : α → α → Bool) : Prop where
  gt_iff : ∀ x y, gt x y = true ↔ key y < key x

variable {key : α → Int} {gt : α → α → Bool}

theorem kv_of_get {l : List α} {p : Nat} {x : α} (h : l[p]? = some x) : kv key l p = key x := by
  simp [kv, h]

theorem swap?_kv {l l1 : List α} {a b : Nat} (hab : a ≠ b) (h : swap? l a b = some l1) :
    kv key l1 a = kv key l b ∧ kv key l1 b = kv key l a ∧
      (∀ p, p ≠ a → p ≠ b → kv key l1 p = kv key l p) ∧ l1.length = l.length := by
  unfold swap? at h
  split at h
  · next x y hx hy =>
    cases h
    rcases List.getElem?_eq_some_iff.mp hx with ⟨ha, _⟩
    rcases List.getElem?_eq_some_iff.mp hy with ⟨hb, _⟩
    refine ⟨?_, ?_, ?_, by simp⟩
    · have : ((l.set a y).set b x)[a]? = some y := by
        rw [List.getElem?_set_ne (fun e => hab e.symm), List.getElem?_set_self ha]
      rw [kv_of_get this, kv_of_get hy]
    · have : ((l.set a y).set b x)[b]? = some x := by
        rw [List.getElem?_set_self (by simpa using hb)]
      rw [kv_of_get this, kv_of_get hx]
    · intro p hpa hpb
      unfold kv
      rw [List.getElem?_set_ne (fun e => hpb e.symm), List.getElem?_set_ne (fun e => hpa e.symm)]
  · cases h

/-- What an in-place operation on the heap range `lo+1-1 .. lo+n-1` may do to the keys. -/
structure RangeKv (key : α → Int) (lo n : Nat) (l l' : List α) : Prop where
  len : l'.length = l.length
  out : ∀ p, (p < lo ∨ lo + n ≤ p) → kv key l' p = kv key l p
  inn : ∀ k, 1 ≤ k → k ≤ n → ∃ k', 1 ≤ k' ∧ k' ≤ n ∧ kv key l' (lo + k - 1) = kv key l (lo + k' - 1)

theorem RangeKv.refl (lo n : Nat) (l : List α) : RangeKv key lo n l l :=
  ⟨rfl, fun _ _ => rfl, fun k h1 h2 => ⟨k, h1, h2, rfl⟩⟩

theorem RangeKv.trans {lo n : Nat} {l l1 l2 : List α} (h1 : RangeKv key lo n l l1)
    (h2 : RangeKv key lo n l1 l2) : RangeKv key lo n l l2 := by
  refine ⟨h2.len.trans h1.len, fun p hp => (h2.out p hp).trans (h1.out p hp), ?_⟩
  intro k hk1 hk2
  obtain ⟨k', a, b, e⟩ := h2.inn k hk1 hk2
  obtain ⟨k'', a', b', e'⟩ := h1.inn k' a b
  exact ⟨k'', a', b', e.trans e'⟩

theorem RangeKv.mono {lo m n : Nat} {l l' : List α} (hmn : m ≤ n) (h : RangeKv key lo m l l') :
    RangeKv key lo n l l' := by
  refine ⟨h.len, fun p hp => h.out p (by omega), ?_⟩
  intro k hk1 hk2
  by_cases hkm : k ≤ m
  · obtain ⟨k', a, b, e⟩ := h.inn k hk1 hkm
    exact ⟨k', a, by omega, e⟩
  · exact ⟨k, hk1, hk2, h.out _ (by omega)⟩

theorem swap?_rangeKv {l l1 : List α} {lo n a b : Nat} (ha1 : 1 ≤ a) (ha2 : a ≤ n) (hb1 : 1 ≤ b)
    (hb2 : b ≤ n) (hab : a ≠ b) (h : swap? l (lo + a - 1) (lo + b - 1) = some l1) :
    RangeKv key lo n l l1 := by
  obtain ⟨e1, e2, e3, e4⟩ := swap?_kv (key := key) (by omega : lo + a - 1 ≠ lo + b - 1) h
  refine ⟨e4, fun p hp => e3 p (by omega) (by omega), ?_⟩
  intro k hk1 hk2
  by_cases ka : k = a
  · subst ka; exact ⟨b, hb1, hb2, e1⟩
  · by_cases kb : k = b
    · subst kb; exact ⟨a, ha1, ha2, e2⟩
    · exact ⟨k, hk1, hk2, e3 _ (by omega) (by omega)⟩

/-! ## `pickChild` -/

theorem pickChild_spec (hk : KeyGt key gt) {l : List α} {i n lo c : Nat} (hi : 1 ≤ i)
    (hin : i ≤ n / 2) (h : pickChild gt l i n lo = some c) :
    (c = 2 * i ∨ c = 2 * i + 1) ∧ c ≤ n ∧
      (∀ k, k ≤ n → k / 2 = i → kv key l (lo + k - 1) ≤ kv key l (lo + c - 1)) := by
  unfold pickChild at h
  split at h
  · next hlt =>
    split at h
    · next x y hx hy =>
      have hy' : l[lo + (2 * i + 1) - 1]? = some y := by
        have : lo + (2 * i + 1) - 1 = lo + 2 * i := by omega
        rw [this]; exact hy
      have kx := kv_of_get (key := key) hx
      have ky := kv_of_get (key := key) hy'
      by_cases hg : gt y x = true
      · simp only [hg, if_true, Option.some.injEq] at h
        subst h
        have := (hk.gt_iff y x).mp hg
        refine ⟨Or.inr rfl, by omega, ?_⟩
        intro k _ hk2
        have : k = 2 * i ∨ k = 2 * i + 1 := by omega
        rcases this with e | e
        · subst e; rw [kx, ky]; omega
        · subst e; exact Int.le_refl _
      · simp only [hg, Bool.false_eq_true, if_false, Option.some.injEq] at h
        subst h
        have : ¬ key x < key y := fun e => hg ((hk.gt_iff y x).mpr e)
        refine ⟨Or.inl rfl, by omega, ?_⟩
        intro k _ hk2
        have : k = 2 * i ∨ k = 2 * i + 1 := by omega
        rcases this with e | e
        · subst e; exact Int.le_refl _
        · subst e; rw [kx, ky]; omega
    · cases h
  · next hnlt =>
    cases h
    refine ⟨Or.inl rfl, by omega, ?_⟩
    intro k hkn hk2
    have : k = 2 * i := by omega
    subst this
    exact Int.le_refl _

/-! ## `down_heap` -/

theorem downHeap_range (hk : KeyGt key gt) :
    ∀ (fuel : Nat) (l : List α) (i n lo : Nat) (l' : List α), 1 ≤ i →
      downHeap gt fuel l i n lo = some l' → RangeKv key lo n l l' := by
  intro fuel
  induction fuel with
  | zero => intro l i n lo l' _ h; simp [downHeap] at h
  | succ fuel ih =>
    intro l i n lo l' hi h
    unfold downHeap at h
    split at h
    · next hin =>
      split at h
      · cases h
      · next c hc =>
        obtain ⟨hc1, hc2, _⟩ := pickChild_spec hk hi hin hc
        split at h
        · split at h
          · cases h; exact RangeKv.refl _ _ _
          · split at h
            · cases h
            · next l2 hsw =>
              have r1 : RangeKv key lo n l l2 :=
                swap?_rangeKv hi (by omega) (by omega) hc2 (by omega) hsw
              exact r1.trans (ih _ _ _ _ _ (by omega) h)
        · cases h
    · cases h; exact RangeKv.refl _ _ _

/-- Sift-down restores the heap property: if all parent/child pairs with parent `≥ s` are fine
except those whose parent is `i`, and the children of `i` are dominated by `i`'s parent, then
afterwards all pairs with parent `≥ s` are fine. -/
theorem downHeap_heap (hk : KeyGt key gt) :
    ∀ (fuel : Nat) (l : List α) (i n lo s : Nat) (l' : List α), 1 ≤ i → s ≤ i →
      (∀ k, 2 ≤ k → k ≤ n → s ≤ k / 2 → k / 2 ≠ i →
        kv key l (lo + k - 1) ≤ kv key l (lo + k / 2 - 1)) →
      (s ≤ i / 2 → ∀ c, c ≤ n → c / 2 = i → kv key l (lo + c - 1) ≤ kv key l (lo + i / 2 - 1)) →
      downHeap gt fuel l i n lo = some l' →
      ∀ k, 2 ≤ k → k ≤ n → s ≤ k / 2 → kv key l' (lo + k - 1) ≤ kv key l' (lo + k / 2 - 1) := by
  intro fuel
  induction fuel with
  | zero => intro l i n lo s l' _ _ _ _ h; simp [downHeap] at h
  | succ fuel ih =>
    intro l i n lo s l' hi hsi hA hB h
    unfold downHeap at h
    split at h
    · next hin =>
      split at h
      · cases h
      · next c hc =>
        obtain ⟨hc1, hc2, hc3⟩ := pickChild_spec hk hi hin hc
        have hci : c / 2 = i := by omega
        split at h
        · next x y hx hy =>
          have kx := kv_of_get (key := key) hx
          have ky := kv_of_get (key := key) hy
          split at h
          · next hge =>
            -- parent dominates the larger child: done
            cases h
            have hle : key y ≤ key x := by
              have : ¬ key x < key y := fun e => by
                have := (hk.gt_iff y x).mpr e
                simp [this] at hge
              omega
            intro k hk1 hk2 hk3
            by_cases hki : k / 2 = i
            · have := hc3 k hk2 hki
              rw [hki, kx]; rw [ky] at this; omega
            · exact hA k hk1 hk2 hk3 hki
          · next hlt =>
            have hlt' : key x < key y := by
              apply (hk.gt_iff y x).mp
              simpa using hlt
            split at h
            · cases h
            · next l2 hsw =>
              obtain ⟨e1, e2, e3, _⟩ :=
                swap?_kv (key := key) (by omega : lo + i - 1 ≠ lo + c - 1) hsw
              -- l2 at i = old c, l2 at c = old i
              apply ih l2 c n lo s l' (by omega) (by omega) ?_ ?_ h
              · intro k hk1 hk2 hk3 hkc
                by_cases hki : k / 2 = i
                · -- k is a child of i
                  rw [hki, e1, ky]
                  by_cases hkc' : k = c
                  · subst hkc'; rw [e2, kx]; omega
                  · rw [e3 _ (by omega) (by omega)]
                    have := hc3 k hk2 hki
                    rw [ky] at this; exact this
                · by_cases hk_i : k = i
                  · -- the pair (i/2, i)
                    subst hk_i
                    rw [e1, e3 _ (by omega) (by omega)]
                    exact hB hk3 c hc2 hci
                  · have hkc2 : k ≠ c := by
                      intro e; subst e; exact hki hci
                    rw [e3 _ (by omega) (by omega), e3 _ (by omega) (by omega)]
                    exact hA k hk1 hk2 hk3 hki
              · intro _ c' hc'1 hc'2
                rw [hci, e1, e3 _ (by omega) (by omega)]
                have := hA c' (by omega) hc'1 (by omega) (by omega)
                rw [hc'2] at this
                exact this
        · cases h
    · next hnin =>
      cases h
      intro k hk1 hk2 hk3
      exact hA k hk1 hk2 hk3 (by omega)

/-! ## build phase -/

theorem heapBuild_range (hk : KeyGt key gt) (n lo : Nat) :
    ∀ (k : Nat) (l l' : List α), heapBuild gt n lo k l = some l' → RangeKv key lo n l l' := by
  intro k
  induction k with
  | zero => intro l l' h; simp [heapBuild] at h; subst h; exact RangeKv.refl _ _ _
  | succ k ih =>
    intro l l' h
    unfold heapBuild at h
    split at h
    · cases h
    · next l2 hd => exact (downHeap_range hk _ _ _ _ _ _ (by omega) hd).trans (ih _ _ h)

theorem heapBuild_heap (hk : KeyGt key gt) (n lo : Nat) :
    ∀ (k : Nat) (l l' : List α),
      (∀ j, 2 ≤ j → j ≤ n → k + 1 ≤ j / 2 → kv key l (lo + j - 1) ≤ kv key l (lo + j / 2 - 1)) →
      heapBuild gt n lo k l = some l' →
      ∀ j, 2 ≤ j → j ≤ n → kv key l' (lo + j - 1) ≤ kv key l' (lo + j / 2 - 1) := by
  intro k
  induction k with
  | zero =>
    intro l l' hH h
    simp [heapBuild] at h; subst h
    intro j hj1 hj2
    exact hH j hj1 hj2 (by omega)
  | succ k ih =>
    intro l l' hH h
    unfold heapBuild at h
    split at h
    · cases h
    · next l2 hd =>
      apply ih l2 l' ?_ h
      exact downHeap_heap hk _ l (k + 1) n lo (k + 1) l2 (by omega) (by omega)
        (fun j hj1 hj2 hj3 hj4 => hH j hj1 hj2 (by omega))
        (fun hs => by omega) hd

/-! ## extract phase -/

/-- In a heap the root carries a maximal key. -/
theorem heap_root_max {l : List α} {lo m : Nat}
    (hH : ∀ j, 2 ≤ j → j ≤ m → kv key l (lo + j - 1) ≤ kv key l (lo + j / 2 - 1)) :
    ∀ j, 1 ≤ j → j ≤ m → kv key l (lo + j - 1) ≤ kv key l (lo + 1 - 1) := by
  intro j
  induction j using Nat.strongRecOn with
  | _ j ih =>
    intro hj1 hj2
    by_cases h1 : j = 1
    · subst h1; exact Int.le_refl _
    · have h2 := hH j (by omega) hj2
      have h3 := ih (j / 2) (by omega) (by omega) (by omega)
      omega

/-- Invariant of the second loop with heap size `m`. -/
structure ExtractInv (key : α → Int) (lo n m : Nat) (l : List α) : Prop where
  heap : ∀ j, 2 ≤ j → j ≤ m → kv key l (lo + j - 1) ≤ kv key l (lo + j / 2 - 1)
  suffix : ∀ p q, m < p → p < q → q ≤ n → kv key l (lo + p - 1) ≤ kv key l (lo + q - 1)
  cross : ∀ p q, 1 ≤ p → p ≤ m → m < q → q ≤ n → kv key l (lo + p - 1) ≤ kv key l (lo + q - 1)

theorem heapExtract_range (hk : KeyGt key gt) (lo : Nat) :
    ∀ (k : Nat) (l l' : List α), heapExtract gt lo k l = some l' →
      RangeKv key lo (k + 1) l l' := by
  intro k
  induction k with
  | zero => intro l l' h; simp [heapExtract] at h; subst h; exact RangeKv.refl _ _ _
  | succ k ih =>
    intro l l' h
    unfold heapExtract at h
    split at h
    · cases h
    · next l1 hs =>
      split at h
      · cases h
      · next l2 hd =>
        have r1 : RangeKv key lo (k + 2) l l1 := by
          unfold swapNe at hs
          split at hs
          · have : lo = lo + 1 - 1 := by omega
            rw [this] at hs
            exact swap?_rangeKv (by omega) (by omega) (by omega) (by omega) (by omega) hs
          · cases hs; exact RangeKv.refl _ _ _
        have r2 : RangeKv key lo (k + 2) l1 l2 :=
          (downHeap_range hk _ _ _ _ _ _ (by omega) hd).mono (by omega)
        have r3 : RangeKv key lo (k + 2) l2 l' := (ih _ _ h).mono (by omega)
        exact (r1.trans r2).trans r3

theorem heapExtract_sorted (hk : KeyGt key gt) (lo n : Nat) :
    ∀ (k : Nat) (l l' : List α), k + 1 ≤ n → ExtractInv key lo n (k + 1) l →
      heapExtract gt lo k l = some l' →
      ∀ p q, 1 ≤ p → p < q → q ≤ n → kv key l' (lo + p - 1) ≤ kv key l' (lo + q - 1) := by
  intro k
  induction k with
  | zero =>
    intro l l' _ hI h
    simp [heapExtract] at h; subst h
    intro p q hp hpq hq
    by_cases h1 : p = 1
    · subst h1; exact hI.cross 1 q (by omega) (by omega) (by omega) hq
    · exact hI.suffix p q (by omega) hpq hq
  | succ k ih =>
    intro l l' hkn hI h
    unfold heapExtract at h
    split at h
    · cases h
    · next l1 hs =>
      split at h
      · cases h
      · next l2 hd =>
        -- the swap of positions 1 and i = k + 2
        unfold swapNe at hs
        have hne : lo ≠ lo + (k + 2) - 1 := by omega
        simp only [ne_eq, hne, not_false_eq_true, if_true] at hs
        obtain ⟨e1, e2, e3, _⟩ := swap?_kv (key := key) hne hs
        have hroot := heap_root_max (key := key) hI.heap
        have hlo1 : lo + 1 - 1 = lo := by omega
        rw [hlo1] at hroot
        have rd := downHeap_range hk _ _ _ _ _ _ (by omega : 1 ≤ 1) hd
        -- heap on 1..k+1 after the sift-down
        have hheap2 : ∀ j, 2 ≤ j → j ≤ k + 1 →
            kv key l2 (lo + j - 1) ≤ kv key l2 (lo + j / 2 - 1) := by
          intro j hj1 hj2
          refine downHeap_heap hk _ l1 1 (k + 1) lo 1 l2 (by omega) (by omega) ?_ (fun hs => by omega)
            hd j hj1 hj2 (by omega)
          intro j hj1 hj2 _ hj4
          rw [e3 _ (by omega) (by omega), e3 _ (by omega) (by omega)]
          exact hI.heap j hj1 (by omega)
        apply ih l2 l' (by omega) ?_ h
        refine ⟨hheap2, ?_, ?_⟩
        · -- suffix k+2 .. n
          intro p q hp hpq hq
          rw [rd.out _ (by omega), rd.out _ (by omega)]
          by_cases hp2 : p = k + 2
          · subst hp2
            rw [e2, e3 _ (by omega) (by omega)]
            have := hI.cross 1 q (by omega) (by omega) (by omega) hq
            rw [hlo1] at this; exact this
          · rw [e3 _ (by omega) (by omega), e3 _ (by omega) (by omega)]
            exact hI.suffix p q (by omega) hpq hq
        · -- cross
          intro p q hp1 hp2 hq1 hq2
          obtain ⟨p', hp'1, hp'2, ep⟩ := rd.inn p hp1 hp2
          rw [ep, rd.out _ (by omega)]
          -- key of l1 at p' is a key of l at some position ≤ k + 2
          have hsrc : ∃ p'', 1 ≤ p'' ∧ p'' ≤ k + 2 ∧
              kv key l1 (lo + p' - 1) = kv key l (lo + p'' - 1) := by
            by_cases h1 : p' = 1
            · subst h1; rw [hlo1, e1]; exact ⟨k + 2, by omega, by omega, rfl⟩
            · exact ⟨p', hp'1, by omega, e3 _ (by omega) (by omega)⟩
          obtain ⟨p'', hp''1, hp''2, es⟩ := hsrc
          rw [es]
          by_cases hq3 : q = k + 2
          · subst hq3
            rw [e2]
            exact hroot p'' hp''1 hp''2
          · rw [e3 _ (by omega) (by omega)]
            exact hI.cross p'' q hp''1 hp''2 (by omega) hq2

/-! ## `heap_sort` -/

/-- `heap_sort(keys, lo, hi)`: afterwards the keys at `lo..=hi` are non-decreasing, the rest of the
list is untouched, and every key in the range comes from the range. -/
theorem heapSort_sorted (hk : KeyGt key gt) {l l' : List α} {lo hi : Nat}
    (h : heapSort gt l lo hi = some l') :
    lo ≤ hi ∧ RangeKv key lo (hi - lo + 1) l l' ∧
      ∀ p q, lo ≤ p → p < q → q ≤ hi → kv key l' p ≤ kv key l' q := by
  unfold heapSort at h
  split at h
  · cases h
  · next hle =>
    simp only at h
    split at h
    · cases h
    · next l2 hb =>
      have hlohi : lo ≤ hi := by omega
      have r1 := heapBuild_range hk _ _ _ _ _ hb
      have hheap := heapBuild_heap hk (hi - lo + 1) lo _ l l2 (fun j _ hj2 hj3 => by omega) hb
      have hn : hi - lo + 1 - 1 + 1 = hi - lo + 1 := by omega
      have r2 := heapExtract_range hk lo _ _ _ h
      rw [hn] at r2
      refine ⟨hlohi, r1.trans r2, ?_⟩
      have hI : ExtractInv key lo (hi - lo + 1) (hi - lo + 1 - 1 + 1) l2 := by
        rw [hn]
        exact ⟨hheap, fun p q hp hpq hq => by omega, fun p q _ hp hq hq2 => by omega⟩
      have hs := heapExtract_sorted hk lo (hi - lo + 1) _ l2 l' (by omega) hI h
      intro p q hp hpq hq
      have := hs (p - lo + 1) (q - lo + 1) (by omega) (by omega) (by omega)
      have e1 : lo + (p - lo + 1) - 1 = p := by omega
      have e2 : lo + (q - lo + 1) - 1 = q := by omega
      rw [e1, e2] at this
      exact this

theorem heapSort_single {l l' : List α} {lo : Nat} (h : heapSort gt l lo lo = some l') : l' = l := by
  unfold heapSort at h
  simp [heapBuild, heapExtract] at h
  exact h.symm

theorem heapSort_inrange (hk : KeyGt key gt) {l l' : List α} {lo hi : Nat}
    (h : heapSort gt l lo hi = some l') (hlt : lo < hi) : hi < l.length := by
  unfold heapSort at h
  split at h
  · cases h
  · simp only at h
    split at h
    · cases h
    · next l2 hb =>
      have r1 := heapBuild_range hk _ _ _ _ _ hb
      obtain ⟨k, hk'⟩ : ∃ k, hi - lo + 1 - 1 = k + 1 := ⟨hi - lo - 1, by omega⟩
      rw [hk'] at h
      unfold heapExtract at h
      split at h
      · cases h
      · next l3 hs =>
        unfold swapNe at hs
        have hne : lo ≠ lo + (k + 2) - 1 := by omega
        simp only [ne_eq, hne, not_false_eq_true, if_true] at hs
        unfold swap? at hs
        split at hs
        · next x y hx hy =>
          rcases List.getElem?_eq_some_iff.mp hy with ⟨hb', _⟩
          rw [r1.len] at hb'
          omega
        · cases hs

/-- On a list whose `f ∘ key` values are already non-decreasing (`f` monotone; `f = norm` for the
numeric order of start times) `heap_sort` leaves the sequence of `f ∘ key` values unchanged. -/
theorem heapSort_keeps_sorted_keys [DecidableEq α] (hk : KeyGt key gt) (f : Int → Int)
    (hf : ∀ a b, a ≤ b → f a ≤ f b) {l l' : List α} {lo hi : Nat}
    (hs : (l.map (fun x => f (key x))).Pairwise (· ≤ ·)) (h : heapSort gt l lo hi = some l') :
    l'.map (fun x => f (key x)) = l.map (fun x => f (key x)) := by
  obtain ⟨hle, hr, hsorted⟩ := heapSort_sorted hk h
  by_cases hlt : lo < hi
  · have hin := heapSort_inrange hk h hlt
    have hperm : (l'.map (fun x => f (key x))).Perm (l.map (fun x => f (key x))) :=
      (heapSort_perm h).map _
    refine List.Perm.eq_of_pairwise (le := (· ≤ ·)) (fun a b _ _ h1 h2 => by omega) ?_ hs hperm
    -- the old list in terms of kv
    have hS : ∀ i j, i < j → j < l.length → f (kv key l i) ≤ f (kv key l j) := by
      intro i j hij hj
      rw [List.pairwise_iff_getElem] at hs
      have := hs i j (by simpa using (by omega : i < l.length)) (by simpa using hj) hij
      have hi' : i < l.length := by omega
      simpa [kv, List.getElem?_eq_getElem hi', List.getElem?_eq_getElem hj] using this
    rw [List.pairwise_iff_getElem]
    intro i j hi' hj' hij
    have hil : i < l'.length := by simpa using hi'
    have hjl : j < l'.length := by simpa using hj'
    have ei : (l'.map (fun x => f (key x)))[i] = f (kv key l' i) := by
      simp [kv, List.getElem?_eq_getElem hil]
    have ej : (l'.map (fun x => f (key x)))[j] = f (kv key l' j) := by
      simp [kv, List.getElem?_eq_getElem hjl]
    rw [ei, ej]
    have hlen := hr.len
    -- where do positions i and j of l' come from?
    have src : ∀ p, p < l'.length → ∃ q, q < l.length ∧ kv key l' p = kv key l q ∧
        ((p < lo → q = p) ∧ (hi < p → q = p) ∧ (lo ≤ p → p ≤ hi → lo ≤ q ∧ q ≤ hi)) := by
      intro p hp
      by_cases h1 : p < lo
      · exact ⟨p, by omega, hr.out p (Or.inl h1), fun _ => rfl, fun _ => rfl, fun _ _ => by omega⟩
      · by_cases h2 : hi < p
        · exact ⟨p, by omega, hr.out p (Or.inr (by omega)), fun _ => rfl, fun _ => rfl,
            fun _ _ => by omega⟩
        · obtain ⟨k', a, b, e⟩ := hr.inn (p - lo + 1) (by omega) (by omega)
          have e1 : lo + (p - lo + 1) - 1 = p := by omega
          rw [e1] at e
          exact ⟨lo + k' - 1, by omega, e, fun _ => by omega, fun _ => by omega,
            fun _ _ => by omega⟩
    by_cases hin2 : lo ≤ i ∧ j ≤ hi
    · exact hf _ _ (hsorted i j hin2.1 hij hin2.2)
    · obtain ⟨qi, hqi, eqi, ai, bi, ci⟩ := src i hil
      obtain ⟨qj, hqj, eqj, aj, bj, cj⟩ := src j hjl
      rw [eqi, eqj]
      have hq : qi < qj := by
        by_cases h1 : i < lo
        · have := ai h1
          by_cases h2 : j < lo
          · have := aj h2; omega
          · by_cases h3 : hi < j
            · have := bj h3; omega
            · have := cj (by omega) (by omega); omega
        · by_cases h3 : hi < j
          · have := bj h3
            by_cases h4 : hi < i
            · have := bi h4; omega
            · have := ci (by omega) (by omega); omega
          · omega
      exact hS qi qj hq hqj
  · have : lo = hi := by omega
    subst this
    rw [heapSort_single h]

end Rosu.Sort
