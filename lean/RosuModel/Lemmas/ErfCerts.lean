import RosuModel.Lemmas.ErfPoly

/-!
# Polynomial certificates for `erf_imp` / `erf_inv_impl` (closed rational checks, `decide +kernel`)

For every branch the facts are about the branch's numerator `P` and denominator `Q` (generated coefficient tables,
exact rationals) on the branch's argument interval `[0, w]` (`xs = z − shift`):

* `erf_imp` rows B…N (`0.5 ≤ z < 110`, result `g·(b + P/Q)` with `g = exp(−z²)/z`): `Q > 0` (the division's side
  condition), `b·Q + P > 0` (so `b + P/Q > 0`) and `(b − z)·Q + P < 0` (so `b + P/Q < z`);
* `erf_imp` row A (`z < 0.5`, result `z·(1.125 + P/Q)`): `Q > 0`, `1.125·Q + P > 0`;
* `erf_inv_impl` rows A…F (result `g·(Y + P/Q)` resp. `g/(Y + P/Q)`): `Q > 0`, `Y·Q + P > 0`.

Each is ONE interval-Horner evaluation (no subdivision needed) of a combined coefficient list.
-/
namespace Rosu.PerfCalc
open Rosu.Gen.PerfConsts

/-! ## coefficient-list arithmetic -/

def padd : List ℚ → List ℚ → List ℚ
  | [], b => b
  | a, [] => a
  | x :: a, y :: b => (x + y) :: padd a b

def pscale (k : ℚ) (a : List ℚ) : List ℚ := a.map (k * ·)

theorem polyR_cons (c : ℚ) (t : List ℚ) (x : ℝ) : polyR (c :: t) x = (c : ℝ) + x * polyR t x := rfl

theorem polyR_padd : ∀ (a b : List ℚ) (x : ℝ), polyR (padd a b) x = polyR a x + polyR b x
  | [], b, x => by simp [padd, polyR]
  | a :: t, [], x => by simp [padd, polyR]
  | c :: a, d :: b, x => by
    rw [padd, polyR_cons, polyR_cons, polyR_cons, polyR_padd a b x]
    push_cast
    ring

theorem polyR_pscale (k : ℚ) : ∀ (a : List ℚ) (x : ℝ), polyR (pscale k a) x = (k : ℝ) * polyR a x
  | [], x => by simp [pscale, polyR]
  | c :: a, x => by
    have : pscale k (c :: a) = (k * c) :: pscale k a := rfl
    rw [this, polyR_cons, polyR_cons, polyR_pscale k a x]
    push_cast
    ring

/-- `x · p(x)` -/
theorem polyR_shift (a : List ℚ) (x : ℝ) : polyR (0 :: a) x = x * polyR a x := by
  rw [polyR_cons]; simp

theorem poly_pos_of_cert (cs : List ℚ) (lo hi : ℚ) (h0 : 0 ≤ lo) (hc : 0 < (hornerBounds cs lo hi).1) (x : ℝ)
    (hl : (lo : ℝ) ≤ x) (hh : x ≤ (hi : ℝ)) : 0 < polyR cs x :=
  lt_of_lt_of_le (by exact_mod_cast hc) (hornerBounds_sound cs lo hi h0 x hl hh).1

theorem poly_neg_of_cert (cs : List ℚ) (lo hi : ℚ) (h0 : 0 ≤ lo) (hc : (hornerBounds cs lo hi).2 < 0) (x : ℝ)
    (hl : (lo : ℝ) ≤ x) (hh : x ≤ (hi : ℝ)) : polyR cs x < 0 :=
  lt_of_le_of_lt (hornerBounds_sound cs lo hi h0 x hl hh).2 (by exact_mod_cast hc)

/-! ## the checks -/

/-- `Q > 0` and `k·Q + P > 0` on `[0, w]` -/
def posCert (n d : List DLit) (k w : ℚ) : Bool :=
  decide (0 < (hornerBounds (d.map dq) 0 w).1)
    && decide (0 < (hornerBounds (padd (pscale k (d.map dq)) (n.map dq)) 0 w).1)

/-- additionally `(b − shift − xs)·Q + P < 0` on `[0, w]` -/
def upCert (n d : List DLit) (b shift w : ℚ) : Bool :=
  decide ((hornerBounds (padd (padd (pscale (b - shift) (d.map dq)) (pscale (-1) (0 :: d.map dq))) (n.map dq)) 0 w).2 < 0)

/-- what `posCert` establishes about the real polynomials -/
theorem posCert_sound (n d : List DLit) (k w : ℚ) (h : posCert n d k w = true) (xs : ℝ) (h0 : 0 ≤ xs)
    (hw : xs ≤ (w : ℝ)) :
    0 < evalPoly xs (tbl d) ∧ 0 < (k : ℝ) * evalPoly xs (tbl d) + evalPoly xs (tbl n) := by
  unfold posCert at h
  simp only [Bool.and_eq_true, decide_eq_true_eq] at h
  have h0' : ((0 : ℚ) : ℝ) ≤ xs := by simpa using h0
  rw [evalPoly_tbl, evalPoly_tbl]
  refine ⟨poly_pos_of_cert _ 0 w le_rfl h.1 xs h0' hw, ?_⟩
  have := poly_pos_of_cert _ 0 w le_rfl h.2 xs h0' hw
  rw [polyR_padd, polyR_pscale] at this
  exact this

theorem upCert_sound (n d : List DLit) (b shift w : ℚ) (h : upCert n d b shift w = true) (xs : ℝ) (h0 : 0 ≤ xs)
    (hw : xs ≤ (w : ℝ)) :
    ((b : ℝ) - shift - xs) * evalPoly xs (tbl d) + evalPoly xs (tbl n) < 0 := by
  unfold upCert at h
  simp only [decide_eq_true_eq] at h
  have h0' : ((0 : ℚ) : ℝ) ≤ xs := by simpa using h0
  have := poly_neg_of_cert _ 0 w le_rfl h xs h0' hw
  rw [polyR_padd, polyR_padd, polyR_pscale, polyR_pscale, polyR_shift] at this
  rw [evalPoly_tbl, evalPoly_tbl]
  push_cast at this
  linarith

/-- value of the `i`-th `b` constant of `erf_imp` / `Y` constant of `erf_inv_impl` -/
def bq (i : Nat) : ℚ := dq (erfImpB.getD i (false, 0, 0))
def yq (i : Nat) : ℚ := dq (erfInvY.getD i (false, 0, 0))

/-- the 13 rows of `erf_imp` for `0.5 ≤ z < 110`: (numerator, denominator, index of `b`, shift, width) -/
def erfRows : List (List DLit × List DLit × Nat × ℚ × ℚ) :=
  [(ERF_IMP_BN, ERF_IMP_BD, 0, 1/2, 1/4), (ERF_IMP_CN, ERF_IMP_CD, 1, 3/4, 1/2), (ERF_IMP_DN, ERF_IMP_DD, 2, 5/4, 1),
   (ERF_IMP_EN, ERF_IMP_ED, 3, 9/4, 5/4), (ERF_IMP_FN, ERF_IMP_FD, 4, 7/2, 7/4), (ERF_IMP_GN, ERF_IMP_GD, 5, 21/4, 11/4),
   (ERF_IMP_HN, ERF_IMP_HD, 6, 8, 7/2), (ERF_IMP_IN, ERF_IMP_ID, 7, 23/2, 11/2), (ERF_IMP_JN, ERF_IMP_JD, 8, 17, 7),
   (ERF_IMP_KN, ERF_IMP_KD, 9, 24, 14), (ERF_IMP_LN, ERF_IMP_LD, 10, 38, 22), (ERF_IMP_MN, ERF_IMP_MD, 11, 60, 25),
   (ERF_IMP_NN, ERF_IMP_ND, 12, 85, 25)]

/-- the rows of `erf_inv_impl` on their argument intervals: A `p ∈ [0, 0.5]`, B `q − 0.25 ∈ [0, 0.25]`,
C `x − 1.125 ∈ [0, 1.875]`, D `x − 3 ∈ [0, 3]`, E `x − 6 ∈ [0, 12]`, F `x − 18 ∈ [0, 26]` -/
def erfInvRows : List (List DLit × List DLit × Nat × ℚ) :=
  [(ERV_INV_IMP_AN, ERV_INV_IMP_AD, 0, 1/2), (ERV_INV_IMP_BN, ERV_INV_IMP_BD, 1, 1/4),
   (ERV_INV_IMP_CN, ERV_INV_IMP_CD, 2, 15/8), (ERV_INV_IMP_DN, ERV_INV_IMP_DD, 3, 3),
   (ERV_INV_IMP_EN, ERV_INV_IMP_ED, 4, 12), (ERV_INV_IMP_FN, ERV_INV_IMP_FD, 5, 26)]

theorem erf_rowA_cert : posCert ERF_IMP_AN ERF_IMP_AD (9/8) (1/2) = true := by decide +kernel

theorem erf_rows_cert :
    erfRows.all (fun r => posCert r.1 r.2.1 (bq r.2.2.1) r.2.2.2.2 && upCert r.1 r.2.1 (bq r.2.2.1) r.2.2.2.1 r.2.2.2.2)
      = true := by decide +kernel

theorem erfInv_rows_cert : erfInvRows.all (fun r => posCert r.1 r.2.1 (yq r.2.2.1) r.2.2.2) = true := by
  decide +kernel

end Rosu.PerfCalc
