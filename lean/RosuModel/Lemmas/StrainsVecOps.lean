import RosuModel.Lemmas.StrainsVec

/-!
Observers of the compact `StrainsVec`: iterator, `into_vec`, `retain_non_zero`, sorting,
in-place update, `sum`; operation sequences and the `has_zero` debug flag.
-/

namespace Rosu.SV

/-! ## `StrainsIter` -/

/-- What the iterator state still has to yield. -/
def remaining (c : Option Nat) (rest : List Nat) : List Nat := absList (c.toList ++ rest)

theorem head?_toList_append_tail (l : List Nat) : l.head?.toList ++ l.tail = l := by
  cases l <;> rfl

theorem expandEntry_run_pos {c : Nat} (hz : isZero c = true) (hp : 0 < zeroCount c) :
    expandEntry c = 0 :: expandEntry (decrZero c) := by
  have h1 : isZero (decrZero c) = true := by
    simp only [isZero_iff, zeroCount, decrZero, SIGN] at *; omega
  have h2 : zeroCount c = zeroCount (decrZero c) + 1 := by
    simp only [isZero_iff, zeroCount, decrZero, SIGN] at *; omega
  rw [expandEntry_run hz, expandEntry_run h1, h2, List.replicate_succ]

/-- One `next()` yields the head of what remains and leaves the tail; `len` is decremented
and underflows only if it was `0`. -/
theorem iterNext_spec (rest : List Nat) : ∀ (c : Option Nat) (len : Nat),
    (c = none → rest = []) →
    (remaining c rest = [] → iterNext c rest len = .done) ∧
    (∀ v vs, remaining c rest = v :: vs →
      (len = 0 → iterNext c rest len = .underflow) ∧
      (len ≠ 0 → ∃ it, iterNext c rest len = .item v it ∧ remaining it.curr it.rest = vs ∧
        it.len = len - 1 ∧ (it.curr = none → it.rest = []))) := by
  -- the two non-skipping branches, for any `rest`
  have value_case : ∀ (rest : List Nat) (c len : Nat), isValue c = true →
      (remaining (some c) rest = [] → iterNext (some c) rest len = .done) ∧
      (∀ v vs, remaining (some c) rest = v :: vs →
        (len = 0 → iterNext (some c) rest len = .underflow) ∧
        (len ≠ 0 → ∃ it, iterNext (some c) rest len = .item v it ∧
          remaining it.curr it.rest = vs ∧ it.len = len - 1 ∧ (it.curr = none → it.rest = []))) := by
    intro rest c len hv
    have hr : remaining (some c) rest = c :: absList rest := by
      simp [remaining, absList, expandEntry_value hv]
    rw [hr]
    refine ⟨fun h => (nomatch h), fun v vs h => ?_⟩
    injection h with h1 h2
    subst h1 h2
    unfold iterNext
    rw [if_pos hv]
    refine ⟨fun h0 => by rw [if_pos h0], fun h0 => ?_⟩
    rw [if_neg h0]
    refine ⟨_, rfl, ?_, rfl, ?_⟩
    · simp [remaining, head?_toList_append_tail]
    · cases rest <;> simp
  have run_case : ∀ (rest : List Nat) (c len : Nat), isZero c = true → 0 < zeroCount c →
      (remaining (some c) rest = [] → iterNext (some c) rest len = .done) ∧
      (∀ v vs, remaining (some c) rest = v :: vs →
        (len = 0 → iterNext (some c) rest len = .underflow) ∧
        (len ≠ 0 → ∃ it, iterNext (some c) rest len = .item v it ∧
          remaining it.curr it.rest = vs ∧ it.len = len - 1 ∧ (it.curr = none → it.rest = []))) := by
    intro rest c len hz hp
    have hv : ¬ isValue c = true := by simp [isValue, hz]
    have hr : remaining (some c) rest = 0 :: remaining (some (decrZero c)) rest := by
      simp [remaining, absList, expandEntry_run_pos hz hp]
    rw [hr]
    refine ⟨fun h => (nomatch h), fun v vs h => ?_⟩
    injection h with h1 h2
    subst h1 h2
    unfold iterNext
    rw [if_neg hv, if_pos hp]
    refine ⟨fun h0 => by rw [if_pos h0], fun h0 => ?_⟩
    rw [if_neg h0]
    exact ⟨_, rfl, rfl, rfl, by simp⟩
  induction rest with
  | nil =>
    intro c len _
    cases c with
    | none => simp [remaining, absList, iterNext]
    | some c =>
      by_cases hv : isValue c = true
      · exact value_case [] c len hv
      · have hz : isZero c = true := by simpa [isValue] using hv
        by_cases hp : 0 < zeroCount c
        · exact run_case [] c len hz hp
        · have h0 : zeroCount c = 0 := by omega
          have hr : remaining (some c) [] = [] := by
            simp [remaining, absList, expandEntry_run hz, h0]
          rw [hr]
          refine ⟨fun _ => ?_, fun v vs h => nomatch h⟩
          unfold iterNext
          rw [if_neg hv, if_neg hp]
  | cons e es ih =>
    intro c len hc
    cases c with
    | none => simp at hc
    | some c =>
      by_cases hv : isValue c = true
      · exact value_case _ c len hv
      · have hz : isZero c = true := by simpa [isValue] using hv
        by_cases hp : 0 < zeroCount c
        · exact run_case _ c len hz hp
        · have h0 : zeroCount c = 0 := by omega
          have hr : remaining (some c) (e :: es) = remaining (some e) es := by
            simp [remaining, absList, expandEntry_run hz, h0]
          rw [hr]
          have := ih (some e) len (by simp)
          have hn : iterNext (some c) (e :: es) len = iterNext (some e) es len := by
            conv => lhs; unfold iterNext
            rw [if_neg hv, if_neg hp]
          rw [hn]
          exact this

/-- Driving the iterator to the end yields exactly the remaining abstract list, never
underflows `len` when `len ≥` what remains, and leaves `len` reduced by the number of items. -/
theorem collect_spec : ∀ (fuel : Nat) (it : Iter), (it.curr = none → it.rest = []) →
    (remaining it.curr it.rest).length ≤ it.len → (remaining it.curr it.rest).length < fuel →
    ∃ itf, Iter.collect fuel it = some (remaining it.curr it.rest, itf) ∧
      itf.len = it.len - (remaining it.curr it.rest).length := by
  intro fuel
  induction fuel with
  | zero => intro it _ _ h; omega
  | succ fuel ih =>
    intro it hc hlen hfuel
    have hs := iterNext_spec it.rest it.curr it.len hc
    unfold Iter.collect Iter.next
    cases hr : remaining it.curr it.rest with
    | nil =>
      rw [hs.1 hr]; exact ⟨it, rfl, by simp⟩
    | cons v vs =>
      rw [hr] at hlen hfuel
      simp only [List.length_cons] at hlen hfuel
      obtain ⟨it', h1, h2, h3, h4⟩ := (hs.2 v vs hr).2 (by omega)
      rw [h1]; simp only
      obtain ⟨itf, h5, h6⟩ := ih it' h4 (by rw [h2, h3]; omega) (by rw [h2]; omega)
      rw [h5]; simp only
      exact ⟨itf, by rw [h2], by rw [h6, h2, h3]; simp; omega⟩

/-- `vec.iter().collect()` is the represented list (for any `len ≥` represented length — in
particular also for the stale `len` after `retain_non_zero`). -/
theorem iterCollect_eq_abs (s : SVec) (h : (absList s.inner).length ≤ s.len) :
    s.iterCollect = some s.abs := by
  unfold SVec.iterCollect
  have hr : remaining (Iter.new s).curr (Iter.new s).rest = absList s.inner := by
    simp [remaining, Iter.new, head?_toList_append_tail]
  have hc : (Iter.new s).curr = none → (Iter.new s).rest = [] := by
    simp only [Iter.new]; cases s.inner <;> simp
  obtain ⟨itf, h1, _⟩ := collect_spec (s.len + 1) (Iter.new s) hc (by rw [hr]; exact h)
    (by rw [hr]; show _ < s.len + 1; omega)
  rw [h1, hr]; rfl

/-! ## `into_vec` -/

theorem copySlice_ok {slice : List Nat} {count : Nat} (dst : List Nat) (h : count ≤ slice.length) :
    copySlice slice count dst = some (dst ++ slice.take count) := by
  unfold copySlice
  by_cases h0 : count = 0
  · simp [h0]
  · rw [if_neg h0, if_pos h]

theorem take_succ_of_drop {slice : List Nat} {count e : Nat} {es : List Nat}
    (h : slice.drop count = e :: es) :
    slice.take (count + 1) = slice.take count ++ [e] ∧ slice.drop (count + 1) = es ∧
      count + 1 ≤ slice.length := by
  have hlt : count < slice.length := by
    rcases Nat.lt_or_ge count slice.length with h1 | h1
    · exact h1
    · rw [List.drop_of_length_le h1] at h; cases h
  have hget : slice[count]? = some e := by
    have := congrArg List.head? h
    simpa [List.head?_drop] using this
  refine ⟨?_, ?_, hlt⟩
  · rw [List.take_add_one, hget]; rfl
  · have : slice.drop (count + 1) = (slice.drop count).tail := by simp [List.tail_drop]
    rw [this, h]; rfl

/-- The loop of `into_vec`: with `slice = (count value entries) ++ rest` every raw slice stays
inside `slice` (`count ≤ slice.len()`), only value entries are reinterpreted as `f64`, and the
output is `dst` followed by what `slice[..count] ++ rest` represents. -/
theorem intoVecGo_spec (rest : List Nat) : ∀ (slice : List Nat) (count : Nat) (dst : List Nat),
    slice.drop count = rest → count ≤ slice.length →
    (∀ e ∈ slice.take count, isValue e = true) →
    intoVecGo slice count rest dst = some (dst ++ slice.take count ++ absList rest) := by
  induction rest with
  | nil =>
    intro slice count dst _ hc _
    simp [intoVecGo, copySlice_ok dst hc, absList]
  | cons e es ih =>
    intro slice count dst hd hc hv
    unfold intoVecGo
    by_cases hz : isZero e = true
    · rw [if_pos hz, copySlice_ok dst hc]
      simp only
      rw [ih es 0 _ rfl (by omega) (by simp)]
      simp [absList_cons, expandEntry_run hz, List.append_assoc]
    · rw [if_neg hz]
      obtain ⟨h1, h2, h3⟩ := take_succ_of_drop hd
      have hve : isValue e = true := by simpa [isValue] using hz
      rw [ih slice (count + 1) dst h2 h3 (by
        intro x hx; rw [h1] at hx
        rcases List.mem_append.mp hx with hx | hx
        · exact hv x hx
        · simp only [List.mem_singleton] at hx; subst hx; exact hve)]
      rw [h1, absList_cons, expandEntry_value hve]; simp [List.append_assoc]

/-- `into_vec` never builds an out-of-bounds raw slice and returns the represented list. -/
theorem intoVec_eq_abs (s : SVec) : s.intoVec = some s.abs := by
  unfold SVec.intoVec SVec.abs
  rw [intoVecGo_spec s.inner s.inner 0 [] rfl (by omega) (by simp)]
  simp

/-! ## `retain_non_zero`, sorting, update -/

theorem retain_all_values (s : SVec) : ∀ e ∈ s.retainNonZero.inner, isValue e = true := by
  intro e he; simp only [SVec.retainNonZero, List.mem_filter] at he; exact he.2

theorem tcKey_inj {a b : Nat} (ha : a < TWO64) (hb : b < TWO64) (h : tcKey a = tcKey b) : a = b := by
  unfold tcKey at h
  by_cases h1 : a < SIGN <;> by_cases h2 : b < SIGN <;> simp only [h1, h2, if_true, if_false] at h <;>
    simp only [TWO64, SIGN] at * <;> omega

theorem sortDescBits_perm (l : List Nat) : (sortDescBits l).Perm l := List.mergeSort_perm _ _

theorem sortDescBits_sorted (l : List Nat) :
    (sortDescBits l).Pairwise (fun a b => tcKey b ≤ tcKey a) := by
  have := List.pairwise_mergeSort (le := fun a b => decide (tcKey b ≤ tcKey a))
    (by intro a b c h1 h2; simp only [decide_eq_true_eq] at *; omega)
    (by intro a b; simp only [Bool.or_eq_true, decide_eq_true_eq]; omega) l
  simpa [sortDescBits] using this

theorem mem_sortDescBits {l : List Nat} {e : Nat} : e ∈ sortDescBits l ↔ e ∈ l :=
  (sortDescBits_perm l).mem_iff

/-- For value entries `total_cmp` order is the unsigned order of the bit patterns. -/
theorem tcKey_value {a : Nat} (h : isValue a = true) : tcKey a = (a : Int) := by
  rw [isValue_iff] at h; simp [tcKey, h]

/-- Sorting never creates run entries. -/
theorem sortDesc_all_values {l : List Nat} (h : ∀ e ∈ l, isValue e = true) :
    ∀ e ∈ sortDescBits l, isValue e = true := fun e he => h e (mem_sortDescBits.mp he)

theorem mem_mapPrefix {f : Nat → Nat → Nat} {k : Nat} {l : List Nat} {x : Nat}
    (h : x ∈ mapPrefix f k l) : ∃ e ∈ l, ∃ i, x = f i e ∨ x = e := by
  simp only [mapPrefix, List.mem_map] at h
  obtain ⟨⟨e, i⟩, hm, hx⟩ := h
  have := List.mem_zipIdx hm
  refine ⟨e, ?_, i, ?_⟩
  · rw [this.2.2]; exact List.getElem_mem _
  · simp only at hx; split at hx
    · exact Or.inl hx.symm
    · exact Or.inr hx.symm

/-- An in-place update that maps values to values (a positive factor, as in
`osu::…::strain::difficulty_value`) never creates a run entry. -/
theorem mapPrefix_all_values {f : Nat → Nat → Nat} {k : Nat} {l : List Nat}
    (hf : ∀ i e, isValue e = true → isValue (f i e) = true) (h : ∀ e ∈ l, isValue e = true) :
    ∀ e ∈ mapPrefix f k l, isValue e = true := by
  intro x hx
  obtain ⟨e, he, i, hx | hx⟩ := mem_mapPrefix hx
  · rw [hx]; exact hf i e (h e he)
  · rw [hx]; exact h e he

theorem mapPrefix_length (f : Nat → Nat → Nat) (k : Nat) (l : List Nat) :
    (mapPrefix f k l).length = l.length := by simp [mapPrefix]

/-- The entries `retain_non_zero` keeps are the non-zero elements of the represented list, in
order (needs: stored values are non-zero patterns, which `WF` guarantees). -/
theorem filter_isValue_eq_filter_abs {l : List Nat} (h : ∀ e ∈ l, EntryOK e) :
    l.filter isValue = (absList l).filter nonZeroBits := by
  induction l with
  | nil => rfl
  | cons e l ih =>
    rw [absList_cons, List.filter_append, ← ih (fun x hx => h x (by simp [hx]))]
    rcases h e (by simp) with hv | hr
    · have : isValue e = true := by rw [isValue_iff]; exact hv.2
      rw [List.filter_cons_of_pos this, expandEntry_value this]
      have : e ≠ 0 := by omega
      simp [nonZeroBits, this]
    · have hz : isZero e = true := by rw [isZero_iff]; omega
      have : isValue e = false := by simp [isValue, hz]
      rw [List.filter_cons_of_neg (by simp [this]), expandEntry_run hz]
      simp [nonZeroBits]

/-! ## operation sequences and the `has_zero` debug flag -/

inductive Op where
  | push (b : Nat)
  | retain
  | sortDesc
  /-- `sorted_non_zero_iter_mut()` + overwrite of the first `k` yielded references -/
  | update (f : Nat → Nat → Nat) (k : Nat)

def SVec.step (s : SVec) : Op → SVec
  | .push b => s.push b
  | .retain => s.retainNonZero
  | .sortDesc => s.sortDesc
  | .update f k => s.sortedNonZeroUpdate f k

def SVec.run (s : SVec) (ops : List Op) : SVec := ops.foldl SVec.step s

/-- The update functions used map values to values. -/
def Op.Sane : Op → Prop
  | .update f _ => ∀ i e, isValue e = true → isValue (f i e) = true
  | _ => True

/-- Invariant behind the debug flag: if `has_zero` is clear, no entry is a run. -/
def FlagSound (s : SVec) : Prop := s.hasZero = false → ∀ e ∈ s.inner, isValue e = true

theorem lastIsZero_mem {l : List Nat} (h : lastIsZero l = true) : ∃ e ∈ l, isZero e = true := by
  obtain ⟨l', e, rfl, hz, _⟩ := pushZero_of_lastIsZero h
  exact ⟨e, by simp, hz⟩

theorem step_flagSound {s : SVec} (h : FlagSound s) (op : Op) (hs : op.Sane) :
    FlagSound (s.step op) := by
  cases op with
  | push b =>
    show FlagSound (s.push b)
    unfold FlagSound SVec.push
    by_cases hv : isValueBits b = true
    · rw [if_pos hv]; intro hf e he
      rcases List.mem_append.mp he with he | he
      · exact h hf e he
      · simp only [List.mem_singleton] at he; subst he
        rw [isValue_iff]; exact ((isValueBits_iff e).mp hv).2
    · rw [if_neg hv]
      cases hl : lastIsZero s.inner with
      | true =>
        simp only [if_true]
        intro hf
        obtain ⟨e, he, hz⟩ := lastIsZero_mem hl
        have := h hf e he
        simp [isValue, hz] at this
      | false => simp
  | retain => intro _; exact retain_all_values s
  | sortDesc =>
    intro hf e he
    exact h hf e (mem_sortDescBits.mp he)
  | update f k =>
    intro _
    exact mapPrefix_all_values hs (sortDesc_all_values (retain_all_values s))

theorem run_flagSound (ops : List Op) : ∀ (s : SVec), FlagSound s → (∀ op ∈ ops, op.Sane) →
    FlagSound (s.run ops) := by
  induction ops with
  | nil => intro s h _; exact h
  | cons op ops ih =>
    intro s h hs
    exact ih (s.step op) (step_flagSound h op (hs op (by simp))) (fun o ho => hs o (by simp [ho]))

/-- Call discipline documented on the methods: `sort_desc` (and `transmute_into_vec`) only when
no `push` happened since the last `retain_non_zero` / `sorted_non_zero_iter_mut`.
`clean` = "retained and nothing pushed since". -/
def Disciplined : Bool → List Op → Prop
  | _, [] => True
  | _, .push _ :: ops => Disciplined false ops
  | _, .retain :: ops => Disciplined true ops
  | c, .sortDesc :: ops => c = true ∧ Disciplined c ops
  | _, .update _ _ :: ops => Disciplined true ops

/-- Under the discipline every `debug_assert!(!self.has_zero)` passes. -/
def AssertsPass : SVec → List Op → Prop
  | _, [] => True
  | s, .sortDesc :: ops => s.sortDescAssertOk = true ∧ AssertsPass (s.step .sortDesc) ops
  | s, op :: ops => AssertsPass (s.step op) ops

theorem asserts_pass_of_disciplined (ops : List Op) : ∀ (s : SVec) (c : Bool),
    (c = true → s.hasZero = false) → Disciplined c ops → AssertsPass s ops := by
  induction ops with
  | nil => intro _ _ _ _; trivial
  | cons op ops ih =>
    intro s c hc hd
    cases op with
    | push b => exact ih _ false (by simp) hd
    | retain => exact ih _ true (fun _ => rfl) hd
    | sortDesc =>
      obtain ⟨h1, h2⟩ := hd
      refine ⟨by simp [SVec.sortDescAssertOk, hc h1], ih _ c ?_ h2⟩
      intro h; exact hc h
    | update f k => exact ih _ true (fun _ => rfl) hd

end Rosu.SV
