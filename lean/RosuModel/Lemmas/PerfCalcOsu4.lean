import RosuModel.Lemmas.PerfCalcOsu3

/-! osu! pp formulas over ℝ: multiplier / relax adjustment and the assembly of `calculate`. -/

namespace Rosu.PerfCalc
open PPOps
open Rosu.Finite (OsuState)

/-- hypotheses on the attributes / state that do not depend on the effective miss count -/
structure OsuAttrsOK (c : OsuCalc ℝ) : Prop where
  aim_strain : 1 < c.attrs.aimDifficultStrainCount
  speed_strain : 1 < c.attrs.speedDifficultStrainCount
  ar_le : c.attrs.ar ≤ 37
  hp_sq : c.attrs.hp * c.attrs.hp ≤ 1000 / 3
  snc_nonneg : 0 ≤ c.attrs.speedNoteCount
  ghw_ge : -7 ≤ c.attrs.greatHitWindow
  spinners : c.attrs.nSpinners ≤ c.state.totalHits
  combo : c.usingClassicSliderAcc = true → c.state.maxCombo ≤ c.attrs.maxCombo
  ends : c.usingClassicSliderAcc = false → c.state.sliderEndHits ≤ c.attrs.nSliders
  ticks : c.usingClassicSliderAcc = false → c.state.largeTickHits ≤ c.attrs.nLargeTicks

/-- the relax multipliers are non-negative -/
theorem osuRelaxMultipliers_nonneg (od : ℝ) :
    0 ≤ (osuRelaxMultipliers od).1 ∧ 0 ≤ (osuRelaxMultipliers od).2 := by
  unfold osuRelaxMultipliers
  have h0 : (0 : ℝ) ≤ 0.0 := by norm_num
  have h1 : (0 : ℝ) ≤ 1.0 := by norm_num
  by_cases h : PPOps.lt 0.0 od = true
  · rw [if_pos h]; exact ⟨le_trans h0 (le_max_right _ _), le_trans h0 (le_max_right _ _)⟩
  · rw [if_neg h]; exact ⟨h1, h1⟩

theorem osuMultiplier_nonneg (c : OsuCalc ℝ) (B : OsuCalcBase c)
    (hsp : c.attrs.nSpinners ≤ c.state.totalHits) : 0 ≤ osuMultiplier c := by
  unfold osuMultiplier
  extract_lets totalHits m0 m1
  have ht : (0 : ℝ) < totalHits := by
    show (0 : ℝ) < ((c.state.totalHits : ℕ) : ℝ); exact_mod_cast B.hits_pos
  have hm0 : (0 : ℝ) ≤ m0 := by show (0 : ℝ) ≤ 1.15; norm_num
  have hm1 : (0 : ℝ) ≤ m1 := by
    refine ite_mul_nonneg hm0 (fun _ => ?_)
    exact le_trans (by norm_num) (le_max_right _ _)
  refine ite_mul_nonneg hm1 (fun _ => ?_)
  show (0 : ℝ) ≤ 1.0 - ((c.attrs.nSpinners : ℝ) / totalHits) ^ (0.85 : ℝ)
  have hq0 : (0 : ℝ) ≤ (c.attrs.nSpinners : ℝ) / totalHits := div_nonneg (Nat.cast_nonneg _) ht.le
  have hq1 : (c.attrs.nSpinners : ℝ) / totalHits ≤ 1 := by
    rw [div_le_one ht]; show ((c.attrs.nSpinners : ℕ) : ℝ) ≤ ((c.state.totalHits : ℕ) : ℝ)
    exact_mod_cast hsp
  have := Real.rpow_le_one hq0 hq1 (by norm_num : (0 : ℝ) ≤ 0.85)
  have h1 : (1.0 : ℝ) = 1 := by norm_num
  rw [h1]; linarith

theorem osuRelaxMisses_mem (c : OsuCalc ℝ) (B : OsuCalcBase c) :
    0 ≤ osuRelaxMisses c ∧ osuRelaxMisses c ≤ (c.state.totalHits : ℝ) := by
  unfold osuRelaxMisses
  extract_lets totalHits od mults
  have ht : (0 : ℝ) ≤ totalHits := by show (0 : ℝ) ≤ ((c.state.totalHits : ℕ) : ℝ); positivity
  by_cases hrx : c.mods.rx = true
  · rw [if_pos hrx]
    obtain ⟨a1, a2⟩ := osuRelaxMultipliers_nonneg od
    constructor
    · refine le_min ?_ ht
      exact add_nonneg (add_nonneg B.emc_nonneg (mul_nonneg (Nat.cast_nonneg _) a1))
        (mul_nonneg (Nat.cast_nonneg _) a2)
    · exact min_le_right _ _
  · rw [if_neg hrx]; exact ⟨B.emc_nonneg, B.emc_le⟩

theorem osuMultiplierAndMisses_spec (c : OsuCalc ℝ) (B : OsuCalcBase c)
    (hsp : c.attrs.nSpinners ≤ c.state.totalHits) :
    0 ≤ (osuMultiplierAndMisses c).1 ∧ 0 ≤ (osuMultiplierAndMisses c).2
      ∧ (osuMultiplierAndMisses c).2 ≤ (c.state.totalHits : ℝ) :=
  ⟨osuMultiplier_nonneg c B hsp, (osuRelaxMisses_mem c B).1, (osuRelaxMisses_mem c B).2⟩

theorem osuMultiplierAndMissesDom_true (c : OsuCalc ℝ) (B : OsuCalcBase c) :
    osuMultiplierAndMissesDom c = true := by
  unfold osuMultiplierAndMissesDom
  extract_lets totalHits
  have ht : (0 : ℝ) < totalHits := by
    show (0 : ℝ) < ((c.state.totalHits : ℕ) : ℝ); exact_mod_cast B.hits_pos
  have e1 : (if (c.mods.so && PPOps.lt 0.0 totalHits) = true then
      nz totalHits && powfDom (PPOps.ofNat c.attrs.nSpinners / totalHits) (0.85 : ℝ) else true) = true := by
    by_cases h : (c.mods.so && PPOps.lt 0.0 totalHits) = true
    · rw [if_pos h]
      have a1 : nz totalHits = true := by rw [nz_iff]; exact ht.ne'
      have a2 : powfDom (PPOps.ofNat c.attrs.nSpinners / totalHits : ℝ) (0.85 : ℝ) = true :=
        powfDom_of_nonneg (div_nonneg (Nat.cast_nonneg _) ht.le) (by norm_num)
      rw [a1, a2]; rfl
    · rw [if_neg h]
  have e2 : (if (c.mods.rx && PPOps.lt 0.0 c.attrs.od) = true then
      powfDom (c.attrs.od / 13.33 : ℝ) (1.8 : ℝ) else true) = true := by
    by_cases h : (c.mods.rx && PPOps.lt 0.0 c.attrs.od) = true
    · rw [if_pos h]
      rw [Bool.and_eq_true] at h
      have hod : (0 : ℝ) < c.attrs.od := by
        have := (r_lt _ _).1 h.2
        have h0 : (0.0 : ℝ) = 0 := by norm_num
        rwa [h0] at this
      exact powfDom_of_pos _ (div_pos hod (by norm_num))
    · rw [if_neg h]
  rw [e1, e2]; rfl

/-- the final combination `(a^1.1 + s^1.1 + acc^1.1 + f^1.1)^(1/1.1) · multiplier` -/
theorem osu_combine_nonneg {a s ac f mult : ℝ} (ha : 0 ≤ a) (hs : 0 ≤ s) (hac : 0 ≤ ac) (hf : 0 ≤ f)
    (hm : 0 ≤ mult) :
    0 ≤ (a ^ (1.1 : ℝ) + s ^ (1.1 : ℝ) + ac ^ (1.1 : ℝ) + f ^ (1.1 : ℝ)) ^ (1.0 / 1.1 : ℝ) * mult := by
  have e1 := Real.rpow_nonneg ha (1.1 : ℝ)
  have e2 := Real.rpow_nonneg hs (1.1 : ℝ)
  have e3 := Real.rpow_nonneg hac (1.1 : ℝ)
  have e4 := Real.rpow_nonneg hf (1.1 : ℝ)
  exact mul_nonneg (Real.rpow_nonneg (by linarith) _) hm

section
variable (sf : Special ℝ)

/-- the calculator with the relax-adjusted effective miss count -/
noncomputable def osuAdjusted (c : OsuCalc ℝ) : OsuCalc ℝ :=
  { c with effectiveMissCount := (osuMultiplierAndMisses c).2 }

/-- what the assembly needs to know about the speed deviation (proved from `ErfFacts` and positive hit
windows in `Lemmas/PerfCalcOsu5.lean` when available; a hypothesis otherwise) -/
structure SpeedDeviationOK (c : OsuCalc ℝ) : Prop where
  dom : calculateSpeedDeviationDom sf (osuAdjusted c) = true
  pos : ∀ sd, calculateSpeedDeviation sf (osuAdjusted c) = some sd → 0 < sd

theorem osuAdjusted_base (c : OsuCalc ℝ) (B : OsuCalcBase c) (H : OsuAttrsOK c) :
    OsuCalcBase (osuAdjusted c) := by
  obtain ⟨_, h2, h3⟩ := osuMultiplierAndMisses_spec c B H.spinners
  exact ⟨B.hits_pos, B.acc_nonneg, h2, h3⟩

theorem osuAdjusted_aim (c : OsuCalc ℝ) (H : OsuAttrsOK c) : OsuAimOK (osuAdjusted c) :=
  ⟨fun _ => H.aim_strain, H.ar_le, H.hp_sq, H.combo, H.ends, H.ticks⟩

theorem osuAdjusted_speed (c : OsuCalc ℝ) (H : OsuAttrsOK c) : OsuSpeedOK (osuAdjusted c) :=
  ⟨fun _ => H.speed_strain, H.ar_le, H.snc_nonneg, H.ghw_ge⟩

theorem computeSpeedValue_nonneg (c : OsuCalc ℝ) (B : OsuCalcBase c) (S : OsuSpeedOK c) (sdo : Option ℝ)
    (hpos : ∀ sd, sdo = some sd → 0 < sd) : 0 ≤ computeSpeedValue c sdo := by
  unfold computeSpeedValue
  by_cases hrx : c.mods.rx = true
  · rw [if_pos hrx]; show (0 : ℝ) ≤ 0.0; norm_num
  · rw [if_neg hrx]
    cases sdo with
    | none => show (0 : ℝ) ≤ 0.0; norm_num
    | some sd => exact computeSpeedBody_nonneg c B S (hpos sd rfl)

theorem computeSpeedValueDom_true (c : OsuCalc ℝ) (B : OsuCalcBase c) (S : OsuSpeedOK c) (sdo : Option ℝ)
    (hpos : ∀ sd, sdo = some sd → 0 < sd) : computeSpeedValueDom c sdo = true := by
  unfold computeSpeedValueDom
  by_cases hrx : c.mods.rx = true
  · rw [if_pos hrx]
  · rw [if_neg hrx]
    cases sdo with
    | none => rfl
    | some sd => exact computeSpeedBodyDom_true c B S (hpos sd rfl)

/-- the outputs of `OsuPerformanceCalculator::calculate` when there is at least one hit -/
theorem osuCalculatorCalculate_fields (c : OsuCalc ℝ) (h : c.state.totalHits ≠ 0) :
    (osuCalculatorCalculate sf c).ppAim = computeAimValue (osuAdjusted c)
    ∧ (osuCalculatorCalculate sf c).ppSpeed
        = computeSpeedValue (osuAdjusted c) (calculateSpeedDeviation sf (osuAdjusted c))
    ∧ (osuCalculatorCalculate sf c).ppAcc = computeAccuracyValue (osuAdjusted c)
    ∧ (osuCalculatorCalculate sf c).ppFlashlight = computeFlashlightValue (osuAdjusted c)
    ∧ (osuCalculatorCalculate sf c).effectiveMissCount = (osuMultiplierAndMisses c).2
    ∧ (osuCalculatorCalculate sf c).speedDeviation = calculateSpeedDeviation sf (osuAdjusted c)
    ∧ (osuCalculatorCalculate sf c).pp
        = ((osuCalculatorCalculate sf c).ppAim ^ (1.1 : ℝ) + (osuCalculatorCalculate sf c).ppSpeed ^ (1.1 : ℝ)
            + (osuCalculatorCalculate sf c).ppAcc ^ (1.1 : ℝ)
            + (osuCalculatorCalculate sf c).ppFlashlight ^ (1.1 : ℝ)) ^ (1.0 / 1.1 : ℝ)
          * (osuMultiplierAndMisses c).1 := by
  unfold osuCalculatorCalculate
  rw [if_neg h]
  exact ⟨rfl, rfl, rfl, rfl, rfl, rfl, rfl⟩

/-- (b) osu!: every output of the calculator is `≥ 0` -/
theorem osuCalculatorCalculate_nonneg (c : OsuCalc ℝ) (B : OsuCalcBase c) (H : OsuAttrsOK c)
    (D : SpeedDeviationOK sf c) :
    0 ≤ (osuCalculatorCalculate sf c).pp ∧ 0 ≤ (osuCalculatorCalculate sf c).ppAim
      ∧ 0 ≤ (osuCalculatorCalculate sf c).ppSpeed ∧ 0 ≤ (osuCalculatorCalculate sf c).ppAcc
      ∧ 0 ≤ (osuCalculatorCalculate sf c).ppFlashlight
      ∧ 0 ≤ (osuCalculatorCalculate sf c).effectiveMissCount
      ∧ (osuCalculatorCalculate sf c).effectiveMissCount ≤ (c.state.totalHits : ℝ) := by
  have hne : c.state.totalHits ≠ 0 := Nat.pos_iff_ne_zero.mp B.hits_pos
  obtain ⟨f1, f2, f3, f4, f5, _, f7⟩ := osuCalculatorCalculate_fields sf c hne
  have B' := osuAdjusted_base c B H
  obtain ⟨m1, m2, m3⟩ := osuMultiplierAndMisses_spec c B H.spinners
  have ha : 0 ≤ (osuCalculatorCalculate sf c).ppAim := by
    rw [f1]; exact computeAimValue_nonneg _ B' (osuAdjusted_aim c H)
  have hs : 0 ≤ (osuCalculatorCalculate sf c).ppSpeed := by
    rw [f2]; exact computeSpeedValue_nonneg _ B' (osuAdjusted_speed c H) _ D.pos
  have hac : 0 ≤ (osuCalculatorCalculate sf c).ppAcc := by
    rw [f3]; exact computeAccuracyValue_nonneg _
  have hf : 0 ≤ (osuCalculatorCalculate sf c).ppFlashlight := by
    rw [f4]; exact computeFlashlightValue_nonneg _ B'
  refine ⟨?_, ha, hs, hac, hf, ?_, ?_⟩
  · rw [f7]; exact osu_combine_nonneg ha hs hac hf m1
  · rw [f5]; exact m2
  · rw [f5]; exact m3

/-- (a) osu!: every partial operation of the calculator is in its domain -/
theorem osuCalculatorCalculateDom_true (c : OsuCalc ℝ) (B : OsuCalcBase c) (H : OsuAttrsOK c)
    (D : SpeedDeviationOK sf c) : osuCalculatorCalculateDom sf c = true := by
  have hne : c.state.totalHits ≠ 0 := Nat.pos_iff_ne_zero.mp B.hits_pos
  obtain ⟨f1, f2, f3, f4, _, _, _⟩ := osuCalculatorCalculate_fields sf c hne
  obtain ⟨_, ha, hs, hac, hf, _, _⟩ := osuCalculatorCalculate_nonneg sf c B H D
  rw [f1] at ha; rw [f2] at hs; rw [f3] at hac; rw [f4] at hf
  have B' := osuAdjusted_base c B H
  have e0 := osuMultiplierAndMissesDom_true c B
  have e1 := D.dom
  have e2 := computeAimValueDom_true _ B' (osuAdjusted_aim c H)
  have e3 := computeSpeedValueDom_true _ B' (osuAdjusted_speed c H) _ D.pos
  have e4 := computeAccuracyValueDom_true (osuAdjusted c)
  have e5 := computeFlashlightValueDom_true _ B'
  have e6 := powfDom_11 ha
  have e7 := powfDom_11 hs
  have e8 := powfDom_11 hac
  have e9 := powfDom_11 hf
  have e10 := powfDom_inv11 (add_nonneg (add_nonneg (add_nonneg (Real.rpow_nonneg ha (1.1 : ℝ))
    (Real.rpow_nonneg hs (1.1 : ℝ))) (Real.rpow_nonneg hac (1.1 : ℝ))) (Real.rpow_nonneg hf (1.1 : ℝ)))
  unfold osuCalculatorCalculateDom
  rw [if_neg hne]
  show (osuMultiplierAndMissesDom c
    && calculateSpeedDeviationDom sf (osuAdjusted c)
    && computeAimValueDom (osuAdjusted c)
    && computeSpeedValueDom (osuAdjusted c) (calculateSpeedDeviation sf (osuAdjusted c))
    && computeAccuracyValueDom (osuAdjusted c) && computeFlashlightValueDom (osuAdjusted c)
    && powfDom (computeAimValue (osuAdjusted c)) (1.1 : ℝ)
    && powfDom (computeSpeedValue (osuAdjusted c) (calculateSpeedDeviation sf (osuAdjusted c))) (1.1 : ℝ)
    && powfDom (computeAccuracyValue (osuAdjusted c)) (1.1 : ℝ)
    && powfDom (computeFlashlightValue (osuAdjusted c)) (1.1 : ℝ)
    && powfDom (computeAimValue (osuAdjusted c) ^ (1.1 : ℝ)
        + computeSpeedValue (osuAdjusted c) (calculateSpeedDeviation sf (osuAdjusted c)) ^ (1.1 : ℝ)
        + computeAccuracyValue (osuAdjusted c) ^ (1.1 : ℝ)
        + computeFlashlightValue (osuAdjusted c) ^ (1.1 : ℝ)) (1.0 / 1.1 : ℝ)) = true
  rw [e0, e1, e2, e3, e4, e5, e6, e7, e8, e9, e10]; rfl

/-- (c) osu!: zero hits ⇒ every output is 0 and there is no speed deviation (the early return; full
formula, no hypothesis) -/
theorem osuCalculatorCalculate_zero_hits (c : OsuCalc ℝ) (h : c.state.totalHits = 0) :
    (osuCalculatorCalculate sf c).pp = 0 ∧ (osuCalculatorCalculate sf c).ppAim = 0
      ∧ (osuCalculatorCalculate sf c).ppSpeed = 0 ∧ (osuCalculatorCalculate sf c).ppAcc = 0
      ∧ (osuCalculatorCalculate sf c).ppFlashlight = 0
      ∧ (osuCalculatorCalculate sf c).effectiveMissCount = 0
      ∧ (osuCalculatorCalculate sf c).speedDeviation = none := by
  unfold osuCalculatorCalculate
  rw [if_pos h]
  have h0 : (0.0 : ℝ) = 0 := by norm_num
  exact ⟨h0, h0, h0, h0, h0, h0, rfl⟩

end

end Rosu.PerfCalc
