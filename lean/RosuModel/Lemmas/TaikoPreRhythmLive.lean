import RosuModel.Lemmas.TaikoPreRhythm
namespace Rosu.TaikoPre
variable {T : Type}

section Helpers
variable {α : Type}

theorem rl_nodup_fst_unique : ∀ (es : List (Nat × α)) (p : Nat) (v v' : α),
    (es.map Prod.fst).Nodup → (p, v) ∈ es → (p, v') ∈ es → v = v'
  | [], _, _, _, _, h, _ => by simp at h
  | e :: t, p, v, v', hnd, h1, h2 => by
    rw [List.map_cons, List.nodup_cons] at hnd
    rcases List.mem_cons.mp h1 with h1 | h1 <;> rcases List.mem_cons.mp h2 with h2 | h2
    · rw [← h1] at h2
      exact (Prod.mk.inj h2).2.symm
    · exact absurd (List.mem_map.mpr ⟨(p, v'), h2, by rw [← h1]⟩) hnd.1
    · exact absurd (List.mem_map.mpr ⟨(p, v), h1, by rw [← h2]⟩) hnd.1
    · exact rl_nodup_fst_unique t p v v' hnd.2 h1 h2

theorem rl_lookupLast_mem (es : List (Nat × α)) (p : Nat) (v : α)
    (h : lookupLast es p = some v) : (p, v) ∈ es := by
  unfold lookupLast at h
  obtain ⟨e, he, hv⟩ := Option.map_eq_some_iff.mp h
  have hp : (e.1 == p) = true := List.find?_some (p := fun e : Nat × α => e.1 == p) he
  have hm : e ∈ es := List.mem_reverse.mp (List.mem_of_find?_eq_some he)
  have : e = (p, v) := by
    cases e with
    | mk a b => simp at hp hv; rw [hp, hv]
  rwa [this] at hm

theorem rl_lookupLast_of_mem (es : List (Nat × α)) (p : Nat) (v : α)
    (hnd : (es.map Prod.fst).Nodup) (h : (p, v) ∈ es) : lookupLast es p = some v := by
  have hs : (lookupLast es p).isSome = true :=
    (lookupLast_isSome_iff_mem es p).mpr (List.mem_map.mpr ⟨(p, v), h, rfl⟩)
  obtain ⟨v', hv'⟩ := Option.isSome_iff_exists.mp hs
  have := rl_nodup_fst_unique es p v v' hnd h (rl_lookupLast_mem es p v' hv')
  rw [hv', this]

end Helpers

theorem rl_rhythmCell_eq (re pe : List (Nat × Nat)) (p g q : Nat) :
    rhythmCell re pe p = some (some (g, q)) ↔ lookupLast re p = some g ∧ lookupLast pe p = some q := by
  unfold rhythmCell
  cases lookupLast re p <;> cases lookupLast pe p <;> simp

theorem rl_mem_rhythmEntries (rgs : List (RGroup T)) (p g : Nat) :
    (p, g) ∈ rhythmEntries rgs ↔ ∃ rg, rgs[g]? = some rg ∧ p ∈ rg.members := by
  unfold rhythmEntries
  simp only [List.mem_flatMap, List.mem_map, List.mem_zipIdx_iff_getElem?]
  constructor
  · rintro ⟨⟨rg, k⟩, hk, p', hp', heq⟩
    simp only [Prod.mk.injEq] at heq
    obtain ⟨rfl, rfl⟩ := heq
    exact ⟨rg, hk, hp'⟩
  · rintro ⟨rg, hk, hp⟩
    exact ⟨(rg, g), hk, p, hp, rfl⟩

/-- The entries `patternEntries` produces, explicitly. -/
def rl_peOf (rgs : List (RGroup T)) (pgs : List (List Nat)) (d : RGroup T) : List (Nat × Nat) :=
  (pgs.zipIdx.map fun x => (x.1.map fun g => rgs.getD g d).flatMap fun rg =>
    rg.members.map fun p => (p, x.2)).flatten

theorem rl_patternEntries_eq (rgs : List (RGroup T)) (pgs : List (List Nat)) (d : RGroup T)
    (h : ∀ pg ∈ pgs, ∀ g ∈ pg, g < rgs.length) :
    patternEntries rgs pgs = some (rl_peOf rgs pgs d) := by
  unfold patternEntries
  have hm := mapM_eq_some_map
    (fun (x : List Nat × Nat) => (x.1.mapM fun g => rgs[g]?).bind fun gs =>
      some (gs.flatMap fun rg => rg.members.map fun p => (p, x.2)))
    (fun x => (x.1.map fun g => rgs.getD g d).flatMap fun rg => rg.members.map fun p => (p, x.2))
    pgs.zipIdx (by
      intro x hx
      have hx1 : x.1 ∈ pgs := by
        have : x.1 ∈ pgs.zipIdx.map Prod.fst := List.mem_map.mpr ⟨x, hx, rfl⟩
        rwa [List.zipIdx_map_fst] at this
      have : (x.1.mapM fun g => rgs[g]?) = some (x.1.map fun g => rgs.getD g d) := by
        apply mapM_eq_some_map
        intro g hg
        have : g < rgs.length := h x.1 hx1 g hg
        simp [List.getD_eq_getElem?_getD, List.getElem?_eq_getElem this]
      simp only [this, obind_some])
  exact congrArg (fun o => o.bind fun per => some per.flatten) hm

theorem rl_mem_peOf (rgs : List (RGroup T)) (pgs : List (List Nat)) (d : RGroup T) (p q : Nat) :
    (p, q) ∈ rl_peOf rgs pgs d ↔
      ∃ pg, pgs[q]? = some pg ∧ ∃ g, g ∈ pg ∧ p ∈ (rgs.getD g d).members := by
  unfold rl_peOf
  simp only [← List.flatMap_def, List.flatMap_map, List.mem_flatMap, List.mem_map,
    List.mem_zipIdx_iff_getElem?]
  constructor
  · rintro ⟨⟨pg, k⟩, hk, g, hg, p', hp', heq⟩
    simp only [Prod.mk.injEq] at heq
    obtain ⟨rfl, rfl⟩ := heq
    exact ⟨pg, hk, g, hg, hp'⟩
  · rintro ⟨pg, hk, g, hg, hp⟩
    exact ⟨(pg, q), hk, g, hg, p, hp, rfl⟩

theorem rl_rhythmOf_inv (A : Arith T) (st : Store T) (rgs : List (RGroup T)) (pgs : List (List Nat))
    (pgi : List (Option T)) (pgr : List T) (rh : List (Option (Nat × Nat)))
    (h : rhythmOf A st = some (rgs, pgs, pgi, pgr, rh)) :
    ∃ pe, patternEntries rgs pgs = some pe ∧
      (List.range st.objects.length).mapM (rhythmCell (rhythmEntries rgs) pe) = some rh := by
  rw [rhythmOf_eq] at h
  simp only [Option.bind_eq_some_iff] at h
  obtain ⟨noteIv, _, groups, _, rgs', _, pgs', _, pgi', _, pgr', _, _, _, pe, hpe, _, _, rh', hrh,
    heq⟩ := h
  simp only [Option.some.injEq, Prod.mk.injEq] at heq
  obtain ⟨rfl, rfl, rfl, rfl, rfl⟩ := heq
  exact ⟨pe, hpe, hrh⟩

theorem rl_getD_eq (rgs : List (RGroup T)) (d : RGroup T) (g : Nat) (h : g < rgs.length) :
    rgs.getD g d = rgs[g] := by
  simp [List.getD_eq_getElem?_getD, List.getElem?_eq_getElem h]

/-- Every rhythm group and every pattern group is referenced by at least one object, and an object's
rhythm data points at the groups that contain it. -/
theorem rhythmOf_live (A : Arith T) (st : Store T) (hn : ∀ p ∈ st.notes, p < st.objects.length)
    (hnd : st.notes.Nodup) :
    ∃ rgs pgs pgi pgr rh, rhythmOf A st = some (rgs, pgs, pgi, pgr, rh) ∧
      (∀ p g q : Nat, rh[p]? = some (some (g, q)) →
        (∃ rg : RGroup T, rgs[g]? = some rg ∧ p ∈ rg.members) ∧
          (∃ pg : List Nat, pgs[q]? = some pg ∧ g ∈ pg)) ∧
      (∀ g : Nat, g < rgs.length → ∃ p q : Nat, rh[p]? = some (some (g, q))) ∧
      (∀ q : Nat, q < pgs.length → ∃ p g : Nat, rh[p]? = some (some (g, q))) := by
  obtain ⟨rgs, pgs, pgi, pgr, rh, hr, hmem, hrne, hfl, hpne, _, _, hlen, _⟩ := rhythmOf_full A st hn
  obtain ⟨pe, hpe, hrh⟩ := rl_rhythmOf_inv A st rgs pgs pgi pgr rh hr
  have hlt : ∀ pg ∈ pgs, ∀ g ∈ pg, g < rgs.length := by
    intro pg hpg g hg
    have : g ∈ pgs.flatten := List.mem_flatten.mpr ⟨pg, hpg, hg⟩
    rw [hfl] at this
    exact List.mem_range.mp this
  have d : RGroup T := ⟨[], none, A.inf, A.inf⟩
  have hpeq : pe = rl_peOf rgs pgs d :=
    Option.some.inj (hpe.symm.trans (rl_patternEntries_eq rgs pgs d hlt))
  have hre : (rhythmEntries rgs).map Prod.fst = st.notes := by rw [rhythmEntries_fst, hmem]
  have hpef : pe.map Prod.fst = st.notes := by
    obtain ⟨pe', h1, h2⟩ := patternEntries_spec rgs pgs d hlt
    have : pe' = pe := Option.some.inj (h1.symm.trans hpe)
    subst this
    have := List.flatMap_map (fun g => rgs.getD g d) (fun rg : RGroup T => rg.members)
      (List.range rgs.length)
    rw [range_map_getD] at this
    rw [h2, hfl, ← this, hmem]
  have hreN : ((rhythmEntries rgs).map Prod.fst).Nodup := by rw [hre]; exact hnd
  have hpeN : (pe.map Prod.fst).Nodup := by rw [hpef]; exact hnd
  -- the final pass, positionally
  have hget : ∀ p, p < st.objects.length → rh[p]? = rhythmCell (rhythmEntries rgs) pe p := by
    obtain ⟨ys, hys, _, hP⟩ := mapM_spec (rhythmCell (rhythmEntries rgs) pe)
      (fun p c => rhythmCell (rhythmEntries rgs) pe p = some c) (List.range st.objects.length)
      (fun p _ => by
        obtain ⟨c, hc, _⟩ := rhythmCell_spec _ _ (hre.trans hpef.symm) p
        exact ⟨c, hc, hc⟩)
    have : ys = rh := Option.some.inj (hys.symm.trans hrh)
    subst this
    intro p hp
    have hp' : p < ys.length := by rw [hlen]; exact hp
    have := hP p (by simpa using hp) hp'
    rw [List.getElem_range] at this
    rw [this, List.getElem?_eq_getElem hp']
  have hmemre : ∀ g (hg : g < rgs.length) p, p ∈ rgs[g].members → (p, g) ∈ rhythmEntries rgs :=
    fun g hg p hp => (rl_mem_rhythmEntries rgs p g).mpr ⟨rgs[g], List.getElem?_eq_getElem hg, hp⟩
  have hlive : ∀ p g q, (p, g) ∈ rhythmEntries rgs → (p, q) ∈ pe → rh[p]? = some (some (g, q)) := by
    intro p g q h1 h2
    have hpn : p ∈ st.notes := by rw [← hre]; exact List.mem_map.mpr ⟨(p, g), h1, rfl⟩
    rw [hget p (hn p hpn)]
    exact (rl_rhythmCell_eq _ _ p g q).mpr
      ⟨rl_lookupLast_of_mem _ p g hreN h1, rl_lookupLast_of_mem _ p q hpeN h2⟩
  refine ⟨rgs, pgs, pgi, pgr, rh, hr, ?_, ?_, ?_⟩
  · intro p g q h
    have hp : p < st.objects.length := by
      apply Classical.byContradiction
      intro hc
      rw [List.getElem?_eq_none (by omega)] at h
      cases h
    rw [hget p hp] at h
    obtain ⟨h1, h2⟩ := (rl_rhythmCell_eq _ _ p g q).mp h
    have m1 := rl_lookupLast_mem _ p g h1
    have m2 := rl_lookupLast_mem _ p q h2
    refine ⟨(rl_mem_rhythmEntries rgs p g).mp m1, ?_⟩
    rw [hpeq] at m2
    obtain ⟨pg, hk, g', hg', hp'⟩ := (rl_mem_peOf rgs pgs d p q).mp m2
    have hg'lt : g' < rgs.length := hlt pg (List.mem_of_getElem? hk) g' hg'
    rw [rl_getD_eq rgs d g' hg'lt] at hp'
    have : g' = g := rl_nodup_fst_unique _ p g' g hreN (hmemre g' hg'lt p hp') m1
    subst this
    exact ⟨pg, hk, hg'⟩
  · intro g hg
    obtain ⟨p, hp⟩ := List.exists_mem_of_ne_nil _ (hrne rgs[g] (List.getElem_mem hg))
    have h1 := hmemre g hg p hp
    have hpn : p ∈ pe.map Prod.fst := by
      rw [hpef, ← hre]; exact List.mem_map.mpr ⟨(p, g), h1, rfl⟩
    obtain ⟨⟨p', q⟩, he, hp'⟩ := List.mem_map.mp hpn
    simp only at hp'
    subst hp'
    exact ⟨p', q, hlive p' g q h1 he⟩
  · intro q hq
    have hpg : pgs[q] ∈ pgs := List.getElem_mem hq
    obtain ⟨g, hg⟩ := List.exists_mem_of_ne_nil _ (hpne _ hpg)
    have hglt : g < rgs.length := hlt _ hpg g hg
    obtain ⟨p, hp⟩ := List.exists_mem_of_ne_nil _ (hrne rgs[g] (List.getElem_mem hglt))
    have h1 := hmemre g hglt p hp
    have h2 : (p, q) ∈ pe := by
      rw [hpeq]
      exact (rl_mem_peOf rgs pgs d p q).mpr
        ⟨pgs[q], List.getElem?_eq_getElem hq, g, hg, by rw [rl_getD_eq rgs d g hglt]; exact hp⟩
    exact ⟨p, g, hlive p g q h1 h2⟩

end Rosu.TaikoPre
