import RosuModel.Model.Aggregate
import RosuModel.Lemmas.Skill

/-!
Lemmas about the aggregation functions of `Model/Aggregate.lean` that hold for *every* number
type / arithmetic (in particular for the `f64` bit-pattern instance the driver runs):

* the versions that read the crate's compact `StrainsVec` equal the versions on the exported
  `Vec<f64>` (refinement through `abs`);
* `zip` of four equally long lists drops nothing;
* sorting makes every aggregation independent of the order of the sections.

Core Lean only.
-/

namespace Rosu.Agg
open Rosu.SV Rosu.Skill

variable {α : Type}

/-! ## the bit-pattern instance is the `StrainsVec` model's sort / filter -/

theorem sortDesc_bitOps (add mul : Nat → Nat → Nat) (pos : Nat → Bool) (z o : Nat) (l : List Nat) :
    sortDesc (bitOps add mul pos z o) l = sortDescBits l := rfl

theorem dvTermsOf_bitOps (add mul : Nat → Nat → Nat) (pos : Nat → Bool) (z o : Nat) (v : List Nat) :
    dvTermsOf (bitOps add mul pos z o) v = dvTermsExported v := rfl

theorem osuTermsOf_bitOps (add mul : Nat → Nat → Nat) (pos : Nat → Bool) (z o : Nat)
    (factor : Nat → Nat) (k : Nat) (v : List Nat) :
    osuTermsOf (bitOps add mul pos z o) factor k v
      = dvTermsOsuExported (fun i e => mul e (factor i)) k v := rfl

/-- The weighted loop of this file is the loop `Model/StrainsWire.lean` replays for the `DV` and
`SKILL` request lines (`weightedFold`). -/
theorem weightedSum_eq_weightedFold (O : Ops Nat) (decay : Nat) (terms : List Nat) :
    weightedSum O decay terms
      = weightedFold (fun d s w => O.add d (O.mul s w)) O.mul O.zero O.one decay terms := rfl

/-! ## internal (compact vector) = exported list -/

theorem difficultyValueInternal_eq (add mul : Nat → Nat → Nat) (pos : Nat → Bool) (z o : Nat)
    (decay : Nat) {sv : SVec} (h : WF sv) :
    difficultyValueInternal (bitOps add mul pos z o) decay sv
      = difficultyValue (bitOps add mul pos z o) decay sv.abs := by
  unfold difficultyValueInternal difficultyValue
  rw [dvTerms_eq_exported h, dvTermsOf_bitOps]

theorem osuDifficultyValueInternal_eq (add mul : Nat → Nat → Nat) (pos : Nat → Bool) (z o : Nat)
    (factor : Nat → Nat) (k : Nat) (decay : Nat) {sv : SVec} (h : WF sv) :
    osuDifficultyValueInternal (bitOps add mul pos z o) factor k decay sv
      = osuDifficultyValue (bitOps add mul pos z o) factor k decay sv.abs := by
  unfold osuDifficultyValueInternal osuDifficultyValue
  rw [dvTermsOsu_eq_exported h, osuTermsOf_bitOps]
  rfl

theorem flashlightValueInternal_eq (add mul : Nat → Nat → Nat) (pos : Nat → Bool) (z o : Nat)
    (sum0 : Nat) {sv : SVec} (h : WF sv) :
    flashlightValueInternal (bitOps add mul pos z o) sum0 sv
      = flashlightValue (bitOps add mul pos z o) sum0 sv.abs := by
  unfold flashlightValueInternal flashlightValue
  rw [sumTerms_eq_exported h]
  rfl

theorem iterCollect_of_WF {sv : SVec} (h : WF sv) : sv.iterCollect = some sv.abs :=
  iterCollect_eq_abs sv (by rw [h.lenEq]; exact Nat.le_refl _)

theorem taikoCombinedInternal_eq (O : Ops Nat) (comb : Nat → Nat → Nat → Nat → Nat) (decay : Nat)
    {r rd c s : SVec} (hr : WF r) (hrd : WF rd) (hc : WF c) (hs : WF s) :
    taikoCombinedInternal O comb decay r rd c s
      = some (taikoCombined O comb decay r.abs rd.abs c.abs s.abs) := by
  unfold taikoCombinedInternal
  rw [iterCollect_of_WF hr, iterCollect_of_WF hrd, iterCollect_of_WF hc, iterCollect_of_WF hs]

theorem taikoCapInternal_eq {r rd c s : SVec} (hr : WF r) (hrd : WF rd) (hc : WF c) (hs : WF s) :
    taikoCapInternal r rd c s = taikoCap r.abs rd.abs c.abs s.abs := by
  unfold taikoCapInternal taikoCap SVec.abs
  rw [hr.lenEq, hrd.lenEq, hc.lenEq, hs.lenEq]

/-! ## zipping four equally long lists drops nothing -/

theorem zip4With_length {β : Type} (comb : α → α → α → α → β) (r rd c s : List α) :
    (zip4With comb r rd c s).length = taikoCap r rd c s := by
  simp only [zip4With, taikoCap, List.length_map, List.length_zip]
  omega

theorem zip4With_length_of_eq {β : Type} (comb : α → α → α → α → β) (r rd c s : List α)
    (h1 : rd.length = r.length) (h2 : c.length = r.length) (h3 : s.length = r.length) :
    (zip4With comb r rd c s).length = r.length := by
  rw [zip4With_length]; unfold taikoCap; omega

/-- With equally long lists section `i` of the zipped list is built from section `i` of each
skill. -/
theorem zip4With_getElem {β : Type} (comb : α → α → α → α → β) (r rd c s : List α) (i : Nat)
    (hi : i < (zip4With comb r rd c s).length) (h1 : i < r.length) (h2 : i < rd.length)
    (h3 : i < c.length) (h4 : i < s.length) :
    (zip4With comb r rd c s)[i] = comb r[i] rd[i] c[i] s[i] := by
  simp [zip4With]

/-! ## independence of the section order -/

/-- A stable sort by a total preorder whose ties are equal elements returns the same list for any
two permutations of the same multiset. -/
theorem sortDesc_eq_of_perm (O : Ops α) {l₁ l₂ : List α}
    (htrans : ∀ a b c : α, O.ge a b = true → O.ge b c = true → O.ge a c = true)
    (htotal : ∀ a b : α, (O.ge a b || O.ge b a) = true)
    (hanti : ∀ a b : α, a ∈ l₁ → b ∈ l₁ → O.ge a b = true → O.ge b a = true → a = b)
    (h : l₁.Perm l₂) : sortDesc O l₁ = sortDesc O l₂ := by
  unfold sortDesc
  have p1 := List.mergeSort_perm l₁ (fun a b => O.ge a b)
  have p2 := List.mergeSort_perm l₂ (fun a b => O.ge a b)
  have s1 := List.pairwise_mergeSort (le := fun a b => O.ge a b) htrans htotal l₁
  have s2 := List.pairwise_mergeSort (le := fun a b => O.ge a b) htrans htotal l₂
  refine List.Perm.eq_of_pairwise ?_ s1 s2 (p1.trans (h.trans p2.symm))
  intro a b ha hb hab hba
  exact hanti a b (p1.mem_iff.mp ha) (h.mem_iff.mpr (p2.mem_iff.mp hb)) hab hba

/-- `total_cmp` on 64-bit patterns: a total order whose ties are identical patterns. -/
theorem sortDescBits_eq_of_perm {l₁ l₂ : List Nat} (hb : ∀ x ∈ l₁, x < TWO64) (h : l₁.Perm l₂) :
    sortDescBits l₁ = sortDescBits l₂ := by
  have := sortDesc_eq_of_perm (bitOps (fun a _ => a) (fun a _ => a) (fun _ => true) 0 0)
    (l₁ := l₁) (l₂ := l₂)
    (by intro a b c h1 h2; simp only [bitOps, decide_eq_true_eq] at *; omega)
    (by intro a b; simp only [bitOps, Bool.or_eq_true, decide_eq_true_eq]; omega)
    (by
      intro a b ha hb' h1 h2
      simp only [bitOps, decide_eq_true_eq] at h1 h2
      exact tcKey_inj (hb a ha) (hb b hb') (by omega))
    h
  simpa [sortDesc_bitOps] using this

theorem dvTermsExported_eq_of_perm {v₁ v₂ : List Nat} (hb : ∀ x ∈ v₁, x < TWO64) (h : v₁.Perm v₂) :
    dvTermsExported v₁ = dvTermsExported v₂ := by
  unfold dvTermsExported
  exact sortDescBits_eq_of_perm (fun x hx => hb x (List.mem_filter.mp hx).1) (h.filter _)

/-- `difficulty_value` does not depend on the order of the sections. -/
theorem difficultyValue_perm (add mul : Nat → Nat → Nat) (pos : Nat → Bool) (z o decay : Nat)
    {v₁ v₂ : List Nat} (hb : ∀ x ∈ v₁, x < TWO64) (h : v₁.Perm v₂) :
    difficultyValue (bitOps add mul pos z o) decay v₁ = difficultyValue (bitOps add mul pos z o) decay v₂ := by
  unfold difficultyValue
  rw [dvTermsOf_bitOps, dvTermsOf_bitOps, dvTermsExported_eq_of_perm hb h]

/-- osu!'s `difficulty_value` does not depend on the order of the sections. -/
theorem osuDifficultyValue_perm (add mul : Nat → Nat → Nat) (pos : Nat → Bool) (z o : Nat)
    (factor : Nat → Nat) (k decay : Nat) {v₁ v₂ : List Nat} (hb : ∀ x ∈ v₁, x < TWO64)
    (h : v₁.Perm v₂) :
    osuDifficultyValue (bitOps add mul pos z o) factor k decay v₁
      = osuDifficultyValue (bitOps add mul pos z o) factor k decay v₂ := by
  unfold osuDifficultyValue osuTermsOf
  rw [dvTermsOf_bitOps, dvTermsOf_bitOps, dvTermsExported_eq_of_perm hb h]

theorem zip4With_eq_map_zip {β : Type} (comb : α → α → α → α → β) (r rd c s : List α) :
    zip4With comb r rd c s
      = ((((r.zip rd).zip c).zip s)).map (fun q => comb q.1.1.1 q.1.1.2 q.1.2 q.2) := by
  unfold zip4With
  apply List.map_congr_left
  intro q _
  rfl

/-- taiko's combined value does not depend on the order of the sections (the four skills'
peaks permuted together). -/
theorem taikoTerms_perm (add mul : Nat → Nat → Nat) (pos : Nat → Bool) (z o : Nat)
    (comb : Nat → Nat → Nat → Nat → Nat) (hcomb : ∀ a b c d, comb a b c d < TWO64)
    {r rd c s r' rd' c' s' : List Nat}
    (h : ((((r.zip rd).zip c).zip s)).Perm ((((r'.zip rd').zip c').zip s'))) :
    taikoTermsOf (bitOps add mul pos z o) comb r rd c s
      = taikoTermsOf (bitOps add mul pos z o) comb r' rd' c' s' := by
  unfold taikoTermsOf
  rw [sortDesc_bitOps, sortDesc_bitOps, zip4With_eq_map_zip, zip4With_eq_map_zip]
  apply sortDescBits_eq_of_perm
  · intro x hx
    obtain ⟨hx, _⟩ := List.mem_filter.mp hx
    obtain ⟨q, _, rfl⟩ := List.mem_map.mp hx
    exact hcomb _ _ _ _
  · exact (h.map _).filter _

end Rosu.Agg
