import RosuModel.Lemmas.CurveField
import RosuModel.Lemmas.CurveField2
import RosuModel.Lemmas.CurveSafe

/-!
# `optimized_len ≥ 0` through `calculate_path`, and the end-to-end laws of `Curve::new`
-/
namespace Rosu.Curve

/-! ## postconditions of `Except` computations -/

section plumbing
variable {α β : Type}

/-- if `r` returns `v` then `P v` (nothing is said about errors) -/
def PostOk (r : R α) (P : α → Prop) : Prop := ∀ v, r = .ok v → P v

theorem postOk_ok (v : α) (P : α → Prop) : PostOk (.ok v : R α) P ↔ P v :=
  ⟨fun h => h v rfl, fun h w hw => by cases hw; exact h⟩

theorem postOk_error (e : Err) (P : α → Prop) : PostOk (.error e : R α) P := by
  intro v hv; cases hv

theorem PostOk.bind {r : R α} {f : α → R β} {P : α → Prop} {Q : β → Prop} (h : PostOk r P)
    (hf : ∀ v, P v → PostOk (f v) Q) : PostOk (r >>= f) Q := by
  cases r with
  | ok v => exact hf v (h v rfl)
  | error e => exact postOk_error _ _

theorem PostOk.bind' {r : R α} {f : α → R β} {Q : β → Prop}
    (hf : ∀ v, PostOk (f v) Q) : PostOk (r >>= f) Q := by
  cases r with
  | ok v => exact hf v
  | error e => exact postOk_error _ _

end plumbing

/-! ## `optimized_len` through `calculate_path`, for any arithmetic and any invariant `Q` -/

section General
variable {S D : Type} (A : Arith S D)

/-- What the osu!-only catmull pass has to satisfy for the invariant `Q` of `optimized_len`. -/
def CatPreserves (isOsu : Bool) (Q : D → Prop) : Prop :=
  isOsu = true → ∀ (sub : Array (Pos S)) (init : CatOpt S D), init.lastStart = none →
    init.lenRemoved = A.dOfInt 0 → Q init.optimized →
    PostOk (catOptLoop A sub sub.toList 0 init) (fun r => Q r.optimized)

theorem calculateSubpath_opt (fuel : Nat) (isOsu : Bool) (Q : D → Prop)
    (hcat : CatPreserves A isOsu Q) (st : PathSt S D) (sub : Array (Pos S)) (kind : Spline)
    (hq : Q st.optimized) :
    PostOk (calculateSubpath A fuel isOsu st sub kind) (fun st' => Q st'.optimized) := by
  cases kind with
  | linear =>
    simp only [calculateSubpath, postOk_ok]
    exact hq
  | perfect =>
    simp only [calculateSubpath]
    refine PostOk.bind' (fun arc => ?_)
    cases arc with
    | some p => exact (postOk_ok _ _).mpr hq
    | none =>
      simp only []
      refine PostOk.bind' ?_
      rintro ⟨p, bz⟩
      exact (postOk_ok _ _).mpr hq
  | catmull =>
    simp only [calculateSubpath]
    refine PostOk.bind' (fun path => ?_)
    split
    · exact (postOk_ok _ _).mpr hq
    · rename_i hosu
      refine PostOk.bind' (fun _ => ?_)
      refine PostOk.bind (hcat (by simpa using hosu) _ _ rfl rfl hq) ?_
      intro r hr
      exact (postOk_ok _ _).mpr hr
  | bspline =>
    simp only [calculateSubpath]
    refine PostOk.bind' ?_
    rintro ⟨p, bz⟩
    exact (postOk_ok _ _).mpr hq

theorem pathStep_opt (fuel : Nat) (isOsu : Bool) (Q : D → Prop)
    (hcat : CatPreserves A isOsu Q) (pts : Array (CP S)) (vertices : Array (Pos S))
    (st : PathSt S D) (start i : Nat) (hq : Q st.optimized) :
    PostOk (pathStep A fuel isOsu pts vertices st start i) (fun r => Q r.1.optimized) := by
  unfold pathStep
  refine PostOk.bind' (fun pi => ?_)
  refine PostOk.bind' (fun nm1 => ?_)
  split
  · exact (postOk_ok _ _).mpr hq
  · refine PostOk.bind' (fun _ => ?_)
    simp only []
    split
    · exact postOk_error _ _
    · split
      · refine PostOk.bind' (fun v => ?_)
        exact (postOk_ok _ _).mpr hq
      · refine PostOk.bind' (fun ps => ?_)
        refine PostOk.bind (calculateSubpath_opt A fuel isOsu Q hcat st _ _ hq) ?_
        intro st1 hq1
        refine PostOk.bind' (fun sk => ?_)
        split
        · exact (postOk_ok _ _).mpr hq1
        · exact (postOk_ok _ _).mpr hq1

theorem pathLoop_opt (fuel : Nat) (isOsu : Bool) (Q : D → Prop)
    (hcat : CatPreserves A isOsu Q) (pts : Array (CP S)) (vertices : Array (Pos S))
    (n i : Nat) (st : PathSt S D) (start : Nat) (hq : Q st.optimized) :
    PostOk (pathLoop A fuel isOsu pts vertices n i st start) (fun st' => Q st'.optimized) := by
  induction n generalizing i st start with
  | zero => exact (postOk_ok _ _).mpr hq
  | succ n ih =>
    simp only [pathLoop]
    refine PostOk.bind (pathStep_opt A fuel isOsu Q hcat pts vertices st start i hq) ?_
    rintro ⟨st1, start1⟩ h1
    exact ih (i + 1) st1 start1 h1

/-- `optimized_len` after `calculate_path` satisfies every invariant `Q` that holds of `0`, of the
value before (no control points: nothing is touched) and is preserved by the catmull pass. -/
theorem calculatePath_opt (fuel : Nat) (isOsu : Bool) (Q : D → Prop)
    (hcat : CatPreserves A isOsu Q) (pts : Array (CP S)) (st : PathSt S D)
    (hq : Q st.optimized) (hq0 : Q (A.dOfInt 0)) :
    PostOk (calculatePath A fuel isOsu pts st) (fun st' => Q st'.optimized) := by
  unfold calculatePath
  split
  · exact (postOk_ok _ _).mpr hq
  · exact pathLoop_opt A fuel isOsu Q hcat pts _ pts.size 0 _ 0 hq0

/-- Outside osu! the catmull pass does not run. -/
theorem catPreserves_false (Q : D → Prop) : CatPreserves A false Q := by
  intro h; cases h

/-- non-osu modes, any arithmetic: `optimized_len` is what it was (no control points) or `0`. -/
theorem calculatePath_optimized_nonosu (fuel : Nat) (pts : Array (CP S)) (st st' : PathSt S D)
    (h : calculatePath A fuel false pts st = .ok st') :
    st'.optimized = st.optimized ∨ st'.optimized = A.dOfInt 0 :=
  calculatePath_opt A fuel false (fun x => x = st.optimized ∨ x = A.dOfInt 0)
    (catPreserves_false A _) pts st (Or.inl rfl) (Or.inr rfl) st' h

end General

/-! ## the osu! catmull pass over an ordered field -/

variable {K : Type} [Field K] [LinearOrder K] [IsStrictOrderedRing K] (T : Transc K)

omit [IsStrictOrderedRing K] in
theorem distance_self (h0 : T.sqrt 0 = 0) (a : Pos K) : distance (fieldArith T) a a = 0 := by
  simp [distance, length, psub, fieldArith, h0]

/-- The loop invariant of the osu!-only pass at index `i`. -/
def CatInv (sub : Array (Pos K)) (i : Nat) (st : CatOpt K K) : Prop :=
  0 ≤ st.optimized ∧ (st.lastStart = none → st.lenRemoved = 0) ∧
    ∀ ls, st.lastStart = some ls → 1 ≤ i ∧
      ∃ prev, sub[i - 1]? = some prev ∧ distance (fieldArith T) ls prev ≤ st.lenRemoved

theorem catOptStep_inv (h0 : T.sqrt 0 = 0)
    (htri : ∀ a b c : Pos K, distance (fieldArith T) a c ≤
      distance (fieldArith T) a b + distance (fieldArith T) b c)
    (sub : Array (Pos K)) (st : CatOpt K K) (i : Nat) (curr : Pos K)
    (hc : sub[i]? = some curr) (hinv : CatInv T sub i st) :
    PostOk (catOptStep (fieldArith T) sub st i curr) (CatInv T sub (i + 1)) := by
  obtain ⟨hopt, hnone, hsome⟩ := hinv
  unfold catOptStep
  split
  · rename_i hls
    rw [postOk_ok]
    refine ⟨hopt, fun h => (by cases h), ?_⟩
    intro ls h
    cases h
    refine ⟨by omega, curr, by simpa using hc, ?_⟩
    rw [distance_self T h0]
    exact (hnone hls).ge
  · rename_i ls hls
    obtain ⟨hi1, prev, hprev, hd⟩ := hsome ls hls
    simp only []
    rw [subC_eq i 1 hi1]
    simp only [ok_bind]
    rw [(getC_eq_ok _ _ _).mpr hprev]
    simp only [ok_bind]
    refine PostOk.bind' (fun lm1 => ?_)
    have key : distance (fieldArith T) ls curr ≤
        st.lenRemoved + distance (fieldArith T) prev curr :=
      le_trans (htri ls prev curr) (add_le_add_left hd _)
    split
    · rw [postOk_ok]
      refine ⟨?_, fun _ => by simp [fieldArith], fun ls' h => (by cases h)⟩
      change 0 ≤ st.optimized +
        (st.lenRemoved + distance (fieldArith T) prev curr - distance (fieldArith T) ls curr)
      linarith
    · rw [postOk_ok]
      refine ⟨hopt, fun h => (by rw [hls] at h; cases h), ?_⟩
      intro ls' h
      rw [hls] at h
      cases h
      exact ⟨by omega, curr, by simpa using hc, key⟩

theorem catOptLoop_inv (h0 : T.sqrt 0 = 0)
    (htri : ∀ a b c : Pos K, distance (fieldArith T) a c ≤
      distance (fieldArith T) a b + distance (fieldArith T) b c)
    (sub : Array (Pos K)) (l : List (Pos K)) (i : Nat) (st : CatOpt K K)
    (hl : ∀ k : Nat, l[k]? = sub[i + k]?) (hinv : CatInv T sub i st) :
    PostOk (catOptLoop (fieldArith T) sub l i st) (fun r => 0 ≤ r.optimized) := by
  induction l generalizing i st with
  | nil => exact (postOk_ok _ _).mpr hinv.1
  | cons curr rest ih =>
    simp only [catOptLoop]
    have hc : sub[i]? = some curr := by simpa using (hl 0).symm
    refine PostOk.bind (catOptStep_inv T h0 htri sub st i curr hc hinv) ?_
    intro st1 h1
    refine ih (i + 1) st1 ?_ h1
    intro k
    have := hl (k + 1)
    simp only [List.getElem?_cons_succ] at this
    rw [this]
    congr 1
    omega

theorem catPreserves_field (isOsu : Bool) (h0 : T.sqrt 0 = 0)
    (htri : ∀ a b c : Pos K, distance (fieldArith T) a c ≤
      distance (fieldArith T) a b + distance (fieldArith T) b c) :
    CatPreserves (fieldArith T) isOsu (fun x : K => 0 ≤ x) := by
  intro _ sub init hls hlr hq
  refine catOptLoop_inv T h0 htri sub sub.toList 0 init (by intro k; simp) ⟨hq, fun _ => ?_, ?_⟩
  · rw [hlr]; simp [fieldArith]
  · intro ls h; rw [hls] at h; cases h

/-- ★ `optimized_len ≥ 0` after `calculate_path` (every mode). -/
theorem calculatePath_optimized_nonneg (_hs : ∀ x, 0 ≤ T.sqrt x) (h0 : T.sqrt 0 = 0)
    (htri : ∀ a b c : Pos K, distance (fieldArith T) a c ≤
      distance (fieldArith T) a b + distance (fieldArith T) b c)
    (fuel : Nat) (isOsu : Bool) (pts : Array (CP K)) (st st' : PathSt K K)
    (h : calculatePath (fieldArith T) fuel isOsu pts st = .ok st') (hst : 0 ≤ st.optimized) :
    0 ≤ st'.optimized :=
  calculatePath_opt (fieldArith T) fuel isOsu (fun x : K => 0 ≤ x)
    (catPreserves_field T isOsu h0 htri) pts st hst (by simp [fieldArith]) st' h

omit [IsStrictOrderedRing K] in
/-- non-osu modes: `optimized_len` stays `0` (nothing is assumed about `sqrt`). -/
theorem calculatePath_optimized_zero (fuel : Nat) (pts : Array (CP K)) (st st' : PathSt K K)
    (h : calculatePath (fieldArith T) fuel false pts st = .ok st') (hst : st.optimized = 0) :
    st'.optimized = 0 := by
  rcases calculatePath_optimized_nonosu (fieldArith T) fuel pts st st' h with h | h
  · rw [h, hst]
  · rw [h]; simp [fieldArith]

/-! ## `Curve::new` end to end -/

theorem curveNew_split {S D : Type} (A : Arith S D) (fuel : Nat) (isOsu : Bool)
    (pts : Array (CP S)) (expected : Option D) (prev : Array (Pos S)) (bez : Bez S)
    (c : Curve S D) (b' : Bez S) (h : curveNew A fuel isOsu pts expected prev bez = .ok (c, b')) :
    ∃ st, calculatePath A fuel isOsu pts { path := prev, optimized := A.dOfInt 0, bez := bez }
        = .ok st ∧ calculateLength A st.path expected st.optimized = .ok (c.path, c.lengths) := by
  unfold curveNew at h
  cases hp : calculatePath A fuel isOsu pts { path := prev, optimized := A.dOfInt 0, bez := bez } with
  | error e => rw [hp] at h; cases h
  | ok st =>
    rw [hp] at h
    simp only [ok_bind] at h
    cases hl : calculateLength A st.path expected st.optimized with
    | error e => rw [hl] at h; cases h
    | ok r =>
      obtain ⟨p, l⟩ := r
      rw [hl] at h
      simp only [ok_bind, Except.ok.injEq, Prod.mk.injEq] at h
      obtain ⟨rfl, rfl⟩ := h
      exact ⟨st, rfl, hl⟩

/-- ★ the cumulative lengths of `Curve::new` are sorted, non-negative, start at 0 (every mode) -/
theorem curveNew_lengths (hs : ∀ x, 0 ≤ T.sqrt x) (h0 : T.sqrt 0 = 0)
    (htri : ∀ a b c : Pos K, distance (fieldArith T) a c ≤
      distance (fieldArith T) a b + distance (fieldArith T) b c)
    (fuel : Nat) (isOsu : Bool) (pts : Array (CP K)) (expected : Option K)
    (prev : Array (Pos K)) (bez : Bez K) (c : Curve K K) (b' : Bez K)
    (h : curveNew (fieldArith T) fuel isOsu pts expected prev bez = .ok (c, b')) :
    c.lengths.toList.Pairwise (· ≤ ·) ∧ (∀ l ∈ c.lengths.toList, 0 ≤ l) ∧
      c.lengths[0]? = some 0 ∧ 0 ≤ dist (fieldArith T) c.lengths := by
  obtain ⟨st, hp, hl⟩ := curveNew_split (fieldArith T) fuel isOsu pts expected prev bez c b' h
  have hopt : 0 ≤ st.optimized :=
    calculatePath_optimized_nonneg T hs h0 htri fuel isOsu pts _ st hp (by simp [fieldArith])
  exact calculateLength_sorted T hs st.path expected st.optimized hopt c.path c.lengths hl

/-- the same outside osu!, with no triangle inequality -/
theorem curveNew_lengths_nonosu (hs : ∀ x, 0 ≤ T.sqrt x)
    (fuel : Nat) (pts : Array (CP K)) (expected : Option K)
    (prev : Array (Pos K)) (bez : Bez K) (c : Curve K K) (b' : Bez K)
    (h : curveNew (fieldArith T) fuel false pts expected prev bez = .ok (c, b')) :
    c.lengths.toList.Pairwise (· ≤ ·) ∧ (∀ l ∈ c.lengths.toList, 0 ≤ l) ∧
      c.lengths[0]? = some 0 ∧ 0 ≤ dist (fieldArith T) c.lengths := by
  obtain ⟨st, hp, hl⟩ := curveNew_split (fieldArith T) fuel false pts expected prev bez c b' h
  have hopt : 0 ≤ st.optimized :=
    (calculatePath_optimized_zero T fuel pts _ st hp (by simp [fieldArith])).ge
  exact calculateLength_sorted T hs st.path expected st.optimized hopt c.path c.lengths hl

/-- ★ `position_at` of a curve built by `Curve::new` stays inside the bounding box of its vertices -/
theorem curveNew_positionAt_in_bbox (hs : ∀ x, 0 ≤ T.sqrt x) (h0 : T.sqrt 0 = 0)
    (htri : ∀ a b c : Pos K, distance (fieldArith T) a c ≤
      distance (fieldArith T) a b + distance (fieldArith T) b c)
    (fuel : Nat) (isOsu : Bool) (pts : Array (CP K)) (expected : Option K)
    (prev : Array (Pos K)) (bez : Bez K) (c : Curve K K) (b' : Bez K) (hb : BezWF bez)
    (h : curveNew (fieldArith T) fuel isOsu pts expected prev bez = .ok (c, b'))
    (hne : 0 < c.path.size) (lo hi : Pos K)
    (hbox : ∀ v ∈ c.path.toList, lo.x ≤ v.x ∧ v.x ≤ hi.x ∧ lo.y ≤ v.y ∧ v.y ≤ hi.y) (p : K) :
    ∃ q, positionAt (fieldArith T) c p = .ok q ∧
      lo.x ≤ q.x ∧ q.x ≤ hi.x ∧ lo.y ≤ q.y ∧ q.y ≤ hi.y :=
  positionAt_in_bbox T c
    (curveNew_sizes (fieldArith T) fuel isOsu pts expected prev bez hb c b' h).1
    (curveNew_lengths T hs h0 htri fuel isOsu pts expected prev bez c b' h).1 hne lo hi hbox p

end Rosu.Curve
