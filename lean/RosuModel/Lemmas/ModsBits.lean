import RosuModel.Model.Mods

/-! Bit-level lemmas about the legacy / intermode conversions of `Model/Mods.lean` (core tactics only). -/
namespace Rosu.Mods

theorem legacyContains_bit (b i : Nat) : legacyContains b (bit i) = b.testBit i := by
  unfold legacyContains bit
  cases h : b.testBit i
  · -- false
    apply Bool.eq_false_iff.mpr
    intro hc
    have hc' : b &&& 2 ^ i = 2 ^ i := by simpa using hc
    have := congrArg (fun x => x.testBit i) hc'
    simp [Nat.testBit_and, h] at this
  · have : b &&& 2 ^ i = 2 ^ i := by
      apply Nat.eq_of_testBit_eq
      intro j
      simp only [Nat.testBit_and, Nat.testBit_two_pow]
      by_cases hij : i = j
      · subst hij; simp [h]
      · simp [hij]
    simp [this]

theorem legacyContains_bit2 (b i j : Nat) :
    legacyContains b (bit i ||| bit j) = (b.testBit i && b.testBit j) := by
  unfold legacyContains bit
  cases hi : b.testBit i <;> cases hj : b.testBit j
  all_goals first
    | (apply Bool.eq_false_iff.mpr
       intro hc
       have hc' : b &&& (2 ^ i ||| 2 ^ j) = 2 ^ i ||| 2 ^ j := by simpa using hc
       have h1 := congrArg (fun x => x.testBit i) hc'
       have h2 := congrArg (fun x => x.testBit j) hc'
       simp [Nat.testBit_and, Nat.testBit_or, Nat.testBit_two_pow, hi, hj] at h1 h2)
    | (have : b &&& (2 ^ i ||| 2 ^ j) = 2 ^ i ||| 2 ^ j := by
         apply Nat.eq_of_testBit_eq
         intro k
         simp only [Nat.testBit_and, Nat.testBit_or, Nat.testBit_two_pow]
         by_cases hik : i = k <;> by_cases hjk : j = k <;> simp_all
       simp [this])

theorem testBit_legacyFromBits (b i : Nat) :
    (legacyFromBits b).testBit i = (decide (i < 30) && b.testBit i) := by
  unfold legacyFromBits
  rw [Nat.testBit_and, Nat.testBit_two_pow_sub_one, Bool.and_comm]

theorem testBit_not32_bit (i j : Nat) (hi : i < 32) :
    (not32 (bit i)).testBit j = (decide (j < 32) && !decide (i = j)) := by
  unfold not32 bit
  rw [Nat.testBit_xor, Nat.testBit_two_pow_sub_one, Nat.testBit_two_pow]
  by_cases h : i = j
  · subst h; simp [hi]
  · simp [h]


/-- bit `j` of the value `from_bits` iterates over, after the NC / PF special handling -/
def adjBit (b j : Nat) : Bool :=
  b.testBit j && decide (j < 32) &&
    (if j = 6 then !b.testBit 9 else if j = 9 then b.testBit 6
     else if j = 5 then !b.testBit 14 else if j = 14 then b.testBit 5 else true)

theorem testBit_adjust (b j : Nat) : (adjust b).testBit j = adjBit b j := by
  unfold adjust adjBit
  simp only [Nat.testBit_and]
  have e1 : ((b &&& (bit 9 ||| bit 6)) == (bit 9 ||| bit 6)) = (b.testBit 9 && b.testBit 6) :=
    legacyContains_bit2 b 9 6
  rw [e1]
  -- the first mask
  have m1 : (if (b.testBit 9 && b.testBit 6) = true then not32 (bit 6) else not32 (bit 9)).testBit j =
      (decide (j < 32) && (if (b.testBit 9 && b.testBit 6) then !decide (6 = j) else !decide (9 = j))) := by
    split <;> rename_i h <;> simp [testBit_not32_bit]
  -- the PF test on the intermediate value
  have e2 : ∀ x : Nat, ((x &&& (bit 14 ||| bit 5)) == (bit 14 ||| bit 5)) = (x.testBit 14 && x.testBit 5) :=
    fun x => legacyContains_bit2 x 14 5
  rw [e2]
  simp only [Nat.testBit_and]
  have m2 : ∀ c : Bool, (if c = true then not32 (bit 5) else not32 (bit 14)).testBit j =
      (decide (j < 32) && (if c then !decide (5 = j) else !decide (14 = j))) := by
    intro c; cases c <;> simp [testBit_not32_bit]
  rw [m1, m2]
  have n14 : (if (b.testBit 9 && b.testBit 6) = true then not32 (bit 6) else not32 (bit 9)).testBit 14 = true := by
    split <;> simp [testBit_not32_bit]
  have n5 : (if (b.testBit 9 && b.testBit 6) = true then not32 (bit 6) else not32 (bit 9)).testBit 5 = true := by
    split <;> simp [testBit_not32_bit]
  rw [n14, n5]
  by_cases h6 : j = 6
  · subst h6; cases b.testBit 6 <;> cases b.testBit 9 <;> cases b.testBit 14 <;> cases b.testBit 5 <;> simp
  by_cases h9 : j = 9
  · subst h9; cases b.testBit 6 <;> cases b.testBit 9 <;> cases b.testBit 14 <;> cases b.testBit 5 <;> simp
  by_cases h5 : j = 5
  · subst h5; cases b.testBit 6 <;> cases b.testBit 9 <;> cases b.testBit 14 <;> cases b.testBit 5 <;> simp
  by_cases h14 : j = 14
  · subst h14; cases b.testBit 6 <;> cases b.testBit 9 <;> cases b.testBit 14 <;> cases b.testBit 5 <;> simp
  have a6 : ¬ 6 = j := fun h => h6 h.symm
  have a9 : ¬ 9 = j := fun h => h9 h.symm
  have a5 : ¬ 5 = j := fun h => h5 h.symm
  have a14 : ¬ 14 = j := fun h => h14 h.symm
  simp only [h6, h9, h5, h14, a6, a9, a5, a14, if_false, decide_false, Bool.not_false, Bool.and_true]
  cases b.testBit j <;> cases decide (j < 32) <;> cases (b.testBit 9 && b.testBit 6) <;>
    cases (b.testBit 14 && b.testBit 5) <;> simp

theorem mem_zipBits (bits : Nat) (ms : List IMod) (m : IMod) :
    m ∈ zipBits bits ms ↔ ∃ i, ms[i]? = some m ∧ bits.testBit i = true := by
  induction ms generalizing bits with
  | nil => simp [zipBits]
  | cons a ms ih =>
    unfold zipBits
    by_cases h0 : bits = 0
    · subst h0; simp
    · rw [if_neg h0]
      have hsplit : (∃ i, (a :: ms)[i]? = some m ∧ bits.testBit i = true) ↔
          ((a = m ∧ bits.testBit 0 = true) ∨ ∃ i, ms[i]? = some m ∧ (bits / 2).testBit i = true) := by
        constructor
        · rintro ⟨i, h1, h2⟩
          cases i with
          | zero => left; exact ⟨by simpa using h1, h2⟩
          | succ i => right; exact ⟨i, by simpa using h1, by simpa [Nat.testBit_succ] using h2⟩
        · rintro (⟨h1, h2⟩ | ⟨i, h1, h2⟩)
          · exact ⟨0, by simpa using h1, h2⟩
          · exact ⟨i + 1, by simpa using h1, by simpa [Nat.testBit_succ] using h2⟩
      rw [hsplit]
      by_cases h1 : bits % 2 = 1
      · rw [if_pos h1]
        have : bits.testBit 0 = true := by simp [Nat.testBit_zero, h1]
        simp only [List.mem_cons, this, and_true, ih]
        constructor
        · rintro (h | h)
          · exact Or.inl h.symm
          · exact Or.inr h
        · rintro (h | h)
          · exact Or.inl h.symm
          · exact Or.inr h
      · rw [if_neg h1]
        have : bits.testBit 0 = false := by simp [Nat.testBit_zero, h1]
        simp [this, ih]

theorem bitflag_idx_of_get : ∀ i, i < 31 → (bitflagMods[i]?).bind IMod.idx = some i := by decide

theorem bitflag_get_of_idx (m : IMod) :
    match m.idx with
    | some i => bitflagMods[i]? = some m
    | none => True := by
  cases m <;> simp [IMod.idx, bitflagMods]

theorem bitflag_get_iff (i : Nat) (m : IMod) : bitflagMods[i]? = some m ↔ m.idx = some i := by
  constructor
  · intro h
    have hlt : i < 31 := by
      have := (List.getElem?_eq_some_iff.mp h).1
      simpa [bitflagMods] using this
    have := bitflag_idx_of_get i hlt
    rw [h] at this
    simpa using this
  · intro h
    have := bitflag_get_of_idx m
    rw [h] at this
    exact this

/-- the bit of `m` under a bit-reading function; `false` for mods without a legacy bit -/
def bitOf (f : Nat → Bool) (m : IMod) : Bool :=
  match m.idx with
  | some i => f i
  | none => false

/-- membership in `GameModsIntermode::from_bits(b)` -/
theorem contains_fromBits (b : Nat) (m : IMod) :
    (fromBits b).contains m = bitOf (adjBit b) m := by
  unfold bitOf
  have key : m ∈ fromBits b ↔ ∃ i, m.idx = some i ∧ adjBit b i = true := by
    unfold fromBits
    rw [mem_zipBits]
    constructor
    · rintro ⟨i, h1, h2⟩; exact ⟨i, (bitflag_get_iff i m).mp h1, by rw [← testBit_adjust]; exact h2⟩
    · rintro ⟨i, h1, h2⟩; exact ⟨i, (bitflag_get_iff i m).mpr h1, by rw [testBit_adjust]; exact h2⟩
  cases hm : m.idx with
  | none =>
    have : ¬ m ∈ fromBits b := by rw [key]; simp [hm]
    simp [this]
  | some i =>
    cases hb : adjBit b i with
    | false =>
      have : ¬ m ∈ fromBits b := by rw [key]; simp [hm, hb]
      simp [this, hb]
    | true =>
      have : m ∈ fromBits b := by rw [key]; exact ⟨i, hm, hb⟩
      simp [this, hb]

end Rosu.Mods
