import RosuModel.Lemmas.CurveSafe
import RosuModel.Lemmas.CurveQuarter

/-!
# The `theta_end` loop of `circular_arc_properties`, and a counter-model for the bezier stack loop

* over an ordered field, with `atan2` answering in `[−π, π]` and `π > 0`, the loop
  `while theta_end < theta_start { theta_end += 2π }` runs at most once;
* "the stack loop of `approximate_bspline` terminates in EVERY arithmetic" is false: in an arithmetic
  whose `<` never reports flatness the loop subdivides forever (the Rust loop has no depth limit) —
  this is what happens in `f32` once the coordinates are so large that adjacent floats are more than
  `0.5` apart (second differences cannot get below one ulp).
-/
namespace Rosu.Curve

set_option linter.unusedSectionVars false

section field
variable {K : Type} [Field K] [LinearOrder K] [IsStrictOrderedRing K] (T : Transc K)

theorem twoPi_field : twoPi (fieldArith T) = 2 * T.pi := by
  simp [twoPi, fieldArith]

/-- At most one iteration: any fuel `≥ 1` suffices. -/
theorem thetaLoop_field (ts te : K) (_hpi : 0 < T.pi) (h1 : -T.pi ≤ te) (h2 : ts ≤ T.pi)
    (fuel : Nat) :
    ∃ te', thetaLoop (fieldArith T) ts (fuel + 1) te = .ok te' ∧
      (te' = te ∨ te' = te + 2 * T.pi) ∧ ts ≤ te' := by
  unfold thetaLoop
  by_cases h : te < ts
  · have hlt : (fieldArith T).dLt te ts = true := by simp [fieldArith, h]
    have hnot : ¬ (te + 2 * T.pi < ts) := by
      intro hh; linarith
    have hlt2 : (fieldArith T).dLt ((fieldArith T).dAdd te (twoPi (fieldArith T))) ts = false := by
      rw [twoPi_field]; simp [fieldArith, hnot]
    rw [if_pos hlt]
    refine ⟨te + 2 * T.pi, ?_, Or.inr rfl, by linarith⟩
    cases fuel with
    | zero =>
      unfold thetaLoop; rw [hlt2]
      simp only [Bool.false_eq_true, if_false, twoPi_field]
      rfl
    | succ f =>
      unfold thetaLoop; rw [hlt2]
      simp only [Bool.false_eq_true, if_false, twoPi_field]
      rfl
  · have hlt : (fieldArith T).dLt te ts = false := by simp [fieldArith, h]
    rw [hlt]
    exact ⟨te, by simp, Or.inl rfl, not_lt.mp h⟩

end field

/-! ## counter-model: an arithmetic in which no curve is ever flat -/

/-- All values are `()`, every comparison answers `true`. -/
def spinArith : Arith Unit Unit where
  sOfInt _ := ()
  sNeg _ := ()
  sAdd _ _ := ()
  sSub _ _ := ()
  sMul _ _ := ()
  sDiv _ _ := ()
  sAbs _ := ()
  sLt _ _ := true
  sLe _ _ := true
  sEq _ _ := true
  sAcos _ := ()
  dOfInt _ := ()
  dAdd _ _ := ()
  dSub _ _ := ()
  dMul _ _ := ()
  dDiv _ _ := ()
  dAbs _ := ()
  dLt _ _ := true
  dLe _ _ := true
  dSqrt _ := ()
  dAtan2 _ _ := ()
  dSin _ := ()
  dCos _ := ()
  dCeilUsize _ := 0
  dPi := ()
  toD _ := ()
  toS _ := ()

theorem anyNotFlat_spin : ∀ l : List (Pos Unit), 3 ≤ l.length → anyNotFlat spinArith l = true
  | a :: b :: c :: rest, _ => by simp [anyNotFlat, spinArith]
  | [], h => by simp at h
  | [_], h => by simp at h
  | [_, _], h => by simp at h

/-- With `p ≥ 3` control points per curve the stack never empties: every fuel runs out. -/
theorem bsplineLoop_spins (p : Nat) (hp : 3 ≤ p) :
    ∀ (fuel : Nat) (stack : List (Array (Pos Unit))) (path : Array (Pos Unit)) (b : Bez Unit),
      stack ≠ [] → (∀ c ∈ stack, c.size = p) → BufGE p b →
      bsplineLoop spinArith p fuel stack path b = .error .fuel
  | 0, [], _, _, h, _, _ => absurd rfl h
  | 0, _ :: _, _, _, _, _, _ => rfl
  | fuel + 1, [], _, _, h, _, _ => absurd rfl h
  | fuel + 1, parent :: rest, path, b, _, hs, hb => by
    have hpar : parent.size = p := hs parent (List.mem_cons_self ..)
    have hflat : isFlatEnough spinArith parent = false := by
      unfold isFlatEnough
      rw [anyNotFlat_spin parent.toList (by rw [Array.length_toList, hpar]; exact hp)]
      rfl
    obtain ⟨lc, rc, mid, hsub, hl, hr, hm⟩ := subdivide_ok spinArith parent b.leftChild
      (Array.replicate p (zero spinArith)) b.mid (by omega) (by rw [hpar]; exact hb.2.2.2)
      (by rw [hpar]; simp) (by rw [hpar]; exact hb.2.2.1)
    have hneed : need (decide (p ≤ lc.size) && decide (parent.size = p)) = .ok () := by
      have : p ≤ lc.size := by rw [hl]; exact hb.2.2.2
      simp [need, this, hpar]
    simp only [bsplineLoop, hflat, Bool.false_eq_true, if_false, hsub, hneed, bind, Except.bind]
    apply bsplineLoop_spins p hp fuel
    · simp
    · intro c hc
      simp only [List.mem_cons] at hc
      rcases hc with rfl | rfl | hc
      · rw [Array.size_extract, hl]; have := hb.2.2.2; omega
      · rw [hr]; simp
      · exact hs c (List.mem_cons_of_mem _ hc)
    · exact ⟨hb.1, hb.2.1, by show p ≤ mid.size; rw [hm]; exact hb.2.2.1,
        by show p ≤ lc.size; rw [hl]; exact hb.2.2.2⟩

/-- `approximate_bezier` on three control points in `spinArith`: no amount of fuel is enough. -/
theorem approximateBezier_spins (fuel : Nat) (a b c : Pos Unit) :
    approximateBezier spinArith fuel #[] #[a, b, c] emptyBez = .error .fuel := by
  have hb : BufGE 3 (extendExact spinArith (emptyBez : Bez Unit) 3) :=
    (extendExact_wf spinArith emptyBez 3 (emptyBez_wf)).2
  have := bsplineLoop_spins 3 (Nat.le_refl 3) fuel [#[a, b, c]] #[]
    (extendExact spinArith (emptyBez : Bez Unit) 3) (by simp)
    (by intro x hx; simp at hx; subst hx; rfl) hb
  unfold approximateBezier
  simp only [bind, Except.bind]
  have e : (#[a, b, c] : Array (Pos Unit)).size = 3 := rfl
  rw [e, this]

end Rosu.Curve
