import RosuModel.Lemmas.GradualOsu

/-! Helper lemmas for the osu!mania gradual model. -/

namespace Rosu.Gradual

variable {S : Type}

/-- `(curr_combo, n_hold_notes)` step of the gradual path. -/
def maniaAccStep (a : Nat × Nat) (o : ManiaObj) : Nat × Nat :=
  if o.isCircle then (a.1 + o.incOne, a.2) else (a.1 + o.incOne, a.2 + 1)

def maniaGradPrefix (objs : List ManiaObj) (k : Nat) : Nat × Nat :=
  (objs.take k).foldl maniaAccStep (0, 0)

theorem maniaGradPrefix_succ (objs : List ManiaObj) (k : Nat) (o : ManiaObj)
    (hk : objs[k]? = some o) :
    maniaGradPrefix objs (k + 1) = maniaAccStep (maniaGradPrefix objs k) o := by
  unfold maniaGradPrefix
  rw [List.take_add_one, hk]
  simp [List.foldl_append]

theorem maniaIncr_acc (g : ManiaGrad S) (o : ManiaObj) :
    ((g.incr o).currCombo, (g.incr o).nHoldNotes) = maniaAccStep (g.currCombo, g.nHoldNotes) o ∧
    (g.incr o).idx = g.idx ∧ (g.incr o).skills = g.skills := by
  unfold ManiaGrad.incr maniaAccStep
  split <;> simp

structure ManiaCanon (sk : Skills S) (objs : List ManiaObj) (g : ManiaGrad S) (i : Nat) : Prop where
  idx : g.idx = i
  acc : (g.currCombo, g.nHoldNotes) = maniaGradPrefix objs (max i 1)
  skills : g.skills = processedPrefix sk (i - 1)
  le : i ≤ objs.length

theorem maniaNew_canon (sk : Skills S) (objs : List ManiaObj) :
    ManiaCanon sk objs (maniaNew sk objs) 0 := by
  refine ⟨?_, ?_, ?_, Nat.zero_le _⟩
  · cases objs with
    | nil => rfl
    | cons h t => simp only [maniaNew, List.head?_cons]; exact (maniaIncr_acc _ h).2.1
  · cases objs with
    | nil => simp [maniaNew, maniaGradPrefix]
    | cons h t =>
      simp only [maniaNew, List.head?_cons]
      rw [(maniaIncr_acc _ h).1]
      simp [maniaGradPrefix]
  · cases objs with
    | nil => rfl
    | cons h t => simp only [maniaNew, List.head?_cons]; exact (maniaIncr_acc _ h).2.2

/-- The value reported after `i ≥ 1` objects. -/
def maniaValue (sk : Skills S) (objs : List ManiaObj) (i : Nat) : ManiaCounts × S :=
  ({ maxCombo := (maniaGradPrefix objs i).1, nObjects := i, nHoldNotes := (maniaGradPrefix objs i).2 },
   processedPrefix sk (i - 1))

theorem maniaOut_eq (g : ManiaGrad S) (p : Nat × Nat) (hacc : (g.currCombo, g.nHoldNotes) = p) :
    maniaOut g = ({ maxCombo := p.1, nObjects := g.idx, nHoldNotes := p.2 }, g.skills) := by
  subst hacc
  rfl

theorem maniaStep_canon (sk : Skills S) (objs : List ManiaObj) (g : ManiaGrad S) (i : Nat) (o : ManiaObj)
    (hc : ManiaCanon sk objs g i) (hi : 1 ≤ i) (ho : objs[i]? = some o) (hlt : i < objs.length) :
    ManiaCanon sk objs { (g.incr o) with idx := g.idx + 1, skills := sk.process g.skills (i - 1) } (i + 1) := by
  obtain ⟨hidx, hacc, hsk, hle⟩ := hc
  have hmax : max i 1 = i := by omega
  have hmax' : max (i + 1) 1 = i + 1 := by omega
  refine ⟨by simp [hidx], ?_, ?_, by omega⟩
  · simp only [hmax']
    rw [maniaGradPrefix_succ objs i o ho, ← hmax, ← hacc]
    exact (maniaIncr_acc g o).1
  · simp only [hsk, Nat.add_sub_cancel]
    have : i = (i - 1) + 1 := by omega
    conv => rhs; rw [this]
    rw [processedPrefix_succ]

theorem maniaNext_spec (sk : Skills S) (objs : List ManiaObj) (g : ManiaGrad S) (i : Nat)
    (hc : ManiaCanon sk objs g i) :
    (i < objs.length →
      (maniaNext sk objs g).1 = .some (maniaValue sk objs (i + 1)) ∧
      ManiaCanon sk objs (maniaNext sk objs g).2 (i + 1)) ∧
    (i = objs.length → maniaNext sk objs g = (.none, g)) := by
  have hidx := hc.idx
  have hacc := hc.acc
  have hsk := hc.skills
  constructor
  · intro hlt
    cases i with
    | zero =>
      have hne : objs.isEmpty = false := by
        cases objs with
        | nil => simp at hlt
        | cons _ _ => rfl
      simp only [maniaNext, hidx, Nat.lt_irrefl, ↓reduceIte, hne, Bool.false_eq_true, gt_iff_lt]
      refine ⟨?_, ⟨by simp [hidx], by simpa using hacc, by simpa using hsk, by omega⟩⟩
      have hacc1 : (g.currCombo, g.nHoldNotes) = maniaGradPrefix objs 1 := by simpa using hacc
      rw [maniaOut_eq { idx := 0 + 1, currCombo := g.currCombo, nHoldNotes := g.nHoldNotes, skills := g.skills } _ hacc1]
      simp [maniaValue, hsk]
    | succ j =>
      obtain ⟨o, ho⟩ : ∃ o, objs[j + 1]? = some o := by
        rw [List.getElem?_eq_getElem hlt]; exact ⟨_, rfl⟩
      have hdl : j < objs.length - 1 := by omega
      have hcan := maniaStep_canon sk objs g (j + 1) o hc (by omega) ho hlt
      simp only [maniaNext, hidx, gt_iff_lt, Nat.zero_lt_succ, ↓reduceIte, Nat.add_sub_cancel, hdl, ho]
      simp only [hidx, Nat.add_sub_cancel] at hcan
      refine ⟨?_, hcan⟩
      have hmax' : max (j + 1 + 1) 1 = j + 1 + 1 := by omega
      have h2 := hcan.acc
      rw [hmax'] at h2
      rw [maniaOut_eq _ _ h2]
      simp [maniaValue, hsk, processedPrefix_succ]
  · intro heq
    cases i with
    | zero =>
      have hne : objs.isEmpty = true := by
        cases objs with
        | nil => rfl
        | cons _ _ => simp at heq
      simp [maniaNext, hidx, hne]
    | succ j =>
      have hdl : ¬ (j < objs.length - 1) := by omega
      simp [maniaNext, hidx, hdl]

theorem maniaLen_spec (sk : Skills S) (objs : List ManiaObj) (g : ManiaGrad S) (i : Nat)
    (hc : ManiaCanon sk objs g i) : maniaLen objs g = some (objs.length - i) := by
  obtain ⟨hidx, _, _, hle⟩ := hc
  unfold maniaLen csub
  cases objs with
  | nil => simp at hle; simp [hidx, hle]
  | cons h t =>
    simp only [List.isEmpty_cons, Bool.false_eq_true, ↓reduceIte, hidx, List.length_cons] at *
    simp [hle]

theorem maniaNthLoop_spec (sk : Skills S) (objs : List ManiaObj) (k : Nat) (g : ManiaGrad S) (i : Nat)
    (hc : ManiaCanon sk objs g i) (hi : 1 ≤ i) :
    ManiaCanon sk objs (maniaNthLoop sk objs.tail k (i - 1) g) (i + min k (objs.length - i)) := by
  induction k generalizing g i with
  | zero => simpa [maniaNthLoop] using hc
  | succ k ih =>
    unfold maniaNthLoop
    rw [tail_getElem?]
    have hi1 : i - 1 + 1 = i := by omega
    rw [hi1]
    by_cases hlt : i < objs.length
    · obtain ⟨o, ho⟩ : ∃ o, objs[i]? = some o := by
        rw [List.getElem?_eq_getElem hlt]; exact ⟨_, rfl⟩
      simp only [ho]
      have hcan := maniaStep_canon sk objs g i o hc hi ho hlt
      have := ih _ (i + 1) hcan (by omega)
      simp only [Nat.add_sub_cancel] at this
      have e : i + 1 + min k (objs.length - (i + 1)) = i + min (k + 1) (objs.length - i) := by omega
      rw [e] at this
      exact this
    · have : objs[i]? = none := by simp; omega
      simp only [this]
      have e : i + min (k + 1) (objs.length - i) = i := by omega
      rw [e]
      exact hc

/-- `nth k` (as fixed): value `i + k + 1` when more than `k` values remain, otherwise `None` and the
exhausted state. -/
theorem maniaNth_spec (sk : Skills S) (objs : List ManiaObj) (g : ManiaGrad S) (i k : Nat)
    (hc : ManiaCanon sk objs g i) :
    (i + k < objs.length →
      (maniaNth sk objs g k).1 = .some (maniaValue sk objs (i + k + 1)) ∧
        ManiaCanon sk objs (maniaNth sk objs g k).2 (i + k + 1)) ∧
    (objs.length ≤ i + k → (maniaNth sk objs g k).1 = .none ∧
        ManiaCanon sk objs (maniaNth sk objs g k).2 objs.length) := by
  have hle := hc.le
  have hlen := maniaLen_spec sk objs g i hc
  have hidx := hc.idx
  have hpre : ∃ g2, ManiaCanon sk objs g2 (i + min k (objs.length - i)) ∧
      maniaNth sk objs g k = maniaNext sk objs g2 := by
    unfold maniaNth
    simp only [hlen]
    by_cases h0 : g.idx = 0 ∧ min k (objs.length - i) > 0
    · have hi0 : i = 0 := by omega
      subst hi0
      have hn : 0 < objs.length := by omega
      rw [if_pos h0]
      have hc1 : ManiaCanon sk objs { g with idx := g.idx + 1 } 1 :=
        ⟨by simp [hidx], by simpa using hc.acc, by simpa using hc.skills, hn⟩
      have h1 := maniaNthLoop_spec sk objs (min k (objs.length - 0) - 1) _ 1 hc1 (Nat.le_refl _)
      have e : 1 + min (min k (objs.length - 0) - 1) (objs.length - 1) = 0 + min k (objs.length - 0) := by omega
      rw [e] at h1
      refine ⟨_, h1, ?_⟩
      simp [h0.1]
    · rw [if_neg h0]
      by_cases hi : 1 ≤ i
      · have h1 := maniaNthLoop_spec sk objs (min k (objs.length - i)) g i hc hi
        have e : i + min (min k (objs.length - i)) (objs.length - i) = i + min k (objs.length - i) := by omega
        rw [e] at h1
        exact ⟨_, h1, by simp [hidx]⟩
      · have hi0 : i = 0 := by omega
        subst hi0
        have ht : min k (objs.length - 0) = 0 := by
          have : ¬ (min k (objs.length - 0) > 0) := fun h => h0 ⟨hidx, h⟩
          omega
        refine ⟨g, by rw [ht]; exact hc, ?_⟩
        simp only [ht, maniaNthLoop]
  obtain ⟨g2, hc2, heq2⟩ := hpre
  rw [heq2]
  constructor
  · intro hlt
    have e : i + min k (objs.length - i) = i + k := by omega
    rw [e] at hc2
    exact (maniaNext_spec sk objs g2 _ hc2).1 hlt
  · intro hge
    have e : i + min k (objs.length - i) = objs.length := by omega
    rw [e] at hc2
    have hn := (maniaNext_spec sk objs g2 _ hc2).2 rfl
    rw [hn]
    exact ⟨rfl, hc2⟩

end Rosu.Gradual

namespace Rosu.Gradual

variable {S : Type}

theorem mania_nexts_spec (sk : Skills S) (objs : List ManiaObj) (k : Nat) (g : ManiaGrad S) (i : Nat)
    (hc : ManiaCanon sk objs g i) (hk : i + k ≤ objs.length) :
    ((maniaMachine sk objs).nexts g k).1 =
      (List.range k).map (fun d => Res.some (maniaValue sk objs (i + d + 1))) ∧
    ManiaCanon sk objs ((maniaMachine sk objs).nexts g k).2 (i + k) := by
  induction k generalizing g i with
  | zero => simpa [Machine.nexts] using hc
  | succ k ih =>
    have hlt : i < objs.length := by omega
    obtain ⟨hv, hc'⟩ := (maniaNext_spec sk objs g i hc).1 hlt
    have ih' := ih _ (i + 1) hc' (by omega)
    simp only [Machine.nexts]
    have hn : (maniaMachine sk objs).next g =
        (Res.some (maniaValue sk objs (i + 1)), (maniaNext sk objs g).2) := by
      show maniaNext sk objs g = _
      rw [← hv]
    rw [hn]
    refine ⟨?_, ?_⟩
    · simp only
      rw [ih'.1, List.range_succ_eq_map]
      simp only [List.map_cons, List.map_map, Nat.add_zero]
      congr 1
      apply List.map_congr_left
      intro d _
      simp only [Function.comp]
      congr 2
      omega
    · have e : i + (k + 1) = i + 1 + k := by omega
      rw [e]; exact ih'.2

theorem maniaMachine_next_exhausted (sk : Skills S) (objs : List ManiaObj) (g : ManiaGrad S)
    (hc : ManiaCanon sk objs g objs.length) :
    (maniaMachine sk objs).next g = (.none, g) :=
  (maniaNext_spec sk objs g _ hc).2 rfl

end Rosu.Gradual
