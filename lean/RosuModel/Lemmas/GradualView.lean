import RosuModel.Model.GradualView
import RosuModel.Lemmas.GradualOsu

/-!
Lemmas for the object-visibility layer (`Model/GradualView.lean`): congruence of the processing
folds in the skill, algebra of `visible`, and the list constructors (length, commutation with
truncation, positions).
-/

namespace Rosu.GradualView
open Rosu.Gradual

variable {S : Type}

/-! ## Congruence of the processing folds -/

theorem processFrom_congr (sk1 sk2 : Skills S) (hi : Nat)
    (hp : ∀ s j, j < hi → sk1.process s j = sk2.process s j) :
    ∀ (k lo : Nat) (s : S), lo + k ≤ hi → processFrom sk1 s lo k = processFrom sk2 s lo k := by
  intro k
  induction k with
  | zero => intro lo s _; rfl
  | succ k ih =>
    intro lo s h
    simp only [processFrom]
    rw [hp s lo (by omega)]
    exact ih (lo + 1) _ (by omega)

/-- Two skills with the same initial state that agree on the indices below `k` produce the same
state after the first `k` difficulty objects. -/
theorem processedPrefix_congr (sk1 sk2 : Skills S) (k : Nat) (h0 : sk1.init = sk2.init)
    (hp : ∀ s j, j < k → sk1.process s j = sk2.process s j) :
    processedPrefix sk1 k = processedPrefix sk2 k := by
  unfold processedPrefix
  rw [h0]
  exact processFrom_congr sk1 sk2 k hp k 0 _ (by omega)

/-- A skill that reads at most `la` ahead cannot tell two lists apart whose visible parts coincide
at every processed position. -/
theorem processedPrefix_toSkills_congr (vs : ViewSkills S) (la : Ahead) (hr : vs.Respects la)
    (L L' : View) (k : Nat) (h : ∀ j, j < k → visible la j L = visible la j L') :
    processedPrefix (vs.toSkills L) k = processedPrefix (vs.toSkills L') k :=
  processedPrefix_congr _ _ k rfl (fun s j hj => hr s j L L' (h j hj))

/-! ## `visible` -/

theorem visible_idem (la : Ahead) (i : Nat) (L : View) :
    visible la i (visible la i L) = visible la i L := by
  cases la with
  | bounded k => simp [visible, List.take_take]
  | unbounded => rfl

/-- A skill that looks at most `k` ahead also looks at most `k'` ahead for every `k' ≥ k`. -/
theorem visible_mono (k k' i : Nat) (L L' : View) (hk : k ≤ k')
    (h : visible (.bounded k') i L = visible (.bounded k') i L') :
    visible (.bounded k) i L = visible (.bounded k) i L' := by
  simp only [visible] at *
  have : ∀ M : View, M.take (i + 1 + k) = (M.take (i + 1 + k')).take (i + 1 + k) := by
    intro M; rw [List.take_take]; congr 1; omega
  rw [this L, this L', h]

theorem visible_unbounded_implies (la : Ahead) (i : Nat) (L L' : View)
    (h : visible .unbounded i L = visible .unbounded i L') : visible la i L = visible la i L' := by
  simp only [visible] at h
  rw [h]

/-- Truncating the list at `m` is invisible at position `i` for look-ahead `k` exactly when the
window `i + 1 + k` fits into `m` (or nothing was cut off). -/
theorem visible_take_iff (k i m : Nat) (L : View) :
    visible (.bounded k) i (L.take m) = visible (.bounded k) i L ↔ (i + 1 + k ≤ m ∨ L.length ≤ m) := by
  simp only [visible, List.take_take, List.take_eq_take_iff]
  omega

theorem visible_unbounded_take_iff (i m : Nat) (L : View) :
    visible .unbounded i (L.take m) = visible .unbounded i L ↔ L.length ≤ m := by
  simp only [visible]
  constructor
  · intro h
    have := congrArg List.length h
    simp only [List.length_take] at this
    omega
  · intro h
    exact List.take_of_length_le h

/-! ## The constructors -/

theorem pairCreateGo_length (l : List Nat) : ∀ idx last, (pairCreateGo idx last l).length = l.length := by
  induction l with
  | nil => intro _ _; rfl
  | cons h t ih => intro idx last; simp [pairCreateGo, ih]

theorem pairCreate_length (raw : List Nat) : (pairCreate raw).length = raw.length - 1 := by
  cases raw with
  | nil => rfl
  | cons f r => simp [pairCreate, pairCreateGo_length]

theorem pairCreateGo_take (l : List Nat) :
    ∀ idx last m, (pairCreateGo idx last l).take m = pairCreateGo idx last (l.take m) := by
  induction l with
  | nil => intro _ _ m; simp [pairCreateGo]
  | cons h t ih =>
    intro idx last m
    cases m with
    | zero => simp [pairCreateGo]
    | succ m => simp [pairCreateGo, ih]

/-- Construction commutes with truncation (the constructors read backwards only): building from
the first `m + 1` raw objects gives the first `m` difficulty objects of the full list. -/
theorem pairCreate_take (raw : List Nat) (m : Nat) :
    pairCreate (raw.take (m + 1)) = (pairCreate raw).take m := by
  cases raw with
  | nil => simp [pairCreate]
  | cons f r => simp [pairCreate, pairCreateGo_take]

theorem pairCreate_take_zero (raw : List Nat) : pairCreate (raw.take 0) = [] := by
  simp [pairCreate]

theorem osuCreateGo_length (l : List Nat) :
    ∀ idx last ll, (osuCreateGo idx last ll l).length = l.length := by
  induction l with
  | nil => intro _ _ _; rfl
  | cons h t ih => intro idx last ll; simp [osuCreateGo, ih]

theorem osuCreate_length (take : Nat) (raw : List Nat) :
    (osuCreate take raw).length = if take = 0 then 0 else raw.length - 1 := by
  cases raw with
  | nil => simp [osuCreate]
  | cons f r =>
    by_cases h : take = 0
    · simp [osuCreate, h]
    · have : take > 0 := by omega
      simp [osuCreate, this, h, osuCreateGo_length]

theorem osuCreateGo_take (l : List Nat) :
    ∀ idx last ll m, (osuCreateGo idx last ll l).take m = osuCreateGo idx last ll (l.take m) := by
  induction l with
  | nil => intro _ _ _ m; simp [osuCreateGo]
  | cons h t ih =>
    intro idx last ll m
    cases m with
    | zero => simp [osuCreateGo]
    | succ m => simp [osuCreateGo, ih]

theorem osuCreate_take (take : Nat) (raw : List Nat) (m : Nat) :
    osuCreate take (raw.take (m + 1)) = (osuCreate take raw).take m := by
  cases raw with
  | nil => simp [osuCreate]
  | cons f r =>
    by_cases h : take > 0
    · simp [osuCreate, h, osuCreateGo_take]
    · simp [osuCreate, h]

/-- The limit only matters through `take > 0`. -/
theorem osuCreate_pos (t t' : Nat) (raw : List Nat) (h : 0 < t) (h' : 0 < t') :
    osuCreate t raw = osuCreate t' raw := by
  cases raw with
  | nil => rfl
  | cons f r => simp [osuCreate, h, h']

/-- Position = `idx` (what `next` / `previous` index with). -/
theorem pairCreateGo_idx (l : List Nat) :
    ∀ idx last j (d : DObj), (pairCreateGo idx last l)[j]? = some d → d.idx = idx + j := by
  induction l with
  | nil => intro _ _ j d h; simp [pairCreateGo] at h
  | cons h t ih =>
    intro idx last j d hd
    cases j with
    | zero => simp [pairCreateGo] at hd; rw [← hd]; rfl
    | succ j =>
      simp only [pairCreateGo, List.getElem?_cons_succ] at hd
      have := ih (idx + 1) h j d hd
      omega

theorem pairCreate_idx (raw : List Nat) (j : Nat) (d : DObj) (h : (pairCreate raw)[j]? = some d) :
    d.idx = j := by
  cases raw with
  | nil => simp [pairCreate] at h
  | cons f r => have := pairCreateGo_idx r 0 f j d h; omega

theorem osuCreateGo_idx (l : List Nat) :
    ∀ idx last ll j (d : DObj), (osuCreateGo idx last ll l)[j]? = some d → d.idx = idx + j := by
  induction l with
  | nil => intro _ _ _ j d h; simp [osuCreateGo] at h
  | cons h t ih =>
    intro idx last ll j d hd
    cases j with
    | zero => simp [osuCreateGo] at hd; rw [← hd]; rfl
    | succ j =>
      simp only [osuCreateGo, List.getElem?_cons_succ] at hd
      have := ih (idx + 1) h (some last) j d hd
      omega

theorem osuCreate_idx (take : Nat) (raw : List Nat) (j : Nat) (d : DObj)
    (h : (osuCreate take raw)[j]? = some d) : d.idx = j := by
  cases raw with
  | nil => simp [osuCreate] at h
  | cons f r =>
    by_cases ht : take > 0
    · simp only [osuCreate, ht, if_true] at h
      have := osuCreateGo_idx r 0 f none j d h; omega
    · simp [osuCreate, ht] at h

/-- On a constructed list `next(k)` is positional: `Some` exactly when position `j + k + 1` exists. -/
theorem next_isSome_iff (L : View) (hidx : ∀ (j : Nat) (d : DObj), L[j]? = some d → d.idx = j) (j k : Nat) (d : DObj)
    (hd : L[j]? = some d) : (next d k L).isSome ↔ j + k + 1 < L.length := by
  unfold next
  rw [hidx j d hd]
  have e : j + (k + 1) = j + k + 1 := by omega
  rw [e]
  constructor
  · intro h
    rcases Nat.lt_or_ge (j + k + 1) L.length with hl | hl
    · exact hl
    · rw [List.getElem?_eq_none hl] at h; simp at h
  · intro h
    rw [List.getElem?_eq_getElem h]; simp

/-! ## The paths process what `Model/Gradual.lean` says they process -/

theorem osuOneShotPath_loop (n take : Nat) :
    (osuOneShotPath n take).loop = min ((min n take) - 1) (osuDiffLen n take) := by
  unfold osuOneShotPath osuDiffLen
  simp only [osuCreate_length, List.length_range]
  by_cases h : take = 0
  · simp [h]
  · by_cases hn : n = 0
    · simp [hn]
    · simp [h, hn]

theorem osuOneShotPathHoisted_loop (n take : Nat) :
    (osuOneShotPathHoisted n take).loop = min ((min n take) - 1) (osuDiffLen n take) := by
  unfold osuOneShotPathHoisted osuDiffLen
  simp only [osuCreate_length, List.length_take, List.length_range]
  by_cases h : take = 0
  · simp [h]
  · by_cases hn : n = 0
    · simp [hn]
    · simp only [h, hn, if_false, false_or]
      omega

theorem catchOneShotPath_loop (p take : Nat) : (catchOneShotPath p take).loop = (min p take) - 1 := by
  unfold catchOneShotPath
  simp only [pairCreate_length, List.length_take, List.length_range]
  omega

theorem maniaOneShotPath_loop (n take : Nat) : (maniaOneShotPath n take).loop = (min take n) - 1 := by
  unfold maniaOneShotPath
  simp only [pairCreate_length, List.length_take, List.length_range]

theorem taikoCreateList_length (n : Nat) : (taikoCreateList (List.range n)).length = n - 2 := by
  unfold taikoCreateList
  simp only [pairCreate_length, List.length_drop, List.length_range]
  omega

theorem taikoCreate_listLen (objs : List Bool) (take : Nat) :
    (taikoCreate objs take).1 = objs.length - 2 := by
  unfold taikoCreate
  by_cases h : objs.length < 2
  · simp [h]; omega
  · simp [h]

/-- The list the view model builds has the length the counting model assumes. -/
theorem taikoOneShotPath_list_length (objs : List Bool) (take : Nat) :
    (taikoOneShotPath objs take).list.length = (taikoCreate objs take).1 := by
  unfold taikoOneShotPath
  simp only [taikoCreateList_length, taikoCreate_listLen]

/-! ## Truncated lists and the free (trace) instance -/

/-- Backwards-only skills cannot tell a truncated list from the full one while they process
positions inside the truncated part. -/
theorem take_prefix_congr (vs : ViewSkills S) (hr : vs.Respects (.bounded 0)) (L : View) (m c : Nat)
    (hc : c ≤ m) :
    processedPrefix (vs.toSkills (L.take m)) c = processedPrefix (vs.toSkills L) c :=
  processedPrefix_toSkills_congr vs _ hr _ _ c
    (fun j hj => (visible_take_iff 0 j m L).mpr (Or.inl (by omega)))

theorem processedPrefix_zero (sk : Skills S) : processedPrefix sk 0 = sk.init := rfl

/-- The trace of the free instance, explicitly. -/
theorem trace_eq_map (la : Ahead) (L : View) (k : Nat) :
    processedPrefix ((traceSkills la).toSkills L) k =
      (List.range k).map (fun i => (⟨i, visible la i L⟩ : Step)) := by
  induction k with
  | zero => rfl
  | succ k ih =>
    rw [processedPrefix_succ, ih, List.range_succ, List.map_append]
    rfl

theorem traceSkills_respects (la : Ahead) : (traceSkills la).Respects la := by
  intro s i L L' h
  simp only [traceSkills]
  rw [h]

/-- Every skill that respects `la` is a replay of the free instance's trace: equal traces give
equal skill states. -/
theorem replay_trace (vs : ViewSkills S) (la : Ahead) (hr : vs.Respects la) (L : View) (k : Nat) :
    processedPrefix (vs.toSkills L) k = replay vs (processedPrefix ((traceSkills la).toSkills L) k) := by
  induction k with
  | zero => rfl
  | succ k ih =>
    rw [processedPrefix_succ, processedPrefix_succ, ih]
    simp only [replay, ViewSkills.toSkills, traceSkills, List.foldl_append, List.foldl_cons, List.foldl_nil]
    exact hr _ k L (visible la k L) (visible_idem la k L).symm

/-- Trace equality is step-wise equality of the visible parts. -/
theorem trace_eq_iff (la : Ahead) (L L' : View) (k : Nat) :
    processedPrefix ((traceSkills la).toSkills L) k = processedPrefix ((traceSkills la).toSkills L') k ↔
      ∀ i, i < k → visible la i L = visible la i L' := by
  rw [trace_eq_map, trace_eq_map]
  constructor
  · intro h i hi
    have := List.map_inj_left.mp h i (List.mem_range.mpr hi)
    exact (Step.mk.injEq _ _ _ _ ▸ this).2
  · intro h
    apply List.map_congr_left
    intro i hi
    rw [h i (List.mem_range.mp hi)]

/-- All `m` objects of a list truncated at `m` are processed: the views agree with the full list
at every step exactly when the skill looks backwards only, or nothing was processed, or nothing was
cut off. -/
theorem views_agree_truncated_iff (k m : Nat) (L : View) :
    (∀ i, i < m → visible (.bounded k) i (L.take m) = visible (.bounded k) i L) ↔
      (k = 0 ∨ m = 0 ∨ L.length ≤ m) := by
  constructor
  · intro h
    rcases Nat.eq_zero_or_pos m with hm | hm
    · exact Or.inr (Or.inl hm)
    · have := (visible_take_iff k (m - 1) m L).mp (h (m - 1) (by omega))
      omega
  · intro h i hi
    apply (visible_take_iff k i m L).mpr
    omega

end Rosu.GradualView
