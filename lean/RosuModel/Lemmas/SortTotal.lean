import RosuModel.Lemmas.LegacySort

/-!
# Totality of `heap_sort` and `osu_legacy::sort`

The literal models of `Model/Sort.lean` return `none` when a slice index is out of bounds, when a
`usize` subtraction underflows, or when the fuel of one of the `while` loops runs out.  This file
proves that none of this ever happens:

* `heapSort gt l lo hi` returns for **every** comparison function `gt`, provided only
  `lo ≤ hi < l.length` (what `depth_limited_quick_sort` passes): the sift-down index arithmetic
  `lo + child - 1`, `lo + child`, `lo + i - 1` stays inside `lo..=hi`, and `down_heap` finishes
  within the fuel the model gives it (`i` at least doubles per iteration).
* `dlqs` / `legacySort` return for **every** input list — sorted or not — every `gt`, and every
  `lt` that is irreflexive (`¬ x < x`, true of IEEE `<` even with NaNs).  The scans
  `while keys[i] < keys[mid]` / `while keys[mid] < keys[j]` cannot leave the window because of a
  *sentinel invariant* that survives the code's re-reading of the pivot from `keys[mid]` after a
  swap moved it: there is always a position `≥ i` whose element is not `<` the current pivot and
  a position `≤ j` that the current pivot is not `<`.  Nothing else about the order is needed.

All results also state that the length of the slice is unchanged.
-/

namespace Rosu.Sort

variable {α : Type}

/-! ## swaps -/

theorem swap?_total {l : List α} {a b : Nat} (ha : a < l.length) (hb : b < l.length) :
    ∃ l', swap? l a b = some l' ∧ l'.length = l.length := by
  unfold swap?
  rw [List.getElem?_eq_getElem ha, List.getElem?_eq_getElem hb]
  exact ⟨_, rfl, by simp⟩

theorem swap?_len {l l' : List α} {a b : Nat} (h : swap? l a b = some l') :
    l'.length = l.length := by
  unfold swap? at h
  split at h
  · cases h; simp
  · cases h

/-- Where the elements are after a successful swap. -/
theorem swap?_get {l l' : List α} {a b : Nat} {x y : α} (h : swap? l a b = some l')
    (hx : l[a]? = some x) (hy : l[b]? = some y) (k : Nat) :
    l'[k]? = if k = b then some x else if k = a then some y else l[k]? := by
  unfold swap? at h
  rw [hx, hy] at h
  simp only at h
  cases h
  rcases List.getElem?_eq_some_iff.mp hx with ⟨ha, _⟩
  rcases List.getElem?_eq_some_iff.mp hy with ⟨hb, _⟩
  rw [List.getElem?_set, List.getElem?_set]
  by_cases e1 : b = k
  · subst e1
    simp [hb]
  · by_cases e2 : a = k
    · subst e2
      have : ¬ a = b := fun e => e1 e.symm
      simp [ha, e1, this]
    · have e1' : ¬ k = b := fun e => e1 e.symm
      have e2' : ¬ k = a := fun e => e2 e.symm
      simp [e1, e2, e1', e2']

theorem swapIfGreater_total (gt : α → α → Bool) {l : List α} {a b : Nat} (ha : a < l.length)
    (hb : b < l.length) : ∃ l', swapIfGreater gt l a b = some l' ∧ l'.length = l.length := by
  unfold swapIfGreater
  by_cases hne : a ≠ b
  · rw [if_pos hne, List.getElem?_eq_getElem ha, List.getElem?_eq_getElem hb]
    simp only
    split
    · exact swap?_total ha hb
    · exact ⟨l, rfl, rfl⟩
  · rw [if_neg hne]
    exact ⟨l, rfl, rfl⟩

theorem swapNe_total {l : List α} {a b : Nat} (ha : a < l.length) (hb : b < l.length) :
    ∃ l', swapNe l a b = some l' ∧ l'.length = l.length := by
  unfold swapNe
  split
  · exact swap?_total ha hb
  · exact ⟨l, rfl, rfl⟩

/-! ## `heap_sort` -/

/-- The child index chosen by `down_heap` is `2i` or `2i + 1` and stays inside the heap. -/
theorem pickChild_total (gt : α → α → Bool) {l : List α} {i n lo : Nat} (hi : i ≤ n / 2)
    (hb : lo + n ≤ l.length) :
    ∃ c, pickChild gt l i n lo = some c ∧ 2 * i ≤ c ∧ c ≤ n := by
  unfold pickChild
  by_cases h : 2 * i < n
  · rw [if_pos h, List.getElem?_eq_getElem (by omega : lo + 2 * i - 1 < l.length),
      List.getElem?_eq_getElem (by omega : lo + 2 * i < l.length)]
    simp only
    split
    · exact ⟨_, rfl, by omega, by omega⟩
    · exact ⟨_, rfl, by omega, by omega⟩
  · rw [if_neg h]
    exact ⟨_, rfl, by omega, by omega⟩

/-- `down_heap` returns: for a 1-based heap index `1 ≤ i ≤ n` in a heap that lies inside the slice
(`lo + n ≤ len`), with fuel `≥ n + 1 - i`.  No assumption on the comparison function. -/
theorem downHeap_total (gt : α → α → Bool) :
    ∀ (fuel : Nat) (l : List α) (i n lo : Nat), 1 ≤ i → i ≤ n → lo + n ≤ l.length →
      n + 1 ≤ fuel + i → ∃ l', downHeap gt fuel l i n lo = some l' ∧ l'.length = l.length := by
  intro fuel
  induction fuel with
  | zero => intro l i n lo h1 h2 _ h4; omega
  | succ fuel ih =>
    intro l i n lo h1 h2 hb hf
    unfold downHeap
    by_cases hi : i ≤ n / 2
    · rw [if_pos hi]
      obtain ⟨c, hc, hc1, hc2⟩ := pickChild_total gt hi hb
      rw [hc]
      simp only
      rw [List.getElem?_eq_getElem (by omega : lo + i - 1 < l.length),
        List.getElem?_eq_getElem (by omega : lo + c - 1 < l.length)]
      simp only
      split
      · exact ⟨l, rfl, rfl⟩
      · obtain ⟨l2, hs, hl2⟩ := swap?_total (l := l) (by omega : lo + i - 1 < l.length)
          (by omega : lo + c - 1 < l.length)
        rw [hs]
        simp only
        obtain ⟨l3, h3, hl3⟩ := ih l2 c n lo (by omega) hc2 (by omega) (by omega)
        exact ⟨l3, h3, by omega⟩
    · rw [if_neg hi]
      exact ⟨l, rfl, rfl⟩

theorem heapBuild_total (gt : α → α → Bool) (n lo : Nat) :
    ∀ (k : Nat) (l : List α), k ≤ n / 2 → lo + n ≤ l.length →
      ∃ l', heapBuild gt n lo k l = some l' ∧ l'.length = l.length := by
  intro k
  induction k with
  | zero => intro l _ _; exact ⟨l, rfl, rfl⟩
  | succ k ih =>
    intro l hk hb
    unfold heapBuild
    obtain ⟨l2, h2, hl2⟩ := downHeap_total gt (n + 1) l (k + 1) n lo (by omega) (by omega) hb
      (by omega)
    rw [h2]
    simp only
    obtain ⟨l3, h3, hl3⟩ := ih l2 (by omega) (by omega)
    exact ⟨l3, h3, by omega⟩

theorem heapExtract_total (gt : α → α → Bool) (lo : Nat) :
    ∀ (k : Nat) (l : List α), lo + k + 1 ≤ l.length →
      ∃ l', heapExtract gt lo k l = some l' ∧ l'.length = l.length := by
  intro k
  induction k with
  | zero => intro l _; exact ⟨l, rfl, rfl⟩
  | succ k ih =>
    intro l hb
    unfold heapExtract
    obtain ⟨l2, h2, hl2⟩ := swapNe_total (l := l) (a := lo) (b := lo + (k + 2) - 1) (by omega)
      (by omega)
    rw [h2]
    simp only
    obtain ⟨l3, h3, hl3⟩ := downHeap_total gt (k + 3) l2 1 (k + 1) lo (by omega) (by omega)
      (by omega) (by omega)
    rw [h3]
    simp only
    obtain ⟨l4, h4, hl4⟩ := ih l3 (by omega)
    exact ⟨l4, h4, by omega⟩

/-- `heap_sort(keys, lo, hi, cmp)` returns for every comparison function whenever
`lo ≤ hi < keys.len()`. -/
theorem heapSort_total (gt : α → α → Bool) (l : List α) (lo hi : Nat) (h1 : lo ≤ hi)
    (h2 : hi < l.length) : ∃ l', heapSort gt l lo hi = some l' ∧ l'.length = l.length := by
  unfold heapSort
  rw [if_neg (by omega)]
  simp only
  obtain ⟨l2, hb, hl2⟩ := heapBuild_total gt (hi - lo + 1) lo ((hi - lo + 1) / 2) l (Nat.le_refl _)
    (by omega)
  rw [hb]
  simp only
  obtain ⟨l3, he, hl3⟩ := heapExtract_total gt lo (hi - lo + 1 - 1) l2 (by omega)
  exact ⟨l3, he, by omega⟩

/-! ## the scans of the partition loop -/

/-- `while keys[i] < keys[mid] { i += 1 }` stops at or before a sentinel position `k ≥ i` whose
element is not `<` the pivot. -/
theorem scanUp_total {lt : α → α → Bool} {l : List α} {mid : Nat} {p : α}
    (hp : l[mid]? = some p) :
    ∀ (fuel i k : Nat) (y : α), i ≤ k → l[k]? = some y → lt y p = false → k + 1 ≤ fuel + i →
      ∃ i', scanUp lt l mid fuel i = some i' ∧ i ≤ i' ∧ i' ≤ k := by
  intro fuel
  induction fuel with
  | zero => intro i k y h1 _ _ h4; omega
  | succ fuel ih =>
    intro i k y hik hy hlt hf
    rcases List.getElem?_eq_some_iff.mp hy with ⟨hk, _⟩
    unfold scanUp
    rw [List.getElem?_eq_getElem (by omega : i < l.length), hp]
    simp only
    split
    · next hx =>
      have hne : i ≠ k := by
        intro e
        subst e
        rw [List.getElem?_eq_getElem hk] at hy
        cases hy
        rw [hlt] at hx
        cases hx
      obtain ⟨i', h, h1, h2⟩ := ih (i + 1) k y (by omega) hy hlt (by omega)
      exact ⟨i', h, by omega, h2⟩
    · exact ⟨i, rfl, Nat.le_refl _, hik⟩

/-- `while keys[mid] < keys[j] { j -= 1 }` stops at or after a sentinel position `k ≤ j` that the
pivot is not `<`; in particular `j -= 1` never underflows. -/
theorem scanDown_total {lt : α → α → Bool} {l : List α} {mid : Nat} {p : α}
    (hp : l[mid]? = some p) :
    ∀ (fuel j k : Nat) (y : α), k ≤ j → j < l.length → l[k]? = some y → lt p y = false →
      j + 1 ≤ fuel + k → ∃ j', scanDown lt l mid fuel j = some j' ∧ k ≤ j' ∧ j' ≤ j := by
  intro fuel
  induction fuel with
  | zero => intro j k y h1 _ _ _ h4; omega
  | succ fuel ih =>
    intro j k y hkj hj hy hlt hf
    unfold scanDown
    rw [hp, List.getElem?_eq_getElem hj]
    simp only
    split
    · next hx =>
      have hne : j ≠ k := by
        intro e
        subst e
        rw [List.getElem?_eq_getElem hj] at hy
        cases hy
        rw [hlt] at hx
        cases hx
      rw [if_neg (by omega : ¬ j = 0)]
      obtain ⟨j', h, h1, h2⟩ := ih (j - 1) k y (by omega) (by omega) hy hlt (by omega)
      exact ⟨j', h, h1, by omega⟩
    · exact ⟨j, rfl, hkj, Nat.le_refl _⟩

/-! ## the partition loop -/

/--
The inner `loop` of `depth_limited_quick_sort` returns, for every irreflexive `lt`.

Hypotheses (the *sentinel invariant*): `kA ≥ i` holds an element that is not `<` the current pivot
`keys[mid]`, `kB ≤ j` holds an element the pivot is not `<`.  The invariant is re-established after
every swap even when the swap moves the pivot itself (`mid ∈ {i, j}`), because the code re-reads
`keys[mid]`.  `R` bounds everything from above; `kA < R ∨ j < R` excludes `i = j = R` (which
would make `right - i` underflow afterwards).
-/
theorem partLoop_total {lt : α → α → Bool} (hirr : ∀ x, lt x x = false) (mid R : Nat) :
    ∀ (fuel : Nat) (l : List α) (i j kA kB : Nat) (p a b : α),
      l[mid]? = some p → i ≤ j → j ≤ R → R < l.length →
      i ≤ kA → kA ≤ R → l[kA]? = some a → lt a p = false →
      kB ≤ j → l[kB]? = some b → lt p b = false →
      (kA < R ∨ j < R) → j + 1 ≤ fuel + i →
      ∃ l' i' j', partLoop lt mid fuel l i j = some (l', i', j') ∧ l'.length = l.length ∧
        i' ≤ R ∧ j' ≤ R := by
  intro fuel
  induction fuel with
  | zero => intro l i j kA kB p a b _ hij _ _ _ _ _ _ _ _ _ _ hf; omega
  | succ fuel ih =>
    intro l i j kA kB p a b hp hij hjR hR hiA hAR ha hap hBj hb hpb hne hf
    obtain ⟨i1, hu, hi1, hi1A⟩ := scanUp_total hp (l.length + 1) i kA a hiA ha hap (by omega)
    obtain ⟨j1, hd, hBj1, hj1⟩ :=
      scanDown_total hp (l.length + 1) j kB b hBj (by omega) hb hpb (by omega)
    obtain ⟨x, p1, hx, hp1, hxp⟩ := scanUp_spec _ _ _ hu
    obtain ⟨p2, y, hp2, hy, hpy⟩ := scanDown_spec _ _ _ hd
    rw [hp] at hp1 hp2
    cases hp1
    cases hp2
    unfold partLoop
    rw [hu]
    simp only
    rw [hd]
    simp only
    by_cases hgt : i1 > j1
    · rw [if_pos hgt]
      exact ⟨l, i1, j1, rfl, rfl, by omega, by omega⟩
    · rw [if_neg hgt]
      -- the (conditional) swap succeeds
      have hsw : ∃ l2, (if i1 < j1 then swap? l i1 j1 else some l) = some l2 ∧
          l2.length = l.length ∧
          (i1 < j1 → ∀ k, l2[k]? = if k = j1 then some x else if k = i1 then some y else l[k]?) := by
        by_cases hlt : i1 < j1
        · rw [if_pos hlt]
          obtain ⟨l2, h2, hl2⟩ := swap?_total (l := l) (a := i1) (b := j1) (by omega) (by omega)
          exact ⟨l2, h2, hl2, fun _ k => swap?_get h2 hx hy k⟩
        · rw [if_neg hlt]
          exact ⟨l, rfl, rfl, fun h => absurd h hlt⟩
      obtain ⟨l2, h2, hl2, hget⟩ := hsw
      rw [h2]
      simp only
      by_cases hbr : i1 + 1 > j1 - 1
      · rw [if_pos hbr]
        exact ⟨l2, _, _, rfl, hl2, by omega, by omega⟩
      · rw [if_neg hbr]
        have hlt : i1 < j1 := by omega
        have hget := hget hlt
        -- new pivot
        have hmidlt : mid < l.length := (List.getElem?_eq_some_iff.mp hp).1
        obtain ⟨p', hp'⟩ : ∃ p', l2[mid]? = some p' :=
          ⟨l2[mid]'(by omega), List.getElem?_eq_getElem (by omega)⟩
        have hA' : l2[j1]? = some x := by rw [hget j1, if_pos rfl]
        have hB' : l2[i1]? = some y := by
          rw [hget i1, if_neg (by omega), if_pos rfl]
        have hxp' : lt x p' = false := by
          have := hget mid
          rw [hp'] at this
          by_cases e1 : mid = j1
          · rw [if_pos e1] at this; cases this; exact hirr _
          · rw [if_neg e1] at this
            by_cases e2 : mid = i1
            · rw [if_pos e2] at this
              cases this
              -- the old pivot is `x` itself
              rw [e2, hx] at hp
              cases hp
              exact hpy
            · rw [if_neg e2, hp] at this; cases this; exact hxp
        have hpy' : lt p' y = false := by
          have := hget mid
          rw [hp'] at this
          by_cases e1 : mid = j1
          · rw [if_pos e1] at this
            cases this
            rw [e1, hy] at hp
            cases hp
            exact hxp
          · rw [if_neg e1] at this
            by_cases e2 : mid = i1
            · rw [if_pos e2] at this; cases this; exact hirr _
            · rw [if_neg e2, hp] at this; cases this; exact hpy
        obtain ⟨l3, i3, j3, h3, hl3, hi3, hj3⟩ :=
          ih l2 (i1 + 1) (j1 - 1) j1 i1 p' x y hp' (by omega) (by omega) (by omega)
            (by omega) (by omega) hA' hxp' (by omega) hB' hpy' (by omega) (by omega)
        exact ⟨l3, i3, j3, h3, by omega, hi3, hj3⟩

/-! ## `depth_limited_quick_sort` and `sort` -/

/-- `depth_limited_quick_sort(keys, left, right, depth)` returns for every input with
`left < right < keys.len()` — the shape of the initial call and of every recursive call —, every
`gt`, every irreflexive `lt`, every depth, provided the fallback returns on in-range arguments. -/
theorem dlqs_total {gt lt : α → α → Bool} (hirr : ∀ x, lt x x = false)
    {fb : List α → Nat → Nat → Option (List α)}
    (hfb : ∀ l lo hi, lo ≤ hi → hi < l.length → ∃ l', fb l lo hi = some l' ∧ l'.length = l.length) :
    ∀ (depth : Nat) (l : List α) (left right : Nat), left < right → right < l.length →
      ∃ l', dlqs gt lt fb depth l left right = some l' ∧ l'.length = l.length := by
  intro depth
  induction depth with
  | zero =>
    intro l left right h1 h2
    unfold dlqs
    exact hfb l left right (by omega) h2
  | succ depth ih =>
    intro l left right hlr hr
    have hmid2 : left + ((right - left) >>> 1) < right := by
      have : (right - left) >>> 1 < right - left := by
        rw [Nat.shiftRight_eq_div_pow]
        exact Nat.div_lt_self (by omega) (by decide)
      omega
    generalize hm : left + ((right - left) >>> 1) = mid at hmid2
    have hmid1 : left ≤ mid := by omega
    obtain ⟨l1, h1, e1⟩ := swapIfGreater_total gt (l := l) (a := left) (b := mid) (by omega)
      (by omega)
    obtain ⟨l2, h2, e2⟩ := swapIfGreater_total gt (l := l1) (a := left) (b := right) (by omega)
      (by omega)
    obtain ⟨l3, h3, e3⟩ := swapIfGreater_total gt (l := l2) (a := mid) (b := right) (by omega)
      (by omega)
    obtain ⟨p, hp⟩ : ∃ p, l3[mid]? = some p :=
      ⟨l3[mid]'(by omega), List.getElem?_eq_getElem (by omega)⟩
    obtain ⟨l4, i, j, h4, e4, hi, hj⟩ :=
      partLoop_total hirr mid right (l3.length + 1) l3 left right mid mid p p p hp (by omega)
        (Nat.le_refl _) (by omega) hmid1 (by omega) hp (hirr p) (by omega) hp (hirr p)
        (Or.inl hmid2) (by omega)
    unfold dlqs
    rw [if_neg (by omega)]
    simp only [hm, h1, h2, h3, h4]
    rw [if_neg (by omega)]
    have hlen4 : l4.length = l.length := by omega
    split
    · -- smaller half first: (left, j), then (i, right)
      have hfirst : ∃ l5, (if left < j then dlqs gt lt fb depth l4 left j else some l4) = some l5 ∧
          l5.length = l.length := by
        split
        · next hlj =>
          obtain ⟨l5, h5, e5⟩ := ih l4 left j hlj (by omega)
          exact ⟨l5, h5, by omega⟩
        · exact ⟨l4, rfl, hlen4⟩
      obtain ⟨l5, h5, e5⟩ := hfirst
      rw [h5]
      simp only
      split
      · exact ⟨l5, rfl, e5⟩
      · obtain ⟨l6, h6, e6⟩ := ih l5 i right (by omega) (by omega)
        exact ⟨l6, h6, by omega⟩
    · have hfirst : ∃ l5, (if i < right then dlqs gt lt fb depth l4 i right else some l4) = some l5 ∧
          l5.length = l.length := by
        split
        · next hir =>
          obtain ⟨l5, h5, e5⟩ := ih l4 i right hir (by omega)
          exact ⟨l5, h5, by omega⟩
        · exact ⟨l4, rfl, hlen4⟩
      obtain ⟨l5, h5, e5⟩ := hfirst
      rw [h5]
      simp only
      split
      · exact ⟨l5, rfl, e5⟩
      · obtain ⟨l6, h6, e6⟩ := ih l5 left j (by omega) (by omega)
        exact ⟨l6, h6, by omega⟩

/-- `osu_legacy::sort` with any depth limit returns for every list, every `gt` and every
irreflexive `lt` (quicksort part and `heap_sort` fallback). -/
theorem legacySortDepth_total {gt lt : α → α → Bool} (hirr : ∀ x, lt x x = false) (depth : Nat)
    (l : List α) : ∃ l', legacySortDepth gt lt depth l = some l' ∧ l'.length = l.length := by
  unfold legacySortDepth
  split
  · exact ⟨l, rfl, rfl⟩
  · exact dlqs_total hirr (fun l lo hi h1 h2 => heapSort_total gt l lo hi h1 h2) depth l 0
      (l.length - 1) (by omega) (by omega)

theorem legacySort_total {gt lt : α → α → Bool} (hirr : ∀ x, lt x x = false) (l : List α) :
    ∃ l', legacySort gt lt l = some l' ∧ l'.length = l.length :=
  legacySortDepth_total hirr quickSortDepthThreshold l

end Rosu.Sort
