import Mathlib.Algebra.Order.Field.Basic
import Mathlib.Tactic.Linarith
import Mathlib.Tactic.Positivity

/-!
The arithmetic skeleton of the strain skills over a linearly ordered field (the real-number reading):

* `StrainDecaySkill` / `define_skill!` pattern (osu! aim, speed, flashlight; taiko stamina, …):
  `current_strain *= strain_decay(delta); current_strain += evaluator(curr) * skill_multiplier`,
  `calculate_initial_strain = current_strain * strain_decay(time - prev_time)`;
* sum-of-skills pattern (taiko rhythm/reading/colour; catch movement; mania strain):
  `current_strain * decay + value * multiplier` with several components.

If the evaluator outputs, the decay factors (`0.x^(ms/1000) ≥ 0`) and the multipliers are `≥ 0`, the
running strain and every value handed to the section bookkeeping are `≥ 0`.
-/

namespace Rosu.StrainSkel

variable {K : Type} [Field K] [LinearOrder K] [IsStrictOrderedRing K]

/-- `current_strain * decay + value * multiplier` -/
def decayStep (cs decay value mult : K) : K := cs * decay + value * mult

theorem decayStep_nonneg {cs decay value mult : K} (hcs : 0 ≤ cs) (hd : 0 ≤ decay) (hv : 0 ≤ value)
    (hm : 0 ≤ mult) : 0 ≤ decayStep cs decay value mult := by
  unfold decayStep; positivity

/-- the running strain after any number of objects: `steps` = (decay factor, evaluator output) per object -/
def runStrain (mult : K) (cs0 : K) (steps : List (K × K)) : K :=
  steps.foldl (fun cs s => decayStep cs s.1 s.2 mult) cs0

theorem runStrain_nonneg {mult cs0 : K} (hm : 0 ≤ mult) (h0 : 0 ≤ cs0) :
    ∀ (steps : List (K × K)), (∀ s ∈ steps, 0 ≤ s.1 ∧ 0 ≤ s.2) → 0 ≤ runStrain mult cs0 steps := by
  intro steps
  induction steps generalizing cs0 with
  | nil => intro _; simpa [runStrain] using h0
  | cons s t ih =>
    intro h
    have hs := h s (by simp)
    have : 0 ≤ decayStep cs0 s.1 s.2 mult := decayStep_nonneg h0 hs.1 hs.2 hm
    simpa [runStrain] using ih this (fun x hx => h x (by simp [hx]))

/-- `calculate_initial_strain`: the decayed running strain -/
theorem initialStrain_nonneg {cs decay : K} (hcs : 0 ≤ cs) (hd : 0 ≤ decay) : 0 ≤ cs * decay :=
  mul_nonneg hcs hd

/-- every prefix of the run has a non-negative strain, hence every value handed to the section
bookkeeping (`strain_value_at`, possibly times a bonus `≥ 0`) and every initial strain is `≥ 0` -/
theorem strain_values_nonneg {mult cs0 : K} (hm : 0 ≤ mult) (h0 : 0 ≤ cs0) (steps : List (K × K))
    (h : ∀ s ∈ steps, 0 ≤ s.1 ∧ 0 ≤ s.2) (n : Nat) {bonus : K} (hb : 0 ≤ bonus) :
    0 ≤ runStrain mult cs0 (steps.take n) * bonus :=
  mul_nonneg (runStrain_nonneg hm h0 _ (fun s hs => h s (List.mem_of_mem_take hs))) hb

/-! ### taiko stamina: the single-colour variant never exceeds the normal one -/

/-- per object: `logistic_exp(x, Some(cs)) = cs / (1 + exp x) ≤ cs ≤ cs * monolength_bonus`
(`e = exp x ≥ 0`, `bonus = 1 + clamp(..) ≥ 1`; converts use `bonus = 1`) -/
theorem stamina_mono_value_le {cs e bonus : K} (hcs : 0 ≤ cs) (he : 0 ≤ e) (hb : 1 ≤ bonus) :
    0 ≤ cs / (1 + e) ∧ cs / (1 + e) ≤ cs * bonus := by
  have h1 : (0 : K) < 1 + e := by linarith
  refine ⟨div_nonneg hcs h1.le, ?_⟩
  have : cs / (1 + e) ≤ cs := by
    rw [div_le_iff₀ h1]; nlinarith
  nlinarith

/-- per section start: the single-colour skill starts from `0.0`, the normal one from the decayed strain -/
theorem stamina_mono_initial_le {cs decay : K} (hcs : 0 ≤ cs) (hd : 0 ≤ decay) : (0 : K) ≤ cs * decay :=
  mul_nonneg hcs hd

end Rosu.StrainSkel
