import RosuModel.Model.ManiaPattern
import RosuModel.Lemmas.Rng
import RosuModel.Lemmas.SafetyColumns
import RosuModel.Lemmas.ConvertWF

/-!
Lemmas about `Model/ManiaPattern.lean`: shared machinery (the `Except` monad, `Pat.add`,
`find_available_column` postcondition, the range of `get_random_column`) and the column bound of
the hit-object generator.  Path / end-time generators and the conversion loop:
`Lemmas/ManiaPatternPath.lean`.
-/
namespace Rosu.ManiaPattern
open Rosu.Safety Rosu.Rng Rosu.ConvertWF

variable {F : Type}

/-! ## monad plumbing -/

theorem bind_ok {α β : Type} {x : M α} {f : α → M β} {b : β}
    (h : (x >>= f) = Except.ok b) : ∃ a, x = Except.ok a ∧ f a = Except.ok b := by
  cases x with
  | error e => cases h
  | ok a => exact ⟨a, rfl, h⟩

theorem u8sub_ok {a b m : Nat} (h : u8sub a b = .ok m) : b ≤ a ∧ m = a - b := by
  unfold u8sub at h
  split at h
  · cases h
  · cases h; omega

theorem u8add_ok {a b m : Nat} (h : u8add a b = .ok m) : a + b ≤ 255 ∧ m = a + b := by
  unfold u8add at h
  split at h
  · cases h
  · cases h; omega

theorem i8sub_ok {a b m : Int} (h : i8sub a b = .ok m) : m = a - b ∧ -128 ≤ a - b ∧ a - b ≤ 127 := by
  unfold i8sub at h
  split at h
  · cases h
  · cases h; omega

/-! ## the law of `next_int_range` the column bounds rest on -/

/-- `next_int_range(lo, hi)` stays in `[lo, hi)` (for `lo < hi`, `0 < hi`, a 31-bit draw).  Proved
for the exact instance (`Lemmas/Rng.lean: rangeExact_bounds`); for the `Float` instance it is the
statement that `lo + d·(hi − lo)` with `d ≤ 1 − 2⁻³¹` does not round up to `hi`, which holds for
the small column ranges but is outside the kernel — covered by the exact tie. -/
structure RangeLaw (A : PArith F) : Prop where
  bounds : ∀ (lo hi : Int) (n : Nat), lo < hi → 0 < hi → n < 2147483648 →
    lo ≤ A.range lo hi n ∧ A.range lo hi n < hi

/-- the exact-arithmetic instance: `range` is the exact `trunc(lo + n/2³¹·(hi − lo))`; the
probability operations are irrelevant for the column theorems and are taken over `Int` hundredths -/
def exactArith : PArith Int where
  pct k := k
  draw n := n
  add := (· + ·)
  sub := (· - ·)
  mul := (· * ·)
  div := (· / ·)
  lt a b := decide (a < b)
  le a b := decide (a ≤ b)
  range := rangeExact
  ofInt i := i * 100
  floorI32 x := x / 100

theorem exactArith_rangeLaw : RangeLaw exactArith :=
  ⟨fun lo hi n h1 h2 h3 => ⟨(rangeExact_bounds lo hi n h1 h3).1, (rangeExact_bounds lo hi n h1 h3).2.2 h2⟩⟩

theorem asU8_of_range {v : Int} (h0 : 0 ≤ v) (h1 : v < 256) : (asU8 v : Int) = v := by
  unfold asU8
  rw [Int.emod_eq_of_lt h0 h1, Int.toNat_of_nonneg h0]

/-- `get_random_column(lower, upper)` is in `[lower, upper)` -/
theorem getRandomColumn_bounds {A : PArith F} (hA : RangeLaw A) (s : Osu) (lo hi : Nat)
    (h : lo < hi) (hh : hi ≤ 256) :
    lo ≤ (getRandomColumn A s lo hi).1 ∧ (getRandomColumn A s lo hi).1 < hi := by
  unfold getRandomColumn
  have hn := Osu.nextInt_lt s
  obtain ⟨h1, h2⟩ := hA.bounds (lo : Int) (hi : Int) s.nextInt.1 (by omega) (by omega) hn
  have h3 := asU8_of_range (v := A.range lo hi s.nextInt.1) (by omega) (by omega)
  simp only
  omega

/-! ## patterns -/

/-- every note of the pattern lies in a column below `T` -/
def PatOk (T : Nat) (p : Pat) : Prop :=
  (∀ n ∈ p.notes, n.col < T) ∧ (∀ c, p.cols.testBit c = true → c < T)

theorem PatOk.empty (T : Nat) : PatOk T Pat.empty := by
  constructor
  · intro n hn; cases hn
  · intro c hc; simp [Pat.empty] at hc

theorem Pat.add_notes {p p' : Pat} {c : Nat} {t : NoteTime} (h : p.add c t = .ok p') :
    p'.notes = p.notes ++ [⟨c, t⟩] := by
  unfold Pat.add at h
  split at h
  · cases h
  · cases h; rfl

theorem Pat.add_cols' {p p' : Pat} {c : Nat} {t : NoteTime} (h : p.add c t = .ok p') :
    p'.cols = p.cols ||| 2 ^ c := by
  unfold Pat.add Cols.insert shl16 at h
  split at h
  · cases h
  · rename_i c' hs
    split at hs
    · cases hs
    · rename_i b hb
      split at hb
      · cases hb; cases hs; cases h; rfl
      · cases hb

theorem PatOk.add {T : Nat} {p p' : Pat} {c : Nat} {t : NoteTime} (hp : PatOk T p) (hc : c < T)
    (h : p.add c t = .ok p') : PatOk T p' := by
  refine ⟨fun n hn => ?_, fun b hb => ?_⟩
  · rw [Pat.add_notes h, List.mem_append] at hn
    rcases hn with hn | hn
    · exact hp.1 n hn
    · simp only [List.mem_singleton] at hn; subst hn; exact hc
  · rw [Pat.add_cols' h, Nat.testBit_or, Nat.testBit_two_pow] at hb
    simp only [Bool.or_eq_true, decide_eq_true_eq] at hb
    rcases hb with hb | hb
    · exact hp.2 b hb
    · omega

theorem PatOk.single {T c : Nat} {t : NoteTime} {p : Pat} (hc : c < T) (h : Pat.single c t = .ok p) :
    PatOk T p := PatOk.add (PatOk.empty T) hc h

/-- a note that was added passed the `1u16 << column` check -/
theorem Pat.add_lt16 {p p' : Pat} {c : Nat} {t : NoteTime} (h : p.add c t = .ok p') : c < 16 := by
  unfold Pat.add Cols.insert shl16 at h
  split at h
  · cases h
  · rename_i hs
    split at hs
    · cases hs
    · rename_i hb
      split at hb
      · assumption
      · cases hb

theorem Pat.single_lt16 {p : Pat} {c : Nat} {t : NoteTime} (h : Pat.single c t = .ok p) : c < 16 :=
  Pat.add_lt16 h

theorem PatOk.append {T : Nat} {p q : Pat} (hp : PatOk T p) (hq : PatOk T q) : PatOk T (p.append q) := by
  refine ⟨fun n hn => ?_, fun b hb => ?_⟩
  · simp only [Pat.append, List.mem_append] at hn
    rcases hn with hn | hn
    · exact hp.1 n hn
    · exact hq.1 n hn
  · simp only [Pat.append, Nat.testBit_or, Bool.or_eq_true] at hb
    rcases hb with hb | hb
    · exact hp.2 b hb
    · exact hq.2 b hb

/-! ## `find_available_column`: the result is the initial column or a draw of the column source -/

theorem facLoopA_inv (P : Nat → Prop) (avoid : Option Nat) (patterns : List Cols)
    (next : Osu → Nat → M (Nat × Osu))
    (hnext : ∀ s col c s', P col → next s col = .ok (c, s') → P c) :
    ∀ (fuel : Nat) (s : Osu) (col c : Nat) (s' : Osu), P col →
      facLoopA avoid patterns next fuel s col = .ok (c, s') → P c := by
  intro fuel
  induction fuel with
  | zero => intro s col c s' _ h; cases h
  | succ k ih =>
    intro s col c s' hcol h
    unfold facLoopA at h
    split at h
    · cases h
    · rename_i col' s1 hn
      have hP := hnext s col col' s1 hcol hn
      split at h
      · cases h
      · cases h; exact hP
      · exact ih s1 col' c s' hP h

theorem findAvail_inv (P : Nat → Prop) {avoid : Option Nat} {patterns : List Cols} {lower upper : Nat}
    {next : Osu → Nat → M (Nat × Osu)} {fuel : Nat} {s s' : Osu} {initial c : Nat}
    (hnext : ∀ s col c s', P col → next s col = .ok (c, s') → P c) (hinit : P initial)
    (h : findAvail avoid patterns lower upper next fuel s initial = .ok (c, s')) : P c := by
  unfold findAvail at h
  split at h
  · cases h
  · cases h; exact hinit
  · split at h
    · cases h
    · cases h
    · exact facLoopA_inv P avoid patterns next hnext fuel s initial c s' hinit h

theorem randomNext_inv {A : PArith F} (hA : RangeLaw A) {lo hi : Nat} (h : lo < hi) (hh : hi ≤ 256)
    (s : Osu) (col c : Nat) (s' : Osu) (hn : randomNext A lo hi s col = .ok (c, s')) :
    lo ≤ c ∧ c < hi := by
  unfold randomNext at hn
  have := getRandomColumn_bounds hA s lo hi h hh
  cases hn
  exact this

/-! ## basic column facts -/

theorem randomStart_le (T : Nat) : randomStart T ≤ 1 := by
  unfold randomStart; split <;> omega

theorem randomStart_lt {T : Nat} (h : 1 ≤ T) : randomStart T < T := by
  unfold randomStart; split <;> omega

theorem getColumnSpecial_lt {T : Nat} (h1 : 1 ≤ T) (h16 : T ≤ 16) (x : Int) : getColumnSpecial T x < T := by
  unfold getColumnSpecial
  split
  · omega
  · have := column_lt_total x T h1
    have : column x T % 256 = column x T := Nat.mod_eq_of_lt (by omega)
    omega

/-- in 7K+1 the special-aware column never is the special column 0 -/
theorem getColumnSpecial_ge (T : Nat) (x : Int) : randomStart T ≤ getColumnSpecial T x := by
  unfold getColumnSpecial randomStart
  split <;> omega

theorem posColumn_lt {T : Nat} (h1 : 1 ≤ T) (c : Nat) : posColumn T c < T :=
  column_lt_total _ T h1

/-! ## hit-object generator: every note lies below the key count -/

section hit
variable {A : PArith F} (hA : RangeLaw A) (g : HitIn F) (h1 : 1 ≤ g.total) (h16 : g.total ≤ 16)
include hA h1 h16

theorem hitNextColumn_inv (s : Osu) (col c : Nat) (s' : Osu) (hcol : col < g.total)
    (h : hitNextColumn A g s col = .ok (c, s')) : c < g.total := by
  unfold hitNextColumn at h
  split at h
  · obtain ⟨l, hl, h2⟩ := bind_ok h
    have hl' := u8add_ok hl
    have hm : g.total % 256 = g.total := Nat.mod_eq_of_lt (by omega)
    have hrs := randomStart_lt h1
    split at h2
    · cases h2; exact hrs
    · cases h2; omega
  · cases h
    exact (getRandomColumn_bounds hA s _ _ (randomStart_lt h1) (by omega)).2

theorem hitRandomNotesLoop_ok (allow : Bool) :
    ∀ (k : Nat) (pat : Pat) (c : Nat) (s : Osu) (r : Pat × Osu), PatOk g.total pat → c < g.total →
      hitRandomNotesLoop A g allow k pat c s = .ok r → PatOk g.total r.1 := by
  intro k
  induction k with
  | zero => intro pat c s r hp _ h; unfold hitRandomNotesLoop at h; cases h; exact hp
  | succ k ih =>
    intro pat c s r hp hc h
    unfold hitRandomNotesLoop at h
    obtain ⟨⟨c', s'⟩, hf, h2⟩ := bind_ok h
    simp only at h2
    obtain ⟨pat', ha, h3⟩ := bind_ok h2
    have hc' : c' < g.total :=
      findAvail_inv (· < g.total) (fun s col c s' hcol hn => hitNextColumn_inv hA g h1 h16 s col c s' hcol hn) hc hf
    exact ih pat' c' s' r (hp.add hc' ha) hc' h3

theorem hitRandomNotes_ok (n : Int) (s : Osu) (r : Pat × Osu) (h : hitRandomNotes A g n s = .ok r) :
    PatOk g.total r.1 := by
  unfold hitRandomNotes at h
  exact hitRandomNotesLoop_ok hA g h1 h16 _ _ _ _ _ _ (PatOk.empty _) (getColumnSpecial_lt h1 h16 _) h

theorem hitRandomPattern_ok (p2 p3 p4 p5 : F) (s : Osu) (r : Pat × Osu)
    (h : hitRandomPattern A g p2 p3 p4 p5 s = .ok r) : PatOk g.total r.1 := by
  unfold hitRandomPattern at h
  generalize hitNoteCount A g p2 p3 p4 p5 s = nc at h
  obtain ⟨n, s1⟩ := nc
  simp only at h
  obtain ⟨⟨pat, s2⟩, hr, h2⟩ := bind_ok h
  have hp := hitRandomNotes_ok hA g h1 h16 n s1 _ hr
  simp only at h2 hp
  split at h2
  · obtain ⟨pat', ha, h3⟩ := bind_ok h2
    cases h3
    exact hp.add (by omega) ha
  · cases h2; exact hp

theorem hitMirroredLoop_ok (limit : Nat) (hl : randomStart g.total < limit) (hlt : limit ≤ g.total) :
    ∀ (k : Nat) (pat : Pat) (c : Nat) (s : Osu) (r : Pat × Osu), PatOk g.total pat →
      (randomStart g.total ≤ c ∧ c < limit) →
      hitMirroredLoop A g limit k pat c s = .ok r → PatOk g.total r.1 := by
  intro k
  induction k with
  | zero => intro pat c s r hp _ h; unfold hitMirroredLoop at h; cases h; exact hp
  | succ k ih =>
    intro pat c s r hp hc h
    unfold hitMirroredLoop at h
    simp only at h
    obtain ⟨⟨c', s'⟩, hf, h2⟩ := bind_ok h
    simp only at h2
    obtain ⟨pat1, ha1, h3⟩ := bind_ok h2
    obtain ⟨m, hm, h4⟩ := bind_ok h3
    obtain ⟨m', hm', h5⟩ := bind_ok h4
    obtain ⟨pat2, ha2, h6⟩ := bind_ok h5
    have hc' : randomStart g.total ≤ c' ∧ c' < limit :=
      findAvail_inv (fun c => randomStart g.total ≤ c ∧ c < limit)
        (fun s col c s' _ hn => randomNext_inv hA hl (by omega) s col c s' hn) hc hf
    have hmod : (randomStart g.total + g.total) % 256 = randomStart g.total + g.total :=
      Nat.mod_eq_of_lt (by have := randomStart_le g.total; omega)
    have e1 := u8sub_ok hm
    have e2 := u8sub_ok hm'
    have hp1 := hp.add (by omega : c' < g.total) ha1
    have hp2 := hp1.add (by omega : m' < g.total) ha2
    exact ih pat2 c' s' r hp2 hc' h6

theorem hitMirrored_ok (centre p2 p3 : F) (s : Osu) (r : Pat × Osu) (h2 : 2 ≤ g.total)
    (h : hitMirrored A g centre p2 p3 s = .ok r) : PatOk g.total r.1 := by
  unfold hitMirrored at h
  split at h
  · exact hitRandomPattern_ok hA g h1 h16 _ _ _ _ _ _ h
  · generalize hitNoteCountMirrored A g centre p2 p3 s = nc at h
    obtain ⟨⟨n, addc⟩, s1⟩ := nc
    simp only at h
    have hlim : randomStart g.total < (if g.total % 2 = 0 then g.total / 2 else (g.total - 1) / 2) ∧
        (if g.total % 2 = 0 then g.total / 2 else (g.total - 1) / 2) ≤ g.total := by
      unfold randomStart; split <;> split <;> omega
    generalize (if g.total % 2 = 0 then g.total / 2 else (g.total - 1) / 2) = limit at h hlim
    have hb := getRandomColumn_bounds hA s1 (randomStart g.total) limit hlim.1 (by omega)
    generalize getRandomColumn A s1 (randomStart g.total) limit = c0 at h hb
    obtain ⟨c0, s2⟩ := c0
    simp only at h hb
    obtain ⟨⟨pat, s3⟩, hloop, h3⟩ := bind_ok h
    have hp := hitMirroredLoop_ok hA g h1 h16 limit hlim.1 hlim.2 _ _ _ _ _ (PatOk.empty _) hb hloop
    simp only at h3 hp
    have h0 : 0 < g.total := by omega
    have hcen : g.total % 256 / 2 < g.total := by omega
    split at h3
    · obtain ⟨pat', hc, h4⟩ := bind_ok h3
      have hp' := hp.add hcen hc
      split at h4
      · obtain ⟨pat'', hs, h5⟩ := bind_ok h4
        cases h5; exact hp'.add h0 hs
      · obtain ⟨pat'', hs, h5⟩ := bind_ok h4
        cases hs; cases h5; exact hp'
    · obtain ⟨pat', hc, h4⟩ := bind_ok h3
      cases hc
      split at h4
      · obtain ⟨pat'', hs, h5⟩ := bind_ok h4
        cases h5; exact hp.add h0 hs
      · obtain ⟨pat'', hs, h5⟩ := bind_ok h4
        cases hs; cases h5; exact hp

theorem hitCopyLoop_ok (f : Nat → M Nat)
    (hf : ∀ i c, randomStart g.total ≤ i → i < g.total → f i = .ok c → c < g.total) :
    ∀ (k i : Nat) (pat r : Pat), randomStart g.total ≤ i → i + k ≤ g.total → PatOk g.total pat →
      hitCopyLoop g f k i pat = .ok r → PatOk g.total r := by
  intro k
  induction k with
  | zero => intro i pat r _ _ hp h; unfold hitCopyLoop at h; cases h; exact hp
  | succ k ih =>
    intro i pat r hi hk hp h
    unfold hitCopyLoop at h
    obtain ⟨b, _, h2⟩ := bind_ok h
    split at h2
    · obtain ⟨c, hc, h3⟩ := bind_ok h2
      obtain ⟨pat', ha, h4⟩ := bind_ok h3
      exact ih (i + 1) pat' r (by omega) (by omega) (hp.add (hf i c hi (by omega) hc) ha) h4
    · exact ih (i + 1) pat r (by omega) (by omega) hp h2

theorem hitLastColumn_lt : hitLastColumn g < g.total := by
  unfold hitLastColumn
  split
  · omega
  · rename_i n _
    have := posColumn_lt h1 n.col
    have : posColumn g.total n.col % 256 = posColumn g.total n.col := Nat.mod_eq_of_lt (by omega)
    omega

theorem hitCoreRandom_ok (h2 : 2 ≤ g.total) (s : Osu) (r : Pat × Osu)
    (h : hitCoreRandom A g s = .ok r) : PatOk g.total r.1 := by
  unfold hitCoreRandom at h
  split at h
  · exact hitRandomNotes_ok hA g h1 h16 _ _ _ h
  · repeat' split at h
    all_goals first
      | exact hitMirrored_ok hA g h1 h16 _ _ _ _ _ h2 h
      | exact hitRandomPattern_ok hA g h1 h16 _ _ _ _ _ _ h

theorem hitCoreSpecial_ok (h2 : 2 ≤ g.total) (last : Nat) (hlast : last < g.total) (s : Osu)
    (r : Pat × Osu)
    (h : hitCoreSpecial A g last (g.total % 256) (randomStart g.total) s = .ok r) :
    PatOk g.total r.1 := by
  have hrs := randomStart_le g.total
  have hrs' := randomStart_lt h1
  have hm : g.total % 256 = g.total := Nat.mod_eq_of_lt (by omega)
  rw [hm] at h
  unfold hitCoreSpecial at h
  split at h
  · -- REVERSE
    obtain ⟨p, hp, h3⟩ := bind_ok h
    cases h3
    refine hitCopyLoop_ok hA g h1 h16 _ ?_ _ _ _ _ (Nat.le_refl _) (by omega) (PatOk.empty _) hp
    intro i c hi hi' hf
    obtain ⟨a, ha, hf2⟩ := bind_ok hf
    obtain ⟨b, hb, hf3⟩ := bind_ok hf2
    have e1 := u8add_ok ha
    have e2 := u8sub_ok hb
    have e3 := u8sub_ok hf3
    omega
  · split at h
    · -- CYCLE
      rename_i _ hcond
      obtain ⟨a, ha, h3⟩ := bind_ok h
      obtain ⟨b, hb, h4⟩ := bind_ok h3
      obtain ⟨c, hc, h5⟩ := bind_ok h4
      obtain ⟨p, hp, h6⟩ := bind_ok h5
      cases h6
      have e1 := u8add_ok ha
      have e2 := u8sub_ok hb
      have e3 := u8sub_ok hc
      simp only [Bool.and_eq_true, Bool.or_eq_true, bne_iff_ne, ne_eq, decide_eq_true_eq] at hcond
      have hge : randomStart g.total ≤ last := by
        unfold randomStart
        split
        · rename_i h8
          rcases hcond.1.2 with h | h
          · exact absurd h8 h
          · omega
        · omega
      exact PatOk.single (by omega) hp
    · split at h
      · -- FORCE_STACK
        obtain ⟨p, hp, h3⟩ := bind_ok h
        cases h3
        refine hitCopyLoop_ok hA g h1 h16 _ ?_ _ _ _ _ (Nat.le_refl _) (by omega) (PatOk.empty _) hp
        intro i c _ hi' hf
        cases hf
        exact hi'
      · split at h
        · -- STAIR
          obtain ⟨t, ht, h3⟩ := bind_ok h
          obtain ⟨p, hp, h4⟩ := bind_ok h3
          cases h4
          have e1 := u8add_ok ht
          refine PatOk.single ?_ hp
          split <;> omega
        · split at h
          · -- REVERSE_STAIR
            obtain ⟨t, ht, h3⟩ := bind_ok h
            obtain ⟨r', hr', h4⟩ := bind_ok h3
            obtain ⟨t', ht', h5⟩ := bind_ok h4
            obtain ⟨p, hp, h6⟩ := bind_ok h5
            cases h6
            have e1 := i8sub_ok ht
            have e2 := i8sub_ok hr'
            have hlt16 := Pat.single_lt16 hp
            refine PatOk.single ?_ hp
            split at ht'
            · have e3 := i8sub_ok ht'
              unfold asI8 at e1 e2 e3
              unfold asU8 at hlt16 ⊢
              omega
            · cases ht'
              unfold asI8 at e1 e2
              unfold asU8 at hlt16 ⊢
              omega
          · exact hitCoreRandom_ok hA g h1 h16 h2 _ _ h

theorem hitGenerateCore_ok (s : Osu) (r : Pat × Osu) (h : hitGenerateCore A g s = .ok r) :
    PatOk g.total r.1 := by
  unfold hitGenerateCore at h
  split at h
  · obtain ⟨p, hp, h2⟩ := bind_ok h
    cases h2
    exact PatOk.single (by omega) hp
  · exact hitCoreSpecial_ok hA g h1 h16 (by omega) _ (hitLastColumn_lt hA g h1 h16) _ _ h

/-- **(a) for the hit-object generator**: every note `HitObjectPatternGenerator::generate()` emits
lies in a column below the key count. -/
theorem hitGenerate_ok (stair : Nat) (s : Osu) (r : Pat × Osu × Nat)
    (h : hitGenerate A g stair s = .ok r) : PatOk g.total r.1 := by
  unfold hitGenerate at h
  obtain ⟨⟨p, s'⟩, hc, h2⟩ := bind_ok h
  cases h2
  exact hitGenerateCore_ok hA g h1 h16 s _ hc

end hit

end Rosu.ManiaPattern
