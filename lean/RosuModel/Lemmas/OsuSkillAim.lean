import RosuModel.Lemmas.OsuSkillObj

/-! osu! aim evaluator over ℝ: every bonus and the strain are `≥ 0`. -/

namespace Rosu.PerfCalc
open PPOps

/-! ### smoothstep / smootherstep -/

theorem smoothstep_mem (x a b : ℝ) : 0 ≤ smoothstep x a b ∧ smoothstep x a b ≤ 1 := by
  unfold smoothstep
  obtain ⟨h0, h1⟩ := reverseLerp_mem x a b
  generalize reverseLerp x a b = t at h0 h1
  show 0 ≤ t * t * ((3.0 : ℝ) - 2.0 * t) ∧ t * t * ((3.0 : ℝ) - 2.0 * t) ≤ 1
  have e3 : (3.0 : ℝ) = 3 := by norm_num
  have e2 : (2.0 : ℝ) = 2 := by norm_num
  rw [e3, e2]
  constructor
  · have : 0 ≤ 3 - 2 * t := by linarith
    positivity
  · nlinarith [mul_nonneg (mul_self_nonneg (1 - t)) (by linarith : (0 : ℝ) ≤ 1 + 2 * t)]

theorem smootherstep_nonneg (x a b : ℝ) : 0 ≤ smootherstep x a b := by
  unfold smootherstep
  obtain ⟨h0, h1⟩ := reverseLerp_mem x a b
  generalize reverseLerp x a b = t at h0 h1
  show 0 ≤ t * t * t * (t * ((6.0 : ℝ) * t - 15.0) + 10.0)
  have e6 : (6.0 : ℝ) = 6 := by norm_num
  have e15 : (15.0 : ℝ) = 15 := by norm_num
  have e10 : (10.0 : ℝ) = 10 := by norm_num
  rw [e6, e15, e10]
  have : 0 ≤ t * (6 * t - 15) + 10 := by nlinarith [mul_self_nonneg (t - 5 / 4)]
  positivity

/-! ### velocities -/

theorem aimVelocity_nonneg {o prev : DiffObj ℝ} (ho : Floors o) (hp : Floors prev) (ws : Bool) :
    0 ≤ aimVelocity o prev ws := by
  unfold aimVelocity
  have hs : (0 : ℝ) ≤ o.strainTime := le_trans (by norm_num) ho.strain
  have hv : (0 : ℝ) ≤ o.lazyJumpDist / o.strainTime := div_nonneg ho.ljd hs
  by_cases h : (prev.base.isSlider && ws) = true
  · rw [if_pos h]
    exact le_trans hv (le_max_left _ _)
  · rw [if_neg h]; exact hv

/-! ### the angle bonuses -/

theorem angle_factor_nonneg {w x : ℝ} (h0 : 0 ≤ w) (h1 : w ≤ 1) : 0 ≤ w * (1.0 - min w x) := by
  have : min w x ≤ 1 := le_trans (min_le_left _ _) h1
  have e1 : (1.0 : ℝ) = 1 := by norm_num
  rw [e1]
  exact mul_nonneg h0 (by linarith)

theorem acute_factor_nonneg {w x : ℝ} (h0 : 0 ≤ w) (h1 : w ≤ 1) :
    0 ≤ w * (0.08 + 0.92 * (1.0 - min w x)) := by
  have : min w x ≤ 1 := le_trans (min_le_left _ _) h1
  have e1 : (1.0 : ℝ) = 1 := by norm_num
  rw [e1]
  have : (0 : ℝ) ≤ 0.08 + 0.92 * (1 - min w x) := by norm_num; nlinarith
  exact mul_nonneg h0 this

theorem aimAngleBonuses_nonneg (curr last : DiffObj ℝ) {cv pv : ℝ} (hcv : 0 ≤ cv) (hpv : 0 ≤ pv) (ca la : ℝ) :
    0 ≤ (aimAngleBonuses curr last cv pv ca la).1 ∧ 0 ≤ (aimAngleBonuses curr last cv pv ca la).2.1
      ∧ 0 ≤ (aimAngleBonuses curr last cv pv ca la).2.2 := by
  unfold aimAngleBonuses
  extract_lets angleBonus w0 a0 w1 a1 w2 a2 wig
  have hab : (0 : ℝ) ≤ angleBonus := le_min hcv hpv
  obtain ⟨hw0, hw0'⟩ : (0 : ℝ) ≤ w0 ∧ w0 ≤ 1 := smoothstep_mem _ _ _
  obtain ⟨ha0, ha0'⟩ : (0 : ℝ) ≤ a0 ∧ a0 ≤ 1 := smoothstep_mem _ _ _
  have hw1 : (0 : ℝ) ≤ w1 := angle_factor_nonneg hw0 hw0'
  have ha1 : (0 : ℝ) ≤ a1 := acute_factor_nonneg ha0 ha0'
  have hw2 : (0 : ℝ) ≤ w2 := mul_nonneg hw1 (mul_nonneg hab (smootherstep_nonneg _ _ _))
  have ha2 : (0 : ℝ) ≤ a2 :=
    mul_nonneg ha1 (mul_nonneg (mul_nonneg hab (smootherstep_nonneg _ _ _)) (smootherstep_nonneg _ _ _))
  have hwig : (0 : ℝ) ≤ wig := by
    have r1 : (0 : ℝ) ≤ (reverseLerp curr.lazyJumpDist 300.0 100.0) ^ (1.8 : ℝ) :=
      Real.rpow_nonneg (reverseLerp_mem _ _ _).1 _
    have r2 : (0 : ℝ) ≤ (reverseLerp last.lazyJumpDist 300.0 100.0) ^ (1.8 : ℝ) :=
      Real.rpow_nonneg (reverseLerp_mem _ _ _).1 _
    exact mul_nonneg (mul_nonneg (mul_nonneg (mul_nonneg (mul_nonneg (mul_nonneg hab
      (smootherstep_nonneg _ _ _)) r1) (smootherstep_nonneg _ _ _)) (smootherstep_nonneg _ _ _)) r2)
      (smootherstep_nonneg _ _ _)
  exact ⟨hw2, ha2, hwig⟩

theorem aimVelChangeBonus_nonneg {curr last : DiffObj ℝ} (hc : Floors curr) (hl : Floors last)
    (lastLast : DiffObj ℝ) : 0 ≤ aimVelChangeBonus curr last lastLast := by
  unfold aimVelChangeBonus
  extract_lets prevVel currVel drb dr ovb vcb bb
  have hcs : (0 : ℝ) < curr.strainTime := lt_of_lt_of_le (by norm_num) hc.strain
  have hls : (0 : ℝ) < last.strainTime := lt_of_lt_of_le (by norm_num) hl.strain
  have hmin : (0 : ℝ) < min curr.strainTime last.strainTime := lt_min hcs hls
  have h1 : (0 : ℝ) ≤ dr := rpow_two_nonneg _
  have h2 : (0 : ℝ) ≤ ovb := by
    show (0 : ℝ) ≤ min ((100.0 : ℝ) * 1.25 / min curr.strainTime last.strainTime) |prevVel - currVel|
    exact le_min (div_nonneg (by norm_num) hmin.le) (abs_nonneg _)
  have h3 : (0 : ℝ) ≤ vcb := mul_nonneg h2 h1
  exact mul_nonneg h3 (rpow_two_nonneg _)

theorem aimBonuses_nonneg (curr last : DiffObj ℝ) {cv pv : ℝ} (hcv : 0 ≤ cv) (hpv : 0 ≤ pv) :
    0 ≤ (aimBonuses curr last cv pv).1 ∧ 0 ≤ (aimBonuses curr last cv pv).2.1
      ∧ 0 ≤ (aimBonuses curr last cv pv).2.2 := by
  unfold aimBonuses
  have h0 : (0 : ℝ) ≤ 0.0 := by norm_num
  split_ifs
  · cases curr.angle with
    | none => exact ⟨h0, h0, h0⟩
    | some ca =>
      cases last.angle with
      | none => exact ⟨h0, h0, h0⟩
      | some la => exact aimAngleBonuses_nonneg curr last hcv hpv ca la
  · exact ⟨h0, h0, h0⟩

/-- (b) the body of `AimEvaluator::evaluate_diff_of` is `≥ 0` for objects satisfying the constructor's floors -/
theorem aimEvaluateBody_nonneg {curr last lastLast : DiffObj ℝ} (hc : Floors curr) (hl : Floors last)
    (hll : Floors lastLast) (ws : Bool) : 0 ≤ aimEvaluateBody curr last lastLast ws := by
  unfold aimEvaluateBody
  extract_lets currVel prevVel aimStrain bonuses wide acute wiggle velChange sliderBonus s1 s2
  have hcv : (0 : ℝ) ≤ currVel := aimVelocity_nonneg hc hl ws
  have hpv : (0 : ℝ) ≤ prevVel := aimVelocity_nonneg hl hll ws
  have h0 : (0 : ℝ) ≤ 0.0 := by norm_num
  have hb : (0 : ℝ) ≤ bonuses.1 ∧ (0 : ℝ) ≤ bonuses.2.1 ∧ (0 : ℝ) ≤ bonuses.2.2 :=
    aimBonuses_nonneg curr last hcv hpv
  have hvc : (0 : ℝ) ≤ velChange := by
    show (0 : ℝ) ≤ (if floatNotEq (fmax prevVel currVel) 0.0 = true then aimVelChangeBonus curr last lastLast else 0.0)
    split_ifs
    · exact aimVelChangeBonus_nonneg hc hl lastLast
    · exact h0
  have hsb : (0 : ℝ) ≤ sliderBonus := by
    show (0 : ℝ) ≤ (if last.base.isSlider = true then last.travelDist / last.travelTime else 0.0)
    split_ifs
    · exact div_nonneg hl.td hl.tt0
    · exact h0
  have hs1 : (0 : ℝ) ≤ s1 := add_nonneg hcv (mul_nonneg hb.2.2 (by norm_num))
  have hs2 : (0 : ℝ) ≤ s2 := by
    refine add_nonneg hs1 (le_trans ?_ (le_max_left _ _))
    exact mul_nonneg hb.2.1 (by norm_num)
  split_ifs
  · exact add_nonneg hs2 (mul_nonneg hsb (by norm_num))
  · exact hs2

/-- `previous` returns an element of the list -/
theorem previous_some {ds : List (DiffObj ℝ)} {curr d : DiffObj ℝ} {n : Nat} (h : previous ds curr n = some d) :
    n + 1 ≤ curr.idx ∧ ds[curr.idx - (n + 1)]? = some d := by
  unfold previous at h
  split_ifs at h with hn
  exact ⟨hn, h⟩

/-- (b) `AimEvaluator::evaluate_diff_of ≥ 0` on every well-formed list, for every `curr` with the
constructor's floors (in particular every element of the list), with and without sliders -/
theorem aimEvaluate_nonneg {ds : List (DiffObj ℝ)} (hl : ListOK ds) {curr : DiffObj ℝ} (hc : Floors curr)
    (ws : Bool) : 0 ≤ aimEvaluate ds curr ws := by
  unfold aimEvaluate
  have h0 : (0 : ℝ) ≤ 0.0 := by norm_num
  cases h1 : previous ds curr 1 with
  | none => exact h0
  | some lastLast =>
    cases h2 : previous ds curr 0 with
    | none => exact h0
    | some last =>
      simp only
      split_ifs
      · exact h0
      · exact aimEvaluateBody_nonneg hc (hl.floors _ _ (previous_some h2).2) (hl.floors _ _ (previous_some h1).2) ws

end Rosu.PerfCalc
