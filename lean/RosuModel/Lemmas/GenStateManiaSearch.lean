import RosuModel.Lemmas.GenStateMania

/-!
C12 lemmas for the **nested accuracy search** of the mania generator (arm `_`, "at least two
hitresults are unknown"), valid for every `NumOps` instance: nothing here inspects `R`; the only
facts used about the float arithmetic are that the loop bounds are clamped (`cmp::min(…, remaining)`)
and that provided results are pinned (`min_remaining(n)`).

Structure
* `ManiaCandOk` — what the loop headers guarantee about every candidate `(n320, …, n50)` the
  innermost body builds (before `if curr.total_hits() < n_objects { … }`);
* `maniaSearch_cand` — fold invariant over the four nested loops exposing `ManiaCandOk`;
* `ManiaSearchGood` — invariant of `best`: provided results pinned, open results sum to at most
  `n_remaining`, total = `n_objects` when the provided ones fit; holds of the initial `best`
  (except for a provided `n50`, which the initial `best` overwrites — hence the `hit` flag), of
  every filled candidate (`maniaFill_good`) and is preserved by the priority shifts
  (`maniaShift_good`).
-/
namespace Rosu.GenState
set_option linter.unusedSectionVars false

variable {R : Type} [NumOps R]

/-! ### what the loop headers guarantee -/

/-- a loop variable: pinned to the clamped provided value, or at most `bound` -/
def CWin (g : Option Nat) (nRem k bound : Nat) : Prop :=
  (∀ v, g = some v → k = min v nRem) ∧ (g = none → k ≤ bound)

/-- the last result: the clamped provided value, or exactly the remainder -/
def CLast (g : Option Nat) (nRem k rest : Nat) : Prop :=
  (∀ v, g = some v → k = min v nRem) ∧ (g = none → k = rest)

/-- Every candidate of the nested loops: each open result is bounded by what the results fixed so
far (and the clamped provided later ones) leave free; `n50` is the remainder when open. -/
structure ManiaCandOk (x : ManiaCtx R) (k320 k300 k200 k100 k50 : Nat) : Prop where
  c320 : CWin x.g320 x.nRemaining k320 (x.nRemaining - (x.n300 + x.n200 + x.n100 + x.n50))
  c300 : CWin x.g300 x.nRemaining k300 (x.nRemaining - (k320 + x.n200 + x.n100 + x.n50))
  c200 : CWin x.g200 x.nRemaining k200 (x.nRemaining - (k320 + k300 + x.n100 + x.n50))
  c100 : CWin x.g100 x.nRemaining k100 (x.nRemaining - (k320 + k300 + k200 + x.n50))
  c50 : CLast x.g50 x.nRemaining k50 (x.nRemaining - (k320 + k300 + k200 + k100))

/-- window of a `for n in min..=max` loop whose ends are pinned or clamped to `remaining` -/
theorem cwin_of_mem (g : Option Nat) (nRem lo₀ hi₀ remaining k : Nat)
    (hk : k ∈ rangeIncl
      (match g with | some n => (min n nRem, min n nRem) | none => (min lo₀ remaining, min hi₀ remaining)).1
      (match g with | some n => (min n nRem, min n nRem) | none => (min lo₀ remaining, min hi₀ remaining)).2) :
    CWin g nRem k remaining := by
  have := mem_rangeIncl hk
  constructor
  · intro v hv
    subst hv
    simp only at this
    omega
  · intro hv
    subst hv
    simp only at this
    omega

theorem maniaLoop100_cand (P : Acc R ManiaState → Prop) (x : ManiaCtx R) (n320 n300 n200 : Nat)
    (a : Acc R ManiaState) (h : P a)
    (hstep : ∀ (a : Acc R ManiaState) (d : R) (n100 n50 : Nat),
      CWin x.g100 x.nRemaining n100 (x.nRemaining - (n320 + n300 + n200 + x.n50)) →
      CLast x.g50 x.nRemaining n50 (x.nRemaining - (n320 + n300 + n200 + n100)) →
      P a → P (a.offer d (maniaFill x ⟨n320, n300, n200, n100, n50, x.misses⟩))) :
    P (maniaLoop100 x n320 n300 n200 a) := by
  unfold maniaLoop100
  dsimp only
  apply foldl_inv P
  · exact h
  · intro a' k hk ha'
    refine hstep a' _ k _ ?_ ?_ ha'
    · constructor
      · intro v hv
        rw [hv] at hk
        simpa using hk
      · intro hv
        rw [hv] at hk
        simp only [List.mem_cons, List.not_mem_nil, or_false] at hk
        rcases hk with hk | hk <;> omega
    · constructor
      · intro v hv
        simp only [hv]
      · intro hv
        simp only [hv]

theorem maniaLoop200_cand (P : Acc R ManiaState → Prop) (x : ManiaCtx R) (n320 n300 : Nat)
    (a : Acc R ManiaState) (h : P a)
    (hstep : ∀ (a : Acc R ManiaState) (d : R) (n200 n100 n50 : Nat),
      CWin x.g200 x.nRemaining n200 (x.nRemaining - (n320 + n300 + x.n100 + x.n50)) →
      CWin x.g100 x.nRemaining n100 (x.nRemaining - (n320 + n300 + n200 + x.n50)) →
      CLast x.g50 x.nRemaining n50 (x.nRemaining - (n320 + n300 + n200 + n100)) →
      P a → P (a.offer d (maniaFill x ⟨n320, n300, n200, n100, n50, x.misses⟩))) :
    P (maniaLoop200 x n320 n300 a) := by
  unfold maniaLoop200
  dsimp only
  apply foldl_inv P
  · exact h
  · intro a' k hk ha'
    have hw := cwin_of_mem x.g200 x.nRemaining _ _ _ k hk
    exact maniaLoop100_cand P x _ _ _ a' ha' (fun a d n100 n50 h1 h5 ha => hstep a d k n100 n50 hw h1 h5 ha)

theorem maniaLoop300_cand (P : Acc R ManiaState → Prop) (x : ManiaCtx R) (n320 : Nat)
    (a : Acc R ManiaState) (h : P a)
    (hstep : ∀ (a : Acc R ManiaState) (d : R) (n300 n200 n100 n50 : Nat),
      CWin x.g300 x.nRemaining n300 (x.nRemaining - (n320 + x.n200 + x.n100 + x.n50)) →
      CWin x.g200 x.nRemaining n200 (x.nRemaining - (n320 + n300 + x.n100 + x.n50)) →
      CWin x.g100 x.nRemaining n100 (x.nRemaining - (n320 + n300 + n200 + x.n50)) →
      CLast x.g50 x.nRemaining n50 (x.nRemaining - (n320 + n300 + n200 + n100)) →
      P a → P (a.offer d (maniaFill x ⟨n320, n300, n200, n100, n50, x.misses⟩))) :
    P (maniaLoop300 x n320 a) := by
  unfold maniaLoop300
  dsimp only
  apply foldl_inv P
  · exact h
  · intro a' k hk ha'
    have hw := cwin_of_mem x.g300 x.nRemaining _ _ _ k hk
    exact maniaLoop200_cand P x _ _ a' ha'
      (fun a d n200 n100 n50 h2 h1 h5 ha => hstep a d k n200 n100 n50 hw h2 h1 h5 ha)

/-- Fold invariant of the whole nested search: anything that holds of the initial `best` and is
preserved by accepting a filled candidate **that the loop headers can produce** holds of the
result. -/
theorem maniaSearch_cand (P : Acc R ManiaState → Prop) (x : ManiaCtx R)
    (h : P ⟨NumOps.infVal, ⟨x.n320, x.n300, x.n200, x.n100,
        x.nRemaining - (x.n320 + x.n300 + x.n200 + x.n100), x.misses⟩, false, true⟩)
    (hstep : ∀ (a : Acc R ManiaState) (d : R) (k320 k300 k200 k100 k50 : Nat),
      ManiaCandOk x k320 k300 k200 k100 k50 → P a →
      P (a.offer d (maniaFill x ⟨k320, k300, k200, k100, k50, x.misses⟩))) :
    P (maniaSearch x) := by
  unfold maniaSearch
  dsimp only
  apply foldl_inv P
  · exact h
  · intro a' k hk ha'
    have hw := cwin_of_mem x.g320 x.nRemaining _ _ _ k hk
    exact maniaLoop300_cand P x _ a' ha'
      (fun a d n300 n200 n100 n50 h3 h2 h1 h5 ha => hstep a d k n300 n200 n100 n50 ⟨hw, h3, h2, h1, h5⟩ ha)

/-! ### the invariant of `best`

The bookkeeping is stated over plain Booleans (`oK` = "result K is open", i.e. `self.nK.is_none()`)
and naturals, so that the case analysis is a finite Boolean split followed by `omega`. -/

/-- `maniaFill` with the tests spelled as Booleans -/
def maniaFillB (o1 o2 o3 o4 o5 : Bool) (nObj : Nat) (curr : ManiaState) : ManiaState :=
  if curr.totalHits < nObj then
    let remaining := nObj - curr.totalHits
    if o5 then { curr with n50 := curr.n50 + remaining }
    else if o4 then { curr with n100 := curr.n100 + remaining }
    else if o3 then { curr with n200 := curr.n200 + remaining }
    else if o2 then { curr with n300 := curr.n300 + remaining }
    else if o1 then { curr with n320 := curr.n320 + remaining }
    else { curr with n50 := curr.n50 + remaining }
  else curr

theorem maniaFill_eq_B (x : ManiaCtx R) (c : ManiaState) :
    maniaFill x c = maniaFillB x.g320.isNone x.g300.isNone x.g200.isNone x.g100.isNone x.g50.isNone
      x.nObjects c := rfl

def openCountB (o1 o2 o3 o4 o5 : Bool) : Nat :=
  (if o1 then 1 else 0) + (if o2 then 1 else 0) + (if o3 then 1 else 0) + (if o4 then 1 else 0) +
  (if o5 then 1 else 0)

/-- Invariant of `best` (`hit` = a candidate was accepted): provided results are the clamped
provided values `pK` (a provided `n50` only once a candidate was accepted: the initial `best`
overwrites it with the remainder), the open results sum to at most `n_remaining`, the total is at
least `n_objects`, and exactly `n_objects` when the clamped provided values fit. -/
structure ManiaGoodB (o1 o2 o3 o4 o5 : Bool) (nRem nObj misses p1 p2 p3 p4 p5 : Nat) (hit : Bool)
    (s : ManiaState) : Prop where
  misses : s.misses = misses
  k320 : o1 = false → s.n320 = p1
  k300 : o2 = false → s.n300 = p2
  k200 : o3 = false → s.n200 = p3
  k100 : o4 = false → s.n100 = p4
  k50 : o5 = false → hit = true → s.n50 = p5
  le50 : s.n50 ≤ nRem
  open_le : (if o1 then s.n320 else 0) + (if o2 then s.n300 else 0) + (if o3 then s.n200 else 0) +
    (if o4 then s.n100 else 0) + (if o5 then s.n50 else 0) ≤ nRem
  total_ge : nObj ≤ s.totalHits
  total_eq : p1 + p2 + p3 + p4 + p5 ≤ nRem → s.totalHits = nObj

/-- `ManiaCandOk` + the context facts, as arithmetic over Booleans -/
structure ManiaCandB (o1 o2 o3 o4 o5 : Bool) (nRem p1 p2 p3 p4 p5 k1 k2 k3 k4 k5 : Nat) : Prop where
  z1 : o1 = true → p1 = 0
  z2 : o2 = true → p2 = 0
  z3 : o3 = true → p3 = 0
  z4 : o4 = true → p4 = 0
  z5 : o5 = true → p5 = 0
  l1 : p1 ≤ nRem
  l2 : p2 ≤ nRem
  l3 : p3 ≤ nRem
  l4 : p4 ≤ nRem
  l5 : p5 ≤ nRem
  g1 : o1 = false → k1 = p1
  g2 : o2 = false → k2 = p2
  g3 : o3 = false → k3 = p3
  g4 : o4 = false → k4 = p4
  g5 : o5 = false → k5 = p5
  b1 : o1 = true → k1 ≤ nRem - (p2 + p3 + p4 + p5)
  b2 : o2 = true → k2 ≤ nRem - (k1 + p3 + p4 + p5)
  b3 : o3 = true → k3 ≤ nRem - (k1 + k2 + p4 + p5)
  b4 : o4 = true → k4 ≤ nRem - (k1 + k2 + k3 + p5)
  b5 : o5 = true → k5 = nRem - (k1 + k2 + k3 + k4)

set_option maxHeartbeats 1000000 in
theorem maniaFillB_good (o1 o2 o3 o4 o5 : Bool) (nRem nObj misses p1 p2 p3 p4 p5 k1 k2 k3 k4 k5 : Nat)
    (hrem : nRem + misses = nObj) (htwo : 2 ≤ openCountB o1 o2 o3 o4 o5)
    (hc : ManiaCandB o1 o2 o3 o4 o5 nRem p1 p2 p3 p4 p5 k1 k2 k3 k4 k5) :
    ManiaGoodB o1 o2 o3 o4 o5 nRem nObj misses p1 p2 p3 p4 p5 true
      (maniaFillB o1 o2 o3 o4 o5 nObj ⟨k1, k2, k3, k4, k5, misses⟩) := by
  obtain ⟨z1, z2, z3, z4, z5, l1, l2, l3, l4, l5, g1, g2, g3, g4, g5, b1, b2, b3, b4, b5⟩ := hc
  unfold maniaFillB
  simp only [ManiaState.totalHits]
  cases o1 <;> cases o2 <;> cases o3 <;> cases o4 <;> cases o5 <;>
    simp only [openCountB, Bool.false_eq_true, if_false, if_true, forall_const, false_implies,
      reduceCtorEq] at htwo z1 z2 z3 z4 z5 g1 g2 g3 g4 g5 b1 b2 b3 b4 b5 <;>
    first
      | (exfalso; omega)
      | (simp only [Bool.false_eq_true, if_false, if_true]
         by_cases hlt : k1 + k2 + k3 + k4 + k5 + misses < nObj
         · rw [if_pos hlt]
           constructor <;>
             simp only [ManiaState.totalHits, Bool.false_eq_true, if_false, if_true, forall_const,
               false_implies, reduceCtorEq, implies_true] <;> omega
         · rw [if_neg hlt]
           constructor <;>
             simp only [ManiaState.totalHits, Bool.false_eq_true, if_false, if_true, forall_const,
               false_implies, reduceCtorEq, implies_true] <;> omega)

end Rosu.GenState
