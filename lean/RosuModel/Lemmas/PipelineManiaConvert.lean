import RosuModel.Model.PipelineManiaConvert
import RosuModel.Lemmas.ManiaPatternPath
import RosuModel.Lemmas.LegacySort

/-!
The osu!→mania convert pipeline: the sorts only permute, the converter's column theorem (C19b)
reaches the hit objects, `apply_invert_to_beatmap` never indexes out of bounds.
-/
namespace Rosu.PipelineManiaConvert
open Rosu.ManiaPattern Rosu.PipelineMania Rosu.SkillOps

variable {R S : Type}

section
variable [FOps R] [FOps S]

theorem insertByStart_perm (p : HitObj R S) : ∀ l : List (HitObj R S), (insertByStart p l).Perm (p :: l) := by
  intro l
  induction l with
  | nil => exact List.Perm.refl _
  | cons q qs ih =>
    unfold insertByStart
    split
    · exact (List.Perm.cons q ih).trans (List.Perm.swap p q qs)
    · exact List.Perm.refl _

theorem foldl_insert_perm : ∀ (l acc : List (HitObj R S)),
    (l.foldl (fun acc p => insertByStart p acc) acc).Perm (acc ++ l) := by
  intro l
  induction l with
  | nil => intro acc; simp
  | cons p ps ih =>
    intro acc
    simp only [List.foldl_cons]
    refine (ih _).trans ?_
    refine (List.Perm.append_right ps (insertByStart_perm p acc)).trans ?_
    simp only [List.cons_append]
    exact (List.perm_middle (l₁ := acc) (a := p) (l₂ := ps)).symm

/-- the stable sort by start time is a permutation -/
theorem sortByStart_perm (l : List (HitObj R S)) : (sortByStart l).Perm l := by
  unfold sortByStart
  simpa using foldl_insert_perm l []

theorem legacy_perm {l l' : List (HitObj R S)} (h : legacy l = some l') : l'.Perm l := by
  unfold legacy at h
  classical
  exact Rosu.Sort.legacySort_perm h

variable (P : PrepOps R S) (X : XOps R S)

theorem noteToHit_x (total : Nat) (src : SObj R) (n : Note) :
    (noteToHit P X total src n).x = columnToPosS P X n.col total := by
  unfold noteToHit
  simp only
  split
  · split <;> rfl
  all_goals rfl

/-- **every converted hit object sits at the position of a column below the key count** -/
theorem convertMap_columns {PA : PArith R} (hA : RangeLaw PA) (fuel keys : Nat) (h1 : 1 ≤ keys)
    (h16 : keys ≤ 16) (seed : Int) (cd : R) (objs : List (SObj R)) (hits : List (HitObj R S))
    (h : convertMap P X PA fuel keys seed cd objs = .ok (some hits)) :
    ∀ o ∈ hits, ∃ c, c < keys ∧ o.x = columnToPosS P X c keys := by
  unfold convertMap at h
  cases hc : convertLoop PA keys cd fuel (ConvSt.init seed) (objs.map SObj.toObjIn) with
  | error e => simp [hc] at h
  | ok r =>
    obtain ⟨trace, stf⟩ := r
    simp only [hc, Except.ok.injEq] at h
    have hok := convertLoop_ok hA keys h1 h16 cd fuel _ _ _ hc
    intro o ho
    have hp := (legacy_perm h).subset ho
    have hp2 := (sortByStart_perm _).subset hp
    simp only [List.mem_flatten, List.mem_map] at hp2
    obtain ⟨l1, ⟨p, hpm, rfl⟩, ho1⟩ := hp2
    simp only [List.mem_flatten, List.mem_map] at ho1
    obtain ⟨l2, ⟨pat, hpat, rfl⟩, ho2⟩ := ho1
    simp only [List.mem_map] at ho2
    obtain ⟨n, hn, rfl⟩ := ho2
    have hmem : p.2 ∈ trace := (List.of_mem_zip hpm).2
    have := (hok p.2 hmem pat hpat).1 n hn
    exact ⟨n.col, this, noteToHit_x P X keys p.1 n⟩

end

/-! ## Invert: the `column_buf[0]` index cannot fail -/

theorem mapM_some {α β : Type} (f : α → Option β) (hf : ∀ a, ∃ b, f a = some b) :
    ∀ l : List α, ∃ r, l.mapM f = some r := by
  intro l
  induction l with
  | nil => exact ⟨[], rfl⟩
  | cons a l ih =>
    obtain ⟨b, hb⟩ := hf a
    obtain ⟨r, hr⟩ := ih
    exact ⟨b :: r, by simp [List.mapM_cons, hb, hr]⟩

section
variable [FOps R] [FOps S]

/-- one column of `apply_invert_to_beatmap` never fails: an empty column has no locations, hence no
window, and the closure that reads `column_buf[0]` is never called (the iterator is lazy) -/
theorem invertColumn_total (pts : List (R × R)) (buf : List (HitObj R S)) :
    ∃ r, invertColumn pts buf = some r := by
  unfold invertColumn
  cases buf with
  | nil => exact ⟨[], by simp [windows2]⟩
  | cons b bs =>
    simp only [List.head?_cons]
    exact mapM_some _ (fun w => ⟨_, rfl⟩) _

variable (P : PrepOps R S)

/-- **`apply_invert_to_beatmap` never panics**, for every object list, key count, timing points and
arithmetic -/
theorem applyInvert_total (pts : List (R × R)) (total : S) (cols : Nat) (l : List (HitObj R S)) :
    ∃ r, applyInvert P pts total cols l = some r := by
  unfold applyInvert
  obtain ⟨r, hr⟩ := mapM_some (fun c => invertColumn pts (l.filter fun h => column P h.x total = c))
    (fun c => invertColumn_total pts _) (List.range cols)
  exact ⟨_, by rw [hr]; rfl⟩

end

end Rosu.PipelineManiaConvert

namespace Rosu.PipelineManiaConvert

theorem mapM_some_mem {α β : Type} (f : α → Option β) :
    ∀ l : List α, (∀ a ∈ l, ∃ b, f a = some b) → ∃ r, l.mapM f = some r := by
  intro l
  induction l with
  | nil => intro _; exact ⟨[], rfl⟩
  | cons a l ih =>
    intro hf
    obtain ⟨b, hb⟩ := hf a (List.mem_cons_self ..)
    obtain ⟨r, hr⟩ := ih (fun a' ha' => hf a' (List.mem_cons_of_mem _ ha'))
    exact ⟨b :: r, by simp [List.mapM_cons, hb, hr]⟩

/-! ## Random: the shuffle is a permutation of the columns -/

theorem insertKeyed_perm (p : Int × Nat) : ∀ l, (insertKeyed p l).Perm (p :: l) := by
  intro l
  induction l with
  | nil => exact List.Perm.refl _
  | cons q qs ih =>
    unfold insertKeyed
    split
    · exact (List.Perm.cons q ih).trans (List.Perm.swap p q qs)
    · exact List.Perm.refl _

theorem foldl_insertKeyed_perm : ∀ (l acc : List (Int × Nat)),
    (l.foldl (fun acc p => insertKeyed p acc) acc).Perm (acc ++ l) := by
  intro l
  induction l with
  | nil => intro acc; simp
  | cons p ps ih =>
    intro acc
    simp only [List.foldl_cons]
    refine (ih _).trans ?_
    refine (List.Perm.append_right ps (insertKeyed_perm p acc)).trans ?_
    simp only [List.cons_append]
    exact (List.perm_middle (l₁ := acc) (a := p) (l₂ := ps)).symm

theorem csDraws_length : ∀ (n : Nat) (s : Rosu.Rng.Csharp), (csDraws n s).length = n := by
  intro n
  induction n with
  | zero => intro s; rfl
  | succ n ih => intro s; simp [csDraws, ih]

/-- **`shuffled_columns` is a permutation of `0..n`**, for every seed -/
theorem shuffledColumns_perm (seed : Int) (n : Nat) : (shuffledColumns seed n).Perm (List.range n) := by
  unfold shuffledColumns
  have h := (foldl_insertKeyed_perm ((csDraws n (Rosu.Rng.Csharp.new seed)).zip (List.range n)) []).map (·.2)
  simp only [List.nil_append] at h
  refine h.trans ?_
  rw [List.map_snd_zip (by rw [csDraws_length]; simp)]

/-- the checked index `shuffled_columns[old_column]` succeeds for every column below `n` and yields
a column below `n` -/
theorem shuffledColumns_get (seed : Int) (n c : Nat) (hc : c < n) :
    ∃ c', (shuffledColumns seed n)[c]? = some c' ∧ c' < n := by
  have hp := shuffledColumns_perm seed n
  have hl : (shuffledColumns seed n).length = n := by rw [hp.length_eq, List.length_range]
  have hlt : c < (shuffledColumns seed n).length := by omega
  refine ⟨(shuffledColumns seed n)[c], List.getElem?_eq_getElem hlt, ?_⟩
  have hm : (shuffledColumns seed n)[c] ∈ List.range n := hp.subset (List.getElem_mem hlt)
  exact List.mem_range.mp hm

section
variable {R S : Type} [Rosu.SkillOps.FOps R] [Rosu.SkillOps.FOps S] (P : Rosu.PipelineMania.PrepOps R S) (X : XOps R S)

/-- **`apply_random_to_beatmap` never panics** when every object's column is below `n` (which
`ManiaObject::column` guarantees for `n = total_columns`), and every object lands on the position
of a column below `n` -/
theorem applyRandom_total (seed : Int) (total : S) (n : Nat) (l : List (HitObj R S))
    (hcol : ∀ h ∈ l, Rosu.PipelineMania.column P h.x total < n) :
    ∃ r, applyRandom P X seed total n l = some r := by
  unfold applyRandom
  simp only
  apply mapM_some_mem
  intro h hh
  obtain ⟨c', hc', _⟩ := shuffledColumns_get seed n _ (hcol h hh)
  exact ⟨_, by rw [hc']; rfl⟩

end

end Rosu.PipelineManiaConvert
