import RosuModel.Lemmas.GenStateExact

/-!
# The two-unknown osu! search (`osuSearch2`) is globally optimal

Values are `50·R + sav + 50·(5a + b)` over `a + b ≤ R`.  With `X = (target − 50R − sav)/50` the
outer loop runs `a` over `clamp ⌊X/5⌋ ..= clamp ⌈X/5⌉` and the inner loop `b` over
`clamp ⌊X − 5a⌋ ..= clamp ⌈X − 5a⌉` (clamped to `R − a`).
-/

set_option linter.unusedSectionVars false

namespace Rosu.GenState.Opt

section Exact

variable {K : Type} [Field K] [LinearOrder K] [IsStrictOrderedRing K] [FloorRing K]

/-- Any feasible `(a, b)` can be replaced by a feasible `(a', b'')` whose `a'` is one of the two
outer window ends and whose value `5a' + b''` is at least as close to `X`. -/
theorem two_level (R : Nat) (hR : R ≤ u32Max) (X : K) (a b : Nat) (hab : a + b ≤ R) :
    ∃ a' b'' : Nat, (a' = clampN R ⌊X / 5⌋ ∨ a' = clampN R ⌈X / 5⌉) ∧ a' + b'' ≤ R ∧
      |X - ((5 * a' + b'' : Nat) : K)| ≤ |X - ((5 * a + b : Nat) : K)| := by
  have hfc := Int.floor_le_ceil (X / 5)
  have hcf := Int.ceil_le_floor_add_one (X / 5)
  have hA0R := clampN_le R ⌊X / 5⌋
  have hA1R := clampN_le R ⌈X / 5⌉
  have f1 : clampN R ⌊X / 5⌋ ≤ clampN R ⌈X / 5⌉ ∧ clampN R ⌈X / 5⌉ ≤ clampN R ⌊X / 5⌋ + 1 := by
    unfold clampN; omega
  have f2 : 1 ≤ clampN R ⌊X / 5⌋ → 5 * ((clampN R ⌊X / 5⌋ : Nat) : K) ≤ X := by
    intro h
    have hz : ((clampN R ⌊X / 5⌋ : Nat) : Int) ≤ ⌊X / 5⌋ := by unfold clampN at h ⊢; omega
    have hk : (((clampN R ⌊X / 5⌋ : Nat) : Int) : K) ≤ (⌊X / 5⌋ : K) := by exact_mod_cast hz
    rw [Int.cast_natCast] at hk
    have := Int.floor_le (X / 5)
    linarith
  have f3 : clampN R ⌈X / 5⌉ < R → X ≤ 5 * ((clampN R ⌈X / 5⌉ : Nat) : K) := by
    intro h
    have hz : ⌈X / 5⌉ ≤ ((clampN R ⌈X / 5⌉ : Nat) : Int) := by unfold clampN at h ⊢; omega
    have hk : (⌈X / 5⌉ : K) ≤ (((clampN R ⌈X / 5⌉ : Nat) : Int) : K) := by exact_mod_cast hz
    rw [Int.cast_natCast] at hk
    have := Int.le_ceil (X / 5)
    linarith
  generalize clampN R ⌊X / 5⌋ = A0 at *
  generalize clampN R ⌈X / 5⌉ = A1 at *
  have hv0 : (0 : K) ≤ ((5 * a + b : Nat) : K) := Nat.cast_nonneg _
  rcases Nat.lt_or_ge a A0 with h | h
  · have hX := f2 (by omega)
    rcases Nat.lt_or_ge (5 * a + b) (5 * A0) with hv | hv
    · refine ⟨A0, 0, Or.inl rfl, by omega, ?_⟩
      have hvK : ((5 * a + b : Nat) : K) < ((5 * A0 : Nat) : K) := by exact_mod_cast hv
      push_cast at hvK ⊢
      rw [abs_of_nonneg (by linarith), abs_of_nonneg (by linarith)]
      linarith
    · refine ⟨A0, 5 * a + b - 5 * A0, Or.inl rfl, by omega, ?_⟩
      have : 5 * A0 + (5 * a + b - 5 * A0) = 5 * a + b := by omega
      rw [this]
  · rcases Nat.lt_or_ge A1 a with h' | h'
    · have hX := f3 (by omega)
      refine ⟨A1, 0, Or.inr rfl, by omega, ?_⟩
      have hvK : ((5 * A1 + 5 : Nat) : K) ≤ ((5 * a + b : Nat) : K) := by
        exact_mod_cast (by omega : 5 * A1 + 5 ≤ 5 * a + b)
      push_cast at hvK ⊢
      rw [abs_of_nonpos (by linarith), abs_of_nonpos (by linarith)]
      linarith
    · have : a = A0 ∨ a = A1 := by omega
      rcases this with e | e
      · exact ⟨a, b, Or.inl e, hab, le_refl _⟩
      · exact ⟨a, b, Or.inr e, hab, le_refl _⟩

/-- Closer in `|X − k|` means closer in accuracy distance (`D = 0` makes all distances equal). -/
theorem affine_mono (t a b D x : K) (hb : 0 < b) (hD : 0 ≤ D) (hx : x * b = t * D - a)
    (k k' : K) (h : |x - k| ≤ |x - k'|) :
    |t - (a + b * k) / D| ≤ |t - (a + b * k') / D| := by
  rcases eq_or_lt_of_le hD with h0 | hpos
  · rw [← h0]; simp
  · rw [affine_dist t a b D x hb hpos hx, affine_dist t a b D x hb hpos hx]
    exact mul_le_mul_of_nonneg_left h (le_of_lt (div_pos hb hpos))

theorem foldl_ok_of_step {A ι : Type} (f : Acc K A → ι → Acc K A) (l : List ι)
    (h : ∀ a k, k ∈ l → (f a k).ok = a.ok) (a : Acc K A) : (l.foldl f a).ok = a.ok := by
  induction l generalizing a with
  | nil => rfl
  | cons k l ih =>
    rw [List.foldl_cons, ih (fun a k' hk' => h a k' (List.mem_cons_of_mem _ hk')),
      h a k List.mem_cons_self]

/-- distance of a feasible candidate of the two-unknown search, in affine form with `k = 5a + b` -/
theorem osu2_dist (S : K) (x : OsuCtx K) (hx : OsuCtxOk x) (a b : Nat) (hab : a + b ≤ x.nRemaining) :
    @OsuCtx.distOf K (fieldOps S) x a b (x.nRemaining - a - b)
      = |x.acc - (((50 * x.nRemaining + x.sav : Nat) : K) + 50 * ((5 * a + b : Nat) : K)) / (x.den : K)| := by
  rw [osu_dist_eq S x hx a b _ (by omega)
    (((50 * x.nRemaining + x.sav : Nat) : K) + 50 * ((5 * a + b : Nat) : K))]
  have : 300 * a + 100 * b + 50 * (x.nRemaining - a - b) + x.sav
      = (50 * x.nRemaining + x.sav) + 50 * (5 * a + b) := by omega
  rw [this]
  push_cast
  ring

/-- The nested search of arm `(None, None, None)`: a candidate is accepted, no check fails, the
triple sums to `nRemaining`, and it is optimal over **all** triples summing to `nRemaining`. -/
theorem osuSearch2_spec (S : K) (hS : 1 < S) (x : OsuCtx K) (hx : OsuCtxOk x) :
    let r := @osuSearch2 K (fieldOps S) x
    r.hit = true ∧ r.ok = true ∧ r.val.1 + r.val.2.1 + r.val.2.2 = x.nRemaining ∧
      ∀ a b c, a + b + c = x.nRemaining →
        @OsuCtx.distOf K (fieldOps S) x r.val.1 r.val.2.1 r.val.2.2
          ≤ @OsuCtx.distOf K (fieldOps S) x a b c := by
  intro r
  have hrem := hx.rem
  have hsmall := hx.small
  have hR : x.nRemaining ≤ u32Max := by omega
  -- the two raw values in terms of `X`
  let X : K := (x.targetTotal - ((50 * x.nRemaining + x.sav : Nat) : K)) / 50
  have hraw300 : (x.targetTotal - ((50 * x.nRemaining + x.sav : Nat) : K)) / ((250 : Nat) : K) = X / 5 := by
    show _ = (x.targetTotal - ((50 * x.nRemaining + x.sav : Nat) : K)) / 50 / 5
    push_cast
    ring
  have hraw100 : ∀ a : Nat,
      (x.targetTotal - ((50 * x.nRemaining + 250 * a + x.sav : Nat) : K)) / ((50 : Nat) : K)
        = X - 5 * (a : K) := by
    intro a
    show _ = (x.targetTotal - ((50 * x.nRemaining + x.sav : Nat) : K)) / 50 - 5 * (a : K)
    push_cast
    ring
  have hXb : X * 50 = x.acc * (x.den : K) - ((50 * x.nRemaining + x.sav : Nat) : K) := by
    show (x.targetTotal - ((50 * x.nRemaining + x.sav : Nat) : K)) / 50 * 50 = _
    rw [hx.target]
    unfold OsuCtx.den
    field_simp
  -- window ends
  let lo300 := clampN x.nRemaining ⌊X / 5⌋
  let hi300 := clampN x.nRemaining ⌈X / 5⌉
  let lo100 : Nat → Nat := fun a => clampN (x.nRemaining - a) ⌊X - 5 * (a : K)⌋
  let hi100 : Nat → Nat := fun a => clampN (x.nRemaining - a) ⌈X - 5 * (a : K)⌉
  let dist : Nat → Nat → K := fun a b => @OsuCtx.distOf K (fieldOps S) x a b (x.nRemaining - a - b)
  let cands : Nat → List (K × (Nat × Nat × Nat)) := fun a =>
    (rangeIncl (lo100 a) (hi100 a)).map fun b => (dist a b, (a, b, x.nRemaining - a - b))
  let inner : Acc K (Nat × Nat × Nat) → Nat → Acc K (Nat × Nat × Nat) := fun acc a =>
    (rangeIncl (lo100 a) (hi100 a)).foldl (fun acc b =>
      @Acc.offer K (fieldOps S) _ (acc.check (decide (a + b ≤ x.nRemaining))) (dist a b)
        (a, b, x.nRemaining - a - b)) (acc.check (decide (a ≤ x.nRemaining)))
  let init : Acc K (Nat × Nat × Nat) := { dist := S, val := (0, 0, 0), hit := false, ok := true }
  have hr : r = (rangeIncl lo300 hi300).foldl inner init := by
    show @osuSearch2 K (fieldOps S) x = _
    unfold osuSearch2
    simp only [fops_div, fops_sub, fops_ofNat, fops_floorU32, fops_ceilU32, fops_maxVal]
    rw [hraw300]
    simp only [hraw100]
    simp only [Nat.min_comm (min _ u32Max) (x.nRemaining - _)]
    rfl
  have hsel : Sel ((rangeIncl lo300 hi300).flatMap cands) init r := by
    rw [hr]
    apply Sel.foldl_flatMap
    intro acc a _
    exact Sel.of_check _ (Sel.foldl_offer S _ _ _ _ _)
  have hlh300 : lo300 ≤ hi300 := clampN_floor_le_ceil _ _
  have hlh100 : ∀ a, lo100 a ≤ hi100 a := fun a => clampN_floor_le_ceil _ _
  have hhi300 : hi300 ≤ x.nRemaining := clampN_le _ _
  have hhi100 : ∀ a, hi100 a ≤ x.nRemaining - a := fun a => clampN_le _ _
  have hmem : ∀ a b, lo300 ≤ a → a ≤ hi300 → lo100 a ≤ b → b ≤ hi100 a →
      (dist a b, (a, b, x.nRemaining - a - b)) ∈ (rangeIncl lo300 hi300).flatMap cands := by
    intro a b h1 h2 h3 h4
    exact List.mem_flatMap.2 ⟨a, mem_rangeIncl.2 ⟨h1, h2⟩,
      List.mem_map.2 ⟨b, mem_rangeIncl.2 ⟨h3, h4⟩, rfl⟩⟩
  obtain ⟨k1, c, hc, e1, e2, hmin⟩ := hsel.selected rfl
    (hmem lo300 (lo100 lo300) (le_refl _) hlh300 (le_refl _) (hlh100 _))
    (osu_dist_lt S hS x hx _ _ _)
  obtain ⟨a₁, ha₁, hc'⟩ := List.mem_flatMap.1 hc
  obtain ⟨b₁, hb₁, rfl⟩ := List.mem_map.1 hc'
  have ha₁' := mem_rangeIncl.1 ha₁
  have hb₁' := mem_rangeIncl.1 hb₁
  have hb₁R := hhi100 a₁
  have hval : r.val = (a₁, b₁, x.nRemaining - a₁ - b₁) := e2
  have hdist : r.dist = dist a₁ b₁ := e1
  refine ⟨k1, ?_, ?_, ?_⟩
  · -- ok
    rw [hr]
    have : ((rangeIncl lo300 hi300).foldl inner init).ok = init.ok := by
      apply foldl_ok_of_step
      intro acc a ha
      have ha' := mem_rangeIncl.1 ha
      have := foldl_offer_ok S (fun b => decide (a + b ≤ x.nRemaining)) (dist a)
        (fun b => (a, b, x.nRemaining - a - b)) (rangeIncl (lo100 a) (hi100 a))
        (acc.check (decide (a ≤ x.nRemaining)))
        (by
          intro b hb
          have hb' := mem_rangeIncl.1 hb
          have := hhi100 a
          exact decide_eq_true (by omega))
      show (inner acc a).ok = acc.ok
      rw [show (inner acc a).ok = (acc.check (decide (a ≤ x.nRemaining))).ok from this]
      show (acc.ok && decide (a ≤ x.nRemaining)) = acc.ok
      rw [decide_eq_true (by omega : a ≤ x.nRemaining), Bool.and_true]
    exact this
  · rw [hval]; simp only []; omega
  · intro a b c habc
    have hc : c = x.nRemaining - a - b := by omega
    rw [hval, hc]
    show dist a₁ b₁ ≤ dist a b
    rw [← hdist]
    -- replace `(a, b)` by a candidate with `a'` in the outer window
    obtain ⟨a', b'', ha', hab', hcl⟩ := two_level x.nRemaining hR X a b (by omega)
    -- then by the nearest inner candidate
    have hinner := nearest_int_clamped (x.nRemaining - a') (by omega) (X - 5 * (a' : K)) b''
      (by omega)
    have ha'win : lo300 ≤ a' ∧ a' ≤ hi300 := by
      rcases ha' with e | e
      · exact ⟨le_of_eq e.symm, e ▸ hlh300⟩
      · exact ⟨e ▸ hlh300, le_of_eq e⟩
    have step2 : dist a' b'' ≤ dist a b := by
      show @OsuCtx.distOf K (fieldOps S) x a' b'' _ ≤ @OsuCtx.distOf K (fieldOps S) x a b _
      rw [osu2_dist S x hx a' b'' hab', osu2_dist S x hx a b (by omega)]
      exact affine_mono x.acc _ 50 _ X (by norm_num) (Nat.cast_nonneg _) hXb _ _ hcl
    have step1 : ∀ b', b' ≤ x.nRemaining - a' →
        |X - 5 * (a' : K) - (b' : K)| ≤ |X - 5 * (a' : K) - (b'' : K)| → dist a' b' ≤ dist a' b'' := by
      intro b' hb' hle
      show @OsuCtx.distOf K (fieldOps S) x a' b' _ ≤ @OsuCtx.distOf K (fieldOps S) x a' b'' _
      rw [osu2_dist S x hx a' b' (by omega), osu2_dist S x hx a' b'' hab']
      apply affine_mono x.acc _ 50 _ X (by norm_num) (Nat.cast_nonneg _) hXb
      have e1 : X - ((5 * a' + b' : Nat) : K) = X - 5 * (a' : K) - (b' : K) := by push_cast; ring
      have e2 : X - ((5 * a' + b'' : Nat) : K) = X - 5 * (a' : K) - (b'' : K) := by push_cast; ring
      rw [e1, e2]
      exact hle
    rcases hinner with hle | hle
    · have := step1 (lo100 a') (le_trans (hlh100 a') (hhi100 a')) hle
      exact le_trans (le_trans (hmin _ (hmem a' (lo100 a') ha'win.1 ha'win.2 (le_refl _) (hlh100 _)))
        this) step2
    · have := step1 (hi100 a') (hhi100 a') hle
      exact le_trans (le_trans (hmin _ (hmem a' (hi100 a') ha'win.1 ha'win.2 (hlh100 _) (le_refl _)))
        this) step2

end Exact

end Rosu.GenState.Opt
