import RosuModel.Lemmas.DecodeLineNum
import RosuModel.Lemmas.DecodeLineDriver
import RosuModel.Lemmas.DecodeLineCurve

/-!
What the accepted lines guarantee about the numeric fields they push (hit objects, timing points),
and the discipline of the `curve_points` scratch buffer.
-/
namespace Rosu.DecodeLine
open Rosu.Decode

/-- the slider fields the parser bounds: at most 8999 repeats, `repeats + 2` node sounds, a pixel
length of magnitude at most `MAX_COORDINATE_VALUE`, at least one control point -/
def KindOK : Kind → Prop
  | .slider r len ns cps =>
    r ≤ 8999 ∧ ns.length = r + 2 ∧ (∀ l, len = some l → F64.mag l ≤ maxCoord64) ∧ cps ≠ []
  | .spinner d => F64.isNaN d = false ∧ 0 ≤ F64.num d
  | .hold d => F64.isNaN d = false
  | .circle => True

theorem nodeSounds_length (sound repeats : Nat) (s : Option Str) :
    (nodeSounds sound repeats s).length = repeats + 2 := by
  unfold nodeSounds
  cases s with
  | none => simp
  | some str =>
    simp only [List.length_append, List.length_take, List.length_drop, List.length_replicate]
    omega

theorem sliderLen_ok (f : Option Str) (len : Option Nat) (h : sliderLen f = .ok len) :
    ∀ l, len = some l → F64.mag l ≤ maxCoord64 := by
  unfold sliderLen at h
  cases f with
  | none => simp only [] at h; injection h with h; subst h; intro l hl; cases hl
  | some s =>
    simp only [] at h
    cases hp : F64.parseLim s maxCoord64 with
    | error e => rw [hp] at h; cases h
    | ok v =>
      rw [hp] at h
      simp only [] at h
      injection h with h
      subst h
      intro l hl
      split at hl
      · injection hl with hl
        subst hl
        unfold Fmt.max
        split
        · decide
        · exact parseCoord64_bounds s v hp
      · cases hl

theorem parseSlider_ok (curve : List CP) (x y : Int) (sound : Nat) (ps rs : Str) (rest2 : List Str)
    (k : Kind) (snd : Nat) (h : (parseSlider curve x y sound ps rs rest2).2 = .ok (k, snd)) :
    KindOK k ∧ (parseSlider curve x y sound ps rs rest2).1 = [] := by
  unfold parseSlider at h ⊢
  cases hreps : parseI32 rs with
  | error e => rw [hreps] at h; cases h
  | ok reps =>
    rw [hreps] at h
    simp only [] at h ⊢
    by_cases h9 : reps > repeatCap
    · rw [if_pos h9] at h; cases h
    · rw [if_neg h9] at h ⊢
      have hcap : repeatCap = 9000 := rfl
      rw [hcap] at h9
      unfold repeatsOf at h ⊢
      by_cases hu : reps - 1 < -2147483648
      · rw [if_pos hu] at h; cases h
      · rw [if_neg hu] at h ⊢
        simp only [] at h ⊢
        cases hlen : sliderLen rest2.head? with
        | error e => rw [hlen] at h; cases h
        | ok len =>
          rw [hlen] at h
          simp only [] at h ⊢
          cases hcs : parseCustomSound rest2[3]? sound with
          | error e => rw [hcs] at h; cases h
          | ok snd' =>
            rw [hcs] at h
            simp only [] at h ⊢
            cases hcp : convertPathStr curve ps x y with
            | mk curve' r =>
              rw [hcp] at h
              cases r with
              | error e => cases h
              | ok u =>
                simp only [] at h ⊢
                injection h with h
                injection h with hk hs
                subst hk
                have hne := convertPathStr_ok_ne_nil curve ps x y (by rw [hcp])
                rw [hcp] at hne
                refine ⟨⟨?_, nodeSounds_length _ _ _, sliderLen_ok _ _ hlen, hne⟩, trivial⟩
                split <;> omega

theorem parseKind_ok (curve : List CP) (x y : Int) (time : Nat) (ty : Int) (sound : Nat)
    (rest : List Str) (k : Kind) (snd : Nat)
    (h : (parseKind curve x y time ty sound rest).2 = .ok (k, snd)) : KindOK k := by
  unfold parseKind at h
  by_cases h1 : hasFlag ty 1 = true
  · rw [if_pos h1] at h
    unfold parseCircle at h
    cases hc : parseCustomSound rest.head? sound with
    | error e => rw [hc] at h; cases h
    | ok s =>
      rw [hc] at h
      injection h with h
      injection h with hk _
      subst hk
      trivial
  · rw [if_neg h1] at h
    by_cases h2 : hasFlag ty 2 = true
    · rw [if_pos h2] at h
      match rest, h with
      | [], h => cases h
      | [_], h => cases h
      | ps :: rs :: rest2, h => exact (parseSlider_ok _ _ _ _ _ _ _ _ _ h).1
    · rw [if_neg h2] at h
      by_cases h8 : hasFlag ty 8 = true
      · rw [if_pos h8] at h
        unfold parseSpinner at h
        match rest, h with
        | [], h => cases h
        | es :: rest2, h =>
          simp only [] at h
          cases hp : parseF64 es with
          | error e => rw [hp] at h; cases h
          | ok t =>
            rw [hp] at h
            simp only [] at h
            cases hc : parseCustomSound rest2.head? sound with
            | error e => rw [hc] at h; cases h
            | ok s =>
              rw [hc] at h
              injection h with h
              injection h with hk _
              subst hk
              have hm := max0_nonneg (F64.sub t time) (sub64_not_nan _ _)
              exact nz64_props _ hm.1 hm.2
      · rw [if_neg h8] at h
        by_cases h128 : hasFlag ty 128 = true
        · rw [if_pos h128] at h
          unfold parseHold at h
          cases hf : Option.filter (fun s => !s.isEmpty) rest.head? with
          | none =>
            rw [hf] at h
            injection h with h
            injection h with hk _
            subst hk
            exact nz64_not_nan _ (sub64_not_nan _ _)
          | some s =>
            rw [hf] at h
            simp only [] at h
            cases hso : splitOnce ':' s with
            | none => rw [hso] at h; cases h
            | some p =>
              obtain ⟨es, bank⟩ := p
              rw [hso] at h
              simp only [] at h
              cases hc : parseCustomSound (some bank) sound with
              | error e => rw [hc] at h; cases h
              | ok sd =>
                rw [hc] at h
                simp only [] at h
                cases hp : parseF64 es with
                | error e => rw [hp] at h; cases h
                | ok t =>
                  rw [hp] at h
                  injection h with h
                  injection h with hk _
                  subst hk
                  exact nz64_not_nan _ (sub64_not_nan _ _)
        · rw [if_neg h128] at h; cases h

/-- (c) what an accepted `[HitObjects]` line pushes: one object with a finite start time of magnitude
at most `MAX_PARSE_VALUE` and bounded slider fields, and its one sound. -/
theorem parseHitObject_ok_fields (st : HState) (line : Str) (h : (parseHitObject st line).2 = .ok ()) :
    ∃ o s, (parseHitObject st line).1.objects = st.objects ++ [o] ∧
      (parseHitObject st line).1.sounds = st.sounds ++ [s] ∧
      F64.mag o.time ≤ maxParse64 ∧ F64.isFinite o.time = true ∧ KindOK o.kind ∧
      (-131072 ≤ o.x ∧ o.x ≤ 131072) ∧ (-131072 ≤ o.y ∧ o.y ≤ 131072) := by
  unfold parseHitObject at h ⊢
  match hsp : splitC ',' (trimComment line), h with
  | [], h => cases h
  | [_], h => cases h
  | [_, _], h => cases h
  | [_, _, _], h => cases h
  | [_, _, _, _], h => cases h
  | xs :: ys :: ts :: ks :: ss :: rest, h =>
    simp only [] at h ⊢
    cases hx : posOf xs with
    | error e => rw [hx] at h; cases h
    | ok x =>
      rw [hx] at h
      simp only [] at h ⊢
      cases hy : posOf ys with
      | error e => rw [hy] at h; cases h
      | ok y =>
        rw [hy] at h
        simp only [] at h ⊢
        cases ht : parseF64 ts with
        | error e => rw [ht] at h; cases h
        | ok time =>
          rw [ht] at h
          simp only [] at h ⊢
          cases hk : parseI32Raw ks with
          | none => rw [hk] at h; cases h
          | some ty =>
            rw [hk] at h
            simp only [] at h ⊢
            cases hs : parseI32Raw ss with
            | none => rw [hs] at h; cases h
            | some sn =>
              rw [hs] at h
              simp only [] at h ⊢
              cases hpk : parseKind st.curve x y time ty (sn % 256).toNat rest with
              | mk curve r =>
                rw [hpk] at h
                cases r with
                | error e => cases h
                | ok u =>
                  obtain ⟨kind, snd⟩ := u
                  have hb := parseF64_bounds ts time ht
                  have hko := parseKind_ok st.curve x y time ty (sn % 256).toNat rest kind snd
                    (by rw [hpk])
                  exact ⟨_, _, rfl, rfl, hb.1, hb.2, hko, posOf_bound xs x hx, posOf_bound ys y hy⟩

/-- (c) what an accepted `[TimingPoints]` line hands to the pending-point logic: a finite time of
magnitude at most `MAX_PARSE_VALUE`; a slider velocity in `[0.1, 10]`; a scroll speed that is `1.0`
or in `[0.01, 10]`; for a timing change a non-NaN beat length in `[6, 60000]`. -/
theorem parseTimingLine_ok (scroll : Bool) (line : Str) (ln : TLine)
    (h : parseTimingLine scroll line = .ok ln) :
    (∃ time, ln.time = keyOfBits64 time ∧ F64.mag time ≤ maxParse64 ∧ F64.isFinite time = true) ∧
    (F64.isNaN ln.d.1 = false ∧ F64.num c64_0_1 ≤ F64.num ln.d.1 ∧ F64.num ln.d.1 ≤ F64.num c64_10) ∧
    (ln.e.2 = c64_1 ∨ (F64.isNaN ln.e.2 = false ∧ F64.num c64_0_01 ≤ F64.num ln.e.2 ∧
      F64.num ln.e.2 ≤ F64.num c64_10)) ∧
    (ln.timingChange = true → F64.isNaN ln.t = false ∧ F64.num c64_6 ≤ F64.num ln.t ∧
      F64.num ln.t ≤ F64.num c64_60000) := by
  unfold parseTimingLine at h
  match hsp : splitC ',' (trimComment line), h with
  | [], h => cases h
  | [_], h => cases h
  | ts :: bs :: rest, h =>
    simp only [] at h
    cases ht : parseF64 ts with
    | error e => rw [ht] at h; cases h
    | ok time =>
      rw [ht] at h
      simp only [] at h
      cases hb : F64.parseRaw bs with
      | none => rw [hb] at h; cases h
      | some beatLen =>
        rw [hb] at h
        simp only [] at h
        by_cases h1 : F64.lt beatLen (F64.neg maxParse64) = true
        · rw [if_pos h1] at h; cases h
        · rw [if_neg h1] at h
          by_cases h2 : F64.lt maxParse64 beatLen = true
          · rw [if_pos h2] at h; cases h
          · rw [if_neg h2] at h
            cases hts : timeSignature rest.head? with
            | error e => rw [hts] at h; cases h
            | ok u =>
              rw [hts] at h
              simp only [] at h
              cases hk : kiaiFlag rest[5]? with
              | error e => rw [hk] at h; cases h
              | ok kiai =>
                rw [hk] at h
                simp only [] at h
                by_cases hn : (timingChangeFlag rest[4]? && F64.isNaN beatLen) = true
                · rw [if_pos hn] at h; cases h
                · rw [if_neg hn] at h
                  injection h with h
                  subst h
                  have hspeed : F64.isNaN (if F64.lt beatLen 0 = true then F64.div c64_100 (F64.neg beatLen)
                      else c64_1) = false := by
                    split
                    · exact div64_not_nan _ _
                    · decide
                  have tb := parseF64_bounds ts time ht
                  refine ⟨⟨time, rfl, tb.1, tb.2⟩, ?_, ?_, ?_⟩
                  · exact clamp_bounds F64 _ c64_0_1 c64_10 hspeed (by decide) (by decide) (by decide)
                  · cases scroll
                    · exact Or.inl rfl
                    · exact Or.inr (clamp_bounds F64 _ c64_0_01 c64_10 hspeed (by decide) (by decide) (by decide))
                  · intro htc
                    simp only [] at htc
                    have : F64.isNaN beatLen = false := by
                      cases hnan : F64.isNaN beatLen
                      · rfl
                      · rw [htc, hnan] at hn; exact absurd rfl hn
                    exact clamp_bounds F64 beatLen c64_6 c64_60000 this (by decide) (by decide) (by decide)

/-- (c) a pushed break: finite start with `|t| ≤ MAX_PARSE_VALUE`, an end that is not NaN and not
before the start -/
theorem parseEvent_ok (line : Str) (st en : Nat) (h : parseEvent line = .ok (some (st, en))) :
    F64.mag st ≤ maxParse64 ∧ F64.isFinite st = true ∧ F64.isNaN en = false ∧ F64.num st ≤ F64.num en := by
  unfold parseEvent at h
  match hs : splitC ',' (trimComment line), h with
  | [], h => cases h
  | ty :: rest, h =>
    simp only [] at h
    match het : eventType ty, h with
    | none, h => cases h
    | some false, h => cases h
    | some true, h =>
      simp only [] at h
      match rest, h with
      | [], h => cases h
      | [_], h => cases h
      | ss :: es :: _, h =>
        simp only [] at h
        cases hp : parseF64 ss with
        | error e => rw [hp] at h; cases h
        | ok s0 =>
          rw [hp] at h
          simp only [] at h
          cases hq : parseF64 es with
          | error e => rw [hq] at h; cases h
          | ok e0 =>
            rw [hq] at h
            injection h with h
            injection h with h
            injection h with h1 h2
            subst h1 h2
            have bs := parseF64_bounds ss s0 hp
            have be := parseF64_bounds es e0 hq
            have ns : F64.isNaN s0 = false := (parseLim_ok F64 ss maxParse64 s0 hp).1
            have ne : F64.isNaN e0 = false := (parseLim_ok F64 es maxParse64 e0 hq).1
            refine ⟨bs.1, bs.2, ?_, ?_⟩
            · apply nz64_not_nan
              unfold Fmt.max
              split
              · exact ne
              · exact ns
            · unfold nz64 Fmt.max
              by_cases hl : F64.lt s0 e0 = true
              · rw [if_pos hl]
                have hle : F64.num s0 ≤ F64.num e0 := by
                  unfold Fmt.lt at hl
                  simp only [ns, ne, Bool.not_false, Bool.true_and, decide_eq_true_eq] at hl
                  omega
                split
                · rename_i hz
                  unfold Fmt.isZero at hz
                  have : F64.num e0 = 0 := by
                    unfold Fmt.num
                    have hz' : F64.mag e0 = 0 := by simpa using hz
                    rw [hz']; split <;> rfl
                  have h0 : F64.num 0 = 0 := by decide
                  omega
                · exact hle
              · rw [if_neg hl]
                split
                · rename_i hz
                  unfold Fmt.isZero at hz
                  have : F64.num s0 = 0 := by
                    unfold Fmt.num
                    have hz' : F64.mag s0 = 0 := by simpa using hz
                    rw [hz']; split <;> rfl
                  have h0 : F64.num 0 = 0 := by decide
                  omega
                · exact Int.le_refl _

/-! ## the `curve_points` scratch buffer -/

/-- lines of every kind except sliders never touch `curve_points` -/
theorem parseKind_curve_nonslider (curve : List CP) (x y : Int) (time : Nat) (ty : Int) (sound : Nat)
    (rest : List Str) (h : hasFlag ty 1 = true ∨ hasFlag ty 2 = false) :
    (parseKind curve x y time ty sound rest).1 = curve := by
  unfold parseKind
  by_cases h1 : hasFlag ty 1 = true
  · rw [if_pos h1]
  · rw [if_neg h1]
    have h2 : ¬ hasFlag ty 2 = true := by
      rcases h with h | h
      · exact absurd h h1
      · rw [h]; decide
    rw [if_neg h2]
    split
    · rfl
    · split <;> rfl

/-- an accepted slider line consumes the whole buffer: `curve_points` is empty afterwards -/
theorem parseKind_slider_clears (curve : List CP) (x y : Int) (time : Nat) (ty : Int) (sound : Nat)
    (rest : List Str) (k : Kind) (snd : Nat) (h1 : hasFlag ty 1 = false) (h2 : hasFlag ty 2 = true)
    (h : (parseKind curve x y time ty sound rest).2 = .ok (k, snd)) :
    (parseKind curve x y time ty sound rest).1 = [] := by
  unfold parseKind at h ⊢
  rw [if_neg (by rw [h1]; decide), if_pos h2] at h ⊢
  match rest, h with
  | [], h => cases h
  | [_], h => cases h
  | ps :: rs :: rest2, h => exact (parseSlider_ok _ _ _ _ _ _ _ _ _ h).2

end Rosu.DecodeLine
