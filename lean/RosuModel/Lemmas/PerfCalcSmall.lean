import RosuModel.Lemmas.PerfCalcReal

/-! mania and catch pp formulas over ℝ: side conditions, sign, zero hits. -/

namespace Rosu.PerfCalc
open PPOps
open Rosu.Finite (ManiaState CatchState)

/-! ## mania -/

theorem maniaCustomAccuracy_nonneg (s : ManiaState) : 0 ≤ (maniaCustomAccuracy s : ℝ) := by
  unfold maniaCustomAccuracy
  split
  · norm_num
  · simp only [r_div, r_ofNat]; positivity

theorem maniaCustomAccuracy_zero_hits (s : ManiaState) (h : s.totalHits = 0) :
    (maniaCustomAccuracy s : ℝ) = 0 := by
  unfold maniaCustomAccuracy
  rw [if_pos h]; norm_num

theorem maniaDifficultyValue_eq (stars : ℝ) (s : ManiaState) :
    maniaDifficultyValue stars s
      = 8 * (max (stars - 0.15) 0.05) ^ (2.2 : ℝ) * max 0 (5 * maniaCustomAccuracy s - 4)
          * (1 + 0.1 * min 1 ((s.totalHits : ℝ) / 1500)) := by
  unfold maniaDifficultyValue
  simp only [r_add, r_sub, r_mul, r_div, r_lit, r_fmax, r_fmin, r_powf, r_ofNat]
  norm_num

theorem maniaDifficultyValue_nonneg (stars : ℝ) (s : ManiaState) : 0 ≤ maniaDifficultyValue stars s := by
  rw [maniaDifficultyValue_eq]
  have h0 : (0 : ℝ) ≤ max (stars - 0.15) 0.05 := le_trans (by norm_num) (le_max_right _ _)
  have h1 : 0 ≤ (max (stars - 0.15) 0.05 : ℝ) ^ (2.2 : ℝ) := Real.rpow_nonneg h0 _
  have h2 : (0 : ℝ) ≤ max 0 (5 * maniaCustomAccuracy s - 4) := le_max_left _ _
  have h3 : (0 : ℝ) ≤ min 1 ((s.totalHits : ℝ) / 1500) := le_min (by norm_num) (by positivity)
  have h4 : (0 : ℝ) ≤ 1 + 0.1 * min 1 ((s.totalHits : ℝ) / 1500) := by nlinarith
  positivity

theorem maniaDifficultyValue_zero_hits (stars : ℝ) (s : ManiaState) (h : s.totalHits = 0) :
    maniaDifficultyValue stars s = 0 := by
  rw [maniaDifficultyValue_eq, maniaCustomAccuracy_zero_hits s h]
  have : max (0 : ℝ) (5 * 0 - 4) = 0 := by norm_num
  rw [this]; ring

theorem maniaCalculate_eq (stars : ℝ) (m : ManiaMods) (s : ManiaState) :
    maniaCalculate stars m s
      = (maniaDifficultyValue stars s * ((if m.nf then 0.75 else 1) * (if m.ez then 0.5 else 1)),
         maniaDifficultyValue stars s) := by
  unfold maniaCalculate
  cases m.nf <;> cases m.ez <;> simp <;> norm_num

theorem maniaCalculateDom_true (stars : ℝ) (m : ManiaMods) (s : ManiaState) :
    maniaCalculateDom stars m s = true := by
  unfold maniaCalculateDom
  have h0 : (0 : ℝ) < max (stars - 0.15) 0.05 := lt_of_lt_of_le (by norm_num) (le_max_right _ _)
  have hp : powfDom (fmax (stars - 0.15) 0.05 : ℝ) (2.2 : ℝ) = true := by
    apply powfDom_of_pos
    simpa using h0
  rw [hp]
  by_cases h : s.totalHits = 0
  · simp [h]
  · simp only [h, if_false, Bool.true_and, nz_iff, r_ofNat]
    have : 0 < s.totalHits := Nat.pos_of_ne_zero h
    positivity

/-! ## catch -/

theorem catchAccuracy_nonneg (s : CatchState) : 0 ≤ (catchAccuracy s : ℝ) := by
  unfold catchAccuracy
  split
  · norm_num
  · simp only [r_div, r_ofNat]; positivity

theorem catchAccuracy_le_one (s : CatchState) : (catchAccuracy s : ℝ) ≤ 1 := by
  unfold catchAccuracy
  split
  · norm_num
  · rename_i h
    simp only [r_div, r_ofNat]
    have hpos : (0 : ℝ) < (s.totalHits : ℝ) := by exact_mod_cast Nat.pos_of_ne_zero h
    rw [div_le_one hpos]
    have : s.fruits + s.droplets + s.tinyDroplets ≤ s.totalHits := by
      unfold CatchState.totalHits; omega
    exact_mod_cast this

theorem catchAccuracy_zero_hits (s : CatchState) (h : s.totalHits = 0) : (catchAccuracy s : ℝ) = 0 := by
  unfold catchAccuracy
  rw [if_pos h]; norm_num

theorem catchBase_nonneg (stars : ℝ) : 0 ≤ catchBase stars := by
  unfold catchBase
  simp only [r_sub, r_mul, r_div, r_lit, r_fmax, r_powf]
  have : (0 : ℝ) ≤ (5.0 * max (stars / 0.0049) 1.0 - 4.0) ^ (2.0 : ℝ) := by
    have h2 : (2.0 : ℝ) = ((2 : ℕ) : ℝ) := by norm_num
    rw [h2, Real.rpow_natCast]
    positivity
  positivity

theorem catchLenBonus_pos (n : Nat) : 0 < (catchLenBonus n : ℝ) := by
  unfold catchLenBonus
  simp only [r_add, r_mul, r_div, r_lit, r_fmin, r_ofNat, r_log10]
  have h1 : (0 : ℝ) ≤ min ((n : ℝ) / 2500.0) 1.0 := le_min (by positivity) (by norm_num)
  have h2 : (0 : ℝ) < 0.95 + 0.3 * min ((n : ℝ) / 2500.0) 1.0 := by
    have : (0 : ℝ) ≤ 0.3 * min ((n : ℝ) / 2500.0) 1.0 := by positivity
    have h95 : (0 : ℝ) < 0.95 := by norm_num
    linarith
  split
  · rename_i h
    have hn : (1 : ℝ) ≤ (n : ℝ) / 2500.0 := by
      have : (2500 : ℝ) ≤ (n : ℝ) := by exact_mod_cast (Nat.le_of_lt h)
      rw [le_div_iff₀ (by norm_num)]; linarith
    have := log10_nonneg hn
    have h475 : (0 : ℝ) ≤ 0.475 := by norm_num
    have : (0 : ℝ) ≤ Real.log ((n : ℝ) / 2500.0) / Real.log 10 * 0.475 := mul_nonneg this h475
    linarith
  · exact h2

theorem catchComboScaling_nonneg (c mc : Nat) : 0 ≤ (catchComboScaling c mc : ℝ) := by
  unfold catchComboScaling
  simp only [r_div, r_lit, r_fmin, r_powf, r_ofNat]
  refine le_min ?_ (by norm_num)
  have h1 : (0 : ℝ) ≤ (c : ℝ) ^ (0.8 : ℝ) := Real.rpow_nonneg (by positivity) _
  have h2 : (0 : ℝ) ≤ (mc : ℝ) ^ (0.8 : ℝ) := Real.rpow_nonneg (by positivity) _
  positivity

theorem catchComboScaling_le_one (c mc : Nat) : (catchComboScaling c mc : ℝ) ≤ 1 := by
  unfold catchComboScaling
  simp only [r_div, r_lit, r_fmin, r_powf, r_ofNat]
  exact le_trans (min_le_right _ _) (by norm_num)

theorem catchArFactor_pos (ar : ℝ) : 0 < catchArFactor ar := by
  unfold catchArFactor
  simp only [r_add, r_sub, r_mul, r_lit, r_lt]
  norm_num
  split_ifs <;> nlinarith

theorem catchHdLow_pos {ar : ℝ} (h : ar ≤ 10) : 0 < catchHdLow ar := by
  unfold catchHdLow
  simp only [r_add, r_sub, r_mul, r_lit]
  norm_num; nlinarith

theorem catchHdHigh_pos (ar : ℝ) : 0 < catchHdHigh ar := by
  unfold catchHdHigh
  simp only [r_add, r_sub, r_mul, r_lit, r_fmin]
  norm_num
  have h : min ar 11 ≤ (11 : ℝ) := min_le_right _ _
  nlinarith

theorem catchNfFactor_pos (n : Nat) : 0 < (catchNfFactor n : ℝ) := by
  unfold catchNfFactor
  simp only [r_sub, r_mul, r_lit, r_fmax, r_ofNat]
  exact lt_of_lt_of_le (by norm_num) (le_max_right _ _)

theorem catchAccPow_nonneg (s : CatchState) : 0 ≤ (catchAccuracy s : ℝ) ^ (5.5 : ℝ) :=
  Real.rpow_nonneg (catchAccuracy_nonneg s) _

/-- `if c { pp *= f }` keeps a non-negative value non-negative when `f ≥ 0` on that branch -/
theorem ite_mul_nonneg {c : Prop} [Decidable c] {pp f : ℝ} (h : 0 ≤ pp) (hf : c → 0 ≤ f) :
    0 ≤ (if c then pp * f else pp) := by
  split_ifs with hc
  · exact mul_nonneg h (hf hc)
  · exact h

/-- (b) for catch: `pp ≥ 0` for every real `stars`, `ar` (any sign), every state, every mod flag -/
theorem catchCalculate_nonneg (a : CatchAttrs ℝ) (m : CatchMods) (s : CatchState) :
    0 ≤ catchCalculate a m s := by
  unfold catchCalculate
  extract_lets maxCombo pp comboHits lenBonus pp1 pp2 pp3 ar pp4 pp5 pp6 pp7
  have hl : 0 ≤ lenBonus := (catchLenBonus_pos comboHits).le
  have h0 : 0 ≤ pp := catchBase_nonneg a.stars
  have h1 : 0 ≤ pp1 := mul_nonneg h0 hl
  have h2 : 0 ≤ pp2 := mul_nonneg h1 (Real.rpow_nonneg (by norm_num) _)
  have h3 : 0 ≤ pp3 := ite_mul_nonneg h2 (fun _ => catchComboScaling_nonneg _ _)
  have h4 : 0 ≤ pp4 := mul_nonneg h3 (catchArFactor_pos ar).le
  have h5 : 0 ≤ pp5 := by
    show 0 ≤ (if m.hd = true then (if PPOps.le ar 10.0 = true then pp4 * catchHdLow ar
      else if PPOps.lt 10.0 ar = true then pp4 * catchHdHigh ar else pp4) else pp4)
    split_ifs with hh hle hlt
    · have : ar ≤ 10 := by
        have := (r_le ar 10.0).1 hle
        norm_num at this; exact this
      exact mul_nonneg h4 (catchHdLow_pos this).le
    · exact mul_nonneg h4 (catchHdHigh_pos ar).le
    · exact h4
    · exact h4
  have h6 : 0 ≤ pp6 := ite_mul_nonneg h5 (fun _ => mul_nonneg (by norm_num) hl)
  have h7 : 0 ≤ pp7 := mul_nonneg h6 (catchAccPow_nonneg s)
  exact ite_mul_nonneg h7 (fun _ => (catchNfFactor_pos s.misses).le)

/-- (c) for catch: zero hits ⇒ `pp = 0`, for every real `stars`, `ar` and every mod flag -/
theorem catchCalculate_zero_hits (a : CatchAttrs ℝ) (m : CatchMods) (s : CatchState)
    (h : s.totalHits = 0) : catchCalculate a m s = 0 := by
  unfold catchCalculate
  extract_lets maxCombo pp comboHits lenBonus pp1 pp2 pp3 ar pp4 pp5 pp6 pp7
  have h7 : pp7 = 0 := by
    show pp6 * (catchAccuracy s : ℝ) ^ (5.5 : ℝ) = 0
    rw [catchAccuracy_zero_hits s h, Real.zero_rpow (by norm_num), mul_zero]
  show (if m.nf = true then pp7 * catchNfFactor s.misses else pp7) = 0
  rw [h7]; split_ifs <;> simp

/-- (a) for catch: every partial operation is in its domain as soon as the state's combo does not
exceed the attributes' (`generate_state` guarantees it) -/
theorem catchCalculateDom_true (a : CatchAttrs ℝ) (m : CatchMods) (s : CatchState)
    (hc : s.maxCombo ≤ a.maxCombo) : catchCalculateDom a m s = true := by
  unfold catchCalculateDom
  extract_lets comboHits
  have e1 : (if comboHits > 2500 then PPOps.lt 0.0 (PPOps.ofNat comboHits / 2500.0 : ℝ) else true) = true := by
    split_ifs with h
    · rw [r_lt]; simp only [r_ofNat]
      norm_num; omega
    · rfl
  have e2 : (if s.maxCombo > 0 then
        powfDom (PPOps.ofNat s.maxCombo) (0.8 : ℝ) && powfDom (PPOps.ofNat a.maxCombo) (0.8 : ℝ)
          && nz (PPOps.powf (PPOps.ofNat a.maxCombo) 0.8 : ℝ)
      else true) = true := by
    split_ifs with h
    · have hpos : (0 : ℝ) < (a.maxCombo : ℝ) := by exact_mod_cast (by omega : 0 < a.maxCombo)
      have hs : (0 : ℝ) < (s.maxCombo : ℝ) := by exact_mod_cast h
      rw [Bool.and_eq_true, Bool.and_eq_true]
      refine ⟨⟨powfDom_of_pos _ (by simpa using hs), powfDom_of_pos _ (by simpa using hpos)⟩, ?_⟩
      rw [nz_iff]; simp only [r_powf, r_ofNat]
      exact (Real.rpow_pos_of_pos hpos _).ne'
    · rfl
  have e3 : (if s.totalHits = 0 then true else nz (PPOps.ofNat s.totalHits : ℝ)) = true := by
    split_ifs with h
    · rfl
    · rw [nz_iff]; simp only [r_ofNat]; exact_mod_cast h
  have e4 : powfDom (catchAccuracy s : ℝ) (5.5 : ℝ) = true :=
    powfDom_of_nonneg (catchAccuracy_nonneg s) (by norm_num)
  rw [e1, e2, e3, e4]; rfl

end Rosu.PerfCalc
