import RosuModel.Lemmas.GenStateExactOsu2

/-!
# osu!mania: the shift keeps accuracy, and the search selects the best enumerated candidate

The candidate enumeration of `maniaSearch` is named (`maniaWin320/300/200`, `maniaN100s`,
`maniaCand`, `maniaCands`); `maniaSearch_eq`/`maniaLoop…_eq` check these names against the model,
so that "best of the window" can be stated.
-/

set_option linter.unusedSectionVars false

namespace Rosu.GenState.Opt

/-! ## the priority shift -/

/-- `maniaShift` keeps `total_hits`, the accuracy numerator (it only acts when `classic`, where
320s and 300s weigh the same) and the misses; its checked subtractions pass. -/
theorem maniaShift_spec {R : Type} (x : ManiaCtx R) (prio : Prio) (s : ManiaState) :
    (maniaShift x prio s).2 = true ∧ (maniaShift x prio s).1.totalHits = s.totalHits ∧
      maniaAccNum x.classic (maniaShift x prio s).1 = maniaAccNum x.classic s ∧
      (maniaShift x prio s).1.misses = s.misses := by
  unfold maniaShift
  by_cases hc : (x.classic && x.g320.isNone) = true
  · rw [if_pos hc]
    have hcl : x.classic = true := by
      cases h : x.classic <;> simp_all
    rw [hcl]
    generalize x.g300.isNone = c1
    generalize (x.g100.isNone && x.g200.isNone) = c2
    generalize (x.g50.isNone && x.g200.isNone) = c3
    cases prio <;> cases c1 <;> cases c2 <;> cases c3 <;>
      simp only [ManiaState.totalHits, maniaAccNum, if_true, Bool.false_eq_true, if_false,
        Bool.and_eq_true, decide_eq_true_eq, Bool.and_self, and_true, true_and] <;>
      omega
  · rw [if_neg hc]
    exact ⟨rfl, rfl, rfl, rfl⟩

/-! ## the enumeration, named -/

section Generic
variable {R : Type} [NumOps R]
open NumOps

/-- the `n100s` two-element list of the innermost loop -/
def maniaN100s (x : ManiaCtx R) (n320 n300 n200 : Nat) : List Nat :=
  match x.g100 with
  | some n100 => [min n100 x.nRemaining, min n100 x.nRemaining]
  | none =>
    let remaining := x.nRemaining - (n320 + n300 + n200 + x.n50)
    let raw : R :=
      if x.g50.isSome then
        add (sub x.target (ofNat (19 * x.nRemaining + (if x.classic then 41 else 42) * n320 + 41 * n300 + 21 * n200)))
          (ofNat (9 * x.n50))
      else
        div (sub x.target (ofNat (10 * x.nRemaining + (if x.classic then 50 else 51) * n320 + 50 * n300 + 30 * n200)))
          (ofNat 10)
    [min (floorU32 raw) remaining, min (ceilU32 raw) remaining]

/-- the state the innermost body builds for `(n320, n300, n200, n100)` -/
def maniaCand (x : ManiaCtx R) (n320 n300 n200 n100 : Nat) : ManiaState :=
  maniaFill x
    { n320 := n320, n300 := n300, n200 := n200, n100 := n100,
      n50 := match x.g50 with
        | some n50 => min n50 x.nRemaining
        | none => x.nRemaining - (n320 + n300 + n200 + n100),
      misses := x.misses }

/-- `(min_n200, max_n200)` -/
def maniaWin200 (x : ManiaCtx R) (n320 n300 : Nat) : Nat × Nat :=
  let nRem := x.nRemaining
  let remaining := nRem - (n320 + n300 + x.n100 + x.n50)
  let w := if x.classic then 50 else 51
  match x.g200 with
  | some n200 => (min n200 nRem, min n200 nRem)
  | none =>
    (min (floorU32 (div (add (sub x.target (ofNat (20 * nRem + w * n320 + 50 * n300)))
        (ofNat (10 * x.n50))) (ofNat 30) : R)) remaining,
     min (ceilU32 (div (sub x.target (ofNat (10 * nRem + w * n320 + 50 * n300 + 10 * x.n100)))
        (ofNat 30) : R)) remaining)

/-- `(min_n300, max_n300)` -/
def maniaWin300 (x : ManiaCtx R) (n320 : Nat) : Nat × Nat :=
  let nRem := x.nRemaining
  let remaining := nRem - (n320 + x.n200 + x.n100 + x.n50)
  let skip := x.classic && x.g320.isNone
  match x.g300 with
  | some n300 => (min n300 nRem, min n300 nRem)
  | none =>
    (min (floorU32 (if skip then (ofNat 0 : R) else
        div (add (sub x.target (ofNat (40 * nRem + (if x.classic then 20 else 21) * n320)))
          (ofNat (20 * x.n100 + 30 * x.n50))) (ofNat 20))) remaining,
     min (ceilU32 (if skip then (ofNat 0 : R) else
        div (sub x.target (ofNat (10 * nRem + (if x.classic then 50 else 51) * n320 + 30 * x.n200 + 10 * x.n100)))
          (ofNat 50))) remaining)

/-- `(min_n320, max_n320)` -/
def maniaWin320 (x : ManiaCtx R) : Nat × Nat :=
  let nRem := x.nRemaining
  let remaining := nRem - (x.n300 + x.n200 + x.n100 + x.n50)
  match x.g320 with
  | some n320 => (min n320 nRem, min n320 nRem)
  | none =>
    (min (floorU32 (if x.classic then
        sub (div (add (sub x.target (ofNat (40 * nRem))) (ofNat (20 * x.n100 + 30 * x.n50))) (ofNat 20))
          (ofNat x.n300)
      else
        add (sub x.target (ofNat (60 * nRem))) (ofNat (20 * x.n200 + 40 * x.n100 + 50 * x.n50)) : R)) remaining,
     min (ceilU32 (div (sub x.target (ofNat (10 * nRem + 50 * x.n300 + 30 * x.n200 + 10 * x.n100)))
        (ofNat (if x.classic then 50 else 51)) : R)) remaining)

/-- the initial `best_state` -/
def maniaBest₀ (x : ManiaCtx R) : ManiaState :=
  { n320 := x.n320, n300 := x.n300, n200 := x.n200, n100 := x.n100,
    n50 := x.nRemaining - (x.n320 + x.n300 + x.n200 + x.n100), misses := x.misses }

/-- distance of a state to the target accuracy -/
def maniaDist (x : ManiaCtx R) (s : ManiaState) : R := abs (sub x.acc (maniaAcc x.classic s))

def maniaCands100 (x : ManiaCtx R) (n320 n300 n200 : Nat) : List (R × ManiaState) :=
  (maniaN100s x n320 n300 n200).map fun n100 =>
    (maniaDist x (maniaCand x n320 n300 n200 n100), maniaCand x n320 n300 n200 n100)

def maniaCands200 (x : ManiaCtx R) (n320 n300 : Nat) : List (R × ManiaState) :=
  (rangeIncl (maniaWin200 x n320 n300).1 (maniaWin200 x n320 n300).2).flatMap (maniaCands100 x n320 n300)

def maniaCands300 (x : ManiaCtx R) (n320 : Nat) : List (R × ManiaState) :=
  (rangeIncl (maniaWin300 x n320).1 (maniaWin300 x n320).2).flatMap (maniaCands200 x n320)

/-- every (distance, state) pair the nested loops offer, in order -/
def maniaCands (x : ManiaCtx R) : List (R × ManiaState) :=
  (rangeIncl (maniaWin320 x).1 (maniaWin320 x).2).flatMap (maniaCands300 x)

theorem maniaLoop100_eq (x : ManiaCtx R) (n320 n300 n200 : Nat) (a : Acc R ManiaState) :
    maniaLoop100 x n320 n300 n200 a
      = (maniaN100s x n320 n300 n200).foldl (fun a n100 =>
          a.offer (maniaDist x (maniaCand x n320 n300 n200 n100)) (maniaCand x n320 n300 n200 n100)) a :=
  rfl

theorem maniaLoop200_eq (x : ManiaCtx R) (n320 n300 : Nat) (a : Acc R ManiaState) :
    maniaLoop200 x n320 n300 a
      = (rangeIncl (maniaWin200 x n320 n300).1 (maniaWin200 x n320 n300).2).foldl
          (fun a n200 => maniaLoop100 x n320 n300 n200 a) a := by
  unfold maniaLoop200 maniaWin200
  cases x.g200 <;> rfl

theorem maniaLoop300_eq (x : ManiaCtx R) (n320 : Nat) (a : Acc R ManiaState) :
    maniaLoop300 x n320 a
      = (rangeIncl (maniaWin300 x n320).1 (maniaWin300 x n320).2).foldl
          (fun a n300 => maniaLoop200 x n320 n300 a) a := by
  unfold maniaLoop300 maniaWin300
  cases x.g300 <;> rfl

theorem maniaSearch_eq (x : ManiaCtx R) :
    maniaSearch x
      = (rangeIncl (maniaWin320 x).1 (maniaWin320 x).2).foldl (fun a n320 => maniaLoop300 x n320 a)
          { dist := infVal, val := maniaBest₀ x, hit := false, ok := true } := by
  unfold maniaSearch maniaWin320
  cases x.g320 <;> rfl

/-- membership in the enumeration, spelled out -/
theorem mem_maniaCands (x : ManiaCtx R) (c : R × ManiaState) :
    c ∈ maniaCands x ↔
      ∃ n320 n300 n200 n100,
        ((maniaWin320 x).1 ≤ n320 ∧ n320 ≤ (maniaWin320 x).2) ∧
        ((maniaWin300 x n320).1 ≤ n300 ∧ n300 ≤ (maniaWin300 x n320).2) ∧
        ((maniaWin200 x n320 n300).1 ≤ n200 ∧ n200 ≤ (maniaWin200 x n320 n300).2) ∧
        n100 ∈ maniaN100s x n320 n300 n200 ∧
        c = (maniaDist x (maniaCand x n320 n300 n200 n100), maniaCand x n320 n300 n200 n100) := by
  have mem_r : ∀ {lo hi k : Nat}, k ∈ rangeIncl lo hi ↔ lo ≤ k ∧ k ≤ hi := by
    intro lo hi k
    unfold rangeIncl
    rw [List.mem_range'_1]
    omega
  unfold maniaCands maniaCands300 maniaCands200 maniaCands100
  simp only [List.mem_flatMap, List.mem_map, mem_r]
  constructor
  · rintro ⟨a, ha, b, hb, c', hc', d, hd, rfl⟩
    exact ⟨a, b, c', d, ha, hb, hc', hd, rfl⟩
  · rintro ⟨a, b, c', d, ha, hb, hc', hd, rfl⟩
    exact ⟨a, ha, b, hb, c', hc', d, hd, rfl⟩

end Generic

/-! ## selection at the exact instance -/

section Exact

variable {K : Type} [Field K] [LinearOrder K] [IsStrictOrderedRing K] [FloorRing K]

theorem maniaAcc_eq (S : K) (classic : Bool) (s : ManiaState) :
    @maniaAcc K (fieldOps S) classic s
      = (maniaAccNum classic s : K) / (((if classic then 60 else 61) * s.totalHits : Nat) : K) := by
  unfold maniaAcc
  split
  · next h => rw [h]; simp
  · rfl

theorem maniaAcc_mem01 (S : K) (classic : Bool) (s : ManiaState) :
    0 ≤ @maniaAcc K (fieldOps S) classic s ∧ @maniaAcc K (fieldOps S) classic s ≤ 1 := by
  rw [maniaAcc_eq]
  apply natdiv_mem01
  unfold maniaAccNum ManiaState.totalHits
  cases classic <;> simp only [Bool.false_eq_true, if_false, if_true] <;> omega

theorem maniaLoop100_sel (S : K) (x : ManiaCtx K) (n320 n300 n200 : Nat) (a : Acc K ManiaState) :
    Sel (@maniaCands100 K (fieldOps S) x n320 n300 n200) a
      (@maniaLoop100 K (fieldOps S) x n320 n300 n200 a) := by
  rw [@maniaLoop100_eq K (fieldOps S)]
  unfold maniaCands100
  rw [List.map_eq_flatMap]
  exact Sel.foldl_flatMap _ _ _ (fun a k _ => Sel.offer S a _ _) a

theorem maniaLoop200_sel (S : K) (x : ManiaCtx K) (n320 n300 : Nat) (a : Acc K ManiaState) :
    Sel (@maniaCands200 K (fieldOps S) x n320 n300) a
      (@maniaLoop200 K (fieldOps S) x n320 n300 a) := by
  rw [@maniaLoop200_eq K (fieldOps S)]
  exact Sel.foldl_flatMap _ _ _ (fun a k _ => maniaLoop100_sel S x n320 n300 k a) a

theorem maniaLoop300_sel (S : K) (x : ManiaCtx K) (n320 : Nat) (a : Acc K ManiaState) :
    Sel (@maniaCands300 K (fieldOps S) x n320) a (@maniaLoop300 K (fieldOps S) x n320 a) := by
  rw [@maniaLoop300_eq K (fieldOps S)]
  exact Sel.foldl_flatMap _ _ _ (fun a k _ => maniaLoop200_sel S x n320 k a) a

/-- `maniaSearch` is a selection from its enumeration, starting at `(∞, best₀, hit = false)`. -/
theorem maniaSearch_sel (S : K) (x : ManiaCtx K) :
    Sel (@maniaCands K (fieldOps S) x)
      { dist := S, val := @maniaBest₀ K x, hit := false, ok := true }
      (@maniaSearch K (fieldOps S) x) := by
  rw [@maniaSearch_eq K (fieldOps S)]
  exact Sel.foldl_flatMap _ _ _ (fun a k _ => maniaLoop300_sel S x k a) _

theorem maniaLoop100_ok (S : K) (x : ManiaCtx K) (n320 n300 n200 : Nat) (a : Acc K ManiaState) :
    (@maniaLoop100 K (fieldOps S) x n320 n300 n200 a).ok = a.ok := by
  rw [@maniaLoop100_eq K (fieldOps S)]
  exact foldl_ok_of_step _ _ (fun a k _ => offer_ok S a _ _) a

theorem maniaLoop200_ok (S : K) (x : ManiaCtx K) (n320 n300 : Nat) (a : Acc K ManiaState) :
    (@maniaLoop200 K (fieldOps S) x n320 n300 a).ok = a.ok := by
  rw [@maniaLoop200_eq K (fieldOps S)]
  exact foldl_ok_of_step _ _ (fun a k _ => maniaLoop100_ok S x n320 n300 k a) a

theorem maniaLoop300_ok (S : K) (x : ManiaCtx K) (n320 : Nat) (a : Acc K ManiaState) :
    (@maniaLoop300 K (fieldOps S) x n320 a).ok = a.ok := by
  rw [@maniaLoop300_eq K (fieldOps S)]
  exact foldl_ok_of_step _ _ (fun a k _ => maniaLoop200_ok S x n320 k a) a

/-- the search has no checked subtraction -/
theorem maniaSearch_ok (S : K) (x : ManiaCtx K) : (@maniaSearch K (fieldOps S) x).ok = true := by
  rw [@maniaSearch_eq K (fieldOps S)]
  exact foldl_ok_of_step _ _ (fun a k _ => maniaLoop300_ok S x k a) _

end Exact

end Rosu.GenState.Opt
