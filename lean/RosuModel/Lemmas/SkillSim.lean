import RosuModel.Lemmas.SkillV

/-!
The value-level section loop (`SkillOps.processAllV`) and the bit-level loop of `Model/Skill.lean`
over the encoded strain functions (`Skill.processAll ∘ encFns`) run in lock step (core Lean only,
every arithmetic): same fuel outcome, the bit-level state is the encoding of the value-level
state, and the vector `strains()` exports is the encoding of `exportPeaksV`.
-/

namespace Rosu.SkillOps
open Rosu.Skill (Obj)
open Rosu.SV

variable {R P σ : Type}

/-- the bit-level state encodes the value-level state -/
structure Rel (E : Enc R) (sv : StateV R σ) (sb : Skill.State R (Option σ)) : Prop where
  sk : sb.sk = some sv.sk
  peak : sb.sectionPeak = E.enc sv.sectionPeak
  sEnd : sb.sectionEnd = sv.sectionEnd
  peaks : sb.peaks = SVec.empty.pushAll (sv.peaks.map E.enc)
  objs : sb.objectStrains = sv.objectStrains.map E.enc

theorem rel_init (E : Enc R) (zero : R) (s0 : σ) (hz : E.enc zero = 0) :
    Rel E (StateV.init zero s0) (Skill.State.init zero (some s0)) :=
  ⟨rfl, hz.symm, rfl, rfl, rfl⟩

theorem sectionLoop_sim (E : Enc R) (A : SecArith R) (fmax : R → R → R) (F : FnsV R P σ) (o : Obj R P) :
    ∀ (fuel : Nat) (sv : StateV R σ) (sb : Skill.State R (Option σ)), Rel E sv sb →
      match sectionLoopV A F o fuel sv with
      | none => Skill.sectionLoop (encArith E A fmax) (encFns E F) o fuel sb = none
      | some sv' => ∃ sb', Skill.sectionLoop (encArith E A fmax) (encFns E F) o fuel sb = some sb' ∧ Rel E sv' sb' := by
  intro fuel
  induction fuel with
  | zero =>
    intro sv sb h
    unfold sectionLoopV Skill.sectionLoop
    simp only [encArith, h.sEnd]
    by_cases hg : A.gt o.startTime sv.sectionEnd = true
    · rw [if_pos hg, if_pos hg]
    · rw [if_neg hg, if_neg hg]; exact ⟨sb, rfl, h⟩
  | succ n ih =>
    intro sv sb h
    unfold sectionLoopV Skill.sectionLoop
    simp only [encArith, h.sEnd]
    by_cases hg : A.gt o.startTime sv.sectionEnd = true
    · rw [if_pos hg, if_pos hg]
      have hnew : Rel E
          { sv with sectionPeak := F.initialStrain sv.sk sv.sectionEnd o,
                    sectionEnd := A.addSec sv.sectionEnd, peaks := sv.peaks ++ [sv.sectionPeak] }
          { sb with sk := ((encFns E F).initialStrain sb.sk sv.sectionEnd o).1,
                    sectionPeak := ((encFns E F).initialStrain sb.sk sv.sectionEnd o).2,
                    sectionEnd := A.addSec sv.sectionEnd, peaks := sb.peaks.push sb.sectionPeak } := by
        refine ⟨?_, ?_, rfl, ?_, h.objs⟩
        · simp only [encFns, h.sk]
        · simp only [encFns, h.sk]
        · simp only [h.peaks, h.peak, List.map_append, List.map_cons, List.map_nil, SVec.pushAll,
            List.foldl_append, List.foldl_cons, List.foldl_nil]
      exact ih _ _ hnew
    · rw [if_neg hg, if_neg hg]; exact ⟨sb, rfl, h⟩

theorem process_sim (E : Enc R) (hdec : ∀ x, E.dec (E.enc x) = x) (A : SecArith R) (fmax : R → R → R)
    (F : FnsV R P σ) (fuel : Nat) (sv : StateV R σ) (sb : Skill.State R (Option σ)) (o : Obj R P)
    (h : Rel E sv sb) :
    match processV A fmax F fuel sv o with
    | .ok sv' => ∃ sb', Skill.process (encArith E A fmax) (encFns E F) fuel sb o = some sb' ∧ Rel E sv' sb'
    | .fuel => Skill.process (encArith E A fmax) (encFns E F) fuel sb o = none
    | .panic => True := by
  have h0 : Rel E (if o.idx = 0 then { sv with sectionEnd := A.ceilSec o.startTime } else sv)
      (if o.idx = 0 then { sb with sectionEnd := (encArith E A fmax).ceilSec o.startTime } else sb) := by
    split
    · exact ⟨h.sk, h.peak, rfl, h.peaks, h.objs⟩
    · exact h
  unfold processV Skill.process
  simp only
  have hs := sectionLoop_sim E A fmax F o fuel _ _ h0
  revert hs
  cases sectionLoopV A F o fuel (if o.idx = 0 then { sv with sectionEnd := A.ceilSec o.startTime } else sv) with
  | none =>
    intro hs
    simp only [hs]
  | some sv1 =>
    intro hs
    obtain ⟨sb1, e1, r1⟩ := hs
    simp only [e1]
    cases hv : F.strainValueAt sv1.sk o with
    | none => trivial
    | some r =>
      refine ⟨_, rfl, ?_⟩
      have hsv : (encFns E F).strainValueAt sb1.sk o = (some r.1, E.enc r.2) := by
        simp only [encFns, r1.sk, hv]
      refine ⟨?_, ?_, r1.sEnd, r1.peaks, ?_⟩
      · simp only [hsv]
      · simp only [hsv, encArith, r1.peak, hdec]
      · simp only [hsv, r1.objs, List.map_append, List.map_cons, List.map_nil]

/-- **Lock step.**  With `from_bits ∘ to_bits = id`: whenever the value-level run ends `ok`, the
bit-level run of `Model/Skill.lean` over the encoded concrete skill ends in the encoding of the
same state; whenever it runs out of fuel, so does the bit-level run. -/
theorem processAll_sim (E : Enc R) (hdec : ∀ x, E.dec (E.enc x) = x) (A : SecArith R)
    (fmax : R → R → R) (F : FnsV R P σ) (fuel : Nat) :
    ∀ (os : List (Obj R P)) (sv : StateV R σ) (sb : Skill.State R (Option σ)), Rel E sv sb →
      match processAllV A fmax F fuel sv os with
      | .ok sv' => ∃ sb', Skill.processAll (encArith E A fmax) (encFns E F) fuel sb os = some sb' ∧ Rel E sv' sb'
      | .fuel => Skill.processAll (encArith E A fmax) (encFns E F) fuel sb os = none
      | .panic => True := by
  intro os
  induction os with
  | nil => intro sv sb h; exact ⟨sb, rfl, h⟩
  | cons o os ih =>
    intro sv sb h
    unfold processAllV Skill.processAll
    have hp := process_sim E hdec A fmax F fuel sv sb o h
    revert hp
    cases processV A fmax F fuel sv o with
    | ok sv1 =>
      intro hp
      obtain ⟨sb1, e1, r1⟩ := hp
      simp only [e1]
      exact ih sv1 sb1 r1
    | fuel => intro hp; simp only [hp]
    | panic => intro _; trivial

/-- the exported vector of the bit-level state is the encoding of `exportPeaksV`, provided the
encoding commutes with `StrainsVec::push`'s canonicalisation -/
theorem exportPeaks_of_rel [FOps R] (E : Enc R) (hE : ∀ x, E.enc x < TWO64)
    (hcanon : ∀ x, canon (E.enc x) = E.enc (pushCanon x))
    {sv : StateV R σ} {sb : Skill.State R (Option σ)} (h : Rel E sv sb)
    (hl : sv.peaks.length + 1 < SIGN) :
    Skill.exportPeaks sb = some ((exportPeaksV sv).map E.enc) := by
  unfold Skill.exportPeaks Skill.currentStrainPeaks
  rw [intoVec_eq_abs]
  have hb : ∀ b ∈ (sv.peaks ++ [sv.sectionPeak]).map E.enc, b < TWO64 := by
    intro b hb
    obtain ⟨x, _, rfl⟩ := List.mem_map.mp hb
    exact hE x
  have hspec := pushAll_spec ((sv.peaks ++ [sv.sectionPeak]).map E.enc) SVec.empty empty_WF hb
    (by simp [SVec.empty]; omega)
  have hpush : sb.peaks.push sb.sectionPeak = SVec.empty.pushAll ((sv.peaks ++ [sv.sectionPeak]).map E.enc) := by
    simp only [h.peaks, h.peak, List.map_append, List.map_cons, List.map_nil, SVec.pushAll,
      List.foldl_append, List.foldl_cons, List.foldl_nil]
  rw [hpush, hspec.2.1]
  simp only [SVec.abs, SVec.empty, absList, exportPeaksV, List.map_map]
  congr 1
  apply List.map_congr_left
  intro x _
  exact hcanon x

end Rosu.SkillOps
