import RosuModel.Lemmas.GenStateBasic

/-! C12 lemmas for the mania generator, for every `NumOps` instance. -/
namespace Rosu.GenState
set_option linter.unusedSectionVars false

variable {R : Type} [NumOps R]

/-- judged objects before hold-note tails are added: `min(passed, n_objects)` -/
def maniaJ0 (c : ManiaCfg) : Nat := min (passedU32 c.passed) c.nObjects

/-- number of judgements: hold notes count twice for non-classic lazer scores -/
def maniaJ (c : ManiaCfg) : Nat := if c.classic then maniaJ0 c else maniaJ0 c + c.nHoldNotes

def noneCount (b : ManiaB R) : Nat :=
  (if b.n320.isNone then 1 else 0) + (if b.n300.isNone then 1 else 0) + (if b.n200.isNone then 1 else 0) +
  (if b.n100.isNone then 1 else 0) + (if b.n50.isNone then 1 else 0)

/-- the `_` arm ("at least two hitresults are unknown") of the accuracy branch runs -/
def ManiaSearchArm (b : ManiaB R) : Prop := b.acc.isSome = true ∧ 2 ≤ noneCount b

/-! ### the nested search never fails a checked operation -/

theorem maniaLoop100_inv (P : Acc R ManiaState → Prop) (x : ManiaCtx R) (n320 n300 n200 : Nat) (a : Acc R ManiaState)
    (h : P a) (hstep : ∀ (a : Acc R ManiaState) (d : R) (n100 n50 : Nat), P a →
      P (a.offer d (maniaFill x { n320 := n320, n300 := n300, n200 := n200, n100 := n100, n50 := n50, misses := x.misses }))) :
    P (maniaLoop100 x n320 n300 n200 a) := by
  unfold maniaLoop100
  dsimp only
  apply foldl_inv P
  · exact h
  · intro a' k _ ha'
    exact hstep a' _ k _ ha'

theorem maniaLoop200_inv (P : Acc R ManiaState → Prop) (x : ManiaCtx R) (n320 n300 : Nat) (a : Acc R ManiaState)
    (h : P a) (hstep : ∀ (a : Acc R ManiaState) (d : R) (k320 k300 k200 k100 k50 : Nat), P a →
      P (a.offer d (maniaFill x ⟨k320, k300, k200, k100, k50, x.misses⟩))) :
    P (maniaLoop200 x n320 n300 a) := by
  unfold maniaLoop200
  rcases hg : x.g200 with _ | g <;> dsimp only <;> apply foldl_inv P
  · exact h
  · intro a' k _ ha'
    exact maniaLoop100_inv P x _ _ _ a' ha' (fun a d n100 n50 ha => hstep a d _ _ _ _ _ ha)
  · exact h
  · intro a' k _ ha'
    exact maniaLoop100_inv P x _ _ _ a' ha' (fun a d n100 n50 ha => hstep a d _ _ _ _ _ ha)

theorem maniaLoop300_inv (P : Acc R ManiaState → Prop) (x : ManiaCtx R) (n320 : Nat) (a : Acc R ManiaState)
    (h : P a) (hstep : ∀ (a : Acc R ManiaState) (d : R) (k320 k300 k200 k100 k50 : Nat), P a →
      P (a.offer d (maniaFill x ⟨k320, k300, k200, k100, k50, x.misses⟩))) :
    P (maniaLoop300 x n320 a) := by
  unfold maniaLoop300
  rcases hg : x.g300 with _ | g <;> dsimp only <;> apply foldl_inv P
  · exact h
  · intro a' k _ ha'
    exact maniaLoop200_inv P x _ _ a' ha' hstep
  · exact h
  · intro a' k _ ha'
    exact maniaLoop200_inv P x _ _ a' ha' hstep

/-- Anything that holds of the initial `best` and is preserved by accepting a filled candidate
holds of the search result. -/
theorem maniaSearch_inv (P : Acc R ManiaState → Prop) (x : ManiaCtx R)
    (h : P ⟨NumOps.infVal, ⟨x.n320, x.n300, x.n200, x.n100,
        x.nRemaining - (x.n320 + x.n300 + x.n200 + x.n100), x.misses⟩, false, true⟩)
    (hstep : ∀ (a : Acc R ManiaState) (d : R) (k320 k300 k200 k100 k50 : Nat), P a →
      P (a.offer d (maniaFill x ⟨k320, k300, k200, k100, k50, x.misses⟩))) :
    P (maniaSearch x) := by
  unfold maniaSearch
  rcases hg : x.g320 with _ | g <;> dsimp only <;> apply foldl_inv P
  · exact h
  · intro a' k _ ha'
    exact maniaLoop300_inv P x _ a' ha' hstep
  · exact h
  · intro a' k _ ha'
    exact maniaLoop300_inv P x _ a' ha' hstep

theorem maniaSearch_ok (x : ManiaCtx R) : (maniaSearch x).ok = true := by
  apply maniaSearch_inv (fun a => a.ok = true)
  · rfl
  · intro a d k1 k2 k3 k4 k5 ha
    simpa using ha

theorem maniaFill_misses (x : ManiaCtx R) (c : ManiaState) : (maniaFill x c).misses = c.misses := by
  unfold maniaFill
  repeat' split
  all_goals rfl

theorem maniaFill_total (x : ManiaCtx R) (c : ManiaState) : x.nObjects ≤ (maniaFill x c).totalHits := by
  unfold maniaFill
  repeat' split
  all_goals (simp only [ManiaState.totalHits] at *; omega)

/-- the priority shifts never underflow, keep the misses and the total number of hits -/
theorem maniaShift_spec (x : ManiaCtx R) (prio : Prio) (s : ManiaState) :
    (maniaShift x prio s).2 = true ∧ (maniaShift x prio s).1.misses = s.misses ∧
    (maniaShift x prio s).1.totalHits = s.totalHits := by
  unfold maniaShift ManiaState.totalHits
  by_cases h1 : (x.classic && x.g320.isNone) = true
  · simp only [h1, if_true]
    cases prio <;> by_cases h3 : x.g300.isNone = true <;> by_cases hA : (x.g100.isNone && x.g200.isNone) = true <;>
      by_cases hB : (x.g50.isNone && x.g200.isNone) = true <;>
      simp only [h3, hA, hB, if_true, if_false, Bool.false_eq_true] <;>
      (refine ⟨?_, ?_, ?_⟩ <;> simp <;> omega)
  · simp [h1]

theorem maniaGenRaw_ok (c : ManiaCfg) (b : ManiaB R) : (maniaGenRaw c b).ok = true := by
  have hm := optMin_le b.misses (min (passedU32 c.passed) c.nObjects)
  have hm' : optMin b.misses (min (passedU32 c.passed) c.nObjects) ≤
      (if c.classic then min (passedU32 c.passed) c.nObjects
       else min (passedU32 c.passed) c.nObjects + c.nHoldNotes) := by
    split <;> omega
  unfold maniaGenRaw
  rcases b.acc with _ | acc
  · simp [hm']
  · rcases b.n320 with _ | a1 <;> rcases b.n300 with _ | a2 <;> rcases b.n200 with _ | a3 <;>
      rcases b.n100 with _ | a4 <;> rcases b.n50 with _ | a5 <;> simp only <;>
      first
        | (simp [hm', maniaSearch_ok, (maniaShift_spec _ _ _).1]; done)
        | (cases c.prio <;> simp [hm']; done)

/-- In the search arm the result always has the clamped misses and at least `nObjects` hits
(accepted candidate or not). -/
theorem maniaSearch_misses_total (x : ManiaCtx R) (hx : x.nRemaining + x.misses = x.nObjects) :
    (maniaSearch x).val.misses = x.misses ∧ x.nObjects ≤ (maniaSearch x).val.totalHits := by
  apply maniaSearch_inv (fun a => a.val.misses = x.misses ∧ x.nObjects ≤ a.val.totalHits)
  · refine ⟨rfl, ?_⟩
    simp only [ManiaState.totalHits]
    omega
  · intro a d k1 k2 k3 k4 k5 ha
    rcases offer_cases a d (maniaFill x ⟨k1, k2, k3, k4, k5, x.misses⟩) with h | h <;> rw [h]
    · exact ha
    · exact ⟨maniaFill_misses x _, maniaFill_total x _⟩

theorem maniaGenRaw_misses (c : ManiaCfg) (b : ManiaB R) :
    (maniaGenRaw c b).state.misses = optMin b.misses (maniaJ0 c) := by
  have hm := optMin_le b.misses (min (passedU32 c.passed) c.nObjects)
  unfold maniaGenRaw maniaJ0
  rcases b.acc with _ | acc
  · cases c.prio <;> simp only [maniaNoAcc] <;> (repeat' split) <;> rfl
  · rcases b.n320 with _ | a1 <;> rcases b.n300 with _ | a2 <;> rcases b.n200 with _ | a3 <;>
      rcases b.n100 with _ | a4 <;> rcases b.n50 with _ | a5 <;> simp only <;>
      first
        | rfl
        | (cases c.prio <;> rfl)
        | (rw [(maniaShift_spec _ _ _).2.1]
           refine (maniaSearch_misses_total _ ?_).1
           dsimp only
           split <;> omega)

/-- The number of hit results plus misses is never below the number of judgements — in every arm,
including the nested accuracy search, whether or not a candidate was accepted. -/
theorem maniaGenRaw_total_ge (c : ManiaCfg) (b : ManiaB R) : maniaJ c ≤ (maniaGenRaw c b).state.totalHits := by
  have hm := optMin_le b.misses (min (passedU32 c.passed) c.nObjects)
  have hm' : optMin b.misses (min (passedU32 c.passed) c.nObjects) ≤
      (if c.classic then min (passedU32 c.passed) c.nObjects
       else min (passedU32 c.passed) c.nObjects + c.nHoldNotes) := by
    split <;> omega
  unfold maniaGenRaw maniaJ maniaJ0
  rcases b.acc with _ | acc
  · rcases b.n320 with _ | a1 <;> rcases b.n300 with _ | a2 <;> rcases b.n200 with _ | a3 <;>
      rcases b.n100 with _ | a4 <;> rcases b.n50 with _ | a5 <;> cases c.prio <;>
      simp [maniaNoAcc, ManiaState.totalHits] <;> omega
  · rcases b.n320 with _ | a1 <;> rcases b.n300 with _ | a2 <;> rcases b.n200 with _ | a3 <;>
      rcases b.n100 with _ | a4 <;> rcases b.n50 with _ | a5 <;> simp only <;>
      first
        | (simp [ManiaState.totalHits]; omega)
        | (cases c.prio <;> simp [ManiaState.totalHits] <;> omega)
        | (rw [(maniaShift_spec _ _ _).2.2]
           refine Nat.le_trans (Nat.le_of_eq ?_) (maniaSearch_misses_total _ ?_).2
           · rfl
           · dsimp only
             omega)

/-- sum of the provided hit results (absent = 0) -/
def maniaProvided (b : ManiaB R) : Nat :=
  b.n320.getD 0 + b.n300.getD 0 + b.n200.getD 0 + b.n100.getD 0 + b.n50.getD 0

/-- Everything the C12 clauses need about the arms that do not run the nested search. -/
structure ManiaNSSpec (b : ManiaB R) (J misses : Nat) (s : ManiaState) : Prop where
  le320 : s.n320 ≤ J - misses
  le300 : s.n300 ≤ J - misses
  le200 : s.n200 ≤ J - misses
  le100 : s.n100 ≤ J - misses
  le50 : s.n50 ≤ J - misses
  sum_eq : maniaProvided b + misses ≤ J → s.totalHits = J
  keep320 : ∀ n, b.n320 = some n → maniaProvided b + misses ≤ J →
    (noneCount b = 0 → maniaProvided b + misses = J) → s.n320 = n
  keep300 : ∀ n, b.n300 = some n → maniaProvided b + misses ≤ J →
    (noneCount b = 0 → maniaProvided b + misses = J) → s.n300 = n
  keep200 : ∀ n, b.n200 = some n → maniaProvided b + misses ≤ J →
    (noneCount b = 0 → maniaProvided b + misses = J) → s.n200 = n
  keep100 : ∀ n, b.n100 = some n → maniaProvided b + misses ≤ J →
    (noneCount b = 0 → maniaProvided b + misses = J) → s.n100 = n
  keep50 : ∀ n, b.n50 = some n → maniaProvided b + misses ≤ J →
    (noneCount b = 0 → maniaProvided b + misses = J) → s.n50 = n

/-- clamping is the identity on provided values that jointly fit -/
theorem optMin_eq_getD (o : Option Nat) (cap : Nat) (h : o.getD 0 ≤ cap) : optMin o cap = o.getD 0 := by
  cases o <;> simp at h ⊢
  omega

theorem optMin_le_getD (o : Option Nat) (cap : Nat) : optMin o cap ≤ o.getD 0 := by
  cases o <;> simp
  omega

set_option maxHeartbeats 400000 in
theorem maniaGenRaw_ns_spec_noacc (c : ManiaCfg) (b : ManiaB R) (hacc : b.acc = none) :
    ManiaNSSpec b (maniaJ c) (optMin b.misses (maniaJ0 c)) (maniaGenRaw c b).state ∧
    (maniaGenRaw c b).accepted = true := by
  have hm := optMin_le b.misses (min (passedU32 c.passed) c.nObjects)
  have hJ : maniaJ c = (if c.classic then min (passedU32 c.passed) c.nObjects
       else min (passedU32 c.passed) c.nObjects + c.nHoldNotes) := rfl
  have hm' : optMin b.misses (min (passedU32 c.passed) c.nObjects) ≤ maniaJ c := by
    rw [hJ]; split <;> omega
  unfold maniaGenRaw maniaJ0
  dsimp only
  simp only [← hJ, hacc]
  generalize maniaJ c = J at *
  generalize optMin b.misses (min (passedU32 c.passed) c.nObjects) = m at *
  refine ⟨?_, by first | trivial | rfl | simp⟩
  rcases h1 : b.n320 with _ | a1 <;> rcases h2 : b.n300 with _ | a2 <;> rcases h3 : b.n200 with _ | a3 <;>
    rcases h4 : b.n100 with _ | a4 <;> rcases h5 : b.n50 with _ | a5 <;> cases c.prio <;>
    (constructor <;>
      simp [maniaNoAcc, maniaProvided, noneCount, ManiaState.totalHits, h1, h2, h3, h4, h5] <;> omega)

set_option maxHeartbeats 400000 in
theorem maniaGenRaw_ns_spec_acc (c : ManiaCfg) (b : ManiaB R) (acc : R) (hacc : b.acc = some acc)
    (hns : noneCount b ≤ 1) :
    ManiaNSSpec b (maniaJ c) (optMin b.misses (maniaJ0 c)) (maniaGenRaw c b).state ∧
    (maniaGenRaw c b).accepted = true := by
  have hm := optMin_le b.misses (min (passedU32 c.passed) c.nObjects)
  have hJ : maniaJ c = (if c.classic then min (passedU32 c.passed) c.nObjects
       else min (passedU32 c.passed) c.nObjects + c.nHoldNotes) := rfl
  have hm' : optMin b.misses (min (passedU32 c.passed) c.nObjects) ≤ maniaJ c := by
    rw [hJ]; split <;> omega
  unfold maniaGenRaw maniaJ0
  dsimp only
  simp only [← hJ, hacc]
  generalize maniaJ c = J at *
  generalize optMin b.misses (min (passedU32 c.passed) c.nObjects) = m at *
  rcases h1 : b.n320 with _ | a1 <;> rcases h2 : b.n300 with _ | a2 <;> rcases h3 : b.n200 with _ | a3 <;>
    rcases h4 : b.n100 with _ | a4 <;> rcases h5 : b.n50 with _ | a5 <;>
    first
      | (exfalso; simp [noneCount, h1, h2, h3, h4, h5] at hns; done)
      | (refine ⟨?_, by first | trivial | rfl | simp⟩; constructor <;>
          simp [maniaProvided, noneCount, ManiaState.totalHits, h1, h2, h3, h4, h5] <;> omega)
      | (cases c.prio <;> refine ⟨?_, by first | trivial | rfl | simp⟩ <;> constructor <;>
          simp [maniaProvided, noneCount, ManiaState.totalHits, h1, h2, h3, h4, h5] <;> omega)

theorem maniaGenRaw_ns_spec (c : ManiaCfg) (b : ManiaB R) (hns : ¬ ManiaSearchArm b) :
    ManiaNSSpec b (maniaJ c) (optMin b.misses (maniaJ0 c)) (maniaGenRaw c b).state ∧
    (maniaGenRaw c b).accepted = true := by
  rcases hacc : b.acc with _ | acc
  · exact maniaGenRaw_ns_spec_noacc c b hacc
  · apply maniaGenRaw_ns_spec_acc c b acc hacc
    unfold ManiaSearchArm at hns
    simp only [hacc, Option.isSome_some, true_and] at hns
    omega

end Rosu.GenState
