import RosuModel.Model.Bpm

/-!
Lemmas about `Model/Bpm.lean`: the accumulated map has pairwise distinct first-appearance
indices, and `max_by` with the index tie-break selects the same entry under every iteration order.
-/
namespace Rosu.Bpm

variable {D : Type}

/-- `b` is strictly preferred to `a`: longer duration, or equal duration and earlier appearance. -/
def Better (rank : D → Int) (a b : Entry D) : Prop :=
  rank a.dur < rank b.dur ∨ (rank a.dur = rank b.dur ∧ b.idx < a.idx)

theorem cmpEntry_gt_iff (rank : D → Int) (a b : Entry D) :
    cmpEntry rank a b = .gt ↔ Better rank b a := by
  unfold cmpEntry Better
  rcases Int.lt_trichotomy (rank a.dur) (rank b.dur) with h | h | h
  · have : compare (rank a.dur) (rank b.dur) = .lt := Int.compare_eq_lt.mpr h
    simp [this, Ordering.then]; omega
  · have : compare (rank a.dur) (rank b.dur) = .eq := Int.compare_eq_eq.mpr h
    simp [this, Ordering.then, Nat.compare_eq_gt]; omega
  · have : compare (rank a.dur) (rank b.dur) = .gt := Int.compare_eq_gt.mpr h
    simp [this, Ordering.then]; omega

theorem better_trans (rank : D → Int) {a b c : Entry D} (h1 : Better rank a b) (h2 : Better rank b c) :
    Better rank a c := by
  unfold Better at *; omega

theorem better_irrefl (rank : D → Int) (a : Entry D) : ¬ Better rank a a := by
  unfold Better; omega

/-- Not-better in both directions means equal rank and equal index. -/
theorem not_better_antisymm (rank : D → Int) {a b : Entry D} (h1 : ¬ Better rank a b) (h2 : ¬ Better rank b a) :
    rank a.dur = rank b.dur ∧ a.idx = b.idx := by
  unfold Better at *; omega

/-- The fold of `max_by` returns a member that no member is strictly preferred to. -/
theorem foldl_max_spec (rank : D → Int) (xs : List (Entry D)) (x : Entry D) :
    let r := xs.foldl (fun acc y => if cmpEntry rank acc y == .gt then acc else y) x
    r ∈ x :: xs ∧ ∀ e ∈ x :: xs, ¬ Better rank r e := by
  induction xs generalizing x with
  | nil => simp [better_irrefl]
  | cons y ys ih =>
    simp only [List.foldl_cons]
    by_cases h : cmpEntry rank x y = .gt
    · have hb := (cmpEntry_gt_iff rank x y).mp h
      simp only [h, beq_self_eq_true, if_true]
      have := ih x
      refine ⟨?_, ?_⟩
      · have := this.1; simp at this ⊢; rcases this with h | h
        · exact Or.inl h
        · exact Or.inr (Or.inr h)
      · intro e he
        simp at he
        rcases he with rfl | rfl | he
        · exact this.2 _ (by simp)
        · intro hbe
          exact this.2 x (by simp) (better_trans rank hbe hb)
        · exact this.2 e (by simp [he])
    · have hnb : ¬ Better rank y x := fun hb => h ((cmpEntry_gt_iff rank x y).mpr hb)
      have hne : (cmpEntry rank x y == .gt) = false := by
        cases hc : cmpEntry rank x y <;> simp_all
      simp only [hne, Bool.false_eq_true, if_false]
      have := ih y
      refine ⟨?_, ?_⟩
      · have := this.1; simp at this ⊢; rcases this with h | h
        · exact Or.inr (Or.inl h)
        · exact Or.inr (Or.inr h)
      · intro e he
        simp at he
        rcases he with rfl | rfl | he
        · -- e = x: r is not worse than y, and x is not better than y
          intro hbe
          have h1 := this.2 y (by simp)
          -- r < x and ¬ (y < x) ... derive r < y
          apply h1
          unfold Better at *; omega
        · exact this.2 _ (by simp)
        · exact this.2 e (by simp [he])

theorem select_spec (rank : D → Int) (es : List (Entry D)) :
    match select rank es with
    | none => es = []
    | some r => r ∈ es ∧ ∀ e ∈ es, ¬ Better rank r e := by
  cases es with
  | nil => simp [select, maxBy]
  | cons x xs => simpa [select, maxBy] using foldl_max_spec rank xs x

/-- Members of a list with pairwise distinct `idx` are determined by their `idx`. -/
theorem eq_of_idx_eq {es : List (Entry D)} (hnd : (es.map (·.idx)).Nodup) {a b : Entry D}
    (ha : a ∈ es) (hb : b ∈ es) (h : a.idx = b.idx) : a = b := by
  induction es with
  | nil => cases ha
  | cons x xs ih =>
    simp only [List.map_cons, List.nodup_cons, List.mem_map, not_exists, not_and] at hnd
    simp only [List.mem_cons] at ha hb
    rcases ha with rfl | ha <;> rcases hb with rfl | hb
    · rfl
    · exact absurd h.symm (hnd.1 _ hb)
    · exact absurd h (hnd.1 _ ha)
    · exact ih hnd.2 ha hb

/-- Selection is invariant under every permutation of the entries. -/
theorem select_perm (rank : D → Int) {es es' : List (Entry D)} (hnd : (es.map (·.idx)).Nodup)
    (hp : es.Perm es') : select rank es' = select rank es := by
  have h1 := select_spec rank es
  have h2 := select_spec rank es'
  cases hs : select rank es with
  | none =>
    rw [hs] at h1; subst h1
    have : es' = [] := by simpa using hp.symm
    subst this; rfl
  | some r =>
    cases hs' : select rank es' with
    | none =>
      rw [hs'] at h2; subst h2
      have : es = [] := by simpa using hp
      subst this; simp [select, maxBy] at hs
    | some r' =>
      rw [hs] at h1; rw [hs'] at h2
      have hr' : r' ∈ es := hp.mem_iff.mpr h2.1
      have hr : r ∈ es' := hp.mem_iff.mp h1.1
      have := not_better_antisymm rank (h1.2 r' hr') (h2.2 r hr)
      rw [eq_of_idx_eq hnd h1.1 hr' this.2]

/-! ### The accumulated map: `idx` is the insertion position -/

theorem add_idx (zero : D) (plus : D → D → D) (m : List (Entry D)) (key : Nat) (c : Bool) (d : D)
    (h : m.map (·.idx) = List.range m.length) :
    (add zero plus m key c d).map (·.idx) = List.range (add zero plus m key c d).length := by
  unfold add
  split
  · have : (m.map fun e => if e.key == key ∧ c then { e with dur := plus e.dur d } else e).map (·.idx)
        = m.map (·.idx) := by
      rw [List.map_map]; apply List.map_congr_left; intro e _; simp only [Function.comp]; split <;> rfl
    rw [this, List.length_map, h]
  · simp [List.range_succ, h]

theorem accumulate_idx (zero : D) (plus : D → D → D) (calls : List (Nat × Bool × D)) :
    (accumulate zero plus calls).map (·.idx) = List.range (accumulate zero plus calls).length := by
  unfold accumulate
  suffices h : ∀ (m : List (Entry D)), m.map (·.idx) = List.range m.length →
      (calls.foldl (fun m c => add zero plus m c.1 c.2.1 c.2.2) m).map (·.idx)
        = List.range (calls.foldl (fun m c => add zero plus m c.1 c.2.1 c.2.2) m).length from h [] rfl
  induction calls with
  | nil => intro m h; exact h
  | cons c cs ih => intro m h; exact ih _ (add_idx zero plus m _ _ _ h)

theorem accumulate_idx_nodup (zero : D) (plus : D → D → D) (calls : List (Nat × Bool × D)) :
    ((accumulate zero plus calls).map (·.idx)).Nodup := by
  rw [accumulate_idx]; exact List.nodup_range

end Rosu.Bpm
