import RosuModel.Model.SliderEvents

/-!
# Structure of the event sequence of `SliderEventsIter` — for EVERY arithmetic

Nothing here inspects the number type: the statements hold for IEEE doubles (the instance tied to
the code), exact rationals, or anything else.  Core Lean only.
-/

namespace Rosu.SliderEvents

open Rosu.Gradual (CatchEvent)

variable {F : Type}

/-- Number of events of kind `k`. -/
def kindCount (k : Kind) (l : List (Event F)) : Nat := l.countP (fun e => e.kind == k)

theorem kindCount_nil (k : Kind) : kindCount k ([] : List (Event F)) = 0 := rfl

theorem kindCount_append (k : Kind) (a b : List (Event F)) :
    kindCount k (a ++ b) = kindCount k a + kindCount k b := by
  unfold kindCount; exact List.countP_append

theorem kindCount_reverse (k : Kind) (a : List (Event F)) :
    kindCount k a.reverse = kindCount k a := by
  unfold kindCount; exact List.countP_reverse

theorem kindCount_cons (k : Kind) (e : Event F) (a : List (Event F)) :
    kindCount k (e :: a) = kindCount k a + (if e.kind == k then 1 else 0) := by
  unfold kindCount; exact List.countP_cons

theorem tickEvent_kind (A : Arith F) (it : Iter F) (s : Nat) (d : F) :
    (tickEvent A it s d).kind = .tick := rfl

theorem repeatPoint_kind (A : Arith F) (s : Int) (a b : F) : (repeatPoint A s a b).kind = .rep := rfl

theorem kindCount_ticks (A : Arith F) (it : Iter F) (s : Nat) (k : Kind) (ds : List F) :
    kindCount k (ds.map (tickEvent A it s)) = if k = .tick then ds.length else 0 := by
  induction ds with
  | nil => simp [kindCount]
  | cons d t ih =>
    rw [List.map_cons, kindCount_cons, ih, tickEvent_kind]
    cases k <;> simp

/-- The ticks of a span in emission order: increasing `d` on even spans, decreasing on odd ones. -/
def spanTicks (A : Arith F) (it : Iter F) (s : Nat) (ds : List F) : List (Event F) :=
  if s % 2 == 1 then (ds.map (tickEvent A it s)).reverse else ds.map (tickEvent A it s)


/-- The ticks of any span are a permutation of the same per-span tick list: reversal only
permutes, so every span has the same number of ticks at the same path positions. -/
theorem spanTicks_perm (A : Arith F) (it : Iter F) (s : Nat) (ds : List F) :
    (spanTicks A it s ds).Perm (ds.map (tickEvent A it s)) := by
  unfold spanTicks
  split
  · exact List.reverse_perm _
  · exact List.Perm.refl _

theorem tickEvent_progress (A : Arith F) (it : Iter F) (s : Nat) (d : F) :
    (tickEvent A it s d).progress = A.div d it.len := rfl

/-- Path positions of the ticks of span `s`, as a multiset, do not depend on `s`. -/
theorem spanTicks_progress_perm (A : Arith F) (it : Iter F) (s : Nat) (ds : List F) :
    ((spanTicks A it s ds).map (·.progress)).Perm (ds.map fun d => A.div d it.len) := by
  have h := (spanTicks_perm A it s ds).map (·.progress)
  rw [List.map_map] at h
  exact h

/-- The repeat that closes span `s` (every span but the last). -/
def spanRepeat (A : Arith F) (it : Iter F) (s : Nat) : List (Event F) :=
  if (s : Int) < (it.spanCount : Int) - 1 then [repeatPoint A s (spanStartTime A it s) it.spanDur]
  else []

/-- Popping the buffer `generate_ticks` leaves behind yields the ticks of the span (reversed order
on odd spans: "double reverse" on even ones) followed by the repeat — in every arithmetic. -/
theorem spanEvents_eq (A : Arith F) (it : Iter F) (fuel s : Nat) (ds : List F)
    (h : spanTickDists A it fuel = some ds) :
    spanEvents A it fuel s = some (spanTicks A it s ds ++ spanRepeat A it s) := by
  unfold spanEvents generateTicks spanTicks spanRepeat
  simp only [h]
  by_cases hr : (s % 2 == 1) = true <;> by_cases hw : (s : Int) < (it.spanCount : Int) - 1 <;>
    simp [hr, hw, List.reverse_append]

theorem spanEvents_none (A : Arith F) (it : Iter F) (fuel s : Nat)
    (h : spanTickDists A it fuel = none) : spanEvents A it fuel s = none := by
  unfold spanEvents generateTicks
  simp [h]

theorem kindCount_spanTicks (A : Arith F) (it : Iter F) (s : Nat) (k : Kind) (ds : List F) :
    kindCount k (spanTicks A it s ds) = if k = .tick then ds.length else 0 := by
  unfold spanTicks
  split
  · rw [kindCount_reverse, kindCount_ticks]
  · rw [kindCount_ticks]

theorem kindCount_spanRepeat (A : Arith F) (it : Iter F) (s : Nat) (k : Kind) :
    kindCount k (spanRepeat A it s) =
      if k = .rep ∧ (s : Int) < (it.spanCount : Int) - 1 then 1 else 0 := by
  unfold spanRepeat
  by_cases hw : (s : Int) < (it.spanCount : Int) - 1
  · simp only [hw, if_true, and_true, kindCount_cons, kindCount_nil, repeatPoint_kind]
    cases k <;> simp
  · simp [hw, kindCount_nil]

/-- All events between head and last tick, given the (span-independent) tick distances. -/
def midEvents (A : Arith F) (it : Iter F) (ds : List F) : (n from_ : Nat) → List (Event F)
  | 0, _ => []
  | n + 1, s => spanTicks A it s ds ++ spanRepeat A it s ++ midEvents A it ds n (s + 1)

theorem spansEvents_eq (A : Arith F) (it : Iter F) (fuel : Nat) (ds : List F)
    (h : spanTickDists A it fuel = some ds) :
    ∀ (n s : Nat), spansEvents A it fuel n s = some (midEvents A it ds n s) := by
  intro n
  induction n with
  | zero => intro s; rfl
  | succ n ih =>
    intro s
    unfold spansEvents midEvents
    rw [spanEvents_eq A it fuel s ds h, ih (s + 1)]

theorem spansEvents_none (A : Arith F) (it : Iter F) (fuel : Nat)
    (h : spanTickDists A it fuel = none) (n s : Nat) : spansEvents A it fuel (n + 1) s = none := by
  unfold spansEvents
  rw [spanEvents_none A it fuel s h]

/-- Number of `s' ∈ [s, s+n)` with `s' < spanCount − 1`. -/
theorem midEvents_reps (A : Arith F) (it : Iter F) (ds : List F) :
    ∀ (n s : Nat), kindCount .rep (midEvents A it ds n s) = min (s + n) (it.spanCount - 1) - min s (it.spanCount - 1) := by
  intro n
  induction n with
  | zero => intro s; simp [midEvents, kindCount_nil]
  | succ n ih =>
    intro s
    unfold midEvents
    rw [kindCount_append, kindCount_append, kindCount_spanTicks, kindCount_spanRepeat, ih (s + 1)]
    simp only [reduceCtorEq, if_false, true_and, Nat.zero_add]
    split <;> omega

theorem midEvents_ticks (A : Arith F) (it : Iter F) (ds : List F) :
    ∀ (n s : Nat), kindCount .tick (midEvents A it ds n s) = n * ds.length := by
  intro n
  induction n with
  | zero => intro s; simp [midEvents, kindCount_nil]
  | succ n ih =>
    intro s
    unfold midEvents
    rw [kindCount_append, kindCount_append, kindCount_spanTicks, kindCount_spanRepeat, ih (s + 1)]
    simp only [reduceCtorEq, false_and, if_false, if_true, Nat.add_zero]
    rw [Nat.succ_mul]; omega

theorem midEvents_kinds (A : Arith F) (it : Iter F) (ds : List F) :
    ∀ (n s : Nat), ∀ e ∈ midEvents A it ds n s, e.kind = .tick ∨ e.kind = .rep := by
  intro n
  induction n with
  | zero => intro s e he; simp [midEvents] at he
  | succ n ih =>
    intro s e he
    unfold midEvents at he
    rw [List.mem_append, List.mem_append] at he
    rcases he with (he | he) | he
    · left
      unfold spanTicks at he
      split at he
      · rw [List.mem_reverse, List.mem_map] at he
        obtain ⟨d, _, rfl⟩ := he; rfl
      · rw [List.mem_map] at he
        obtain ⟨d, _, rfl⟩ := he; rfl
    · right
      unfold spanRepeat at he
      split at he
      · rw [List.mem_singleton] at he; rw [he]; rfl
      · simp at he
    · exact ih (s + 1) e he

/-- The iterator's output when the tick loop has enough fuel. -/
theorem events_eq (A : Arith F) (it : Iter F) (fuel : Nat) (ds : List F)
    (h : spanTickDists A it fuel = some ds) :
    it.events A fuel =
      some (headEvent A it :: (midEvents A it ds it.spanCount 0 ++ [lastTickEvent A it, tailEvent A it])) := by
  unfold Iter.events
  rw [spansEvents_eq A it fuel ds h]

/-- The output is defined exactly when the tick loop terminates within the fuel (or there is no span). -/
theorem events_isSome_iff (A : Arith F) (it : Iter F) (fuel : Nat) :
    (it.events A fuel).isSome = true ↔ (it.spanCount = 0 ∨ (spanTickDists A it fuel).isSome = true) := by
  cases hds : spanTickDists A it fuel with
  | some ds => simp [events_eq A it fuel ds hds]
  | none =>
    cases hn : it.spanCount with
    | zero => simp [Iter.events, hn, spansEvents]
    | succ n => simp [Iter.events, hn, spansEvents_none A it fuel hds]

/-! ## `OsuSlider::new`: nested objects -/

def nestedCount (k : NestedKind) (l : List (Nested F)) : Nat := l.countP (fun n => n.kind == k)

theorem osuNested_cons (A : Arith F) (p : Params F) (e : Event F) (t : List (Event F)) :
    osuNested A p (e :: t) = (osuNestedOf A p e).toList ++ osuNested A p t := by
  unfold osuNested
  rw [List.filterMap_cons]
  cases osuNestedOf A p e <;> rfl

/-- The event kind a nested object kind comes from. -/
def kindOfNested : NestedKind → Kind
  | .tick => .tick | .rep => .rep | .tail => .tail

theorem osuNested_count (A : Arith F) (p : Params F) (k : NestedKind) (evs : List (Event F)) :
    nestedCount k (osuNested A p evs) = kindCount (kindOfNested k) evs := by
  induction evs with
  | nil => rfl
  | cons e t ih =>
    have h1 : nestedCount k (osuNestedOf A p e).toList =
        if e.kind == kindOfNested k then 1 else 0 := by
      cases hk : e.kind <;> cases k <;> simp [osuNestedOf, hk, nestedCount, kindOfNested]
    rw [osuNested_cons, kindCount_cons, ← ih, ← h1]
    unfold nestedCount
    rw [List.countP_append, Nat.add_comm]

theorem length_eq_nestedCounts (l : List (Nested F)) :
    l.length = nestedCount .tick l + nestedCount .rep l + nestedCount .tail l := by
  induction l with
  | nil => rfl
  | cons n t ih =>
    unfold nestedCount at ih ⊢
    rw [List.length_cons, List.countP_cons, List.countP_cons, List.countP_cons, ih]
    cases hk : n.kind <;> simp <;> omega

theorem largeTickCount_eq (l : List (Nested F)) :
    largeTickCount l = nestedCount .tick l + nestedCount .rep l := by
  induction l with
  | nil => rfl
  | cons n t ih =>
    unfold largeTickCount nestedCount at ih ⊢
    rw [List.filter_cons, List.countP_cons, List.countP_cons]
    cases hk : n.kind <;> simp [ih] <;> omega

/-! ## `JuiceStream::new`: the `record_*` calls -/

def fruitCount (l : List CatchEvent) : Nat := l.countP (fun e => e == .fruit)
def dropletCount (l : List CatchEvent) : Nat := l.countP (fun e => e == .droplet)

/-- Events that record a fruit: head, repeats, tail. -/
def fruitKinds (evs : List (Event F)) : Nat :=
  kindCount .head evs + kindCount .rep evs + kindCount .tail evs

theorem juiceRecords_counts (A : Arith F) (fuel : Nat) :
    ∀ (evs : List (Event F)) (last : Option F) (r : List CatchEvent),
      juiceRecords A fuel last evs = some r →
        fruitCount r = fruitKinds evs ∧ dropletCount r = kindCount .tick evs := by
  intro evs
  induction evs with
  | nil =>
    intro last r h
    simp only [juiceRecords, Option.some.injEq] at h
    subst h
    exact ⟨rfl, rfl⟩
  | cons e es ih =>
    intro last r h
    unfold juiceRecords at h
    simp only at h
    split at h
    · rename_i t rest ht hrest
      simp only [Option.some.injEq] at h
      subst h
      obtain ⟨ihf, ihd⟩ := ih (some e.time) rest hrest
      have htiny : fruitCount t = 0 ∧ dropletCount t = 0 := by
        cases last with
        | none =>
          simp only [Option.some.injEq] at ht
          subst ht; exact ⟨rfl, rfl⟩
        | some l =>
          simp only at ht
          split at ht
          · exact absurd ht (by simp)
          · simp only [Option.some.injEq] at ht
            subst ht; exact ⟨rfl, rfl⟩
      unfold fruitCount dropletCount fruitKinds at *
      rw [List.countP_append, List.countP_append, List.countP_append, List.countP_append,
        kindCount_cons, kindCount_cons, kindCount_cons, kindCount_cons, htiny.1, htiny.2, ihf, ihd]
      cases hk : e.kind <;> simp [recordOf] <;> omega
    · exact absurd h (by simp)


/-- For `since_last_tick ≤ 100` there are no tiny droplets whether or not the `> 80.0` guard is
taken: nothing is halved, `t` starts at `since` and `t < since` fails at once. The guard constant
(80) is therefore unobservable anywhere in `(−∞, 100]` — in every arithmetic whose `<` is
irreflexive (IEEE `<` is, NaN included). -/
theorem tinyDroplets_zero_of_le_100 (A : Arith F) (hirr : ∀ x, A.lt x x = false) (fuel : Nat)
    (since : F) (h : A.lt (A.ofInt 100) since = false) : tinyDroplets A (fuel + 1) since = some 0 := by
  unfold tinyDroplets
  split
  · unfold halveLoop
    simp only [h, Bool.false_eq_true, if_false]
    unfold tinyLoop
    simp [hirr]
  · rfl

end Rosu.SliderEvents
