import RosuModel.Lemmas.ManiaPattern

/-!
Column bound of the path (slider) and end-time (spinner) generators and of the whole per-object
loop of `convert`.
-/
namespace Rosu.ManiaPattern
open Rosu.Safety Rosu.Rng Rosu.ConvertWF

variable {F : Type}

theorem i32add_ok {a b m : Int} (h : i32add a b = .ok m) : m = a + b := by
  unfold i32add at h
  split at h
  · cases h
  · cases h; rfl

theorem i32mul_ok {a b m : Int} (h : i32mul a b = .ok m) : m = a * b := by
  unfold i32mul at h
  split at h
  · cases h
  · cases h; rfl

theorem inclusiveIters_ok {n : Int} {fuel k : Nat} (h : inclusiveIters n fuel = .ok k) :
    0 ≤ n ∧ (k : Int) = n + 1 := by
  unfold inclusiveIters at h
  split at h
  · cases h
  · split at h
    · cases h
    · cases h; omega

section path
variable {A : PArith F} (hA : RangeLaw A) (g : PathIn F) (h1 : 1 ≤ g.total) (h16 : g.total ≤ 16)
include hA h1 h16

theorem pathFind_inv (avoid : Option Nat) (pats : List Cols) (s s' : Osu) (init c : Nat)
    (hi : init < g.total) (h : pathFind A g avoid pats s init = .ok (c, s')) : c < g.total := by
  unfold pathFind at h
  exact findAvail_inv (· < g.total)
    (fun s col c s' _ hn => (randomNext_inv hA (randomStart_lt h1) (by omega) s col c s' hn).2) hi h

theorem pathHoldLoop_ok (withPrev : Bool) (t : Int) :
    ∀ (k : Nat) (pat : Pat) (c : Nat) (s : Osu) (r : Pat × Nat × Osu), PatOk g.total pat →
      c < g.total → pathHoldLoop A g withPrev t k pat c s = .ok r →
      PatOk g.total r.1 ∧ r.2.1 < g.total := by
  intro k
  induction k with
  | zero => intro pat c s r hp hc h; unfold pathHoldLoop at h; cases h; exact ⟨hp, hc⟩
  | succ k ih =>
    intro pat c s r hp hc h
    unfold pathHoldLoop at h
    obtain ⟨⟨c', s'⟩, hf, h2⟩ := bind_ok h
    simp only at h2
    obtain ⟨pat', ha, h3⟩ := bind_ok h2
    have hc' := pathFind_inv hA g h1 h16 _ _ _ _ _ _ hc hf
    exact ih pat' c' s' r (hp.add hc' ha) hc' h3

theorem pathRandomHoldNotes_ok (t : Int) (n : Int) (s : Osu) (r : Pat × Osu)
    (h : pathRandomHoldNotes A g t n s = .ok r) : PatOk g.total r.1 := by
  unfold pathRandomHoldNotes at h
  simp only at h
  have hb := getRandomColumn_bounds hA s (randomStart g.total) g.total (randomStart_lt h1) (by omega)
  generalize getRandomColumn A s (randomStart g.total) g.total = c0 at h hb
  obtain ⟨c0, s0⟩ := c0
  simp only at h hb
  obtain ⟨⟨pat, c1, s1⟩, hl1, h2⟩ := bind_ok h
  have r1 := pathHoldLoop_ok hA g h1 h16 _ _ _ _ _ _ _ (PatOk.empty _) hb.2 hl1
  simp only at h2 r1
  obtain ⟨⟨pat2, c2, s2⟩, hl2, h3⟩ := bind_ok h2
  have r2 := pathHoldLoop_ok hA g h1 h16 _ _ _ _ _ _ _ r1.1 r1.2 hl2
  cases h3
  exact r2.1

theorem pathAvoidPrev_inv (ct c : Nat) (s : Osu) (r : Nat × Osu) (hc : c < g.total)
    (h : pathAvoidPrev A g ct c s = .ok r) : r.1 < g.total := by
  unfold pathAvoidPrev at h
  split at h
  · obtain ⟨c', s'⟩ := r
    exact pathFind_inv hA g h1 h16 _ _ _ _ _ _ hc h
  · cases h; exact hc

theorem pathRandomNotesLoop_ok :
    ∀ (k : Nat) (pat : Pat) (c last : Nat) (t : Int) (s : Osu) (r : Pat × Osu), PatOk g.total pat →
      c < g.total → pathRandomNotesLoop A g k pat c last t s = .ok r → PatOk g.total r.1 := by
  intro k
  induction k with
  | zero => intro pat c last t s r hp _ h; unfold pathRandomNotesLoop at h; cases h; exact hp
  | succ k ih =>
    intro pat c last t s r hp hc h
    unfold pathRandomNotesLoop at h
    obtain ⟨pat', ha, h2⟩ := bind_ok h
    obtain ⟨⟨c', s'⟩, hf, h3⟩ := bind_ok h2
    simp only at h3
    obtain ⟨t', _, h4⟩ := bind_ok h3
    have hc' := pathFind_inv hA g h1 h16 _ _ _ _ _ _ hc hf
    exact ih pat' c' c' t' s' r (hp.add hc ha) hc' h4

theorem pathRandomNotes_ok (ct : Nat) (t n : Int) (s : Osu) (r : Pat × Osu)
    (h : pathRandomNotes A g ct t n s = .ok r) : PatOk g.total r.1 := by
  unfold pathRandomNotes at h
  obtain ⟨⟨c, s1⟩, ha, h2⟩ := bind_ok h
  have hc := pathAvoidPrev_inv hA g h1 h16 _ _ _ _ (getColumnSpecial_lt h1 h16 g.x) ha
  exact pathRandomNotesLoop_ok hA g h1 h16 _ _ _ _ _ _ _ (PatOk.empty _) hc h2

omit hA in
theorem pathStairLoop_ok (h2 : 2 ≤ g.total) :
    ∀ (k : Nat) (pat : Pat) (column : Int) (inc : Bool) (t : Int) (r : Pat), PatOk g.total pat →
      (0 ≤ column ∧ column ≤ (g.total : Int) - 1) →
      pathStairLoop g k pat column inc t = .ok r → PatOk g.total r := by
  intro k
  induction k with
  | zero => intro pat column inc t r hp _ h; unfold pathStairLoop at h; cases h; exact hp
  | succ k ih =>
    intro pat column inc t r hp hc h
    unfold pathStairLoop at h
    obtain ⟨pat', ha, h3⟩ := bind_ok h
    obtain ⟨t', _, h4⟩ := bind_ok h3
    have hrs : randomStart g.total = 0 ∨ (randomStart g.total = 1 ∧ g.total = 8) := by
      unfold randomStart; split <;> omega
    have hu : asU8 column < g.total := by
      have := asU8_of_range (v := column) hc.1 (by omega)
      omega
    have hp' := hp.add hu ha
    split at h4
    · split at h4
      · exact ih pat' _ _ _ r hp' (by omega) h4
      · exact ih pat' _ _ _ r hp' (by omega) h4
    · split at h4
      · exact ih pat' _ _ _ r hp' (by omega) h4
      · exact ih pat' _ _ _ r hp' (by omega) h4

theorem pathStair_ok (h2 : 2 ≤ g.total) (t : Int) (s : Osu) (r : Pat × Osu)
    (h : pathStair A g t s = .ok r) : PatOk g.total r.1 := by
  unfold pathStair at h
  simp only at h
  generalize nextDouble A s = nd at h
  obtain ⟨v, s1⟩ := nd
  simp only at h
  obtain ⟨iters, _, h3⟩ := bind_ok h
  obtain ⟨pat, hl, h4⟩ := bind_ok h3
  cases h4
  have hc := getColumnSpecial_lt h1 h16 g.x
  exact pathStairLoop_ok g h1 h16 h2 _ _ _ _ _ _ (PatOk.empty _) (by omega) hl

theorem pathMultipleLoop_ok (h2 : 2 ≤ g.total) (interval legacy : Int)
    (hleg : legacy = if 4 ≤ g.total ∧ g.total ≤ 8 then 1 else 0)
    (hiv : 1 ≤ interval ∧ interval < (g.total : Int) - legacy) :
    ∀ (k : Nat) (pat : Pat) (c : Int) (t : Int) (s : Osu) (r : Pat × Osu), PatOk g.total pat →
      (0 ≤ c ∧ c < g.total) →
      pathMultipleLoop A g interval legacy k pat c t s = .ok r → PatOk g.total r.1 := by
  intro k
  induction k with
  | zero => intro pat c t s r hp _ h; unfold pathMultipleLoop at h; cases h; exact hp
  | succ k ih =>
    intro pat c t s r hp hc h
    unfold pathMultipleLoop at h
    simp only at h
    obtain ⟨pat1, ha1, h3⟩ := bind_ok h
    have hu : asU8 c < g.total := by
      have := asU8_of_range (v := c) hc.1 (by omega)
      omega
    have hp1 := hp.add hu ha1
    have hb := getRandomColumn_bounds hA s (randomStart g.total) g.total (randomStart_lt h1) (by omega)
    have hnc : ∀ nc : Int,
        nc = (if c + interval ≥ (g.total : Int) - randomStart g.total
          then c + interval - g.total - randomStart g.total + legacy else c + interval) + randomStart g.total →
        asU8 nc < g.total := by
      intro nc hnc
      have hr : (randomStart g.total : Int) = if g.total = 8 then 1 else 0 := by
        unfold randomStart; split <;> rfl
      have h0 : 0 ≤ nc ∧ nc < g.total := by
        rw [hnc, hr, hleg]
        repeat' split
        all_goals omega
      have := asU8_of_range (v := nc) h0.1 (by omega)
      omega
    obtain ⟨pat2, ha2, h4⟩ := bind_ok h3
    have hp2 : PatOk g.total pat2 := by
      split at ha2
      · exact hp1.add (hnc _ rfl) ha2
      · cases ha2; exact hp1
    generalize getRandomColumn A s (randomStart g.total) g.total = rc at h4 hb
    obtain ⟨c', s'⟩ := rc
    simp only at h4 hb
    obtain ⟨t', _, h5⟩ := bind_ok h4
    exact ih pat2 c' t' s' r hp2 (by omega) h5

theorem pathMultiple_ok (h2 : 2 ≤ g.total) (t : Int) (s : Osu) (r : Pat × Osu)
    (h : pathMultiple A g t s = .ok r) : PatOk g.total r.1 := by
  unfold pathMultiple at h
  simp only at h
  obtain ⟨iters, _, h3⟩ := bind_ok h
  have hn := Osu.nextInt_lt s
  have hc := getColumnSpecial_lt h1 h16 g.x
  have hiv := hA.bounds 1 ((g.total : Int) - (if 4 ≤ g.total ∧ g.total ≤ 8 then 1 else 0)) s.nextInt.1
    (by split <;> omega) (by split <;> omega) hn
  exact pathMultipleLoop_ok hA g h1 h16 h2 _ _ rfl ⟨hiv.1, hiv.2⟩ _ _ _ _ _ _ (PatOk.empty _)
    (by omega) h3

theorem pathNRandom_ok (ct : Nat) (t : Int) (p2 p3 p4 : F) (s : Osu) (r : Pat × Osu)
    (h : pathNRandom A g ct t p2 p3 p4 s = .ok r) : PatOk g.total r.1 := by
  unfold pathNRandom at h
  obtain ⟨canTwo, _, h3⟩ := bind_ok h
  exact pathRandomHoldNotes_ok hA g h1 h16 _ _ _ _ h3

theorem pathTiledLoop_ok (endT : Int) :
    ∀ (k : Nat) (pat : Pat) (c : Nat) (t : Int) (s : Osu) (r : Pat × Osu), PatOk g.total pat →
      c < g.total → pathTiledLoop A g endT k pat c t s = .ok r → PatOk g.total r.1 := by
  intro k
  induction k with
  | zero => intro pat c t s r hp _ h; unfold pathTiledLoop at h; cases h; exact hp
  | succ k ih =>
    intro pat c t s r hp hc h
    unfold pathTiledLoop at h
    obtain ⟨⟨c', s'⟩, hf, h2⟩ := bind_ok h
    simp only at h2
    obtain ⟨pat', ha, h3⟩ := bind_ok h2
    obtain ⟨t', _, h4⟩ := bind_ok h3
    have hc' := pathFind_inv hA g h1 h16 _ _ _ _ _ _ hc hf
    exact ih pat' c' t' s' r (hp.add hc' ha) hc' h4

theorem pathTiled_ok (ct : Nat) (t : Int) (s : Osu) (r : Pat × Osu)
    (h : pathTiled A g ct t s = .ok r) : PatOk g.total r.1 := by
  unfold pathTiled at h
  simp only at h
  obtain ⟨m, _, h2⟩ := bind_ok h
  obtain ⟨endT, _, h3⟩ := bind_ok h2
  obtain ⟨⟨c, s1⟩, ha, h4⟩ := bind_ok h3
  have hc := pathAvoidPrev_inv hA g h1 h16 _ _ _ _ (getColumnSpecial_lt h1 h16 g.x) ha
  simp only at h4
  split at h4
  · cases h4
  · exact pathTiledLoop_ok hA g h1 h16 _ _ _ _ _ _ _ (PatOk.empty _) hc h4

theorem pathRowLoop_ok (hold : Nat) (t : Int) :
    ∀ (k : Nat) (row : Pat) (c : Nat) (s : Osu) (r : Pat × Nat × Osu), PatOk g.total row →
      c < g.total → pathRowLoop A g hold t k row c s = .ok r →
      PatOk g.total r.1 ∧ r.2.1 < g.total := by
  intro k
  induction k with
  | zero => intro row c s r hp hc h; unfold pathRowLoop at h; cases h; exact ⟨hp, hc⟩
  | succ k ih =>
    intro row c s r hp hc h
    unfold pathRowLoop at h
    obtain ⟨⟨c', s'⟩, hf, h2⟩ := bind_ok h
    simp only at h2
    obtain ⟨row', ha, h3⟩ := bind_ok h2
    have hc' := pathFind_inv hA g h1 h16 _ _ _ _ _ _ hc hf
    exact ih row' c' s' r (hp.add hc' ha) hc' h3

theorem pathHoldNormalLoop_ok (hold n : Nat) (ign : Bool) :
    ∀ (k : Nat) (pat : Pat) (c : Nat) (t : Int) (s : Osu) (r : Pat × Osu), PatOk g.total pat →
      c < g.total → pathHoldNormalLoop A g hold n ign k pat c t s = .ok r → PatOk g.total r.1 := by
  intro k
  induction k with
  | zero => intro pat c t s r hp _ h; unfold pathHoldNormalLoop at h; cases h; exact hp
  | succ k ih =>
    intro pat c t s r hp hc h
    unfold pathHoldNormalLoop at h
    obtain ⟨⟨row, c', s'⟩, hrow, h2⟩ := bind_ok h
    simp only at h2
    obtain ⟨t', _, h3⟩ := bind_ok h2
    have hr : PatOk g.total row ∧ c' < g.total := by
      split at hrow
      · exact pathRowLoop_ok hA g h1 h16 _ _ _ _ _ _ _ (PatOk.empty _) hc hrow
      · cases hrow; exact ⟨PatOk.empty _, hc⟩
    exact ih _ c' t' s' r (hp.append hr.1) hr.2 h3

theorem pathHoldNormal_ok (ct : Nat) (t : Int) (s : Osu) (r : Pat × Osu)
    (h : pathHoldNormal A g ct t s = .ok r) : PatOk g.total r.1 := by
  unfold pathHoldNormal at h
  obtain ⟨⟨hold, s1⟩, ha, h2⟩ := bind_ok h
  have hh := pathAvoidPrev_inv hA g h1 h16 _ _ _ _ (getColumnSpecial_lt h1 h16 g.x) ha
  simp only at h2 hh
  obtain ⟨pat, hadd, h3⟩ := bind_ok h2
  have hp := (PatOk.empty g.total).add hh hadd
  have hb := getRandomColumn_bounds hA s1 (randomStart g.total) g.total (randomStart_lt h1) (by omega)
  generalize getRandomColumn A s1 (randomStart g.total) g.total = rc at h3 hb
  obtain ⟨c0, s2⟩ := rc
  simp only at h3 hb
  generalize (if A.gt g.cd (A.pct 650) = true then noteCount A s2 (A.pct 63) (A.pct 0) (A.pct 0) (A.pct 0) (A.pct 0)
    else _ : Int × Osu) = nc at h3
  obtain ⟨n, s3⟩ := nc
  simp only at h3
  obtain ⟨smp, _, h4⟩ := bind_ok h3
  obtain ⟨iters, _, h5⟩ := bind_ok h4
  exact pathHoldNormalLoop_ok hA g h1 h16 _ _ _ _ _ _ _ _ _ hp hb.2 h5

theorem pathCoreMulti_ok (h2 : 2 ≤ g.total) (s : Osu) (r : Pat × Osu)
    (h : pathCoreMulti A g s = .ok r) : PatOk g.total r.1 := by
  unfold pathCoreMulti at h
  split at h
  · exact pathRandomHoldNotes_ok hA g h1 h16 _ _ _ _ h
  · split at h
    · obtain ⟨n, _, h3⟩ := bind_ok h
      exact pathRandomNotes_ok hA g h1 h16 _ _ _ _ _ h3
    · split at h
      · exact pathStair_ok hA g h1 h16 h2 _ _ _ h
      · split at h
        · exact pathMultiple_ok hA g h1 h16 h2 _ _ _ h
        · obtain ⟨d, _, h3⟩ := bind_ok h
          split at h3
          · exact pathNRandom_ok hA g h1 h16 _ _ _ _ _ _ _ h3
          · split at h3
            · exact pathTiled_ok hA g h1 h16 _ _ _ _ h3
            · exact pathHoldNormal_ok hA g h1 h16 _ _ _ _ h3

theorem pathCoreSingle_ok (s : Osu) (r : Pat × Osu)
    (h : pathCoreSingle A g s = .ok r) : PatOk g.total r.1 := by
  unfold pathCoreSingle at h
  split at h
  · exact pathRandomNotes_ok hA g h1 h16 _ _ _ _ _ h
  · repeat' split at h
    all_goals exact pathNRandom_ok hA g h1 h16 _ _ _ _ _ _ _ h

theorem pathGenerateCore_ok (s : Osu) (r : Pat × Osu)
    (h : pathGenerateCore A g s = .ok r) : PatOk g.total r.1 := by
  unfold pathGenerateCore at h
  split at h
  · obtain ⟨p, hp, h2⟩ := bind_ok h
    cases h2
    exact PatOk.single (by omega) hp
  · split at h
    · exact pathCoreMulti_ok hA g h1 h16 (by omega) _ _ h
    · exact pathCoreSingle_ok hA g h1 h16 _ _ h

omit hA in
theorem pathSplit_ok :
    ∀ (ns : List Note) (a b : Pat) (r : Pat × Pat), PatOk g.total a → PatOk g.total b →
      pathSplit g ns a b = .ok r → PatOk g.total r.1 ∧ PatOk g.total r.2 := by
  intro ns
  induction ns with
  | nil => intro a b r ha hb h; unfold pathSplit at h; cases h; exact ⟨ha, hb⟩
  | cons n ns ih =>
    intro a b r ha hb h
    unfold pathSplit at h
    simp only at h
    have hc : posColumn g.total n.col % 256 < g.total := by
      have := posColumn_lt h1 n.col
      have : posColumn g.total n.col % 256 = posColumn g.total n.col := Nat.mod_eq_of_lt (by omega)
      omega
    split at h
    · obtain ⟨a', had, h2⟩ := bind_ok h
      exact ih a' b r (ha.add hc had) hb h2
    · obtain ⟨b', had, h2⟩ := bind_ok h
      exact ih a b' r ha (hb.add hc had) h2

/-- **(a) for the path generator**: every note of every pattern `PathObjectPatternGenerator::generate()`
returns lies in a column below the key count. -/
theorem pathGenerate_ok (s : Osu) (r : List Pat × Osu) (h : pathGenerate A g s = .ok r) :
    ∀ p ∈ r.1, PatOk g.total p := by
  unfold pathGenerate at h
  obtain ⟨⟨p, s'⟩, hc, h2⟩ := bind_ok h
  have hp := pathGenerateCore_ok hA g h1 h16 _ _ hc
  simp only at h2 hp
  split at h2
  · cases h2
    intro q hq
    simp only [List.mem_singleton] at hq
    subst hq; exact hp
  · obtain ⟨⟨a, b⟩, hs, h3⟩ := bind_ok h2
    cases h3
    have := pathSplit_ok g h1 h16 _ _ _ _ (PatOk.empty _) (PatOk.empty _) hs
    intro q hq
    simp only [List.mem_cons, List.not_mem_nil, or_false] at hq
    rcases hq with hq | hq
    · subst hq; exact this.1
    · subst hq; exact this.2

end path

/-! ## end-time generator -/

/-- **(a) for the end-time generator** -/
theorem endGenerate_ok {A : PArith F} (hA : RangeLaw A) (g : EndIn) (h1 : 1 ≤ g.total) (h16 : g.total ≤ 16)
    (s : Osu) (r : Pat × Osu) (h : endGenerate A g s = .ok r) : PatOk g.total r.1 := by
  unfold endGenerate at h
  simp only at h
  split at h
  · obtain ⟨p, hp, h2⟩ := bind_ok h
    cases h2
    exact PatOk.single (by omega) hp
  · obtain ⟨⟨c, s'⟩, hc, h2⟩ := bind_ok h
    simp only at h2
    obtain ⟨p, hp, h3⟩ := bind_ok h2
    cases h3
    refine PatOk.single ?_ hp
    unfold endRandomColumn at hc
    simp only at hc
    have hlow : (if g.total = 8 then randomStart g.total else 0) < g.total := by
      have := randomStart_lt h1
      split <;> omega
    generalize (if g.total = 8 then randomStart g.total else 0) = lower at hc hlow
    have hb := getRandomColumn_bounds hA s lower g.total hlow (by omega)
    generalize getRandomColumn A s lower g.total = rc at hc hb
    obtain ⟨c0, s1⟩ := rc
    simp only at hc hb
    exact findAvail_inv (· < g.total)
      (fun s col c s' _ hn => (randomNext_inv hA hlow (by omega) s col c s' hn).2) hb.2 hc

/-! ## the whole loop -/

/-- **(a) for one iteration of `convert`'s loop**: whatever the previous pattern, stair state and
PRNG state are, every note the step emits lies below the key count. -/
theorem convertStep_ok {A : PArith F} (hA : RangeLaw A) (total : Nat) (h1 : 1 ≤ total) (h16 : total ≤ 16)
    (cd : F) (fuel : Nat) (st : ConvSt) (o : ObjIn F) (r : Emitted × ConvSt)
    (h : convertStep A total cd fuel st o = .ok r) : ∀ p ∈ r.1, PatOk total p := by
  cases o with
  | circle x sample ct =>
    unfold convertStep at h
    obtain ⟨⟨p, s', stair'⟩, hg, h2⟩ := bind_ok h
    cases h2
    intro q hq
    simp only [List.mem_singleton] at hq
    subst hq
    exact hitGenerate_ok hA ⟨total, x, sample, ct, st.prev, cd, fuel⟩ h1 h16 _ _ _ hg
  | slider x sample ct span startT endT seg nodes =>
    unfold convertStep at h
    obtain ⟨⟨ps, s'⟩, hg, h2⟩ := bind_ok h
    cases h2
    exact pathGenerate_ok hA ⟨total, x, sample, ct, st.prev, cd, span, startT, endT, seg, nodes, fuel⟩ h1 h16 _ _ hg
  | spinner sample hold short =>
    unfold convertStep at h
    obtain ⟨⟨p, s'⟩, hg, h2⟩ := bind_ok h
    cases h2
    intro q hq
    simp only [List.mem_singleton] at hq
    subst hq
    exact endGenerate_ok hA ⟨total, sample, st.prev, hold, short, fuel⟩ h1 h16 _ _ hg

theorem convertLoop_ok {A : PArith F} (hA : RangeLaw A) (total : Nat) (h1 : 1 ≤ total) (h16 : total ≤ 16)
    (cd : F) (fuel : Nat) :
    ∀ (os : List (ObjIn F)) (st : ConvSt) (r : List (Emitted × ConvSt) × ConvSt),
      convertLoop A total cd fuel st os = .ok r → ∀ e ∈ r.1, ∀ p ∈ e.1, PatOk total p := by
  intro os
  induction os with
  | nil => intro st r h; unfold convertLoop at h; cases h; intro e he; cases he
  | cons o os ih =>
    intro st r h
    unfold convertLoop at h
    obtain ⟨⟨e, st'⟩, hs, h2⟩ := bind_ok h
    simp only at h2
    obtain ⟨⟨rest, stf⟩, hl, h3⟩ := bind_ok h2
    cases h3
    intro e' he'
    simp only [List.mem_cons] at he'
    rcases he' with he' | he'
    · subst he'; exact convertStep_ok hA total h1 h16 cd fuel st o _ hs
    · exact ih st' _ hl e' he'

end Rosu.ManiaPattern
