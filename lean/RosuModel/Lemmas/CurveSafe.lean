import RosuModel.Lemmas.CurveBasic

/-!
# No checked operation of the curve model fails

For EVERY arithmetic `A : Arith S D` (nothing is assumed about the float operations) and every input:
the index / slice / `usize`-subtraction / `unreachable!` checks of `Model/Curve.lean` never fire.  The
only error that remains possible is `Err.fuel` (the two loops without a syntactic bound).
-/
namespace Rosu.Curve

/-! ## `Except` plumbing -/

section plumbing
variable {α β : Type}

@[simp] theorem ok_bind (v : α) (f : α → R β) : ((Except.ok v : R α) >>= f) = f v := rfl

@[simp] theorem error_bind (e : Err) (f : α → R β) :
    ((Except.error e : R α) >>= f) = .error e := rfl

theorem getC_eq (a : Array α) (i : Nat) (h : i < a.size) : getC a i = .ok a[i] := by
  simp [getC, h]

theorem getC_ok (a : Array α) (i : Nat) (h : i < a.size) : ∃ v, getC a i = .ok v :=
  ⟨_, getC_eq a i h⟩

theorem setC_eq (a : Array α) (i : Nat) (v : α) (h : i < a.size) :
    setC a i v = .ok (a.setIfInBounds i v) := by
  simp [setC, h]

theorem subC_eq (a b : Nat) (h : b ≤ a) : subC a b = .ok (a - b) := by
  simp [subC, h]

@[simp] theorem need_true : need true = .ok () := rfl

theorem need_eq (c : Bool) (h : c = true) : need c = .ok () := by
  subst h; rfl

/-- `r` does not panic, and if it returns `v` then `P v`. -/
def Safe (r : R α) (P : α → Prop) : Prop :=
  match r with
  | .ok v => P v
  | .error e => e = .fuel

@[simp] theorem safe_ok (v : α) (P : α → Prop) : Safe (.ok v : R α) P ↔ P v := Iff.rfl

@[simp] theorem safe_error (e : Err) (P : α → Prop) : Safe (.error e : R α) P ↔ e = .fuel :=
  Iff.rfl

theorem Safe.noPanic {r : R α} {P : α → Prop} (h : Safe r P) : NoPanic r := by
  intro e he
  subst he
  exact h

theorem Safe.post {r : R α} {P : α → Prop} (h : Safe r P) {v : α} (hv : r = .ok v) : P v := by
  subst hv
  exact h

theorem Safe.mono {r : R α} {P Q : α → Prop} (h : Safe r P) (hpq : ∀ v, P v → Q v) :
    Safe r Q := by
  cases r with
  | ok v => exact hpq v h
  | error e => exact h

theorem Safe.bind {r : R α} {f : α → R β} {P : α → Prop} {Q : β → Prop} (h : Safe r P)
    (hf : ∀ v, r = .ok v → P v → Safe (f v) Q) : Safe (r >>= f) Q := by
  cases r with
  | ok v => exact hf v rfl h
  | error e => exact h

theorem safe_of_ok {r : R α} {P : α → Prop} {v : α} (hv : r = .ok v) (hp : P v) : Safe r P := by
  subst hv
  exact hp

theorem safe_of_noPanic {r : R α} (h : NoPanic r) : Safe r (fun _ => True) := by
  cases r with
  | ok v => trivial
  | error e => exact h e rfl

theorem safe_iff {r : R α} {P : α → Prop} :
    Safe r P ↔ NoPanic r ∧ ∀ v, r = .ok v → P v := by
  constructor
  · intro h
    exact ⟨h.noPanic, fun v hv => h.post hv⟩
  · intro ⟨h1, h2⟩
    cases r with
    | ok v => exact h2 v rfl
    | error e => exact h1 e rfl

end plumbing

section
variable {S D : Type} (A : Arith S D)

/-! ## bezier -/

theorem midLoop_ok (n j : Nat) (mid : Array (Pos S)) (h : j + n < mid.size) :
    ∃ mid', midLoop A n j mid = .ok mid' ∧ mid'.size = mid.size := by
  induction n generalizing j mid with
  | zero => exact ⟨mid, rfl, rfl⟩
  | succ n ih =>
    simp only [midLoop]
    rw [getC_eq mid j (by omega)]
    simp only [ok_bind]
    rw [getC_eq mid (j + 1) (by omega)]
    simp only [ok_bind]
    rw [setC_eq mid j _ (by omega)]
    simp only [ok_bind]
    obtain ⟨m', h1, h2⟩ := ih (j + 1) (mid.setIfInBounds j
      (pdiv A (padd A mid[j] mid[j + 1]) (two A))) (by simp only [Array.size_setIfInBounds]; omega)
    exact ⟨m', h1, by simpa using h2⟩

theorem subLoop_ok (count i : Nat) (l r mid : Array (Pos S)) (hi : i < count)
    (hl : count ≤ l.size) (hr : count ≤ r.size) (hm : count ≤ mid.size) :
    ∃ l' r' mid', subLoop A count i l r mid = .ok (l', r', mid') ∧ l'.size = l.size ∧
      r'.size = r.size ∧ mid'.size = mid.size := by
  induction i generalizing l r mid with
  | zero => exact ⟨l, r, mid, rfl, rfl, rfl, rfl⟩
  | succ i ih =>
    simp only [subLoop]
    rw [getC_eq mid 0 (by omega)]
    simp only [ok_bind]
    rw [subC_eq count (i + 1) (by omega)]
    simp only [ok_bind]
    rw [subC_eq (count - (i + 1)) 1 (by omega)]
    simp only [ok_bind]
    rw [setC_eq l _ _ (by omega)]
    simp only [ok_bind]
    rw [getC_eq mid (i + 1) (by omega)]
    simp only [ok_bind]
    rw [setC_eq r _ _ (by omega)]
    simp only [ok_bind]
    obtain ⟨m1, hm1, hs1⟩ := midLoop_ok A (i + 1) 0 mid (by omega)
    rw [hm1]
    simp only [ok_bind]
    obtain ⟨l', r', m', h1, h2, h3, h4⟩ := ih (l.setIfInBounds (count - (i + 1) - 1) mid[0])
      (r.setIfInBounds (i + 1) mid[i + 1]) m1 (by omega)
      (by simp only [Array.size_setIfInBounds]; omega)
      (by simp only [Array.size_setIfInBounds]; omega) (by omega)
    refine ⟨l', r', m', h1, ?_, ?_, ?_⟩
    · simpa using h2
    · simpa using h3
    · omega

theorem copyPrefix_ok (dst src : Array (Pos S)) (count : Nat) (hd : count ≤ dst.size)
    (hs : count ≤ src.size) :
    ∃ m, copyPrefix dst src count = .ok m ∧ m.size = dst.size := by
  unfold copyPrefix
  rw [need_eq _ (by simp [hd, hs])]
  simp only [ok_bind]
  refine ⟨_, rfl, ?_⟩
  simp only [Array.size_append, Array.size_extract]
  omega

theorem subdivide_ok (pts l r mid : Array (Pos S)) (h1 : 1 ≤ pts.size) (hl : pts.size ≤ l.size)
    (hr : pts.size ≤ r.size) (hm : pts.size ≤ mid.size) :
    ∃ l' r' mid', subdivide A pts l r mid = .ok (l', r', mid') ∧ l'.size = l.size ∧
      r'.size = r.size ∧ mid'.size = mid.size := by
  unfold subdivide
  obtain ⟨m0, hm0, hs0⟩ := copyPrefix_ok mid pts pts.size hm (Nat.le_refl _)
  simp only []
  rw [hm0]
  simp only [ok_bind]
  obtain ⟨l1, r1, m1, h, hl1, hr1, hm1⟩ :=
    subLoop_ok A pts.size (pts.size - 1) l r m0 (by omega) hl hr (by omega)
  rw [h]
  simp only [ok_bind]
  rw [getC_eq m1 0 (by omega)]
  simp only [ok_bind]
  rw [subC_eq pts.size 1 h1]
  simp only [ok_bind]
  rw [setC_eq l1 _ _ (by omega)]
  simp only [ok_bind]
  rw [setC_eq r1 0 _ (by omega)]
  simp only [ok_bind]
  refine ⟨_, _, _, rfl, ?_, ?_, ?_⟩
  · simp only [Array.size_setIfInBounds]; omega
  · simp only [Array.size_setIfInBounds]; omega
  · omega

/-- Every buffer has at least `p` entries. -/
def BufGE (p : Nat) (b : Bez S) : Prop :=
  p ≤ b.left.size ∧ p ≤ b.right.size ∧ p ≤ b.mid.size ∧ p ≤ b.leftChild.size

/-- The buffers of `b'` have the sizes of those of `b`. -/
def SameSz (b b' : Bez S) : Prop :=
  b'.left.size = b.left.size ∧ b'.right.size = b.right.size ∧ b'.mid.size = b.mid.size ∧
    b'.leftChild.size = b.leftChild.size

theorem SameSz.refl (b : Bez S) : SameSz b b := ⟨rfl, rfl, rfl, rfl⟩

theorem SameSz.trans {b b' b'' : Bez S} (h1 : SameSz b b') (h2 : SameSz b' b'') :
    SameSz b b'' := by
  unfold SameSz at *
  omega

theorem SameSz.bufGE {p : Nat} {b b' : Bez S} (h : SameSz b b') (hb : BufGE p b) :
    BufGE p b' := by
  unfold SameSz BufGE at *
  omega

theorem SameSz.wf {b b' : Bez S} (h : SameSz b b') (hb : BezWF b) : BezWF b' := by
  unfold SameSz BezWF at *
  omega

theorem approximate_ok (pts path : Array (Pos S)) (b : Bez S) (h1 : 1 ≤ pts.size)
    (hb : BufGE pts.size b) :
    ∃ path' b', approximate A pts path b = .ok (path', b') ∧ SameSz b b' := by
  obtain ⟨hbl, hbr, hbm, _⟩ := hb
  unfold approximate
  obtain ⟨l1, r1, m1, h, hl1, hr1, hm1⟩ := subdivide_ok A pts b.left b.right b.mid h1 hbl hbr hbm
  simp only []
  rw [h]
  simp only [ok_bind]
  rw [getC_eq pts 0 (by omega)]
  simp only [ok_bind]
  rw [need_eq _ (by simp only [Bool.and_eq_true, decide_eq_true_eq]; omega)]
  simp only [ok_bind]
  exact ⟨_, _, rfl, hl1, hr1, hm1, rfl⟩

/-- `bsplineLoop` does not panic, and the buffers keep their sizes. -/
theorem bsplineLoop_safe (p fuel : Nat) (stack : List (Array (Pos S))) (path : Array (Pos S))
    (b : Bez S) (hp : 1 ≤ p) (hstack : ∀ c ∈ stack, c.size = p) (hb : BufGE p b) :
    Safe (bsplineLoop A p fuel stack path b) (fun r => SameSz b r.2) := by
  induction fuel generalizing stack path b with
  | zero =>
    cases stack with
    | nil => simp only [bsplineLoop, safe_ok]; exact SameSz.refl b
    | cons c rest => simp only [bsplineLoop, safe_error]
  | succ fuel ih =>
    cases stack with
    | nil => simp only [bsplineLoop, safe_ok]; exact SameSz.refl b
    | cons parent rest =>
      have hps : parent.size = p := hstack parent (by simp)
      have hrest : ∀ c ∈ rest, c.size = p := fun c hc => hstack c (by simp [hc])
      simp only [bsplineLoop]
      split
      · obtain ⟨path', b', he, hs⟩ := approximate_ok A parent path b (by omega) (by rw [hps]; exact hb)
        rw [he]
        simp only [ok_bind]
        exact (ih rest path' b' hrest (hs.bufGE hb)).mono (fun v hv => hs.trans hv)
      · obtain ⟨hbl, hbr, hbm, hbc⟩ := hb
        obtain ⟨lc, rc, m1, h, hl1, hr1, hm1⟩ := subdivide_ok A parent b.leftChild
          (Array.replicate p (zero A)) b.mid (by omega) (by omega)
          (by simp only [Array.size_replicate]; omega) (by omega)
        rw [h]
        simp only [ok_bind]
        rw [need_eq _ (by simp only [Bool.and_eq_true, decide_eq_true_eq]; omega)]
        simp only [ok_bind]
        have hs : SameSz b { b with leftChild := lc, mid := m1 } := ⟨rfl, rfl, hm1, hl1⟩
        refine (ih (lc.extract 0 p :: rc :: rest) path _ ?_ (hs.bufGE ⟨hbl, hbr, hbm, hbc⟩)).mono
          (fun v hv => hs.trans hv)
        intro c hc
        simp only [List.mem_cons] at hc
        rcases hc with rfl | rfl | hc
        · simp only [Array.size_extract]; omega
        · simpa using hr1
        · exact hrest c hc

theorem bsplineLoop_noPanic (p fuel : Nat) (stack : List (Array (Pos S))) (path : Array (Pos S))
    (b : Bez S) (hp : 1 ≤ p) (hstack : ∀ c ∈ stack, c.size = p) (hb : BufGE p b) :
    NoPanic (bsplineLoop A p fuel stack path b) ∧
      ∀ path' b', bsplineLoop A p fuel stack path b = .ok (path', b') → SameSz b b' := by
  have h := bsplineLoop_safe A p fuel stack path b hp hstack hb
  exact ⟨h.noPanic, fun path' b' he => h.post he⟩

theorem extendExact_wf (b : Bez S) (len : Nat) (hb : BezWF b) :
    BezWF (extendExact A b len) ∧ BufGE len (extendExact A b len) := by
  unfold BezWF BufGE at *
  unfold extendExact
  split
  · omega
  · simp only [Array.size_append, Array.size_replicate]
    omega

theorem approximateBezier_safe (fuel : Nat) (path pts : Array (Pos S)) (b : Bez S)
    (h : 1 ≤ pts.size) (hb : BezWF b) :
    Safe (approximateBezier A fuel path pts b) (fun r => BezWF r.2) := by
  obtain ⟨hw, hg⟩ := extendExact_wf A b pts.size hb
  unfold approximateBezier
  simp only []
  refine Safe.bind (bsplineLoop_safe A pts.size fuel [pts] path _ h (by simp) hg) ?_
  rintro ⟨path', b'⟩ _ hs
  simp only []
  rw [subC_eq pts.size 1 h]
  simp only [ok_bind]
  rw [getC_eq pts (pts.size - 1) (by omega)]
  simp only [ok_bind, safe_ok]
  exact SameSz.wf hs hw

theorem approximateBezier_noPanic (fuel : Nat) (path pts : Array (Pos S)) (b : Bez S)
    (h : 1 ≤ pts.size) (hb : BezWF b) :
    NoPanic (approximateBezier A fuel path pts b) ∧
      ∀ path' b', approximateBezier A fuel path pts b = .ok (path', b') → BezWF b' := by
  have hs := approximateBezier_safe A fuel path pts b h hb
  exact ⟨hs.noPanic, fun path' b' he => hs.post he⟩

/-! ## catmull -/

theorem catmullLoop_ok (pts : Array (Pos S)) (n k : Nat) (path : Array (Pos S))
    (h : k + n + 2 ≤ pts.size) :
    ∃ path', catmullLoop A pts n k path = .ok path' ∧ path.size ≤ path'.size := by
  induction n generalizing k path with
  | zero => exact ⟨path, rfl, Nat.le_refl _⟩
  | succ n ih =>
    simp only [catmullLoop]
    rw [getC_eq pts k (by omega)]
    simp only [ok_bind]
    rw [getC_eq pts (k + 1) (by omega)]
    simp only [ok_bind]
    obtain ⟨p', hp', hs⟩ := ih (k + 1) _ (by omega)
    refine ⟨p', hp', Nat.le_trans ?_ hs⟩
    simp only [Array.size_append]
    omega

theorem approximateCatmull_ok (path pts : Array (Pos S)) (h : 1 ≤ pts.size) :
    ∃ path', approximateCatmull A path pts = .ok path' ∧ path.size ≤ path'.size := by
  unfold approximateCatmull
  split
  · exact ⟨path, rfl, Nat.le_refl _⟩
  · rw [subC_eq pts.size 1 h]
    simp only [ok_bind]
    rw [getC_eq pts 0 (by omega)]
    simp only [ok_bind]
    obtain ⟨p', hp', hs⟩ := catmullLoop_ok A pts (pts.size - 2) 0 _ (by omega)
    refine ⟨p', hp', Nat.le_trans ?_ hs⟩
    simp only [Array.size_append]
    omega

theorem catOptStep_ok (sub : Array (Pos S)) (st : CatOpt S D) (i : Nat) (curr : Pos S)
    (h0 : i = 0 → st.lastStart = none) (hi : i < sub.size) :
    ∃ st', catOptStep A sub st i curr = .ok st' := by
  unfold catOptStep
  split
  · exact ⟨_, rfl⟩
  · rename_i ls hls
    have hi1 : 1 ≤ i := by
      rcases Nat.eq_zero_or_pos i with h | h
      · rw [h0 h] at hls; cases hls
      · exact h
    simp only []
    rw [subC_eq i 1 hi1]
    simp only [ok_bind]
    rw [getC_eq sub (i - 1) (by omega)]
    simp only [ok_bind]
    rw [subC_eq sub.size 1 (by omega)]
    simp only [ok_bind]
    split
    · exact ⟨_, rfl⟩
    · exact ⟨_, rfl⟩

/-- The osu!-only pass never fails: `lastStart = none` at `i = 0` (how `calculateSubpath` starts
it) and the list is no longer than what is left of `sub` from `i`. -/
theorem catOptLoop_ok (sub : Array (Pos S)) (rest : List (Pos S)) (i : Nat) (st : CatOpt S D)
    (h0 : i = 0 → st.lastStart = none) (hlen : i + rest.length ≤ sub.size) :
    ∃ st', catOptLoop A sub rest i st = .ok st' := by
  induction rest generalizing i st with
  | nil => exact ⟨st, rfl⟩
  | cons curr rest ih =>
    simp only [List.length_cons] at hlen
    simp only [catOptLoop]
    obtain ⟨st1, h1⟩ := catOptStep_ok A sub st i curr h0 (by omega)
    rw [h1]
    simp only [ok_bind]
    exact ih (i + 1) st1 (by omega) (by omega)

/-! ## circular arc -/

theorem thetaLoop_noPanic (thetaStart : D) (fuel : Nat) (te : D) :
    NoPanic (thetaLoop A thetaStart fuel te) := by
  induction fuel generalizing te with
  | zero =>
    unfold thetaLoop
    split
    · intro e he; cases he; rfl
    · intro e he; cases he
  | succ fuel ih =>
    unfold thetaLoop
    split
    · exact ih _
    · intro e he; cases he

theorem arcProperties_noPanic (fuel : Nat) (a b c : Pos S) :
    NoPanic (arcProperties A fuel a b c : R (Option (ArcProps S D))) := by
  apply Safe.noPanic (P := fun _ => True)
  unfold arcProperties
  simp only []
  split
  · trivial
  · refine Safe.bind (safe_of_noPanic (thetaLoop_noPanic A _ fuel _)) ?_
    intro te _ _
    split
    · trivial
    · trivial

theorem arcSubPoints_ge (pr : ArcProps S D) : 2 ≤ arcSubPoints A pr := by
  unfold arcSubPoints
  split
  · exact Nat.le_refl _
  · simp only []
    split
    · exact Nat.le_refl _
    · exact Nat.le_max_right _ _

theorem approximateArc_noPanic (fuel : Nat) (path : Array (Pos S)) (a b c : Pos S) :
    NoPanic (approximateArc A fuel path a b c : R (Option (Array (Pos S)))) := by
  apply Safe.noPanic (P := fun _ => True)
  unfold approximateArc
  refine Safe.bind (safe_of_noPanic (arcProperties_noPanic A fuel a b c)) ?_
  intro pr _ _
  cases pr with
  | none => trivial
  | some pr =>
    simp only []
    split
    · trivial
    · rw [subC_eq _ 1 (by have := arcSubPoints_ge A pr; omega)]
      trivial

/-! ## `calculate_subpath`, `calculate_path` -/

theorem calculateSubpath_safe (fuel : Nat) (isOsu : Bool) (st : PathSt S D) (sub : Array (Pos S))
    (kind : Spline) (h : 2 ≤ sub.size) (hb : BezWF st.bez) :
    Safe (calculateSubpath A fuel isOsu st sub kind) (fun st' => BezWF st'.bez) := by
  cases kind with
  | linear =>
    simp only [calculateSubpath, safe_ok]
    exact hb
  | perfect =>
    simp only [calculateSubpath]
    refine Safe.bind (P := fun _ => True) ?_ ?_
    · split
      · rw [getC_eq sub 0 (by omega)]
        simp only [ok_bind]
        rw [getC_eq sub 1 (by omega)]
        simp only [ok_bind]
        rw [getC_eq sub 2 (by omega)]
        simp only [ok_bind]
        exact safe_of_noPanic (approximateArc_noPanic A fuel st.path _ _ _)
      · trivial
    · intro arc _ _
      cases arc with
      | some p => exact hb
      | none =>
        simp only []
        refine Safe.bind (approximateBezier_safe A fuel st.path sub st.bez (by omega) hb) ?_
        rintro ⟨p, bz⟩ _ hw
        exact hw
  | catmull =>
    simp only [calculateSubpath]
    obtain ⟨p', hp', hs⟩ := approximateCatmull_ok A st.path sub (by omega)
    rw [hp']
    simp only [ok_bind]
    split
    · exact hb
    · rw [need_eq _ (by simpa using hs)]
      simp only [ok_bind]
      obtain ⟨r, hr⟩ := catOptLoop_ok A (p'.extract st.path.size p'.size)
        (p'.extract st.path.size p'.size).toList 0
        { path := p'.extract 0 st.path.size, lastStart := none, lenRemoved := A.dOfInt 0,
          optimized := st.optimized } (fun _ => rfl) (by simp)
      rw [hr]
      exact hb
  | bspline =>
    simp only [calculateSubpath]
    refine Safe.bind (approximateBezier_safe A fuel st.path sub st.bez (by omega) hb) ?_
    rintro ⟨p, bz⟩ _ hw
    exact hw

theorem calculateSubpath_noPanic (fuel : Nat) (isOsu : Bool) (st : PathSt S D)
    (sub : Array (Pos S)) (kind : Spline) (h : 2 ≤ sub.size) (hb : BezWF st.bez) :
    NoPanic (calculateSubpath A fuel isOsu st sub kind) ∧
      ∀ st', calculateSubpath A fuel isOsu st sub kind = .ok st' → BezWF st'.bez := by
  have hs := calculateSubpath_safe A fuel isOsu st sub kind h hb
  exact ⟨hs.noPanic, fun st' he => hs.post he⟩

theorem pathStep_safe (fuel : Nat) (isOsu : Bool) (pts : Array (CP S))
    (vertices : Array (Pos S)) (st : PathSt S D) (start i : Nat)
    (hv : vertices.size = pts.size) (hi : i < pts.size) (hs : start ≤ i) (hb : BezWF st.bez) :
    Safe (pathStep A fuel isOsu pts vertices st start i)
      (fun r => BezWF r.1.bez ∧ r.2 ≤ i) := by
  unfold pathStep
  rw [getC_eq pts i hi]
  simp only [ok_bind]
  rw [subC_eq pts.size 1 (by omega)]
  simp only [ok_bind]
  split
  · exact ⟨hb, hs⟩
  · rw [need_eq _ (by simp only [Bool.and_eq_true, decide_eq_true_eq]; omega)]
    simp only [ok_bind]
    have hseg : (vertices.extract start (i + 1)).size = i + 1 - start := by
      simp only [Array.size_extract]
      omega
    split
    · omega
    · split
      · rw [getC_eq _ 0 (by omega)]
        exact ⟨hb, Nat.le_refl _⟩
      · rw [getC_eq pts start (by omega)]
        simp only [ok_bind]
        refine Safe.bind (calculateSubpath_safe A fuel isOsu st _ _ (by omega) hb) ?_
        intro st1 _ hw
        refine Safe.bind (P := fun _ => True) ?_ ?_
        · split
          · trivial
          · split
            · trivial
            · rename_i first hf
              have hlt : st.path.size < st1.path.size := by
                rcases Nat.lt_or_ge st.path.size st1.path.size with h | h
                · exact h
                · rw [Array.getElem?_eq_none h] at hf
                  cases hf
              rw [getC_eq _ _ (by omega)]
              trivial
        · intro sk _ _
          split
          · exact ⟨hw, Nat.le_refl _⟩
          · exact ⟨hw, Nat.le_refl _⟩

theorem pathLoop_safe (fuel : Nat) (isOsu : Bool) (pts : Array (CP S))
    (vertices : Array (Pos S)) (n i : Nat) (st : PathSt S D) (start : Nat)
    (hv : vertices.size = pts.size) (hn : i + n ≤ pts.size) (hs : start ≤ i)
    (hb : BezWF st.bez) :
    Safe (pathLoop A fuel isOsu pts vertices n i st start) (fun st' => BezWF st'.bez) := by
  induction n generalizing i st start with
  | zero => exact hb
  | succ n ih =>
    simp only [pathLoop]
    refine Safe.bind (pathStep_safe A fuel isOsu pts vertices st start i hv (by omega) hs hb) ?_
    rintro ⟨st1, start1⟩ _ ⟨hw, hle⟩
    exact ih (i + 1) st1 start1 (by omega) (by simp only at hle; omega) hw

theorem calculatePath_safe (fuel : Nat) (isOsu : Bool) (pts : Array (CP S)) (st : PathSt S D)
    (hb : BezWF st.bez) :
    Safe (calculatePath A fuel isOsu pts st) (fun st' => BezWF st'.bez) := by
  unfold calculatePath
  split
  · exact hb
  · exact pathLoop_safe A fuel isOsu pts _ pts.size 0 _ 0 (by simp) (by omega) (Nat.le_refl _) hb

/-- ★ `calculate_path` never panics (it can only run out of fuel), and the bezier buffers stay
well-formed. -/
theorem calculatePath_noPanic (fuel : Nat) (isOsu : Bool) (pts : Array (CP S)) (st : PathSt S D)
    (hb : BezWF st.bez) :
    NoPanic (calculatePath A fuel isOsu pts st) ∧
      ∀ st', calculatePath A fuel isOsu pts st = .ok st' → BezWF st'.bez := by
  have hs := calculatePath_safe A fuel isOsu pts st hb
  exact ⟨hs.noPanic, fun st' he => hs.post he⟩

/-! ## `idx_of_dist`, `interpolate_vertices`, `position_at` -/

theorem bsLoop_ok (lengths : Array D) (d : D) (fuel size base : Nat) (hsz : 1 ≤ size)
    (hb : base + size ≤ lengths.size) (hf : size ≤ fuel) :
    ∃ r, bsLoop A lengths d fuel size base = .ok r ∧ r < lengths.size := by
  induction fuel generalizing size base with
  | zero => omega
  | succ fuel ih =>
    simp only [bsLoop]
    split
    · rename_i h1
      rw [getC_eq lengths (base + size / 2) (by omega)]
      simp only [ok_bind]
      split
      · exact ih (size - size / 2) base (by omega) (by omega) (by omega)
      · exact ih (size - size / 2) (base + size / 2) (by omega) (by omega) (by omega)
    · exact ⟨base, rfl, by omega⟩

theorem idxOfDist_ok (lengths : Array D) (d : D) :
    ∃ i, idxOfDist A lengths d = .ok i ∧ i ≤ lengths.size := by
  unfold idxOfDist
  split
  · exact ⟨0, rfl, Nat.zero_le _⟩
  · obtain ⟨r, hr, hlt⟩ := bsLoop_ok A lengths d lengths.size lengths.size 0 (by omega) (by omega)
      (Nat.le_refl _)
    rw [hr]
    simp only [ok_bind]
    rw [getC_eq lengths r hlt]
    simp only [ok_bind]
    split
    · exact ⟨_, rfl, by omega⟩
    · exact ⟨_, rfl, by omega⟩
    · exact ⟨_, rfl, by omega⟩

theorem interpolateVertices_ok (path : Array (Pos S)) (lengths : Array D) (i : Nat) (d : D)
    (h : path.size ≤ lengths.size) : ∃ q, interpolateVertices A path lengths i d = .ok q := by
  unfold interpolateVertices
  split
  · exact ⟨_, rfl⟩
  · split
    · exact getC_ok path 0 (by omega)
    · split
      · rw [subC_eq path.size 1 (by omega)]
        simp only [ok_bind]
        exact getC_ok path _ (by omega)
      · rename_i p1 hp1
        have hlt : i < path.size := by
          rcases Nat.lt_or_ge i path.size with h | h
          · exact h
          · rw [Array.getElem?_eq_none h] at hp1
            cases hp1
        rw [subC_eq i 1 (by omega)]
        simp only [ok_bind]
        rw [getC_eq path (i - 1) (by omega)]
        simp only [ok_bind]
        rw [getC_eq lengths (i - 1) (by omega)]
        simp only [ok_bind]
        rw [getC_eq lengths i (by omega)]
        simp only [ok_bind]
        split
        · exact ⟨_, rfl⟩
        · exact ⟨_, rfl⟩

theorem positionAt_ok (c : Curve S D) (h : c.path.size ≤ c.lengths.size) (p : D) :
    ∃ q, positionAt A c p = .ok q := by
  unfold positionAt
  obtain ⟨i, hi, _⟩ := idxOfDist_ok A c.lengths (progressToDist A c.lengths p)
  simp only []
  rw [hi]
  simp only [ok_bind]
  exact interpolateVertices_ok A c.path c.lengths i _ h

theorem emptyBez_wf : BezWF (emptyBez : Bez S) := ⟨rfl, rfl, rfl⟩

/-! ## `calculate_length`, `Curve::new` -/

theorem cumLengths_length (acc : D) (l : List (Pos S)) :
    (cumLengths A acc l).1.length = l.length - 1 := by
  induction l generalizing acc with
  | nil => simp [cumLengths]
  | cons a t ih =>
    cases t with
    | nil => simp [cumLengths]
    | cons b t' =>
      simp only [cumLengths]
      have := ih (A.dAdd acc (A.toD (length A (psub A b a))))
      simp only [List.length_cons] at this ⊢
      omega

theorem lastValid_le (e : D) (cum : Array D) : lastValid A e cum ≤ cum.size := by
  unfold lastValid
  split
  · omega
  · omega

/-- The last block of `calculate_length` (the extension / cut of the last segment). -/
theorem calcTail_ok (path2 : Array (Pos S)) (cum2 : Array D) (e : D) (h1 : 1 ≤ cum2.size)
    (h2 : path2.size = cum2.size + 1) :
    ∃ path' lens, (do
        let endIdx := cum2.size
        let prevIdx ← subC endIdx 1
        let pe ← getC path2 endIdx
        let pp ← getC path2 prevIdx
        let dir := normalize A (psub A pe pp)
        let cp ← getC cum2 prevIdx
        let newEnd := padd A pp (pmul A dir (A.toS (A.dSub e cp)))
        let path ← setC path2 endIdx newEnd
        .ok (path, cum2.push e) : R (Array (Pos S) × Array D)) = .ok (path', lens) ∧
      path'.size = path2.size ∧ lens.size = cum2.size + 1 := by
  simp only []
  rw [subC_eq cum2.size 1 h1]
  simp only [ok_bind]
  rw [getC_eq path2 cum2.size (by omega)]
  simp only [ok_bind]
  rw [getC_eq path2 (cum2.size - 1) (by omega)]
  simp only [ok_bind]
  rw [getC_eq cum2 (cum2.size - 1) (by omega)]
  simp only [ok_bind]
  rw [setC_eq path2 cum2.size _ (by omega)]
  simp only [ok_bind]
  exact ⟨_, _, rfl, by simp, by simp⟩

theorem calculateLength_ok (path : Array (Pos S)) (expected : Option D) (optimized : D) :
    ∃ path' lens, calculateLength A path expected optimized = .ok (path', lens) ∧
      path'.size ≤ lens.size ∧ 1 ≤ lens.size ∧ path'.size ≤ path.size := by
  unfold calculateLength
  have hlen := cumLengths_length A optimized path.toList
  rcases hc : cumLengths A optimized path.toList with ⟨ls, calcd⟩
  rw [hc] at hlen
  simp only [Array.length_toList] at hlen
  simp only []
  have hcum : ((A.dOfInt 0 :: ls).toArray).size = ls.length + 1 := by simp
  generalize (A.dOfInt 0 :: ls).toArray = cum at hcum ⊢
  cases expected with
  | none => exact ⟨_, _, rfl, by omega, by omega, Nat.le_refl _⟩
  | some e =>
    simp only []
    split
    · exact ⟨_, _, rfl, by omega, by omega, Nat.le_refl _⟩
    · -- the `match` inside `lastTwoEqual`: both alternatives continue in the same way
      split
      all_goals (
        split
        · exact ⟨_, _, rfl, by simp only [Array.size_push]; omega,
            by simp only [Array.size_push]; omega, Nat.le_refl _⟩
        · split
          · exact ⟨_, _, rfl, by omega, by omega, Nat.le_refl _⟩
          · rename_i hne1
            have hlv := lastValid_le A e cum.pop
            have hpop : cum.pop.size = cum.size - 1 := Array.size_pop
            generalize lastValid A e cum.pop = lv at hlv ⊢
            by_cases ht : lv < cum.pop.size
            · simp only [ht, decide_true, ↓reduceIte, Bool.true_and]
              split
              · rename_i hz
                refine ⟨_, _, rfl, ?_, ?_, ?_⟩
                · simp only [decide_eq_true_eq, Array.size_extract] at hz ⊢
                  simp only [List.size_toArray, List.length_cons, List.length_nil]
                  omega
                · simp
                · simp only [Array.size_extract]; omega
              · rename_i hz
                simp only [decide_eq_true_eq, Array.size_extract] at hz
                obtain ⟨p', l', he, hp, hl⟩ := calcTail_ok A (path.extract 0 (lv + 1))
                  (cum.pop.extract 0 lv) e (by simp only [Array.size_extract]; omega)
                  (by simp only [Array.size_extract]; omega)
                refine ⟨p', l', he, ?_, ?_, ?_⟩
                · simp only [Array.size_extract] at hp hl; omega
                · omega
                · simp only [Array.size_extract] at hp; omega
            · simp only [ht, decide_false, Bool.false_and, Bool.false_eq_true, ↓reduceIte]
              obtain ⟨p', l', he, hp, hl⟩ := calcTail_ok A path cum.pop e (by omega) (by omega)
              exact ⟨p', l', he, by omega, by omega, by omega⟩)

theorem curveNew_safe (fuel : Nat) (isOsu : Bool) (pts : Array (CP S)) (expected : Option D)
    (prev : Array (Pos S)) (bez : Bez S) (hb : BezWF bez) :
    Safe (curveNew A fuel isOsu pts expected prev bez)
      (fun r => r.1.path.size ≤ r.1.lengths.size ∧ 1 ≤ r.1.lengths.size ∧ BezWF r.2) := by
  unfold curveNew
  refine Safe.bind (calculatePath_safe A fuel isOsu pts
    { path := prev, optimized := A.dOfInt 0, bez := bez } hb) ?_
  intro st _ hw
  obtain ⟨p', l', he, h1, h2, _⟩ := calculateLength_ok A st.path expected st.optimized
  rw [he]
  exact ⟨h1, h2, hw⟩

/-- ★ `Curve::new` / `BorrowedCurve::new` never panics. -/
theorem curveNew_noPanic (fuel : Nat) (isOsu : Bool) (pts : Array (CP S)) (expected : Option D)
    (prev : Array (Pos S)) (bez : Bez S) (hb : BezWF bez) :
    NoPanic (curveNew A fuel isOsu pts expected prev bez) :=
  (curveNew_safe A fuel isOsu pts expected prev bez hb).noPanic

/-- ★ What `Curve::new` returns: at least as many lengths as vertices, at least one length, and
well-formed bezier buffers. -/
theorem curveNew_sizes (fuel : Nat) (isOsu : Bool) (pts : Array (CP S)) (expected : Option D)
    (prev : Array (Pos S)) (bez : Bez S) (hb : BezWF bez) (c : Curve S D) (b' : Bez S)
    (h : curveNew A fuel isOsu pts expected prev bez = .ok (c, b')) :
    c.path.size ≤ c.lengths.size ∧ 1 ≤ c.lengths.size ∧ BezWF b' :=
  (curveNew_safe A fuel isOsu pts expected prev bez hb).post h

end

end Rosu.Curve
