import RosuModel.Model.ConvOsu
import RosuModel.Model.Gradual
import RosuModel.Lemmas.StackingFull
import RosuModel.Lemmas.GradualOsu

/-!
Structure of osu! `convert_objects` (core Lean): it is total, converts EVERY object (the `take`
only limits the counting), keeps order, kinds and start times, and its counts are the counts of
the abstract model of C14 (`Model/Gradual.lean`) on the per-object summaries.
-/
namespace Rosu.ConvOsu
open Rosu.Gradual

variable {R S : Type}

/-- what the counting code of C14 reads of an object -/
def summary (o : Obj R S) : OsuObj :=
  match o.kind with
  | .circle => ⟨.circle, 0, 0⟩
  | .slider s => ⟨.slider, (s.nested.filter (fun n => n.kind = 2 ∨ n.kind = 0)).length, s.nested.length⟩
  | .spinner _ => ⟨.spinner, 0, 0⟩

def Counts.toG (c : Counts) : OsuCounts := ⟨c.maxCombo, c.nCircles, c.nSliders, c.nLargeTicks, c.nSpinners⟩

theorem countOne_toG (c : Counts) (o : Obj R S) : (countOne c o).toG = c.toG.incr (summary o) := by
  obtain ⟨pos, start, sh, so, kind⟩ := o
  cases kind <;> rfl

theorem countTake_eq_prefix : ∀ (take : Nat) (objs : List (Obj R S)) (c : Counts),
    countTake take objs c = (objs.take take).foldl countOne c := by
  intro take objs
  induction objs generalizing take with
  | nil => intro c; cases take <;> rfl
  | cons o os ih =>
    intro c
    cases take with
    | zero => rfl
    | succ t => simp only [countTake, List.take_succ_cons, List.foldl_cons]; exact ih t _

theorem foldl_countOne_toG (l : List (Obj R S)) (c : Counts) :
    (l.foldl countOne c).toG = (l.map summary).foldl OsuCounts.incr c.toG := by
  induction l generalizing c with
  | nil => rfl
  | cons o os ih => simp only [List.foldl_cons, List.map_cons]; rw [ih, countOne_toG]

/-- the counts of `convert_objects` are C14's `osuConvertCount` on the summaries -/
theorem countTake_toG (take : Nat) (objs : List (Obj R S)) :
    (countTake take objs Counts.zero).toG = osuConvertCount (objs.map summary) take := by
  rw [countTake_eq_prefix, foldl_countOne_toG, osuConvertCount_eq_prefix, List.map_take]
  rfl

theorem kindTag_reflect (A : Ar R S) (m : Nat) (o : Obj R S) :
    kindTag (reflectObj A m o).kind = kindTag o.kind ∧ (reflectObj A m o).start = o.start := by
  obtain ⟨pos, start, sh, so, kind⟩ := o
  cases kind <;> exact ⟨rfl, rfl⟩

theorem kindTag_applyStack (A : Ar R S) (sc : S) (o : Obj R S) (h : Int) :
    kindTag (applyStack A sc o h).kind = kindTag o.kind ∧ (applyStack A sc o h).start = o.start := by
  obtain ⟨pos, start, sh, so, kind⟩ := o
  cases kind <;> exact ⟨rfl, rfl⟩

theorem kindTag_computeCursor (A : Ar R S) (r : R) (o : Obj R S) :
    kindTag (computeCursor A r o).kind = kindTag o.kind ∧ (computeCursor A r o).start = o.start ∧
    (computeCursor A r o).pos = o.pos ∧ (computeCursor A r o).stackHeight = o.stackHeight := by
  obtain ⟨pos, start, sh, so, kind⟩ := o
  cases kind <;> exact ⟨rfl, rfl, rfl, rfl⟩

theorem map_zip_map {α β γ δ : Type} (f : α × β → γ) (g : γ → δ) (g' : α → δ)
    (hfg : ∀ a b, g (f (a, b)) = g' a) :
    ∀ (l : List α) (hs : List β), hs.length = l.length → ((l.zip hs).map f).map g = l.map g' := by
  intro l
  induction l with
  | nil => intro hs _; rfl
  | cons a l ih =>
    intro hs hl
    cases hs with
    | nil => cases hl
    | cons b hs =>
      simp only [List.zip_cons_cons, List.map_cons, hfg]
      rw [ih hs (by simpa using hl)]

/-- **`convert_objects` is total and structure-preserving** (any arithmetic, any stacking
threshold, both stacking passes). -/
theorem convertObjects_spec (A : Ar R S) (scale : S) (refl : Nat) (tp sl : R) (version take : Nat)
    (objs : List (Obj R S)) (c : Counts) :
    ∃ os, convertObjects A scale refl tp sl version take objs c = some (os, countTake take objs c) ∧
      os.length = objs.length ∧
      os.map (fun o => kindTag o.kind) = objs.map (fun o => kindTag o.kind) ∧
      os.map (·.start) = objs.map (·.start) := by
  unfold convertObjects
  simp only
  have hlen : ((objs.map (reflectObj A refl)).map (toSObj A)).length = objs.length := by simp
  have hst : ∃ hs, (if version ≥ 6 then Rosu.Stack.stacking (stackArith A) (A.mulR tp sl)
        ((objs.map (reflectObj A refl)).map (toSObj A))
      else Rosu.Stack.oldStacking (stackArith A) (A.mulR tp sl) ((objs.map (reflectObj A refl)).map (toSObj A)))
      = some hs ∧ hs.length = objs.length := by
    split
    · obtain ⟨h, h1, h2⟩ := Rosu.Stack.stacking_ok (stackArith A) (A.mulR tp sl)
        ((objs.map (reflectObj A refl)).map (toSObj A))
      exact ⟨h, h1, by rw [h2, hlen]⟩
    · obtain ⟨h, h1, h2⟩ := Rosu.Stack.oldStacking_ok (stackArith A) (A.mulR tp sl)
        ((objs.map (reflectObj A refl)).map (toSObj A))
      exact ⟨h, h1, by rw [h2, hlen]⟩
  obtain ⟨hs, hh, hl⟩ := hst
  rw [hh]
  have hl' : hs.length = (objs.map (reflectObj A refl)).length := by simp [hl]
  refine ⟨_, rfl, ?_, ?_, ?_⟩
  · simp [hl]
  · rw [map_zip_map (fun p => applyStack A scale p.1 p.2) (fun o => kindTag o.kind)
      (fun o => kindTag o.kind) (fun a b => (kindTag_applyStack A scale a b).1) _ _ hl', List.map_map]
    apply List.map_congr_left
    intro o _
    exact (kindTag_reflect A refl o).1
  · rw [map_zip_map (fun p => applyStack A scale p.1 p.2) (·.start) (·.start)
      (fun a b => (kindTag_applyStack A scale a b).2) _ _ hl', List.map_map]
    apply List.map_congr_left
    intro o _
    exact (kindTag_reflect A refl o).2

/-- …and so is the whole preparation (`convert_objects` + `compute_slider_cursor_pos`) -/
theorem prepare_spec (A : Ar R S) (cs ar clock sl : R) (refl version take : Nat) (objs : List (Obj R S)) :
    ∃ os c sc tp, prepare A cs ar clock sl refl version take objs = some (os, c, sc, tp) ∧
      os.length = objs.length ∧
      os.map (fun o => kindTag o.kind) = objs.map (fun o => kindTag o.kind) ∧
      os.map (·.start) = objs.map (·.start) ∧
      c.toG = osuConvertCount (objs.map summary) take := by
  unfold prepare
  simp only
  obtain ⟨os, h, h1, h2, h3⟩ := convertObjects_spec A (scalingNew A cs).scale refl (timePreempt A ar clock) sl
    version take objs Counts.zero
  rw [h]
  refine ⟨_, _, _, _, rfl, by simpa using h1, ?_, ?_, countTake_toG take objs⟩
  · rw [List.map_map, ← h2]
    apply List.map_congr_left
    intro o _
    exact (kindTag_computeCursor A _ o).1
  · rw [List.map_map, ← h3]
    apply List.map_congr_left
    intro o _
    exact (kindTag_computeCursor A _ o).2.1

/-! ## `lazy_travel_time`: the nested objects are only re-ordered -/

theorem rotateFrom_perm {α : Type} (l : List α) (idx : Nat) : (rotateFrom l idx).Perm l := by
  unfold rotateFrom
  split
  · exact List.Perm.refl _
  · rename_i x rest hd
    have : l = l.take idx ++ (x :: rest) := by rw [← hd, List.take_append_drop]
    conv => rhs; rw [this]
    rw [List.append_assoc]
    exact List.Perm.append_left _ (List.perm_append_singleton x rest)

theorem lazyTravelTime_perm (A : Ar R S) (start dur : R) (nested : List (Nested R S)) :
    (lazyTravelTime A start dur nested).2.Perm nested := by
  unfold lazyTravelTime
  simp only
  split
  · exact List.Perm.refl _
  · split
    · exact List.Perm.refl _
    · split
      · exact rotateFrom_perm _ _
      · exact List.Perm.refl _

end Rosu.ConvOsu
