import RosuModel.Model.Gradual

/-! Helper lemmas for the osu!standard gradual model. -/

namespace Rosu.Gradual

variable {S : Type}

theorem processFrom_add (sk : Skills S) (s : S) (lo a b : Nat) :
    processFrom sk s lo (a + b) = processFrom sk (processFrom sk s lo a) (lo + a) b := by
  induction a generalizing s lo with
  | zero => simp [processFrom]
  | succ a ih =>
    have : a + 1 + b = (a + b) + 1 := by omega
    rw [this]
    simp only [processFrom]
    rw [ih]
    congr 1
    omega

theorem processFrom_succ (sk : Skills S) (s : S) (lo k : Nat) :
    processFrom sk s lo (k + 1) = sk.process (processFrom sk s lo k) (lo + k) := by
  rw [processFrom_add]
  simp [processFrom]

theorem processedPrefix_succ (sk : Skills S) (k : Nat) :
    processedPrefix sk (k + 1) = sk.process (processedPrefix sk k) k := by
  unfold processedPrefix
  rw [processFrom_succ]
  simp

theorem processedPrefix_add (sk : Skills S) (a b : Nat) :
    processedPrefix sk (a + b) = processFrom sk (processedPrefix sk a) a b := by
  unfold processedPrefix
  rw [processFrom_add]
  simp

/-- Counts of the first `k` objects. -/
def osuPrefixCounts (objs : List OsuObj) (k : Nat) : OsuCounts :=
  (objs.take k).foldl OsuCounts.incr OsuCounts.zero

theorem osuConvert_fold (objs : List OsuObj) (take : Nat) (c : OsuCounts) :
    objs.foldl osuConvertStep (take, c) =
      (take - objs.length, (objs.take take).foldl OsuCounts.incr c) := by
  induction objs generalizing take c with
  | nil => simp
  | cons h t ih =>
    cases take with
    | zero =>
      simp only [List.foldl_cons, osuConvertStep]
      simp only [↓reduceIte]
      rw [ih]
      simp
    | succ k =>
      simp only [List.foldl_cons, osuConvertStep]
      have : ¬ (k + 1 = 0) := by omega
      simp only [this, ↓reduceIte, Nat.add_sub_cancel]
      rw [ih]
      simp

theorem osuConvertCount_eq_prefix (objs : List OsuObj) (take : Nat) :
    osuConvertCount objs take = osuPrefixCounts objs take := by
  unfold osuConvertCount osuPrefixCounts
  rw [osuConvert_fold]

theorem osuPrefixCounts_succ (objs : List OsuObj) (k : Nat) (h : OsuObj)
    (hk : objs[k]? = some h) :
    osuPrefixCounts objs (k + 1) = (osuPrefixCounts objs k).incr h := by
  unfold osuPrefixCounts
  rw [List.take_add_one, hk]
  simp [List.foldl_append]

theorem osuPrefixCounts_ge (objs : List OsuObj) (k : Nat) (hk : objs.length ≤ k) :
    osuPrefixCounts objs k = osuPrefixCounts objs objs.length := by
  unfold osuPrefixCounts
  rw [List.take_of_length_le hk, List.take_of_length_le (Nat.le_refl _)]

theorem tail_getElem? {α} (l : List α) (i : Nat) : l.tail[i]? = l[i + 1]? := by
  cases l <;> simp

/-- The canonical state after `i` values have been produced. -/
structure OsuCanon (sk : Skills S) (objs : List OsuObj) (g : OsuGrad S) (i : Nat) : Prop where
  idx : g.idx = i
  counts : g.counts = osuPrefixCounts objs (max i 1)
  skills : g.skills = processedPrefix sk (i - 1)
  le : i ≤ objs.length

theorem osuNew_canon (sk : Skills S) (objs : List OsuObj) : OsuCanon sk objs (osuNew sk objs) 0 := by
  refine ⟨rfl, ?_, rfl, Nat.zero_le _⟩
  cases objs with
  | nil => simp [osuNew, osuPrefixCounts]
  | cons h t => simp [osuNew, osuPrefixCounts]

/-- The value reported after `i ≥ 1` objects. -/
def osuValue (sk : Skills S) (objs : List OsuObj) (i : Nat) : OsuCounts × S :=
  (osuPrefixCounts objs i, processedPrefix sk (i - 1))

theorem osuNext_spec (sk : Skills S) (objs : List OsuObj) (g : OsuGrad S) (i : Nat)
    (hc : OsuCanon sk objs g i) :
    (i < objs.length →
      (osuNext sk objs g).1 = some (osuValue sk objs (i + 1)) ∧
      OsuCanon sk objs (osuNext sk objs g).2 (i + 1)) ∧
    (i = objs.length → osuNext sk objs g = (none, g)) := by
  obtain ⟨hidx, hcnt, hsk, hle⟩ := hc
  constructor
  · intro hlt
    cases i with
    | zero =>
      have hne : objs.isEmpty = false := by
        cases objs with
        | nil => simp at hlt
        | cons _ _ => rfl
      simp only [osuNext, hidx, Nat.lt_irrefl, ↓reduceIte, hne, Bool.false_eq_true]
      refine ⟨?_, ⟨by simp [hidx], ?_, ?_, by omega⟩⟩
      · simp [osuValue, hcnt, hsk]
      · simp [hcnt]
      · simp [hsk]
    | succ j =>
      have hget : objs.tail[j]? = objs[j + 1]? := tail_getElem? objs j
      obtain ⟨base, hbase⟩ : ∃ b, objs[j + 1]? = some b := by
        rw [List.getElem?_eq_getElem hlt]; exact ⟨_, rfl⟩
      have hpos : g.idx > 0 := by omega
      simp only [osuNext, hidx, Nat.add_sub_cancel, hget, hbase, gt_iff_lt, Nat.zero_lt_succ, ↓reduceIte]
      have hc1 : max (j + 1) 1 = j + 1 := by omega
      have hc2 : max (j + 1 + 1) 1 = j + 1 + 1 := by omega
      refine ⟨?_, ⟨rfl, ?_, ?_, by omega⟩⟩
      · simp only [osuValue, hcnt, hsk, hc1, Nat.add_sub_cancel]
        rw [osuPrefixCounts_succ objs (j + 1) base hbase, processedPrefix_succ]
      · simp only [hcnt, hc1, hc2]
        rw [osuPrefixCounts_succ objs (j + 1) base hbase]
      · simp only [hsk, Nat.add_sub_cancel]
        rw [processedPrefix_succ]
  · intro heq
    cases i with
    | zero =>
      have hne : objs.isEmpty = true := by
        cases objs with
        | nil => rfl
        | cons _ _ => simp at heq
      simp [osuNext, hidx, hne]
    | succ j =>
      have hget : objs.tail[j]? = none := by
        rw [tail_getElem?]; simp; omega
      have hpos : g.idx > 0 := by omega
      simp [osuNext, hpos, hidx, hget]

theorem osuLen_spec (sk : Skills S) (objs : List OsuObj) (g : OsuGrad S) (i : Nat)
    (hc : OsuCanon sk objs g i) : osuLen objs g = some (objs.length - i) := by
  obtain ⟨hidx, _, _, hle⟩ := hc
  unfold osuLen csub
  cases objs with
  | nil => simp at hle; simp [hidx, hle]
  | cons h t =>
    simp only [List.tail_cons, List.isEmpty_cons, Bool.false_eq_true, ↓reduceIte, hidx,
      List.length_cons] at *
    simp [hle]

theorem osuNthLoop_spec (sk : Skills S) (objs : List OsuObj) (k : Nat) (g : OsuGrad S) (i : Nat)
    (hc : OsuCanon sk objs g i) (hi : 1 ≤ i) :
    OsuCanon sk objs (osuNthLoop sk objs.tail k (i - 1) g) (i + min k (objs.length - i)) := by
  induction k generalizing g i with
  | zero => simpa [osuNthLoop] using hc
  | succ k ih =>
    obtain ⟨hidx, hcnt, hsk, hle⟩ := hc
    unfold osuNthLoop
    rw [tail_getElem?]
    have hi1 : i - 1 + 1 = i := by omega
    rw [hi1]
    by_cases hlt : i < objs.length
    · obtain ⟨base, hbase⟩ : ∃ b, objs[i]? = some b := by
        rw [List.getElem?_eq_getElem hlt]; exact ⟨_, rfl⟩
      simp only [hbase]
      have hmax : max i 1 = i := by omega
      have hmax' : max (i + 1) 1 = i + 1 := by omega
      have := ih { idx := g.idx + 1, counts := g.counts.incr base, skills := sk.process g.skills (i - 1) }
        (i + 1) ⟨by simp [hidx], by
          simp only [hcnt, hmax, hmax']
          rw [osuPrefixCounts_succ objs i base hbase], by
          simp only [hsk, Nat.add_sub_cancel]
          have : i = (i - 1) + 1 := by omega
          conv => rhs; rw [this]
          rw [processedPrefix_succ], by omega⟩ (by omega)
      simp only [Nat.add_sub_cancel] at this
      have e : i + 1 + min k (objs.length - (i + 1)) = i + min (k + 1) (objs.length - i) := by omega
      rw [e] at this
      exact this
    · have : objs[i]? = none := by simp; omega
      simp only [this]
      have e : i + min (k + 1) (objs.length - i) = i := by omega
      rw [e]
      exact ⟨hidx, hcnt, hsk, hle⟩

end Rosu.Gradual

namespace Rosu.Gradual

variable {S : Type}

theorem osuCanon_zero_one (sk : Skills S) (objs : List OsuObj) (g : OsuGrad S)
    (hc : OsuCanon sk objs g 0) (hn : 0 < objs.length) :
    OsuCanon sk objs { g with idx := g.idx + 1 } 1 := by
  obtain ⟨hidx, hcnt, hsk, _⟩ := hc
  exact ⟨by simp [hidx], by simpa using hcnt, by simpa using hsk, hn⟩

/-- State reached by the skipping part of `nth` (before its final `next`). -/
theorem osuNth_pre (sk : Skills S) (objs : List OsuObj) (g : OsuGrad S) (i k : Nat)
    (hc : OsuCanon sk objs g i) :
    let take := min k (objs.length - i)
    let p := if g.idx = 0 ∧ take > 0 then (({ g with idx := g.idx + 1 } : OsuGrad S), take - 1) else (g, take)
    OsuCanon sk objs (osuNthLoop sk objs.tail p.2 (g.idx - 1) p.1) (i + take) := by
  intro take p
  have hidx := hc.idx
  by_cases h0 : g.idx = 0 ∧ take > 0
  · have hi0 : i = 0 := by omega
    subst hi0
    have hn : 0 < objs.length := by
      have : take ≤ objs.length - 0 := Nat.min_le_right _ _
      omega
    have hp : p = (({ g with idx := g.idx + 1 } : OsuGrad S), take - 1) := by
      simp only [p, h0, and_self, ↓reduceIte]
    rw [hp]
    have h1 := osuNthLoop_spec sk objs (take - 1) _ 1 (osuCanon_zero_one sk objs g hc hn) (Nat.le_refl _)
    have e : 1 + min (take - 1) (objs.length - 1) = 0 + take := by
      have : take ≤ objs.length - 0 := Nat.min_le_right _ _
      omega
    rw [e] at h1
    simpa [h0.1] using h1
  · have hp : p = (g, take) := by
      simp only [p, h0, ↓reduceIte]
    rw [hp]
    by_cases hi : 1 ≤ i
    · have h1 := osuNthLoop_spec sk objs take g i hc hi
      have e : i + min take (objs.length - i) = i + take := by
        have : take ≤ objs.length - i := Nat.min_le_right _ _
        omega
      rw [e] at h1
      simpa [hidx] using h1
    · have hi0 : i = 0 := by omega
      subst hi0
      have ht : take = 0 := by
        have : ¬ (take > 0) := fun h => h0 ⟨hidx, h⟩
        omega
      simp only [ht, osuNthLoop]
      simpa using hc

/-- `nth k` from the canonical state after `i` values (as fixed): with more than `k` values
remaining it returns the value number `i + k + 1`; otherwise it consumes everything that remains and
returns `None`, leaving the exhausted state. -/
theorem osuNth_spec (sk : Skills S) (objs : List OsuObj) (g : OsuGrad S) (i k : Nat)
    (hc : OsuCanon sk objs g i) :
    (i + k < objs.length →
      (osuNth sk objs g k).1 = .some (osuValue sk objs (i + k + 1)) ∧
        OsuCanon sk objs (osuNth sk objs g k).2 (i + k + 1)) ∧
    (objs.length ≤ i + k → (osuNth sk objs g k).1 = .none ∧
        OsuCanon sk objs (osuNth sk objs g k).2 objs.length) := by
  have hlen := osuLen_spec sk objs g i hc
  have hpre := osuNth_pre sk objs g i k hc
  have hle := hc.le
  simp only at hpre
  constructor
  · intro hlt
    have e : i + min k (objs.length - i) = i + k := by omega
    rw [e] at hpre
    have hn := (osuNext_spec sk objs _ _ hpre).1 hlt
    unfold osuNth
    simp only [hlen]
    split
    · rename_i v g3 heq
      rw [heq] at hn
      simp only at hn
      refine ⟨?_, hn.2⟩
      simp only [Option.some.injEq] at hn
      rw [hn.1]
    · rename_i g3 heq
      rw [heq] at hn
      simp at hn
  · intro hge
    have e : i + min k (objs.length - i) = objs.length := by omega
    rw [e] at hpre
    have hn := (osuNext_spec sk objs _ _ hpre).2 rfl
    unfold osuNth
    simp only [hlen]
    rw [hn]
    exact ⟨rfl, hpre⟩

end Rosu.Gradual

namespace Rosu.Gradual

variable {S : Type}

/-- From a canonical state, `k ≤ remaining` calls of `next` yield the next `k` values. -/
theorem osu_nexts_spec (sk : Skills S) (objs : List OsuObj) (k : Nat) (g : OsuGrad S) (i : Nat)
    (hc : OsuCanon sk objs g i) (hk : i + k ≤ objs.length) :
    ((osuMachine sk objs).nexts g k).1 = (List.range k).map (fun d => Res.some (osuValue sk objs (i + d + 1))) ∧
    OsuCanon sk objs ((osuMachine sk objs).nexts g k).2 (i + k) := by
  induction k generalizing g i with
  | zero => simpa [Machine.nexts] using hc
  | succ k ih =>
    have hlt : i < objs.length := by omega
    obtain ⟨hv, hc'⟩ := (osuNext_spec sk objs g i hc).1 hlt
    have ih' := ih _ (i + 1) hc' (by omega)
    simp only [Machine.nexts]
    have hn : (osuMachine sk objs).next g = (Res.some (osuValue sk objs (i + 1)), (osuNext sk objs g).2) := by
      simp [osuMachine, hv, optToRes]
    rw [hn]
    refine ⟨?_, ?_⟩
    · simp only
      rw [ih'.1, List.range_succ_eq_map]
      simp only [List.map_cons, List.map_map, Nat.add_zero]
      congr 1
      apply List.map_congr_left
      intro d _
      simp only [Function.comp]
      congr 2
      omega
    · have e : i + (k + 1) = i + 1 + k := by omega
      rw [e]; exact ih'.2


theorem osuMachine_next_exhausted (sk : Skills S) (objs : List OsuObj) (g : OsuGrad S)
    (hc : OsuCanon sk objs g objs.length) : (osuMachine sk objs).next g = (.none, g) := by
  have := (osuNext_spec sk objs g _ hc).2 rfl
  show (optToRes (osuNext sk objs g).1, (osuNext sk objs g).2) = _
  rw [this]; rfl

end Rosu.Gradual
