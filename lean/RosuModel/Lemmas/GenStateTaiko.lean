import RosuModel.Lemmas.GenStateBasic

/-! C12 lemmas for the taiko generator, for every `NumOps` instance. -/
namespace Rosu.GenState
set_option linter.unusedSectionVars false

variable {R : Type} [NumOps R]

theorem taikoSearch_inv (acc : R) (total nRem misses : Nat) :
    SearchInv (R := R) (0, 0) (fun v => v.1 + v.2 = nRem) (taikoSearch acc total nRem misses) := by
  unfold taikoSearch
  apply foldl_inv
  · exact ⟨rfl, Or.inl ⟨rfl, rfl⟩⟩
  · intro a x hx ha
    have hx' := mem_rangeIncl hx
    have hle : x ≤ nRem := by omega
    apply searchInv_step _ _ _ _ _ _ ha
    · simpa using hle
    · show x + (nRem - x) = nRem
      omega

/-- Everything the C12 clauses need to know about the hit-result part. -/
structure TaikoHitsSpec (b : TaikoB R) (total misses : Nat) (h : Nat × Nat × Bool × Bool) : Prop where
  ok : h.2.2.2 = true
  le300 : h.1 ≤ total - misses
  le100 : h.2.1 ≤ total - misses
  /-- after an accepted search (or without search) the results fill the judgements -/
  sum_ge : h.2.2.1 = true → total ≤ h.1 + h.2.1 + misses
  sum_eq : h.2.2.1 = true → b.n300.getD 0 + b.n100.getD 0 + misses ≤ total → h.1 + h.2.1 + misses = total
  keep300 : h.2.2.1 = true → ∀ n, b.n300 = some n → n + b.n100.getD 0 + misses ≤ total →
    (b.n100 = none ∨ n + b.n100.getD 0 + misses = total) → h.1 = n
  keep100 : h.2.2.1 = true → ∀ n, b.n100 = some n → b.n300.getD 0 + n + misses ≤ total →
    (b.n300 = none ∨ b.n300.getD 0 + n + misses = total) → h.2.1 = n

theorem taikoHitResults_spec (prio : Prio) (b : TaikoB R) (total misses : Nat) (hm : misses ≤ total) :
    TaikoHitsSpec b total misses (taikoHitResults prio b total misses) := by
  unfold taikoHitResults
  rcases hacc : b.acc with _ | acc
  · rcases h3 : b.n300 with _ | n3 <;> rcases h1 : b.n100 with _ | n1 <;> cases prio <;>
      (constructor <;> simp [h3, h1] <;> omega)
  · rcases h3 : b.n300 with _ | n3 <;> rcases h1 : b.n100 with _ | n1
    · have hs := taikoSearch_inv acc total (total - misses) misses
      obtain ⟨hok, hcase⟩ := hs
      simp only [optMin_none]
      constructor <;> simp only [hok, h3, h1, Option.getD_none] <;> rcases hcase with ⟨hh, hv⟩ | ⟨hh, hv⟩ <;>
        first
          | omega
          | (simp [hh, hv]; done)
          | (simp [hh, hv] <;> omega)
    all_goals (cases prio <;> (constructor <;> simp [h3, h1] <;> omega))

/-- The branch the second call takes: every result provided. -/
theorem taikoHitResults_all_given (prio : Prio) (b : TaikoB R) (total misses x y : Nat)
    (h3 : b.n300 = some x) (h1 : b.n100 = some y) (hx : x ≤ total - misses) (hy : y ≤ total - misses)
    (hsum : total ≤ x + y + misses) :
    taikoHitResults prio b total misses = (x, y, true, true) := by
  unfold taikoHitResults
  have e1 : min x (total - misses) = x := by omega
  have e2 : min y (total - misses) = y := by omega
  have e3 : total - (x + y + misses) = 0 := by omega
  rcases hacc : b.acc with _ | acc <;> cases prio <;> simp [h3, h1, e1, e2, e3]

/-- the raw generator as a function of the spec'd hit results -/
theorem taikoGenRaw_eq (c : TaikoCfg) (b : TaikoB R) :
    taikoGenRaw c b =
      (let total := min (passedU32 c.passed) c.maxCombo
       let misses := optMin b.misses total
       let h := taikoHitResults c.prio b total misses
       { state := { maxCombo := optMinOr b.combo (c.maxCombo - misses), n300 := h.1, n100 := h.2.1,
                    misses := misses },
         accepted := h.2.2.1, ok := decide (misses ≤ total) && h.2.2.2 }) := rfl

/-- The second call (every field provided, consistent values) returns the provided values. -/
theorem taikoGenRaw_all_given (c : TaikoCfg) (b : TaikoB R) (k x y m : Nat)
    (hc : b.combo = some k) (h3 : b.n300 = some x) (h1 : b.n100 = some y) (hm : b.misses = some m)
    (hmle : m ≤ min (passedU32 c.passed) c.maxCombo)
    (hx : x ≤ min (passedU32 c.passed) c.maxCombo - m) (hy : y ≤ min (passedU32 c.passed) c.maxCombo - m)
    (hsum : min (passedU32 c.passed) c.maxCombo ≤ x + y + m) (hk : k ≤ c.maxCombo - m) :
    taikoGenRaw c b = { state := { maxCombo := k, n300 := x, n100 := y, misses := m },
                        accepted := true, ok := true } := by
  rw [taikoGenRaw_eq]
  have e : min m (min (passedU32 c.passed) c.maxCombo) = m := by omega
  have e2 : min k (c.maxCombo - m) = k := by omega
  simp only [hc, hm, optMin_some, optMinOr_some, e, e2]
  rw [taikoHitResults_all_given c.prio b _ m x y h3 h1 hx hy hsum]
  simp [hmle]

end Rosu.GenState
