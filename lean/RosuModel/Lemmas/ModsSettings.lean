import RosuModel.Lemmas.ModsAccessors
import RosuModel.Lemmas.ModsRef

/-! Lemmas about the accessors of `Model/Mods.lean` that read *settings* of lazer mods
(`reflection`, `no_slider_head_acc`, `hardrock_offsets`, `scroll_speed`, `random_seed`) on lazer sets
in iteration order (`LSorted`: strictly increasing `(kind, acronym)` position, as the `BTreeMap` of a
single-mode `rosu_mods::GameMods` yields them). -/
namespace Rosu.Mods
open Rosu.Gen.Mods

/-- iteration order of a single-mode lazer set: strictly increasing position in `orderAll`
(hence at most one mod per kind) -/
def LSorted {R : Type} (l : List (LMod R)) : Prop :=
  l.Pairwise (fun a b => orderIdx a.kind < orderIdx b.kind)

/-- the mod of kind `k` of a lazer set -/
def getK {R : Type} (l : List (LMod R)) (k : IMod) : Option (LMod R) := l.find? (fun m => m.kind == k)

theorem getK_none_of_lt {R : Type} (l : List (LMod R)) (a : LMod R) (k : IMod)
    (h : ∀ m ∈ l, orderIdx a.kind < orderIdx m.kind) (hk : orderIdx k ≤ orderIdx a.kind) : getK l k = none := by
  unfold getK
  rw [List.find?_eq_none]
  intro m hm hmk
  have := h m hm
  simp only [beq_iff_eq] at hmk
  rw [hmk] at this
  omega

/-- a closure that only answers for mods of kind `k`: on a set in iteration order `find_map` is
"look the mod of kind `k` up, then ask it" -/
theorem findSome?_gated {R α : Type} (l : List (LMod R)) (k : IMod) (f : LMod R → Option α)
    (hs : LSorted l) (hf : ∀ m, m.kind ≠ k → f m = none) :
    l.findSome? f = (getK l k).bind f := by
  induction l with
  | nil => rfl
  | cons a l ih =>
    have hs' := List.pairwise_cons.mp hs
    rw [List.findSome?_cons]
    by_cases hak : a.kind = k
    · have hg : getK (a :: l) k = some a := by simp [getK, hak]
      rw [hg]
      cases hfa : f a with
      | some v => simp [hfa]
      | none =>
        simp only [Option.bind_some, hfa]
        apply findSome?_eq_none_of
        intro m hm
        apply hf
        intro e
        have := hs'.1 m hm
        rw [hak, e] at this
        omega
    · have hg : getK (a :: l) k = getK l k := by simp [getK, hak]
      rw [hf a hak, hg]
      exact ih hs'.2

/-- a closure that answers for two kinds, `k1` before `k2` in iteration order -/
theorem findSome?_gated2 {R α : Type} (l : List (LMod R)) (k1 k2 : IMod) (f : LMod R → Option α)
    (hs : LSorted l) (hlt : orderIdx k1 < orderIdx k2)
    (hf : ∀ m, m.kind ≠ k1 → m.kind ≠ k2 → f m = none) :
    l.findSome? f = ((getK l k1).bind f).or ((getK l k2).bind f) := by
  induction l with
  | nil => rfl
  | cons a l ih =>
    have hs' := List.pairwise_cons.mp hs
    rw [List.findSome?_cons]
    by_cases h1 : a.kind = k1
    · have hne : a.kind ≠ k2 := by intro e; rw [h1] at e; rw [e] at hlt; omega
      have hg1 : getK (a :: l) k1 = some a := by simp [getK, h1]
      have hg2 : getK (a :: l) k2 = getK l k2 := by simp [getK, hne]
      have hn1 : getK l k1 = none :=
        getK_none_of_lt l a k1 hs'.1 (by rw [h1])
      rw [hg1, hg2]
      cases hfa : f a with
      | some v => simp [hfa]
      | none =>
        simp only [Option.bind_some, hfa, Option.none_or]
        rw [ih hs'.2, hn1]
        rfl
    · by_cases h2 : a.kind = k2
      · have hg1 : getK (a :: l) k1 = none := by
          have : getK (a :: l) k1 = getK l k1 := by simp [getK, h1]
          rw [this]
          exact getK_none_of_lt l a k1 hs'.1 (by rw [h2]; omega)
        have hg2 : getK (a :: l) k2 = some a := by simp [getK, h2]
        have hn1 : getK l k1 = none := getK_none_of_lt l a k1 hs'.1 (by rw [h2]; omega)
        have hn2 : getK l k2 = none := getK_none_of_lt l a k2 hs'.1 (by rw [h2])
        rw [hg1, hg2]
        cases hfa : f a with
        | some v => simp [hfa]
        | none =>
          simp only [Option.bind_none, Option.bind_some, hfa, Option.none_or]
          rw [ih hs'.2, hn1, hn2]
          rfl
      · have hg1 : getK (a :: l) k1 = getK l k1 := by simp [getK, h1]
        have hg2 : getK (a :: l) k2 = getK l k2 := by simp [getK, h2]
        rw [hf a h1 h2, hg1, hg2]
        exact ih hs'.2

/-! ### arms -/

theorem armFor_nsha (mode : Mode) (k : IMod) :
    armFor nshaLazerArms mode k = if k = .Classic ∧ mode = .osu then some true else none := by
  cases mode <;> cases k <;> rfl

theorem hasArm_hro (mode : Mode) (k : IMod) :
    hasArm hroLazerArms mode k = decide (k = .DifficultyAdjust ∧ mode = .catch) := by
  cases mode <;> cases k <;> rfl

theorem hasArm_scroll (mode : Mode) (k : IMod) :
    hasArm scrollLazerArms mode k = decide (k = .DifficultyAdjust ∧ mode = .taiko) := by
  cases mode <;> cases k <;> rfl

theorem hasArm_seed (mode : Mode) (k : IMod) :
    hasArm seedLazerArms mode k = decide (k = .Random ∧ (mode = .taiko ∨ mode = .mania)) := by
  cases mode <;> cases k <;> rfl

/-- `MirrorOsu::reflection` ↦ `Reflection` as the Lazer arm of `reflection()` computes it -/
def mirrorEval (setting : Option String) : Reflection :=
  match setting with
  | none => .horizontal
  | some s => if s = "1" then .vertical else if s = "2" then .both else .none

theorem eval_mirror (setting : Option String) :
    (ReflVal.bySetting .horizontal [("1", .vertical), ("2", .both)] .none).eval setting = mirrorEval setting := by
  cases setting with
  | none => rfl
  | some s =>
    unfold ReflVal.eval mirrorEval
    simp only [List.find?_cons, List.find?_nil]
    by_cases h1 : s = "1"
    · subst h1; rfl
    · have e1 : ("1" == s) = false := beq_eq_false_iff_ne.mpr (fun e => h1 e.symm)
      rw [e1, if_neg h1]
      by_cases h2 : s = "2"
      · subst h2; rfl
      · have e2 : ("2" == s) = false := beq_eq_false_iff_ne.mpr (fun e => h2 e.symm)
        rw [e2, if_neg h2]

theorem armFor_refl (mode : Mode) (m : LMod Rat) :
    (armFor reflLazerArms mode m.kind).map (fun v => v.eval m.mirror) =
      if m.kind = .HardRock ∧ mode = .osu then some .vertical
      else if m.kind = .Mirror ∧ mode = .osu then some (mirrorEval m.mirror)
      else if m.kind = .Mirror ∧ mode = .catch then some .horizontal
      else none := by
  have h : ∀ k, armFor reflLazerArms mode k =
      if k = .HardRock ∧ mode = .osu then some (.const .vertical)
      else if k = .Mirror ∧ mode = .osu then some (.bySetting .horizontal [("1", .vertical), ("2", .both)] .none)
      else if k = .Mirror ∧ mode = .catch then some (.const .horizontal)
      else none := by
    intro k; cases mode <;> cases k <;> rfl
  rw [h]
  split
  · rfl
  · split
    · simp only [Option.map_some, eval_mirror]
    · split <;> rfl

/-! ### values of the accessors on a set in iteration order -/

theorem nsha_eq (mode : Mode) (l : List (LMod Rat)) (lz : Bool) (hs : LSorted l) :
    (Rep.lazer mode l : Rep Rat).noSliderHeadAcc lz =
      if mode = .osu then
        match getK l .Classic with
        | some c => c.nsha.getD true
        | none => !lz
      else !lz := by
  simp only [Rep.noSliderHeadAcc]
  rw [findSome?_gated l .Classic _ hs (by
    intro m hm; rw [armFor_nsha]; simp [hm])]
  cases mode <;> cases hg : getK l .Classic with
  | none => simp
  | some c =>
    have hc : c.kind = .Classic := by
      have := List.find?_some hg; simpa using this
    simp [armFor_nsha, hc]

theorem customHro_eq (mode : Mode) (l : List (LMod Rat)) (hs : LSorted l) :
    (Rep.lazer mode l : Rep Rat).customHro =
      if mode = .catch then (getK l .DifficultyAdjust).bind (·.hro) else none := by
  simp only [Rep.customHro]
  rw [findSome?_gated l .DifficultyAdjust _ hs (by
    intro m hm; rw [hasArm_hro]; simp [hm])]
  cases mode <;> cases hg : getK l .DifficultyAdjust with
  | none => simp
  | some c =>
    have hc : c.kind = .DifficultyAdjust := by
      have := List.find?_some hg; simpa using this
    simp [hasArm_hro, hc]

theorem scroll_eq (mode : Mode) (l : List (LMod Rat)) (hs : LSorted l) :
    (Rep.lazer mode l : Rep Rat).scrollSpeed =
      if mode = .taiko then (getK l .DifficultyAdjust).bind (·.scroll) else none := by
  simp only [Rep.scrollSpeed]
  rw [findSome?_gated l .DifficultyAdjust _ hs (by
    intro m hm; rw [hasArm_scroll]; simp [hm])]
  cases mode <;> cases hg : getK l .DifficultyAdjust with
  | none => simp [optFlatten]
  | some c =>
    have hc : c.kind = .DifficultyAdjust := by
      have := List.find?_some hg; simpa using this
    simp [hasArm_scroll, hc, optFlatten]

theorem seed_eq (mode : Mode) (l : List (LMod Rat)) (hs : LSorted l) :
    (Rep.lazer mode l : Rep Rat).randomSeed =
      if mode = .taiko ∨ mode = .mania then ((getK l .Random).bind (·.seed)).map castI32 else none := by
  simp only [Rep.randomSeed]
  rw [findSome?_gated l .Random _ hs (by
    intro m hm; rw [hasArm_seed]; simp [hm])]
  cases mode <;> cases hg : getK l .Random with
  | none => simp
  | some c =>
    have hc : c.kind = .Random := by
      have := List.find?_some hg; simpa using this
    simp [hasArm_seed, hc]

theorem reflection_eq (mode : Mode) (l : List (LMod Rat)) (hs : LSorted l) :
    (Rep.lazer mode l : Rep Rat).reflection =
      match mode with
      | .osu =>
        match getK l .HardRock, getK l .Mirror with
        | some _, _ => .vertical
        | none, some mr => mirrorEval mr.mirror
        | none, none => .none
      | .catch =>
        match getK l .Mirror with
        | some _ => .horizontal
        | none => .none
      | _ => .none := by
  simp only [Rep.reflection, armFor_refl]
  rw [findSome?_gated2 l .HardRock .Mirror _ hs (by decide) (by
    intro m h1 h2; simp [h1, h2])]
  have hk : ∀ k (c : LMod Rat), getK l k = some c → c.kind = k := by
    intro k c hg
    have := List.find?_some hg; simpa using this
  cases mode <;> cases hg1 : getK l .HardRock <;> cases hg2 : getK l .Mirror <;>
    simp [reflLazerElse] <;>
    (try simp [hk _ _ hg1]) <;> (try simp [hk _ _ hg2])

/-! ### default-settings sets (`GameMods::from_intermode`) -/

theorem mem_withMode {R : Type} (mode : Mode) (s : List IMod) (m : LMod R) (h : m ∈ withMode mode s) :
    ∃ k, m = { kind := k } ∧ k ∈ s ∧ avail mode k = true := by
  unfold withMode at h
  obtain ⟨k, hk, rfl⟩ := List.mem_map.mp h
  have h1 := List.mem_filter.mp hk
  exact ⟨k, rfl, ((mem_imIter _ _).mp h1.1).2, h1.2⟩

theorem orderAll_sorted : orderAll.Pairwise (fun a b => orderIdx a < orderIdx b) := by
  decide

theorem withMode_sorted {R : Type} (mode : Mode) (s : List IMod) : LSorted (withMode (R := R) mode s) := by
  unfold LSorted withMode imIter
  rw [List.pairwise_map]
  exact (orderAll_sorted.filter _).filter _

theorem getK_withMode (mode : Mode) (s : List IMod) (k : IMod) (hk : k ≠ .Unknown) :
    getK (withMode (R := Rat) mode s) k = if s.contains k && avail mode k then some { kind := k } else none := by
  have hany := any_withMode Rat mode s k hk
  unfold getK
  cases hc : (s.contains k && avail mode k) with
  | false =>
    rw [hc] at hany
    simp only [Bool.false_eq_true, if_false]
    rw [List.find?_eq_none]
    intro m hm
    have := List.any_eq_false.mp hany m hm
    simpa using this
  | true =>
    simp only [if_true]
    rw [hc] at hany
    obtain ⟨m, hm, hmk⟩ := List.any_eq_true.mp hany
    cases hf : (withMode (R := Rat) mode s).find? (fun m => m.kind == k) with
    | none =>
      have := List.find?_eq_none.mp hf m hm
      exact absurd hmk this
    | some c =>
      have hc1 := List.find?_some hf
      have hc2 := List.mem_of_find?_eq_some hf
      obtain ⟨k', rfl, _, _⟩ := mem_withMode mode s c hc2
      simp only [beq_iff_eq] at hc1
      subst hc1; rfl

/-- `insertL` keeps a set in iteration order -/
theorem insertL_sorted {R : Type} (x : LMod R) (l : List (LMod R)) (hs : LSorted l) : LSorted (insertL x l) := by
  unfold LSorted insertL at *
  rw [List.append_assoc, List.pairwise_append]
  refine ⟨hs.filter _, ?_, ?_⟩
  · rw [List.pairwise_append]
    refine ⟨List.pairwise_singleton _ _, hs.filter _, ?_⟩
    intro a ha b hb
    simp only [List.mem_singleton] at ha
    subst ha
    simpa using (List.mem_filter.mp hb).2
  · intro a ha b hb
    have ha' := (List.mem_filter.mp ha).2
    simp only [decide_eq_true_eq] at ha'
    rcases List.mem_append.mp hb with hb | hb
    · simp only [List.mem_singleton] at hb
      subst hb; exact ha'
    · have hb' := (List.mem_filter.mp hb).2
      simp only [decide_eq_true_eq] at hb'
      omega

theorem getK_kind {R : Type} (l : List (LMod R)) (k : IMod) (c : LMod R) (h : getK l k = some c) :
    c.kind = k := by
  have := List.find?_some h; simpa using this

/-- in a set in iteration order, a member is what the lookup of its kind finds -/
theorem getK_of_mem {R : Type} (l : List (LMod R)) (c : LMod R) (hs : LSorted l) (hc : c ∈ l) :
    getK l c.kind = some c := by
  induction l with
  | nil => cases hc
  | cons a l ih =>
    have hs' := List.pairwise_cons.mp hs
    rcases List.mem_cons.mp hc with rfl | hc'
    · simp [getK]
    · have hlt := hs'.1 c hc'
      have hne : a.kind ≠ c.kind := by intro e; rw [e] at hlt; omega
      have : getK (a :: l) c.kind = getK l c.kind := by simp [getK, hne]
      rw [this]; exact ih hs'.2 hc'

theorem getK_none_iff {R : Type} (l : List (LMod R)) (k : IMod) :
    getK l k = none ↔ ∀ m ∈ l, m.kind ≠ k := by
  unfold getK; rw [List.find?_eq_none]; simp

/-! ### changing one setting of one mod -/

/-- replace the mod(s) of kind `k` by `g` of it -/
def mapKind {R : Type} (k : IMod) (g : LMod R → LMod R) (l : List (LMod R)) : List (LMod R) :=
  l.map (fun m => if m.kind == k then g m else m)

theorem findSome?_mapKind {R α : Type} (k : IMod) (g : LMod R → LMod R) (l : List (LMod R))
    (f : LMod R → Option α) (h : ∀ m, m.kind = k → f (g m) = f m) :
    (mapKind k g l).findSome? f = l.findSome? f := by
  unfold mapKind
  rw [List.findSome?_map]
  congr 1
  funext m
  by_cases hm : m.kind = k
  · simp [Function.comp, hm, h m hm]
  · simp [Function.comp, hm]

theorem any_mapKind {R : Type} (k : IMod) (g : LMod R → LMod R) (l : List (LMod R))
    (p : LMod R → Bool) (h : ∀ m, m.kind = k → p (g m) = p m) :
    (mapKind k g l).any p = l.any p := by
  unfold mapKind
  rw [List.any_map]
  congr 1
  funext m
  by_cases hm : m.kind = k
  · simp [Function.comp, hm, h m hm]
  · simp [Function.comp, hm]

/-- rewrite the `hard_rock_offsets` setting of the DifficultyAdjust mod -/
def setHro {R : Type} (v : Option Bool) (l : List (LMod R)) : List (LMod R) :=
  mapKind .DifficultyAdjust (fun m => { m with hro := v }) l

theorem customHro_withMode (mode : Mode) (s : List IMod) :
    (Rep.lazer mode (withMode mode s) : Rep Rat).customHro = none := by
  unfold Rep.customHro
  apply findSome?_eq_none_of
  intro a ha
  obtain ⟨k, rfl, _, _⟩ := mem_withMode mode s a ha
  simp

theorem hardrockOffsets_withMode (mode : Mode) (s : List IMod) :
    (Rep.lazer mode (withMode mode s) : Rep Rat).hardrockOffsets = (Rep.lazer mode (withMode mode s) : Rep Rat).hr := by
  unfold Rep.hardrockOffsets
  rw [customHro_withMode]; rfl

/-! ### `checked_bits` of an arbitrary intermode set -/

theorem foldl_cbStep_none (l : List IMod) : l.foldl cbStep none = none := by
  induction l with
  | nil => rfl
  | cons m l ih => simpa [List.foldl_cons, cbStep] using ih

theorem foldl_cbStep_of_none (l : List IMod) (acc : Option Nat) (m : IMod) (hm : m ∈ l) (hb : m.bits = none) :
    l.foldl cbStep acc = none := by
  induction l generalizing acc with
  | nil => cases hm
  | cons a l ih =>
    rw [List.foldl_cons]
    rcases List.mem_cons.mp hm with rfl | hm'
    · have : cbStep acc m = none := by cases acc <;> simp [cbStep, hb]
      rw [this]; exact foldl_cbStep_none l
    · exact ih _ hm'

/-- `checked_bits()` is `None` exactly when the set holds a mod without legacy bit -/
theorem checkedBits_none_iff (s : List IMod) :
    checkedBits s = none ↔ ∃ m ∈ imIter s, m.bits = none := by
  rw [checkedBits_eq]
  constructor
  · intro h
    by_contra hne
    have hall : ∀ m ∈ imIter s, m.bits.isSome = true := by
      intro m hm
      cases hb : m.bits with
      | none => exact absurd ⟨m, hm, hb⟩ hne
      | some _ => rfl
    obtain ⟨c, hc, _⟩ := foldl_cbStep (imIter s) 0 hall
    rw [hc] at h; cases h
  · rintro ⟨m, hm, hb⟩
    exact foldl_cbStep_of_none _ _ m hm hb

end Rosu.Mods
