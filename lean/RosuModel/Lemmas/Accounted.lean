import RosuModel.Gen.Inventory

/-!
Hand-written list of every *legitimate* site of `Gen/Inventory.lean` (regenerated from /repo on
every run), with the reason why the site cannot make a calculation nondeterministic (C01) or let
two concurrent calculations interfere (C20).  `Props/C01.lean` / `Props/C20.lean` prove that every
generated site occurs here (with multiplicity), so a NEW hash map, static, cell, clock, RNG crate,
`unsafe` block, feature gate or dependency breaks the obligation until somebody has looked at it
and extended this list.  Sites are identified by file + kind + normalised line text, not by line
numbers.
-/
namespace Rosu.Accounted
open Rosu.Gen.Inventory

def accounted : List Site := [
  -- bpm.rs: the only hash container.  Iterated once (`into_iter().max_by`); order-independent
  -- since commit 86d9d03: the comparator is a total order on entries (duration by total_cmp, then
  -- first-appearance index), see `Rosu.C01.bpm_order_independent`.
  ⟨"src/model/beatmap/bpm.rs", "hash", "use std::collections::HashMap;"⟩,
  ⟨"src/model/beatmap/bpm.rs", "hash", "map: HashMap<u64, (usize, f64)>,"⟩,
  ⟨"src/model/beatmap/bpm.rs", "hash", "map: HashMap::default(),"⟩,
  -- immutable table of f64 constants (no interior mutability in `[f64; 9]`)
  ⟨"src/taiko/difficulty/rhythm/rhythm_data.rs", "static", "static COMMON_RATIOS: [f64; 9] = ["⟩,
  -- util/sync.rs: `RefCount<T>` = Rc<RefCell<T>> (default) / Arc<RwLock<T>> (`sync`).  Only
  -- instantiated for the taiko difficulty-object graph, which is created inside one calculation /
  -- one gradual calculator value and never stored in a global: private state of a call.
  ⟨"src/util/sync.rs", "feature", "#[cfg(not(feature = \"sync\"))]"⟩,
  ⟨"src/util/sync.rs", "cell", "use std::{cell::RefCell, rc::Rc};"⟩,
  ⟨"src/util/sync.rs", "cell", "pub struct RefCount<T>(pub(super) Rc<RefCell<T>>);"⟩,
  ⟨"src/util/sync.rs", "cell", "pub struct Weak<T>(pub(super) std::rc::Weak<RefCell<T>>);"⟩,
  ⟨"src/util/sync.rs", "cell", "Self(Rc::new(RefCell::new(inner)))"⟩,
  ⟨"src/util/sync.rs", "feature", "#[cfg(feature = \"sync\")]"⟩,
  ⟨"src/util/sync.rs", "lock", "sync::{Arc, RwLock, RwLockReadGuard, RwLockWriteGuard},"⟩,
  ⟨"src/util/sync.rs", "lock", "pub struct RefCount<T>(pub(super) Arc<RwLock<T>>);"⟩,
  ⟨"src/util/sync.rs", "lock", "pub struct Weak<T>(pub(super) std::sync::Weak<RwLock<T>>);"⟩,
  -- guards are only ever named here, as return types of `get`/`get_mut`: no guard is a field
  ⟨"src/util/sync.rs", "lock", "pub struct Ref<'a, T: ?Sized>(RwLockReadGuard<'a, T>);"⟩,
  ⟨"src/util/sync.rs", "lock", "pub type RefMut<'a, T> = RwLockWriteGuard<'a, T>;"⟩,
  ⟨"src/util/sync.rs", "lock", "Self(Arc::new(RwLock::new(inner)))"⟩,
  -- doc-test gate of the "cannot be sent across threads" compile_fail example
  ⟨"src/util/sync.rs", "feature", "#[cfg(not(feature = \"sync\"))]"⟩,
  -- strains_vec.rs: two implementations of the same container selected by `raw_strains`
  -- (refinement proved for C10); the `unsafe` blocks read a union field / reinterpret a
  -- Vec<StrainsEntry> as Vec<f64> (C11) — no address, time or global enters a value.
  ⟨"src/util/strains_vec.rs", "feature", "#[cfg(not(feature = \"raw_strains\"))]"⟩,
  ⟨"src/util/strains_vec.rs", "feature", "#[cfg(feature = \"raw_strains\")]"⟩,
  ⟨"src/util/strains_vec.rs", "unsafe", "self.inner.push(unsafe\x20{ StrainsEntry::new_value(value) });"⟩,
  ⟨"src/util/strains_vec.rs", "unsafe", "pub unsafe\x20fn transmute_into_vec(self) -> Vec<f64> {"⟩,
  ⟨"src/util/strains_vec.rs", "unsafe", "pub unsafe\x20fn transmute_into_vec(self) -> Vec<f64> {"⟩,
  ⟨"src/util/strains_vec.rs", "unsafe", "unsafe\x20{ mem::transmute::<Vec<StrainsEntry>, Vec<f64>>(self.inner) }"⟩,
  ⟨"src/util/strains_vec.rs", "unsafe", "let slice = unsafe\x20{ slice::from_raw_parts(ptr, count) };"⟩,
  ⟨"src/util/strains_vec.rs", "unsafe", "pub const unsafe\x20fn new_value(value: f64) -> Self {"⟩,
  ⟨"src/util/strains_vec.rs", "unsafe", "unsafe\x20{ self.value.is_sign_negative() }"⟩,
  ⟨"src/util/strains_vec.rs", "unsafe", "unsafe\x20{ self.value }"⟩,
  ⟨"src/util/strains_vec.rs", "unsafe", "unsafe\x20{ &mut self.value }"⟩,
  ⟨"src/util/strains_vec.rs", "unsafe", "unsafe\x20{ self.zero_count & Self::ZERO_COUNT_MASK }"⟩,
  ⟨"src/util/strains_vec.rs", "unsafe", "unsafe\x20{"⟩,
  ⟨"src/util/strains_vec.rs", "unsafe", "unsafe\x20{"⟩,
  ⟨"src/any/difficulty/skills.rs", "unsafe", "let peaks = unsafe\x20{ peaks.transmute_into_vec() };"⟩,
  ⟨"src/osu/difficulty/skills/strain.rs", "unsafe", "let peaks = unsafe\x20{ peaks.transmute_into_vec() };"⟩,
  -- NonZeroU64::new_unchecked on the bits of a clock rate that was checked to be non-zero
  ⟨"src/any/difficulty/mod.rs", "unsafe", "let non_zero = unsafe\x20{ NonZeroU64::new_unchecked(clock_rate) };"⟩,
  -- decode.rs: reuse of a Vec<*const str> allocation as Vec<&str> within one parse call
  ⟨"src/model/beatmap/decode.rs", "unsafe", "let point_split = unsafe\x20{ slice::from_raw_parts(ptr.cast(), len) };"⟩,
  -- gradual calculators: lifetime extension of borrows into a Box / Vec owned by the same value
  ⟨"src/osu/difficulty/gradual.rs", "unsafe", "unsafe\x20{ mem::transmute(diff_objects) }"⟩,
  ⟨"src/taiko/difficulty/gradual.rs", "unsafe", "unsafe\x20{ mem::transmute(iter) }"⟩,
  -- `OsuObjects` (fix: OsuGradualDifficulty owns its objects through a raw pointer): the allocation of the
  -- osu! objects is owned through `NonNull<[OsuObject]>` instead of `Box<[OsuObject]>` so that moving the
  -- calculator does not retag it Unique under the references of `diff_objects`.
  -- Send: bounded on `Box<[OsuObject]>: Send` — sole owner of the allocation, exactly like the Box it replaces
  ⟨"src/osu/difficulty/gradual.rs", "unsafe", "unsafe\x20impl Send for OsuObjects where Box<[OsuObject]>: Send {}"⟩,
  -- Sync: bounded on `Box<[OsuObject]>: Sync` — `&OsuObjects` only exposes `is_empty` (reads the slice length)
  ⟨"src/osu/difficulty/gradual.rs", "unsafe", "unsafe\x20impl Sync for OsuObjects where Box<[OsuObject]>: Sync {}"⟩,
  -- `iter_mut(&mut self)`: pointer from `Box::leak`, freed only in `Drop`; `&mut self` gives unique access; used on
  -- the local in `new` before any reference into the allocation is stored (Gen/Lifetime `osuOwnerUses`)
  ⟨"src/osu/difficulty/gradual.rs", "unsafe", "let objects = unsafe\x20{ self.objects.as_mut() };"⟩,
  -- `Drop`: rebuilds the leaked Box exactly once and drops it; the borrower `diff_objects` is declared, hence
  -- dropped, before `osu_objects` (obligation `premise_osu_layout` / `premise_osu_storage_freed` in Props/C11.lean)
  ⟨"src/osu/difficulty/gradual.rs", "unsafe", "drop(unsafe\x20{ Box::from_raw(self.objects.as_ptr()) });"⟩,
  -- dependencies: parsing (rosu-map) and mod tables (rosu-mods); exercised by every history run
  ⟨"Cargo.toml", "dep", "[dependencies] rosu-map"⟩,
  ⟨"Cargo.toml", "dep", "[dependencies] rosu-mods"⟩
]

/-- kinds that are sources of ambient input or of process-global / thread-global mutable state;
the library has no site of any of them -/
def forbiddenKinds : List String :=
  ["clock", "rng", "env", "fs", "process", "thread", "ptrint", "static_mut", "thread_local", "once", "atomic"]

end Rosu.Accounted
