import Mathlib.Algebra.Order.Floor.Ring
import Mathlib.Algebra.Order.Field.Basic
import Mathlib.Tactic.Linarith
import Mathlib.Tactic.Ring
import Mathlib.Tactic.FieldSimp
import Mathlib.Tactic.Positivity
import RosuModel.Model.GenState

/-!
# The exact (ordered field) instance of `NumOps` and the search-loop lemmas

* `fieldOps S` : `NumOps K` for a linear ordered field with floor; `S` is the sentinel that plays
  `f64::MAX` / `f64::INFINITY`.
* `Sel` : the relation "`r` is what the accumulator `init` becomes after offering the candidates
  `l`"; closed under concatenation, hence under (nested) `foldl`.
* `nearest_in_clamped_window` : among `0..=N`, the closest integer to `x` is `clamp ⌊x⌋` or
  `clamp ⌈x⌉`.
* `window_fold` : the model's `for k in min(N, floor raw)..=min(N, ceil raw)` loop selects a
  candidate that is optimal over **all** `k ≤ N` when the candidate value is affine in `k`.
-/

set_option linter.unusedSectionVars false

namespace Rosu.GenState.Opt

section Exact

variable {K : Type} [Field K] [LinearOrder K] [IsStrictOrderedRing K] [FloorRing K]

/-- Exact arithmetic: field operations, saturating `as u32` casts of floor/ceil, sentinel `S`
for both `f64::MAX` and `f64::INFINITY`. -/
@[reducible] def fieldOps (S : K) : NumOps K where
  ofNat n := (n : K)
  add a b := a + b
  sub a b := a - b
  mul a b := a * b
  div a b := a / b
  abs a := |a|
  lt a b := decide (a < b)
  floorU32 x := min (Int.toNat ⌊x⌋) u32Max
  ceilU32 x := min (Int.toNat ⌈x⌉) u32Max
  maxVal := S
  infVal := S

section ops
variable (S : K)

@[simp] theorem fops_ofNat (n : Nat) : @NumOps.ofNat K (fieldOps S) n = (n : K) := rfl
@[simp] theorem fops_add (a b : K) : @NumOps.add K (fieldOps S) a b = a + b := rfl
@[simp] theorem fops_sub (a b : K) : @NumOps.sub K (fieldOps S) a b = a - b := rfl
@[simp] theorem fops_mul (a b : K) : @NumOps.mul K (fieldOps S) a b = a * b := rfl
@[simp] theorem fops_div (a b : K) : @NumOps.div K (fieldOps S) a b = a / b := rfl
@[simp] theorem fops_abs (a : K) : @NumOps.abs K (fieldOps S) a = |a| := rfl
@[simp] theorem fops_lt (a b : K) : @NumOps.lt K (fieldOps S) a b = decide (a < b) := rfl
@[simp] theorem fops_floorU32 (a : K) :
    @NumOps.floorU32 K (fieldOps S) a = min (Int.toNat ⌊a⌋) u32Max := rfl
@[simp] theorem fops_ceilU32 (a : K) :
    @NumOps.ceilU32 K (fieldOps S) a = min (Int.toNat ⌈a⌉) u32Max := rfl
@[simp] theorem fops_maxVal : @NumOps.maxVal K (fieldOps S) = S := rfl
@[simp] theorem fops_infVal : @NumOps.infVal K (fieldOps S) = S := rfl

theorem offer_eq {A : Type} (a : Acc K A) (d : K) (v : A) :
    @Acc.offer K (fieldOps S) A a d v =
      if d < a.dist then { dist := d, val := v, hit := true, ok := a.ok } else a := by
  simp [Acc.offer]

@[simp] theorem offer_ok {A : Type} (a : Acc K A) (d : K) (v : A) :
    (@Acc.offer K (fieldOps S) A a d v).ok = a.ok := by
  rw [offer_eq]; split <;> rfl

end ops

/-! ## Selection relation -/

/-- `r` results from `init` by offering the candidates `l` (pairs distance/value) in some order
compatible with "keep the strictly smaller": its distance is a lower bound of `init.dist` and of
all candidates, and it is either `init` (up to `ok`) or one of the candidates, with `hit` set. -/
structure Sel {A : Type} (l : List (K × A)) (init r : Acc K A) : Prop where
  le_init : r.dist ≤ init.dist
  le_all : ∀ c ∈ l, r.dist ≤ c.1
  src : (r.dist = init.dist ∧ r.val = init.val ∧ r.hit = init.hit) ∨
        (r.hit = true ∧ ∃ c ∈ l, r.dist = c.1 ∧ r.val = c.2 ∧ c.1 < init.dist)

namespace Sel
variable {A : Type}

theorem nil (a : Acc K A) (c : Bool) : Sel [] a (a.check c) :=
  ⟨le_refl _, (fun _ hc => nomatch hc), Or.inl ⟨rfl, rfl, rfl⟩⟩

theorem refl (a : Acc K A) : Sel [] a a :=
  ⟨le_refl _, (fun _ hc => nomatch hc), Or.inl ⟨rfl, rfl, rfl⟩⟩

theorem of_check {l : List (K × A)} {a r : Acc K A} (c : Bool) (h : Sel l (a.check c) r) :
    Sel l a r := ⟨h.1, h.2, h.3⟩

theorem check_left {l : List (K × A)} {a r : Acc K A} (c : Bool) (h : Sel l a r) :
    Sel l (a.check c) r := ⟨h.1, h.2, h.3⟩

theorem check_right {l : List (K × A)} {a r : Acc K A} (c : Bool) (h : Sel l a r) :
    Sel l a (r.check c) := ⟨h.1, h.2, h.3⟩

theorem offer (S : K) (a : Acc K A) (d : K) (v : A) :
    Sel [(d, v)] a (@Acc.offer K (fieldOps S) A a d v) := by
  rw [offer_eq]
  by_cases h : d < a.dist
  · rw [if_pos h]
    refine ⟨le_of_lt h, ?_, Or.inr ⟨rfl, (d, v), List.mem_singleton.2 rfl, rfl, rfl, h⟩⟩
    intro c hc
    rw [List.mem_singleton.1 hc]
  · rw [if_neg h]
    refine ⟨le_refl _, ?_, Or.inl ⟨rfl, rfl, rfl⟩⟩
    intro c hc
    rw [List.mem_singleton.1 hc]
    exact not_lt.1 h

theorem trans {l₁ l₂ : List (K × A)} {a b c : Acc K A} (h₁ : Sel l₁ a b) (h₂ : Sel l₂ b c) :
    Sel (l₁ ++ l₂) a c := by
  refine ⟨le_trans h₂.1 h₁.1, ?_, ?_⟩
  · intro x hx
    rcases List.mem_append.1 hx with hx | hx
    · exact le_trans h₂.1 (h₁.2 x hx)
    · exact h₂.2 x hx
  · rcases h₂.3 with ⟨e1, e2, e3⟩ | ⟨hh, x, hx, e1, e2, e3⟩
    · rcases h₁.3 with ⟨f1, f2, f3⟩ | ⟨hh, x, hx, f1, f2, f3⟩
      · exact Or.inl ⟨e1.trans f1, e2.trans f2, e3.trans f3⟩
      · exact Or.inr ⟨e3.trans hh, x, List.mem_append_left _ hx, e1.trans f1, e2.trans f2, f3⟩
    · exact Or.inr ⟨hh, x, List.mem_append_right _ hx, e1, e2, lt_of_lt_of_le e3 h₁.1⟩

/-- A fold whose every step is a selection from `cands k` is a selection from the concatenation. -/
theorem foldl_flatMap {ι : Type} (cands : ι → List (K × A)) (f : Acc K A → ι → Acc K A)
    (l : List ι) (h : ∀ a k, k ∈ l → Sel (cands k) a (f a k)) (a : Acc K A) :
    Sel (l.flatMap cands) a (l.foldl f a) := by
  induction l generalizing a with
  | nil => exact refl a
  | cons k l ih =>
    rw [List.flatMap_cons, List.foldl_cons]
    exact trans (h a k List.mem_cons_self)
      (ih (fun a k' hk' => h a k' (List.mem_cons_of_mem _ hk')) _)

/-- The single loops of the model. -/
theorem foldl_offer {ι : Type} (S : K) (p : ι → Bool) (distOf : ι → K) (valOf : ι → A)
    (l : List ι) (a : Acc K A) :
    Sel (l.map fun k => (distOf k, valOf k)) a
      (l.foldl (fun a k => @Acc.offer K (fieldOps S) A (a.check (p k)) (distOf k) (valOf k)) a) := by
  have := foldl_flatMap (fun k => [(distOf k, valOf k)])
    (fun a k => @Acc.offer K (fieldOps S) A (a.check (p k)) (distOf k) (valOf k)) l
    (fun a k _ => of_check (p k) (offer S _ _ _)) a
  rwa [List.map_eq_flatMap]

/-- With a fresh accumulator (`hit = false`, distance = sentinel) and at least one candidate
below the sentinel, a candidate is selected and it is a minimum. -/
theorem selected {l : List (K × A)} {init r : Acc K A} (h : Sel l init r)
    (_hhit : init.hit = false) {c₀ : K × A} (hc₀ : c₀ ∈ l) (hlt : c₀.1 < init.dist) :
    r.hit = true ∧ ∃ c ∈ l, r.dist = c.1 ∧ r.val = c.2 ∧ ∀ c' ∈ l, r.dist ≤ c'.1 := by
  rcases h.3 with ⟨e1, _, _⟩ | ⟨hh, x, hx, e1, e2, _⟩
  · exact absurd (lt_of_le_of_lt (e1 ▸ h.2 c₀ hc₀) hlt) (lt_irrefl _)
  · exact ⟨hh, x, hx, e1, e2, h.2⟩

end Sel

/-- `ok` after a single loop: all checks passed. -/
theorem foldl_offer_ok {A ι : Type} (S : K) (p : ι → Bool) (distOf : ι → K) (valOf : ι → A)
    (l : List ι) (a : Acc K A) (hp : ∀ k ∈ l, p k = true) :
    (l.foldl (fun a k => @Acc.offer K (fieldOps S) A (a.check (p k)) (distOf k) (valOf k)) a).ok
      = a.ok := by
  induction l generalizing a with
  | nil => rfl
  | cons k l ih =>
    rw [List.foldl_cons, ih _ (fun k' hk' => hp k' (List.mem_cons_of_mem _ hk')), offer_ok]
    simp [Acc.check, hp k List.mem_cons_self]

theorem mem_rangeIncl {lo hi k : Nat} : k ∈ rangeIncl lo hi ↔ lo ≤ k ∧ k ≤ hi := by
  unfold rangeIncl
  rw [List.mem_range'_1]
  omega

/-! ## The nearest integer in a clamped window -/

/-- `clamp z = min N (z as u32)` -/
def clampN (N : Nat) (z : Int) : Nat := min N (min z.toNat u32Max)

theorem clampN_le (N : Nat) (z : Int) : clampN N z ≤ N := Nat.min_le_left _ _

theorem clampN_floor_le_ceil (N : Nat) (x : K) : clampN N ⌊x⌋ ≤ clampN N ⌈x⌉ := by
  have := Int.floor_le_ceil x
  unfold clampN
  omega

/-- Among the integers `0..=N`, the nearest to `x` is `clamp ⌊x⌋` or `clamp ⌈x⌉`. -/
theorem nearest_int_clamped (N : Nat) (hN : N ≤ u32Max) (x : K) (k : Nat) (hk : k ≤ N) :
    |x - (clampN N ⌊x⌋ : K)| ≤ |x - (k : K)| ∨ |x - (clampN N ⌈x⌉ : K)| ≤ |x - (k : K)| := by
  have hkN : (k : K) ≤ (N : K) := by exact_mod_cast hk
  have hk0 : (0 : K) ≤ (k : K) := Nat.cast_nonneg k
  rcases lt_or_ge x 0 with hx | hx
  · -- both clamp to `0`
    left
    have hf : ⌊x⌋ < 0 := by
      have : (⌊x⌋ : K) < 0 := lt_of_le_of_lt (Int.floor_le x) hx
      exact_mod_cast this
    have hc : clampN N ⌊x⌋ = 0 := by unfold clampN; omega
    rw [hc, Nat.cast_zero, sub_zero, abs_of_neg hx, abs_of_nonpos (by linarith)]
    linarith
  rcases lt_or_ge (N : K) x with hxN | hxN
  · -- both clamp to `N`
    right
    have hc' : (N : Int) ≤ ⌈x⌉ := by
      have : ((N : Int) : K) ≤ (⌈x⌉ : K) := by
        have := Int.le_ceil x
        push_cast
        linarith
      exact_mod_cast this
    have hc : clampN N ⌈x⌉ = N := by unfold clampN; omega
    rw [hc, abs_of_pos (by linarith), abs_of_nonneg (by linarith)]
    linarith
  · -- `0 ≤ x ≤ N`: floor and ceil are not clamped
    have hf0 : 0 ≤ ⌊x⌋ := Int.floor_nonneg.2 hx
    have hfN : ⌊x⌋ ≤ (N : Int) := by
      have : (⌊x⌋ : K) ≤ ((N : Int) : K) := by
        have := Int.floor_le x
        push_cast
        linarith
      exact_mod_cast this
    have hc0 : 0 ≤ ⌈x⌉ := Int.ceil_nonneg hx
    have hcN : ⌈x⌉ ≤ (N : Int) := Int.ceil_le.2 (by push_cast; exact hxN)
    have hcf : ((clampN N ⌊x⌋ : Nat) : Int) = ⌊x⌋ := by unfold clampN; omega
    have hcc : ((clampN N ⌈x⌉ : Nat) : Int) = ⌈x⌉ := by unfold clampN; omega
    have hcf' : ((clampN N ⌊x⌋ : Nat) : K) = (⌊x⌋ : K) := by
      have h := congrArg (Int.cast (R := K)) hcf
      rwa [Int.cast_natCast] at h
    have hcc' : ((clampN N ⌈x⌉ : Nat) : K) = (⌈x⌉ : K) := by
      have h := congrArg (Int.cast (R := K)) hcc
      rwa [Int.cast_natCast] at h
    rcases le_or_gt (k : K) x with hkx | hkx
    · left
      have : (k : Int) ≤ ⌊x⌋ := Int.le_floor.2 (by push_cast; exact hkx)
      have h2 : (k : K) ≤ (⌊x⌋ : K) := by exact_mod_cast this
      have h3 := Int.floor_le x
      rw [hcf', abs_of_nonneg (by linarith), abs_of_nonneg (by linarith)]
      linarith
    · right
      have : ⌈x⌉ ≤ (k : Int) := Int.ceil_le.2 (by push_cast; exact le_of_lt hkx)
      have h2 : (⌈x⌉ : K) ≤ (k : K) := by exact_mod_cast this
      have h3 := Int.le_ceil x
      rw [hcc', abs_of_nonpos (by linarith), abs_of_nonpos (by linarith)]
      linarith

/-- Distance of an affine-over-constant value to the target, in terms of `x* = (t·D − a)/b`. -/
theorem affine_dist (t a b D x : K) (hb : 0 < b) (hD : 0 < D) (hx : x * b = t * D - a) (k : K) :
    |t - (a + b * k) / D| = b / D * |x - k| := by
  have : t - (a + b * k) / D = b / D * (x - k) := by
    field_simp
    linarith
  rw [this, abs_mul, abs_of_pos (div_pos hb hD)]

/-- **Core lemma.**  For `f k = (a + b·k)/D` with `b > 0`, `D ≥ 0` and `x* = (t·D − a)/b`,
one of the two clamped window ends `clamp ⌊x*⌋`, `clamp ⌈x*⌉` is at least as close to the target
`t` as any `k ∈ 0..=N`. -/
theorem nearest_in_clamped_window (N : Nat) (hN : N ≤ u32Max) (t a b D x : K) (hb : 0 < b)
    (hD : 0 ≤ D) (hx : x * b = t * D - a) (k : Nat) (hk : k ≤ N) :
    min |t - (a + b * (clampN N ⌊x⌋ : K)) / D| |t - (a + b * (clampN N ⌈x⌉ : K)) / D|
      ≤ |t - (a + b * (k : K)) / D| := by
  rcases eq_or_lt_of_le hD with h0 | hpos
  · rw [← h0]; simp
  · rw [affine_dist t a b D x hb hpos hx, affine_dist t a b D x hb hpos hx,
      affine_dist t a b D x hb hpos hx]
    have hc : 0 < b / D := div_pos hb hpos
    rcases nearest_int_clamped N hN x k hk with h | h
    · exact le_trans (min_le_left _ _) (mul_le_mul_of_nonneg_left h (le_of_lt hc))
    · exact le_trans (min_le_right _ _) (mul_le_mul_of_nonneg_left h (le_of_lt hc))

/-! ## The model's single search loop -/

theorem natdiv_mem01 (n d : Nat) (h : n ≤ d) : 0 ≤ (n : K) / (d : K) ∧ (n : K) / (d : K) ≤ 1 := by
  have h' : (n : K) ≤ (d : K) := by exact_mod_cast h
  exact ⟨div_nonneg (Nat.cast_nonneg n) (Nat.cast_nonneg d),
    div_le_one_of_le₀ h' (Nat.cast_nonneg d)⟩

/-- Every `|acc − v|` with `acc, v ∈ [0,1]` is below any sentinel `S > 1`. -/
theorem dist_lt_sentinel {S acc v : K} (h0 : 0 ≤ acc) (h1 : acc ≤ 1) (hS : 1 < S)
    (hv0 : 0 ≤ v) (hv1 : v ≤ 1) : |acc - v| < S :=
  lt_of_le_of_lt (abs_le.2 ⟨by linarith, by linarith⟩) hS

/-- `for k in min(N, ⌊raw⌋ as u32) ..= min(N, ⌈raw⌉ as u32)` over candidates whose value is
`(a + b·k)/D`, with `raw = (t·D − a)/b`, started from a fresh accumulator: a candidate is
accepted, no check fails, and the accepted candidate is optimal over **all** `k ∈ 0..=N`. -/
theorem window_fold {A : Type} (S : K) (N : Nat) (hN : N ≤ u32Max) (t a b D raw : K)
    (hb : 0 < b) (hD : 0 ≤ D) (hraw : raw * b = t * D - a)
    (p : Nat → Bool) (distOf : Nat → K) (valOf : Nat → A)
    (hp : ∀ k ≤ N, p k = true)
    (hdist : ∀ k ≤ N, distOf k = |t - (a + b * (k : K)) / D|)
    (hS : ∀ k ≤ N, distOf k < S)
    (init : Acc K A) (hhit : init.hit = false) (hinit : init.dist = S) :
    let r := (rangeIncl (min N (@NumOps.floorU32 K (fieldOps S) raw))
        (min N (@NumOps.ceilU32 K (fieldOps S) raw))).foldl
      (fun a k => @Acc.offer K (fieldOps S) A (a.check (p k)) (distOf k) (valOf k)) init
    r.hit = true ∧ r.ok = init.ok ∧
      ∃ k ≤ N, r.val = valOf k ∧ r.dist = distOf k ∧ ∀ k' ≤ N, distOf k ≤ distOf k' := by
  intro r
  have hlo : min N (@NumOps.floorU32 K (fieldOps S) raw) = clampN N ⌊raw⌋ := rfl
  have hhi : min N (@NumOps.ceilU32 K (fieldOps S) raw) = clampN N ⌈raw⌉ := rfl
  have hlh := clampN_floor_le_ceil N raw
  have hloN := clampN_le N ⌊raw⌋
  have hhiN := clampN_le N ⌈raw⌉
  have hr : r = (rangeIncl (clampN N ⌊raw⌋) (clampN N ⌈raw⌉)).foldl
      (fun a k => @Acc.offer K (fieldOps S) A (a.check (p k)) (distOf k) (valOf k)) init := rfl
  have hsel := Sel.foldl_offer S p distOf valOf (rangeIncl (clampN N ⌊raw⌋) (clampN N ⌈raw⌉)) init
  rw [← hr] at hsel
  have hmemlo : clampN N ⌊raw⌋ ∈ rangeIncl (clampN N ⌊raw⌋) (clampN N ⌈raw⌉) :=
    mem_rangeIncl.2 ⟨le_refl _, hlh⟩
  have hmemhi : clampN N ⌈raw⌉ ∈ rangeIncl (clampN N ⌊raw⌋) (clampN N ⌈raw⌉) :=
    mem_rangeIncl.2 ⟨hlh, le_refl _⟩
  obtain ⟨h1, c, hc, e1, e2, hmin⟩ := hsel.selected hhit
    (List.mem_map.2 ⟨_, hmemlo, rfl⟩) (by rw [hinit]; exact hS _ hloN)
  obtain ⟨k, hk, rfl⟩ := List.mem_map.1 hc
  have hkN : k ≤ N := le_trans (mem_rangeIncl.1 hk).2 hhiN
  refine ⟨h1, ?_, k, hkN, e2, e1, ?_⟩
  · rw [hr]
    apply foldl_offer_ok
    intro k' hk'
    exact hp k' (le_trans (mem_rangeIncl.1 hk').2 hhiN)
  · intro k' hk'
    have hnear := nearest_in_clamped_window N hN t a b D raw hb hD hraw k' hk'
    rw [← hdist _ hloN, ← hdist _ hhiN, ← hdist _ hk'] at hnear
    have l1 : r.dist ≤ distOf (clampN N ⌊raw⌋) := hmin _ (List.mem_map.2 ⟨_, hmemlo, rfl⟩)
    have l2 : r.dist ≤ distOf (clampN N ⌈raw⌉) := hmin _ (List.mem_map.2 ⟨_, hmemhi, rfl⟩)
    have e1' : r.dist = distOf k := e1
    rw [← e1']
    exact le_trans (le_min l1 l2) hnear

/-! ## taiko -/

theorem taikoAcc_eq (S : K) (x y m : Nat) :
    @taikoAcc K (fieldOps S) x y m = ((2 * x + y : Nat) : K) / ((2 * (x + y + m) : Nat) : K) := by
  unfold taikoAcc
  split
  · next h =>
    have : 2 * (x + y + m) = 0 := by omega
    rw [this]; simp
  · rfl

theorem taikoAcc_mem01 (S : K) (x y m : Nat) :
    0 ≤ @taikoAcc K (fieldOps S) x y m ∧ @taikoAcc K (fieldOps S) x y m ≤ 1 := by
  rw [taikoAcc_eq]
  exact natdiv_mem01 _ _ (by omega)

/-- The taiko search loop: accepted, no failed check, the pair sums to `nRemaining` and is
optimal over all splits of `nRemaining`. -/
theorem taikoSearch_spec (S acc : K) (h0 : 0 ≤ acc) (h1 : acc ≤ 1) (hS : 1 < S)
    (total nRem misses : Nat) (hsum : nRem + misses = total) (hN : nRem ≤ u32Max) :
    let r := @taikoSearch K (fieldOps S) acc total nRem misses
    r.hit = true ∧ r.ok = true ∧ r.val.1 + r.val.2 = nRem ∧
      ∀ k ≤ nRem, |acc - @taikoAcc K (fieldOps S) r.val.1 r.val.2 misses|
        ≤ |acc - @taikoAcc K (fieldOps S) k (nRem - k) misses| := by
  intro r
  have key := window_fold (A := Nat × Nat) S nRem hN acc (nRem : K) 1 ((2 * total : Nat) : K)
    (acc * ((2 * total : Nat) : K) - (nRem : K)) one_pos (Nat.cast_nonneg _) (by ring)
    (fun k => decide (k ≤ nRem))
    (fun k => |acc - @taikoAcc K (fieldOps S) k (nRem - k) misses|)
    (fun k => (k, nRem - k))
    (fun k hk => decide_eq_true hk)
    (by
      intro k hk
      rw [taikoAcc_eq]
      have e1 : 2 * k + (nRem - k) = nRem + k := by omega
      have e2 : 2 * (k + (nRem - k) + misses) = 2 * total := by omega
      rw [e1, e2]
      push_cast
      ring_nf)
    (by
      intro k _
      have := taikoAcc_mem01 S k (nRem - k) misses
      exact dist_lt_sentinel h0 h1 hS this.1 this.2)
    { dist := S, val := (0, 0), hit := false, ok := true } rfl rfl
  obtain ⟨k1, k2, k, hk, e1, _, hmin⟩ := key
  have hr : r.val = (k, nRem - k) := e1
  refine ⟨k1, k2, ?_, ?_⟩
  · rw [hr]; simp only []; omega
  · intro k' hk'
    rw [hr]
    exact hmin k' hk'

/-! ## catch -/

theorem catchAcc_eq (S : K) (f d t tm m : Nat) :
    @catchAcc K (fieldOps S) f d t tm m = ((f + d + t : Nat) : K) / ((f + d + t + tm + m : Nat) : K) :=
  rfl

theorem catchAcc_mem01 (S : K) (f d t tm m : Nat) :
    0 ≤ @catchAcc K (fieldOps S) f d t tm m ∧ @catchAcc K (fieldOps S) f d t tm m ≤ 1 := by
  rw [catchAcc_eq]
  exact natdiv_mem01 _ _ (by omega)

/-- `fruits + droplets + misses = n_fruits + n_droplets` after the `(n_fruits, n_droplets)` match
(the attribute sum must exist in `u32`; the sums over provided values saturate). -/
theorem catchFruitsDroplets_sum (F D misses : Nat) (fr dr : Option Nat) (hm : misses ≤ F + D)
    (hT : F + D ≤ u32Max) :
    (catchFruitsDroplets F D misses fr dr).1 + (catchFruitsDroplets F D misses fr dr).2.1 + misses
      = F + D := by
  unfold catchFruitsDroplets satAdd
  have hu : u32Max = 4294967295 := rfl
  split <;> simp only [] <;> omega

/-- `find_best_tiny_droplets`: accepted, no failed check, `tiny + tiny_misses = T`, optimal over
all `t ≤ T`.  Needs the invariant `fruits + droplets + misses = F + D` (the loop bounds use
`F + D + T` as the accuracy denominator). -/
theorem catchFindTiny_spec (S acc : K) (h0 : 0 ≤ acc) (h1 : acc ≤ 1) (hS : 1 < S)
    (F D T fruits droplets misses : Nat) (hinv : fruits + droplets + misses = F + D)
    (hT : T ≤ u32Max) :
    let r := @catchFindTiny K (fieldOps S) acc F D T fruits droplets misses
    r.hit = true ∧ r.ok = true ∧ r.val.1 + r.val.2 = T ∧
      ∀ t ≤ T, |acc - @catchAcc K (fieldOps S) fruits droplets r.val.1 r.val.2 misses|
        ≤ |acc - @catchAcc K (fieldOps S) fruits droplets t (T - t) misses| := by
  intro r
  have key := window_fold (A := Nat × Nat) S T hT acc ((fruits + droplets : Nat) : K) 1
    ((F + D + T : Nat) : K)
    (acc * ((F + D + T : Nat) : K) - ((fruits + droplets : Nat) : K)) one_pos (Nat.cast_nonneg _)
    (by ring)
    (fun t => decide (t ≤ T))
    (fun t => |acc - @catchAcc K (fieldOps S) fruits droplets t (T - t) misses|)
    (fun t => (t, T - t))
    (fun k hk => decide_eq_true hk)
    (by
      intro k hk
      rw [catchAcc_eq]
      have e2 : fruits + droplets + k + (T - k) + misses = F + D + T := by omega
      rw [e2]
      push_cast
      ring_nf)
    (by
      intro k _
      have := catchAcc_mem01 S fruits droplets k (T - k) misses
      exact dist_lt_sentinel h0 h1 hS this.1 this.2)
    { dist := S, val := (0, 0), hit := false, ok := true } rfl rfl
  obtain ⟨k1, k2, k, hk, e1, _, hmin⟩ := key
  have hr : r.val = (k, T - k) := e1
  refine ⟨k1, k2, ?_, ?_⟩
  · rw [hr]; simp only []; omega
  · intro k' hk'
    rw [hr]
    exact hmin k' hk'

/-! ## osu!standard -/

theorem optMinOr_le (o : Option Nat) (cap : Nat) : optMinOr o cap ≤ cap := by
  unfold optMinOr; split <;> omega

theorem optMin_le (o : Option Nat) (cap : Nat) : optMin o cap ≤ cap := by
  unfold optMin; split <;> omega

theorem osuAccNum_split (o : OsuOrigin) (a b c lt st se : Nat) :
    osuAccNum o a b c lt st se = 300 * a + 100 * b + 50 * c + osuAccNum o 0 0 0 lt st se := by
  cases o <;> simp [osuAccNum]

theorem osuAccDen_split (o : OsuOrigin) (a b c m se lt st : Nat) :
    osuAccDen o a b c m = 300 * (a + b + c + m) + (osuSliderAccValues o se lt st).2 := by
  cases o <;> rfl

theorem osuAccNum_le_den (o : OsuOrigin) (a b c m lt st se : Nat) :
    osuAccNum o a b c lt st se ≤ osuAccDen o a b c m := by
  cases o <;> simp only [osuAccNum, osuAccDen] <;> omega

theorem osuAcc_eq (S : K) (o : OsuOrigin) (a b c m lt st se : Nat) :
    @osuAcc K (fieldOps S) o a b c m lt st se
      = (osuAccNum o a b c lt st se : K) / (osuAccDen o a b c m : K) := by
  unfold osuAcc
  split
  · next h => rw [h]; simp
  · rfl

theorem osuAcc_mem01 (S : K) (o : OsuOrigin) (a b c m lt st se : Nat) :
    0 ≤ @osuAcc K (fieldOps S) o a b c m lt st se ∧ @osuAcc K (fieldOps S) o a b c m lt st se ≤ 1 := by
  rw [osuAcc_eq]
  exact natdiv_mem01 _ _ (osuAccNum_le_den ..)

/-- The slider values `generate_state` computes agree with what `accuracy` reads off the state. -/
theorem osuSliderParts_cons (c : OsuCfg) (b : OsuB K) :
    (osuSliderAccValues (osuSliderParts c b).1 (osuSliderParts c b).2.1 (osuSliderParts c b).2.2.1
        (osuSliderParts c b).2.2.2).1
      = osuAccNum (osuSliderParts c b).1 0 0 0 (osuSliderParts c b).2.2.1 (osuSliderParts c b).2.2.2
          (osuSliderParts c b).2.1 := by
  unfold osuSliderParts
  split
  · rfl
  · have h1 := optMinOr_le b.sliderEndHits c.nSliders
    have h2 := optMinOr_le b.largeTickHits c.nLargeTicks
    simp only [osuSliderAccValues, osuAccNum]
    omega
  · have h1 := optMinOr_le b.smallTickHits c.nSliders
    have h2 := optMinOr_le b.largeTickHits (c.nSliders + c.nLargeTicks)
    simp only [osuSliderAccValues, osuAccNum]
    omega

/-- Consistency of a search context, as `osuHitResults` builds it. -/
structure OsuCtxOk (x : OsuCtx K) : Prop where
  acc0 : 0 ≤ x.acc
  acc1 : x.acc ≤ 1
  target : x.targetTotal
    = x.acc * ((300 * x.nObjects + (osuSliderAccValues x.origin x.se x.lt x.st).2 : Nat) : K)
  sav : x.sav = osuAccNum x.origin 0 0 0 x.lt x.st x.se
  rem : x.nRemaining + x.misses = x.nObjects
  small : x.nObjects ≤ u32Max

/-- the constant accuracy denominator of a context -/
def _root_.Rosu.GenState.OsuCtx.den (x : OsuCtx K) : Nat :=
  300 * x.nObjects + (osuSliderAccValues x.origin x.se x.lt x.st).2

theorem osu_dist_eq (S : K) (x : OsuCtx K) (hx : OsuCtxOk x) (a b c : Nat)
    (hsum : a + b + c = x.nRemaining) (v : K)
    (hv : v = ((300 * a + 100 * b + 50 * c + x.sav : Nat) : K)) :
    @OsuCtx.distOf K (fieldOps S) x a b c = |x.acc - v / (x.den : K)| := by
  unfold OsuCtx.distOf
  rw [fops_abs, fops_sub, osuAcc_eq, osuAccNum_split, ← hx.sav,
    osuAccDen_split x.origin a b c x.misses x.se x.lt x.st, hv]
  have : a + b + c + x.misses = x.nObjects := by rw [hsum, hx.rem]
  rw [this]
  rfl

theorem osu_dist_lt (S : K) (hS : 1 < S) (x : OsuCtx K) (hx : OsuCtxOk x) (a b c : Nat) :
    @OsuCtx.distOf K (fieldOps S) x a b c < S := by
  have := osuAcc_mem01 S x.origin a b c x.misses x.lt x.st x.se
  exact dist_lt_sentinel hx.acc0 hx.acc1 hS this.1 this.2

/-- arm `(Some n300, None, None)` -/
theorem osuArm100_spec (S : K) (hS : 1 < S) (x : OsuCtx K) (hx : OsuCtxOk x) (n300₀ : Nat) :
    let h := @osuArm100 K (fieldOps S) x n300₀
    h.accepted = true ∧ h.ok = true ∧ h.n300 = min n300₀ x.nRemaining ∧
      h.n300 + h.n100 + h.n50 = x.nRemaining ∧
      ∀ y z, h.n300 + y + z = x.nRemaining →
        @OsuCtx.distOf K (fieldOps S) x h.n300 h.n100 h.n50
          ≤ @OsuCtx.distOf K (fieldOps S) x h.n300 y z := by
  intro h
  have hrem := hx.rem
  have hsmall := hx.small
  have key := window_fold (A := Nat × Nat) S (x.nRemaining - min n300₀ x.nRemaining)
    (by omega) x.acc
    ((50 * (x.nRemaining - min n300₀ x.nRemaining) + 300 * min n300₀ x.nRemaining + x.sav : Nat) : K)
    50 (x.den : K)
    ((x.targetTotal - ((50 * (x.nRemaining - min n300₀ x.nRemaining) + 300 * min n300₀ x.nRemaining
      + x.sav : Nat) : K)) / ((50 : Nat) : K))
    (by norm_num) (Nat.cast_nonneg _)
    (by rw [hx.target]; unfold OsuCtx.den; push_cast; field_simp)
    (fun k => decide (k ≤ x.nRemaining - min n300₀ x.nRemaining))
    (fun k => @OsuCtx.distOf K (fieldOps S) x (min n300₀ x.nRemaining) k
      (x.nRemaining - min n300₀ x.nRemaining - k))
    (fun k => (k, x.nRemaining - min n300₀ x.nRemaining - k))
    (fun k hk => decide_eq_true hk)
    (by
      intro k hk
      rw [osu_dist_eq S x hx _ _ _ (by omega)
        (((50 * (x.nRemaining - min n300₀ x.nRemaining) + 300 * min n300₀ x.nRemaining + x.sav : Nat) : K)
          + 50 * (k : K))]
      have : 300 * min n300₀ x.nRemaining + 100 * k
            + 50 * (x.nRemaining - min n300₀ x.nRemaining - k) + x.sav
          = (50 * (x.nRemaining - min n300₀ x.nRemaining) + 300 * min n300₀ x.nRemaining + x.sav)
            + 50 * k := by omega
      rw [this]
      push_cast
      ring)
    (fun k _ => osu_dist_lt S hS x hx _ _ _)
    { dist := S, val := (0, 0), hit := false, ok := decide (min n300₀ x.nRemaining ≤ x.nRemaining) }
    rfl rfl
  obtain ⟨k1, k2, k, hk, e1, _, hmin⟩ := key
  have hv1 : h.n100 = k := congrArg Prod.fst e1
  have hv2 : h.n50 = x.nRemaining - min n300₀ x.nRemaining - k := congrArg Prod.snd e1
  have h3 : h.n300 = min n300₀ x.nRemaining := rfl
  refine ⟨k1, ?_, h3, ?_, ?_⟩
  · have : h.ok = decide (min n300₀ x.nRemaining ≤ x.nRemaining) := k2
    rw [this]
    exact decide_eq_true (Nat.min_le_right _ _)
  · rw [hv1, hv2, h3]; omega
  · intro y z hyz
    rw [hv1, hv2, h3]
    rw [h3] at hyz
    have hz : z = x.nRemaining - min n300₀ x.nRemaining - y := by omega
    rw [hz]
    exact hmin y (by omega)

/-- arm `(None, Some n100, None)` -/
theorem osuArm300a_spec (S : K) (hS : 1 < S) (x : OsuCtx K) (hx : OsuCtxOk x) (n100₀ : Nat) :
    let h := @osuArm300a K (fieldOps S) x n100₀
    h.accepted = true ∧ h.ok = true ∧ h.n100 = min n100₀ x.nRemaining ∧
      h.n300 + h.n100 + h.n50 = x.nRemaining ∧
      ∀ y z, y + h.n100 + z = x.nRemaining →
        @OsuCtx.distOf K (fieldOps S) x h.n300 h.n100 h.n50
          ≤ @OsuCtx.distOf K (fieldOps S) x y h.n100 z := by
  intro h
  have hrem := hx.rem
  have hsmall := hx.small
  have key := window_fold (A := Nat × Nat) S (x.nRemaining - min n100₀ x.nRemaining)
    (by omega) x.acc
    ((50 * (x.nRemaining - min n100₀ x.nRemaining) + 100 * min n100₀ x.nRemaining + x.sav : Nat) : K)
    250 (x.den : K)
    ((x.targetTotal - ((50 * (x.nRemaining - min n100₀ x.nRemaining) + 100 * min n100₀ x.nRemaining
      + x.sav : Nat) : K)) / ((250 : Nat) : K))
    (by norm_num) (Nat.cast_nonneg _)
    (by rw [hx.target]; unfold OsuCtx.den; push_cast; field_simp)
    (fun k => decide (k ≤ x.nRemaining - min n100₀ x.nRemaining))
    (fun k => @OsuCtx.distOf K (fieldOps S) x k (min n100₀ x.nRemaining)
      (x.nRemaining - min n100₀ x.nRemaining - k))
    (fun k => (k, x.nRemaining - min n100₀ x.nRemaining - k))
    (fun k hk => decide_eq_true hk)
    (by
      intro k hk
      rw [osu_dist_eq S x hx _ _ _ (by omega)
        (((50 * (x.nRemaining - min n100₀ x.nRemaining) + 100 * min n100₀ x.nRemaining + x.sav : Nat) : K)
          + 250 * (k : K))]
      have : 300 * k + 100 * min n100₀ x.nRemaining
            + 50 * (x.nRemaining - min n100₀ x.nRemaining - k) + x.sav
          = (50 * (x.nRemaining - min n100₀ x.nRemaining) + 100 * min n100₀ x.nRemaining + x.sav)
            + 250 * k := by omega
      rw [this]
      push_cast
      ring)
    (fun k _ => osu_dist_lt S hS x hx _ _ _)
    { dist := S, val := (0, 0), hit := false, ok := decide (min n100₀ x.nRemaining ≤ x.nRemaining) }
    rfl rfl
  obtain ⟨k1, k2, k, hk, e1, _, hmin⟩ := key
  have hv1 : h.n300 = k := congrArg Prod.fst e1
  have hv2 : h.n50 = x.nRemaining - min n100₀ x.nRemaining - k := congrArg Prod.snd e1
  have h3 : h.n100 = min n100₀ x.nRemaining := rfl
  refine ⟨k1, ?_, h3, ?_, ?_⟩
  · have : h.ok = decide (min n100₀ x.nRemaining ≤ x.nRemaining) := k2
    rw [this]
    exact decide_eq_true (Nat.min_le_right _ _)
  · rw [hv1, hv2, h3]; omega
  · intro y z hyz
    rw [hv1, hv2, h3]
    rw [h3] at hyz
    have hz : z = x.nRemaining - min n100₀ x.nRemaining - y := by omega
    rw [hz]
    exact hmin y (by omega)

/-- arm `(None, None, Some n50)` -/
theorem osuArm300b_spec (S : K) (hS : 1 < S) (x : OsuCtx K) (hx : OsuCtxOk x) (n50₀ : Nat) :
    let h := @osuArm300b K (fieldOps S) x n50₀
    h.accepted = true ∧ h.ok = true ∧ h.n50 = min n50₀ x.nRemaining ∧
      h.n300 + h.n100 + h.n50 = x.nRemaining ∧
      ∀ y z, y + z + h.n50 = x.nRemaining →
        @OsuCtx.distOf K (fieldOps S) x h.n300 h.n100 h.n50
          ≤ @OsuCtx.distOf K (fieldOps S) x y z h.n50 := by
  intro h
  have hrem := hx.rem
  have hsmall := hx.small
  have key := window_fold (A := Nat × Nat) S (x.nRemaining - min n50₀ x.nRemaining)
    (by omega) x.acc
    (((100 * x.nObjects + x.sav : Nat) : K) - ((100 * x.misses + 50 * min n50₀ x.nRemaining : Nat) : K))
    200 (x.den : K)
    ((x.targetTotal + ((100 * x.misses + 50 * min n50₀ x.nRemaining : Nat) : K)
      - ((100 * x.nObjects + x.sav : Nat) : K)) / ((200 : Nat) : K))
    (by norm_num) (Nat.cast_nonneg _)
    (by rw [hx.target]; unfold OsuCtx.den; push_cast; field_simp; ring)
    (fun k => decide (k ≤ x.nRemaining - min n50₀ x.nRemaining))
    (fun k => @OsuCtx.distOf K (fieldOps S) x k (x.nRemaining - min n50₀ x.nRemaining - k)
      (min n50₀ x.nRemaining))
    (fun k => (k, x.nRemaining - min n50₀ x.nRemaining - k))
    (fun k hk => decide_eq_true hk)
    (by
      intro k hk
      rw [osu_dist_eq S x hx _ _ _ (by omega)
        ((((100 * x.nObjects + x.sav : Nat) : K)
            - ((100 * x.misses + 50 * min n50₀ x.nRemaining : Nat) : K)) + 200 * (k : K))]
      have : 300 * k + 100 * (x.nRemaining - min n50₀ x.nRemaining - k)
            + 50 * min n50₀ x.nRemaining + x.sav + (100 * x.misses + 50 * min n50₀ x.nRemaining)
          = (100 * x.nObjects + x.sav) + 200 * k := by omega
      have := congrArg (Nat.cast (R := K)) this
      push_cast at this ⊢
      linarith)
    (fun k _ => osu_dist_lt S hS x hx _ _ _)
    { dist := S, val := (0, 0), hit := false, ok := decide (min n50₀ x.nRemaining ≤ x.nRemaining) }
    rfl rfl
  obtain ⟨k1, k2, k, hk, e1, _, hmin⟩ := key
  have hv1 : h.n300 = k := congrArg Prod.fst e1
  have hv2 : h.n100 = x.nRemaining - min n50₀ x.nRemaining - k := congrArg Prod.snd e1
  have h3 : h.n50 = min n50₀ x.nRemaining := rfl
  refine ⟨k1, ?_, h3, ?_, ?_⟩
  · have : h.ok = decide (min n50₀ x.nRemaining ≤ x.nRemaining) := k2
    rw [this]
    exact decide_eq_true (Nat.min_le_right _ _)
  · rw [hv1, hv2, h3]; omega
  · intro y z hyz
    rw [hv1, hv2, h3]
    rw [h3] at hyz
    have hz : z = x.nRemaining - min n50₀ x.nRemaining - y := by omega
    rw [hz]
    exact hmin y (by omega)

/-! ### the priority shift of the `(None, None, None)` arm -/

/-- `osuShift` keeps the sum and the accuracy numerator, and its checked subtractions pass. -/
theorem osuShift_spec (prio : Prio) (a b c : Nat) :
    let r := osuShift prio a b c
    r.2 = true ∧ r.1.1 + r.1.2.1 + r.1.2.2 = a + b + c ∧
      300 * r.1.1 + 100 * r.1.2.1 + 50 * r.1.2.2 = 300 * a + 100 * b + 50 * c := by
  cases prio
  · simp only [osuShift]
    refine ⟨?_, ?_, ?_⟩
    · simp only [Bool.and_eq_true, decide_eq_true_eq]; omega
    · omega
    · omega
  · simp only [osuShift]
    refine ⟨?_, ?_, ?_⟩
    · simp only [decide_eq_true_eq]; omega
    · omega
    · omega

end Exact

end Rosu.GenState.Opt
