import RosuModel.Model.Curve
import Mathlib.Algebra.Order.Field.Basic
import Mathlib.Tactic.Linarith
import Mathlib.Tactic.Ring

/-!
# Shared definitions for the curve lemmas

* `NoPanic r`: the only error `r` can be is `Err.fuel` (no index / slice / subtraction / `unreachable!`
  failure);
* `BezWF b`: the four `BezierBuffers` have one common length (what `extend_exact` maintains);
* `fieldArith T`: the arithmetic of `Model/Curve.lean` over an ordered field `K` — `f32` and `f64` are
  both read as `K`, the casts are the identity, `+ − × ÷ abs < ≤ ==` are the field operations, and the
  transcendental operations (`sqrt`, `acosf`, `atan2`, `sin`, `cos`, `ceil as usize`, `PI`) are the
  uninterpreted components of `T` (theorems state which facts about them they use);
* `avg`, `leftList`, `rightList`: de Casteljau subdivision as a function on lists (the specification
  of `bezier_subdivide`).
-/
namespace Rosu.Curve

/-- The computation does not panic: its only possible error is running out of fuel. -/
def NoPanic {α : Type} (r : R α) : Prop := ∀ e, r = .error e → e = .fuel

/-- The four bezier buffers have the same length. -/
def BezWF {S : Type} (b : Bez S) : Prop :=
  b.right.size = b.left.size ∧ b.mid.size = b.left.size ∧ b.leftChild.size = b.left.size

/-- The uninterpreted operations of an exact arithmetic. -/
structure Transc (K : Type) where
  sqrt : K → K
  acos : K → K
  atan2 : K → K → K
  sin : K → K
  cos : K → K
  ceilUsize : K → Nat
  pi : K

/-- The arithmetic over an ordered field (both float types are `K`, casts are the identity). -/
def fieldArith {K : Type} [Field K] [LinearOrder K] (T : Transc K) : Arith K K where
  sOfInt n := (n : K)
  sNeg x := -x
  sAdd x y := x + y
  sSub x y := x - y
  sMul x y := x * y
  sDiv x y := x / y
  sAbs x := |x|
  sLt x y := decide (x < y)
  sLe x y := decide (x ≤ y)
  sEq x y := decide (x = y)
  sAcos := T.acos
  dOfInt n := (n : K)
  dAdd x y := x + y
  dSub x y := x - y
  dMul x y := x * y
  dDiv x y := x / y
  dAbs x := |x|
  dLt x y := decide (x < y)
  dLe x y := decide (x ≤ y)
  dSqrt := T.sqrt
  dAtan2 := T.atan2
  dSin := T.sin
  dCos := T.cos
  dCeilUsize := T.ceilUsize
  dPi := T.pi
  toD x := x
  toS x := x

section
variable {S D : Type} (A : Arith S D)

/-- `(a + b) / 2.0` of consecutive points: one de Casteljau level. -/
def avg : List (Pos S) → List (Pos S)
  | a :: b :: rest => pdiv A (padd A a b) (two A) :: avg (b :: rest)
  | _ => []

/-- The first points of the `k` successive levels starting at `l`: the left child. -/
def leftList : Nat → List (Pos S) → List (Pos S)
  | 0, _ => []
  | k + 1, l =>
    match l with
    | [] => []
    | a :: _ => a :: leftList k (avg A l)

/-- The last points of the `k` successive levels starting at `l`, deepest level first: the right
child. -/
def rightList : Nat → List (Pos S) → List (Pos S)
  | 0, _ => []
  | k + 1, l =>
    match l.getLast? with
    | none => []
    | some z => rightList k (avg A l) ++ [z]

/-- The left child of `bezier_subdivide` on `pts`. -/
def leftChildOf (pts : List (Pos S)) : List (Pos S) := leftList A pts.length pts

/-- The right child of `bezier_subdivide` on `pts`. -/
def rightChildOf (pts : List (Pos S)) : List (Pos S) := rightList A pts.length pts

end

end Rosu.Curve
