import RosuModel.Model.PipelineCurve
import RosuModel.Lemmas.CurveSafe
import RosuModel.Lemmas.PipelineBytes

/-!
# The curve stage of the osu! from-bytes pipeline never panics (every arithmetic)

`sliderCurve` / `curveInputsOfModel` (`Model/PipelineCurve.lean`) run the curve model
(`Model/Curve.lean`) on every slider of the decoded file, threading one `CurveBuffers`.  For EVERY
arithmetic: no checked operation of the curve model fails there (`Lemmas/CurveSafe.lean`), the stage
supplies exactly one entry per slider, hence the composed pipeline never answers `missingInputs`, and
a `panic` of the composed pipeline is either `SliderEventsIter::new`'s clamp assertion or a panic of
the downstream pipeline.
-/
namespace Rosu.PipelineCurve
open Rosu.DecodeLine Rosu.PipelineBytes
open Rosu.SliderEvents (SliderIn osuParams osuNestedOf)

section
variable {R S : Type}

/-- bezier buffers well-formed (`CurveBasic.BezWF`) -/
def BufsWF (b : Bufs S) : Prop := Rosu.Curve.BezWF b.bez

theorem bufsWF_empty : BufsWF (Bufs.empty : Bufs S) := Rosu.Curve.emptyBez_wf

theorem ofCurveErr_panic_iff (e : Rosu.Curve.Err) : ofCurveErr e = .panic ↔ e ≠ .fuel := by
  cases e <;> simp [ofCurveErr]

/-- a fold whose step keeps `ok` never produces an error -/
theorem foldr_ne_error {α β ε : Type} (f : α → Except ε β → Except ε β)
    (hf : ∀ a b, ∃ b', f a (.ok b) = .ok b') (b0 : β) :
    ∀ (l : List α) (e : ε), l.foldr f (.ok b0) ≠ .error e := by
  intro l
  induction l with
  | nil => intro e h; cases h
  | cons a t ih =>
    intro e h
    simp only [List.foldr_cons] at h
    cases ht : t.foldr f (.ok b0) with
    | error e' => exact ih e' ht
    | ok b =>
      rw [ht] at h
      obtain ⟨b', hb'⟩ := hf a b
      rw [hb'] at h
      cases h

/-- what `sliderCurve_noPanic` says, as one predicate -/
def GoodSC (r : Except Fail (SliderCurve R S × Bufs S)) : Prop :=
  match r with
  | .ok (_, b) => BufsWF b
  | .error e => e ≠ .panic

theorem sliderCurve_good (O : BOps R S) (A : Rosu.ConvOsu.Ar R S) (E : Rosu.SliderEvents.Arith R)
    (C : Rosu.Curve.Arith S R) (F : FoldOps R) (fuel : Nat) (d : Decoded) (start repeats : Nat)
    (len : Option Nat) (cps : List CP) (bufs : Bufs S) (hb : BufsWF bufs) :
    GoodSC (sliderCurve O A E C F fuel d start repeats len cps bufs) := by
  unfold sliderCurve
  split
  · rename_i e he
    have := Rosu.Curve.curveNew_noPanic C fuel true (controlPoints O cps) (len.map O.dec64)
      bufs.path bufs.bez hb e he
    subst this
    show ofCurveErr .fuel ≠ .panic
    simp [ofCurveErr]
  · rename_i c bez he
    obtain ⟨hsz, _, hwf⟩ := Rosu.Curve.curveNew_sizes C fuel true (controlPoints O cps)
      (len.map O.dec64) bufs.path bufs.bez hb c bez he
    have hqf : ∀ pr, Rosu.Curve.positionAt C c pr
        = .ok (Classical.choose (Rosu.Curve.positionAt_ok C c hsz pr)) :=
      fun pr => Classical.choose_spec (Rosu.Curve.positionAt_ok C c hsz pr)
    generalize hq : (fun pr => Classical.choose (Rosu.Curve.positionAt_ok C c hsz pr)) = qf at hqf
    have hqf' : ∀ pr, Rosu.Curve.positionAt C c pr = .ok (qf pr) := by
      intro pr; rw [← hq]; exact hqf pr
    simp only [hqf']
    split
    · show Fail.clampPanic ≠ .panic
      simp
    · show Fail.fuel ≠ .panic
      simp
    · split
      · rename_i e hfold
        refine absurd hfold (foldr_ne_error _ ?_ _ _ e)
        intro a b
        simp only []
        split
        · exact ⟨_, rfl⟩
        · split
          · exact ⟨_, rfl⟩
          · exact ⟨_, rfl⟩
      · exact hwf

/-- The curve of one slider never fails with a panic of the curve model, and the bezier buffers it
leaves behind are well-formed. -/
theorem sliderCurve_noPanic (O : BOps R S) (A : Rosu.ConvOsu.Ar R S) (E : Rosu.SliderEvents.Arith R)
    (C : Rosu.Curve.Arith S R) (F : FoldOps R) (fuel : Nat) (d : Decoded) (start repeats : Nat)
    (len : Option Nat) (cps : List CP) (bufs : Bufs S) (hb : BufsWF bufs) :
    sliderCurve O A E C F fuel d start repeats len cps bufs ≠ .error .panic ∧
    ∀ sc bufs', sliderCurve O A E C F fuel d start repeats len cps bufs = .ok (sc, bufs') →
      BufsWF bufs' := by
  have h := sliderCurve_good O A E C F fuel d start repeats len cps bufs hb
  constructor
  · intro he
    rw [he] at h
    exact h rfl
  · intro sc bufs' he
    rw [he] at h
    exact h

/-- ★ The curve stage never fails with a panic of the curve model (only fuel, or the `clamp` assertion
of `SliderEventsIter::new`), and supplies exactly one entry per slider. -/
theorem curveInputsOfModel_safe (O : BOps R S) (A : Rosu.ConvOsu.Ar R S)
    (E : Rosu.SliderEvents.Arith R) (C : Rosu.Curve.Arith S R) (F : FoldOps R) (fuel : Nat)
    (d : Decoded) (objs : List HObj) (bufs : Bufs S) (hb : BufsWF bufs) :
    curveInputsOfModel O A E C F fuel d objs bufs ≠ .error .panic ∧
    ∀ l, curveInputsOfModel O A E C F fuel d objs bufs = .ok l → l.length = nSliders objs := by
  induction objs generalizing bufs with
  | nil =>
    simp only [curveInputsOfModel, nSliders]
    refine ⟨(by intro h; cases h), ?_⟩
    intro l h
    cases h
    rfl
  | cons h t ih =>
    unfold curveInputsOfModel nSliders
    cases hk : h.kind with
    | circle => simpa using ih bufs hb
    | spinner dur => simpa using ih bufs hb
    | hold dur => simpa using ih bufs hb
    | slider repeats len ns cps =>
      simp only []
      obtain ⟨h1, h2⟩ := sliderCurve_noPanic O A E C F fuel d h.time repeats len cps bufs hb
      cases hsc : sliderCurve O A E C F fuel d h.time repeats len cps bufs with
      | error e =>
        simp only []
        refine ⟨?_, (by intro l hl; cases hl)⟩
        intro he
        injection he with he
        subst he
        exact h1 hsc
      | ok r =>
        obtain ⟨sc, bufs'⟩ := r
        simp only []
        obtain ⟨i1, i2⟩ := ih bufs' (h2 sc bufs' hsc)
        cases ht : curveInputsOfModel O A E C F fuel d t bufs' with
        | error e =>
          simp only []
          refine ⟨?_, (by intro l hl; cases hl)⟩
          rw [ht] at i1
          exact i1
        | ok l' =>
          simp only []
          refine ⟨(by intro he; cases he), ?_⟩
          intro l hl
          cases hl
          simp only [List.length_cons, i2 l' ht]
          omega

/-- Hence `osuObjects` never reports missing inputs on them. -/
theorem osuObjects_of_model (O : BOps R S) (d : Decoded) (objs : List HObj) (l : CurveInputs R S)
    (h : l.length = nSliders objs) : (osuObjects O d objs l).isSome := by
  induction objs generalizing l with
  | nil => simp [osuObjects]
  | cons a t ih =>
    unfold osuObjects
    unfold nSliders at h
    cases hk : a.kind with
    | circle =>
      rw [hk] at h
      simpa using ih l (by simpa using h)
    | spinner dur =>
      rw [hk] at h
      simpa using ih l (by simpa using h)
    | hold dur =>
      rw [hk] at h
      simpa using ih l (by simpa using h)
    | slider repeats len ns cps =>
      rw [hk] at h
      cases l with
      | nil =>
        simp at h
        omega
      | cons c cs' =>
        simp at h
        simpa using ih cs' (by omega)

variable [Rosu.PerfCalc.PPOps R]

/-- ★ The composed pipeline never answers `missingInputs`; and when it answers `panic`, the panic is
NOT in the decoder and NOT in the curve model: either the curve stage stopped at
`SliderEventsIter::new`'s clamp assertion or the downstream pipeline `osuDifficultyFromBytes`
panicked on the model's curve inputs. -/
theorem osu_from_bytes_with_curve_total_lemma (O : BOps R S) (A : Rosu.ConvOsu.Ar R S)
    (E : Rosu.SliderEvents.Arith R) (C : Rosu.Curve.Arith S R) (F : FoldOps R) (fuel : Nat)
    (bytes : List UInt8) (i : OsuInputs R) (take : Nat) :
    osuDifficultyFromBytesCurve O A E C F fuel bytes i take ≠ .missingInputs ∧
    (osuDifficultyFromBytesCurve O A E C F fuel bytes i take = .panic →
      ∃ d objs snd, Rosu.DecodeLine.fromBytes bytes = some d ∧ d.mode = 0 ∧
        d.objects = some (objs, snd) ∧
        (curveInputsOfModel O A E C F fuel d (objs.map (·.2)) Bufs.empty = .error .clampPanic ∨
         ∃ curves, curveInputsOfModel O A E C F fuel d (objs.map (·.2)) Bufs.empty = .ok curves ∧
           osuDifficultyFromBytes O A E fuel bytes i take curves = .panic)) := by
  unfold osuDifficultyFromBytesCurve
  cases hbytes : fromBytes bytes with
  | none =>
    simp only []
    exact ⟨(by intro h; cases h), (by intro h; cases h)⟩
  | some d =>
    simp only []
    split
    · exact ⟨(by intro h; cases h), (by intro h; cases h)⟩
    · rename_i hmode
      have hm0 : d.mode = 0 := by simpa using hmode
      obtain ⟨objs, snds, ho, _⟩ := fromBytes_objects bytes d hbytes (by omega)
      rw [ho]
      simp only []
      obtain ⟨s1, s2⟩ := curveInputsOfModel_safe O A E C F fuel d (objs.map (·.2)) Bufs.empty
        bufsWF_empty
      cases hci : curveInputsOfModel O A E C F fuel d (objs.map (·.2)) Bufs.empty with
      | error e =>
        cases e with
        | panic => exact absurd hci s1
        | fuel =>
          simp only []
          exact ⟨(by intro h; cases h), (by intro h; cases h)⟩
        | clampPanic =>
          simp only []
          exact ⟨(by intro h; cases h), fun _ => ⟨d, objs, snds, rfl, hm0, ho, Or.inl hci⟩⟩
      | ok curves =>
        simp only []
        refine ⟨?_, fun hp => ⟨d, objs, snds, rfl, hm0, ho, Or.inr ⟨curves, hci, hp⟩⟩⟩
        have hsome := osuObjects_of_model O d (objs.map (·.2)) curves (s2 curves hci)
        obtain ⟨os, hos⟩ := Option.isSome_iff_exists.mp hsome
        have hdec : osuDecoded O bytes curves = .ok (d, os) := by
          unfold osuDecoded
          rw [hbytes]
          simp only []
          rw [if_neg hmode, ho]
          simp only []
          rw [hos]
        unfold osuDifficultyFromBytes
        rw [hdec]
        simp only []
        cases Rosu.PipelineOsu.osuDifficulty A E fuel (osuSettings O d i) take os <;>
          simp [ofRes]

end

end Rosu.PipelineCurve
