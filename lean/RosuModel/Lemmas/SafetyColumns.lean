import RosuModel.Model.SafetyColumns

/-! Lemmas about `ContainedColumns` and `find_available_column` (core Lean only). -/
namespace Rosu.Safety

theorem shl16_some {c : Nat} (h : c < 16) : shl16 c = some (2 ^ c) := by
  unfold shl16; rw [if_pos h]

theorem shl16_none {c : Nat} (h : 16 ≤ c) : shl16 c = none := by
  unfold shl16; rw [if_neg (by omega)]

/-- with `column < 16` neither `insert` nor `contains` can panic -/
theorem Cols.insert_some (s : Cols) {c : Nat} (h : c < 16) : Cols.insert s c = some (s ||| 2 ^ c) := by
  unfold Cols.insert; rw [shl16_some h]

theorem Cols.contains_some (s : Cols) {c : Nat} (h : c < 16) :
    Cols.contains s c = some (s &&& 2 ^ c != 0) := by
  unfold Cols.contains; rw [shl16_some h]

theorem and_two_pow_ne_zero (s c : Nat) : (s &&& 2 ^ c != 0) = s.testBit c := by
  cases h : s.testBit c
  · have : s &&& 2 ^ c = 0 := by
      apply Nat.eq_of_testBit_eq
      intro i
      rw [Nat.testBit_and, Nat.testBit_two_pow, Nat.zero_testBit]
      by_cases hi : c = i
      · subst hi; simp [h]
      · simp [hi]
    simp [this]
  · have : (s &&& 2 ^ c).testBit c = true := by
      rw [Nat.testBit_and, Nat.testBit_two_pow]; simp [h]
    have hne : s &&& 2 ^ c ≠ 0 := by
      intro h0; rw [h0, Nat.zero_testBit] at this; cases this
    simp [hne]

theorem Cols.contains_eq_testBit (s : Cols) {c : Nat} (h : c < 16) :
    Cols.contains s c = some (s.testBit c) := by
  rw [Cols.contains_some s h, and_two_pow_ne_zero]

/-- `contains` after `insert` -/
theorem Cols.contains_insert (s : Cols) {c d : Nat} (hc : c < 16) (hd : d < 16) :
    ∃ s', Cols.insert s c = some s' ∧
      Cols.contains s' d = some (decide (d = c) || s.testBit d) := by
  refine ⟨_, Cols.insert_some s hc, ?_⟩
  rw [Cols.contains_eq_testBit _ hd, Nat.testBit_or, Nat.testBit_two_pow]
  congr 1
  rw [Bool.or_comm]
  congr 1
  by_cases h : c = d <;> simp [h, eq_comm]

/-- `is_valid` cannot panic for `column < 16`, and is the obvious predicate -/
theorem isValid_eq (patterns : List Cols) {c : Nat} (h : c < 16) :
    isValid patterns c = some (patterns.all (fun p => !p.testBit c)) := by
  induction patterns with
  | nil => rfl
  | cons p ps ih =>
    unfold isValid
    rw [Cols.contains_eq_testBit p h]
    cases hp : p.testBit c
    · simp [ih, hp]
    · simp [hp]

theorem isValid_isSome (patterns : List Cols) {c : Nat} (h : c < 16) :
    (isValid patterns c).isSome = true := by rw [isValid_eq patterns h]; rfl

/-- a shift by 16 or more panics (debug) as soon as a pattern is consulted -/
theorem isValid_none_of_ge (p : Cols) (ps : List Cols) {c : Nat} (h : 16 ≤ c) :
    isValid (p :: ps) c = none := by
  unfold isValid Cols.contains; rw [shl16_none h]

/-- `(lower..lower+n).any(is_valid)` decides existence of a valid column in the range -/
theorem hasValidColumn_spec (patterns : List Cols) : ∀ (n lower : Nat), lower + n ≤ 16 →
    ∃ b, hasValidColumn patterns lower n = some b ∧
      (b = true ↔ ∃ c, lower ≤ c ∧ c < lower + n ∧ isValid patterns c = some true) := by
  intro n
  induction n with
  | zero =>
    intro lower _
    exact ⟨false, rfl, by simp; intro c h1 h2; omega⟩
  | succ n ih =>
    intro lower hle
    unfold hasValidColumn
    have hl : lower < 16 := by omega
    cases hv : (patterns.all (fun p => !p.testBit lower))
    · rw [isValid_eq patterns hl, hv]
      obtain ⟨b, hb, hiff⟩ := ih (lower + 1) (by omega)
      refine ⟨b, hb, ?_⟩
      rw [hiff]
      constructor
      · rintro ⟨c, h1, h2, h3⟩; exact ⟨c, by omega, by omega, h3⟩
      · rintro ⟨c, h1, h2, h3⟩
        have : c ≠ lower := by
          intro heq; subst heq
          rw [isValid_eq patterns hl, hv] at h3; cases h3
        exact ⟨c, by omega, by omega, h3⟩
    · rw [isValid_eq patterns hl, hv]
      exact ⟨true, rfl, by simp; exact ⟨lower, by omega, by omega, by rw [isValid_eq patterns hl, hv]⟩⟩

/-- number of `GATHERED` steps from `col` to `c` -/
def gatheredSteps (total rs col c : Nat) : Nat :=
  if col < c then c - col else total - col + (c - rs)

theorem gatheredSteps_le (total rs col c : Nat) (hcol : col < total) (hc1 : rs ≤ c) (hc2 : c < total) :
    gatheredSteps total rs col c ≤ total := by
  unfold gatheredSteps; split <;> omega

/-- The `GATHERED` loop: from any column `< total`, if some column of `[rs, total)` is valid, the
loop finds a valid column of `[rs, total)` within `gatheredSteps` iterations — no `u8` overflow,
no shift overflow. -/
theorem facLoop_gathered (patterns : List Cols) (total rs : Nat) (ht : total ≤ 16) (hrs : rs ≤ 1)
    (c : Nat) (hc1 : rs ≤ c) (hc2 : c < total) (hcv : isValid patterns c = some true) :
    ∀ (fuel col : Nat), col < total → isValid patterns col ≠ some true ∨ col ≠ c →
      (col = c → total - rs ≤ fuel) → gatheredSteps total rs col c ≤ fuel →
      ∃ c', facLoop (gatheredNext total rs) patterns fuel () col = .found c' ∧
        rs ≤ c' ∧ c' < total ∧ isValid patterns c' = some true := by
  intro fuel
  induction fuel with
  | zero =>
    intro col hcol _ hfull hsteps
    exfalso
    unfold gatheredSteps at hsteps
    by_cases hcc : col = c
    · have := hfull hcc; omega
    · split at hsteps <;> omega
  | succ fuel ih =>
    intro col hcol hinv hfull hsteps
    unfold facLoop gatheredNext nextGathered
    rw [if_neg (by omega)]
    by_cases hw : col + 1 = total
    · -- wrap to random_start
      rw [if_pos hw]
      simp only [Option.map_some]
      have hrs16 : rs < 16 := by omega
      cases hv : (patterns.all (fun p => !p.testBit rs))
      · rw [isValid_eq patterns hrs16, hv]
        have hne : rs ≠ c := by
          intro h; subst h; rw [isValid_eq patterns hrs16, hv] at hcv; cases hcv
        apply ih rs (by omega) (Or.inr hne) (fun h => absurd h hne)
        unfold gatheredSteps at hsteps ⊢
        by_cases hcc : col = c
        · have := hfull hcc
          rw [if_pos (by omega)]; omega
        · rw [if_pos (by omega)]
          split at hsteps <;> omega
      · rw [isValid_eq patterns hrs16, hv]
        exact ⟨rs, rfl, Nat.le_refl _, by omega, by rw [isValid_eq patterns hrs16, hv]⟩
    · rw [if_neg hw]
      simp only [Option.map_some]
      have h16 : col + 1 < 16 := by omega
      cases hv : (patterns.all (fun p => !p.testBit (col + 1)))
      · rw [isValid_eq patterns h16, hv]
        have hne : col + 1 ≠ c := by
          intro h; subst h; rw [isValid_eq patterns h16, hv] at hcv; cases hcv
        apply ih (col + 1) (by omega) (Or.inr hne) (fun h => absurd h hne)
        unfold gatheredSteps at hsteps ⊢
        by_cases hcc : col = c
        · have := hfull hcc
          rw [if_neg (by omega)]; omega
        · split at hsteps <;> split <;> omega
      · rw [isValid_eq patterns h16, hv]
        exact ⟨col + 1, rfl, by omega, by omega, by rw [isValid_eq patterns h16, hv]⟩

theorem facLoop_succ {σ : Type} (next : σ → Nat → Option (σ × Nat)) (patterns : List Cols)
    (fuel : Nat) (st : σ) (col : Nat) :
    facLoop next patterns (fuel + 1) st col =
      match next st col with
      | none => .panic
      | some (st', col') =>
        match isValid patterns col' with
        | none => .panic
        | some true => .found col'
        | some false => facLoop next patterns fuel st' col' := rfl

/-- The stream-driven loop (PRNG variants) finds the first valid draw, if there is one within the fuel. -/
theorem facLoop_stream_found (patterns : List Cols) (stream : Nat → Nat) :
    ∀ (fuel k col j : Nat), j < fuel → isValid patterns (stream (k + j)) = some true →
      (∀ i, i < j → isValid patterns (stream (k + i)) = some false) →
      facLoop (streamNext stream) patterns fuel k col = .found (stream (k + j)) := by
  intro fuel
  induction fuel with
  | zero => intro k col j hj; omega
  | succ fuel ih =>
    intro k col j hj hv hbefore
    have hn : streamNext stream k col = some (k + 1, stream k) := rfl
    rw [facLoop_succ, hn]
    cases j with
    | zero =>
      rw [Nat.add_zero] at hv
      simp only [hv, Nat.add_zero]
    | succ j =>
      have h0 := hbefore 0 (by omega)
      rw [Nat.add_zero] at h0
      simp only [h0]
      have := ih (k + 1) (stream k) j (by omega) (by rw [show k + 1 + j = k + (j + 1) by omega]; exact hv)
        (fun i hi => by rw [show k + 1 + i = k + (i + 1) by omega]; exact hbefore (i + 1) (by omega))
      rw [this, show k + 1 + j = k + (j + 1) by omega]

/-- …and runs out of any fuel when the stream never yields a valid column: termination of the
PRNG-driven variant is a property of the stream, not of the loop. -/
theorem facLoop_stream_spins (patterns : List Cols) (stream : Nat → Nat)
    (hbad : ∀ k, isValid patterns (stream k) = some false) :
    ∀ (fuel k col : Nat), facLoop (streamNext stream) patterns fuel k col = .outOfFuel := by
  intro fuel
  induction fuel with
  | zero => intro k col; rfl
  | succ fuel ih =>
    intro k col
    have hn : streamNext stream k col = some (k + 1, stream k) := rfl
    rw [facLoop_succ, hn]
    simp only [hbad k]
    exact ih (k + 1) (stream k)

/-! ### the counting argument behind `assert!(has_valid_column)` -/

theorem Cols.len_eq_countP (s : Cols) : Cols.len s = (List.range 16).countP (fun i => s.testBit i) := by
  unfold Cols.len; rw [List.countP_eq_length_filter]

/-- occupied columns inside a sub-range are at most `len` -/
theorem countP_range'_le_len (s : Cols) (lo n : Nat) (h : lo + n ≤ 16) :
    (List.range' lo n).countP (fun i => s.testBit i) ≤ Cols.len s := by
  rw [Cols.len_eq_countP]
  apply List.Sublist.countP_le
  rw [List.range_eq_range']
  have : List.range' 0 16 = List.range' 0 lo ++ (List.range' lo n ++ List.range' (lo + n) (16 - (lo + n))) := by
    rw [List.range'_append_1, show List.range' lo (n + (16 - (lo + n))) = List.range' (0 + lo) (n + (16 - (lo + n))) by rw [Nat.zero_add],
      List.range'_append_1]
    congr 1; omega
  rw [this]
  exact (List.sublist_append_left _ _).trans (List.sublist_append_right _ _)

/-- If fewer columns are occupied (counting both patterns) than the range `[lo, lo+n)` has columns,
some column of the range is free: the precondition under which the callers' `assert!` holds. -/
theorem exists_valid_of_count (p1 p2 : Cols) (lo n : Nat) (h : lo + n ≤ 16)
    (hcount : Cols.len p1 + Cols.len p2 < n) :
    ∃ c, lo ≤ c ∧ c < lo + n ∧ isValid [p1, p2] c = some true := by
  apply Classical.byContradiction
  intro hno
  have hall : ∀ c ∈ List.range' lo n, (p1.testBit c || p2.testBit c) = true := by
    intro c hc
    rw [List.mem_range'_1] at hc
    have h16 : c < 16 := by omega
    cases h1 : p1.testBit c
    · cases h2 : p2.testBit c
      · exfalso
        apply hno
        refine ⟨c, hc.1, hc.2, ?_⟩
        rw [isValid_eq _ h16]
        simp [h1, h2]
      · rfl
    · rfl
  have hc : (List.range' lo n).countP (fun c => p1.testBit c || p2.testBit c) = n := by
    rw [List.countP_eq_length.mpr hall, List.length_range']
  have hle : (List.range' lo n).countP (fun c => p1.testBit c || p2.testBit c) ≤
      (List.range' lo n).countP (fun c => p1.testBit c) + (List.range' lo n).countP (fun c => p2.testBit c) := by
    generalize List.range' lo n = l
    induction l with
    | nil => simp
    | cons a l ih =>
      simp only [List.countP_cons]
      cases p1.testBit a <;> cases p2.testBit a <;> simp <;> omega
  have := countP_range'_le_len p1 lo n h
  have := countP_range'_le_len p2 lo n h
  omega

end Rosu.Safety
