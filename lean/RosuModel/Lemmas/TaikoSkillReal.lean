import RosuModel.Model.TaikoSkill
import RosuModel.Lemmas.SkillOpsReal
import RosuModel.Lemmas.SkillV

/-!
The osu!taiko evaluators and skills over ℝ: side conditions of every division / `powf` / `sqrt`,
ranges, and signs — in terms of explicit hypotheses on the per-object input records.
-/

namespace Rosu.TaikoSkill
open Rosu.SkillOps
open Rosu.Skill (Obj)

/-! ### helpers -/

theorem logistic_real (x m k mv : ℝ) : logistic x m k mv = mv / (1 + Real.exp (k * (m - x))) := by
  unfold logistic
  simp only [r_div, r_add, r_mul, r_sub, r_exp, r_lit]
  norm_num

/-- `logistic` with a non-negative maximum: the denominator `1 + exp(..)` is `> 1`, the value lies
in `[0, max_value)` -/
theorem logistic_mem {mv : ℝ} (x m k : ℝ) (hmv : 0 ≤ mv) :
    0 < 1 + Real.exp (k * (m - x)) ∧ 0 ≤ logistic x m k mv ∧ logistic x m k mv ≤ mv := by
  rw [logistic_real]
  have he : 0 < Real.exp (k * (m - x)) := Real.exp_pos _
  refine ⟨by positivity, by positivity, ?_⟩
  rw [div_le_iff₀ (by positivity)]
  nlinarith

theorem logistic_pos {mv : ℝ} (x m k : ℝ) (hmv : 0 < mv) : 0 < logistic x m k mv := by
  rw [logistic_real]
  have he : 0 < Real.exp (k * (m - x)) := Real.exp_pos _
  positivity

theorem logisticExp_real (e mv : ℝ) : logisticExp e mv = mv / (1 + Real.exp e) := by
  unfold logisticExp
  simp only [r_div, r_add, r_exp, r_lit]
  norm_num

theorem logisticExp_mem {mv : ℝ} (e : ℝ) (hmv : 0 ≤ mv) :
    0 ≤ logisticExp e mv ∧ logisticExp e mv ≤ mv := by
  rw [logisticExp_real]
  have he : 0 < Real.exp e := Real.exp_pos _
  refine ⟨by positivity, ?_⟩
  rw [div_le_iff₀ (by positivity)]
  nlinarith

theorem logisticExp_one_mem (e : ℝ) : 0 < logisticExp e (1 : ℝ) ∧ logisticExp e (1 : ℝ) < 1 := by
  rw [logisticExp_real]
  have he : 0 < Real.exp e := Real.exp_pos _
  refine ⟨by positivity, ?_⟩
  rw [div_lt_one (by positivity)]
  linarith

/-! ### stamina -/

/-- `speed_bonus`: the divisor `max(interval, 1)` is `≥ 1`; the bonus lies in `(0, 20]` -/
theorem speedBonus_mem (x : ℝ) : 0 < speedBonus x ∧ speedBonus x ≤ 20 := by
  unfold speedBonus
  simp only [r_div, r_fmax, r_lit]
  have h1 : (1 : ℝ) ≤ max x (OfScientific.ofScientific 10 true 1) := le_trans (by norm_num) (le_max_right _ _)
  have h0 : (0 : ℝ) < max x (OfScientific.ofScientific 10 true 1) := by linarith
  constructor
  · exact div_pos (by norm_num) h0
  · rw [div_le_iff₀ h0]
    norm_num at h1 ⊢

theorem staminaEval_nonneg (o : TObj ℝ) : 0 ≤ staminaEval o := by
  unfold staminaEval
  by_cases hh : (!o.data.isHit) = true
  · rw [if_pos hh, r_lit]; norm_num
  · rw [if_neg hh]
    dsimp only
    cases o.data.prev2Start with
    | none => dsimp only; rw [r_lit]; norm_num
    | some prev =>
      dsimp only
      cases (if availableFingers o = 2 then o.data.prevMono2 else o.data.prevMono8) with
      | none => dsimp only; rw [r_lit]; norm_num
      | some pm =>
        dsimp only
        have h1 := (speedBonus_mem (o.startTime - pm)).1
        have h2 := (speedBonus_mem (o.startTime - prev)).1
        simp only [r_add, r_mul, r_lit]
        norm_num
        linarith

theorem monolengthBonus_mem (i : Int) : 1 ≤ (monolengthBonus i : ℝ) ∧ (monolengthBonus i : ℝ) ≤ 1.3 := by
  unfold monolengthBonus
  simp only [r_add, r_fmin, r_fmax, r_div, r_lit, r_ofInt]
  norm_num
  have : min (max (((i : ℝ) - 5) / 50) 0) (3 / 10 : ℝ) ≤ 3 / 10 := min_le_right _ _
  linarith

theorem staminaDecay_nonneg (ms : ℝ) : 0 ≤ strainDecay ms (staminaDecayBase : ℝ) := by
  rw [strainDecay_real]
  simp only [staminaDecayBase, r_lit]
  exact Real.rpow_nonneg (by norm_num) _

/-- the running strain of `Stamina` after one object -/
theorem staminaValueAt_cur (sc ic : Bool) (cur : ℝ) (o : TObj ℝ) :
    (staminaValueAt sc ic cur o).1
      = cur * strainDecay o.data.deltaTime staminaDecayBase + staminaEval o * staminaMultiplier := by
  unfold staminaValueAt
  simp only [r_add, r_mul]

/-- **stamina, both variants**: the running strain stays `≥ 0`; the value is `≥ 0`; it does not
depend on the variant for the running strain; the single-colour value is `≤` the running strain
and the normal value is `≥` the running strain. -/
theorem staminaValueAt_spec (sc ic : Bool) {cur : ℝ} (hc : 0 ≤ cur) (o : TObj ℝ) :
    0 ≤ (staminaValueAt sc ic cur o).1 ∧ 0 ≤ (staminaValueAt sc ic cur o).2 ∧
      (sc = true → (staminaValueAt sc ic cur o).2 ≤ (staminaValueAt sc ic cur o).1) ∧
      (sc = false → (staminaValueAt sc ic cur o).1 ≤ (staminaValueAt sc ic cur o).2) := by
  have hcur : 0 ≤ (staminaValueAt sc ic cur o).1 := by
    rw [staminaValueAt_cur]
    have := staminaDecay_nonneg o.data.deltaTime
    have := staminaEval_nonneg o
    have hm : (0 : ℝ) ≤ staminaMultiplier := by simp only [staminaMultiplier, r_lit]; norm_num
    positivity
  have hcur' := hcur
  rw [staminaValueAt_cur] at hcur'
  unfold staminaValueAt
  simp only [r_add, r_mul]
  refine ⟨hcur', ?_, ?_, ?_⟩
  · split
    · exact (logisticExp_mem _ hcur').1
    · split
      · exact hcur'
      · have := (monolengthBonus_mem (o.data.monoIndex : Int)).1
        exact mul_nonneg hcur' (by linarith)
  · intro h
    subst h
    simp only [if_true]
    exact (logisticExp_mem _ hcur').2
  · intro h
    subst h
    simp only [Bool.false_eq_true, if_false]
    split
    · exact le_refl _
    · have := (monolengthBonus_mem (o.data.monoIndex : Int)).1
      nlinarith

theorem staminaInitial_nonneg (sc : Bool) {cur : ℝ} (hc : 0 ≤ cur) (t : ℝ) (o : TObj ℝ) :
    0 ≤ staminaInitial sc cur t o := by
  unfold staminaInitial
  split
  · rw [r_lit]; norm_num
  · rw [r_mul]; exact mul_nonneg hc (staminaDecay_nonneg _)

theorem staminaFns_ok (sc ic : Bool) :
    FnsOK (staminaFns sc ic : FnsV ℝ (TRec ℝ) ℝ) (fun cur => 0 ≤ cur) (fun v => 0 ≤ v) (fun v => 0 ≤ v)
      (fun _ => True) where
  value := by
    intro s o s' v hs _ h
    simp only [staminaFns, Option.some.injEq] at h
    have := staminaValueAt_spec sc ic hs o
    rw [h] at this
    exact ⟨this.1, this.2.1, this.2.1⟩
  initial := fun s t o hs _ => staminaInitial_nonneg sc hs t o

/-! ### the macro-generated decay skill -/

/-- `strain_value_at` / `calculate_initial_strain` of a `StrainDecaySkill` keep everything `≥ 0`
when `strain_value_of` does, for a multiplier and a decay base `≥ 0` -/
theorem decayFns_ok {σ : Type} {mult base : ℝ} (hm : 0 ≤ mult) (hb : 0 ≤ base)
    (valueOf : σ → TObj ℝ → Option (σ × ℝ)) (InvS : σ → Prop) (ObjOK : TObj ℝ → Prop)
    (hv : ∀ s o s' v, InvS s → ObjOK o → valueOf s o = some (s', v) → InvS s' ∧ 0 ≤ v) :
    FnsOK (decayFns mult base valueOf) (fun st => 0 ≤ st.1 ∧ InvS st.2) (fun v => 0 ≤ v)
      (fun v => 0 ≤ v) ObjOK where
  value := by
    intro s o s' v hs ho h
    simp only [decayFns, decayValueAt] at h
    cases hvo : valueOf s.2 o with
    | none => rw [hvo] at h; cases h
    | some r =>
      obtain ⟨s1, v1⟩ := r
      rw [hvo] at h
      simp only [Option.some.injEq, Prod.mk.injEq] at h
      obtain ⟨h1, h2⟩ := h
      obtain ⟨hi, hv1⟩ := hv _ _ _ _ hs.2 ho hvo
      have hd : 0 ≤ s.1 * strainDecay o.data.deltaTime base := by
        rw [strainDecay_real]; exact mul_nonneg hs.1 (Real.rpow_nonneg hb _)
      have hval : 0 ≤ s.1 * strainDecay o.data.deltaTime base + v1 * mult := by
        have := mul_nonneg hv1 hm; linarith
      simp only [r_add, r_mul] at h1 h2
      subst h2
      rw [← h1]
      exact ⟨⟨hval, hi⟩, hval, hval⟩
  initial := by
    intro s t o hs _
    simp only [decayFns, decayInitial, r_mul]
    rw [strainDecay_real]
    exact mul_nonneg hs.1 (Real.rpow_nonneg hb _)

/-! ### reading -/

theorem one_lit_nonneg : (0 : ℝ) ≤ @OfScientific.ofScientific ℝ FOps.toOfScientific 10 true 1 := by
  rw [r_one]; norm_num

theorem cappedBpm_ge_one (o : TObj ℝ) : 1 ≤ cappedBpm o := by
  unfold cappedBpm
  rw [r_fmax, r_one]
  exact le_max_left _ _

theorem densityPenalty_mem (o : TObj ℝ) : 0 ≤ densityPenalty o ∧ densityPenalty o ≤ 1 := by
  unfold densityPenalty
  dsimp only
  exact ⟨(logistic_mem _ _ _ one_lit_nonneg).2.1,
    le_trans (logistic_mem _ _ _ one_lit_nonneg).2.2 (by rw [r_one])⟩

/-- `ReadingEvaluator::evaluate_diff_of ≥ 0`: both logistic terms are positive and
`1 − 0.33·density_penalty ≥ 0.67` -/
theorem readingEval_nonneg (o : TObj ℝ) : 0 ≤ readingEval o := by
  unfold readingEval midVelocityDiff highVelocityDiff
  dsimp only
  have hp := densityPenalty_mem o
  simp only [r_add, r_mul, r_sub]
  refine add_nonneg (mul_nonneg ?_ (logistic_mem _ _ _ one_lit_nonneg).2.1)
    (mul_nonneg ?_ (logistic_mem _ _ _ one_lit_nonneg).2.1)
  · rw [r_lit]; norm_num
  · simp only [r_lit]; norm_num; nlinarith [hp.1, hp.2]

/-- `Reading::strain_value_of` keeps the skill's own `current_strain ≥ 0` and returns a value `≥ 0` -/
theorem readingValueOf_spec (cur : ℝ) (o : TObj ℝ) (hc : 0 ≤ cur) (s' v : ℝ)
    (h : readingValueOf cur o = some (s', v)) : 0 ≤ s' ∧ 0 ≤ v := by
  unfold readingValueOf at h
  by_cases hh : (!o.data.isHit) = true
  · rw [if_pos hh] at h
    simp only [Option.some.injEq, Prod.mk.injEq] at h
    obtain ⟨rfl, rfl⟩ := h
    exact ⟨hc, by rw [r_zero]⟩
  · rw [if_neg hh] at h
    simp only [Option.some.injEq, Prod.mk.injEq] at h
    obtain ⟨rfl, rfl⟩ := h
    have hl := (logistic_mem (FOps.ofInt (o.data.monoIndex : Int) : ℝ) 4.0 (-1.0 / 25.0)
      (show (0 : ℝ) ≤ (0.5 : ℝ) by rw [r_lit]; norm_num)).2.1
    have he := readingEval_nonneg o
    have h05 : (0 : ℝ) ≤ (0.5 : ℝ) := by rw [r_lit]; norm_num
    have h04 : (0 : ℝ) ≤ (0.4 : ℝ) := by rw [r_lit]; norm_num
    have h10 : (0 : ℝ) ≤ (1.0 : ℝ) := one_lit_nonneg
    simp only [r_add, r_mul] at *
    have h1 : 0 ≤ cur * (logistic (FOps.ofInt (o.data.monoIndex : Int) : ℝ) 4.0 (-1.0 / 25.0) 0.5 + 0.5) :=
      mul_nonneg hc (by linarith)
    have h2 := mul_nonneg h1 h04
    have h3 := mul_nonneg he h10
    constructor <;> linarith

theorem readingFns_ok :
    FnsOK (readingFns : FnsV ℝ (TRec ℝ) (ℝ × ℝ)) (fun st => 0 ≤ st.1 ∧ 0 ≤ st.2) (fun v => 0 ≤ v)
      (fun v => 0 ≤ v) (fun _ => True) := by
  unfold readingFns
  refine decayFns_ok (by rw [r_one]; norm_num) (by rw [r_lit]; norm_num) readingValueOf (fun c => 0 ≤ c)
    (fun _ => True) ?_
  intro s o s' v hs _ h
  exact readingValueOf_spec s o hs s' v h

/-! ### rhythm -/

/-- `ratio_difficulty ≥ 0`: it ends with `max(·, 0) / sqrt(8)` -/
theorem ratioDifficulty_nonneg (ratio : ℝ) : 0 ≤ ratioDifficulty ratio := by
  unfold ratioDifficulty
  simp only [r_div, r_fmax, r_sqrt]
  exact div_nonneg (le_max_of_le_right (by rw [r_zero])) (Real.sqrt_nonneg _)

theorem sameInterval_mem (chain : List (Option ℝ)) (n : Nat) :
    sameInterval chain n = 0.8 ∨ sameInterval chain n = 1.0 := by
  unfold sameInterval
  dsimp only
  split
  · right; rfl
  · split
    · left; rfl
    · right; rfl

theorem sameInterval_bounds (chain : List (Option ℝ)) (n : Nat) :
    (0.8 : ℝ) ≤ sameInterval chain n ∧ sameInterval chain n ≤ 1 := by
  rcases sameInterval_mem chain n with h | h <;> rw [h, r_lit] <;> norm_num

/-- `repeated_interval_penalty ∈ [0.4, 1]` -/
theorem repeatedIntervalPenalty_mem (g : RhythmGroup ℝ) (hw : ℝ) :
    0.4 ≤ repeatedIntervalPenalty g hw ∧ repeatedIntervalPenalty g hw ≤ 1 ∨
      (∃ d, g.duration = some d ∧ 0.4 ≤ repeatedIntervalPenalty g hw) := by
  unfold repeatedIntervalPenalty
  dsimp only
  have hl := sameInterval_bounds g.chain 3
  have hs : (0.8 : ℝ) ≤ (if g.len < 6 then sameInterval g.chain 4 else 1.0) ∧
      (if g.len < 6 then sameInterval g.chain 4 else (1.0 : ℝ)) ≤ 1 := by
    split
    · exact sameInterval_bounds g.chain 4
    · rw [r_one]; norm_num
  have hmin : (0.8 : ℝ) ≤ min (sameInterval g.chain 3) (if g.len < 6 then sameInterval g.chain 4 else 1.0) :=
    le_min hl.1 hs.1
  have hmin1 : min (sameInterval g.chain 3) (if g.len < 6 then sameInterval g.chain 4 else (1.0 : ℝ)) ≤ 1 :=
    le_trans (min_le_left _ _) hl.2
  simp only [r_mul, r_fmin]
  cases hd : g.duration with
  | none =>
    left
    dsimp only
    rw [r_lit]
    constructor <;> nlinarith
  | some d =>
    right
    refine ⟨d, rfl, ?_⟩
    dsimp only
    simp only [r_fmax, r_sub, r_div, r_lit]
    norm_num at hmin ⊢
    have hx : (1 / 2 : ℝ) ≤ max (1 - d * 2 / hw) (1 / 2) := le_max_right _ _
    have hm := le_min hmin.1 hmin.2
    have := mul_le_mul hm hx (by norm_num) (by linarith)
    linarith

theorem repeatedIntervalPenalty_nonneg (g : RhythmGroup ℝ) (hw : ℝ) : 0 ≤ repeatedIntervalPenalty g hw := by
  rcases repeatedIntervalPenalty_mem g hw with h | ⟨_, _, h⟩ <;> linarith [h]

theorem logistic_one_nonneg (x m k : ℝ) :
    0 ≤ logistic x m k (@OfScientific.ofScientific ℝ FOps.toOfScientific 10 true 1) :=
  (logistic_mem x m k one_lit_nonneg).2.1

theorem applyDurationDiff_nonneg (g : RhythmGroup ℝ) (hw : ℝ) {x : ℝ} (hx : 0 ≤ x) :
    0 ≤ applyDurationDiff g hw x := by
  unfold applyDurationDiff
  split
  · dsimp only
    split
    · rw [r_mul]; exact mul_nonneg hx (logistic_one_nonneg _ _ _)
    · exact hx
  · exact hx

theorem applyDuration_nonneg (g : RhythmGroup ℝ) (hw : ℝ) {x : ℝ} (hx : 0 ≤ x) :
    0 ≤ applyDuration g hw x := by
  unfold applyDuration
  split
  · rw [r_mul]; exact mul_nonneg hx (logistic_one_nonneg _ _ _)
  · exact hx

/-- `evaluate_diff_of_` (one same-rhythm group) is `≥ 0`: the base of `powf(·, 0.75)` is a product of
non-negative factors -/
theorem evaluateGroup_base_nonneg (g : RhythmGroup ℝ) (hw : ℝ) :
    0 ≤ applyDuration g hw (applyDurationDiff g hw
      (ratioDifficulty g.intervalRatio * repeatedIntervalPenalty g hw)) :=
  applyDuration_nonneg g hw (applyDurationDiff_nonneg g hw
    (by rw [r_mul]; exact mul_nonneg (ratioDifficulty_nonneg _) (repeatedIntervalPenalty_nonneg g hw)))

theorem evaluateGroup_nonneg (g : RhythmGroup ℝ) (hw : ℝ) : 0 ≤ evaluateGroup g hw := by
  unfold evaluateGroup
  dsimp only
  rw [r_powf]
  exact Real.rpow_nonneg (evaluateGroup_base_nonneg g hw) _

theorem sameRhythmPart_nonneg (o : TObj ℝ) (hw : ℝ) :
    0 ≤ (sameRhythmPart o hw).1 ∧ 0 ≤ (sameRhythmPart o hw).2 := by
  unfold sameRhythmPart
  split
  · dsimp only
    refine ⟨?_, repeatedIntervalPenalty_nonneg _ hw⟩
    have := evaluateGroup_nonneg ‹RhythmGroup ℝ› hw
    simp only [r_add, r_mul, r_lit]; norm_num; linarith
  · dsimp only; rw [r_zero]; exact ⟨le_refl _, le_refl _⟩

/-- `RhythmEvaluator::evaluate_diff_of ≥ 0` -/
theorem rhythmEval_nonneg (o : TObj ℝ) (hw : ℝ) : 0 ≤ rhythmEval o hw := by
  unfold rhythmEval
  dsimp only
  have h := sameRhythmPart_nonneg o hw
  simp only [r_add, r_mul, r_fmax, r_zero]
  have := mul_nonneg (le_trans h.1 (le_max_left _ (samePatternPart o))) h.2
  linarith

/-- `Rhythm::strain_value_of ≥ 0` -/
theorem rhythmValueOf_nonneg (hw : ℝ) (o : TObj ℝ) : 0 ≤ rhythmValueOf hw o := by
  unfold rhythmValueOf
  dsimp only
  rw [r_mul]
  exact mul_nonneg (rhythmEval_nonneg o hw) (logistic_one_nonneg _ _ _)

theorem rhythmFns_ok (hw : ℝ) :
    FnsOK (rhythmFns hw : FnsV ℝ (TRec ℝ) (ℝ × Unit)) (fun st => 0 ≤ st.1 ∧ True) (fun v => 0 ≤ v)
      (fun v => 0 ≤ v) (fun _ => True) := by
  unfold rhythmFns
  refine decayFns_ok (by rw [r_one]; norm_num) (by rw [r_lit]; norm_num) _ (fun _ => True) (fun _ => True) ?_
  intro s o s' v _ _ h
  simp only [Option.some.injEq, Prod.mk.injEq] at h
  rw [← h.2]
  exact ⟨trivial, rhythmValueOf_nonneg hw o⟩

/-! ### colour -/

theorem logisticExp_lit_mem (e : ℝ) :
    0 < logisticExp e (@OfScientific.ofScientific ℝ FOps.toOfScientific 10 true 1) ∧
      logisticExp e (@OfScientific.ofScientific ℝ FOps.toOfScientific 10 true 1) < 1 := by
  rw [r_one]; exact logisticExp_one_mem e

theorem evalRep_mem (i : Nat) : 0 < (evalRep i : ℝ) ∧ (evalRep i : ℝ) < 2 := by
  unfold evalRep
  have := logisticExp_lit_mem (patternArg i)
  simp only [r_mul, r_sub, r_lit] at *
  norm_num at this ⊢
  constructor <;> nlinarith [this.1, this.2]

theorem altParentEval_mem (p : Option Nat) : 0 < (altParentEval p : ℝ) ∧ (altParentEval p : ℝ) < 2 := by
  unfold altParentEval
  split
  · exact evalRep_mem _
  · rw [r_one]; norm_num

theorem evalAlt_mem (a : Nat × Option Nat) : 0 < (evalAlt a : ℝ) ∧ (evalAlt a : ℝ) < 2 := by
  unfold evalAlt
  have hl := logisticExp_lit_mem (patternArg a.1)
  have hp := altParentEval_mem a.2
  rw [r_mul]
  constructor
  · exact mul_pos hl.1 hp.1
  · nlinarith [hl.1, hl.2, hp.1, hp.2]

theorem monoParentEval_mem (p : Option (Nat × Option Nat)) :
    0 < (monoParentEval p : ℝ) ∧ (monoParentEval p : ℝ) < 2 := by
  unfold monoParentEval
  split
  · exact evalAlt_mem _
  · rw [r_one]; norm_num

theorem evalMono_mem (m : Nat × Option (Nat × Option Nat)) : 0 < (evalMono m : ℝ) ∧ (evalMono m : ℝ) < 1 := by
  unfold evalMono
  have hl := logisticExp_lit_mem (patternArg m.1)
  have hp := monoParentEval_mem m.2
  simp only [r_mul, r_lit] at hl ⊢
  norm_num at hl ⊢
  constructor
  · exact mul_pos hl.1 hp.1
  · nlinarith [hl.1, hl.2, hp.1, hp.2]

theorem addOpt_nonneg {x : ℝ} (hx : 0 ≤ x) (t : Option ℝ) (ht : ∀ v, t = some v → 0 ≤ v) :
    0 ≤ addOpt x t := by
  unfold addOpt
  split
  · rw [r_add]; have := ht _ rfl; linarith
  · exact hx

/-- the sum of the three pattern terms of `evaluate_difficulty_of` is `≥ 0` -/
theorem colorTerms_nonneg (d : TRec ℝ) : 0 ≤ colorTerms d := by
  unfold colorTerms
  refine addOpt_nonneg (addOpt_nonneg (addOpt_nonneg (by rw [r_zero]) _ ?_) _ ?_) _ ?_
  · intro v hv
    cases hm : d.monoFirst with
    | none => rw [hm] at hv; cases hv
    | some m => rw [hm] at hv; cases hv; exact (evalMono_mem m).1.le
  · intro v hv
    cases hm : d.altFirst with
    | none => rw [hm] at hv; cases hv
    | some m => rw [hm] at hv; cases hv; exact (evalAlt_mem m).1.le
  · intro v hv
    cases hm : d.repFirst with
    | none => rw [hm] at hv; cases hv
    | some m => rw [hm] at hv; cases hv; exact (evalRep_mem m).1.le

/-- what `ratioLoop` returns on success is `0.0 + ratio` for a ratio of the list -/
theorem ratioLoop_mem (ratios : List ℝ) (lo : Nat) : ∀ (fuel k : Nat) (t : ℝ),
    ratioLoop ratios lo fuel k = some (some t) → ∃ r ∈ ratios, t = 0 + r := by
  intro fuel
  induction fuel with
  | zero => intro k t h; simp [ratioLoop] at h
  | succ n ih =>
    intro k t h
    unfold ratioLoop at h
    split at h
    · cases h
    · split at h
      · rename_i c p hc hp
        split at h
        · simp only [Option.some.injEq] at h
          refine ⟨c, List.mem_of_getElem? hc, ?_⟩
          rw [← h, r_add, r_zero]
        · exact ih _ _ h
      · cases h

/-- `consistent_ratio_penalty ≥ 0` when every rhythm ratio is `≤ 2.5` (eight of the nine common
ratios; `3` is the exception) -/
theorem consistentRatioPenalty_nonneg (ratios : List ℝ) (idx : Nat) (h : ∀ r ∈ ratios, r ≤ 2.5) (p : ℝ)
    (hp : consistentRatioPenalty ratios idx = some p) : 0 ≤ p := by
  unfold consistentRatioPenalty at hp
  split at hp
  · cases hp
  · simp only [Option.some.injEq] at hp
    rw [← hp]; simp only [r_sub, r_mul, r_div, r_lit]; norm_num
  · rename_i t ht
    simp only [Option.some.injEq] at hp
    obtain ⟨r, hr, rfl⟩ := ratioLoop_mem _ _ _ _ _ ht
    have := h r hr
    rw [← hp]; simp only [r_sub, r_mul, r_div, r_lit]; norm_num
    norm_num at this
    linarith

/-- `ColorEvaluator::evaluate_difficulty_of ≥ 0` when every rhythm ratio is `≤ 2.5` -/
theorem colorEval_nonneg (ratios : List ℝ) (o : TObj ℝ) (h : ∀ r ∈ ratios, r ≤ 2.5) (v : ℝ)
    (hv : colorEval ratios o = some v) : 0 ≤ v := by
  unfold colorEval at hv
  cases hp : consistentRatioPenalty ratios o.idx with
  | none => rw [hp] at hv; cases hv
  | some p =>
    rw [hp] at hv
    simp only [Option.some.injEq] at hv
    rw [← hv, r_mul]
    exact mul_nonneg (colorTerms_nonneg o.data) (consistentRatioPenalty_nonneg ratios o.idx h p hp)

theorem colorFns_ok (ratios : List ℝ) (h : ∀ r ∈ ratios, r ≤ 2.5) :
    FnsOK (colorFns ratios : FnsV ℝ (TRec ℝ) (ℝ × Unit)) (fun st => 0 ≤ st.1 ∧ True) (fun v => 0 ≤ v)
      (fun v => 0 ≤ v) (fun _ => True) := by
  unfold colorFns
  refine decayFns_ok (by rw [r_lit]; norm_num) (by rw [r_lit]; norm_num) _ (fun _ => True) (fun _ => True) ?_
  intro s o s' v _ _ hv
  cases hc : colorEval ratios o with
  | none => rw [hc] at hv; cases hv
  | some c =>
    rw [hc] at hv
    simp only [Option.map_some, Option.some.injEq, Prod.mk.injEq] at hv
    rw [← hv.2]
    exact ⟨trivial, colorEval_nonneg ratios o h c hc⟩

/-! ### finished skills -/

/-- all numbers a finished skill holds are `≥ 0` and `StrainsVec::push` altered none of them -/
def SkillNonneg {σ : Type} (st : StateV ℝ σ) : Prop :=
  (∀ v ∈ st.objectStrains, 0 ≤ v) ∧ (∀ p ∈ st.peaks, 0 ≤ p) ∧ 0 ≤ st.sectionPeak ∧
    exportPeaksV st = st.peaks ++ [st.sectionPeak]

theorem skillNonneg_of_ok {σ : Type} {Inv : σ → Prop} {st : StateV ℝ σ}
    (h : StateOK Inv (fun v : ℝ => 0 ≤ v) (fun v : ℝ => 0 ≤ v) st) : SkillNonneg st :=
  ⟨h.objectStrains, h.peaks, h.sectionPeak, exportPeaksV_of_nonneg h.peaks h.sectionPeak⟩

theorem hmax : ∀ a b : ℝ, 0 ≤ a → 0 ≤ b → 0 ≤ FOps.fmax a b := fun _ _ ha _ => le_max_of_le_left ha

theorem zero_ok : (0 : ℝ) ≤ (@OfScientific.ofScientific ℝ FOps.toOfScientific 0 true 1) := by
  rw [r_zero]

end Rosu.TaikoSkill
