import RosuModel.Lemmas.CurveTotal

/-!
# Total correctness of curve generation in exact arithmetic

Over an ordered field, with `atan2` answering in `[−π, π]`, `π > 0`, every control-point coordinate in
`[-262144, 262144]` (restatement of `CurveTotal.lean` for the decoder's RELATIVE coordinates) and fuel `≥ 4095`: `calculate_path` and `Curve::new` RETURN (`.ok`) — no checked
operation fails (`Lemmas/CurveSafe.lean`) and neither of the two loops without a syntactic bound runs
out of fuel (`approximateBezier_decoder_limit`, `thetaLoop_field`).
-/
namespace Rosu.Curve

set_option linter.unusedSectionVars false

variable {K : Type} [Field K] [LinearOrder K] [IsStrictOrderedRing K] (T : Transc K)

/-- With all coordinates in `[-262144, 262144]` (the decoder's RELATIVE control-point range: offsets of
two positions within ±131072) the same `k = 11` works: `32·(2^18)² = 2^41 ≤ ¼·16^11 = 2^42`. -/
theorem approximateBezier_wide_limit (pts path : Array (Pos K)) (b : Bez K)
    (hp : 2 ≤ pts.size) (hb : BezWF b)
    (hcoord : ∀ v ∈ pts.toList, |v.x| ≤ 262144 ∧ |v.y| ≤ 262144)
    (fuel : Nat) (hfuel : 4095 ≤ fuel) :
    ∃ path' b', approximateBezier (fieldArith T) fuel path pts b = .ok (path', b') ∧
      path'.size ≤ path.size + 2048 * (pts.size - 1) + 1 := by
  have hsd : SdLe (1 / 4 * 16 ^ 11 : K) pts.toList := by
    refine SdLe_mono ?_ _ (SdLe_of_bounded (262144 : K) pts.toList hcoord)
    norm_num
  obtain ⟨path', b', h, hs, _⟩ :=
    approximateBezier_terminates T 11 pts path b hp hb hsd fuel (by norm_num; exact hfuel)
  exact ⟨path', b', h, by simpa using hs⟩

/-- `calculate_subpath` returns, whatever the path type. -/
theorem calculateSubpath_total_wide (hpi : 0 < T.pi)
    (hatan : ∀ y x, -T.pi ≤ T.atan2 y x ∧ T.atan2 y x ≤ T.pi) (fuel : Nat) (hfuel : 4095 ≤ fuel)
    (isOsu : Bool) (st : PathSt K K) (sub : Array (Pos K)) (kind : Spline) (h2 : 2 ≤ sub.size)
    (hb : BezWF st.bez) (hcoord : ∀ v ∈ sub.toList, |v.x| ≤ 262144 ∧ |v.y| ≤ 262144) :
    ∃ st', calculateSubpath (fieldArith T) fuel isOsu st sub kind = .ok st' := by
  show Total _
  obtain ⟨pz, bz, hez, _⟩ :=
    approximateBezier_wide_limit T sub st.path st.bez h2 hb hcoord fuel hfuel
  cases kind with
  | linear =>
    simp only [calculateSubpath]
    exact total_ok _
  | bspline =>
    simp only [calculateSubpath]
    rw [hez]
    exact total_ok _
  | catmull =>
    simp only [calculateSubpath]
    obtain ⟨p', hp', hs⟩ := approximateCatmull_ok (fieldArith T) st.path sub (by omega)
    rw [hp']
    simp only [ok_bind]
    split
    · exact total_ok _
    · rw [need_eq _ (by simpa using hs)]
      simp only [ok_bind]
      obtain ⟨r, hr⟩ := catOptLoop_ok (fieldArith T) (p'.extract st.path.size p'.size)
        (p'.extract st.path.size p'.size).toList 0
        { path := p'.extract 0 st.path.size, lastStart := none,
          lenRemoved := (fieldArith T).dOfInt 0, optimized := st.optimized }
        (fun _ => rfl) (by simp)
      rw [hr]
      exact total_ok _
  | perfect =>
    simp only [calculateSubpath]
    refine Total.bind ?_ ?_
    · split
      · rw [getC_eq sub 0 (by omega)]
        simp only [ok_bind]
        rw [getC_eq sub 1 (by omega)]
        simp only [ok_bind]
        rw [getC_eq sub 2 (by omega)]
        simp only [ok_bind]
        exact approximateArc_total T hpi hatan fuel (by omega) st.path _ _ _
      · exact total_ok _
    · intro arc _
      cases arc with
      | some p => exact total_ok _
      | none =>
        simp only []
        rw [hez]
        exact total_ok _

theorem pathStep_total_wide (hpi : 0 < T.pi)
    (hatan : ∀ y x, -T.pi ≤ T.atan2 y x ∧ T.atan2 y x ≤ T.pi) (fuel : Nat) (hfuel : 4095 ≤ fuel)
    (isOsu : Bool) (pts : Array (CP K)) (vertices : Array (Pos K)) (st : PathSt K K)
    (start i : Nat) (hv : vertices.size = pts.size) (hi : i < pts.size) (hs : start ≤ i)
    (hb : BezWF st.bez) (hvc : ∀ v ∈ vertices.toList, |v.x| ≤ 262144 ∧ |v.y| ≤ 262144) :
    Total (pathStep (fieldArith T) fuel isOsu pts vertices st start i) := by
  unfold pathStep
  rw [getC_eq pts i hi]
  simp only [ok_bind]
  rw [subC_eq pts.size 1 (by omega)]
  simp only [ok_bind]
  split
  · exact total_ok _
  · rw [need_eq _ (by simp only [Bool.and_eq_true, decide_eq_true_eq]; omega)]
    simp only [ok_bind]
    have hseg : (vertices.extract start (i + 1)).size = i + 1 - start := by
      simp only [Array.size_extract]
      omega
    split
    · omega
    · split
      · rw [getC_eq _ 0 (by omega)]
        exact total_ok _
      · rw [getC_eq pts start (by omega)]
        simp only [ok_bind]
        refine Total.bind (calculateSubpath_total_wide T hpi hatan fuel hfuel isOsu st _ _ (by omega) hb
          (fun v hv => hvc v (mem_of_mem_extract _ _ _ v hv))) ?_
        intro st1 _
        refine Total.bind ?_ ?_
        · split
          · exact total_ok _
          · split
            · exact total_ok _
            · rename_i first hf
              have hlt : st.path.size < st1.path.size := by
                rcases Nat.lt_or_ge st.path.size st1.path.size with h | h
                · exact h
                · rw [Array.getElem?_eq_none h] at hf
                  cases hf
              rw [getC_eq _ _ (by omega)]
              exact total_ok _
        · intro sk _
          split
          · exact total_ok _
          · exact total_ok _

theorem pathLoop_total_wide (hpi : 0 < T.pi)
    (hatan : ∀ y x, -T.pi ≤ T.atan2 y x ∧ T.atan2 y x ≤ T.pi) (fuel : Nat) (hfuel : 4095 ≤ fuel)
    (isOsu : Bool) (pts : Array (CP K)) (vertices : Array (Pos K))
    (hv : vertices.size = pts.size)
    (hvc : ∀ v ∈ vertices.toList, |v.x| ≤ 262144 ∧ |v.y| ≤ 262144) (n i : Nat)
    (st : PathSt K K) (start : Nat) (hn : i + n ≤ pts.size) (hs : start ≤ i)
    (hb : BezWF st.bez) :
    Total (pathLoop (fieldArith T) fuel isOsu pts vertices n i st start) := by
  induction n generalizing i st start with
  | zero => exact total_ok _
  | succ n ih =>
    simp only [pathLoop]
    refine Total.bind (pathStep_total_wide T hpi hatan fuel hfuel isOsu pts vertices st start i hv
      (by omega) hs hb hvc) ?_
    rintro ⟨st1, start1⟩ h1
    have hp := (pathStep_safe (fieldArith T) fuel isOsu pts vertices st start i hv (by omega) hs
      hb).post h1
    exact ih (i + 1) st1 start1 (by omega) (by have := hp.2; simp only at this; omega) hp.1

/-- ★ `calculate_path` returns. -/
theorem calculatePath_total_wide (hpi : 0 < T.pi)
    (hatan : ∀ y x, -T.pi ≤ T.atan2 y x ∧ T.atan2 y x ≤ T.pi) (fuel : Nat) (hfuel : 4095 ≤ fuel)
    (isOsu : Bool) (pts : Array (CP K)) (st : PathSt K K) (hb : BezWF st.bez)
    (hcoord : ∀ p ∈ pts.toList, |p.pos.x| ≤ 262144 ∧ |p.pos.y| ≤ 262144) :
    ∃ st', calculatePath (fieldArith T) fuel isOsu pts st = .ok st' := by
  show Total _
  unfold calculatePath
  split
  · exact total_ok _
  · refine pathLoop_total_wide T hpi hatan fuel hfuel isOsu pts (pts.map (·.pos)) (by simp) ?_
      pts.size 0 { st with path := #[], optimized := (fieldArith T).dOfInt 0 } 0 (by omega)
      (Nat.le_refl _) hb
    intro v hv
    simp only [Array.toList_map, List.mem_map] at hv
    obtain ⟨p, hp, rfl⟩ := hv
    exact hcoord p hp

/-- ★ `Curve::new` returns, in exact arithmetic, for every control-point list within the decoder's
coordinate limit. -/
theorem curveNew_total_wide (hpi : 0 < T.pi)
    (hatan : ∀ y x, -T.pi ≤ T.atan2 y x ∧ T.atan2 y x ≤ T.pi) (fuel : Nat) (hfuel : 4095 ≤ fuel)
    (isOsu : Bool) (pts : Array (CP K)) (expected : Option K) (prev : Array (Pos K))
    (bez : Bez K) (hb : BezWF bez)
    (hcoord : ∀ p ∈ pts.toList, |p.pos.x| ≤ 262144 ∧ |p.pos.y| ≤ 262144) :
    ∃ c b', curveNew (fieldArith T) fuel isOsu pts expected prev bez = .ok (c, b') := by
  obtain ⟨st, hst⟩ := calculatePath_total_wide T hpi hatan fuel hfuel isOsu pts
    { path := prev, optimized := (fieldArith T).dOfInt 0, bez := bez } hb hcoord
  obtain ⟨p', l', he, _⟩ := calculateLength_ok (fieldArith T) st.path expected st.optimized
  unfold curveNew
  rw [hst]
  simp only [ok_bind]
  rw [he]
  exact ⟨_, _, rfl⟩

end Rosu.Curve
