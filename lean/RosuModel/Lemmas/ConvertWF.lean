import RosuModel.Model.ConvertWF

/-!
Lemmas about the conversion models: the taiko splice loop keeps objects and sounds equally long
and terminates without panic; mania column arithmetic.
-/

namespace Rosu.ConvertWF

variable {α β : Type}

theorem length_spliceOne {γ : Type} (l new : List γ) (idx : Nat) (h : idx < l.length) :
    (spliceOne l idx new).length = l.length - 1 + new.length := by
  unfold spliceOne
  simp only [List.length_append, List.length_take, List.length_drop]
  omega

/-- The splice loop keeps `hit_objects` and `hit_sounds` equally long. -/
theorem taikoLoop_lengths (O : TaikoOps α β) :
    ∀ (fuel idx : Nat) (objs : List α) (sounds : List β) (r : List α × List β),
      objs.length = sounds.length → taikoLoop O fuel idx objs sounds = some r →
      r.1.length = r.2.length := by
  intro fuel
  induction fuel with
  | zero => intro idx objs sounds r _ h; simp [taikoLoop] at h
  | succ fuel ih =>
    intro idx objs sounds r hl h
    unfold taikoLoop at h
    split at h
    · cases h; exact hl
    · next o ho =>
      have hidx : idx < objs.length := by
        rcases List.getElem?_eq_some_iff.mp ho with ⟨h, _⟩; exact h
      split at h
      · exact ih _ _ _ _ hl h
      · exact ih _ _ _ _ (by simpa using hl) h
      · split at h
        · split at h
          · cases h
          · next s hs =>
            simp only at h
            split at h
            · apply ih _ _ _ _ _ h
              rw [length_spliceOne _ _ _ hidx, length_spliceOne _ _ _ (by omega)]
              simp [hl]
            · split at h
              · cases h
              · apply ih _ _ _ _ _ h
                simp only [List.length_eraseIdx, hl]
        · exact ih _ _ _ _ hl h

/-- With one sound per object and a generator that yields at least one hit for every slider that
is converted (the tick loop starts at `j = start_time`, which satisfies its own bound — proved for
the exact-arithmetic model in `Lemmas/TaikoTicks.lean`), the loop neither panics nor runs out of
fuel: one iteration per original object. -/
theorem taikoLoop_total (O : TaikoOps α β)
    (hgen : ∀ o s, O.shouldConvert o = true → O.generate o s ≠ []) :
    ∀ (fuel idx : Nat) (objs : List α) (sounds : List β),
      objs.length = sounds.length → objs.length - idx < fuel →
      ∃ r, taikoLoop O fuel idx objs sounds = some r := by
  intro fuel
  induction fuel with
  | zero => intro idx objs sounds _ hf; omega
  | succ fuel ih =>
    intro idx objs sounds hl hf
    unfold taikoLoop
    split
    · exact ⟨_, rfl⟩
    · next o ho =>
      have hidx : idx < objs.length := by
        rcases List.getElem?_eq_some_iff.mp ho with ⟨h, _⟩; exact h
      split
      · exact ih _ _ _ hl (by omega)
      · exact ih _ _ _ (by simpa using hl) (by simp only [List.length_set]; omega)
      · split
        · rename_i hsc
          have hs : idx < sounds.length := by omega
          rw [List.getElem?_eq_getElem hs]
          simp only
          have hne := hgen o sounds[idx] hsc
          have hpos : (O.generate o sounds[idx]).length ≥ 1 := by
            cases hg : O.generate o sounds[idx] with
            | nil => exact absurd hg hne
            | cons _ _ => simp
          simp only [hpos, if_true]
          apply ih
          · rw [length_spliceOne _ _ _ hidx, length_spliceOne _ _ _ hs]
            simp [hl]
          · rw [length_spliceOne _ _ _ hidx]
            simp only [List.length_map]
            omega
        · exact ih _ _ _ hl (by omega)

/-! ## mania -/

theorem targetColumns_keys (k : Nat) (rcs rod : Int) (count len : Nat) :
    targetColumns (some k) rcs rod count len = k := rfl

theorem targetColumns_range (rcs rod : Int) (count len : Nat) :
    4 ≤ targetColumns none rcs rod count len ∧ targetColumns none rcs rod count len ≤ 7 := by
  unfold targetColumns
  simp only
  have hd : 4 ≤ (max 4 (min 7 (rod + 1))).toNat ∧ (max 4 (min 7 (rod + 1))).toNat ≤ 7 := by
    omega
  split
  · split
    · omega
    · split
      · split <;> omega
      · split
        · split <;> omega
        · exact hd
  · exact hd

theorem column_lt_total (x : Int) (total : Nat) (h : 1 ≤ total) : column x total < total := by
  unfold column
  omega

/-- `column_to_pos` and `column` are inverse on the exact arithmetic, for every key count up to 512. -/
theorem column_columnToPos (c total : Nat) (hc : c < total) (ht : total ≤ 512) :
    column (columnToPos c total : Nat) total = c := by
  unfold column columnToPos
  have h1 := Nat.div_mul_le_self (c * 512 + total - 1) total
  have h2 := Nat.lt_mul_div_succ (c * 512 + total - 1) (by omega : 0 < total)
  generalize (c * 512 + total - 1) / total = q at *
  have h3 : total * (q + 1) = q * total + total := by
    rw [Nat.mul_add, Nat.mul_one, Nat.mul_comm]
  have h4 : q * total / 512 = c := by omega
  simp only [Int.toNat_natCast]
  rw [h4]
  omega

end Rosu.ConvertWF
