import RosuModel.Lemmas.SliderEventsRat

/-!
# Order of the event times within a span (exact rationals) and permutation invariance of counts

* Over ℚ with `span_duration ≥ 0` the events of one span come out with non-decreasing times: tick
  distances are strictly increasing and lie in `[tick_dist, len]`; on even spans the time is
  `span_start + d/len · span_duration`, on odd spans `span_start + (1 − d/len) · span_duration`
  and the buffer is popped in reverse; the repeat at `span_start + span_duration` comes last.
* `OsuSlider::new` sorts the nested objects (`sort::csharp`, an unstable introsort) and
  `lazy_travel_time` may rotate a suffix: both only permute, and every count the difficulty
  attributes read (`nested_objects.len()`, `large_tick_count()`) is permutation invariant.
-/

namespace Rosu.SliderEvents

/-- Tick distances over ℚ: strictly increasing, between the first `d` and `len`. -/
theorem tickDists_rat_sorted (it : Iter Rat) (htd : 0 < it.tickDist) :
    ∀ (fuel : Nat) (d : Rat) (l : List Rat), tickDists ratArith it fuel d = some l →
      l.Pairwise (· < ·) ∧ ∀ x ∈ l, d ≤ x ∧ x ≤ it.len := by
  intro fuel
  induction fuel with
  | zero => intro d l h; simp [tickDists] at h
  | succ fuel ih =>
    intro d l h
    unfold tickDists at h
    by_cases hle : d ≤ it.len
    · rw [rat_le, decide_eq_true hle, if_pos rfl] at h
      split at h
      · simp only [Option.some.injEq] at h; subst h; simp
      · split at h
        · exact absurd h (by simp)
        · rename_i l' hl'
          simp only [Option.some.injEq] at h
          subst h
          obtain ⟨hp, hb⟩ := ih _ l' hl'
          rw [rat_add] at hb
          refine ⟨List.pairwise_cons.mpr ⟨fun x hx => ?_, hp⟩, ?_⟩
          · have := (hb x hx).1; linarith
          · intro x hx
            rcases List.mem_cons.mp hx with rfl | hx
            · exact ⟨le_refl _, hle⟩
            · have := hb x hx; exact ⟨by linarith, this.2⟩
    · rw [rat_le, decide_eq_false hle] at h
      simp only [Bool.false_eq_true, if_false, Option.some.injEq] at h
      subst h; simp

theorem spanTickDists_rat_sorted (it : Iter Rat) (fuel : Nat) (ds : List Rat)
    (h : spanTickDists ratArith it fuel = some ds) :
    ds.Pairwise (· < ·) ∧ ∀ x ∈ ds, 0 < x ∧ x ≤ it.len := by
  unfold spanTickDists at h
  by_cases htd : 0 < it.tickDist
  · have h0 : ratArith.lt (ratArith.ofInt 0) it.tickDist = true := by
      rw [rat_lt, rat_ofInt]; simpa using htd
    rw [if_pos h0] at h
    obtain ⟨hp, hb⟩ := tickDists_rat_sorted it htd fuel _ ds h
    exact ⟨hp, fun x hx => ⟨by have := (hb x hx).1; linarith, (hb x hx).2⟩⟩
  · have h0 : ¬ (ratArith.lt (ratArith.ofInt 0) it.tickDist = true) := by
      rw [rat_lt, rat_ofInt]; simpa using htd
    rw [if_neg h0] at h
    simp only [Option.some.injEq] at h
    subst h; simp

theorem tickEvent_time_even (it : Iter Rat) (s : Nat) (d : Rat) (hs : (s % 2 == 1) = false) :
    (tickEvent ratArith it s d).time = spanStartTime ratArith it s + d / it.len * it.spanDur := by
  simp [tickEvent, hs, ratArith]

theorem tickEvent_time_odd (it : Iter Rat) (s : Nat) (d : Rat) (hs : (s % 2 == 1) = true) :
    (tickEvent ratArith it s d).time =
      spanStartTime ratArith it s + (1 - d / it.len) * it.spanDur := by
  simp [tickEvent, hs, ratArith]

/-- **Within a span the event times are non-decreasing** (ℚ, `span_duration ≥ 0`). -/
theorem span_times_sorted (it : Iter Rat) (fuel s : Nat) (hD : 0 ≤ it.spanDur) (l : List (Event Rat))
    (h : spanEvents ratArith it fuel s = some l) :
    l.Pairwise (fun a b => a.time ≤ b.time) := by
  cases hds : spanTickDists ratArith it fuel with
  | none => rw [spanEvents_none ratArith it fuel s hds] at h; exact absurd h (by simp)
  | some ds =>
    rw [spanEvents_eq ratArith it fuel s ds hds] at h
    simp only [Option.some.injEq] at h
    subst h
    obtain ⟨hp, hb⟩ := spanTickDists_rat_sorted it fuel ds hds
    have hlen : ∀ x ∈ ds, 0 < it.len := fun x hx => lt_of_lt_of_le (hb x hx).1 (hb x hx).2
    rw [List.pairwise_append]
    refine ⟨?_, ?_, ?_⟩
    · -- the ticks
      unfold spanTicks
      by_cases hs : (s % 2 == 1) = true
      · rw [if_pos hs, List.pairwise_reverse, List.pairwise_map]
        apply (List.Pairwise.and_mem.mp hp).imp
        intro a b hab
        obtain ⟨ha, _, hlt⟩ := hab
        have hl := hlen a ha
        rw [tickEvent_time_odd it s b hs, tickEvent_time_odd it s a hs]
        have : a / it.len ≤ b / it.len := div_le_div_of_nonneg_right hlt.le hl.le
        have := mul_le_mul_of_nonneg_right (show 1 - b / it.len ≤ 1 - a / it.len by linarith) hD
        linarith
      · have hs' : (s % 2 == 1) = false := by simpa using hs
        rw [if_neg hs, List.pairwise_map]
        apply (List.Pairwise.and_mem.mp hp).imp
        intro a b hab
        obtain ⟨ha, _, hlt⟩ := hab
        have hl := hlen a ha
        rw [tickEvent_time_even it s b hs', tickEvent_time_even it s a hs']
        have : a / it.len ≤ b / it.len := div_le_div_of_nonneg_right hlt.le hl.le
        have := mul_le_mul_of_nonneg_right this hD
        linarith
    · unfold spanRepeat; split <;> simp
    · -- every tick is at or before the repeat
      intro a ha b hb'
      unfold spanRepeat at hb'
      split at hb'
      · rw [List.mem_singleton] at hb'
        subst hb'
        have hrep : (repeatPoint ratArith s (spanStartTime ratArith it s) it.spanDur).time =
            spanStartTime ratArith it s + it.spanDur := rfl
        rw [hrep]
        unfold spanTicks at ha
        have key : ∀ d ∈ ds, (tickEvent ratArith it s d).time ≤
            spanStartTime ratArith it s + it.spanDur := by
          intro d hd
          have hl := hlen d hd
          have hd1 : d / it.len ≤ 1 := by rw [div_le_one hl]; exact (hb d hd).2
          have hd0 : 0 ≤ d / it.len := div_nonneg (hb d hd).1.le hl.le
          by_cases hs : (s % 2 == 1) = true
          · rw [tickEvent_time_odd it s d hs]
            have := mul_le_mul_of_nonneg_right (show 1 - d / it.len ≤ 1 by linarith) hD
            linarith
          · have hs' : (s % 2 == 1) = false := by simpa using hs
            rw [tickEvent_time_even it s d hs']
            have := mul_le_mul_of_nonneg_right hd1 hD
            linarith
        split at ha
        · rw [List.mem_reverse, List.mem_map] at ha
          obtain ⟨d, hd, rfl⟩ := ha; exact key d hd
        · rw [List.mem_map] at ha
          obtain ⟨d, hd, rfl⟩ := ha; exact key d hd
      · simp at hb'


/-! ## across spans -/

theorem spanStartTime_rat (it : Iter Rat) (s : Nat) :
    spanStartTime ratArith it s = it.start + (s : Rat) * it.spanDur := by
  simp [spanStartTime, ratArith]

/-- Every event of span `s` lies in `[span_start, span_start + span_duration]` (ℚ, duration ≥ 0). -/
theorem span_event_bounds (it : Iter Rat) (fuel s : Nat) (hD : 0 ≤ it.spanDur) (ds : List Rat)
    (hds : spanTickDists ratArith it fuel = some ds) :
    ∀ e ∈ spanTicks ratArith it s ds ++ spanRepeat ratArith it s,
      it.start + (s : Rat) * it.spanDur ≤ e.time ∧
      e.time ≤ it.start + ((s + 1 : Nat) : Rat) * it.spanDur := by
  obtain ⟨_, hb⟩ := spanTickDists_rat_sorted it fuel ds hds
  have hS1 : it.start + ((s + 1 : Nat) : Rat) * it.spanDur =
      it.start + (s : Rat) * it.spanDur + it.spanDur := by push_cast; ring
  rw [hS1]
  have key : ∀ d ∈ ds, it.start + (s : Rat) * it.spanDur ≤ (tickEvent ratArith it s d).time ∧
      (tickEvent ratArith it s d).time ≤ it.start + (s : Rat) * it.spanDur + it.spanDur := by
    intro d hd
    have hl : 0 < it.len := lt_of_lt_of_le (hb d hd).1 (hb d hd).2
    have hd1 : d / it.len ≤ 1 := by rw [div_le_one hl]; exact (hb d hd).2
    have hd0 : 0 ≤ d / it.len := div_nonneg (hb d hd).1.le hl.le
    by_cases hs : (s % 2 == 1) = true
    · rw [tickEvent_time_odd it s d hs, spanStartTime_rat]
      have h1 := mul_le_mul_of_nonneg_right (show 1 - d / it.len ≤ 1 by linarith) hD
      have h2 := mul_nonneg (show 0 ≤ 1 - d / it.len by linarith) hD
      constructor <;> linarith
    · have hs' : (s % 2 == 1) = false := by simpa using hs
      rw [tickEvent_time_even it s d hs', spanStartTime_rat]
      have h1 := mul_le_mul_of_nonneg_right hd1 hD
      have h2 := mul_nonneg hd0 hD
      constructor <;> linarith
  intro e he
  rcases List.mem_append.mp he with he | he
  · unfold spanTicks at he
    split at he
    · rw [List.mem_reverse, List.mem_map] at he
      obtain ⟨d, hd, rfl⟩ := he; exact key d hd
    · rw [List.mem_map] at he
      obtain ⟨d, hd, rfl⟩ := he; exact key d hd
  · unfold spanRepeat at he
    split at he
    · rw [List.mem_singleton] at he
      subst he
      have hrep : (repeatPoint ratArith s (spanStartTime ratArith it s) it.spanDur).time =
          spanStartTime ratArith it s + it.spanDur := rfl
      rw [hrep, spanStartTime_rat]
      constructor <;> linarith
    · simp at he

/-- Every event of the spans `s, s+1, …` lies at or after the start of span `s` and at or before
the end of the last of them. -/
theorem midEvents_bounds (it : Iter Rat) (fuel : Nat) (hD : 0 ≤ it.spanDur) (ds : List Rat)
    (hds : spanTickDists ratArith it fuel = some ds) :
    ∀ (n s : Nat), ∀ e ∈ midEvents ratArith it ds n s,
      it.start + (s : Rat) * it.spanDur ≤ e.time ∧
      e.time ≤ it.start + ((s + n : Nat) : Rat) * it.spanDur := by
  intro n
  induction n with
  | zero => intro s e he; simp [midEvents] at he
  | succ n ih =>
    intro s e he
    unfold midEvents at he
    have hstep : (0 : Rat) ≤ (n : Rat) * it.spanDur := mul_nonneg (Nat.cast_nonneg n) hD
    rcases List.mem_append.mp he with he | he
    · have := span_event_bounds it fuel s hD ds hds e he
      refine ⟨this.1, le_trans this.2 ?_⟩
      push_cast; nlinarith
    · have := ih (s + 1) e he
      refine ⟨le_trans ?_ this.1, ?_⟩
      · push_cast; nlinarith
      · rw [show s + (n + 1) = s + 1 + n by omega]; exact this.2

/-- **All ticks and repeats of a slider come out in non-decreasing time order** (ℚ, duration ≥ 0):
within a span by `span_times_sorted`, across spans because span `s+1` starts where span `s` ends. -/
theorem midEvents_sorted (it : Iter Rat) (fuel : Nat) (hD : 0 ≤ it.spanDur) (ds : List Rat)
    (hds : spanTickDists ratArith it fuel = some ds) :
    ∀ (n s : Nat), (midEvents ratArith it ds n s).Pairwise (fun a b => a.time ≤ b.time) := by
  intro n
  induction n with
  | zero => intro s; simp [midEvents]
  | succ n ih =>
    intro s
    unfold midEvents
    rw [List.pairwise_append]
    refine ⟨?_, ih (s + 1), ?_⟩
    · exact span_times_sorted it fuel s hD _ (spanEvents_eq ratArith it fuel s ds hds)
    · intro a ha b hb
      have h1 := (span_event_bounds it fuel s hD ds hds a ha).2
      have h2 := (midEvents_bounds it fuel hD ds hds n (s + 1) b hb).1
      exact le_trans h1 h2

/-! ## permutation invariance of what the attributes read -/

variable {F : Type}

/-- Sorting (`sort::csharp`, unstable) and `lazy_travel_time`'s `rotate_left` only permute the
nested objects: the nested count and `large_tick_count()` do not change. -/
theorem nested_counts_perm (a b : List (Nested F)) (h : a.Perm b) :
    a.length = b.length ∧ largeTickCount a = largeTickCount b := by
  refine ⟨h.length_eq, ?_⟩
  unfold largeTickCount
  exact (h.filter _).length_eq

end Rosu.SliderEvents
