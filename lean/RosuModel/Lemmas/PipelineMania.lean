import RosuModel.Model.PipelineMania
import RosuModel.Props.C02
import RosuModel.Props.C06b

/-!
Facts about the native-mania pipeline that hold in EVERY arithmetic (no Mathlib beyond what the
imported property files already use): the preparation keeps one object per decoded object, the
decoder never reaches the `panic` outcome, difficulty objects of a prefix are a prefix, and the
gradual machine with the concrete skill walks the one-shot results.
-/

namespace Rosu.PipelineMania
open Rosu.SkillOps Rosu.DecodeLine Rosu.Decode Rosu.Gradual
open Rosu.Skill (Obj)

variable {R S : Type} [FOps R] [FOps S] (P : PrepOps R S)

/-! ### preparation -/

theorem prepareAll_length (total : S) : ∀ (hs : List HObj) (l : List (Prepared R)),
    prepareAll P total hs = some l → l.length = hs.length := by
  intro hs
  induction hs with
  | nil => intro l h; simp [prepareAll] at h; subst h; rfl
  | cons a t ih =>
    intro l h
    unfold prepareAll at h
    cases h1 : prepareOne P total a with
    | none => rw [h1] at h; cases h
    | some p =>
      cases h2 : prepareAll P total t with
      | none => rw [h1, h2] at h; cases h
      | some l' =>
        rw [h1, h2] at h
        simp only [Option.some.injEq] at h
        subst h
        simp [ih l' h2]

/-- every prepared object's column is the `column` of its x position -/
theorem prepareAll_columns (total : S) : ∀ (hs : List HObj) (l : List (Prepared R)),
    prepareAll P total hs = some l → ∀ p ∈ l, ∃ h ∈ hs, p.obj.column = column P (P.ofI32 h.x) total := by
  intro hs
  induction hs with
  | nil => intro l h p hp; simp [prepareAll] at h; subst h; cases hp
  | cons a t ih =>
    intro l h p hp
    unfold prepareAll at h
    cases h1 : prepareOne P total a with
    | none => rw [h1] at h; cases h
    | some q =>
      cases h2 : prepareAll P total t with
      | none => rw [h1, h2] at h; cases h
      | some l' =>
        rw [h1, h2] at h
        simp only [Option.some.injEq] at h
        subst h
        rcases List.mem_cons.mp hp with rfl | hp'
        · refine ⟨a, List.mem_cons_self, ?_⟩
          unfold prepareOne at h1
          cases hk : a.kind <;> rw [hk] at h1 <;> simp only [Option.some.injEq] at h1 <;>
            first
            | (cases h1; done)
            | (subst h1; rfl)
        · obtain ⟨h', hm, e⟩ := ih l' h2 p hp'
          exact ⟨h', List.mem_cons_of_mem _ hm, e⟩

/-- a decoded mania file always has its object vector (`From<BeatmapState>` cannot panic) -/
theorem mania_objects_some (ls : List Str) (hm : (decodeLines ls).mode = 3) :
    ∃ o s, (finish (decodeLines ls)).objects = some (o, s) ∧
      o.length = (decodeLines ls).hs.objects.length := by
  have hl := decodeLines_lengths ls
  have hl' : (decodeLines ls).hs.sounds.length
      = ((decodeLines ls).hs.objects.map fun o => (keyOfBits64 o.time, o)).length := by
    rw [hl]; simp
  obtain ⟨o, s, he, hp, _, _⟩ := Rosu.C06.decode_mania_objects _ _ hl'
  refine ⟨o, s, ?_, ?_⟩
  · simp only [finish]
    have : ((decodeLines ls).mode == 3) = true := by simp [hm]
    rw [this]
    exact he
  · rw [hp.length_eq]; simp

/-- **the pipeline never answers `panic` at the decoding / preparation stage** -/
theorem preparedOf_lines_ne_panic (ls : List Str) : preparedOf P (finish (decodeLines ls)) ≠ .panic := by
  unfold preparedOf
  split
  · simp
  · rename_i hmode
    have hm : (decodeLines ls).mode = 3 := by simpa [finish] using hmode
    obtain ⟨o, s, he, _⟩ := mania_objects_some ls hm
    rw [he]
    simp only
    split <;> simp

theorem prepared_ne_panic (bytes : List UInt8) : prepared P bytes ≠ .panic := by
  unfold prepared
  cases hb : fromBytes bytes with
  | none => simp
  | some d =>
    simp only
    unfold fromBytes fromNatBytes at hb
    cases hr : readBytes (bytes.map (·.toNat)) with
    | none => rw [hr] at hb; cases hb
    | some ls =>
      rw [hr] at hb
      simp only [Option.map_some, Option.some.injEq] at hb
      subst hb
      exact preparedOf_lines_ne_panic P ls

/-! ### difficulty objects of a prefix -/

theorem mania_scanObjects_take (rate : R) : ∀ (rest : List (ManiaSkill.MObj R)) (last : ManiaSkill.MObj R)
    (i : Nat) (p : R) (n : Nat),
    ManiaSkill.scanObjects rate last i p (rest.take n) = (ManiaSkill.scanObjects rate last i p rest).take n := by
  intro rest
  induction rest with
  | nil => intro _ _ _ n; simp [ManiaSkill.scanObjects]
  | cons b rest ih =>
    intro last i p n
    cases n with
    | zero => simp [ManiaSkill.scanObjects]
    | succ n => simp only [List.take_succ_cons, ManiaSkill.scanObjects, ih]

theorem mania_createDifficultyObjects_take (rate : R) (l : List (ManiaSkill.MObj R)) (n : Nat) :
    ManiaSkill.createDifficultyObjects rate (l.take n)
      = (ManiaSkill.createDifficultyObjects rate l).take (n - 1) := by
  cases l with
  | nil => simp [ManiaSkill.createDifficultyObjects]
  | cons f rest =>
    cases n with
    | zero => simp [ManiaSkill.createDifficultyObjects]
    | succ n =>
      simp only [List.take_succ_cons, ManiaSkill.createDifficultyObjects, Nat.add_sub_cancel]
      exact mania_scanObjects_take rate rest f 0 _ n

theorem mania_scanObjects_length (rate : R) : ∀ (rest : List (ManiaSkill.MObj R)) (last : ManiaSkill.MObj R)
    (i : Nat) (p : R), (ManiaSkill.scanObjects rate last i p rest).length = rest.length := by
  intro rest
  induction rest with
  | nil => intro _ _ _; rfl
  | cons b rest ih => intro last i p; simp [ManiaSkill.scanObjects, ih]

theorem mania_createDifficultyObjects_length (rate : R) (l : List (ManiaSkill.MObj R)) :
    (ManiaSkill.createDifficultyObjects rate l).length = l.length - 1 := by
  cases l with
  | nil => rfl
  | cons f rest => simp [ManiaSkill.createDifficultyObjects, mania_scanObjects_length]

/-! ### the gradual skill = the one-shot skill on a prefix -/

theorem processFrom_failed (A : SecArith R) (fuel : Nat) (rate : R) (cols : Nat)
    (objs : List (ManiaSkill.MObj R)) (s : SkillOps.Res (StateV R (ManiaSkill.St R)))
    (hs : ∀ st, s ≠ .ok st) : ∀ (k lo : Nat),
    processFrom (concreteSkills A fuel rate cols objs) s lo k = s := by
  intro k
  induction k with
  | zero => intro lo; rfl
  | succ k ih =>
    intro lo
    unfold processFrom
    have : (concreteSkills A fuel rate cols objs).process s lo = s := by
      unfold concreteSkills
      cases s with
      | ok st => exact absurd rfl (hs st)
      | panic => rfl
      | fuel => rfl
    rw [this]
    exact ih (lo + 1)

theorem processFrom_concrete (A : SecArith R) (fuel : Nat) (rate : R) (cols : Nat)
    (objs : List (ManiaSkill.MObj R)) : ∀ (k lo : Nat) (st : StateV R (ManiaSkill.St R)),
    lo + k ≤ (ManiaSkill.createDifficultyObjects rate objs).length →
    processFrom (concreteSkills A fuel rate cols objs) (.ok st) lo k
      = processAllV A FOps.fmax ManiaSkill.fns fuel st
          (((ManiaSkill.createDifficultyObjects rate objs).drop lo).take k) := by
  intro k
  induction k with
  | zero => intro lo st _; simp [processFrom, processAllV]
  | succ k ih =>
    intro lo st h
    have hlo : lo < (ManiaSkill.createDifficultyObjects rate objs).length := by omega
    have hdrop : (ManiaSkill.createDifficultyObjects rate objs).drop lo
        = (ManiaSkill.createDifficultyObjects rate objs)[lo] :: (ManiaSkill.createDifficultyObjects rate objs).drop (lo + 1) :=
      (List.drop_eq_getElem_cons hlo)
    unfold processFrom
    have hproc : (concreteSkills A fuel rate cols objs).process (.ok st) lo
        = processV A FOps.fmax ManiaSkill.fns fuel st (ManiaSkill.createDifficultyObjects rate objs)[lo] := by
      simp only [concreteSkills, Res.bind, List.getElem?_eq_getElem hlo]
    rw [hproc, hdrop, List.take_succ_cons]
    unfold processAllV
    cases hp : processV A FOps.fmax ManiaSkill.fns fuel st (ManiaSkill.createDifficultyObjects rate objs)[lo] with
    | ok st' => exact ih (lo + 1) st' (by omega)
    | panic => exact processFrom_failed A fuel rate cols objs .panic (by intro st h; cases h) k (lo + 1)
    | fuel => exact processFrom_failed A fuel rate cols objs .fuel (by intro st h; cases h) k (lo + 1)

/-- the skill state `maniaOneShot` reaches with the concrete skill = `ManiaSkill.calculate` -/
theorem processedPrefix_concrete (A : SecArith R) (fuel : Nat) (rate : R) (cols : Nat)
    (objs : List (ManiaSkill.MObj R)) (take : Nat) :
    processedPrefix (concreteSkills A fuel rate cols objs) ((objs.take take).length - 1)
      = ManiaSkill.calculate A fuel rate cols take objs := by
  unfold processedPrefix ManiaSkill.calculate
  have hlen := mania_createDifficultyObjects_length rate objs
  have := processFrom_concrete A fuel rate cols objs ((objs.take take).length - 1) 0
    (StateV.init 0.0 (ManiaSkill.St.new cols)) (by rw [hlen, List.length_take]; omega)
  show processFrom (concreteSkills A fuel rate cols objs) (.ok _) 0 _ = _
  rw [this, List.drop_zero, mania_createDifficultyObjects_take]
  congr 1
  rw [List.length_take]
  by_cases h : take ≤ objs.length
  · rw [Nat.min_eq_left h]
  · have h' : objs.length ≤ take := by omega
    rw [Nat.min_eq_right h', List.take_of_length_le (by rw [hlen]; exact Nat.le_refl _), List.take_of_length_le (by rw [hlen]; omega)]

end Rosu.PipelineMania
