import RosuModel.Lemmas.GenStateMania

/-! C12 lemmas for the mania generator (second call). -/
namespace Rosu.GenState
set_option linter.unusedSectionVars false

variable {R : Type} [NumOps R]

/-- The second call (every field provided, consistent values) returns the provided values. -/
theorem maniaGenRaw_all_given (c : ManiaCfg) (b : ManiaB R) (s : ManiaState)
    (h1 : b.n320 = some s.n320) (h2 : b.n300 = some s.n300) (h3 : b.n200 = some s.n200)
    (h4 : b.n100 = some s.n100) (h5 : b.n50 = some s.n50) (h6 : b.misses = some s.misses)
    (hm : s.misses ≤ maniaJ0 c)
    (l1 : s.n320 ≤ maniaJ c - s.misses) (l2 : s.n300 ≤ maniaJ c - s.misses) (l3 : s.n200 ≤ maniaJ c - s.misses)
    (l4 : s.n100 ≤ maniaJ c - s.misses) (l5 : s.n50 ≤ maniaJ c - s.misses)
    (hsum : maniaJ c ≤ s.totalHits) :
    maniaGenRaw c b = { state := s, accepted := true, ok := true } := by
  obtain ⟨s1, s2, s3, s4, s5, s6⟩ := s
  unfold maniaJ maniaJ0 at *
  unfold maniaGenRaw
  simp only [ManiaState.totalHits] at *
  generalize min (passedU32 c.passed) c.nObjects = J0 at *
  have e0 : min s6 J0 = s6 := by omega
  rcases hcl : c.classic
  · simp only [hcl, Bool.false_eq_true, if_false] at *
    generalize c.nHoldNotes = H at *
    have e1 : min s1 (J0 + H - s6) = s1 := by omega
    have e2 : min s2 (J0 + H - s6) = s2 := by omega
    have e3 : min s3 (J0 + H - s6) = s3 := by omega
    have e4 : min s4 (J0 + H - s6) = s4 := by omega
    have e5 : min s5 (J0 + H - s6) = s5 := by omega
    have e6 : J0 + H - (s1 + s2 + s3 + s4 + s5 + s6) = 0 := by omega
    have e7 : J0 + H - s6 - (s1 + s2 + s3 + s4 + s5) = 0 := by omega
    have e8 : s6 ≤ J0 + H := by omega
    simp only [h1, h2, h3, h4, h5, h6, optMin_some, e0, e1, e2, e3, e4, e5, e6, e7]
    rcases b.acc with _ | acc <;> cases c.prio <;> simp [maniaNoAcc, e7, e8]
  · simp only [hcl, if_true] at *
    have e1 : min s1 (J0 - s6) = s1 := by omega
    have e2 : min s2 (J0 - s6) = s2 := by omega
    have e3 : min s3 (J0 - s6) = s3 := by omega
    have e4 : min s4 (J0 - s6) = s4 := by omega
    have e5 : min s5 (J0 - s6) = s5 := by omega
    have e6 : J0 - (s1 + s2 + s3 + s4 + s5 + s6) = 0 := by omega
    have e7 : J0 - s6 - (s1 + s2 + s3 + s4 + s5) = 0 := by omega
    simp only [h1, h2, h3, h4, h5, h6, optMin_some, e0, e1, e2, e3, e4, e5, e6, e7]
    rcases b.acc with _ | acc <;> cases c.prio <;> simp [maniaNoAcc, e7, hm]

end Rosu.GenState
