import RosuModel.Lemmas.OsuSkillFl

/-! osu! rhythm evaluator over ℝ: the `rhythm_start` search, lookups / index arithmetic in range, the
loop invariant (sum, start ratio `≥ 0`, island counts `≥ 1`), the radicand of the final `sqrt`. -/

namespace Rosu.PerfCalc
open PPOps

/-- `previous(n)` exists exactly when `n < position`, for an element of a well-formed list -/
theorem previous_lookup_spec_aux (ds : List (DiffObj ℝ)) (hl : ListOK ds) (k : Nat) (curr : DiffObj ℝ)
    (hc : ds[k]? = some curr) (n : Nat) : (previous ds curr n).isSome = true ↔ n < k := by
  have hidx : curr.idx = k := hl.idx k curr hc
  have hk : k < ds.length := by
    by_contra hcon
    rw [List.getElem?_eq_none (by omega)] at hc
    cases hc
  unfold previous
  rw [hidx]
  constructor
  · intro h
    by_contra hn
    rw [if_neg (by omega)] at h
    cases h
  · intro h
    rw [if_pos (by omega)]
    have : k - (n + 1) < ds.length := by omega
    simp [List.getElem?_eq_getElem this]

/-! ### the `while` search -/

/-- what holds for every index the search stepped over -/
def RsPassed (ds : List (DiffObj ℝ)) (curr : DiffObj ℝ) (hnc rs : Nat) : Prop :=
  (rs = 0 ∨ rs + 1 < hnc) ∧
  ∀ j, j < rs → ∃ p, previous ds curr j = some p ∧ curr.startTime - p.startTime < 5000

theorem rhythmStartSearch_passed (ds : List (DiffObj ℝ)) (curr : DiffObj ℝ) (hnc : Nat) :
    ∀ (fuel rs : Nat), RsPassed ds curr hnc rs → RsPassed ds curr hnc (rhythmStartSearch ds curr hnc fuel rs) := by
  intro fuel
  induction fuel with
  | zero => intro rs h; exact h
  | succ fuel ih =>
    intro rs h
    unfold rhythmStartSearch
    cases hp : previous ds curr rs with
    | none => exact h
    | some prev =>
      simp only
      by_cases hc : (decide (rs + 2 < hnc) && PPOps.lt (curr.startTime - prev.startTime) historyTimeMax) = true
      · rw [if_pos hc]
        apply ih
        rw [Bool.and_eq_true, decide_eq_true_eq] at hc
        refine ⟨Or.inr (by omega), ?_⟩
        intro j hj
        rcases Nat.lt_succ_iff_lt_or_eq.mp hj with h1 | h1
        · exact h.2 j h1
        · subst h1
          refine ⟨prev, hp, ?_⟩
          have := (r_lt _ _).1 hc.2
          unfold historyTimeMax at this
          simpa using this
      · rw [if_neg hc]; exact h

/-- `rhythm_start` and what the search guarantees about it -/
theorem rhythmStart_spec (ds : List (DiffObj ℝ)) (curr : DiffObj ℝ) (hnc : Nat) :
    RsPassed ds curr hnc (rhythmStartSearch ds curr hnc hnc 0) :=
  rhythmStartSearch_passed ds curr hnc hnc 0 ⟨Or.inl rfl, fun j hj => absurd hj (Nat.not_lt_zero j)⟩

/-! ### flags: the `break` and the `usize` subtraction -/

theorem rhythmIslandEnd_flags (eps hw : ℝ) (st : RhState ℝ) (co : DiffObj ℝ) (e d c p l : ℝ) :
    (rhythmIslandEnd eps hw st co e d c p l).broke = st.broke
      ∧ (rhythmIslandEnd eps hw st co e d c p l).underflow = st.underflow
      ∧ (rhythmIslandEnd eps hw st co e d c p l).prevObj = st.prevObj
      ∧ (rhythmIslandEnd eps hw st co e d c p l).lastObj = st.lastObj := by
  unfold rhythmIslandEnd
  exact ⟨rfl, rfl, rfl, rfl⟩

theorem rhythmBranch_flags (eps hw : ℝ) (st : RhState ℝ) (co : DiffObj ℝ) (e d c p l : ℝ) :
    (rhythmBranch eps hw st co e d c p l).broke = st.broke
      ∧ (rhythmBranch eps hw st co e d c p l).underflow = st.underflow
      ∧ (rhythmBranch eps hw st co e d c p l).prevObj = st.prevObj := by
  unfold rhythmBranch
  split_ifs <;> first
    | exact ⟨rfl, rfl, rfl⟩
    | (obtain ⟨a, b, c', _⟩ := rhythmIslandEnd_flags eps hw st co e d c p l; exact ⟨a, b, c'⟩)

theorem rhythmStepWith_flags (curr : DiffObj ℝ) (hnc : Nat) (eps hw : ℝ) (st : RhState ℝ) (i : Nat)
    (co : DiffObj ℝ) :
    (rhythmStepWith curr hnc eps hw st i co).broke = st.broke
      ∧ (rhythmStepWith curr hnc eps hw st i co).underflow = (st.underflow || decide (hnc < i))
      ∧ (rhythmStepWith curr hnc eps hw st i co).prevObj = co
      ∧ (rhythmStepWith curr hnc eps hw st i co).lastObj = st.prevObj := by
  unfold rhythmStepWith
  extract_lets td nd chd cd pd ld er st1 st2
  have h1 : st1.broke = st.broke ∧ st1.underflow = (st.underflow || decide (hnc < i)) ∧ st1.prevObj = st.prevObj :=
    ⟨rfl, rfl, rfl⟩
  have h2 : st2.broke = st1.broke ∧ st2.underflow = st1.underflow ∧ st2.prevObj = st1.prevObj :=
    rhythmBranch_flags eps hw st1 co er chd cd pd ld
  refine ⟨?_, ?_, rfl, ?_⟩
  · show st2.broke = st.broke
    rw [h2.1, h1.1]
  · show st2.underflow = _
    rw [h2.2.1, h1.2.1]
  · show st2.prevObj = st.prevObj
    rw [h2.2.2, h1.2.2]

/-- for an element of a well-formed list at position `k`, with `previous(rs)` present: along
`for i in (1..=rs).rev()` the `break` is never taken and `historical_note_count - i` never underflows -/
theorem rhythm_loop_flags (ds : List (DiffObj ℝ)) (hl : ListOK ds) (k : Nat) (curr : DiffObj ℝ)
    (hc : ds[k]? = some curr) (hnc rs : Nat) (hrs : rs = 0 ∨ rs + 1 < hnc) (hk : rs < k) (eps hw : ℝ) :
    ∀ (l : List Nat) (st : RhState ℝ), (∀ i ∈ l, 1 ≤ i ∧ i ≤ rs) → st.broke = false → st.underflow = false →
      (l.foldl (rhythmStep ds curr hnc eps hw) st).broke = false
        ∧ (l.foldl (rhythmStep ds curr hnc eps hw) st).underflow = false := by
  intro l
  induction l with
  | nil => intro st _ h1 h2; exact ⟨h1, h2⟩
  | cons i t ih =>
    intro st hl' h1 h2
    have hi := hl' i (by simp)
    have hsome : (previous ds curr (i - 1)).isSome = true :=
      (previous_lookup_spec_aux ds hl k curr hc (i - 1)).2 (by omega)
    obtain ⟨co, hco⟩ := Option.isSome_iff_exists.mp hsome
    have hstep : rhythmStep ds curr hnc eps hw st i = rhythmStepWith curr hnc eps hw st i co := by
      unfold rhythmStep
      rw [h1]; simp [hco]
    obtain ⟨f1, f2, _, _⟩ := rhythmStepWith_flags curr hnc eps hw st i co
    simp only [List.foldl_cons]
    apply ih _ (fun j hj => hl' j (by simp [hj]))
    · rw [hstep, f1, h1]
    · rw [hstep, f2, h2]
      have : ¬ hnc < i := by rcases hrs with h | h <;> omega
      simp [this]

/-! ### values: the loop invariant -/

structure RhInv (st : RhState ℝ) : Prop where
  sum : 0 ≤ st.sum
  start : 0 ≤ st.startRatio
  prev : Floors st.prevObj
  last : Floors st.lastObj
  counts : ∀ e ∈ st.counts, 1 ≤ e.2

theorem rhythmEffectiveRatio_nonneg {eps : ℝ} (heps : 0 ≤ eps) (c p : ℝ) : 0 ≤ rhythmEffectiveRatio eps c p := by
  unfold rhythmEffectiveRatio
  extract_lets ddr cr fr fm wp
  have hcr : (0 : ℝ) ≤ cr := by
    show (0 : ℝ) ≤ 1.0 + 12.0 * min ((Real.sin (Real.pi / ddr)) ^ (2.0 : ℝ)) 0.5
    have : (0 : ℝ) ≤ min ((Real.sin (Real.pi / ddr)) ^ (2.0 : ℝ)) 0.5 := le_min (rpow_two_nonneg _) (by norm_num)
    have e1 : (0 : ℝ) ≤ 1.0 := by norm_num
    have : (0 : ℝ) ≤ 12.0 * min ((Real.sin (Real.pi / ddr)) ^ (2.0 : ℝ)) 0.5 := mul_nonneg (by norm_num) this
    linarith
  have hfm : (0 : ℝ) ≤ fm := (clamp01_mem _).1
  have hwp : (0 : ℝ) ≤ wp :=
    le_min (div_nonneg (le_trans (by norm_num) (le_max_right _ _)) heps) (by norm_num)
  exact mul_nonneg (mul_nonneg hwp hcr) hfm

theorem islandCountsUpdate_spec (eps : ℝ) (counts : List (Island × Nat)) (isl pisl : Island)
    (h : ∀ e ∈ counts, 1 ≤ e.2) :
    (∀ e ∈ (islandCountsUpdate eps counts isl pisl).1, 1 ≤ e.2)
      ∧ ∀ c, (islandCountsUpdate eps counts isl pisl).2 = some c → 1 ≤ c := by
  have hpush : ∀ e ∈ counts ++ [(isl, 1)], 1 ≤ e.2 := by
    intro e he
    rw [List.mem_append] at he
    rcases he with he | he
    · exact h e he
    · rw [List.mem_singleton] at he; rw [he]
  unfold islandCountsUpdate
  cases hk : counts.findIdx? (fun e => Island.eqv eps e.1 isl) with
  | none => exact ⟨hpush, fun c hc => by cases hc⟩
  | some k =>
    simp only
    cases hek : counts[k]? with
    | none => exact ⟨hpush, fun c hc => by cases hc⟩
    | some e =>
      simp only
      have he1 : 1 ≤ e.2 := h e (List.mem_of_getElem? hek)
      split_ifs with hd hq
      · refine ⟨?_, fun c hc => by cases hc; omega⟩
        intro x hx
        rcases List.mem_or_eq_of_mem_set hx with hx | hx
        · exact h x hx
        · rw [hx]; show 1 ≤ e.2 + 1; omega
      · refine ⟨?_, fun c hc => by cases hc; exact he1⟩
        intro x hx
        rcases List.mem_or_eq_of_mem_set hx with hx | hx
        · exact h x hx
        · rw [hx]; exact he1
      · exact ⟨hpush, fun c hc => by cases hc⟩

theorem doubletapness_factor_nonneg (o : DiffObj ℝ) (n : Option (DiffObj ℝ)) (hw : ℝ) :
    (0 : ℝ) ≤ 1.0 - getDoubletapness o n hw * 0.75 := by
  have := one_sub_doubletapness_nonneg o n hw
  have e1 : (1.0 : ℝ) = 1 := by norm_num
  rw [e1] at this ⊢
  nlinarith

theorem applyIslandRepeat_nonneg {e : ℝ} (he : 0 ≤ e) (isl : Island) (c : Option Nat) :
    0 ≤ applyIslandRepeat e isl c := by
  unfold applyIslandRepeat
  cases c with
  | none => exact he
  | some cnt =>
    simp only
    refine mul_nonneg he (le_min (div_nonneg (by norm_num) (Nat.cast_nonneg _)) ?_)
    exact Real.rpow_nonneg (div_nonneg (by norm_num) (Nat.cast_nonneg _)) _

theorem rhythmIslandEnd_inv (eps hw : ℝ) (st : RhState ℝ) (hst : RhInv st) (co : DiffObj ℝ) {e d : ℝ}
    (he : 0 ≤ e) (hd : 0 ≤ d) (c p l : ℝ) : RhInv (rhythmIslandEnd eps hw st co e d c p l) := by
  unfold rhythmIslandEnd
  extract_lets e1 e2 e3 e4 e5 upd e6 dt e7 sm
  have h1 : (0 : ℝ) ≤ e1 := ite_mul_nonneg he (fun _ => by norm_num)
  have h2 : (0 : ℝ) ≤ e2 := ite_mul_nonneg h1 (fun _ => by norm_num)
  have h3 : (0 : ℝ) ≤ e3 := ite_mul_nonneg h2 (fun _ => by norm_num)
  have h4 : (0 : ℝ) ≤ e4 := ite_mul_nonneg h3 (fun _ => by norm_num)
  have h5 : (0 : ℝ) ≤ e5 := ite_mul_nonneg h4 (fun _ => by norm_num)
  obtain ⟨u1, u2⟩ := islandCountsUpdate_spec eps st.counts st.island st.prevIsland hst.counts
  have h6 : (0 : ℝ) ≤ e6 := applyIslandRepeat_nonneg h5 _ _
  have h7 : (0 : ℝ) ≤ e7 := mul_nonneg h6 (doubletapness_factor_nonneg _ _ _)
  have hsm : (0 : ℝ) ≤ sm := add_nonneg hst.sum (mul_nonneg (Real.sqrt_nonneg _) hd)
  exact ⟨hsm, h7, hst.prev, hst.last, u1⟩

theorem rhythmBranch_inv {eps : ℝ} (hw : ℝ) (st : RhState ℝ) (hst : RhInv st) (co : DiffObj ℝ) {e d : ℝ}
    (he : 0 ≤ e) (hd : 0 ≤ d) (c p l : ℝ) : RhInv (rhythmBranch eps hw st co e d c p l) := by
  unfold rhythmBranch
  by_cases h1 : st.firstDeltaSwitch = true
  · rw [if_pos h1]
    by_cases h2 : PPOps.lt (PPOps.abs (p - c)) eps = true
    · rw [if_pos h2]; exact ⟨hst.sum, hst.start, hst.prev, hst.last, hst.counts⟩
    · rw [if_neg h2]; exact rhythmIslandEnd_inv eps hw st hst co he hd c p l
  · rw [if_neg h1]
    by_cases h2 : PPOps.lt (c + eps) p = true
    · rw [if_pos h2]
      extract_lets e1 e2
      have a1 : (0 : ℝ) ≤ e1 := ite_mul_nonneg he (fun _ => by norm_num)
      have a2 : (0 : ℝ) ≤ e2 := ite_mul_nonneg a1 (fun _ => by norm_num)
      exact ⟨hst.sum, a2, hst.prev, hst.last, hst.counts⟩
    · rw [if_neg h2]; exact hst

theorem rhythmStepWith_inv (curr : DiffObj ℝ) (hnc : Nat) {eps : ℝ} (heps : 0 ≤ eps) (hw : ℝ) (st : RhState ℝ)
    (hst : RhInv st) (i : Nat) (co : DiffObj ℝ) (hco : Floors co)
    (htime : curr.startTime - co.startTime ≤ 5000) : RhInv (rhythmStepWith curr hnc eps hw st i co) := by
  unfold rhythmStepWith
  extract_lets td nd chd cd pd ld er st1 st2
  have htd : (0 : ℝ) ≤ td := by
    show (0 : ℝ) ≤ (historyTimeMax - (curr.startTime - co.startTime)) / historyTimeMax
    unfold historyTimeMax
    simp only [r_ofNat]
    exact div_nonneg (by push_cast; linarith) (by positivity)
  have hnd : (0 : ℝ) ≤ nd := div_nonneg (Nat.cast_nonneg _) (Nat.cast_nonneg _)
  have hchd : (0 : ℝ) ≤ chd := le_min hnd htd
  have her : (0 : ℝ) ≤ er := rhythmEffectiveRatio_nonneg heps _ _
  have hst1 : RhInv st1 := ⟨hst.sum, hst.start, hst.prev, hst.last, hst.counts⟩
  have hst2 : RhInv st2 := rhythmBranch_inv hw st1 hst1 co her hchd cd pd ld
  have hp : st2.prevObj = st.prevObj := (rhythmBranch_flags eps hw st1 co er chd cd pd ld).2.2
  exact ⟨hst2.sum, hst2.start, hco, by rw [hp]; exact hst.prev, hst2.counts⟩

/-- the whole loop keeps the invariant, for an element of a well-formed list whose stepped-over
predecessors are within `HISTORY_TIME_MAX` (what the `rhythm_start` search guarantees) -/
theorem rhythm_loop_inv (ds : List (DiffObj ℝ)) (hl : ListOK ds) (curr : DiffObj ℝ) (hnc rs : Nat)
    (hpass : ∀ j, j < rs → ∃ p, previous ds curr j = some p ∧ curr.startTime - p.startTime < 5000)
    {eps : ℝ} (heps : 0 ≤ eps) (hw : ℝ) :
    ∀ (l : List Nat) (st : RhState ℝ), (∀ i ∈ l, 1 ≤ i ∧ i ≤ rs) → RhInv st →
      RhInv (l.foldl (rhythmStep ds curr hnc eps hw) st) := by
  intro l
  induction l with
  | nil => intro st _ h; exact h
  | cons i t ih =>
    intro st hl' hst
    have hi := hl' i (by simp)
    simp only [List.foldl_cons]
    apply ih _ (fun j hj => hl' j (by simp [hj]))
    unfold rhythmStep
    by_cases hb : st.broke = true
    · rw [if_pos hb]; exact hst
    · rw [if_neg hb]
      obtain ⟨p, hp, htm⟩ := hpass (i - 1) (by omega)
      rw [hp]
      exact rhythmStepWith_inv curr hnc heps hw st hst i p (hl.floors _ _ (previous_some hp).2) htm.le

/-- (a)+(b) `RhythmEvaluator::evaluate_diff_of` on a well-formed list, for a non-negative hit window: when
the loop ran, its final state has `rhythm_complexity_sum ≥ 0` (so the radicand of the final `sqrt` is `≥ 4`),
every island count `≥ 1` (the denominators `count as f64`), and the result is `≥ 1` -/
theorem rhythmEvaluateFull_spec (ds : List (DiffObj ℝ)) (hl : ListOK ds) (curr : DiffObj ℝ) {hw : ℝ}
    (hhw : 0 ≤ hw) :
    0 ≤ (rhythmEvaluateFull ds curr hw).1
      ∧ ∀ st, (rhythmEvaluateFull ds curr hw).2 = some st → RhInv st := by
  unfold rhythmEvaluateFull
  by_cases hs : curr.base.isSpinner = true
  · rw [if_pos hs]; exact ⟨by show (0 : ℝ) ≤ 0.0; norm_num, fun st h => by cases h⟩
  · rw [if_neg hs]
    extract_lets eps hnc rs final sum
    refine ⟨div_nonneg (Real.sqrt_nonneg _) (by norm_num), ?_⟩
    intro st hfin
    have heps : (0 : ℝ) ≤ eps := mul_nonneg hhw (by norm_num)
    have hpass := (rhythmStart_spec ds curr hnc).2
    have hfin' : rhythmLoop ds curr hnc eps hw rs = some st := hfin
    unfold rhythmLoop at hfin'
    cases hp : previous ds curr rs with
    | none => rw [hp] at hfin'; cases hfin'
    | some po =>
      cases hq : previous ds curr (rs + 1) with
      | none => rw [hp, hq] at hfin'; cases hfin'
      | some lo =>
        rw [hp, hq] at hfin'
        simp only [Option.some.injEq] at hfin'
        rw [← hfin']
        apply rhythm_loop_inv ds hl curr hnc rs hpass heps hw
        · intro i hi
          simp only [List.mem_map, List.mem_reverse, List.mem_range] at hi
          obtain ⟨a, ha, rfl⟩ := hi
          omega
        · exact ⟨by show (0 : ℝ) ≤ 0.0; norm_num, by show (0 : ℝ) ≤ 0.0; norm_num,
            hl.floors _ _ (previous_some hp).2, hl.floors _ _ (previous_some hq).2, by simp⟩

/-- for an element of a well-formed list (any length, incl. 0–3 objects): whenever the rhythm loop runs, its
`break` is never taken (every `previous(i - 1)` lookup is in range) and `historical_note_count - i` never
underflows -/
theorem rhythmEvaluateFull_flags (ds : List (DiffObj ℝ)) (hl : ListOK ds) (k : Nat) (curr : DiffObj ℝ)
    (hc : ds[k]? = some curr) (hw : ℝ) :
    ∀ st, (rhythmEvaluateFull ds curr hw).2 = some st → st.broke = false ∧ st.underflow = false := by
  intro st hfin
  unfold rhythmEvaluateFull at hfin
  by_cases hs : curr.base.isSpinner = true
  · rw [if_pos hs] at hfin; cases hfin
  · rw [if_neg hs] at hfin
    revert hfin
    extract_lets eps hnc rs final sum
    intro hfin
    have hfin' : rhythmLoop ds curr hnc eps hw rs = some st := hfin
    have hrs := (rhythmStart_spec ds curr hnc).1
    unfold rhythmLoop at hfin'
    cases hp : previous ds curr rs with
    | none => rw [hp] at hfin'; cases hfin'
    | some po =>
      have hk : rs < k := (previous_lookup_spec_aux ds hl k curr hc rs).1 (by rw [hp]; rfl)
      cases hq : previous ds curr (rs + 1) with
      | none => rw [hp, hq] at hfin'; cases hfin'
      | some lo =>
        rw [hp, hq] at hfin'
        simp only [Option.some.injEq] at hfin'
        rw [← hfin']
        apply rhythm_loop_flags ds hl k curr hc hnc rs hrs hk eps hw
        · intro i hi
          simp only [List.mem_map, List.mem_reverse, List.mem_range] at hi
          obtain ⟨a, ha, rfl⟩ := hi
          omega
        · rfl
        · rfl

end Rosu.PerfCalc
