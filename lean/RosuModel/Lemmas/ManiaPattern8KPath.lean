import RosuModel.Lemmas.ManiaPattern8K

/-!
The 7K+1 occupancy invariant, slider side: the pattern `PathObjectPatternGenerator::generate()` leaves
as `last_values.pattern` satisfies `Inv8`.  Either the single-note pattern itself, or the END-TIME
pattern: the notes of the core pattern whose end time equals `end_time` — at most 5 for the
hold-note generators (note-count caps), and at most 1 / 1 / 2 / 3 for `generate_random_notes`,
`generate_stair`, `generate_random_multiple_notes`, `generate_hold_and_normal_notes`, whose note
times increase strictly (`segment_duration > 0` in those branches).
-/
namespace Rosu.ManiaPattern
open Rosu.Safety Rosu.Rng Rosu.ConvertWF

variable {F : Type}

/-- number of notes ending at `e` -/
def cntE (e : Int) (l : List Note) : Nat := (l.filter (fun n => e == n.endT)).length

theorem cntE_le (e : Int) (l : List Note) : cntE e l ≤ l.length := List.length_filter_le _ _

theorem cntE_append (e : Int) (a b : List Note) : cntE e (a ++ b) = cntE e a + cntE e b := by
  simp [cntE, List.filter_append]

theorem cntE_add {p p' : Pat} {c : Nat} {s t e : Int} (h : p.add c (.span s t) = .ok p') :
    cntE e p'.notes = cntE e p.notes + (if e = t then 1 else 0) := by
  rw [Pat.add_notes h, cntE_append]
  simp only [cntE, List.filter_cons, List.filter_nil, Note.endT]
  by_cases he : e = t
  · simp [he]
  · have : (e == t) = false := by simpa using he
    simp [he, this]

/-- the counting step shared by the time-ordered loops: before, at most `m` notes end at `e` and only
if `e < t`; `r ≤ m` notes ending at `t` are added; afterwards the same holds at `t' = t + seg > t` -/
theorem cnt_step {c c' m r : Nat} {e t seg : Int} (hseg : 0 < seg)
    (hinv : c ≤ (if e < t then m else 0)) (hr : r ≤ m)
    (hc' : c' = c + (if e = t then r else 0)) : c' ≤ (if e < t + seg then m else 0) := by
  by_cases h1 : e < t
  · have : e < t + seg := by omega
    have hne : ¬ e = t := by omega
    simp only [h1, if_true] at hinv
    simp only [this, if_true, hne, if_false] at hc' ⊢
    omega
  · simp only [h1, if_false] at hinv
    by_cases h2 : e = t
    · subst h2
      have hlt : e < e + seg := by omega
      rw [if_pos hlt]
      rw [if_pos rfl] at hc'
      omega
    · simp only [h2, if_false] at hc'
      have : c' = 0 := by omega
      rw [this]; split <;> omega

section path8
variable {A : PArith F} (hA : RangeLaw A) (g : PathIn F) (h8 : g.total = 8)
include hA h8

theorem prs8 : randomStart g.total = 1 := by unfold randomStart; rw [if_pos h8]

theorem pathFind_ge (avoid : Option Nat) (pats : List Cols) (s s' : Osu) (init c : Nat)
    (hi : 1 ≤ init ∧ init < 8) (h : pathFind A g avoid pats s init = .ok (c, s')) : 1 ≤ c ∧ c < 8 := by
  unfold pathFind at h
  have hrs := prs8 hA g h8
  rw [hrs, h8] at h
  exact findAvail_inv (fun c => 1 ≤ c ∧ c < 8)
    (fun s col c s' _ hn => randomNext_inv hA (by omega) (by omega) s col c s' hn) hi h

theorem gcs8 : 1 ≤ getColumnSpecial g.total g.x ∧ getColumnSpecial g.total g.x < 8 := by
  have h1 := getColumnSpecial_ge g.total g.x
  have h2 := getColumnSpecial_lt (T := g.total) (by omega) (by omega) g.x
  rw [prs8 hA g h8] at h1
  omega

theorem grc8 (s : Osu) : 1 ≤ (getRandomColumn A s (randomStart g.total) g.total).1 ∧
    (getRandomColumn A s (randomStart g.total) g.total).1 < 8 := by
  have hrs := prs8 hA g h8
  have := getRandomColumn_bounds hA s (randomStart g.total) g.total (by omega) (by omega)
  omega

theorem pathHoldLoop_shape (withPrev : Bool) (t : Int) :
    ∀ (k : Nat) (pat : Pat) (c : Nat) (s : Osu) (r : Pat × Nat × Osu), (1 ≤ c ∧ c < 8) → LenLe pat →
      NotesGe 1 pat → pathHoldLoop A g withPrev t k pat c s = .ok r →
      r.1.notes.length = pat.notes.length + k ∧ LenLe r.1 ∧ NotesGe 1 r.1 ∧ (1 ≤ r.2.1 ∧ r.2.1 < 8) := by
  intro k
  induction k with
  | zero => intro pat c s r hc hl hg h; unfold pathHoldLoop at h; cases h; exact ⟨rfl, hl, hg, hc⟩
  | succ k ih =>
    intro pat c s r hc hl hg h
    unfold pathHoldLoop at h
    obtain ⟨⟨c', s'⟩, hf, h2⟩ := bind_ok h
    simp only at h2
    obtain ⟨pat', ha, h3⟩ := bind_ok h2
    have hc' := pathFind_ge hA g h8 _ _ _ _ _ _ hc hf
    obtain ⟨e1, e2, e3, e4⟩ := ih pat' c' s' r hc' (hl.add ha) (hg.add hc'.1 ha) h3
    refine ⟨?_, e2, e3, e4⟩
    rw [e1, Pat.add_notes ha]; simp only [List.length_append, List.length_singleton]; omega

theorem pathAvoidPrev_ge (ct c : Nat) (s : Osu) (r : Nat × Osu) (hc : 1 ≤ c ∧ c < 8)
    (h : pathAvoidPrev A g ct c s = .ok r) : 1 ≤ r.1 ∧ r.1 < 8 := by
  unfold pathAvoidPrev at h
  split at h
  · obtain ⟨c', s'⟩ := r
    exact pathFind_ge hA g h8 _ _ _ _ _ _ hc h
  · cases h; exact hc

/-- `generate_random_notes`: notes in 1–7, exactly `k` of them, at most one per time -/
theorem pathRandomNotesLoop_shape (e : Int) (hseg : 0 < g.seg) :
    ∀ (k : Nat) (pat : Pat) (c last : Nat) (t : Int) (s : Osu) (r : Pat × Osu), (1 ≤ c ∧ c < 8) →
      LenLe pat → NotesGe 1 pat → cntE e pat.notes ≤ (if e < t then 1 else 0) →
      pathRandomNotesLoop A g k pat c last t s = .ok r →
      r.1.notes.length = pat.notes.length + k ∧ LenLe r.1 ∧ NotesGe 1 r.1 ∧ cntE e r.1.notes ≤ 1 := by
  intro k
  induction k with
  | zero =>
    intro pat c last t s r _ hl hg hcnt h
    unfold pathRandomNotesLoop at h; cases h
    refine ⟨rfl, hl, hg, ?_⟩
    show cntE e pat.notes ≤ 1
    split at hcnt <;> omega
  | succ k ih =>
    intro pat c last t s r hc hl hg hcnt h
    unfold pathRandomNotesLoop at h
    obtain ⟨pat', ha, h2⟩ := bind_ok h
    obtain ⟨⟨c', s'⟩, hf, h3⟩ := bind_ok h2
    simp only at h3
    obtain ⟨t', ht', h4⟩ := bind_ok h3
    have hc' := pathFind_ge hA g h8 _ _ _ _ _ _ hc hf
    have et := i32add_ok ht'
    have hcnt' : cntE e pat'.notes ≤ (if e < t' then 1 else 0) := by
      rw [et]
      exact cnt_step hseg hcnt (Nat.le_refl 1) (cntE_add ha)
    obtain ⟨e1, e2, e3, e4⟩ := ih pat' c' c' t' s' r hc' (hl.add ha) (hg.add hc.1 ha) hcnt' h4
    refine ⟨?_, e2, e3, e4⟩
    rw [e1, Pat.add_notes ha]; simp only [List.length_append, List.length_singleton]; omega

omit hA in
/-- `generate_stair`: notes in 1–7, at most one per time -/
theorem pathStairLoop_shape (e : Int) (hseg : 0 < g.seg) :
    ∀ (k : Nat) (pat : Pat) (column : Int) (inc : Bool) (t : Int) (r : Pat), (1 ≤ column ∧ column ≤ 7) →
      LenLe pat → NotesGe 1 pat → cntE e pat.notes ≤ (if e < t then 1 else 0) →
      pathStairLoop g k pat column inc t = .ok r →
      r.notes.length = pat.notes.length + k ∧ LenLe r ∧ NotesGe 1 r ∧ cntE e r.notes ≤ 1 := by
  intro k
  induction k with
  | zero =>
    intro pat column inc t r _ hl hg hcnt h
    unfold pathStairLoop at h; cases h
    exact ⟨rfl, hl, hg, by split at hcnt <;> omega⟩
  | succ k ih =>
    intro pat column inc t r hc hl hg hcnt h
    unfold pathStairLoop at h
    obtain ⟨pat', ha, h3⟩ := bind_ok h
    obtain ⟨t', ht', h4⟩ := bind_ok h3
    have hrs : randomStart g.total = 1 := by unfold randomStart; rw [if_pos h8]
    have hu : 1 ≤ asU8 column := by
      have := asU8_of_range (v := column) (by omega) (by omega); omega
    have et := i32add_ok ht'
    have hcnt' : cntE e pat'.notes ≤ (if e < t' then 1 else 0) := by
      rw [et]; exact cnt_step hseg hcnt (Nat.le_refl 1) (cntE_add ha)
    have key : ∀ col' inc', (1 ≤ col' ∧ col' ≤ 7) → pathStairLoop g k pat' col' inc' t' = .ok r →
        r.notes.length = pat.notes.length + (k + 1) ∧ LenLe r ∧ NotesGe 1 r ∧ cntE e r.notes ≤ 1 := by
      intro col' inc' hcol hh
      obtain ⟨e1, e2, e3, e4⟩ := ih pat' col' inc' t' r hcol (hl.add ha) (hg.add hu ha) hcnt' hh
      refine ⟨?_, e2, e3, e4⟩
      rw [e1, Pat.add_notes ha]; simp only [List.length_append, List.length_singleton]; omega
    rw [h8] at h4
    rw [show randomStart 8 = 1 from rfl] at h4
    split at h4
    · split at h4
      · exact key _ _ (by omega) h4
      · exact key _ _ (by omega) h4
    · split at h4
      · exact key _ _ (by omega) h4
      · exact key _ _ (by omega) h4

/-- `generate_tiled_hold_notes`: exactly `k` notes in 1–7 -/
theorem pathTiledLoop_shape (endT : Int) :
    ∀ (k : Nat) (pat : Pat) (c : Nat) (t : Int) (s : Osu) (r : Pat × Osu), (1 ≤ c ∧ c < 8) → LenLe pat →
      NotesGe 1 pat → pathTiledLoop A g endT k pat c t s = .ok r →
      r.1.notes.length = pat.notes.length + k ∧ LenLe r.1 ∧ NotesGe 1 r.1 := by
  intro k
  induction k with
  | zero => intro pat c t s r _ hl hg h; unfold pathTiledLoop at h; cases h; exact ⟨rfl, hl, hg⟩
  | succ k ih =>
    intro pat c t s r hc hl hg h
    unfold pathTiledLoop at h
    obtain ⟨⟨c', s'⟩, hf, h2⟩ := bind_ok h
    simp only at h2
    obtain ⟨pat', ha, h3⟩ := bind_ok h2
    obtain ⟨t', _, h4⟩ := bind_ok h3
    have hc' := pathFind_ge hA g h8 _ _ _ _ _ _ hc hf
    obtain ⟨e1, e2, e3⟩ := ih pat' c' t' s' r hc' (hl.add ha) (hg.add hc'.1 ha) h4
    refine ⟨?_, e2, e3⟩
    rw [e1, Pat.add_notes ha]; simp only [List.length_append, List.length_singleton]; omega

end path8

theorem cnt_step_b {b c c' m r : Nat} {e t seg : Int} (hseg : 0 < seg)
    (hinv : c ≤ b + (if e < t then m else 0)) (hr : r ≤ m)
    (hc' : c' = c + (if e = t then r else 0)) : c' ≤ b + (if e < t + seg then m else 0) := by
  by_cases h1 : e < t
  · have : e < t + seg := by omega
    have hne : ¬ e = t := by omega
    simp only [h1, if_true] at hinv
    simp only [this, if_true, hne, if_false] at hc' ⊢
    omega
  · simp only [h1, if_false] at hinv
    by_cases h2 : e = t
    · subst h2
      have hlt : e < e + seg := by omega
      rw [if_pos hlt]
      rw [if_pos rfl] at hc'
      omega
    · simp only [h2, if_false] at hc'
      split <;> omega

theorem Cols.len_or_le (a b : Cols) : Cols.len (a ||| b) ≤ Cols.len a + Cols.len b := by
  rw [Cols.len_eq_countP, Cols.len_eq_countP, Cols.len_eq_countP]
  have h : ∀ i, (a ||| b).testBit i = (a.testBit i || b.testBit i) := fun i => Nat.testBit_or a b i
  simp only [h]
  exact countP_or_le _ _ _

theorem LenLe.append {p q : Pat} (hp : LenLe p) (hq : LenLe q) : LenLe (p.append q) := by
  unfold LenLe at *
  simp only [Pat.append, List.length_append]
  have := Cols.len_or_le p.cols q.cols
  omega

theorem NotesGe.append {lo : Nat} {p q : Pat} (hp : NotesGe lo p) (hq : NotesGe lo q) :
    NotesGe lo (p.append q) := by
  intro n hn
  simp only [Pat.append, List.mem_append] at hn
  rcases hn with hn | hn
  · exact hp n hn
  · exact hq n hn

section path8b
variable {A : PArith F} (hA : RangeLaw A) (g : PathIn F) (h8 : g.total = 8)
include hA h8

/-- `generate_random_multiple_notes`: two notes per row, so 0 or 2 notes end at any given time -/
theorem pathMultipleLoop_shape (e : Int) (hseg : 0 < g.seg) (interval legacy : Int) :
    ∀ (k : Nat) (pat : Pat) (c : Int) (t : Int) (s : Osu) (r : Pat × Osu), LenLe pat →
      ((e < t → cntE e pat.notes = 0 ∨ cntE e pat.notes = 2) ∧ (¬ e < t → cntE e pat.notes = 0)) →
      pathMultipleLoop A g interval legacy k pat c t s = .ok r →
      r.1.notes.length = pat.notes.length + 2 * k ∧ LenLe r.1 ∧
        (cntE e r.1.notes = 0 ∨ cntE e r.1.notes = 2) := by
  intro k
  induction k with
  | zero =>
    intro pat c t s r hl hcnt h
    unfold pathMultipleLoop at h; cases h
    refine ⟨rfl, hl, ?_⟩
    show cntE e pat.notes = 0 ∨ cntE e pat.notes = 2
    by_cases h1 : e < t
    · exact hcnt.1 h1
    · exact Or.inl (hcnt.2 h1)
  | succ k ih =>
    intro pat c t s r hl hcnt h
    unfold pathMultipleLoop at h
    simp only at h
    obtain ⟨pat1, ha1, h3⟩ := bind_ok h
    obtain ⟨pat2, ha2, h4⟩ := bind_ok h3
    rw [if_pos (by omega : g.total > 2)] at ha2
    generalize getRandomColumn A s (randomStart g.total) g.total = rc at h4
    obtain ⟨c', s'⟩ := rc
    simp only at h4
    obtain ⟨t', ht', h5⟩ := bind_ok h4
    have et := i32add_ok ht'
    have c1 := cntE_add (e := e) ha1
    have c2 := cntE_add (e := e) ha2
    have hcnt' : (e < t' → cntE e pat2.notes = 0 ∨ cntE e pat2.notes = 2) ∧ (¬ e < t' → cntE e pat2.notes = 0) := by
      rw [et]
      by_cases h1 : e < t
      · have hne : ¬ e = t := by omega
        rw [if_neg hne] at c1 c2
        have := hcnt.1 h1
        exact ⟨fun _ => by omega, fun hh => by omega⟩
      · have h0 := hcnt.2 h1
        by_cases h2 : e = t
        · rw [if_pos h2] at c1 c2
          exact ⟨fun _ => by omega, fun hh => by omega⟩
        · rw [if_neg h2] at c1 c2
          exact ⟨fun _ => by omega, fun _ => by omega⟩
    obtain ⟨e1, e2, e3⟩ := ih pat2 c' t' s' r ((hl.add ha1).add ha2) hcnt' h5
    refine ⟨?_, e2, e3⟩
    rw [e1, Pat.add_notes ha2, Pat.add_notes ha1]
    simp only [List.length_append, List.length_singleton]; omega

/-- one row of `generate_hold_and_normal_notes` -/
theorem pathRowLoop_shape (hold : Nat) (t e : Int) :
    ∀ (k : Nat) (row : Pat) (c : Nat) (s : Osu) (r : Pat × Nat × Osu), (1 ≤ c ∧ c < 8) → LenLe row →
      NotesGe 1 row → pathRowLoop A g hold t k row c s = .ok r →
      LenLe r.1 ∧ NotesGe 1 r.1 ∧ (1 ≤ r.2.1 ∧ r.2.1 < 8) ∧
        cntE e r.1.notes = cntE e row.notes + (if e = t then k else 0) := by
  intro k
  induction k with
  | zero =>
    intro row c s r hc hl hg h
    unfold pathRowLoop at h; cases h
    exact ⟨hl, hg, hc, by simp⟩
  | succ k ih =>
    intro row c s r hc hl hg h
    unfold pathRowLoop at h
    obtain ⟨⟨c', s'⟩, hf, h2⟩ := bind_ok h
    simp only at h2
    obtain ⟨row', ha, h3⟩ := bind_ok h2
    have hc' := pathFind_ge hA g h8 _ _ _ _ _ _ hc hf
    obtain ⟨e1, e2, e3, e4⟩ := ih row' c' s' r hc' (hl.add ha) (hg.add hc'.1 ha) h3
    refine ⟨e1, e2, e3, ?_⟩
    rw [e4, cntE_add ha]
    split <;> omega

theorem pathHoldNormalLoop_shape (hold n : Nat) (hn : n ≤ 2) (ign : Bool) (e : Int) (hseg : 0 < g.seg) :
    ∀ (k : Nat) (pat : Pat) (c : Nat) (t : Int) (s : Osu) (r : Pat × Osu), (1 ≤ c ∧ c < 8) → LenLe pat →
      NotesGe 1 pat → cntE e pat.notes ≤ 1 + (if e < t then 2 else 0) →
      pathHoldNormalLoop A g hold n ign k pat c t s = .ok r →
      LenLe r.1 ∧ NotesGe 1 r.1 ∧ cntE e r.1.notes ≤ 3 := by
  intro k
  induction k with
  | zero =>
    intro pat c t s r _ hl hg hcnt h
    unfold pathHoldNormalLoop at h; cases h
    refine ⟨hl, hg, ?_⟩
    show cntE e pat.notes ≤ 3
    split at hcnt <;> omega
  | succ k ih =>
    intro pat c t s r hc hl hg hcnt h
    unfold pathHoldNormalLoop at h
    obtain ⟨⟨row, c', s'⟩, hrow, h2⟩ := bind_ok h
    simp only at h2
    obtain ⟨t', ht', h3⟩ := bind_ok h2
    have et := i32add_ok ht'
    have hr : LenLe row ∧ NotesGe 1 row ∧ (1 ≤ c' ∧ c' < 8) ∧ ∃ j, j ≤ 2 ∧ cntE e row.notes = (if e = t then j else 0) := by
      split at hrow
      · obtain ⟨a1, a2, a3, a4⟩ := pathRowLoop_shape hA g h8 hold t e n Pat.empty c s _ hc LenLe.empty
          (NotesGe.empty 1) hrow
        exact ⟨a1, a2, a3, n, hn, by simpa [Pat.empty, cntE] using a4⟩
      · cases hrow
        exact ⟨LenLe.empty, NotesGe.empty 1, hc, 0, by omega, by simp [Pat.empty, cntE]⟩
    obtain ⟨r1, r2, r3, j, hj, r4⟩ := hr
    have hcnt' : cntE e (pat.append row).notes ≤ 1 + (if e < t' then 2 else 0) := by
      rw [et]
      have : cntE e (pat.append row).notes = cntE e pat.notes + (if e = t then j else 0) := by
        simp only [Pat.append, cntE_append, r4]
      exact cnt_step_b hseg hcnt hj this
    exact ih _ c' t' s' r r3 (hl.append r1) (hg.append r2) hcnt' h3

end path8b

/-- what the core pattern of a slider must satisfy so that the pattern left as `last_values.pattern`
(itself if it has one note, else its end-time part) is `Inv8` -/
def CoreR (g : PathIn F) (p : Pat) : Prop :=
  LenLe p ∧ cntE g.endT p.notes ≤ 6 ∧ (NotesGe 1 p ∨ (p.notes.length ≠ 1 ∧ cntE g.endT p.notes ≠ 1))

theorem coreR_small {g : PathIn F} {p : Pat} (h1 : LenLe p) (h2 : NotesGe 1 p) (h3 : p.notes.length ≤ 6) :
    CoreR g p := ⟨h1, le_trans (cntE_le _ _) h3, Or.inl h2⟩

section path8c
variable {A : PArith F} (hP : ProbLaw A) (g : PathIn F) (h8 : g.total = 8)
include hP h8

theorem pathRandomNotesLoop_shape0 :
    ∀ (k : Nat) (pat : Pat) (c last : Nat) (t : Int) (s : Osu) (r : Pat × Osu), (1 ≤ c ∧ c < 8) →
      LenLe pat → NotesGe 1 pat → pathRandomNotesLoop A g k pat c last t s = .ok r →
      r.1.notes.length = pat.notes.length + k ∧ LenLe r.1 ∧ NotesGe 1 r.1 := by
  intro k
  induction k with
  | zero => intro pat c last t s r _ hl hg h; unfold pathRandomNotesLoop at h; cases h; exact ⟨rfl, hl, hg⟩
  | succ k ih =>
    intro pat c last t s r hc hl hg h
    unfold pathRandomNotesLoop at h
    obtain ⟨pat', ha, h2⟩ := bind_ok h
    obtain ⟨⟨c', s'⟩, hf, h3⟩ := bind_ok h2
    simp only at h3
    obtain ⟨t', _, h4⟩ := bind_ok h3
    have hc' := pathFind_ge hP.toRangeLaw g h8 _ _ _ _ _ _ hc hf
    obtain ⟨e1, e2, e3⟩ := ih pat' c' c' t' s' r hc' (hl.add ha) (hg.add hc.1 ha) h4
    refine ⟨?_, e2, e3⟩
    rw [e1, Pat.add_notes ha]; simp only [List.length_append, List.length_singleton]; omega

theorem pathRandomHoldNotes_R (t n : Int) (hn : n ≤ 4) (hprev : Cols.len g.prev.cols ≤ 6) (s : Osu)
    (r : Pat × Osu) (h : pathRandomHoldNotes A g t n s = .ok r) : CoreR g r.1 := by
  unfold pathRandomHoldNotes at h
  simp only at h
  have hb := grc8 hP.toRangeLaw g h8 s
  have hrs := prs8 hP.toRangeLaw g h8
  generalize getRandomColumn A s (randomStart g.total) g.total = c0 at h hb
  obtain ⟨c0, s0⟩ := c0
  simp only at h hb
  obtain ⟨⟨pat, c1, s1⟩, hl1, h2⟩ := bind_ok h
  obtain ⟨a1, a2, a3, a4⟩ := pathHoldLoop_shape hP.toRangeLaw g h8 _ _ _ _ _ _ _ hb LenLe.empty (NotesGe.empty 1) hl1
  simp only at h2 a1 a2 a3 a4
  obtain ⟨⟨pat2, c2, s2⟩, hl2, h3⟩ := bind_ok h2
  obtain ⟨b1, b2, b3, _⟩ := pathHoldLoop_shape hP.toRangeLaw g h8 _ _ _ _ _ _ _ a4 a2 a3 hl2
  cases h3
  refine coreR_small b2 b3 ?_
  show pat2.notes.length ≤ 6
  rw [b1, a1]
  simp only [Pat.empty, List.length_nil, Pat.count]
  rw [hrs, h8]
  have : (Cols.len g.prev.cols : Int) ≤ 6 := by exact_mod_cast hprev
  omega

theorem pathNRandom_R (ct : Nat) (t : Int) (p2 p3 p4 : F) (hprev : Cols.len g.prev.cols ≤ 6) (s : Osu)
    (r : Pat × Osu) (h : pathNRandom A g ct t p2 p3 p4 s = .ok r) : CoreR g r.1 := by
  unfold pathNRandom at h
  obtain ⟨canTwo, _, h3⟩ := bind_ok h
  have c := noteCount_caps hP s (if canTwo then A.pct 100 else (pathProbs A g.total p2 p3 p4).1)
    (pathProbs A g.total p2 p3 p4).2.1 (pathProbs A g.total p2 p3 p4).2.2 (A.pct 0) (A.pct 0)
  exact pathRandomHoldNotes_R hP g h8 _ _ (c.2.2.2.1 rfl rfl) hprev _ _ h3

theorem pathRandomNotes_R_small (ct : Nat) (t n : Int) (hn : n ≤ 6) (s : Osu) (r : Pat × Osu)
    (h : pathRandomNotes A g ct t n s = .ok r) : CoreR g r.1 := by
  unfold pathRandomNotes at h
  obtain ⟨⟨c, s1⟩, ha, h2⟩ := bind_ok h
  have hc := pathAvoidPrev_ge hP.toRangeLaw g h8 _ _ _ _ (gcs8 hP.toRangeLaw g h8) ha
  obtain ⟨e1, e2, e3⟩ := pathRandomNotesLoop_shape0 hP g h8 _ _ _ _ _ _ _ hc LenLe.empty (NotesGe.empty 1) h2
  refine coreR_small e2 e3 ?_
  rw [e1]; simp only [Pat.empty, List.length_nil]; omega

theorem pathRandomNotes_R_timed (ct : Nat) (t n : Int) (hseg : 0 < g.seg) (s : Osu) (r : Pat × Osu)
    (h : pathRandomNotes A g ct t n s = .ok r) : CoreR g r.1 := by
  unfold pathRandomNotes at h
  obtain ⟨⟨c, s1⟩, ha, h2⟩ := bind_ok h
  have hc := pathAvoidPrev_ge hP.toRangeLaw g h8 _ _ _ _ (gcs8 hP.toRangeLaw g h8) ha
  obtain ⟨_, e2, e3, e4⟩ := pathRandomNotesLoop_shape hP.toRangeLaw g h8 g.endT hseg _ _ _ _ _ _ _ hc
    LenLe.empty (NotesGe.empty 1) (by simp [Pat.empty, cntE]) h2
  exact ⟨e2, by omega, Or.inl e3⟩

theorem pathStair_R (t : Int) (hseg : 0 < g.seg) (s : Osu) (r : Pat × Osu)
    (h : pathStair A g t s = .ok r) : CoreR g r.1 := by
  unfold pathStair at h
  simp only at h
  generalize nextDouble A s = nd at h
  obtain ⟨v, s1⟩ := nd
  simp only at h
  obtain ⟨iters, _, h3⟩ := bind_ok h
  obtain ⟨pat, hl, h4⟩ := bind_ok h3
  cases h4
  have hc := gcs8 hP.toRangeLaw g h8
  obtain ⟨_, e2, e3, e4⟩ := pathStairLoop_shape g h8 g.endT hseg _ _ _ _ _ _ (by omega) LenLe.empty
    (NotesGe.empty 1) (by simp [Pat.empty, cntE]) hl
  exact ⟨e2, by show cntE g.endT pat.notes ≤ 6; omega, Or.inl e3⟩

theorem pathMultiple_R (t : Int) (hseg : 0 < g.seg) (hspan : 1 ≤ g.span) (s : Osu) (r : Pat × Osu)
    (h : pathMultiple A g t s = .ok r) : CoreR g r.1 := by
  unfold pathMultiple at h
  simp only at h
  obtain ⟨iters, hi, h3⟩ := bind_ok h
  have hk := (inclusiveIters_ok hi).2
  obtain ⟨e1, e2, e3⟩ := pathMultipleLoop_shape hP.toRangeLaw g h8 g.endT hseg _ _ _ _ _ _ _ _ LenLe.empty
    (by simp [Pat.empty, cntE]) h3
  simp only [Pat.empty, List.length_nil, Nat.zero_add] at e1
  refine ⟨e2, by omega, Or.inr ⟨by omega, by omega⟩⟩

theorem pathTiled_R (ct : Nat) (t : Int) (hspan : g.span < 6) (s : Osu) (r : Pat × Osu)
    (h : pathTiled A g ct t s = .ok r) : CoreR g r.1 := by
  unfold pathTiled at h
  simp only at h
  obtain ⟨m, _, h2⟩ := bind_ok h
  obtain ⟨endT, _, h3⟩ := bind_ok h2
  obtain ⟨⟨c, s1⟩, ha, h4⟩ := bind_ok h3
  have hc := pathAvoidPrev_ge hP.toRangeLaw g h8 _ _ _ _ (gcs8 hP.toRangeLaw g h8) ha
  simp only at h4
  split at h4
  · cases h4
  · obtain ⟨e1, e2, e3⟩ := pathTiledLoop_shape hP.toRangeLaw g h8 _ _ _ _ _ _ _ hc LenLe.empty (NotesGe.empty 1) h4
    refine coreR_small e2 e3 ?_
    rw [e1]; simp only [Pat.empty, List.length_nil]; omega

theorem pathHoldNormal_R (ct : Nat) (hseg : 0 < g.seg) (s : Osu) (r : Pat × Osu)
    (h : pathHoldNormal A g ct g.startT s = .ok r) : CoreR g r.1 := by
  unfold pathHoldNormal at h
  obtain ⟨⟨hold, s1⟩, ha, h2⟩ := bind_ok h
  have hh := pathAvoidPrev_ge hP.toRangeLaw g h8 _ _ _ _ (gcs8 hP.toRangeLaw g h8) ha
  simp only at h2 hh
  obtain ⟨pat, hadd, h3⟩ := bind_ok h2
  have hl0 := LenLe.empty.add hadd
  have hg0 := (NotesGe.empty 1).add hh.1 hadd
  have hc0 : cntE g.endT pat.notes = 1 := by
    rw [cntE_add hadd]; simp [Pat.empty, cntE]
  have hb := grc8 hP.toRangeLaw g h8 s1
  generalize getRandomColumn A s1 (randomStart g.total) g.total = rc at h3 hb
  obtain ⟨c0, s2⟩ := rc
  simp only at h3 hb
  have hcount : ∀ p2 : F, (noteCount A s2 p2 (A.pct 0) (A.pct 0) (A.pct 0) (A.pct 0)).1 ≤ 2 := fun p2 =>
    (noteCount_caps hP s2 p2 _ _ _ _).2.2.2.2.2.1 rfl rfl rfl rfl
  have key : ∀ nc : Int × Osu, nc.1 ≤ 2 →
      (do
        let smp ← sampleInfoAt g g.startT
        let iters ← inclusiveIters g.span 100000
        pathHoldNormalLoop A g hold (min nc.1 ((g.total : Int) - 1)).toNat
          (!sampleHas smp (S_WHISTLE ||| S_FINISH ||| S_CLAP)) iters pat c0 g.startT nc.2) = .ok r →
      CoreR g r.1 := by
    intro nc hnc hh2
    obtain ⟨smp, _, h4⟩ := bind_ok hh2
    obtain ⟨iters, _, h5⟩ := bind_ok h4
    obtain ⟨e1, e2, e3⟩ := pathHoldNormalLoop_shape hP.toRangeLaw g h8 hold _ (by omega) _ g.endT hseg _ _ _ _ _ _
      hb hl0 hg0 (by rw [hc0]; split <;> omega) h5
    exact ⟨e1, by omega, Or.inl e2⟩
  split at h3
  · exact key _ (hcount _) h3
  · split at h3
    · exact key _ (hcount _) h3
    · split at h3
      · exact key _ (hcount _) h3
      · exact key (0, s2) (by simp) h3

/-- **the core pattern of every slider in 7K+1 satisfies `CoreR`** -/
theorem pathGenerateCore_R (hprev : Cols.len g.prev.cols ≤ 6) (s : Osu) (r : Pat × Osu)
    (h : pathGenerateCore A g s = .ok r) : CoreR g r.1 := by
  unfold pathGenerateCore at h
  rw [if_neg (by omega)] at h
  split at h
  · rename_i hsp
    unfold pathCoreMulti at h
    split at h
    · exact pathRandomHoldNotes_R hP g h8 _ 1 (by omega) hprev _ _ h
    · split at h
      · obtain ⟨n, _, h3⟩ := bind_ok h
        exact pathRandomNotes_R_timed hP g h8 _ _ _ (by omega) _ _ h3
      · split at h
        · exact pathStair_R hP g h8 _ (by omega) _ _ h
        · split at h
          · exact pathMultiple_R hP g h8 _ (by omega) (by omega) _ _ h
          · obtain ⟨d, _, h3⟩ := bind_ok h
            split at h3
            · exact pathNRandom_R hP g h8 _ _ _ _ _ hprev _ _ h3
            · split at h3
              · rename_i hcond
                simp only [Bool.and_eq_true, decide_eq_true_eq] at hcond
                have hrs := prs8 hP.toRangeLaw g h8
                exact pathTiled_R hP g h8 _ _ (by rw [hrs, h8] at hcond; omega) _ _ h3
              · exact pathHoldNormal_R hP g h8 _ (by omega) _ _ h3
  · unfold pathCoreSingle at h
    split at h
    · exact pathRandomNotes_R_small hP g h8 _ _ _ (by split <;> omega) _ _ h
    · repeat' split at h
      all_goals exact pathNRandom_R hP g h8 _ _ _ _ _ hprev _ _ h

omit hP in
theorem pathSplit_shape :
    ∀ (ns : List Note) (a b : Pat) (r : Pat × Pat), (∀ n ∈ ns, n.col < 8) → LenLe b →
      pathSplit g ns a b = .ok r →
      LenLe r.2 ∧ r.2.notes.length = b.notes.length + cntE g.endT ns ∧
        ((∀ n ∈ ns, 1 ≤ n.col) → NotesGe 1 b → NotesGe 1 r.2) := by
  intro ns
  induction ns with
  | nil => intro a b r _ hl h; unfold pathSplit at h; cases h; exact ⟨hl, by simp [cntE], fun _ hb => hb⟩
  | cons n ns ih =>
    intro a b r hcol hl h
    unfold pathSplit at h
    simp only at h
    have hn8 := hcol n (List.mem_cons_self ..)
    have hpc : posColumn g.total n.col % 256 = n.col := by
      rw [h8, show posColumn 8 n.col = n.col from column_columnToPos n.col 8 hn8 (by omega)]
      exact Nat.mod_eq_of_lt (by omega)
    have hrest : ∀ m ∈ ns, m.col < 8 := fun m hm => hcol m (List.mem_cons_of_mem _ hm)
    split at h
    · rename_i hne
      obtain ⟨a', _, h2⟩ := bind_ok h
      obtain ⟨e1, e2, e3⟩ := ih a' b r hrest hl h2
      refine ⟨e1, ?_, fun hg hb => e3 (fun m hm => hg m (List.mem_cons_of_mem _ hm)) hb⟩
      have : (g.endT == n.endT) = false := by simpa using hne
      rw [e2]; simp [cntE, List.filter_cons, this]
    · rename_i heq
      obtain ⟨b', hadd, h2⟩ := bind_ok h
      obtain ⟨e1, e2, e3⟩ := ih a b' r hrest (hl.add hadd) h2
      have hq : (g.endT == n.endT) = true := by simpa using heq
      refine ⟨e1, ?_, ?_⟩
      · rw [e2, Pat.add_notes hadd]
        simp [cntE, List.filter_cons, hq]; omega
      · intro hg hb
        refine e3 (fun m hm => hg m (List.mem_cons_of_mem _ hm)) (hb.add ?_ hadd)
        rw [hpc]; exact hg n (List.mem_cons_self ..)

/-- **the path generator preserves `Inv8`**: whatever pattern `generate()` leaves as
`last_values.pattern` in 7K+1 satisfies `Inv8` again -/
theorem pathGenerate_inv8 (hprev : Inv8 g.prev) (s : Osu) (r : List Pat × Osu)
    (h : pathGenerate A g s = .ok r) : Inv8 (r.1.getLast?.getD g.prev) := by
  have hok := pathGenerate_ok hP.toRangeLaw g (by omega) (by omega) s r h
  unfold pathGenerate at h
  obtain ⟨⟨p, s'⟩, hc, h2⟩ := bind_ok h
  have hR := pathGenerateCore_R hP g h8 hprev.2.1 s _ hc
  have hpok := pathGenerateCore_ok hP.toRangeLaw g (by omega) (by omega) s _ hc
  simp only at h2 hR hpok
  rw [h8] at hpok
  split at h2
  · rename_i hone
    cases h2
    simp only [List.getLast?_singleton, Option.getD_some]
    refine ⟨hpok, ?_, fun _ => ?_⟩
    · have := hR.1; unfold LenLe at this; omega
    · rcases hR.2.2 with hg | ⟨hne, _⟩
      · exact hg
      · exact absurd hone hne
  · obtain ⟨⟨a, b⟩, hs, h3⟩ := bind_ok h2
    cases h3
    have hb8 : PatOk 8 b := by
      have := hok b (by simp)
      rw [h8] at this; exact this
    obtain ⟨e1, e2, e3⟩ := pathSplit_shape g h8 _ _ _ _ hpok.1 LenLe.empty hs
    simp only [Pat.empty, List.length_nil, Nat.zero_add] at e2
    simp only at e1 e2 e3
    have hlast : ([a, b] : List Pat).getLast?.getD g.prev = b := by simp
    rw [hlast]
    refine ⟨hb8, ?_, fun hone => ?_⟩
    · unfold LenLe at e1; have := hR.2.1; omega
    · rcases hR.2.2 with hg | ⟨_, hne⟩
      · exact e3 hg (NotesGe.empty 1)
      · exact absurd (by omega) hne

end path8c

/-- the single named hypothesis left for 7K+1: the hit generator's `MIRROR` flag is never set for a
circle (the flag is computed in `HitObjectPatternGenerator::new` from the column count; with 8 columns
the Rust code has no path that sets it, but that constructor flag computation enters the model as the
input `ct`) -/
def NoMirror8 : ObjIn F → Prop
  | .circle _ _ ct => has ct MIRROR = false
  | _ => True

/-- `Inv8` is preserved by every object kind -/
theorem convertStep_inv8_all {A : PArith F} (hP : ProbLaw A) (cd : F) (fuel : Nat) (st : ConvSt) (o : ObjIn F)
    (hprev : Inv8 st.prev) (ho : NoMirror8 o) (r : Emitted × ConvSt)
    (h : convertStep A 8 cd fuel st o = .ok r) : Inv8 r.2.prev := by
  cases o with
  | circle x sample ct => exact convertStep_inv8 hP cd fuel st (.circle x sample ct) hprev ho r h
  | slider x sample ct span startT endT seg nodes =>
    unfold convertStep at h
    obtain ⟨⟨ps, s'⟩, hg, h2⟩ := bind_ok h
    cases h2
    exact pathGenerate_inv8 hP ⟨8, x, sample, ct, st.prev, cd, span, startT, endT, seg, nodes, fuel⟩ rfl hprev _ _ hg
  | spinner sample hold short => exact convertStep_inv8 hP cd fuel st (.spinner sample hold short) hprev trivial r h

/-- **7K+1: the whole conversion never fails** (except by fuel) — every object kind, no hypothesis on
intermediate patterns: `Free8` is discharged at every step by the occupancy invariant `Inv8` -/
theorem convertLoop_safe_8K {A : PArith F} (hP : ProbLaw A) (cd : F) (fuel : Nat) :
    ∀ (os : List (ObjIn F)) (st : ConvSt), Inv8 st.prev → (∀ o ∈ os, ObjWf o ∧ NoMirror8 o) →
      OkOrFuel (convertLoop A 8 cd fuel st os) := by
  intro os
  induction os with
  | nil => intro st _ _; unfold convertLoop; exact OkOrFuel.ok _
  | cons o os ih =>
    intro st hprev hwf
    unfold convertLoop
    have ho := hwf o (List.mem_cons_self ..)
    have hstep := convertStep_safe hP 8 (by omega) (by omega) cd fuel st o hprev.1 ho.1 (fun _ => hprev.free8)
    refine OkOrFuel.bind hstep.1 ?_
    rintro ⟨e, st'⟩ hs
    simp only
    refine OkOrFuel.bind (ih st' (convertStep_inv8_all hP cd fuel st o hprev ho.2 _ hs)
      (fun o' ho' => hwf o' (List.mem_cons_of_mem _ ho'))) ?_
    rintro ⟨rest, stf⟩ _
    exact OkOrFuel.ok _

end Rosu.ManiaPattern
