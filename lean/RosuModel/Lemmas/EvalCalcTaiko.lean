import RosuModel.Lemmas.EvalCalcReal

/-! taiko `eval` / `combined_difficulty_value` / `rescale` over ℝ. -/

namespace Rosu.PerfCalc
open PPOps Rosu.Agg

/-- the aggregation operations over ℝ are those of the ordered field (C16's lemmas apply) -/
theorem aggOps_real : (aggOps : Ops ℝ) = fieldOps ℝ := by
  have h0 : (0.0 : ℝ) = 0 := by norm_num
  have h1 : (1.0 : ℝ) = 1 := by norm_num
  have e1 : (fun x : ℝ => !(PPOps.beq x 0.0)) = fun x => decide (x ≠ 0) := by
    funext x; rw [h0]; by_cases h : x = 0 <;> simp [PPOps.beq, h]
  have e2 : (fun a b : ℝ => PPOps.le b a) = fun a b => decide (b ≤ a) := by
    funext a b; simp [PPOps.le]
  have e3 : (fun x : ℝ => PPOps.lt 0.0 x) = fun x => decide (0 < x) := by
    funext x; rw [h0]; simp [PPOps.lt]
  unfold aggOps fieldOps
  rw [e1, e2, e3, h0, h1]

theorem taikoMultipliers_pos :
    (0 : ℝ) < taikoRhythmMultiplier ∧ (0 : ℝ) < taikoReadingMultiplier ∧ (0 : ℝ) < taikoColorMultiplier
      ∧ (0 : ℝ) < taikoStaminaMultiplier := by
  unfold taikoRhythmMultiplier taikoReadingMultiplier taikoColorMultiplier taikoStaminaMultiplier
    taikoDifficultyMultiplier
  refine ⟨?_, ?_, ?_, ?_⟩ <;> (simp only [r_mul]; norm_num)

/-! ## `norm` and the per-section combination -/

theorem norm2_nonneg (a b c : ℝ) : 0 ≤ norm (0 : ℝ) 2.0 [a, b, c] := by
  unfold norm
  simp only [List.foldl, r_add, r_powf, r_div]
  have := rpow_two_nonneg a
  have := rpow_two_nonneg b
  have := rpow_two_nonneg c
  exact Real.rpow_nonneg (by linarith) _

theorem norm15_nonneg {a b : ℝ} (ha : 0 ≤ a) (hb : 0 ≤ b) : 0 ≤ norm (0 : ℝ) 1.5 [a, b] := by
  unfold norm
  simp only [List.foldl, r_add, r_powf, r_div]
  have := Real.rpow_nonneg ha (1.5 : ℝ)
  have := Real.rpow_nonneg hb (1.5 : ℝ)
  exact Real.rpow_nonneg (by linarith) _

theorem norm2_zero : norm (0 : ℝ) 2.0 [0, 0, 0] = 0 := by
  unfold norm
  simp only [List.foldl, r_add, r_powf, r_div]
  have e : (0 : ℝ) ^ (2.0 : ℝ) = 0 := Real.zero_rpow (by norm_num)
  rw [e]; simp only [add_zero]
  exact Real.zero_rpow (by norm_num)

theorem norm15_zero : norm (0 : ℝ) 1.5 [0, 0] = 0 := by
  unfold norm
  simp only [List.foldl, r_add, r_powf, r_div]
  have e : (0 : ℝ) ^ (1.5 : ℝ) = 0 := Real.zero_rpow (by norm_num)
  rw [e]; simp only [add_zero]
  exact Real.zero_rpow (by norm_num)

/-- the combined section peak is `≥ 0` whatever the inputs (an even norm) -/
theorem taikoComb_nonneg (rx conv : Bool) (pm slb r rd c s : ℝ) :
    0 ≤ taikoComb (0 : ℝ) rx conv pm slb r rd c s := by
  unfold taikoComb
  exact norm2_nonneg _ _ _

/-- all four section peaks zero ⇒ the combined section peak is zero -/
theorem taikoComb_zero (rx conv : Bool) (pm slb : ℝ) : taikoComb (0 : ℝ) rx conv pm slb 0 0 0 0 = 0 := by
  unfold taikoComb
  simp only [r_mul, r_div, zero_mul, zero_div]
  rw [norm15_zero]; exact norm2_zero

/-- (a) side conditions of one section: non-negative peaks and a non-negative length bonus suffice -/
theorem taikoCombDom_true (rx conv : Bool) {pm slb r rd c s : ℝ} (hslb : 0 ≤ slb) (hc : 0 ≤ c) (hs : 0 ≤ s) :
    taikoCombDom (0 : ℝ) rx conv pm slb r rd c s = true := by
  obtain ⟨_, _, hcm, hsm⟩ := taikoMultipliers_pos
  unfold taikoCombDom
  extract_lets rp rdp cp sp
  have hcp : (0 : ℝ) ≤ cp := by
    show (0 : ℝ) ≤ c * (if rx = true then 0.0 else taikoColorMultiplier)
    refine mul_nonneg hc ?_
    split_ifs
    · norm_num
    · exact hcm.le
  have hsp : (0 : ℝ) ≤ sp := by
    show (0 : ℝ) ≤ s * taikoStaminaMultiplier * slb / (if (conv || rx) = true then 1.5 else 1.0)
    refine div_nonneg (mul_nonneg (mul_nonneg hs hsm.le) hslb) ?_
    split_ifs <;> norm_num
  clear_value rp rdp cp sp
  have e1 : powfDom cp (1.5 : ℝ) = true := powfDom_of_nonneg hcp (by norm_num)
  have e2 : powfDom sp (1.5 : ℝ) = true := powfDom_of_nonneg hsp (by norm_num)
  have e3 : powfDom ((0 : ℝ) + PPOps.powf cp 1.5 + PPOps.powf sp 1.5) (1.0 / 1.5 : ℝ) = true := by
    apply powfDom_of_nonneg _ (by norm_num)
    have := Real.rpow_nonneg hcp (1.5 : ℝ)
    have := Real.rpow_nonneg hsp (1.5 : ℝ)
    show (0 : ℝ) ≤ 0 + cp ^ (1.5 : ℝ) + sp ^ (1.5 : ℝ)
    linarith
  have e4 : powfDom ((0 : ℝ) + PPOps.powf (norm (0 : ℝ) 1.5 [cp, sp]) 2.0 + PPOps.powf rp 2.0
      + PPOps.powf rdp 2.0) (1.0 / 2.0 : ℝ) = true := by
    apply powfDom_of_nonneg _ (by norm_num)
    have := rpow_two_nonneg (norm (0 : ℝ) 1.5 [cp, sp])
    have := rpow_two_nonneg rp
    have := rpow_two_nonneg rdp
    show (0 : ℝ) ≤ 0 + (norm (0 : ℝ) 1.5 [cp, sp]) ^ (2.0 : ℝ) + rp ^ (2.0 : ℝ) + rdp ^ (2.0 : ℝ)
    linarith
  rw [e1, e2, e3, e4]; rfl

/-! ## the pieces of `eval` -/

theorem taikoRescale_nonneg {x : ℝ} (h : 0 ≤ x) : 0 ≤ taikoRescale x := by
  unfold taikoRescale
  have hn : ¬ PPOps.lt x (0.0 : ℝ) = true := by
    rw [r_lt]; have h0 : (0.0 : ℝ) = 0 := by norm_num
    rw [h0]; exact not_lt.mpr h
  rw [if_neg hn]
  simp only [r_mul, r_add, r_div, r_ln]
  have h1 : (1 : ℝ) ≤ x / 8.0 + 1.0 := by
    have : (0 : ℝ) ≤ x / 8.0 := div_nonneg h (by norm_num)
    have h1 : (1.0 : ℝ) = 1 := by norm_num
    rw [h1]; linarith
  exact mul_nonneg (by norm_num) (Real.log_nonneg h1)

theorem taikoRescale_zero : taikoRescale (0 : ℝ) = 0 := by
  unfold taikoRescale
  have hn : ¬ PPOps.lt (0 : ℝ) (0.0 : ℝ) = true := by rw [r_lt]; norm_num
  rw [if_neg hn]
  simp only [r_mul, r_add, r_div, r_ln]
  have : (0 : ℝ) / 8.0 + 1.0 = 1 := by norm_num
  rw [this, Real.log_one, mul_zero]

theorem taikoStarsOf_nonneg {x : ℝ} (h : 0 ≤ x) : 0 ≤ taikoStarsOf x := by
  unfold taikoStarsOf; simp only [r_mul]
  exact taikoRescale_nonneg (mul_nonneg h (by norm_num))

theorem taikoStarsOf_zero : taikoStarsOf (0 : ℝ) = 0 := by
  unfold taikoStarsOf; simp only [r_mul]; rw [zero_mul]; exact taikoRescale_zero

theorem taikoPatternMultiplier_nonneg {s c : ℝ} (hs : 0 ≤ s) (hc : 0 ≤ c) :
    0 ≤ taikoPatternMultiplier s c := by
  unfold taikoPatternMultiplier; simp only [r_mul, r_powf]
  exact Real.rpow_nonneg (mul_nonneg hs hc) _

/-- `strain_length_bonus ∈ [1, 1.2]` for all inputs -/
theorem taikoStrainLengthBonus_mem (d s : ℝ) :
    1 ≤ taikoStrainLengthBonus d s ∧ taikoStrainLengthBonus d s ≤ 1.2 := by
  unfold taikoStrainLengthBonus
  simp only [r_add, r_sub, r_div, r_fmin, r_fmax]
  have a0 : (0 : ℝ) ≤ min (max ((d - 1000.0) / 3700.0) 0.0) 0.15 :=
    le_min (le_trans (by norm_num) (le_max_right _ _)) (by norm_num)
  have a1 : min (max ((d - 1000.0) / 3700.0) 0.0) 0.15 ≤ (0.15 : ℝ) := min_le_right _ _
  have b0 : (0 : ℝ) ≤ min (max ((s - 7.0) / 1.0) 0.0) 0.05 :=
    le_min (le_trans (by norm_num) (le_max_right _ _)) (by norm_num)
  have b1 : min (max ((s - 7.0) / 1.0) 0.0) 0.05 ≤ (0.05 : ℝ) := min_le_right _ _
  generalize min (max ((d - 1000.0) / 3700.0) (0.0 : ℝ)) 0.15 = A at a0 a1 ⊢
  generalize min (max ((s - 7.0) / 1.0) (0.0 : ℝ)) 0.05 = B at b0 b1 ⊢
  constructor
  · norm_num; linarith
  · norm_num at a1 b1 ⊢; linarith

/-- `mono_stamina_factor ≥ 0`, and `≤ 1` as soon as the mono rating does not exceed the stamina rating -/
theorem taikoMonoStaminaFactor_mem {s m : ℝ} (hs : 0 ≤ s) (hm : 0 ≤ m) :
    0 ≤ taikoMonoStaminaFactor s m ∧ (m ≤ s → taikoMonoStaminaFactor s m ≤ 1) := by
  unfold taikoMonoStaminaFactor
  by_cases h : PPOps.le f64Epsilon (PPOps.abs s) = true
  · rw [if_pos h]
    simp only [r_div, r_powf]
    have hq : 0 ≤ m / s := div_nonneg hm hs
    refine ⟨Real.rpow_nonneg hq _, fun hle => ?_⟩
    have hspos : 0 < s := by
      rcases hs.lt_or_eq with h' | h'
      · exact h'
      · exfalso
        rw [r_le, r_abs, ← h'] at h
        unfold f64Epsilon at h
        norm_num at h
    exact Real.rpow_le_one hq ((div_le_one hspos).2 hle) (by norm_num)
  · rw [if_neg h]
    have h1 : (1.0 : ℝ) = 1 := by norm_num
    rw [h1]; exact ⟨zero_le_one, fun _ => le_rfl⟩

/-! ## `combined_difficulty_value` -/

theorem taikoCombinedRating_nonneg (rx conv : Bool) (r rd c s : List ℝ) (pm slb : ℝ) :
    0 ≤ taikoCombinedRating (0 : ℝ) rx conv r rd c s pm slb := by
  unfold taikoCombinedRating
  rw [aggOps_real]
  exact taikoCombined_nonneg (by norm_num) _ r rd c s

/-- all section peaks zero (in particular: no sections) ⇒ the combined rating is 0 -/
theorem taikoCombinedRating_zero (rx conv : Bool) (r rd c s : List ℝ) (pm slb : ℝ)
    (hr : ∀ x ∈ r, x = 0) (hrd : ∀ x ∈ rd, x = 0) (hc : ∀ x ∈ c, x = 0) (hs : ∀ x ∈ s, x = 0) :
    taikoCombinedRating (0 : ℝ) rx conv r rd c s pm slb = 0 := by
  have hnn := taikoCombinedRating_nonneg rx conv r rd c s pm slb
  by_contra hne
  have hpos : 0 < taikoCombinedRating (0 : ℝ) rx conv r rd c s pm slb := lt_of_le_of_ne hnn (Ne.symm hne)
  unfold taikoCombinedRating at hpos
  rw [aggOps_real] at hpos
  obtain ⟨a, ha, hapos⟩ := (taikoCombined_pos_iff (by norm_num) _ r rd c s).1 hpos
  unfold zip4With at ha
  rw [List.mem_map] at ha
  obtain ⟨⟨⟨⟨x, y⟩, z⟩, w⟩, hmem, rfl⟩ := ha
  have h1 := List.of_mem_zip hmem
  have h2 := List.of_mem_zip h1.1
  have h3 := List.of_mem_zip h2.1
  have ex := hr x h3.1
  have ey := hrd y h3.2
  have ez := hc z h2.2
  have ew := hs w h1.2
  simp only at hapos
  rw [ex, ey, ez, ew, taikoComb_zero] at hapos
  exact lt_irrefl _ hapos

/-! ## `eval` -/

/-- non-negative inputs of `eval` -/
structure TaikoEvalInOK (i : TaikoEvalIn ℝ) : Prop where
  rhythm : 0 ≤ i.rhythmDV
  reading : 0 ≤ i.readingDV
  color : 0 ≤ i.colorDV
  stamina : 0 ≤ i.staminaDV
  mono : 0 ≤ i.monoStaminaDV

/-- (b) taiko `eval`: every rating `≥ 0`, `mono_stamina_factor ≥ 0` (and `≤ 1` when the mono value does
not exceed the stamina value), pattern multiplier `≥ 0`, length bonus in [1, 1.2], stars `≥ 0` -/
theorem taikoEval_nonneg (i : TaikoEvalIn ℝ) (H : TaikoEvalInOK i) (combine : ℝ → ℝ → ℝ)
    (hcomb : ∀ pm slb, 0 ≤ combine pm slb) :
    0 ≤ (taikoEval i combine).rhythm ∧ 0 ≤ (taikoEval i combine).reading ∧ 0 ≤ (taikoEval i combine).color
      ∧ 0 ≤ (taikoEval i combine).stamina ∧ 0 ≤ (taikoEval i combine).monoStaminaFactor
      ∧ (i.monoStaminaDV ≤ i.staminaDV → (taikoEval i combine).monoStaminaFactor ≤ 1)
      ∧ 0 ≤ (taikoEval i combine).stars := by
  obtain ⟨m1, m2, m3, m4⟩ := taikoMultipliers_pos
  have hs : (0 : ℝ) ≤ i.staminaDV * taikoStaminaMultiplier := mul_nonneg H.stamina m4.le
  have hm : (0 : ℝ) ≤ i.monoStaminaDV * taikoStaminaMultiplier := mul_nonneg H.mono m4.le
  obtain ⟨f0, f1⟩ := taikoMonoStaminaFactor_mem hs hm
  refine ⟨mul_nonneg H.rhythm m1.le, mul_nonneg H.reading m2.le, mul_nonneg H.color m3.le, hs, f0, ?_, ?_⟩
  · intro hle
    exact f1 (mul_le_mul_of_nonneg_right hle m4.le)
  · exact taikoStarsOf_nonneg (hcomb _ _)

/-- (a) taiko `eval`: its own partial operations are in-domain -/
theorem taikoEvalDom_true (i : TaikoEvalIn ℝ) (H : TaikoEvalInOK i) {comb : ℝ} (hc : 0 ≤ comb) :
    taikoEvalDom i comb = true := by
  obtain ⟨_, _, m3, m4⟩ := taikoMultipliers_pos
  unfold taikoEvalDom
  extract_lets colorRating staminaRating
  have hs : (0 : ℝ) ≤ staminaRating := mul_nonneg H.stamina m4.le
  have hcr : (0 : ℝ) ≤ colorRating := mul_nonneg H.color m3.le
  clear_value colorRating staminaRating
  have e1 : (if PPOps.le f64Epsilon (PPOps.abs staminaRating) = true then nz staminaRating else true) = true := by
    by_cases h : PPOps.le f64Epsilon (PPOps.abs staminaRating) = true
    · rw [if_pos h, nz_iff]
      intro h0
      rw [r_le, r_abs, h0] at h
      unfold f64Epsilon at h
      norm_num at h
    · rw [if_neg h]
  have e2 : powfDom (staminaRating * colorRating : ℝ) (0.10 : ℝ) = true :=
    powfDom_of_nonneg (mul_nonneg hs hcr) (by norm_num)
  have e3 : (if PPOps.lt (comb * 1.4 : ℝ) 0.0 = true then true
      else PPOps.lt (0.0 : ℝ) (comb * 1.4 / 8.0 + 1.0)) = true := by
    by_cases h : PPOps.lt (comb * 1.4 : ℝ) 0.0 = true
    · rw [if_pos h]
    · rw [if_neg h, r_lt]
      have : (0 : ℝ) ≤ comb * 1.4 / 8.0 := div_nonneg (mul_nonneg hc (by norm_num)) (by norm_num)
      have h0 : (0.0 : ℝ) = 0 := by norm_num
      have h1 : (1.0 : ℝ) = 1 := by norm_num
      rw [h0, h1]; linarith
  rw [e1, e2, e3]; rfl

end Rosu.PerfCalc
