import RosuModel.Model.Attrs
import Mathlib.Tactic.Linarith
import Mathlib.Tactic.FieldSimp
import Mathlib.Tactic.Ring
import Mathlib.Tactic.NormNum
import Mathlib.Tactic.Positivity
import Mathlib.Algebra.Order.Field.Rat
import Mathlib.Data.Rat.Floor

/-! Lemmas about the exact ℚ model of the attribute builder (`Model/Attrs.lean`). -/
namespace Rosu.Attrs
open Rosu.Gen

theorem rmin_eq_min (a b : Rat) : rmin a b = min a b := by
  unfold rmin; split <;> rename_i h
  · exact (min_eq_left h).symm
  · exact (min_eq_right (le_of_not_ge h)).symm

theorem rfloor_eq (x : Rat) : rfloor x = ⌊x⌋ := rfl

theorem rceil_eq (x : Rat) : rceil x = ⌈x⌉ := by
  show -⌊-x⌋ = ⌈x⌉
  rw [Int.floor_neg, neg_neg]

theorem rclamp_mono {x y : Rat} (lo hi : Rat) (hlh : lo ≤ hi) (h : x ≤ y) : rclamp x lo hi ≤ rclamp y lo hi := by
  unfold rclamp; split_ifs <;> linarith

/-! ### `difficulty_range` and the inverses of `build` -/

/-- `min ≥ avg ≥ max` -/
def Dec (w : Rat × Rat × Rat) : Prop := w.2.1 ≤ w.1 ∧ w.2.2 ≤ w.2.1
/-- `min > avg > max` -/
def SDec (w : Rat × Rat × Rat) : Prop := w.2.1 < w.1 ∧ w.2.2 < w.2.1

theorem SDec.dec {w} (h : SDec w) : Dec w := ⟨le_of_lt h.1, le_of_lt h.2⟩

theorem sdec_AR : SDec AttrConsts.AR_WINDOWS := by constructor <;> norm_num [AttrConsts.AR_WINDOWS]
theorem sdec_OSU_GREAT : SDec AttrConsts.OSU_GREAT := by constructor <;> norm_num [AttrConsts.OSU_GREAT]
theorem sdec_OSU_OK : SDec AttrConsts.OSU_OK := by constructor <;> norm_num [AttrConsts.OSU_OK]
theorem sdec_OSU_MEH : SDec AttrConsts.OSU_MEH := by constructor <;> norm_num [AttrConsts.OSU_MEH]
theorem sdec_TAIKO_GREAT : SDec AttrConsts.TAIKO_GREAT := by constructor <;> norm_num [AttrConsts.TAIKO_GREAT]
theorem sdec_TAIKO_OK : SDec AttrConsts.TAIKO_OK := by constructor <;> norm_num [AttrConsts.TAIKO_OK]

theorem difficultyRange_antitone (w : Rat × Rat × Rat) (hw : Dec w) {d1 d2 : Rat} (h : d1 ≤ d2) :
    difficultyRange d2 w ≤ difficultyRange d1 w := by
  obtain ⟨h1, h2⟩ := hw
  unfold difficultyRange
  simp only
  split_ifs <;> nlinarith

theorem difficultyRange_strictAnti (w : Rat × Rat × Rat) (hw : SDec w) {d1 d2 : Rat} (h : d1 < d2) :
    difficultyRange d2 w < difficultyRange d1 w := by
  obtain ⟨h1, h2⟩ := hw
  unfold difficultyRange
  simp only
  split_ifs <;> nlinarith

theorem arOfPreempt_range (v : Rat) : arOfPreempt (difficultyRange v AttrConsts.AR_WINDOWS) = v := by
  unfold arOfPreempt difficultyRange AttrConsts.AR_WINDOWS
  simp only
  split_ifs <;> linarith

theorem osuGreatToOd_range (v : Rat) : osuGreatToOd (difficultyRange v AttrConsts.OSU_GREAT) = v := by
  unfold osuGreatToOd difficultyRange AttrConsts.OSU_GREAT
  simp only
  split_ifs <;> linarith

theorem taikoOd_range (v : Rat) :
    (AttrConsts.TAIKO_GREAT.1 - difficultyRange v AttrConsts.TAIKO_GREAT) /
      (AttrConsts.TAIKO_GREAT.1 - AttrConsts.TAIKO_GREAT.2.1) * 5 = v := by
  unfold difficultyRange AttrConsts.TAIKO_GREAT
  simp only
  split_ifs <;> linarith

theorem arOfPreempt_antitone {p1 p2 : Rat} (h : p1 ≤ p2) : arOfPreempt p2 ≤ arOfPreempt p1 := by
  unfold arOfPreempt; split_ifs <;> linarith

theorem osuGreatToOd_antitone {p1 p2 : Rat} (h : p1 ≤ p2) : osuGreatToOd p2 ≤ osuGreatToOd p1 := by
  unfold osuGreatToOd; linarith

/-! ### mod multipliers -/

theorem modMult_mono (m : ModsView) {v1 v2 : Rat} (h : v1 ≤ v2) : modMult m v1 ≤ modMult m v2 := by
  unfold modMult
  simp only [rmin_eq_min, AttrConsts.hrMult, AttrConsts.hrCap, AttrConsts.ezMult]
  split_ifs
  · exact min_le_min (by linarith) le_rfl
  · linarith
  · exact h

theorem modMult_strictMono (m : ModsView) (hr : m.hr = false) {v1 v2 : Rat} (h : v1 < v2) :
    modMult m v1 < modMult m v2 := by
  unfold modMult
  rw [hr]
  simp only [Bool.false_eq_true, if_false, AttrConsts.ezMult]
  split_ifs
  · linarith
  · exact h

/-- the `hr`/`ez` switches of the view (and the matching `od_ar_hp_multiplier`) -/
def ModsView.withHrEz (m : ModsView) (hr ez : Bool) (mult : Rat) : ModsView :=
  { m with hr := hr, ez := ez, mult := mult }

def Builder.withHrEz (b : Builder) (hr ez : Bool) (mult : Rat) : Builder :=
  { b with mods := b.mods.withHrEz hr ez mult }

theorem modMult_hr_ge (m : ModsView) (v : Rat) (h0 : 0 ≤ v) (h10 : v ≤ 10) (mu : Rat) :
    modMult (m.withHrEz false false mu) v ≤ modMult (m.withHrEz true false mu) v := by
  simp only [modMult, ModsView.withHrEz, rmin_eq_min, AttrConsts.hrMult, AttrConsts.hrCap]
  simp only [if_true, Bool.false_eq_true, if_false]
  exact le_min (by linarith) (by linarith)

theorem modMult_ez_le (m : ModsView) (v : Rat) (h0 : 0 ≤ v) (mu : Rat) :
    modMult (m.withHrEz false true mu) v ≤ modMult (m.withHrEz false false mu) v := by
  simp only [modMult, ModsView.withHrEz, AttrConsts.ezMult]
  simp only [if_true, Bool.false_eq_true, if_false]
  linarith

/-! ### mania -/

theorem roundTiesEven_mono {x y : Rat} (h : x ≤ y) : roundTiesEven x ≤ roundTiesEven y := by
  unfold roundTiesEven
  simp only [rfloor_eq]
  have hfx := Int.floor_le x
  have hfy := Int.floor_le y
  have hlx := Int.lt_floor_add_one x
  have hly := Int.lt_floor_add_one y
  have hmono : ⌊x⌋ ≤ ⌊y⌋ := Int.floor_le_floor h
  rcases lt_or_eq_of_le hmono with hlt | heq
  · -- different floors: rte x ≤ ⌊x⌋ + 1 ≤ ⌊y⌋ ≤ rte y
    have h1 : ⌊x⌋ + 1 ≤ ⌊y⌋ := hlt
    split_ifs <;> omega
  · have hq : ((⌊x⌋ : Int) : Rat) = ((⌊y⌋ : Int) : Rat) := by exact_mod_cast heq
    by_cases a1 : x - ((⌊x⌋ : Int) : Rat) < 1 / 2 <;> by_cases a2 : 1 / 2 < x - ((⌊x⌋ : Int) : Rat) <;>
      by_cases a3 : ⌊x⌋ % 2 = 0 <;> by_cases b1 : y - ((⌊y⌋ : Int) : Rat) < 1 / 2 <;>
      by_cases b2 : 1 / 2 < y - ((⌊y⌋ : Int) : Rat) <;> by_cases b3 : ⌊y⌋ % 2 = 0 <;>
      simp only [a1, a2, a3, b1, b2, b3, if_true, if_false] <;>
      first | omega | (exfalso; linarith) | (exfalso; omega)

theorem maniaGreat_mono {v1 v2 r : Rat} (hr : 0 < r) (h : v1 ≤ v2) : maniaGreat v1 r ≤ maniaGreat v2 r := by
  unfold maniaGreat
  simp only [rfloor_eq, rceil_eq]
  have h1 : ⌊v1 * r⌋ ≤ ⌊v2 * r⌋ := Int.floor_le_floor (by nlinarith)
  have h2 : ((⌊v1 * r⌋ : Int) : Rat) / r ≤ ((⌊v2 * r⌋ : Int) : Rat) / r :=
    div_le_div_of_nonneg_right (by exact_mod_cast h1) (le_of_lt hr)
  exact_mod_cast Int.ceil_le_ceil h2

/-- the rate-compensated mania window stays within `(value - 1/r, value + 1)` -/
theorem maniaGreat_bounds (v r : Rat) (hr : 0 < r) :
    v - 1 / r < maniaGreat v r ∧ maniaGreat v r < v + 1 := by
  unfold maniaGreat
  simp only [rfloor_eq, rceil_eq]
  have hf1 : ((⌊v * r⌋ : Int) : Rat) ≤ v * r := Int.floor_le _
  have hf2 : v * r - 1 < ((⌊v * r⌋ : Int) : Rat) := Int.sub_one_lt_floor _
  set f : Rat := ((⌊v * r⌋ : Int) : Rat) with hfdef
  have hq1 : f / r ≤ v := by rw [div_le_iff₀ hr]; exact hf1
  have hq2 : v - 1 / r < f / r := by
    rw [lt_div_iff₀ hr]
    have : (v - 1 / r) * r = v * r - 1 := by field_simp
    rw [this]; exact hf2
  have hc1 : f / r ≤ ((⌈f / r⌉ : Int) : Rat) := Int.le_ceil _
  have hc2 : ((⌈f / r⌉ : Int) : Rat) < f / r + 1 := Int.ceil_lt_add_one _
  constructor <;> linarith

/-! ### builder-level helpers -/

/-- order on optional windows (`None` only compares with `None`) -/
def OptLe : Option Rat → Option Rat → Prop
  | some a, some b => a ≤ b
  | none, none => True
  | _, _ => False

theorem arClock_pos (b : Builder) (h : 0 < b.rate) : 0 < b.arClock := by
  unfold Builder.arClock; split <;> [norm_num; exact h]

theorem odClock_pos (b : Builder) (h : 0 < b.rate) : 0 < b.odClock := by
  unfold Builder.odClock; split <;> [norm_num; exact h]

/-- mania `value` before the HR/EZ adjustment -/
def maniaV0 (conv : Bool) (odv : Rat) : Rat :=
  if !conv then AttrConsts.maniaBase + AttrConsts.maniaSlope * rclamp (AttrConsts.maniaTen - odv) 0 10
  else if AttrConsts.maniaConvThreshold < ((roundTiesEven odv : Int) : Rat) then AttrConsts.maniaConvHard
  else AttrConsts.maniaConvEasy

/-- the HR/EZ adjustment of the mania `value` -/
def maniaScale (wm hr ez : Bool) (v0 : Rat) : Rat :=
  if !wm then
    if hr then v0 / AttrConsts.maniaHrDiv else if ez then v0 * AttrConsts.maniaEzMult else v0
  else v0

theorem maniaValue_eq (b : Builder) :
    b.maniaValue = maniaScale b.od.withMods b.mods.hr b.mods.ez (maniaV0 b.isConvert (b.od.value b.mods.od)) := rfl

theorem maniaV0_antitone (conv : Bool) {v1 v2 : Rat} (h : v1 ≤ v2) : maniaV0 conv v2 ≤ maniaV0 conv v1 := by
  have hc : rclamp (AttrConsts.maniaTen - v2) 0 10 ≤ rclamp (AttrConsts.maniaTen - v1) 0 10 :=
    rclamp_mono 0 10 (by norm_num) (by linarith)
  have hr : roundTiesEven v1 ≤ roundTiesEven v2 := roundTiesEven_mono h
  have hr' : ((roundTiesEven v1 : Int) : Rat) ≤ ((roundTiesEven v2 : Int) : Rat) := by exact_mod_cast hr
  unfold maniaV0
  cases conv
  · simp only [Bool.not_false, if_true, AttrConsts.maniaSlope]; linarith
  · simp only [Bool.not_true, Bool.false_eq_true, if_false, AttrConsts.maniaConvHard, AttrConsts.maniaConvEasy]
    by_cases a1 : AttrConsts.maniaConvThreshold < ((roundTiesEven v1 : Int) : Rat) <;>
      by_cases a2 : AttrConsts.maniaConvThreshold < ((roundTiesEven v2 : Int) : Rat) <;>
      simp only [a1, a2, if_true, if_false] <;> first | (exfalso; linarith) | norm_num

theorem maniaV0_pos (conv : Bool) (v : Rat) : 0 < maniaV0 conv v := by
  have hcl : 0 ≤ rclamp (AttrConsts.maniaTen - v) 0 10 := by
    unfold rclamp; split_ifs <;> linarith
  unfold maniaV0
  simp only [AttrConsts.maniaBase, AttrConsts.maniaSlope, AttrConsts.maniaConvHard, AttrConsts.maniaConvEasy]
  split_ifs <;> first | linarith | norm_num

theorem maniaScale_mono (wm hr ez : Bool) {a b : Rat} (h : a ≤ b) : maniaScale wm hr ez a ≤ maniaScale wm hr ez b := by
  unfold maniaScale
  simp only [AttrConsts.maniaHrDiv, AttrConsts.maniaEzMult]
  split_ifs
  · exact div_le_div_of_nonneg_right h (by norm_num)
  · nlinarith
  · exact h
  · exact h

theorem maniaScale_pos (wm hr ez : Bool) {a : Rat} (h : 0 < a) : 0 < maniaScale wm hr ez a := by
  unfold maniaScale
  simp only [AttrConsts.maniaHrDiv, AttrConsts.maniaEzMult]
  split_ifs
  · exact div_pos h (by norm_num)
  · nlinarith
  · exact h
  · exact h

/-- HR never widens, EZ never narrows the mania `value` -/
theorem maniaScale_order (wm : Bool) {a : Rat} (h : 0 < a) :
    maniaScale wm true false a ≤ maniaScale wm false false a ∧
    maniaScale wm false false a ≤ maniaScale wm false true a := by
  unfold maniaScale
  simp only [AttrConsts.maniaHrDiv, AttrConsts.maniaEzMult, if_true, Bool.false_eq_true, if_false]
  cases wm
  · simp only [Bool.not_false, if_true]
    constructor
    · rw [div_le_iff₀ (by norm_num)]; nlinarith
    · nlinarith
  · simp only [Bool.not_true, Bool.false_eq_true, if_false]
    exact ⟨le_rfl, le_rfl⟩

/-! ### shape of `hit_windows()` per mode, and the effect of the setters -/

theorem mode_cases (b : Builder) :
    b.mode = .osu ∨ b.mode = .taiko ∨ b.mode = .catch ∨ b.mode = .mania := by
  cases b.mode <;> simp

theorem hw_ar (b : Builder) :
    b.hitWindows.ar = difficultyRange b.rawAr AttrConsts.AR_WINDOWS / b.arClock := by
  cases h : b.mode <;> simp [Builder.hitWindows, h]

theorem hw_od_osu (b : Builder) (h : b.mode = .osu ∨ b.mode = .catch) :
    b.hitWindows.odGreat = difficultyRange b.rawOd AttrConsts.OSU_GREAT / b.odClock ∧
    b.hitWindows.odOk = some (difficultyRange b.rawOd AttrConsts.OSU_OK / b.odClock) ∧
    b.hitWindows.odMeh = some (difficultyRange b.rawOd AttrConsts.OSU_MEH / b.odClock) := by
  rcases h with h | h <;> simp [Builder.hitWindows, h]

theorem hw_od_taiko (b : Builder) (h : b.mode = .taiko) :
    b.hitWindows.odGreat = difficultyRange b.rawOd AttrConsts.TAIKO_GREAT / b.odClock ∧
    b.hitWindows.odOk = some (difficultyRange b.rawOd AttrConsts.TAIKO_OK / b.odClock) ∧
    b.hitWindows.odMeh = none := by
  simp [Builder.hitWindows, h]

theorem hw_od_mania (b : Builder) (h : b.mode = .mania) :
    b.hitWindows.odGreat = maniaGreat b.maniaValue b.odClock ∧
    b.hitWindows.odOk = none ∧ b.hitWindows.odMeh = none := by
  simp [Builder.hitWindows, h]

theorem rawAr_setAr (b : Builder) (v : Rat) (w : Bool) :
    ({ b with ar := .custom ⟨v, w⟩ } : Builder).rawAr = if w then v else modMult b.mods v := by
  cases w <;> rfl

theorem arClock_setAr (b : Builder) (v : Rat) (w : Bool) :
    ({ b with ar := .custom ⟨v, w⟩ } : Builder).arClock = if w then 1 else b.rate := by
  cases w <;> rfl

theorem rawOd_setOd (b : Builder) (v : Rat) (w : Bool) :
    ({ b with od := .custom ⟨v, w⟩ } : Builder).rawOd = if w then v else modMult b.mods v := by
  cases w <;> rfl

theorem odClock_setOd (b : Builder) (v : Rat) (w : Bool) :
    ({ b with od := .custom ⟨v, w⟩ } : Builder).odClock = if w then 1 else b.rate := by
  cases w <;> rfl

/-- effect of `withHrEz` on the pieces of `hit_windows()` -/
theorem rawAr_withHrEz (b : Builder) (hr ez : Bool) (mu : Rat) :
    (b.withHrEz hr ez mu).rawAr =
      if b.ar.withMods then b.ar.value b.mods.ar else modMult (b.mods.withHrEz hr ez mu) (b.ar.value b.mods.ar) := rfl

theorem rawOd_withHrEz (b : Builder) (hr ez : Bool) (mu : Rat) :
    (b.withHrEz hr ez mu).rawOd =
      if b.od.withMods then b.od.value b.mods.od else modMult (b.mods.withHrEz hr ez mu) (b.od.value b.mods.od) := rfl

theorem arClock_withHrEz (b : Builder) (hr ez : Bool) (mu : Rat) : (b.withHrEz hr ez mu).arClock = b.arClock := rfl
theorem odClock_withHrEz (b : Builder) (hr ez : Bool) (mu : Rat) : (b.withHrEz hr ez mu).odClock = b.odClock := rfl
theorem mode_withHrEz (b : Builder) (hr ez : Bool) (mu : Rat) : (b.withHrEz hr ez mu).mode = b.mode := rfl

theorem maniaValue_withHrEz (b : Builder) (hr ez : Bool) (mu : Rat) :
    (b.withHrEz hr ez mu).maniaValue =
      maniaScale b.od.withMods hr ez (maniaV0 b.isConvert (b.od.value b.mods.od)) := rfl

theorem rawAr_order (b : Builder) (mH mE : Rat) (h0 : 0 ≤ b.ar.value b.mods.ar) (h10 : b.ar.value b.mods.ar ≤ 10) :
    (b.withHrEz false true mE).rawAr ≤ (b.withHrEz false false 1).rawAr ∧
    (b.withHrEz false false 1).rawAr ≤ (b.withHrEz true false mH).rawAr := by
  simp only [rawAr_withHrEz]
  split
  · exact ⟨le_rfl, le_rfl⟩
  · constructor
    · have := modMult_ez_le b.mods _ h0 1
      simpa [modMult, ModsView.withHrEz] using this
    · have := modMult_hr_ge b.mods _ h0 h10 1
      simpa [modMult, ModsView.withHrEz] using this

theorem rawOd_order (b : Builder) (mH mE : Rat) (h0 : 0 ≤ b.od.value b.mods.od) (h10 : b.od.value b.mods.od ≤ 10) :
    (b.withHrEz false true mE).rawOd ≤ (b.withHrEz false false 1).rawOd ∧
    (b.withHrEz false false 1).rawOd ≤ (b.withHrEz true false mH).rawOd := by
  simp only [rawOd_withHrEz]
  split
  · exact ⟨le_rfl, le_rfl⟩
  · constructor
    · have := modMult_ez_le b.mods _ h0 1
      simpa [modMult, ModsView.withHrEz] using this
    · have := modMult_hr_ge b.mods _ h0 h10 1
      simpa [modMult, ModsView.withHrEz] using this

theorem maniaValue_antitone' (b : Builder) (w : Bool) {v1 v2 : Rat} (h : v1 ≤ v2) :
    ({ b with od := .custom ⟨v2, w⟩ } : Builder).maniaValue ≤ ({ b with od := .custom ⟨v1, w⟩ } : Builder).maniaValue := by
  simp only [maniaValue_eq, Kind.withMods, Kind.value]
  exact maniaScale_mono _ _ _ (maniaV0_antitone _ h)

/-! ### observational congruence of `build`, DifficultyAdjust vs. override -/

/-- what `hit_windows()` / `build()` observe of a builder -/
structure Obs where
  mode : Mode
  rawAr : Rat
  rawOd : Rat
  arClock : Rat
  odClock : Rat
  maniaValue : Rat
  odValue : Rat
  csOut : Rat
  hpOut : Rat
  rate : Rat
  deriving DecidableEq

def Builder.obs (b : Builder) : Obs :=
  ⟨b.mode, b.rawAr, b.rawOd, b.arClock, b.odClock, b.maniaValue, b.od.value b.mods.od, b.csOut, b.hpOut, b.rate⟩

theorem build_congr (b1 b2 : Builder) (h : b1.obs = b2.obs) : b1.build = b2.build := by
  simp only [Builder.obs, Obs.mk.injEq] at h
  obtain ⟨h1, h2, h3, h4, h5, h6, h7, h8, h9, h10⟩ := h
  simp only [Builder.build, Builder.hitWindows, Builder.odOut, h1, h2, h3, h4, h5, h6, h7, h8, h9, h10]

/-- a DifficultyAdjust value provided by the mods acts exactly like the `(value, with_mods = false)`
override of `Difficulty::{ar,cs,hp,od}` (for attributes that come from the map, i.e. `Default` kinds) -/
theorem difficulty_da_eq_override (b : Builder) (V : ModsView) (c : Option Rat) (xa xc xh xo : Rat)
    (ha : b.ar = .dflt ⟨xa, false⟩) (hc : b.cs = .dflt ⟨xc, false⟩)
    (hh : b.hp = .dflt ⟨xh, false⟩) (ho : b.od = .dflt ⟨xo, false⟩) :
    (b.difficulty { mods := V, clockRate := c, ar := none, cs := none, hp := none, od := none }).build =
    (b.difficulty
      { mods := { V with ar := none, cs := none, hp := none, od := none }, clockRate := c,
        ar := V.ar.map (fun v => ⟨v, false⟩), cs := V.cs.map (fun v => ⟨v, false⟩),
        hp := V.hp.map (fun v => ⟨v, false⟩), od := V.od.map (fun v => ⟨v, false⟩) }).build := by
  apply build_congr
  obtain ⟨cr, hr, ez, ar, cs, hp, od, mult⟩ := V
  cases hr <;> cases ez <;>
  ( simp only [Builder.obs, Obs.mk.injEq]
    refine ⟨rfl, ?_, ?_, ?_, ?_, ?_, ?_, ?_, ?_, ?_⟩
    · cases ar <;> simp [Builder.difficulty, Builder.rawAr, Kind.value, Kind.withMods, ha, modMult]
    · cases od <;> simp [Builder.difficulty, Builder.rawOd, Kind.value, Kind.withMods, ho, modMult]
    · cases ar <;> simp [Builder.difficulty, Builder.arClock, Builder.rate, Kind.withMods, ha, DifficultyView.getClockRate]
    · cases od <;> simp [Builder.difficulty, Builder.odClock, Builder.rate, Kind.withMods, ho, DifficultyView.getClockRate]
    · cases od <;> simp [maniaValue_eq, Builder.difficulty, Kind.value, Kind.withMods, ho]
    · cases od <;> simp [Builder.difficulty, Kind.value, ho]
    · cases cs <;> simp [Builder.difficulty, Builder.csOut, Kind.value, Kind.withMods, hc]
    · cases hp <;> simp [Builder.difficulty, Builder.hpOut, Kind.value, Kind.withMods, hh]
    · simp [Builder.difficulty, Builder.rate, DifficultyView.getClockRate] )

end Rosu.Attrs
