import RosuModel.Lemmas.CurveSubdiv
import Mathlib.Tactic.NormNum
import Mathlib.Tactic.Positivity
import Mathlib.Tactic.FieldSimp

/-!
# De Casteljau subdivision quarters the second differences (exact arithmetic)

Over an ordered field: if every second difference `pᵢ − 2pᵢ₊₁ + pᵢ₊₂` of a control polygon has squared
length `≤ m`, then every second difference of BOTH children of `bezier_subdivide` has squared length
`≤ m / 16` — each child's second difference is `¼` of a second difference of one of the de Casteljau
levels, and the levels' second differences are averages of the parent's.  This is what bounds the
depth of `approximate_bspline`'s subdivision (`Lemmas/CurveBezier.lean`).
-/
namespace Rosu.Curve

set_option linter.unusedSectionVars false

variable {K : Type} [Field K] [LinearOrder K] [IsStrictOrderedRing K] (T : Transc K)

/-- squared length of the second difference, as the field expression -/
def sdSq (a b c : Pos K) : K :=
  (a.x - b.x * 2 + c.x) * (a.x - b.x * 2 + c.x) + (a.y - b.y * 2 + c.y) * (a.y - b.y * 2 + c.y)

theorem secondDiffSq_field (a b c : Pos K) : secondDiffSq (fieldArith T) a b c = sdSq a b c := by
  simp [secondDiffSq, sdSq, lenSq, dot, padd, psub, pmul, two, fieldArith]

/-- the midpoint `(a + b) / 2.0` -/
def mid2 (a b : Pos K) : Pos K := ⟨(a.x + b.x) / 2, (a.y + b.y) / 2⟩

theorem pdiv_padd_field (a b : Pos K) :
    pdiv (fieldArith T) (padd (fieldArith T) a b) (two (fieldArith T)) = mid2 a b := by
  simp [pdiv, padd, two, fieldArith, mid2]

/-- Every window of three consecutive points has a second difference of squared length `≤ m`. -/
def SdLe (m : K) (l : List (Pos K)) : Prop :=
  ∀ i a b c, l[i]? = some a → l[i + 1]? = some b → l[i + 2]? = some c → sdSq a b c ≤ m

theorem mp_field (a b : Pos K) : mp (fieldArith T) a b = mid2 a b := by
  simp [mp, pdiv, padd, two, fieldArith, mid2]

theorem getElem?_avg (l : List (Pos K)) (j : Nat) :
    (avg (fieldArith T) l)[j]? = (l[j]?).bind fun a => (l[j + 1]?).map fun b => mid2 a b := by
  rw [avg_getElem?]
  simp only [mp_field]

/-- averaging two second differences does not increase the bound -/
theorem sdSq_mid (a b c d : Pos K) (m : K) (h1 : sdSq a b c ≤ m) (h2 : sdSq b c d ≤ m) :
    sdSq (mid2 a b) (mid2 b c) (mid2 c d) ≤ m := by
  unfold sdSq mid2 at *
  simp only
  nlinarith [sq_nonneg ((a.x - b.x * 2 + c.x) - (b.x - c.x * 2 + d.x)),
    sq_nonneg ((a.y - b.y * 2 + c.y) - (b.y - c.y * 2 + d.y))]

theorem SdLe_avg (m : K) (l : List (Pos K)) (h : SdLe m l) : SdLe m (avg (fieldArith T) l) := by
  intro i a' b' c' ha hb hc
  rw [getElem?_avg] at ha hb hc
  cases h0 : l[i]? with
  | none => simp [h0] at ha
  | some a =>
    cases h1 : l[i + 1]? with
    | none => simp [h0, h1] at ha
    | some b =>
      cases h2 : l[i + 2]? with
      | none => simp [h1, h2] at hb
      | some c =>
        cases h3 : l[i + 3]? with
        | none =>
          have : l[i + 2 + 1]? = none := h3
          simp [h2, this] at hc
        | some d =>
          have h3' : l[i + 2 + 1]? = some d := h3
          have h2' : l[i + 1 + 1]? = some c := h2
          simp only [h0, h1, Option.bind_some, Option.map_some, Option.some.injEq] at ha
          simp only [h1, h2', Option.bind_some, Option.map_some, Option.some.injEq] at hb
          simp only [h2, h3', Option.bind_some, Option.map_some, Option.some.injEq] at hc
          subst ha hb hc
          exact sdSq_mid a b c d m (h i a b c h0 h1 h2) (h (i + 1) b c d h1 h2' h3')

theorem SdLe_level (m : K) : ∀ (s : Nat) (l : List (Pos K)), SdLe m l →
    SdLe m (level (fieldArith T) s l)
  | 0, _, h => h
  | s + 1, l, h => SdLe_level m s _ (SdLe_avg T m l h)

/-- the second difference of `x, mid x y, mid (mid x y) (mid y z)` is a quarter of that of `x y z` -/
theorem sdSq_left (x y z : Pos K) :
    sdSq x (mid2 x y) (mid2 (mid2 x y) (mid2 y z)) = sdSq x y z / 16 := by
  unfold sdSq mid2
  simp only
  ring

theorem sdSq_right (x y z : Pos K) :
    sdSq (mid2 (mid2 x y) (mid2 y z)) (mid2 y z) z = sdSq x y z / 16 := by
  unfold sdSq mid2
  simp only
  ring

/-- Both children of a subdivision have second differences `≤ m / 16`. -/
theorem SdLe_leftChildOf (m : K) (pts : List (Pos K)) (h : SdLe m pts) :
    SdLe (m / 16) (leftChildOf (fieldArith T) pts) := by
  intro t a b c ha hb hc
  unfold leftChildOf at ha hb hc
  rw [leftList_getElem?] at ha hb hc
  split at ha
  · split at hb
    · split at hc
      · -- u = level t pts
        have hu := SdLe_level T m t pts h
        rw [level_succ'] at hb
        rw [level_succ', level_succ'] at hc
        rw [getElem?_avg] at hb
        rw [getElem?_avg, getElem?_avg, getElem?_avg] at hc
        cases h0 : (level (fieldArith T) t pts)[0]? with
        | none => simp [h0] at hb
        | some x =>
          cases h1 : (level (fieldArith T) t pts)[0 + 1]? with
          | none => simp [h0, h1] at hb
          | some y =>
            cases h2 : (level (fieldArith T) t pts)[0 + 1 + 1]? with
            | none => simp [h0, h1, h2] at hc
            | some z =>
              simp only [h0, Option.some.injEq] at ha
              simp only [h0, h1, Option.bind_some, Option.map_some, Option.some.injEq] at hb
              simp only [h0, h1, h2, Option.bind_some, Option.map_some, Option.some.injEq] at hc
              subst ha hb hc
              rw [sdSq_left]
              have := hu 0 x y z h0 h1 h2
              have h16 : (0 : K) < 16 := by norm_num
              exact div_le_div_of_nonneg_right this (le_of_lt h16)
      · cases hc
    · cases hb
  · cases ha

theorem SdLe_rightChildOf (m : K) (pts : List (Pos K)) (h : SdLe m pts) :
    SdLe (m / 16) (rightChildOf (fieldArith T) pts) := by
  intro t a b c ha hb hc
  have hlen := length_rightChildOf (fieldArith T) pts
  have ht2 : t + 2 < pts.length := by
    have := (List.getElem?_eq_some_iff.mp hc).1
    rw [hlen] at this
    exact this
  rw [rightChildOf_getElem?] at ha hb hc
  obtain ⟨s, hs⟩ : ∃ s, pts.length - 1 - (t + 2) = s := ⟨_, rfl⟩
  have e1 : pts.length - 1 - (t + 1) = s + 1 := by omega
  have e0 : pts.length - 1 - t = s + 2 := by omega
  rw [hs] at hc
  rw [e1, level_succ'] at hb
  rw [e0, level_succ', level_succ'] at ha
  have hu := SdLe_level T m s pts h
  rw [getElem?_avg] at hb
  rw [getElem?_avg, getElem?_avg, getElem?_avg] at ha
  cases h0 : (level (fieldArith T) s pts)[t]? with
  | none => simp [h0] at ha
  | some x =>
    cases h1 : (level (fieldArith T) s pts)[t + 1]? with
    | none => simp [h0, h1] at ha
    | some y =>
      have h2' : (level (fieldArith T) s pts)[t + 1 + 1]? = some c := hc
      simp only [h1, h2', Option.bind_some, Option.map_some, Option.some.injEq] at hb
      simp only [h0, h1, h2', Option.bind_some, Option.map_some, Option.some.injEq] at ha
      subst ha hb
      rw [sdSq_right]
      have := hu t x y c h0 h1 hc
      have h16 : (0 : K) < 16 := by norm_num
      exact div_le_div_of_nonneg_right this (le_of_lt h16)

/-- `bezier_is_flat_enough` in exact arithmetic: every second difference has squared length `≤ ¼`
(`BEZIER_TOLERANCE² · 4`). -/
theorem anyNotFlat_false_iff : ∀ (l : List (Pos K)),
    anyNotFlat (fieldArith T) l = false ↔ SdLe (1 / 4) l
  | [] => by simp [anyNotFlat, SdLe]
  | [a] => by
    simp only [anyNotFlat, SdLe, true_iff]
    intro i x y z _ hy _
    cases i <;> simp at hy
  | [a, b] => by
    simp only [anyNotFlat, SdLe, true_iff]
    intro i x y z _ _ hz
    cases i with
    | zero => simp at hz
    | succ i => cases i <;> simp at hz
  | a :: b :: c :: rest => by
    have ih := anyNotFlat_false_iff (b :: c :: rest)
    have hlim : flatLimit (fieldArith T) = (1 / 4 : K) := by
      simp [flatLimit, quarter, fieldArith]
    simp only [anyNotFlat, Bool.or_eq_false_iff, ih, secondDiffSq_field, hlim]
    constructor
    · rintro ⟨h1, h2⟩ i x y z hx hy hz
      cases i with
      | zero =>
        simp only [List.getElem?_cons_zero, List.getElem?_cons_succ, Option.some.injEq] at hx hy hz
        rw [← hx, ← hy, ← hz]
        have : ¬ ((1 / 4 : K) < sdSq a b c) := by
          simpa [fieldArith] using h1
        exact not_lt.mp this
      | succ i =>
        exact h2 i x y z (by simpa using hx) (by simpa using hy) (by simpa using hz)
    · intro h
      refine ⟨?_, ?_⟩
      · have := h 0 a b c rfl rfl rfl
        have h' : ¬ ((1 / 4 : K) < sdSq a b c) := not_lt.mpr this
        simpa [fieldArith] using h' 
      · intro i x y z hx hy hz
        exact h (i + 1) x y z (by simpa using hx) (by simpa using hy) (by simpa using hz)

end Rosu.Curve
