import RosuModel.Lemmas.GenStateBasic

/-! C12 lemmas for the catch generator, for every `NumOps` instance. -/
namespace Rosu.GenState
set_option linter.unusedSectionVars false

variable {R : Type} [NumOps R]

/-- fruits/droplets (for `F + D ≤ u32::MAX`, i.e. attribute sums that exist in `u32`): all checked
operations succeed for every provided `u32` value (the sums saturate since 9eb418a), the sum is the
number of fruit/droplet judgements, provided values that fit are kept. -/
structure CatchFDSpec (F D misses : Nat) (fruits droplets : Option Nat) (r : Nat × Nat × Bool) : Prop where
  ok : (∀ f, fruits = some f → f ≤ u32Max) → (∀ d, droplets = some d → d ≤ u32Max) → r.2.2 = true
  sum : r.1 + r.2.1 + misses = F + D
  keepBoth : ∀ f d, fruits = some f → droplets = some d → f + d + misses = F + D → r.1 = f ∧ r.2.1 = d
  keepF : ∀ f, fruits = some f → droplets = none → f ≤ F → F ≤ f + misses → f + misses ≤ F + D → r.1 = f
  keepD : ∀ d, fruits = none → droplets = some d → d ≤ D → D ≤ d + misses → d + misses ≤ F + D → r.2.1 = d

theorem catchFruitsDroplets_spec (F D misses : Nat) (fruits droplets : Option Nat) (hm : misses ≤ F + D)
    (hT : F + D ≤ u32Max) :
    CatchFDSpec F D misses fruits droplets (catchFruitsDroplets F D misses fruits droplets) := by
  unfold catchFruitsDroplets satAdd
  have hu := u32Max_eq
  rcases fruits with _ | f <;> rcases droplets with _ | d <;>
    (constructor <;> simp <;> omega)

theorem catchFindTiny_inv (acc : R) (F D T fruits droplets misses : Nat) :
    SearchInv (R := R) (0, 0) (fun v => v.1 + v.2 = T) (catchFindTiny acc F D T fruits droplets misses) := by
  unfold catchFindTiny
  apply foldl_inv
  · exact ⟨rfl, Or.inl ⟨rfl, rfl⟩⟩
  · intro a x hx ha
    have hx' := mem_rangeIncl hx
    have hle : x ≤ T := by omega
    apply searchInv_step _ _ _ _ _ _ ha
    · simpa using hle
    · show x + (T - x) = T
      omega

structure CatchTinySpec (b : CatchB R) (F D T fruits droplets misses : Nat) (r : Nat × Nat × Bool × Bool) : Prop where
  ok : (∀ t, b.tiny = some t → t ≤ u32Max) → r.2.2.2 = true
  sum_eq : r.2.2.1 = true → b.tiny.getD 0 + b.tinyMisses.getD 0 ≤ T → r.1 + r.2.1 = T
  /-- without accuracy the two values cover all tiny droplets (possibly more, when the provided
  ones exceed them); with accuracy they are exact, or the zeros left by a search that accepted nothing -/
  shapeNone : b.acc = none → T ≤ r.1 + r.2.1
  shapeSome : ∀ acc, b.acc = some acc → r.1 + r.2.1 = T ∨
    (r.1 = 0 ∧ r.2.1 = 0 ∧ (catchFindTiny acc F D T fruits droplets misses).val = (0, 0))
  keepBoth : ∀ t tm, b.tiny = some t → b.tinyMisses = some tm → t + tm = T → r.1 = t ∧ r.2.1 = tm
  keepT : ∀ t, b.tiny = some t → b.tinyMisses = none → t ≤ T → r.1 = t
  keepTM : ∀ tm, b.tiny = none → b.tinyMisses = some tm → tm ≤ T → r.2.1 = tm
  bound : (∀ t, b.tiny = some t → t ≤ u32Max) → (∀ t, b.tinyMisses = some t → t ≤ u32Max) →
    r.1 ≤ u32Max ∧ r.2.1 ≤ u32Max

/-- under `T < u32::MAX` the saturating sum hits `T` exactly when the true sum does -/
theorem satAdd_eq_iff (t tm T : Nat) (hT : T < u32Max) : satAdd t tm = T ↔ t + tm = T := by
  unfold satAdd
  omega

theorem catchTiny_spec (b : CatchB R) (F D T fruits droplets misses : Nat) (hT : T < u32Max) :
    CatchTinySpec b F D T fruits droplets misses (catchTiny b F D T fruits droplets misses) := by
  unfold catchTiny satAdd
  have hu := u32Max_eq
  rcases ht : b.tiny with _ | t <;> rcases htm : b.tinyMisses with _ | tm <;> rcases hacc : b.acc with _ | acc
  · constructor <;> simp [ht, htm, hacc] <;> omega
  · obtain ⟨hok, hcase⟩ := catchFindTiny_inv acc F D T fruits droplets misses
    constructor <;> (try simp only [hok]) <;> rcases hcase with ⟨hh, hv⟩ | ⟨hh, hv⟩ <;>
      first
        | omega
        | (simp_all; done)
        | (simp_all <;> omega)
  · constructor <;> simp [ht, htm, hacc] <;> omega
  · constructor <;> simp [ht, htm, hacc] <;> omega
  · constructor <;> simp [ht, htm, hacc] <;> omega
  · constructor <;> simp [ht, htm, hacc] <;> omega
  · constructor <;> simp [ht, htm, hacc] <;> omega
  · by_cases heq : min (t + tm) u32Max = T
    · simp only [heq, if_true]
      constructor <;> simp [ht, htm, hacc] <;> omega
    · obtain ⟨hok, hcase⟩ := catchFindTiny_inv acc F D T fruits droplets misses
      simp only [heq, if_false]
      constructor <;> (try simp only [hok]) <;> rcases hcase with ⟨hh, hv⟩ | ⟨hh, hv⟩ <;>
        first
          | omega
          | (simp_all; done)
          | (simp_all <;> omega)

/-- second call on fruits/droplets: consistent provided values come back unchanged -/
theorem catchFruitsDroplets_given (F D misses f d : Nat) (h : f + d + misses = F + D) (hb : F + D ≤ u32Max) :
    catchFruitsDroplets F D misses (some f) (some d) = (f, d, true) := by
  unfold catchFruitsDroplets satAdd
  have hu := u32Max_eq
  simp only [Prod.mk.injEq, Bool.and_eq_true, decide_eq_true_eq]
  omega

/-- second call on the tiny droplets: the values of the first call come back unchanged -/
theorem catchTiny_second (b b' : CatchB R) (F D T fruits droplets misses : Nat)
    (hacc : b'.acc = b.acc)
    (ht : b'.tiny = some (catchTiny b F D T fruits droplets misses).1)
    (htm : b'.tinyMisses = some (catchTiny b F D T fruits droplets misses).2.1) (hT : T < u32Max) :
    (catchTiny b' F D T fruits droplets misses).1 = (catchTiny b F D T fruits droplets misses).1 ∧
    (catchTiny b' F D T fruits droplets misses).2.1 = (catchTiny b F D T fruits droplets misses).2.1 := by
  have hs := catchTiny_spec b F D T fruits droplets misses hT
  generalize catchTiny b F D T fruits droplets misses = r at *
  have hu := u32Max_eq
  unfold catchTiny satAdd
  simp only [ht, htm, hacc]
  rcases hb : b.acc with _ | acc
  · have := hs.shapeNone hb
    simp
    omega
  · simp only
    rcases hs.shapeSome acc hb with h | ⟨h1, h2, h3⟩
    · have e : min (r.1 + r.2.1) u32Max = T := by omega
      simp [e]
    · simp only [h1, h2, h3]
      split <;> simp

theorem catchGenRaw_eq (c : CatchCfg) (b : CatchB R) :
    catchGenRaw c b =
      (let misses := optMin b.misses (c.nFruits + c.nDroplets)
       let fd := catchFruitsDroplets c.nFruits c.nDroplets misses b.fruits b.droplets
       let tn := catchTiny b c.nFruits c.nDroplets c.nTiny fd.1 fd.2.1 misses
       { state := { maxCombo := optMinOr b.combo (c.nFruits + c.nDroplets - misses), fruits := fd.1,
                    droplets := fd.2.1, tiny := tn.1, tinyMisses := tn.2.1, misses := misses },
         accepted := tn.2.2.1,
         ok := decide (misses ≤ c.nFruits + c.nDroplets) && fd.2.2 && tn.2.2.2 }) := rfl

end Rosu.GenState
