import RosuModel.Model.TaikoTicks
import RosuModel.Lemmas.ConvertWF
import Mathlib.Algebra.Order.Field.Rat
import Mathlib.Tactic.Linarith
import Mathlib.Tactic.Ring
import Mathlib.Tactic.Push

/-!
# The tick loop of `taiko::convert` over exact rationals

* For **every** arithmetic: `should_convert_slider_to_taiko_hits` returns `true` only if its
  first conjunct `tick_spacing > 0.0` holds (`shouldConvert_pos`).
* Over ℚ (`ratArith`): with `tick_spacing > 0` the loop `while j <= start + duration + ts/8`
  terminates; it pushes exactly `⌊(duration + ts/8) / ts⌋ + 1` hits at `start + k·ts` with edge
  sound index `k mod edge_sound_count` (or exactly one hit when `ts ≤ f64::EPSILON` makes the
  `tick_spacing.eq(0.0)` break fire) — at least one in both cases, because `j = start` satisfies
  the bound (`duration` is a `u32`, hence `≥ 0`).
-/

namespace Rosu.TaikoTicks

variable {F : Type}

/-- Taking the "convert to hits" branch implies `tick_spacing > 0.0` — in every arithmetic, IEEE
doubles included (there it also excludes a NaN spacing). -/
theorem shouldConvert_pos (A : Arith F) (m : MapIn F) (s : SliderIn F)
    (h : (shouldConvert A m s).convert = true) :
    A.lt (A.ofNat 0) (shouldConvert A m s).tickSpacing = true := by
  unfold shouldConvert at h ⊢
  simp only [Bool.and_eq_true] at h ⊢
  exact h.1

/-- Number of iterations of the tick loop over ℚ. -/
def tickCount (dur : Nat) (ts : Rat) : Nat := (((dur : Rat) + ts / 8) / ts).floor.toNat + 1

/-- The loop condition at `j = start + c·ts` holds exactly for `c < tickCount`. -/
theorem tick_cond (start : Rat) (dur : Nat) (ts : Rat) (hts : 0 < ts) (c : Nat) :
    ratArith.le (start + (c : Rat) * ts) (tickBound ratArith start dur ts) = true ↔
      c < tickCount dur ts := by
  have hb : tickBound ratArith start dur ts = start + (dur : Rat) + ts / 8 := by
    simp [tickBound, ratArith]
  have hle : ratArith.le (start + (c : Rat) * ts) (tickBound ratArith start dur ts) =
      decide (start + (c : Rat) * ts ≤ tickBound ratArith start dur ts) := rfl
  rw [hle, hb, decide_eq_true_eq]
  have hq0 : 0 ≤ ((dur : Rat) + ts / 8) / ts := by
    apply div_nonneg _ hts.le
    have : (0 : Rat) ≤ (dur : Rat) := Nat.cast_nonneg _
    linarith
  have hM : 0 ≤ (((dur : Rat) + ts / 8) / ts).floor := by
    have := Rat.le_floor_iff (x := 0) (a := ((dur : Rat) + ts / 8) / ts)
    exact this.mpr (by simpa using hq0)
  have hfl := Rat.le_floor_iff (x := (c : Int)) (a := ((dur : Rat) + ts / 8) / ts)
  have hcast : (((c : Int) : Rat)) = (c : Rat) := Int.cast_natCast c
  rw [hcast] at hfl
  unfold tickCount
  constructor
  · intro h
    have h1 : (c : Rat) ≤ ((dur : Rat) + ts / 8) / ts := by
      rw [le_div_iff₀ hts]; linarith
    have := hfl.mpr h1
    omega
  · intro h
    have h1 : (c : Int) ≤ (((dur : Rat) + ts / 8) / ts).floor := by omega
    have h2 := hfl.mp h1
    rw [le_div_iff₀ hts] at h2
    linarith

/-- The loop from iteration `c` on, when the `eq(0.0)` break does not fire. -/
theorem tickLoop_rat (start : Rat) (dur : Nat) (ts : Rat) (hts : 0 < ts)
    (hz : ratArith.eqZero ts = false) (ec : Nat) :
    ∀ (n c fuel : Nat), c + n = tickCount dur ts → n + 1 ≤ fuel →
      tickLoop ratArith (tickBound ratArith start dur ts) ts ec fuel (start + (c : Rat) * ts) (c % ec) =
        some ((List.range n).map fun k => (start + ((c + k : Nat) : Rat) * ts, (c + k) % ec)) := by
  intro n
  induction n with
  | zero =>
    intro c fuel hc hf
    obtain ⟨f, rfl⟩ : ∃ f, fuel = f + 1 := ⟨fuel - 1, by omega⟩
    have hcond : ¬ (ratArith.le (start + (c : Rat) * ts) (tickBound ratArith start dur ts) = true) := by
      rw [tick_cond start dur ts hts c]; omega
    unfold tickLoop
    rw [if_neg hcond]
    rfl
  | succ n ih =>
    intro c fuel hc hf
    obtain ⟨f, rfl⟩ : ∃ f, fuel = f + 1 := ⟨fuel - 1, by omega⟩
    have hcond : ratArith.le (start + (c : Rat) * ts) (tickBound ratArith start dur ts) = true := by
      rw [tick_cond start dur ts hts c]; omega
    have hadd : ratArith.add (start + (c : Rat) * ts) ts = start + ((c + 1 : Nat) : Rat) * ts := by
      show start + (c : Rat) * ts + ts = _
      push_cast; ring
    have hmod : (c % ec + 1) % ec = (c + 1) % ec := Nat.mod_add_mod c ec 1
    unfold tickLoop
    rw [if_pos hcond, hz]
    simp only [Bool.false_eq_true, if_false]
    rw [hadd, hmod, ih (c + 1) f (by omega) (by omega)]
    simp only
    rw [List.range_succ_eq_map]
    simp only [List.map_cons, List.map_map, Nat.add_zero]
    congr 2
    apply List.map_congr_left
    intro k _
    simp only [Function.comp]
    rw [show c + 1 + k = c + (k + 1) by omega]

/-- The tick loop over ℚ with `tick_spacing > 0`, started as the code starts it (`j = start`,
`i = 0`): it terminates within `tickCount + 1` units of fuel and pushes at least one hit — exactly
one if the `tick_spacing.eq(0.0)` break fires, else `tickCount` hits at `start + k·ts` with edge
sound index `k mod edge_count`. -/
theorem tickLoop_rat_total (start : Rat) (dur : Nat) (ts : Rat) (hts : 0 < ts) (ec fuel : Nat)
    (hf : tickCount dur ts + 1 ≤ fuel) :
    tickLoop ratArith (tickBound ratArith start dur ts) ts ec fuel start 0 =
      some (if ratArith.eqZero ts then [(start, 0)]
        else (List.range (tickCount dur ts)).map fun (k : Nat) => (start + (k : Rat) * ts, k % ec)) := by
  cases hz : ratArith.eqZero ts
  · have h := tickLoop_rat start dur ts hts hz ec (tickCount dur ts) 0 fuel (by omega) hf
    simp only [Nat.cast_zero, zero_mul, add_zero, Nat.zero_mod, Nat.zero_add] at h
    rw [h]
    simp
  · obtain ⟨f, rfl⟩ : ∃ f, fuel = f + 1 := ⟨fuel - 1, by omega⟩
    have hcond : ratArith.le start (tickBound ratArith start dur ts) = true := by
      have := (tick_cond start dur ts hts 0).mpr (by unfold tickCount; omega)
      simpa using this
    unfold tickLoop
    rw [if_pos hcond, hz]
    simp

theorem tickCount_pos (dur : Nat) (ts : Rat) : 1 ≤ tickCount dur ts := by
  unfold tickCount; omega

/-! ## the slider arm over ℚ and the splice loop -/

/-- Over ℚ, whenever the decision is "convert", the slider arm produces hits — never zero of them,
never out of fuel (for fuel `≥ tickCount + 1`): exactly one hit at `start` if the `eq(0.0)` break
fires, else `tickCount` hits at `start + k·ts` carrying the cycling edge sounds. -/
theorem sliderOutcome_rat (m : MapIn Rat) (s : SliderIn Rat) (nodeSounds : List Nat) (own fuel : Nat)
    (hc : (shouldConvert ratArith m s).convert = true)
    (hf : tickCount (shouldConvert ratArith m s).duration (shouldConvert ratArith m s).tickSpacing + 1
      ≤ fuel) :
    sliderOutcome ratArith fuel m s nodeSounds own =
      .hits (if ratArith.eqZero (shouldConvert ratArith m s).tickSpacing then
          [(s.start, nodeSounds.getD 0 own)]
        else (List.range (tickCount (shouldConvert ratArith m s).duration
            (shouldConvert ratArith m s).tickSpacing)).map fun (k : Nat) =>
          (s.start + (k : Rat) * (shouldConvert ratArith m s).tickSpacing,
            nodeSounds.getD (k % max nodeSounds.length 1) own)) := by
  have hpos := shouldConvert_pos ratArith m s hc
  have hts : 0 < (shouldConvert ratArith m s).tickSpacing := by
    have : ratArith.lt (ratArith.ofNat 0) (shouldConvert ratArith m s).tickSpacing =
        decide (((0 : Nat) : Rat) < (shouldConvert ratArith m s).tickSpacing) := rfl
    rw [this, decide_eq_true_eq] at hpos
    simpa using hpos
  unfold sliderOutcome
  simp only [hc, if_true]
  rw [tickLoop_rat_total s.start _ _ hts _ fuel hf]
  simp only
  congr 1
  split
  · rfl
  · simp [List.map_map, Function.comp_def]

/-- The objects of the exact-arithmetic instance of the splice loop. -/
structure RObj where
  kind : ConvertWF.TaikoKind
  slider : SliderIn Rat
  nodeSounds : List Nat

/-- `TaikoOps` (the parameter of the splice-loop model `ConvertWF.taikoLoop`) instantiated with
the slider arithmetic over ℚ: decision = `shouldConvert`, generated hits = the tick loop. -/
def ratOps (m : MapIn Rat) : ConvertWF.TaikoOps RObj Nat where
  kind o := o.kind
  shouldConvert o := (shouldConvert ratArith m o.slider).convert
  generate o own :=
    let p := shouldConvert ratArith m o.slider
    match sliderOutcome ratArith (tickCount p.duration p.tickSpacing + 1) m o.slider o.nodeSounds own with
    | .hits l => l.map fun (j, snd) =>
        ({ kind := .plain, slider := { o.slider with start := j }, nodeSounds := [] }, snd)
    | _ => []
  toSpinner o := { o with kind := .plain }

/-- Every converted slider yields at least one hit (over ℚ). -/
theorem ratOps_generate_ne_nil (m : MapIn Rat) (o : RObj) (own : Nat)
    (h : (ratOps m).shouldConvert o = true) : (ratOps m).generate o own ≠ [] := by
  have hs := sliderOutcome_rat m o.slider o.nodeSounds own _ h (Nat.le_refl _)
  show (match sliderOutcome ratArith _ m o.slider o.nodeSounds own with
    | .hits l => l.map _
    | _ => []) ≠ []
  rw [hs]
  simp only
  split
  · simp
  · have := tickCount_pos (shouldConvert ratArith m o.slider).duration
      (shouldConvert ratArith m o.slider).tickSpacing
    intro hnil
    have hl := congrArg List.length hnil
    simp at hl
    omega

end Rosu.TaikoTicks
