import RosuModel.Model.PerfCalc
import Mathlib.Analysis.SpecialFunctions.Pow.Real
import Mathlib.Analysis.SpecialFunctions.Log.Basic
import Mathlib.Analysis.SpecialFunctions.Complex.Arg
import Mathlib.Tactic.Linarith
import Mathlib.Tactic.Positivity
import Mathlib.Tactic.NormNum
import Mathlib.Tactic.FieldSimp
import Mathlib.Tactic.Ring

/-!
# The real-number reading of the pp formulas

`PPOps ℝ`: `+ - * /` of the field ℝ, `powf = Real.rpow`, `ln = Real.log`, `log10 x = log x / log 10`,
`exp = Real.exp`, `sqrt = Real.sqrt`, comparisons decided classically, `f64::max/min` = `max/min`.
ℝ has no infinities or NaN: the three "special value" tests answer `false`, and the constants
`posInf/negInf/nan` (only ever *returned*, by `erf_inv` outside (−1,1) and `erf(NaN)`) are junk values
that every `…Dom` predicate excludes.  Mathlib's total functions (`x / 0 = 0`, `log` of a non-positive
number, `rpow` of a negative base, `sqrt` of a negative number) never make a statement true for the
wrong reason here: every theorem about a value either carries the corresponding `…Dom` fact or is
about an expression whose partial operations are shown in-domain by that `…Dom` theorem.

This file: the instance, the `rfl` bridge lemmas (`simp` set), and small analytic facts.
-/

namespace Rosu.PerfCalc
open PPOps

noncomputable instance instPPOpsReal : PPOps ℝ where
  toOfScientific := inferInstance
  toAdd := inferInstance
  toSub := inferInstance
  toMul := inferInstance
  toDiv := inferInstance
  toNeg := inferInstance
  ofNat n := (n : ℝ)
  ofInt i := (i : ℝ)
  lt a b := decide (a < b)
  le a b := decide (a ≤ b)
  beq a b := decide (a = b)
  fmax a b := max a b
  fmin a b := min a b
  abs a := |a|
  powf := Real.rpow
  ln := Real.log
  log10 x := Real.log x / Real.log 10
  exp := Real.exp
  sqrt := Real.sqrt
  cbrt x := if 0 ≤ x then x ^ (1 / 3 : ℝ) else -((-x) ^ (1 / 3 : ℝ))
  sin := Real.sin
  atan2 y x := Complex.arg ⟨x, y⟩
  r32 x := x
  truncI32 x := max (-2147483648) (min 2147483647 (if 0 ≤ x then ⌊x⌋ else ⌈x⌉))
  ceil x := (⌈x⌉ : ℤ)
  pi := Real.pi
  posInf := 0
  negInf := 0
  nan := 0
  isPosInf _ := false
  isNegInf _ := false
  isNaN _ := false

/-! ### bridge lemmas (all `rfl`) -/

@[simp] theorem r_add (a b : ℝ) : @HAdd.hAdd ℝ ℝ ℝ (@instHAdd ℝ PPOps.toAdd) a b = a + b := rfl
@[simp] theorem r_sub (a b : ℝ) : @HSub.hSub ℝ ℝ ℝ (@instHSub ℝ PPOps.toSub) a b = a - b := rfl
@[simp] theorem r_mul (a b : ℝ) : @HMul.hMul ℝ ℝ ℝ (@instHMul ℝ PPOps.toMul) a b = a * b := rfl
@[simp] theorem r_div (a b : ℝ) : @HDiv.hDiv ℝ ℝ ℝ (@instHDiv ℝ PPOps.toDiv) a b = a / b := rfl
@[simp] theorem r_neg (a : ℝ) : @Neg.neg ℝ PPOps.toNeg a = -a := rfl
@[simp] theorem r_lit (m : Nat) (s : Bool) (e : Nat) :
    @OfScientific.ofScientific ℝ PPOps.toOfScientific m s e = (OfScientific.ofScientific m s e : ℝ) := rfl
@[simp] theorem r_ofNat (n : Nat) : (PPOps.ofNat n : ℝ) = (n : ℝ) := rfl
@[simp] theorem r_ofInt (i : Int) : (PPOps.ofInt i : ℝ) = (i : ℝ) := rfl
@[simp] theorem r_lt (a b : ℝ) : (PPOps.lt a b = true) ↔ a < b := by simp [PPOps.lt]
@[simp] theorem r_le (a b : ℝ) : (PPOps.le a b = true) ↔ a ≤ b := by simp [PPOps.le]
@[simp] theorem r_beq (a b : ℝ) : (PPOps.beq a b = true) ↔ a = b := by simp [PPOps.beq]
@[simp] theorem r_lt_false (a b : ℝ) : (PPOps.lt a b = false) ↔ ¬ a < b := by simp [PPOps.lt]
@[simp] theorem r_le_false (a b : ℝ) : (PPOps.le a b = false) ↔ ¬ a ≤ b := by simp [PPOps.le]
@[simp] theorem r_beq_false (a b : ℝ) : (PPOps.beq a b = false) ↔ ¬ a = b := by simp [PPOps.beq]
@[simp] theorem r_fmax (a b : ℝ) : PPOps.fmax a b = max a b := rfl
@[simp] theorem r_fmin (a b : ℝ) : PPOps.fmin a b = min a b := rfl
@[simp] theorem r_abs (a : ℝ) : PPOps.abs a = |a| := rfl
@[simp] theorem r_powf (a b : ℝ) : PPOps.powf a b = a ^ b := rfl
@[simp] theorem r_ln (a : ℝ) : PPOps.ln a = Real.log a := rfl
@[simp] theorem r_log10 (a : ℝ) : PPOps.log10 a = Real.log a / Real.log 10 := rfl
@[simp] theorem r_exp (a : ℝ) : PPOps.exp a = Real.exp a := rfl
@[simp] theorem r_sqrt (a : ℝ) : PPOps.sqrt a = Real.sqrt a := rfl
@[simp] theorem r_cbrt (a : ℝ) : PPOps.cbrt a = if 0 ≤ a then a ^ (1 / 3 : ℝ) else -((-a) ^ (1 / 3 : ℝ)) := rfl
@[simp] theorem r_sin (a : ℝ) : PPOps.sin a = Real.sin a := rfl
@[simp] theorem r_r32 (a : ℝ) : PPOps.r32 a = a := rfl
@[simp] theorem r_pi : (PPOps.pi : ℝ) = Real.pi := rfl
@[simp] theorem r_isPosInf (a : ℝ) : PPOps.isPosInf a = false := rfl
@[simp] theorem r_isNegInf (a : ℝ) : PPOps.isNegInf a = false := rfl
@[simp] theorem r_isNaN (a : ℝ) : PPOps.isNaN a = false := rfl

/-- `powfDom` over ℝ: positive base, or zero base with a non-negative exponent -/
theorem powfDom_iff (x y : ℝ) : powfDom x y = true ↔ (0 < x ∨ (x = 0 ∧ 0 ≤ y)) := by
  simp [powfDom]; norm_num

theorem powfDom_of_pos {x : ℝ} (y : ℝ) (h : 0 < x) : powfDom x y = true :=
  (powfDom_iff x y).2 (Or.inl h)

theorem powfDom_of_nonneg {x y : ℝ} (hx : 0 ≤ x) (hy : 0 ≤ y) : powfDom x y = true := by
  rcases hx.lt_or_eq with h | h
  · exact powfDom_of_pos y h
  · exact (powfDom_iff x y).2 (Or.inr ⟨h.symm, hy⟩)

theorem nz_iff (d : ℝ) : nz d = true ↔ d ≠ 0 := by
  simp [nz]; norm_num

/-- `log10` of a number `≥ 1` is non-negative -/
theorem log10_nonneg {x : ℝ} (h : 1 ≤ x) : 0 ≤ Real.log x / Real.log 10 :=
  div_nonneg (Real.log_nonneg h) (Real.log_nonneg (by norm_num))

end Rosu.PerfCalc
