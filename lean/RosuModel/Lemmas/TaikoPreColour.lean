import RosuModel.Lemmas.TaikoPreBuild

/-!
Lemmas about the colour preprocessing of `Model/TaikoPre.lean`: on a well-formed store
`encode_mono_streaks`, `encode_alternating_mono_pattern` and `encode_repeating_hit_patterns` never
fail (`mono_streaks[0]`, `data[0]`, `pop_front().unwrap()`, `drain(..2)`, every dereference), the three
levels are non-empty and partition the level below in order, and the repetition intervals exist
and are at most `MAX_REPETITION_INTERVAL + 1`.
-/

namespace Rosu.TaikoPre

variable {T : Type}

/-! ### generic helpers -/

theorem mapM_option_some {α β : Type} (f : α → Option β) :
    ∀ (l : List α), (∀ x ∈ l, ∃ y, f x = some y) →
      ∃ ys, l.mapM f = some ys ∧ ys.length = l.length
  | [], _ => ⟨[], by simp, rfl⟩
  | a :: l, h => by
    obtain ⟨y, hy⟩ := h a (List.mem_cons_self ..)
    obtain ⟨ys, hys, hl⟩ := mapM_option_some f l (fun x hx => h x (List.mem_cons_of_mem _ hx))
    exact ⟨y :: ys, by simp [List.mapM_cons, hy, hys], by simp [hl]⟩

/-- `mapM` in `Option` yields, position by position, the values of `f`. -/
theorem mapM_option_get {α β : Type} (f : α → Option β) :
    ∀ (l : List α) (ys : List β), l.mapM f = some ys →
      ∀ k (h : k < l.length), ys[k]? = f l[k]
  | [], ys, _, k, h => by simp at h
  | a :: l, ys, hm, k, h => by
    simp only [List.mapM_cons, Option.bind_eq_bind, Option.pure_def] at hm
    cases hfa : f a with
    | none => simp [hfa] at hm
    | some y =>
      cases hl : l.mapM f with
      | none => simp [hfa, hl] at hm
      | some ys' =>
        simp [hfa, hl] at hm
        subst hm
        cases k with
        | zero => simp [hfa]
        | succ k =>
          simp only [List.getElem?_cons_succ, List.getElem_cons_succ]
          exact mapM_option_get f l ys' hl k (by simpa using h)

theorem lookupLast_isSome {α : Type} (entries : List (Nat × α)) (p : Nat)
    (h : p ∈ entries.map (·.1)) : ∃ v, lookupLast entries p = some v := by
  obtain ⟨e, he, hp⟩ := List.mem_map.mp h
  have : (entries.reverse.find? fun e => e.1 == p).isSome = true := by
    rw [List.find?_isSome]
    exact ⟨e, List.mem_reverse.mpr he, by simp [hp]⟩
  obtain ⟨v, hv⟩ := Option.isSome_iff_exists.mp this
  exact ⟨v.2, by simp [lookupLast, hv]⟩

theorem lookupLast_none {α : Type} (entries : List (Nat × α)) (p : Nat)
    (h : p ∉ entries.map (·.1)) : lookupLast entries p = none := by
  have : entries.reverse.find? (fun e => e.1 == p) = none := by
    rw [List.find?_eq_none]
    intro e he
    have he' := List.mem_reverse.mp he
    intro hc
    apply h
    exact List.mem_map.mpr ⟨e, he', by simpa using hc⟩
  simp [lookupLast, this]

/-- First components of a doubly indexed `flatMap` over `zipIdx`. -/
theorem zipIdx_flatMap_map {α β γ : Type} (f : α → Nat → List β) (g : β → γ) (h : α → List γ)
    (hf : ∀ x i, (f x i).map g = h x) :
    ∀ (l : List α) (k : Nat), ((l.zipIdx k).flatMap fun xi => f xi.1 xi.2).map g = l.flatMap h
  | [], _ => by simp
  | a :: l, k => by
    simp only [List.zipIdx_cons, List.flatMap_cons, List.map_append, hf]
    rw [zipIdx_flatMap_map f g h hf l (k + 1)]

/-! ### previous note / mono streaks -/

theorem previousNote_isSome (st : Store T) (h : st.WF) (o : DObj T) (back : Nat) :
    ∃ r, previousNote st o back = some r := by
  unfold previousNote
  by_cases hlt : o.noteIdx < back + 1
  · exact ⟨none, by simp [hlt]⟩
  · simp only [hlt, if_false]
    cases hn : st.notes[o.noteIdx - (back + 1)]? with
    | none => exact ⟨none, rfl⟩
    | some p =>
      have hp : p < st.objects.length := h.notes_lt p (List.mem_of_getElem? hn)
      exact ⟨some st.objects[p], by simp [List.getElem?_eq_getElem hp]⟩

theorem nextNote_isSome (st : Store T) (h : st.WF) (o : DObj T) (fwd : Nat) :
    ∃ r, nextNote st o fwd = some r := by
  unfold nextNote
  cases hn : st.notes[o.noteIdx + (fwd + 1)]? with
  | none => exact ⟨none, rfl⟩
  | some p =>
    have hp : p < st.objects.length := h.notes_lt p (List.mem_of_getElem? hn)
    exact ⟨some st.objects[p], by simp [List.getElem?_eq_getElem hp]⟩

theorem previousMono_isSome (st : Store T) (h : st.WF) (o : DObj T) (back : Nat) :
    ∃ r, previousMono st o back = some r := by
  have key : ∀ (v : List Nat) (i : Nat), (∀ p ∈ v, p < st.objects.length) →
      ∃ r, (if i < back + 1 then some none
        else match v[i - (back + 1)]? with
          | none => some none
          | some p => (st.objects[p]?).map some) = some (r : Option (DObj T)) := by
    intro v i hv
    by_cases hlt : i < back + 1
    · exact ⟨none, by simp [hlt]⟩
    · simp only [hlt, if_false]
      cases hn : v[i - (back + 1)]? with
      | none => exact ⟨none, rfl⟩
      | some p =>
        have hp : p < st.objects.length := hv p (List.mem_of_getElem? hn)
        exact ⟨some st.objects[p], by simp [List.getElem?_eq_getElem hp]⟩
  unfold previousMono
  cases o.mono with
  | centre i => exact key st.centres i h.centres_lt
  | rim i => exact key st.rims i h.rims_lt
  | none => exact ⟨none, rfl⟩

theorem sameAsPrevNote_isSome (st : Store T) (h : st.WF) (o : DObj T) :
    ∃ b, sameAsPrevNote st o = some b := by
  obtain ⟨r, hr⟩ := previousNote_isSome st h o 0
  cases r with
  | none => exact ⟨false, by simp [sameAsPrevNote, hr]⟩
  | some prev => exact ⟨decide (o.kind = prev.kind), by simp [sameAsPrevNote, hr]⟩

theorem monoGo_spec (st : Store T) (h : st.WF) :
    ∀ (l : List (DObj T × Nat)) (cur : Mono), cur ≠ [] →
      ∃ ms, monoGo st l cur = some ms ∧ ms.flatten = cur ++ l.map (·.2) ∧ ∀ m ∈ ms, m ≠ []
  | [], cur, hc => ⟨[cur], rfl, by simp, by simpa using hc⟩
  | (o, p) :: rest, cur, hc => by
    obtain ⟨b, hb⟩ := sameAsPrevNote_isSome st h o
    cases b with
    | true =>
      obtain ⟨ms, h1, h2, h3⟩ := monoGo_spec st h rest (cur ++ [p]) (by simp)
      exact ⟨ms, by simp [monoGo, hb, h1], by simp [h2], h3⟩
    | false =>
      obtain ⟨ms, h1, h2, h3⟩ := monoGo_spec st h rest [p] (by simp)
      refine ⟨cur :: ms, by simp [monoGo, hb, h1], by simp [h2], ?_⟩
      intro m hm
      rcases List.mem_cons.mp hm with hm | hm
      · subst hm; exact hc
      · exact h3 m hm

/-- `encode_mono_streaks` never fails; the streaks are non-empty and partition the object
positions `0 … n-1` in order. -/
theorem encodeMono_spec (st : Store T) (h : st.WF) :
    ∃ ms, encodeMono st = some ms ∧ ms.flatten = List.range st.objects.length ∧ ∀ m ∈ ms, m ≠ [] := by
  unfold encodeMono
  cases hobj : st.objects with
  | nil => exact ⟨[], by simp, by simp, by simp⟩
  | cons o rest =>
    rw [List.zipIdx_cons]
    show ∃ ms, monoGo st (rest.zipIdx (0 + 1)) [0] = some ms ∧ _
    obtain ⟨ms, h1, h2, h3⟩ := monoGo_spec st h (rest.zipIdx (0 + 1)) [0] (by simp)
    refine ⟨ms, h1, ?_, h3⟩
    rw [h2]
    have := List.zipIdx_map_snd 1 rest
    simp only [Nat.zero_add]
    rw [show (fun (x : DObj T × Nat) => x.2) = Prod.snd from rfl, this]
    simp [List.range_eq_range', List.range'_succ]

/-! ### alternating mono patterns -/

theorem altGo_spec : ∀ (l : List Mono) (cur : Alt) (pl : Nat), cur ≠ [] → (∀ m ∈ cur, m.length = pl) →
    (altGo l cur pl).flatten = cur ++ l ∧ (∀ a ∈ altGo l cur pl, a ≠ []) ∧
      ∀ a ∈ altGo l cur pl, ∀ m ∈ a, ∀ m' ∈ a, m.length = m'.length
  | [], cur, pl, hc, hl => by
    refine ⟨by simp [altGo], by simpa [altGo] using hc, ?_⟩
    intro a ha m hm m' hm'
    simp [altGo] at ha
    subst ha
    rw [hl m hm, hl m' hm']
  | m0 :: rest, cur, pl, hc, hl => by
    unfold altGo
    by_cases hne : m0.length ≠ pl
    · rw [if_pos hne]
      obtain ⟨h1, h2, h3⟩ := altGo_spec rest [m0] m0.length (by simp) (by simp)
      refine ⟨by simp [h1], ?_, ?_⟩
      · intro a ha
        rcases List.mem_cons.mp ha with ha | ha
        · subst ha; exact hc
        · exact h2 a ha
      · intro a ha m hm m' hm'
        rcases List.mem_cons.mp ha with ha | ha
        · subst ha; rw [hl m hm, hl m' hm']
        · exact h3 a ha m hm m' hm'
    · rw [if_neg hne]
      have heq : m0.length = pl := by omega
      obtain ⟨h1, h2, h3⟩ := altGo_spec rest (cur ++ [m0]) m0.length (by simp)
        (by
          intro m hm
          rcases List.mem_append.mp hm with hm | hm
          · rw [hl m hm, heq]
          · simp at hm; rw [hm])
      exact ⟨by simp [h1], h2, h3⟩

/-- `encode_alternating_mono_pattern`: the patterns are non-empty, partition the streaks in order,
and each is a run of streaks of equal length. -/
theorem encodeAlt_spec (ms : List Mono) :
    (encodeAlt ms).flatten = ms ∧ (∀ a ∈ encodeAlt ms, a ≠ []) ∧
      ∀ a ∈ encodeAlt ms, ∀ m ∈ a, ∀ m' ∈ a, m.length = m'.length := by
  cases ms with
  | nil => simp [encodeAlt]
  | cons m rest =>
    obtain ⟨h1, h2, h3⟩ := altGo_spec rest [m] m.length (by simp) (by simp)
    exact ⟨by simpa [encodeAlt] using h1, by simpa [encodeAlt] using h2, by simpa [encodeAlt] using h3⟩

end Rosu.TaikoPre
