import RosuModel.Lemmas.TaikoPreColourAll
import RosuModel.Lemmas.TaikoPreRhythm
import RosuModel.Lemmas.TaikoPreRhythmLive
import RosuModel.Lemmas.TaikoPreLive

/-!
`preprocess` (= everything `create_difficulty_objects` builds) never fails, with the invariants of
all parts; plus a small exact arithmetic (`intArith`) for concrete witnesses.
-/

namespace Rosu.TaikoPre

variable {T : Type}

/-- The structural facts about the rhythm grouping of a store. -/
structure RhythmInv (st : Store T) (rgs : List (RGroup T)) (pgs : List (List Nat))
    (pgi : List (Option T)) (pgr : List T) (rh : List (Option (Nat × Nat))) : Prop where
  groups_partition : rgs.flatMap (·.members) = st.notes
  groups_nonempty : ∀ g ∈ rgs, g.members ≠ []
  patterns_partition : pgs.flatten = List.range rgs.length
  patterns_nonempty : ∀ pg ∈ pgs, pg ≠ []
  pgi_len : pgi.length = pgs.length
  pgr_len : pgr.length = pgs.length
  rhythm_len : rh.length = st.objects.length
  /-- exactly the notes carry rhythm data -/
  assigned : ∀ p (h : p < rh.length), rh[p].isSome = true ↔ p ∈ st.notes

theorem colourWindow_isSome (st : Store T) (h : st.WF) (o : DObj T) (ho : o ∈ st.objects) :
    ∃ w, colourWindow st o = some w ∧ w.2 < st.objects.length ∧ w.1 ≤ w.2 := by
  obtain ⟨k, hk⟩ := List.mem_iff_getElem?.mp ho
  have hidx := h.idx_eq k o hk
  have hlt := lt_of_getElem?_eq_some hk
  refine ⟨(o.idx - 128, o.idx), ?_, ?_, ?_⟩
  · unfold colourWindow; rw [if_pos (by omega)]
  · simp; omega
  · simp

theorem prevColourChange_isSome (st : Store T) (h : st.WF) (reps : List Rep) (c : ColourOf) (mono : Mono)
    (hm : monoOf reps c = some mono) (hv : ∀ q ∈ mono, q < st.objects.length) :
    ∃ r, prevColourChange st reps c = some r := by
  unfold prevColourChange
  simp only [hm, Option.bind_eq_bind, Option.bind_some]
  cases hh : mono.head? with
  | none => exact ⟨none, rfl⟩
  | some f =>
    have hf : f < st.objects.length := hv f (List.mem_of_head? hh)
    obtain ⟨r, hr⟩ := previousNote_isSome st h st.objects[f] 0
    exact ⟨r, by simp [List.getElem?_eq_getElem hf, hr]⟩

theorem nextColourChange_isSome (st : Store T) (h : st.WF) (reps : List Rep) (c : ColourOf) (mono : Mono)
    (hm : monoOf reps c = some mono) (hv : ∀ q ∈ mono, q < st.objects.length) :
    ∃ r, nextColourChange st reps c = some r := by
  unfold nextColourChange
  simp only [hm, Option.bind_eq_bind, Option.bind_some]
  cases hh : mono.getLast? with
  | none => exact ⟨none, rfl⟩
  | some l =>
    have hl : l < st.objects.length := hv l (List.mem_of_getLast? hh)
    obtain ⟨r, hr⟩ := nextNote_isSome st h st.objects[l] 0
    exact ⟨r, by simp [List.getElem?_eq_getElem hl, hr]⟩

/-- The evaluator-time lookups never fail: the colour data of every object leads to an existing
streak whose first / last hit object can be dereferenced. -/
theorem lookupsOf_spec (st : Store T) (h : st.WF) (monos : List Mono) (alts : List Alt) (reps : List Rep)
    (ivs : List Nat) (colour : List ColourOf) (hci : ColourInv st monos alts reps ivs colour) :
    ∃ ls, lookupsOf st reps colour = some ls ∧ ls.length = st.objects.length := by
  unfold lookupsOf
  obtain ⟨ls, h1, h2⟩ := mapM_option_some (fun (op : DObj T × Nat) => do
      let c ← colour[op.2]?
      let a ← previousNote st op.1 0
      let b ← nextNote st op.1 0
      let d ← previousMono st op.1 0
      let e ← previousMono st op.1 1
      let f ← prevColourChange st reps c
      let g ← nextColourChange st reps c
      some ([a, b, d, e, f, g].map fun x => x.map (·.idx))) st.objects.zipIdx (by
    intro op hop
    have hget := List.mem_zipIdx_iff_getElem?.mp hop
    have hp : op.2 < st.objects.length := lt_of_getElem?_eq_some hget
    have hlt : op.2 < colour.length := by rw [hci.colour_len]; exact hp
    have hc : colour[op.2]? = some colour[op.2] := List.getElem?_eq_getElem hlt
    obtain ⟨rep, alt, mono, r1, r2, r3, _⟩ := hci.colour_points _ _ hc
    have hm : monoOf reps colour[op.2] = some mono := by
      simp [monoOf, r1, r2, r3]
    have hv : ∀ q ∈ mono, q < st.objects.length :=
      hci.positions_valid rep (List.mem_of_getElem? r1) alt (List.mem_of_getElem? r2) mono
        (List.mem_of_getElem? r3)
    obtain ⟨a, ha⟩ := previousNote_isSome st h op.1 0
    obtain ⟨b, hb⟩ := nextNote_isSome st h op.1 0
    obtain ⟨d, hd⟩ := previousMono_isSome st h op.1 0
    obtain ⟨e, he⟩ := previousMono_isSome st h op.1 1
    obtain ⟨f, hf⟩ := prevColourChange_isSome st h reps _ mono hm hv
    obtain ⟨g, hg⟩ := nextColourChange_isSome st h reps _ mono hm hv
    refine ⟨[a, b, d, e, f, g].map fun x => x.map (·.idx), ?_⟩
    simp only [hc, ha, hb, hd, he, hf, hg, Option.bind_eq_bind, Option.bind_some])
  exact ⟨ls, h1, by simpa using h2⟩

/-- All invariants of a preprocessed structure. -/
structure PreInv (objs : List (Obj T)) (p : Pre T) : Prop where
  wf : p.store.WF
  n_objects : p.store.objects.length = objs.length - 2
  kinds : p.store.objects.map (·.kind) = (objs.drop 2).map (·.kind)
  colour : ColourInv p.store p.monos p.alts p.reps p.repIntervals p.colour
  rhythm : RhythmInv p.store p.rgroups p.pgroups p.pgInterval p.pgRatio p.rhythm
  windows_len : p.windows.length = p.store.objects.length
  lookups_len : p.lookups.length = p.store.objects.length

/-- `create_difficulty_objects` never fails, whatever the objects, the clock rate and the
arithmetic. -/
theorem preprocess_spec (A : Arith T) (clock : T) (objs : List (Obj T)) :
    ∃ p, preprocess A clock objs = some p ∧ PreInv objs p := by
  obtain ⟨st, hb, hwf, hlen, hkinds⟩ := build_spec A clock objs
  obtain ⟨monos, alts, reps, ivs, colour, hc, hci⟩ := colourOf_spec st hwf
  obtain ⟨rgs, pgs, pgi, pgr, rh, hr, r1, r2, r3, r4, r5, r6, r7, r8⟩ :=
    rhythmOf_full A st hwf.notes_lt
  obtain ⟨ws, hw, hwl⟩ := mapM_option_some (colourWindow st) st.objects
    (fun o ho => by obtain ⟨w, hw, _⟩ := colourWindow_isSome st hwf o ho; exact ⟨w, hw⟩)
  obtain ⟨ls, hl, hll⟩ := lookupsOf_spec st hwf monos alts reps ivs colour hci
  refine ⟨⟨st, monos, alts, reps, ivs, colour, rgs, pgs, pgi, pgr, rh, ws, ls⟩, ?_, ?_⟩
  · simp only [preprocess, hb, hc, hr, hw, hl, Option.bind_eq_bind, Option.bind_some]
  · exact ⟨hwf, hlen, hkinds, hci, ⟨r1, r2, r3, r4, r5, r6, r7, r8⟩, hwl, hll⟩

/-- The parts of a preprocessed structure are what the three stages return. -/
theorem preprocess_parts (A : Arith T) (clock : T) (objs : List (Obj T)) (p : Pre T)
    (h : preprocess A clock objs = some p) :
    build A clock objs = some p.store ∧
    colourOf p.store = some (p.monos, p.alts, p.reps, p.repIntervals, p.colour) ∧
    rhythmOf A p.store = some (p.rgroups, p.pgroups, p.pgInterval, p.pgRatio, p.rhythm) := by
  unfold preprocess at h
  cases hb : build A clock objs with
  | none => simp [hb] at h
  | some st =>
    cases hc : colourOf st with
    | none => simp [hb, hc] at h
    | some c =>
      obtain ⟨monos, alts, reps, ivs, colour⟩ := c
      cases hr : rhythmOf A st with
      | none => simp [hb, hc, hr] at h
      | some r =>
        obtain ⟨rgs, pgs, pgi, pgr, rh⟩ := r
        cases hw : st.objects.mapM (colourWindow st) with
        | none => simp [hb, hc, hr, hw] at h
        | some ws =>
          cases hl : lookupsOf st reps colour with
          | none => simp [hb, hc, hr, hw, hl] at h
          | some ls =>
            simp [hb, hc, hr, hw, hl] at h
            subst h
            exact ⟨rfl, hc, hr⟩

/-- **Liveness**: every repeating hit pattern, every rhythm group and every pattern group is
referenced by at least one difficulty object (in the code: held by a strong `RefCount` in that
object's `color_data` / `rhythm_data`), and an object's rhythm data points at the groups containing
it. -/
theorem preprocess_live (A : Arith T) (clock : T) (objs : List (Obj T)) (p : Pre T)
    (h : preprocess A clock objs = some p) :
    (∀ k : Nat, k < p.reps.length → ∃ q : Nat, ∃ c : ColourOf, p.colour[q]? = some c ∧ c.1 = k) ∧
    (∀ q g r : Nat, p.rhythm[q]? = some (some (g, r)) →
      (∃ rg : RGroup T, p.rgroups[g]? = some rg ∧ q ∈ rg.members) ∧
        (∃ pg : List Nat, p.pgroups[r]? = some pg ∧ g ∈ pg)) ∧
    (∀ g : Nat, g < p.rgroups.length → ∃ q r : Nat, p.rhythm[q]? = some (some (g, r))) ∧
    (∀ r : Nat, r < p.pgroups.length → ∃ q g : Nat, p.rhythm[q]? = some (some (g, r))) := by
  obtain ⟨p', hp', hi⟩ := preprocess_spec A clock objs
  rw [h] at hp'; cases hp'
  obtain ⟨_, _, hr⟩ := preprocess_parts A clock objs p h
  have hnd : p.store.notes.Nodup :=
    List.Pairwise.imp (fun hlt => Nat.ne_of_lt hlt) hi.wf.notes_sorted
  obtain ⟨rgs, pgs, pgi, pgr, rh, hr', s1, l1, l2⟩ := rhythmOf_live A p.store hi.wf.notes_lt hnd
  rw [hr] at hr'
  simp only [Option.some.injEq, Prod.mk.injEq] at hr'
  obtain ⟨e1, e2, _, _, e5⟩ := hr'
  subst e1 e2 e5
  exact ⟨fun k hk => every_rep_is_held hi.colour k hk, s1, l1, l2⟩

/-- Exact integer arithmetic (times in ms, truncating division) for concrete witnesses. -/
def intArith : Arith Int where
  ofNat n := n
  add := (· + ·)
  sub := (· - ·)
  div a b := a / b
  abs a := a.natAbs
  le a b := decide (a ≤ b)
  lt a b := decide (a < b)
  totalLe a b := decide (a ≤ b)
  inf := 1000000000

end Rosu.TaikoPre
