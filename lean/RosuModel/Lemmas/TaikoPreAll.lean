import RosuModel.Lemmas.TaikoPreColourAll
import RosuModel.Lemmas.TaikoPreRhythm

/-!
`preprocess` (= everything `create_difficulty_objects` builds) never fails, with the invariants of
all parts; plus a small exact arithmetic (`intArith`) for concrete witnesses.
-/

namespace Rosu.TaikoPre

variable {T : Type}

/-- The structural facts about the rhythm grouping of a store. -/
structure RhythmInv (st : Store T) (rgs : List (RGroup T)) (pgs : List (List Nat))
    (pgi : List (Option T)) (pgr : List T) (rh : List (Option (Nat × Nat))) : Prop where
  groups_partition : rgs.flatMap (·.members) = st.notes
  groups_nonempty : ∀ g ∈ rgs, g.members ≠ []
  patterns_partition : pgs.flatten = List.range rgs.length
  patterns_nonempty : ∀ pg ∈ pgs, pg ≠ []
  pgi_len : pgi.length = pgs.length
  pgr_len : pgr.length = pgs.length
  rhythm_len : rh.length = st.objects.length
  /-- exactly the notes carry rhythm data -/
  assigned : ∀ p (h : p < rh.length), rh[p].isSome = true ↔ p ∈ st.notes

theorem colourWindow_isSome (st : Store T) (h : st.WF) (o : DObj T) (ho : o ∈ st.objects) :
    ∃ w, colourWindow st o = some w ∧ w.2 < st.objects.length ∧ w.1 ≤ w.2 := by
  obtain ⟨k, hk⟩ := List.mem_iff_getElem?.mp ho
  have hidx := h.idx_eq k o hk
  have hlt := lt_of_getElem?_eq_some hk
  refine ⟨(o.idx - 128, o.idx), ?_, ?_, ?_⟩
  · unfold colourWindow; rw [if_pos (by omega)]
  · simp; omega
  · simp

/-- All invariants of a preprocessed structure. -/
structure PreInv (objs : List (Obj T)) (p : Pre T) : Prop where
  wf : p.store.WF
  n_objects : p.store.objects.length = objs.length - 2
  kinds : p.store.objects.map (·.kind) = (objs.drop 2).map (·.kind)
  colour : ColourInv p.store p.monos p.alts p.reps p.repIntervals p.colour
  rhythm : RhythmInv p.store p.rgroups p.pgroups p.pgInterval p.pgRatio p.rhythm
  windows_len : p.windows.length = p.store.objects.length

/-- `create_difficulty_objects` never fails, whatever the objects, the clock rate and the
arithmetic. -/
theorem preprocess_spec (A : Arith T) (clock : T) (objs : List (Obj T)) :
    ∃ p, preprocess A clock objs = some p ∧ PreInv objs p := by
  obtain ⟨st, hb, hwf, hlen, hkinds⟩ := build_spec A clock objs
  obtain ⟨monos, alts, reps, ivs, colour, hc, hci⟩ := colourOf_spec st hwf
  obtain ⟨rgs, pgs, pgi, pgr, rh, hr, r1, r2, r3, r4, r5, r6, r7, r8⟩ :=
    rhythmOf_full A st hwf.notes_lt
  obtain ⟨ws, hw, hwl⟩ := mapM_option_some (colourWindow st) st.objects
    (fun o ho => by obtain ⟨w, hw, _⟩ := colourWindow_isSome st hwf o ho; exact ⟨w, hw⟩)
  refine ⟨⟨st, monos, alts, reps, ivs, colour, rgs, pgs, pgi, pgr, rh, ws⟩, ?_, ?_⟩
  · simp only [preprocess, hb, hc, hr, hw, Option.bind_eq_bind, Option.bind_some]
  · exact ⟨hwf, hlen, hkinds, hci, ⟨r1, r2, r3, r4, r5, r6, r7, r8⟩, hwl⟩

/-- Exact integer arithmetic (times in ms, truncating division) for concrete witnesses. -/
def intArith : Arith Int where
  ofNat n := n
  add := (· + ·)
  sub := (· - ·)
  div a b := a / b
  abs a := a.natAbs
  le a b := decide (a ≤ b)
  lt a b := decide (a < b)
  totalLe a b := decide (a ≤ b)
  inf := 1000000000

end Rosu.TaikoPre
