import RosuModel.Model.OsuSkill
import RosuModel.Lemmas.PerfCalcOsu3

/-! osu! difficulty objects over ℝ: the floors the constructor establishes, and the object list. -/

namespace Rosu.PerfCalc
open PPOps

theorem minDeltaTime_eq : (minDeltaTime : ℝ) = 25 := by unfold minDeltaTime; norm_num

theorem p2_length_nonneg (a : P2 ℝ) : 0 ≤ a.length := by
  unfold P2.length; simp only [r_r32, r_sqrt]; exact Real.sqrt_nonneg _

/-- what is assumed of a raw object: the accumulated lazy travel distance is not negative -/
structure RawOK (o : RawObj ℝ) : Prop where
  ltd_nonneg : 0 ≤ o.lazyTravelDist

/-- the floors and signs every constructed difficulty object satisfies -/
structure Floors (d : DiffObj ℝ) : Prop where
  strain : 25 ≤ d.strainTime
  ljd : 0 ≤ d.lazyJumpDist
  mjd : 0 ≤ d.minJumpDist
  td : 0 ≤ d.travelDist
  tt : d.base.isSlider = true → 25 ≤ d.travelTime
  tt0 : 0 ≤ d.travelTime
  mjt : 0 ≤ d.minJumpTime

theorem sliderTravelDist_nonneg (o : RawObj ℝ) (h : RawOK o) : 0 ≤ sliderTravelDist o := by
  unfold sliderTravelDist
  simp only [r_r32, r_mul, r_powf]
  exact mul_nonneg h.ltd_nonneg (Real.rpow_nonneg (by
    simp only [r_add, r_div, r_ofNat]
    have : (0 : ℝ) ≤ (o.repeatCount : ℝ) / 2.5 := div_nonneg (Nat.cast_nonneg _) (by norm_num)
    have h1 : (0 : ℝ) ≤ 1.0 := by norm_num
    linarith) _)

theorem flooredTravelTime_ge (o : RawObj ℝ) (clock : ℝ) : 25 ≤ flooredTravelTime o clock := by
  unfold flooredTravelTime
  simp only [r_fmax]; rw [minDeltaTime_eq]; exact le_max_right _ _

/-- `OsuDifficultyObject::new`: `strain_time ≥ 25`; a slider's `travel_time ≥ 25` (set before the spinner
early return); distances `≥ 0`; `min_jump_time ≥ 25` unless the object or its predecessor is a spinner -/
theorem mkDiffObj_spec (hit last : RawObj ℝ) (ll : Option (RawObj ℝ)) (clock : ℝ) (idx : Nat) (sf : ℝ)
    (h : RawOK hit) :
    Floors (mkDiffObj hit last ll clock idx sf)
      ∧ (mkDiffObj hit last ll clock idx sf).base = hit ∧ (mkDiffObj hit last ll clock idx sf).idx = idx
      ∧ (hit.isSpinner = false → last.isSpinner = false → 25 ≤ (mkDiffObj hit last ll clock idx sf).minJumpTime) := by
  have hst : (25 : ℝ) ≤ fmax ((hit.startTime - last.startTime) / clock) minDeltaTime := by
    simp only [r_fmax]; rw [minDeltaTime_eq]; exact le_max_right _ _
  have htd : (0 : ℝ) ≤ (if hit.isSlider = true then sliderTravelDist hit else 0.0) := by
    split_ifs
    · exact sliderTravelDist_nonneg hit h
    · norm_num
  have htt : hit.isSlider = true → (25 : ℝ) ≤ (if hit.isSlider = true then flooredTravelTime hit clock else 0.0) := by
    intro hs; rw [if_pos hs]; exact flooredTravelTime_ge hit clock
  have h00 : (0 : ℝ) ≤ 0.0 := by norm_num
  have htt0 : (0 : ℝ) ≤ (if hit.isSlider = true then flooredTravelTime hit clock else 0.0) := by
    split_ifs
    · exact le_trans (by norm_num) (flooredTravelTime_ge hit clock)
    · norm_num
  have hst0 : (0 : ℝ) ≤ fmax ((hit.startTime - last.startTime) / clock) minDeltaTime :=
    le_trans (by norm_num) hst
  unfold mkDiffObj
  by_cases hsp : (hit.isSpinner || last.isSpinner) = true
  · simp only [hsp, if_true]
    refine ⟨⟨hst, h00, h00, htd, htt, htt0, h00⟩, trivial, trivial, ?_⟩
    intro h1 h2; rw [h1, h2] at hsp; exact absurd hsp (by simp)
  · simp only [hsp, if_false, Bool.false_eq_true]
    by_cases hls : last.isSlider = true
    · simp only [hls, if_true]
      refine ⟨⟨hst, p2_length_nonneg _, ?_, htd, htt, htt0, ?_⟩, trivial, trivial, ?_⟩
      · simp only [r_fmax]; exact le_trans h00 (le_max_right _ _)
      · simp only [r_fmax]; rw [minDeltaTime_eq]; exact le_trans (by norm_num) (le_max_right _ _)
      · intro _ _
        simp only [r_fmax]; rw [minDeltaTime_eq]; exact le_max_right _ _
    · simp only [hls, if_false, Bool.false_eq_true]
      exact ⟨⟨hst, p2_length_nonneg _, p2_length_nonneg _, htd, htt, htt0, hst0⟩, trivial, trivial, fun _ _ => hst⟩

/-! ### the list of difficulty objects -/

/-- a well-formed difficulty-object list: what `create_difficulty_objects` produces -/
structure ListOK (ds : List (DiffObj ℝ)) : Prop where
  idx : ∀ (i : Nat) (d : DiffObj ℝ), ds[i]? = some d → d.idx = i
  floors : ∀ (i : Nat) (d : DiffObj ℝ), ds[i]? = some d → Floors d
  raw : ∀ (i : Nat) (d : DiffObj ℝ), ds[i]? = some d → RawOK d.base
  jump : ∀ (i : Nat) (d p : DiffObj ℝ), ds[i + 1]? = some d → ds[i]? = some p → d.base.isSpinner = false →
    p.base.isSpinner = false → 25 ≤ d.minJumpTime

theorem createDiffObjsFrom_spec (clock sf : ℝ) :
    ∀ (rest : List (RawObj ℝ)) (ll : Option (RawObj ℝ)) (last : RawObj ℝ) (i : Nat),
      (∀ r ∈ rest, RawOK r) →
      (∀ (k : Nat) (d : DiffObj ℝ), (createDiffObjsFrom clock sf ll last i rest)[k]? = some d →
          d.idx = i + k ∧ Floors d ∧ RawOK d.base)
      ∧ (∀ d : DiffObj ℝ, (createDiffObjsFrom clock sf ll last i rest)[0]? = some d →
          d.base.isSpinner = false → last.isSpinner = false → 25 ≤ d.minJumpTime)
      ∧ (∀ (k : Nat) (d p : DiffObj ℝ), (createDiffObjsFrom clock sf ll last i rest)[k + 1]? = some d →
          (createDiffObjsFrom clock sf ll last i rest)[k]? = some p →
          d.base.isSpinner = false → p.base.isSpinner = false → 25 ≤ d.minJumpTime) := by
  intro rest
  induction rest with
  | nil =>
    intro ll last i _
    simp [createDiffObjsFrom]
  | cons h rest ih =>
    intro ll last i hr
    have hh : RawOK h := hr h (by simp)
    have hrest : ∀ r ∈ rest, RawOK r := fun r hx => hr r (by simp [hx])
    obtain ⟨i1, i2, i3⟩ := ih (some last) h (i + 1) hrest
    obtain ⟨s1, s2, s3, s4⟩ := mkDiffObj_spec h last ll clock i sf hh
    simp only [createDiffObjsFrom]
    refine ⟨?_, ?_, ?_⟩
    · intro k d hk
      cases k with
      | zero =>
        simp only [List.getElem?_cons_zero, Option.some.injEq] at hk
        subst hk
        exact ⟨by rw [s3]; rfl, s1, by rw [s2]; exact hh⟩
      | succ k =>
        simp only [List.getElem?_cons_succ] at hk
        obtain ⟨a, b, c⟩ := i1 k d hk
        exact ⟨by omega, b, c⟩
    · intro d hd
      simp only [List.getElem?_cons_zero, Option.some.injEq] at hd
      subst hd
      intro e1 e2
      rw [s2] at e1
      exact s4 e1 e2
    · intro k d p hd hp
      simp only [List.getElem?_cons_succ] at hd
      cases k with
      | zero =>
        simp only [List.getElem?_cons_zero, Option.some.injEq] at hp
        subst hp
        intro e1 e2
        rw [s2] at e2
        exact i2 d hd e1 e2
      | succ k =>
        simp only [List.getElem?_cons_succ] at hp
        exact i3 k d p hd hp

/-- every list `create_difficulty_objects` builds from raw objects with non-negative lazy travel
distances is well-formed — for every clock rate and scaling factor -/
theorem createDiffObjs_listOK (raws : List (RawObj ℝ)) (clock sf : ℝ) (hr : ∀ r ∈ raws, RawOK r) :
    ListOK (createDiffObjs raws clock sf) := by
  unfold createDiffObjs
  cases raws with
  | nil => exact ⟨by simp, by simp, by simp, by simp⟩
  | cons first rest =>
    obtain ⟨a, _, c⟩ := createDiffObjsFrom_spec clock sf rest none first 0 (fun r hx => hr r (by simp [hx]))
    exact ⟨fun i d h => by have := (a i d h).1; omega, fun i d h => (a i d h).2.1,
      fun i d h => (a i d h).2.2, c⟩

end Rosu.PerfCalc
