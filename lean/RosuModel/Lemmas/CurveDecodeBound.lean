import RosuModel.Lemmas.PipelineBytes
import RosuModel.Lemmas.DecodeLineCurve
import RosuModel.Lemmas.DecodeLineFields
import RosuModel.Lemmas.DecodeLineDriver

/-!
Every control point of every slider of a decoded file is an offset of magnitude `≤ 262144`:
a stored control point is `read_point(v) - pos` with both `read_point(v)` and `pos` inside
`[-131072, 131072]` (or the literal `(0, 0)` head).  Stale points of rejected lines stay in
`curve_points` and are collected by the next accepted slider; they were read against ANOTHER
slider position, but the bound does not mention the position, so the invariant simply covers the
buffer `HState.curve` as well.
-/

namespace Rosu.PipelineCurve
open Rosu.DecodeLine Rosu.Decode Rosu.PipelineBytes

def CPBounded (c : CP) : Prop :=
  (-262144 ≤ c.x ∧ c.x ≤ 262144) ∧ (-262144 ≤ c.y ∧ c.y ≤ 262144)

def AllB (l : List CP) : Prop := ∀ c ∈ l, CPBounded c

/-- every slider kind carries bounded control points -/
def KindB (k : Kind) : Prop := ∀ r len ns cps, k = .slider r len ns cps → AllB cps

/-- the invariant of the hit-object state: the (possibly stale) buffer and all stored sliders -/
def HInv (st : HState) : Prop := AllB st.curve ∧ ∀ o ∈ st.objects, KindB o.kind

theorem AllB.nil : AllB [] := fun _ h => by cases h

theorem AllB.append {a b : List CP} (ha : AllB a) (hb : AllB b) : AllB (a ++ b) := by
  intro c hc
  rcases List.mem_append.1 hc with h | h
  · exact ha c h
  · exact hb c h

theorem slice?_allB {l sl : List CP} {a b : Nat} (h : slice? l a b = some sl) (hl : AllB l) :
    AllB sl := by
  unfold slice? at h
  split at h
  · injection h with h
    subst h
    intro c hc
    exact hl c (List.mem_of_mem_drop (List.mem_of_mem_take hc))
  · cases h

theorem set_allB {l : List CP} (hl : AllB l) (i : Nat) (b : CP) (hb : CPBounded b) :
    AllB (l.set i b) := by
  intro c hc
  rcases List.mem_or_eq_of_mem_set hc with h | h
  · exact hl c h
  · subst h; exact hb

/-! ## reading points -/

theorem readPoint_cpb (v : Str) (ox oy : Int) (c : CP)
    (hx : -131072 ≤ ox ∧ ox ≤ 131072) (hy : -131072 ≤ oy ∧ oy ≤ 131072)
    (h : readPoint v ox oy = .ok c) : CPBounded c := by
  have := readPoint_bound v ox oy c h
  unfold CPBounded
  omega

theorem readPoints_cpb (ox oy : Int)
    (hx : -131072 ≤ ox ∧ ox ≤ 131072) (hy : -131072 ≤ oy ∧ oy ≤ 131072) :
    ∀ (ps : List Str) (cs : List CP), readPoints ox oy ps = .ok cs → AllB cs := by
  intro ps
  induction ps with
  | nil =>
    intro cs h
    unfold readPoints at h
    injection h with h
    subst h
    exact AllB.nil
  | cons p ps ih =>
    intro cs h
    unfold readPoints at h
    cases h1 : readPoint p ox oy with
    | error e => rw [h1] at h; cases h
    | ok c =>
      rw [h1] at h
      simp only [] at h
      cases h2 : readPoints ox oy ps with
      | error e => rw [h2] at h; cases h
      | ok cs' =>
        rw [h2] at h
        injection h with h
        subst h
        intro d hd
        rcases List.mem_cons.1 hd with rfl | hd
        · exact readPoint_cpb p ox oy _ hx hy h1
        · exact ih cs' h2 d hd

theorem endVertex_cpb (ep : Option Str) (ox oy : Int)
    (hx : -131072 ≤ ox ∧ ox ≤ 131072) (hy : -131072 ≤ oy ∧ oy ≤ 131072)
    (ev : List CP) (h : endVertex ep ox oy = .ok ev) : AllB ev := by
  unfold endVertex at h
  cases ep with
  | none =>
    injection h with h
    subst h
    exact AllB.nil
  | some s =>
    simp only [] at h
    cases h1 : readPoint s ox oy with
    | error e => rw [h1] at h; cases h
    | ok c =>
      rw [h1] at h
      injection h with h
      subst h
      intro d hd
      rcases List.mem_cons.1 hd with rfl | hd
      · exact readPoint_cpb s ox oy _ hx hy h1
      · cases hd

theorem cpVerts_allB (first : Bool) {vs ev : List CP} (hvs : AllB vs) (hev : AllB ev) :
    AllB (cpVerts first vs ev) := by
  unfold cpVerts
  refine AllB.append (AllB.append ?_ hvs) hev
  cases first with
  | false => exact AllB.nil
  | true =>
    intro c hc
    rcases List.mem_cons.1 hc with rfl | hc
    · unfold CPBounded; simp
    · cases hc

/-! ## the segment loop -/

theorem cpLoop_allB (pt : PT) (n : Nat) : ∀ (fuel : Nat) (verts : List CP) (start e0 : Nat)
    (curve : List CP) (r : List CP × Nat × Nat × List CP), AllB verts → AllB curve →
    cpLoop pt n fuel verts start e0 curve = .ok r → AllB r.1 ∧ AllB r.2.2.2 := by
  intro fuel
  induction fuel with
  | zero =>
    intro verts start e0 curve r hv hc h
    unfold cpLoop at h
    cases h
  | succ f ih =>
    intro verts start e0 curve r hv hc h
    unfold cpLoop at h
    simp only [] at h
    by_cases he : e0 + 1 < n
    · simp only [he, if_true] at h
      cases h1 : verts[e0 + 1]? with
      | none => rw [h1] at h; cases h
      | some a =>
        cases h2 : verts[e0 + 1 - 1]? with
        | none => rw [h1, h2] at h; cases h
        | some b =>
          rw [h1, h2] at h
          simp only [] at h
          split at h
          · exact ih _ _ _ _ _ hv hc h
          · split at h
            · exact ih _ _ _ _ _ hv hc h
            · split at h
              · cases h
              · split at h
                · exact ih _ _ _ _ _ hv hc h
                · have hb : CPBounded { b with ty := some pt } := hv b (List.mem_of_getElem? h2)
                  have hv' := set_allB hv (e0 + 1 - 1) { b with ty := some pt } hb
                  cases hs : slice? (verts.set (e0 + 1 - 1) { b with ty := some pt }) start (e0 + 1) with
                  | none => rw [hs] at h; cases h
                  | some sl =>
                    rw [hs] at h
                    simp only [] at h
                    exact ih _ _ _ _ _ hv' (hc.append (slice?_allB hs hv')) h
    · simp only [he, if_false] at h
      injection h with h
      subst h
      exact ⟨hv, hc⟩

theorem cpTail_allB (curve verts : List CP) (epl : Nat) (pt : PT) (hc : AllB curve) (hv : AllB verts) :
    AllB (cpTail curve verts epl pt).1 := by
  unfold cpTail
  by_cases h : verts.length < epl
  · simp only [h, if_true]; exact hc
  · simp only [h, if_false]
    cases hl : cpLoop pt (verts.length - epl) (verts.length - epl + 1) verts 0 0 curve with
    | error e => exact hc
    | ok r =>
      obtain ⟨v', s', e', cv⟩ := r
      obtain ⟨h1, h2⟩ := cpLoop_allB _ _ _ _ _ _ _ _ hv hc hl
      simp only []
      by_cases hes : e' > s'
      · simp only [hes, if_true]
        cases hs : slice? v' s' e' with
        | none => exact hc
        | some sl => exact h2.append (slice?_allB hs h1)
      · simp only [hes, if_false]; exact h2

theorem convertPoints_allB (curve : List CP) (points : List Str) (ep : Option Str) (first : Bool)
    (ox oy : Int) (hx : -131072 ≤ ox ∧ ox ≤ 131072) (hy : -131072 ≤ oy ∧ oy ≤ 131072)
    (hc : AllB curve) : AllB (convertPoints curve points ep first ox oy).1 := by
  unfold convertPoints
  cases points with
  | nil => exact hc
  | cons tyStr pts =>
    simp only []
    cases hr : readPoints ox oy pts with
    | error e => exact hc
    | ok vs =>
      simp only []
      cases hev : endVertex ep ox oy with
      | error e => exact hc
      | ok ev =>
        simp only []
        have hall := cpVerts_allB first (readPoints_cpb ox oy hx hy pts vs hr)
          (endVertex_cpb ep ox oy hx hy ev hev)
        cases hcv : cpVerts first vs ev with
        | nil => exact hc
        | cons v rest =>
          rw [hcv] at hall
          refine cpTail_allB _ _ _ _ hc ?_
          intro c hm
          rcases List.mem_cons.1 hm with rfl | hm
          · exact hall v List.mem_cons_self
          · exact hall c (List.mem_cons_of_mem _ hm)

theorem pathLoop_allB (ps : List Str) (ox oy : Int)
    (hx : -131072 ≤ ox ∧ ox ≤ 131072) (hy : -131072 ≤ oy ∧ oy ≤ 131072) :
    ∀ (fuel start e0 : Nat) (first : Bool) (curve : List CP), AllB curve →
    AllB (pathLoop ps ox oy fuel start e0 first curve).1 := by
  intro fuel
  induction fuel with
  | zero => intro start e0 first curve hc; exact hc
  | succ f ih =>
    intro start e0 first curve hc
    unfold pathLoop
    simp only []
    by_cases he : e0 + 1 < ps.length
    · simp only [he, if_true]
      cases ps[e0 + 1]? with
      | none => exact hc
      | some piece =>
        simp only []
        cases piece.head? with
        | none => exact hc
        | some ch =>
          simp only []
          by_cases hl : (!isAsciiAlpha ch) = true
          · simp only [hl, if_true]
            exact ih _ _ _ _ hc
          · simp only [hl]
            cases slice? ps start (e0 + 1) with
            | none => exact hc
            | some seg =>
              simp only []
              have hcp := convertPoints_allB curve seg ps[e0 + 1 + 1]? first ox oy hx hy hc
              cases hcp' : convertPoints curve seg ps[e0 + 1 + 1]? first ox oy with
              | mk curve' r =>
                rw [hcp'] at hcp
                cases r with
                | error err => exact hcp
                | ok u => exact ih _ _ _ _ hcp
    · simp only [he, if_false]
      exact hc

theorem convertPathStr_allB (curve : List CP) (s : Str) (ox oy : Int)
    (hx : -131072 ≤ ox ∧ ox ≤ 131072) (hy : -131072 ≤ oy ∧ oy ≤ 131072) (hc : AllB curve) :
    AllB (convertPathStr curve s ox oy).1 := by
  unfold convertPathStr
  simp only []
  have hp := pathLoop_allB (splitC '|' s) ox oy hx hy ((splitC '|' s).length + 1) 0 0 true curve hc
  cases hpl : pathLoop (splitC '|' s) ox oy ((splitC '|' s).length + 1) 0 0 true curve with
  | mk curve' r =>
    rw [hpl] at hp
    cases r with
    | error e => exact hp
    | ok t =>
      obtain ⟨start, e, first⟩ := t
      simp only []
      by_cases hes : e > start
      · simp only [hes, if_true]
        cases slice? (splitC '|' s) start e with
        | none => exact hp
        | some seg => exact convertPoints_allB _ _ _ _ _ _ hx hy hp
      · simp only [hes, if_false]
        exact hp

/-! ## kinds -/

theorem parseSlider_allB (curve : List CP) (x y : Int) (sound : Nat) (ps rs : Str) (rest2 : List Str)
    (hx : -131072 ≤ x ∧ x ≤ 131072) (hy : -131072 ≤ y ∧ y ≤ 131072) (hc : AllB curve) :
    AllB (parseSlider curve x y sound ps rs rest2).1 ∧
    ∀ k snd, (parseSlider curve x y sound ps rs rest2).2 = .ok (k, snd) → KindB k := by
  unfold parseSlider
  cases parseI32 rs with
  | error e => exact ⟨hc, fun k snd h => by cases h⟩
  | ok reps =>
    simp only []
    by_cases h9 : reps > repeatCap
    · simp only [h9, if_true]
      exact ⟨hc, fun k snd h => by cases h⟩
    · simp only [h9, if_false]
      cases repeatsOf reps with
      | none => exact ⟨hc, fun k snd h => by cases h⟩
      | some repeats =>
        simp only []
        cases sliderLen rest2.head? with
        | error e => exact ⟨hc, fun k snd h => by cases h⟩
        | ok len =>
          simp only []
          cases parseCustomSound rest2[3]? sound with
          | error e => exact ⟨hc, fun k snd h => by cases h⟩
          | ok snd' =>
            simp only []
            have hp := convertPathStr_allB curve ps x y hx hy hc
            cases hcp : convertPathStr curve ps x y with
            | mk curve' r =>
              rw [hcp] at hp
              cases r with
              | error e => exact ⟨hp, fun k snd h => by cases h⟩
              | ok u =>
                refine ⟨AllB.nil, ?_⟩
                intro k snd h
                injection h with h
                injection h with hk _
                subst hk
                intro r' len' ns' cps' hk
                injection hk with _ _ _ h4
                subst h4
                exact hp

theorem parseCircle_kindB (sound : Nat) (rest : List Str) (k : Kind) (snd : Nat)
    (h : parseCircle sound rest = .ok (k, snd)) : KindB k := by
  intro r len ns cps hk
  subst hk
  unfold parseCircle at h
  repeat' split at h
  all_goals cases h

theorem parseSpinner_kindB (time sound : Nat) (rest : List Str) (k : Kind) (snd : Nat)
    (h : parseSpinner time sound rest = .ok (k, snd)) : KindB k := by
  intro r len ns cps hk
  subst hk
  unfold parseSpinner at h
  repeat' split at h
  all_goals cases h

theorem parseHold_kindB (time sound : Nat) (rest : List Str) (k : Kind) (snd : Nat)
    (h : parseHold time sound rest = .ok (k, snd)) : KindB k := by
  intro r len ns cps hk
  subst hk
  unfold parseHold at h
  repeat' split at h
  all_goals cases h

theorem parseKind_allB (curve : List CP) (x y : Int) (time : Nat) (ty : Int) (sound : Nat)
    (rest : List Str) (hx : -131072 ≤ x ∧ x ≤ 131072) (hy : -131072 ≤ y ∧ y ≤ 131072)
    (hc : AllB curve) :
    AllB (parseKind curve x y time ty sound rest).1 ∧
    ∀ k snd, (parseKind curve x y time ty sound rest).2 = .ok (k, snd) → KindB k := by
  unfold parseKind
  by_cases h1 : hasFlag ty 1 = true
  · rw [if_pos h1]
    exact ⟨hc, fun k snd h => parseCircle_kindB _ _ _ _ h⟩
  · rw [if_neg h1]
    by_cases h2 : hasFlag ty 2 = true
    · rw [if_pos h2]
      match rest with
      | [] => exact ⟨hc, fun k snd h => by cases h⟩
      | [_] => exact ⟨hc, fun k snd h => by cases h⟩
      | ps :: rs :: rest2 => exact parseSlider_allB _ _ _ _ _ _ _ hx hy hc
    · rw [if_neg h2]
      by_cases h8 : hasFlag ty 8 = true
      · rw [if_pos h8]
        exact ⟨hc, fun k snd h => parseSpinner_kindB _ _ _ _ _ h⟩
      · rw [if_neg h8]
        by_cases h128 : hasFlag ty 128 = true
        · rw [if_pos h128]
          exact ⟨hc, fun k snd h => parseHold_kindB _ _ _ _ _ h⟩
        · rw [if_neg h128]
          exact ⟨hc, fun k snd h => by cases h⟩

/-! ## one line -/

theorem parseHitObject_inv (st : HState) (line : Str) (hst : HInv st) :
    HInv (parseHitObject st line).1 := by
  unfold parseHitObject
  match splitC ',' (trimComment line) with
  | [] => exact hst
  | [_] => exact hst
  | [_, _] => exact hst
  | [_, _, _] => exact hst
  | [_, _, _, _] => exact hst
  | xs :: ys :: ts :: ks :: ss :: rest =>
    simp only []
    cases hpx : posOf xs with
    | error e => exact hst
    | ok x =>
      simp only []
      cases hpy : posOf ys with
      | error e => exact hst
      | ok y =>
        simp only []
        cases parseF64 ts with
        | error e => exact hst
        | ok time =>
          simp only []
          cases parseI32Raw ks with
          | none => exact hst
          | some ty =>
            simp only []
            cases parseI32Raw ss with
            | none => exact hst
            | some sn =>
              simp only []
              have hk := parseKind_allB st.curve x y time ty (sn % 256).toNat rest
                (posOf_bound xs x hpx) (posOf_bound ys y hpy) hst.1
              cases hpk : parseKind st.curve x y time ty (sn % 256).toNat rest with
              | mk curve r =>
                rw [hpk] at hk
                cases r with
                | error e => exact ⟨hk.1, hst.2⟩
                | ok u =>
                  obtain ⟨kind, snd⟩ := u
                  refine ⟨hk.1, ?_⟩
                  intro o ho
                  rcases List.mem_append.1 ho with ho | ho
                  · exact hst.2 o ho
                  · rcases List.mem_singleton.1 ho with rfl
                    exact hk.2 kind snd rfl

/-- per line (the buffer `st.curve` has to be covered too: stale points of rejected lines are
collected by the next accepted slider) -/
theorem parseHitObject_cps_bounded (st : HState) (line : Str)
    (hcv : ∀ c ∈ st.curve, CPBounded c)
    (hst : ∀ o ∈ st.objects, ∀ r len ns cps, o.kind = .slider r len ns cps → ∀ c ∈ cps, CPBounded c) :
    (∀ c ∈ (parseHitObject st line).1.curve, CPBounded c) ∧
    ∀ o ∈ (parseHitObject st line).1.objects, ∀ r len ns cps, o.kind = .slider r len ns cps →
      ∀ c ∈ cps, CPBounded c :=
  parseHitObject_inv st line ⟨hcv, hst⟩

/-! ## all lines -/

theorem stepLine_inv (sec : Sec) (s : BState) (l : Str) (h : HInv s.hs) :
    HInv (stepLine sec s l).1.hs := by
  rw [stepLine_hs]
  by_cases hs : sec = .hitObjects
  · rw [if_pos hs]; exact parseHitObject_inv _ _ h
  · rw [if_neg hs]; exact h

theorem foldl_stepLine_inv (r : List (Sec × Str)) (s : BState) (h : HInv s.hs) :
    HInv (r.foldl (fun s p => (stepLine p.1 s p.2).1) s).hs := by
  induction r generalizing s with
  | nil => exact h
  | cons p r ih => exact ih _ (stepLine_inv p.1 s p.2 h)

theorem HInv.init : HInv HState.init := ⟨AllB.nil, fun _ h => by cases h⟩

theorem decodeLines_inv (ls : List Str) : HInv (decodeLines ls).hs := by
  unfold decodeLines
  simp only []
  cases firstSection (parseVersion ls).2 with
  | none => exact HInv.init
  | some p =>
    obtain ⟨sec, body⟩ := p
    exact foldl_stepLine_inv _ _ HInv.init

/-! ## the decoded file -/

/-- ★ every control point of every slider of every decoded file (any mode) is an offset of
magnitude `≤ 262144` in both coordinates -/
theorem fromBytes_control_points_bounded (bytes : List UInt8) (d : Decoded)
    (h : fromBytes bytes = some d) (objs : List (Int × HObj)) (snd : List Nat)
    (ho : d.objects = some (objs, snd)) :
    ∀ p ∈ objs, ∀ r len ns cps, p.2.kind = .slider r len ns cps → ∀ c ∈ cps, CPBounded c := by
  unfold fromBytes fromNatBytes at h
  cases hr : readBytes (bytes.map (·.toNat)) with
  | none => rw [hr] at h; cases h
  | some ls =>
    rw [hr] at h
    simp only [Option.map_some, Option.some.injEq] at h
    subst h
    have hl := decodeLines_lengths ls
    have hl' : (decodeLines ls).hs.sounds.length
        = ((decodeLines ls).hs.objects.map fun o => (keyOfBits64 o.time, o)).length := by
      rw [hl]; simp
    have hinv := (decodeLines_inv ls).2
    have hperm : objs.Perm ((decodeLines ls).hs.objects.map fun o => (keyOfBits64 o.time, o)) := by
      simp only [finish] at ho
      cases hm : ((decodeLines ls).mode == 3) with
      | false =>
        rw [hm] at ho
        obtain ⟨o, s, he, h1, h2, _, _, hp⟩ := Rosu.C06.decode_objects_sorted_and_paired _ _ hl'
        rw [he] at ho
        injection ho with ho
        injection ho with ho1 ho2
        subst ho1; subst ho2
        have hz := hp.map Prod.fst
        rw [List.map_fst_zip (by omega), List.map_fst_zip (by omega)] at hz
        exact hz
      | true =>
        rw [hm] at ho
        obtain ⟨o, s, he, hp, _⟩ := Rosu.C06.decode_mania_objects _ _ hl'
        rw [he] at ho
        injection ho with ho
        injection ho with ho1 ho2
        subst ho1
        exact hp
    intro p hp r len ns cps hk c hc
    have hmem := hperm.subset hp
    obtain ⟨o, hom, rfl⟩ := List.mem_map.1 hmem
    exact hinv o hom r len ns cps hk c hc

end Rosu.PipelineCurve
