import RosuModel.Lemmas.SliderEventsMap
import Mathlib.Algebra.Order.Field.Rat
import Mathlib.Tactic.Linarith
import Mathlib.Tactic.Ring
import Mathlib.Tactic.Push
import Mathlib.Tactic.Positivity

/-!
# The loops of nested-object generation: iteration bounds

* over exact rationals (`ratArith`): the tick loop of `generate_ticks` runs at most
  `⌊len / tick_dist⌋` times (`len ≤ MAX_LEN = 100 000`), the halving loop of `JuiceStream::new` at
  most `⌈log₂(since/100)⌉` times and the tiny-droplet loop exactly `2^j − 1` times;
* over ANY arithmetic with a rank into ℕ that the loop's comparison respects and that the addition
  strictly increases: termination within `R + 2 − rank d` iterations;
* counter-models: with an absorbing addition both additive loops spin forever — the Rust loops
  have no no-progress guard, termination over `f64` is NOT a theorem (it is searched, and replayed
  with fuel by the driver).
-/

namespace Rosu.SliderEvents

open Rosu.Gradual (CatchEvent)

/-! ## generic: rank-based termination and absorption counter-models -/

variable {F : Type}

/-- The tick loop terminates in every arithmetic in which (i) a `d` that passes `d <= len` has rank
at most `R` and (ii) `d += tick_dist` strictly increases the rank of such a `d`. -/
theorem tickDists_terminates_of_rank (A : Arith F) (it : Iter F) (rank : F → Nat) (R : Nat)
    (hbound : ∀ d, A.le d it.len = true → rank d ≤ R)
    (hprog : ∀ d, A.le d it.len = true → rank d < rank (A.add d it.tickDist)) :
    ∀ (fuel : Nat) (d : F), 1 ≤ fuel → R + 2 ≤ rank d + fuel →
      (tickDists A it fuel d).isSome = true := by
  intro fuel
  induction fuel with
  | zero => intro d h; omega
  | succ fuel ih =>
    intro d _ hf
    unfold tickDists
    by_cases hle : A.le d it.len = true
    · rw [if_pos hle]
      split
      · rfl
      · have h1 := hbound d hle
        have h2 := hprog d hle
        have := ih (A.add d it.tickDist) (by omega) (by omega)
        cases hr : tickDists A it fuel (A.add d it.tickDist) with
        | none => rw [hr] at this; exact absurd this (by simp)
        | some l => rfl
    · rw [if_neg hle]; rfl

/-- Same for the tiny-droplet loop `while t < since { t += time_between_tiny }`. -/
theorem tinyLoop_terminates_of_rank (A : Arith F) (since tbt : F) (rank : F → Nat) (R : Nat)
    (hbound : ∀ t, A.lt t since = true → rank t ≤ R)
    (hprog : ∀ t, A.lt t since = true → rank t < rank (A.add t tbt)) :
    ∀ (fuel : Nat) (t : F) (n : Nat), 1 ≤ fuel → R + 2 ≤ rank t + fuel →
      (tinyLoop A since tbt fuel t n).isSome = true := by
  intro fuel
  induction fuel with
  | zero => intro t n h; omega
  | succ fuel ih =>
    intro t n _ hf
    unfold tinyLoop
    by_cases hlt : A.lt t since = true
    · rw [if_pos hlt]
      have h1 := hbound t hlt
      have h2 := hprog t hlt
      exact ih (A.add t tbt) (n + 1) (by omega) (by omega)
    · rw [if_neg hlt]; rfl

/-- The halving loop terminates when `/ 2.0` strictly decreases the rank of a value above 100. -/
theorem halveLoop_terminates_of_rank (A : Arith F) (rank : F → Nat)
    (hprog : ∀ t, A.lt (A.ofInt 100) t = true → rank (A.div t (A.ofInt 2)) < rank t) :
    ∀ (fuel : Nat) (t : F), rank t + 1 ≤ fuel → (halveLoop A fuel t).isSome = true := by
  intro fuel
  induction fuel with
  | zero => intro t h; omega
  | succ fuel ih =>
    intro t hf
    unfold halveLoop
    by_cases hlt : A.lt (A.ofInt 100) t = true
    · rw [if_pos hlt]
      have := hprog t hlt
      exact ih _ (by omega)
    · rw [if_neg hlt]; rfl

/-- An arithmetic on ℕ whose addition absorbs the second operand (what IEEE addition does once the
addend is below half an ulp of the accumulator). Everything else is exact. -/
def absorbingArith : Arith Nat where
  ofInt n := n.toNat
  neg x := x
  add x _ := x
  sub x y := x - y
  mul x y := x * y
  div x y := x / y
  min x y := if x ≤ y then x else y
  max x y := if x ≤ y then y else x
  lt x y := decide (x < y)
  le x y := decide (x ≤ y)
  toI32 x := x
  clampF32 x := x
  inf := 0

/-- Under absorption the tick loop never leaves: no fuel suffices. -/
theorem tickDists_spins_under_absorption (fuel : Nat) :
    tickDists absorbingArith
      { start := 0, spanDur := 100, minDistFromEnd := 0, tickDist := 1, len := 10, spanCount := 1 }
      fuel 1 = none := by
  induction fuel with
  | zero => rfl
  | succ fuel ih =>
    unfold tickDists
    simp only [absorbingArith] at ih ⊢
    simp [ih]

/-- Under absorption the tiny-droplet loop never leaves either. -/
theorem tinyLoop_spins_under_absorption (fuel n : Nat) :
    tinyLoop absorbingArith 200 100 fuel 100 n = none := by
  induction fuel generalizing n with
  | zero => rfl
  | succ fuel ih =>
    unfold tinyLoop
    simp only [absorbingArith] at ih ⊢
    simp [ih]

/-! ## exact rationals: the tick loop -/

theorem rat_le (x y : Rat) : ratArith.le x y = decide (x ≤ y) := rfl
theorem rat_lt (x y : Rat) : ratArith.lt x y = decide (x < y) := rfl
theorem rat_add (x y : Rat) : ratArith.add x y = x + y := rfl
theorem rat_sub (x y : Rat) : ratArith.sub x y = x - y := rfl
theorem rat_div (x y : Rat) : ratArith.div x y = x / y := rfl
theorem rat_ofInt (n : Int) : ratArith.ofInt n = (n : Rat) := rfl

/-- `k · td ≤ len` bounds `k` by `⌊len / td⌋`. -/
theorem le_floor_of_mul_le (len td : Rat) (htd : 0 < td) (k : Nat) (h : (k : Rat) * td ≤ len) :
    k ≤ (len / td).floor.toNat := by
  have h1 : (k : Rat) ≤ len / td := by rw [le_div_iff₀ htd]; exact h
  have hfl := Rat.le_floor_iff (x := (k : Int)) (a := len / td)
  have hcast : (((k : Int) : Rat)) = (k : Rat) := Int.cast_natCast k
  rw [hcast] at hfl
  have := hfl.mpr h1
  omega

/-- The tick loop over ℚ from `d = k · tick_dist`: terminates within `⌊len/td⌋ + 2 − k` units of
fuel and pushes at most `⌊len/td⌋ + 1 − k` ticks. -/
theorem tickDists_rat (it : Iter Rat) (htd : 0 < it.tickDist) :
    ∀ (fuel k : Nat), k ≤ (it.len / it.tickDist).floor.toNat + 1 →
      (it.len / it.tickDist).floor.toNat + 2 ≤ k + fuel →
      ∃ l, tickDists ratArith it fuel ((k : Rat) * it.tickDist) = some l ∧
        l.length + k ≤ (it.len / it.tickDist).floor.toNat + 1 := by
  intro fuel
  induction fuel with
  | zero => intro k h1 h2; omega
  | succ fuel ih =>
    intro k h1 h2
    unfold tickDists
    by_cases hle : (k : Rat) * it.tickDist ≤ it.len
    · have hk := le_floor_of_mul_le it.len it.tickDist htd k hle
      rw [rat_le, decide_eq_true hle, if_pos rfl]
      split
      · exact ⟨[], rfl, by simp; omega⟩
      · have hadd : ratArith.add ((k : Rat) * it.tickDist) it.tickDist =
            ((k + 1 : Nat) : Rat) * it.tickDist := by
          rw [rat_add]; push_cast; ring
        rw [hadd]
        obtain ⟨l, hl, hlen⟩ := ih (k + 1) (by omega) (by omega)
        rw [hl]
        exact ⟨_, rfl, by simp only [List.length_cons]; omega⟩
    · rw [rat_le, decide_eq_false hle]
      exact ⟨[], by simp, by simp; omega⟩

/-- **Ticks per span over ℚ**: at most `⌊len / tick_dist⌋`, with `⌊len / tick_dist⌋ + 1` units of
fuel always enough (no ticks at all when `tick_dist ≤ 0`). -/
theorem spanTickDists_rat (it : Iter Rat) (fuel : Nat)
    (hf : (it.len / it.tickDist).floor.toNat + 1 ≤ fuel) :
    ∃ ds, spanTickDists ratArith it fuel = some ds ∧
      ds.length ≤ (it.len / it.tickDist).floor.toNat := by
  unfold spanTickDists
  by_cases htd : 0 < it.tickDist
  · have h0 : ratArith.lt (ratArith.ofInt 0) it.tickDist = true := by
      rw [rat_lt, rat_ofInt]; simpa using htd
    rw [if_pos h0]
    obtain ⟨l, hl, hlen⟩ := tickDists_rat it htd fuel 1 (by omega) (by omega)
    simp only [Nat.cast_one, one_mul] at hl
    exact ⟨l, hl, by omega⟩
  · have h0 : ¬ (ratArith.lt (ratArith.ofInt 0) it.tickDist = true) := by
      rw [rat_lt, rat_ofInt]; simpa using htd
    rw [if_neg h0]
    exact ⟨[], rfl, by simp⟩

theorem rat_min (x y : Rat) : ratArith.min x y = min x y := by
  show (if x ≤ y then x else y) = min x y
  rw [min_def]

/-- `f64::clamp` over ℚ: `min (max x lo) hi` when `lo ≤ hi`, the assertion panic otherwise. -/
theorem clamp_rat (x lo hi : Rat) :
    clamp ratArith x lo hi = if lo ≤ hi then some (min (max x lo) hi) else none := by
  unfold clamp
  simp only [rat_le, rat_lt, decide_eq_true_eq]
  by_cases h : lo ≤ hi
  · simp only [h, if_true, Option.some.injEq]
    rw [min_def, max_def]
    split_ifs <;> linarith
  · simp [h]

/-- What `SliderEventsIter::new` establishes over ℚ: `len = min(MAX_LEN, total_dist)`,
`tick_dist` clamped into `[0, len]`; it panics exactly when `total_dist < 0`. -/
theorem Iter.new_rat (start spanDur velocity tickDist totalDist : Rat) (n : Nat) :
    Iter.new ratArith start spanDur velocity tickDist totalDist n =
      if 0 ≤ totalDist then
        some { start := start, spanDur := spanDur, minDistFromEnd := velocity * 10,
               tickDist := min (max tickDist 0) (min 100000 totalDist),
               len := min 100000 totalDist, spanCount := n }
      else none := by
  unfold Iter.new
  simp only [rat_min, clamp_rat, rat_ofInt, Int.cast_zero, Int.cast_ofNat]
  have hiff : (0 : Rat) ≤ min 100000 totalDist ↔ 0 ≤ totalDist := by
    rw [le_min_iff]; constructor
    · exact fun h => h.2
    · exact fun h => ⟨by norm_num, h⟩
  by_cases h : (0 : Rat) ≤ totalDist
  · simp only [hiff.mpr h, h, if_true]; rfl
  · have h' : ¬ (0 : Rat) ≤ min 100000 totalDist := fun hh => h (hiff.mp hh)
    simp only [h', h, if_false]

/-- The bounds `new` establishes: `len ≤ MAX_LEN`, `0 ≤ tick_dist ≤ len`. -/
theorem Iter.new_rat_bounds (start spanDur velocity tickDist totalDist : Rat) (n : Nat) (it : Iter Rat)
    (h : Iter.new ratArith start spanDur velocity tickDist totalDist n = some it) :
    0 ≤ totalDist ∧ it.len ≤ 100000 ∧ it.len ≤ totalDist ∧ 0 ≤ it.tickDist ∧ it.tickDist ≤ it.len ∧
      it.spanCount = n := by
  rw [Iter.new_rat] at h
  split at h
  · rename_i h0
    simp only [Option.some.injEq] at h
    subst h
    refine ⟨h0, min_le_left _ _, min_le_right _ _, ?_, min_le_right _ _, rfl⟩
    apply le_min (le_max_right _ _)
    exact le_min (by norm_num) h0
  · exact absurd h (by simp)

/-! ## exact rationals: the two tiny-droplet loops -/

/-- The halving loop over ℚ from `t ≤ 100·2^f`: at most `f` halvings, the result `t / 2^j` is at
most 100 and — if anything was halved — above 50. -/
theorem halveLoop_rat : ∀ (f fuel : Nat) (t : Rat), t ≤ 100 * 2 ^ f → f + 1 ≤ fuel →
    ∃ j, j ≤ f ∧ halveLoop ratArith fuel t = some (t / 2 ^ j) ∧ t / 2 ^ j ≤ 100 ∧
      (j = 0 ∨ 50 < t / 2 ^ j) := by
  intro f
  induction f with
  | zero =>
    intro fuel t ht hf
    obtain ⟨fuel', rfl⟩ : ∃ m, fuel = m + 1 := ⟨fuel - 1, by omega⟩
    have h100 : ¬ ((100 : Rat) < t) := by simpa using ht
    refine ⟨0, le_refl _, ?_, by simpa using ht, Or.inl rfl⟩
    unfold halveLoop
    rw [rat_lt, rat_ofInt]
    simp [h100]
  | succ f ih =>
    intro fuel t ht hf
    obtain ⟨fuel', rfl⟩ : ∃ m, fuel = m + 1 := ⟨fuel - 1, by omega⟩
    by_cases h100 : (100 : Rat) < t
    · have ht2 : t / 2 ≤ 100 * 2 ^ f := by
        rw [pow_succ] at ht; linarith
      obtain ⟨j, hj, hloop, hle, hgt⟩ := ih fuel' (t / 2) ht2 (by omega)
      have hdiv : t / 2 / 2 ^ j = t / 2 ^ (j + 1) := by
        rw [pow_succ, div_div]; ring_nf
      refine ⟨j + 1, by omega, ?_, by rw [← hdiv]; exact hle, Or.inr ?_⟩
      · unfold halveLoop
        rw [rat_lt, rat_ofInt, rat_div, rat_ofInt]
        simp only [Int.cast_ofNat, decide_eq_true h100, if_true]
        rw [hloop, hdiv]
      · rcases hgt with rfl | hgt
        · simp only [zero_add, pow_one]; linarith
        · rw [← hdiv]; exact hgt
    · refine ⟨0, Nat.zero_le _, ?_, by simpa using le_of_not_gt h100, Or.inl rfl⟩
      unfold halveLoop
      rw [rat_lt, rat_ofInt]
      simp [h100]

/-- The tiny-droplet loop over ℚ with `since = 2^j · tbt`: from `t = k · tbt`, `n` droplets so far,
it ends with `n + (2^j − k)` droplets. -/
theorem tinyLoop_rat (tbt : Rat) (htbt : 0 < tbt) (j : Nat) :
    ∀ (m k n fuel : Nat), k + m = 2 ^ j → m + 1 ≤ fuel →
      tinyLoop ratArith (2 ^ j * tbt) tbt fuel ((k : Rat) * tbt) n = some (n + m) := by
  intro m
  induction m with
  | zero =>
    intro k n fuel hk hf
    obtain ⟨fuel', rfl⟩ : ∃ x, fuel = x + 1 := ⟨fuel - 1, by omega⟩
    unfold tinyLoop
    have : ¬ ((k : Rat) * tbt < 2 ^ j * tbt) := by
      have : (k : Rat) = 2 ^ j := by
        have : k = 2 ^ j := by omega
        rw [this]; push_cast; rfl
      rw [this]; exact lt_irrefl _
    rw [rat_lt, decide_eq_false this]
    simp
  | succ m ih =>
    intro k n fuel hk hf
    obtain ⟨fuel', rfl⟩ : ∃ x, fuel = x + 1 := ⟨fuel - 1, by omega⟩
    unfold tinyLoop
    have hlt : (k : Rat) * tbt < 2 ^ j * tbt := by
      apply mul_lt_mul_of_pos_right _ htbt
      have : k < 2 ^ j := by omega
      exact_mod_cast this
    have hadd : ratArith.add ((k : Rat) * tbt) tbt = ((k + 1 : Nat) : Rat) * tbt := by
      rw [rat_add]; push_cast; ring
    rw [rat_lt, decide_eq_true hlt, if_pos rfl, hadd, ih (k + 1) (n + 1) fuel' (by omega) (by omega)]
    congr 1; omega

/-- **Tiny droplets of one gap over ℚ.** For an integer `since_last_tick = s ≤ 100·2^f` (the code
obtains it from an `i32`, so `f = 25` always works) and enough fuel the two loops terminate with
`2^j − 1` droplets, `j ≤ f` the number of halvings; none for `s ≤ 80` (and for `80 < s ≤ 100`). -/
theorem tinyDroplets_rat (s : Int) (f fuel : Nat) (hs : (s : Rat) ≤ 100 * 2 ^ f)
    (hf : 2 ^ f + f + 1 ≤ fuel) :
    ∃ j, j ≤ f ∧ tinyDroplets ratArith fuel (s : Rat) = some (2 ^ j - 1) ∧
      ((2 ^ j - 1 : Nat) : Rat) * 50 ≤ max (s : Rat) 0 := by
  unfold tinyDroplets
  have hcond : ratArith.lt (ratArith.ofInt 80) (s : Rat) = decide ((80 : Rat) < s) := by
    rw [rat_lt, rat_ofInt]; simp
  rw [hcond]
  have h2f : 0 < 2 ^ f := Nat.two_pow_pos f
  generalize hp : 2 ^ f = p at hf h2f
  by_cases h80 : (80 : Rat) < s
  · rw [decide_eq_true h80, if_pos rfl]
    obtain ⟨j, hj, hloop, hle, hgt⟩ := halveLoop_rat f fuel s hs (by omega)
    rw [hloop]
    simp only
    have hpow : (0 : Rat) < 2 ^ j := by positivity
    have hpos : 0 < (s : Rat) / 2 ^ j := by apply div_pos _ hpow; linarith
    have hsince : (s : Rat) = 2 ^ j * ((s : Rat) / 2 ^ j) := by
      have : (s : Rat) / 2 ^ j * 2 ^ j = s := div_mul_cancel₀ _ (ne_of_gt hpow)
      linarith
    have h2j : 2 ^ j ≤ 2 ^ f := Nat.pow_le_pow_right (by decide) hj
    have hone : 1 ≤ 2 ^ j := Nat.one_le_two_pow
    have := tinyLoop_rat ((s : Rat) / 2 ^ j) hpos j (2 ^ j - 1) 1 0 fuel (by omega) (by omega)
    rw [← hsince] at this
    simp only [Nat.cast_one, one_mul, Nat.zero_add] at this
    refine ⟨j, hj, this, ?_⟩
    have hmax : (s : Rat) ≤ max (s : Rat) 0 := le_max_left _ _
    rcases hgt with rfl | hgt
    · simp
    · have hcast : ((2 ^ j - 1 : Nat) : Rat) = 2 ^ j - 1 := by
        rw [Nat.cast_sub hone]; push_cast; rfl
      rw [hcast]
      have : (2 : Rat) ^ j * 50 < s := by
        rw [lt_div_iff₀ hpow] at hgt; linarith
      linarith
  · rw [decide_eq_false h80, if_neg (by simp)]
    exact ⟨0, Nat.zero_le _, by simp, by simp⟩

theorem i32Wrap_range (x : Int) : -2147483648 ≤ i32Wrap x ∧ i32Wrap x ≤ 2147483647 := by
  unfold i32Wrap; omega

theorem i32Wrap_id (x : Int) (h1 : -2147483648 ≤ x) (h2 : x ≤ 2147483647) : i32Wrap x = x := by
  unfold i32Wrap; omega

end Rosu.SliderEvents
