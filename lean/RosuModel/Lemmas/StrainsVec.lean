import RosuModel.Model.StrainsVec

/-!
Lemmas about the bit-level `StrainsVec` model (`Model/StrainsVec.lean`): well-formedness
invariant, abstraction to the plain list of values, iterator / `into_vec` / `retain` / sort
facts.  Core Lean only (`omega`, `simp`).
-/

namespace Rosu.SV

/-! ## entries -/

/-- A stored entry is either a value (sign clear, pattern non-zero) or a run whose count is in
`[1, 2^63)`. -/
def EntryOK (e : Nat) : Prop := (0 < e ∧ e < SIGN) ∨ (SIGN < e ∧ e < TWO64)

/-- No two adjacent run entries. -/
def NoAdjRuns : List Nat → Prop
  | a :: b :: rest => ¬(isZero a = true ∧ isZero b = true) ∧ NoAdjRuns (b :: rest)
  | _ => True

/-- Well-formedness of a compact vector. -/
structure WF (s : SVec) : Prop where
  entries : ∀ e ∈ s.inner, EntryOK e
  noAdj : NoAdjRuns s.inner
  lenEq : s.len = (absList s.inner).length

theorem isZero_iff (e : Nat) : isZero e = true ↔ SIGN ≤ e := by simp [isZero]
theorem isValue_iff (e : Nat) : isValue e = true ↔ e < SIGN := by
  simp [isValue, isZero]
theorem isValue_eq_not_isZero (e : Nat) : isValue e = !isZero e := rfl

theorem isValueBits_iff (b : Nat) : isValueBits b = true ↔ 0 < b ∧ b < SIGN := by
  simp [isValueBits]

theorem expandEntry_value {e : Nat} (h : isValue e = true) : expandEntry e = [e] := by
  simp [expandEntry, isValue] at *; simp [h]

theorem expandEntry_run {e : Nat} (h : isZero e = true) :
    expandEntry e = List.replicate (zeroCount e) 0 := by simp [expandEntry, h]

theorem absList_nil : absList [] = [] := rfl
theorem absList_cons (e : Nat) (l : List Nat) : absList (e :: l) = expandEntry e ++ absList l := by
  simp [absList]
theorem absList_append (a b : List Nat) : absList (a ++ b) = absList a ++ absList b := by
  simp [absList, List.flatMap_append]

/-- A vector without run entries represents itself. -/
theorem absList_of_all_value {l : List Nat} (h : ∀ e ∈ l, isValue e = true) : absList l = l := by
  induction l with
  | nil => rfl
  | cons e l ih =>
    rw [absList_cons, expandEntry_value (h e (by simp)), ih (fun x hx => h x (by simp [hx]))]
    rfl

/-- A run entry contributes its count to the represented length. -/
theorem zeroCount_le_abs_length {l : List Nat} {e : Nat} (hm : e ∈ l) (hz : isZero e = true) :
    zeroCount e ≤ (absList l).length := by
  induction l with
  | nil => cases hm
  | cons a l ih =>
    rw [absList_cons, List.length_append]
    rcases List.mem_cons.mp hm with rfl | h
    · rw [expandEntry_run hz]; simp
    · have := ih h; omega

/-! ## `push` -/

theorem lastIsZero_append_single (l : List Nat) (e : Nat) : lastIsZero (l ++ [e]) = isZero e := by
  induction l with
  | nil => rfl
  | cons a l ih =>
    cases l with
    | nil => simp [lastIsZero]
    | cons b l => simpa [lastIsZero] using ih

theorem pushZero_ne_nil (l : List Nat) : pushZero l ≠ [] := by
  fun_cases pushZero l <;> simp_all

/-- `pushZero` in terms of the last entry. -/
theorem pushZero_append_single (l : List Nat) (e : Nat) :
    pushZero (l ++ [e]) = if isZero e then l ++ [incrZero e] else l ++ [e, newZero] := by
  induction l with
  | nil => simp [pushZero]
  | cons a l ih =>
    cases l with
    | nil => simp [pushZero]; split <;> simp
    | cons b l =>
      have : pushZero (a :: b :: l ++ [e]) = a :: pushZero (b :: l ++ [e]) := by
        simp [pushZero]
      rw [this, ih]; split <;> simp

theorem pushZero_of_not_lastIsZero {l : List Nat} (h : lastIsZero l = false) :
    pushZero l = l ++ [newZero] := by
  rcases List.eq_nil_or_concat l with rfl | ⟨l', e, rfl⟩
  · rfl
  · rw [List.concat_eq_append] at *
    rw [lastIsZero_append_single] at h
    rw [pushZero_append_single]; simp [h]

theorem pushZero_of_lastIsZero {l : List Nat} (h : lastIsZero l = true) :
    ∃ l' e, l = l' ++ [e] ∧ isZero e = true ∧ pushZero l = l' ++ [incrZero e] := by
  rcases List.eq_nil_or_concat l with rfl | ⟨l', e, rfl⟩
  · simp [lastIsZero] at h
  · rw [List.concat_eq_append] at *
    rw [lastIsZero_append_single] at h
    exact ⟨l', e, rfl, h, by rw [pushZero_append_single]; simp [h]⟩

theorem expandEntry_newZero : expandEntry newZero = [0] := by
  simp [expandEntry, newZero, isZero, zeroCount, SIGN]

theorem expandEntry_incrZero {e : Nat} (hz : isZero e = true) (hb : e + 1 < TWO64) :
    expandEntry (incrZero e) = expandEntry e ++ [0] := by
  have h1 : isZero (incrZero e) = true := by
    simp only [isZero_iff, incrZero] at *; omega
  rw [expandEntry_run h1, expandEntry_run hz]
  have : zeroCount (incrZero e) = zeroCount e + 1 := by
    simp only [isZero_iff, zeroCount, incrZero, SIGN, TWO64] at *; omega
  rw [this, List.replicate_succ']

/-- Pushing a zero appends one `+0.0` to the represented list (no wrap-around of the run
counter as long as entries are below `u64::MAX`). -/
theorem absList_pushZero {l : List Nat} (hb : ∀ e ∈ l, e + 1 < TWO64) :
    absList (pushZero l) = absList l ++ [0] := by
  cases h : lastIsZero l with
  | false => rw [pushZero_of_not_lastIsZero h, absList_append]; simp [absList, expandEntry_newZero]
  | true =>
    obtain ⟨l', e, rfl, hz, hp⟩ := pushZero_of_lastIsZero h
    rw [hp, absList_append, absList_append]
    have : absList [incrZero e] = absList [e] ++ [0] := by
      simp only [absList, List.flatMap_cons, List.flatMap_nil, List.append_nil]
      exact expandEntry_incrZero hz (hb e (by simp))
    rw [this, List.append_assoc]

theorem canon_of_value {b : Nat} (h : isValueBits b = true) : canon b = b := by simp [canon, h]
theorem canon_of_not_value {b : Nat} (h : isValueBits b = false) : canon b = 0 := by
  simp [canon, h]

theorem push_len (s : SVec) (b : Nat) : (s.push b).len = s.len + 1 := by
  unfold SVec.push; split
  · rfl
  · split <;> rfl

/-- `push` appends exactly one element — `canon b` — to the represented list. -/
theorem push_abs (s : SVec) (b : Nat) (hb : ∀ e ∈ s.inner, e + 1 < TWO64) :
    (s.push b).abs = s.abs ++ [canon b] := by
  unfold SVec.push SVec.abs
  by_cases hv : isValueBits b = true
  · rw [if_pos hv, canon_of_value hv]
    have : isValue b = true := by
      rw [isValue_iff]; exact ((isValueBits_iff b).mp hv).2
    simp [absList, expandEntry_value this]
  · have hv' : isValueBits b = false := by simpa using hv
    rw [if_neg hv, canon_of_not_value hv']
    split <;> exact absList_pushZero hb

theorem noAdj_append_value {l : List Nat} {b : Nat} (h : NoAdjRuns l) (hv : isZero b = false) :
    NoAdjRuns (l ++ [b]) := by
  induction l with
  | nil => simp [NoAdjRuns]
  | cons a l ih =>
    cases l with
    | nil => simp [NoAdjRuns, hv]
    | cons c l =>
      simp only [NoAdjRuns, List.cons_append] at *
      exact ⟨h.1, ih h.2⟩

theorem noAdj_append_run_after_value {l : List Nat} {z : Nat} (h : NoAdjRuns l)
    (hl : lastIsZero l = false) : NoAdjRuns (l ++ [z]) := by
  induction l with
  | nil => simp [NoAdjRuns]
  | cons a l ih =>
    cases l with
    | nil =>
      simp only [lastIsZero] at hl
      simp [NoAdjRuns, hl]
    | cons c l =>
      simp only [NoAdjRuns, List.cons_append, lastIsZero] at *
      exact ⟨h.1, ih h.2 hl⟩

theorem noAdj_replace_last {l : List Nat} {e e' : Nat} (h : NoAdjRuns (l ++ [e]))
    (hz : isZero e = true) : NoAdjRuns (l ++ [e']) := by
  induction l with
  | nil => simp [NoAdjRuns]
  | cons a l ih =>
    cases l with
    | nil =>
      simp only [NoAdjRuns, List.cons_append, List.nil_append] at *
      exact ⟨fun hh => h.1 ⟨hh.1, hz⟩, trivial⟩
    | cons c l =>
      simp only [NoAdjRuns, List.cons_append] at *
      exact ⟨h.1, ih h.2⟩

theorem noAdj_pushZero {l : List Nat} (h : NoAdjRuns l) : NoAdjRuns (pushZero l) := by
  cases hl : lastIsZero l with
  | false => rw [pushZero_of_not_lastIsZero hl]; exact noAdj_append_run_after_value h hl
  | true =>
    obtain ⟨l', e, rfl, hz, hp⟩ := pushZero_of_lastIsZero hl
    rw [hp]; exact noAdj_replace_last h hz

/-- `push` preserves well-formedness as long as the length stays below `2^63 - 1` (then no run
counter can reach `2^63`, so `incr_zero_count` neither overflows the `u64` nor spills into the
sign bit) and the pushed pattern is a 64-bit pattern. -/
theorem push_WF {s : SVec} (h : WF s) (b : Nat) (hb : b < TWO64) (hlen : s.len + 1 < SIGN) :
    WF (s.push b) := by
  have hbound : ∀ e ∈ s.inner, e + 1 < TWO64 := by
    intro e he
    rcases h.entries e he with hv | hr
    · simp only [SIGN, TWO64] at *; omega
    · have hz : isZero e = true := by rw [isZero_iff]; omega
      have := zeroCount_le_abs_length he hz
      rw [← h.lenEq] at this
      simp only [zeroCount, SIGN, TWO64] at *; omega
  refine ⟨?_, ?_, ?_⟩
  · -- entries
    unfold SVec.push
    by_cases hv : isValueBits b = true
    · rw [if_pos hv]; intro e he
      rcases List.mem_append.mp he with he | he
      · exact h.entries e he
      · simp only [List.mem_singleton] at he; subst he
        exact Or.inl ((isValueBits_iff e).mp hv)
    · rw [if_neg hv]
      have key : ∀ e ∈ pushZero s.inner, EntryOK e := by
        cases hl : lastIsZero s.inner with
        | false =>
          rw [pushZero_of_not_lastIsZero hl]; intro e he
          rcases List.mem_append.mp he with he | he
          · exact h.entries e he
          · simp only [List.mem_singleton] at he; subst he
            right; simp [newZero, SIGN, TWO64]
        | true =>
          obtain ⟨l', e0, heq, hz, hp⟩ := pushZero_of_lastIsZero hl
          rw [hp]; intro e he
          rcases List.mem_append.mp he with he | he
          · exact h.entries e (by rw [heq]; simp [he])
          · simp only [List.mem_singleton] at he; subst he
            have hm : e0 ∈ s.inner := by rw [heq]; simp
            have := hbound e0 hm
            rw [isZero_iff] at hz
            right; simp only [incrZero]; omega
      split <;> exact key
  · -- no adjacent runs
    unfold SVec.push
    by_cases hv : isValueBits b = true
    · rw [if_pos hv]
      have : isZero b = false := by
        have := ((isValueBits_iff b).mp hv).2
        simp [isZero]; omega
      exact noAdj_append_value h.noAdj this
    · rw [if_neg hv]; split <;> exact noAdj_pushZero h.noAdj
  · -- len
    rw [push_len]
    have := push_abs s b hbound
    unfold SVec.abs at this
    rw [this, List.length_append, h.lenEq]; rfl

theorem empty_WF : WF SVec.empty := ⟨by simp [SVec.empty], by simp [SVec.empty, NoAdjRuns], rfl⟩

/-- Entry bound used by `push_abs`, from well-formedness. -/
theorem WF.bound {s : SVec} (h : WF s) (hlen : s.len + 1 < SIGN) : ∀ e ∈ s.inner, e + 1 < TWO64 := by
  intro e he
  rcases h.entries e he with hv | hr
  · simp only [SIGN, TWO64] at *; omega
  · have hz : isZero e = true := by rw [isZero_iff]; omega
    have := zeroCount_le_abs_length he hz
    rw [← h.lenEq] at this
    simp only [zeroCount, SIGN, TWO64] at *; omega

/-- All three facts about an arbitrary push sequence at once. -/
theorem pushAll_spec (bs : List Nat) : ∀ (s : SVec), WF s → (∀ b ∈ bs, b < TWO64) →
    s.len + bs.length < SIGN →
    WF (s.pushAll bs) ∧ (s.pushAll bs).abs = s.abs ++ bs.map canon ∧
      (s.pushAll bs).len = s.len + bs.length := by
  induction bs with
  | nil => intro s h _ _; simp [SVec.pushAll, h]
  | cons b bs ih =>
    intro s h hb hlen
    simp only [List.length_cons] at hlen
    have hw := push_WF h b (hb b (by simp)) (by omega)
    have ha := push_abs s b (h.bound (by omega))
    have hl := push_len s b
    obtain ⟨h1, h2, h3⟩ := ih (s.push b) hw (fun x hx => hb x (by simp [hx])) (by rw [hl]; omega)
    refine ⟨h1, ?_, ?_⟩
    · show ((s.push b).pushAll bs).abs = _
      rw [h2, ha]; simp
    · show ((s.push b).pushAll bs).len = _
      rw [h3, hl]; simp; omega

end Rosu.SV
