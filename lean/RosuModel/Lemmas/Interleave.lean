import RosuModel.Model.Interleave

namespace Rosu.Interleave

variable {M G T S : Type}

theorem upd_self {α} (f : Nat → α) (i : Nat) : upd f i (f i) = f := by
  funext j; unfold upd; split
  · next h => rw [h]
  · rfl

theorem upd_comm {α} (f : Nat → α) {i j : Nat} (h : i ≠ j) (a b : α) :
    upd (upd f i a) j b = upd (upd f j b) i a := by
  funext k; unfold upd
  by_cases h1 : k = j <;> by_cases h2 : k = i
  · exact absurd (h2.symm.trans h1) h
  · subst h1; simp [Ne.symm h]
  · subst h2; simp [h]
  · simp [h1, h2]

theorem stepAt_isolated {sys : Sys M G T S} {pure : M → Nat → S → S} (hi : Isolated sys pure)
    (m : M) (w : World G T S) (th c : Nat) :
    sys.stepAt m w th c = { w with priv := upd w.priv c (pure m c (w.priv c)) } := by
  unfold Sys.stepAt
  simp only [hi m c w.glob (w.tls th) (w.priv c), upd_self]

/-- Steps of different calls commute (whatever threads execute them). -/
theorem steps_commute {sys : Sys M G T S} {pure : M → Nat → S → S} (hi : Isolated sys pure)
    (m : M) (w : World G T S) (th th' : Nat) {c c' : Nat} (hne : c ≠ c') :
    sys.stepAt m (sys.stepAt m w th c) th' c' = sys.stepAt m (sys.stepAt m w th' c') th c := by
  simp only [stepAt_isolated hi]
  have h1 : upd w.priv c (pure m c (w.priv c)) c' = w.priv c' := by
    unfold upd; rw [if_neg (Ne.symm hne)]
  have h2 : upd w.priv c' (pure m c' (w.priv c')) c = w.priv c := by
    unfold upd; rw [if_neg hne]
  simp only [h1, h2]
  rw [upd_comm _ hne]

/-- After any schedule, a call's private state is what running its steps alone produces; globals
and thread-locals are untouched. -/
theorem exec_isolated {sys : Sys M G T S} {pure : M → Nat → S → S} (hi : Isolated sys pure)
    (m : M) (w : World G T S) (sched : List (Nat × Nat)) :
    (sys.exec m w sched).glob = w.glob ∧ (sys.exec m w sched).tls = w.tls ∧
    ∀ c, (sys.exec m w sched).priv c = iter pure m c ((sched.map (·.2)).count c) (w.priv c) := by
  induction sched generalizing w with
  | nil => simp [Sys.exec, iter]
  | cons tc rest ih =>
    have := ih (sys.stepAt m w tc.1 tc.2)
    simp only [Sys.exec, List.foldl_cons] at this ⊢
    rw [stepAt_isolated hi] at this ⊢
    refine ⟨this.1, this.2.1, ?_⟩
    intro c
    rw [this.2.2 c]
    simp only [List.map_cons, List.count_cons]
    by_cases h : tc.2 = c
    · subst h; simp [upd, iter]
    · have : (tc.2 == c) = false := by simpa using h
      simp [upd, this, Ne.symm h]

theorem count_seqSched (calls : List Nat) (k : Nat → Nat) (c : Nat) (hnd : calls.Nodup) :
    ((seqSched calls k).map (·.2)).count c = if c ∈ calls then k c else 0 := by
  induction calls with
  | nil => simp [seqSched]
  | cons d ds ih =>
    have hnd' := (List.nodup_cons.mp hnd)
    have ih := ih hnd'.2
    simp only [seqSched, List.flatMap_cons, List.map_append, List.count_append] at ih ⊢
    rw [ih]
    have hrep : (List.map (fun x => x.2) (List.replicate (k d) (0, d))).count c = if d = c then k d else 0 := by
      simp [List.map_replicate, List.count_replicate]
    rw [hrep]
    by_cases hdc : d = c
    · subst hdc; simp [hnd'.1]
    · have : ¬ c = d := fun h => hdc h.symm
      simp [hdc, this]

/-- Lexically scoped guards: after the step, exactly the locks held before are held. -/
theorem scoped_balanced (s : Scoped) (held : List Nat) : s.ops.foldl applyOp held = held := by
  induction s generalizing held with
  | nil => rfl
  | guard l body rest ihb ihr =>
    simp only [Scoped.ops, List.foldl_append, List.foldl_cons, List.foldl_nil, applyOp]
    rw [ihb, List.erase_cons_head, ihr]

end Rosu.Interleave
