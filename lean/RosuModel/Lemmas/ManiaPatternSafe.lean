import RosuModel.Lemmas.ManiaPatternTotal
import Mathlib.Algebra.Order.Field.Rat
import Mathlib.Tactic.Linarith
import Mathlib.Tactic.NormNum

/-!
(b) for the hit-object generator: no checked operation fails except by fuel exhaustion.

The float-gated note-count caps are laws of the arithmetic (`ProbLaw`): a draw is never `≥ 1.0 − 0.0`
and `1.0 < 0.0` is false.  They hold for the exact rational instance `ratArith` by theorem; for the
IEEE instance they are exercised by the tie (every MPH / MPP / MPT line whose branch has a literal
`0.0` probability would differ otherwise).
-/
namespace Rosu.ManiaPattern
open Rosu.Safety Rosu.Rng Rosu.ConvertWF

variable {F : Type}

/-! ## laws -/

structure ProbLaw (A : PArith F) : Prop extends RangeLaw A where
  /-- `next_double() >= 1.0 - 0.0` is false -/
  never_ge_one : ∀ n, n < 2147483648 → A.le (A.sub (A.pct 100) (A.pct 0)) (A.draw n) = false
  /-- `1.0 < 0.0` is false (`clamp(0.0, 1.0)` keeps `0.0`) -/
  one_not_lt_zero : A.lt (A.pct 100) (A.pct 0) = false

/-- the exact instance: probabilities are rationals, `next_double` is `n / 2³¹`, `next_int_range`
is the exact truncation -/
def ratArith : PArith Rat where
  pct k := (k : Rat) / 100
  draw n := (n : Rat) / 2147483648
  add := (· + ·)
  sub := (· - ·)
  mul := (· * ·)
  div := (· / ·)
  lt a b := decide (a < b)
  le a b := decide (a ≤ b)
  range := rangeExact
  ofInt i := (i : Rat)
  floorI32 x := max (-2147483648) (min 2147483647 x.floor)

theorem ratArith_probLaw : ProbLaw ratArith where
  bounds := fun lo hi n h1 h2 h3 =>
    ⟨(rangeExact_bounds lo hi n h1 h3).1, (rangeExact_bounds lo hi n h1 h3).2.2 h2⟩
  never_ge_one := by
    intro n hn
    have h : (n : Rat) < 2147483648 := by exact_mod_cast hn
    simp only [ratArith, decide_eq_false_iff_not, not_le]
    norm_num
    linarith
  one_not_lt_zero := by
    simp only [ratArith, decide_eq_false_iff_not, not_lt]
    norm_num

/-! ## `OkOrFuel` plumbing -/

theorem OkOrFuel.ok {α : Type} (a : α) : OkOrFuel (Except.ok a : M α) := Or.inl ⟨a, rfl⟩

theorem OkOrFuel.bind {α β : Type} {x : M α} {f : α → M β} (hx : OkOrFuel x)
    (hf : ∀ a, x = .ok a → OkOrFuel (f a)) : OkOrFuel (x >>= f) := by
  rcases hx with ⟨a, ha⟩ | he
  · rw [ha]; exact hf a ha
  · rw [he]; exact Or.inr rfl

theorem u8add_safe {a b : Nat} (h : a + b ≤ 255) : u8add a b = .ok (a + b) := by
  unfold u8add; rw [if_neg (by omega)]

theorem u8sub_safe {a b : Nat} (h : b ≤ a) : u8sub a b = .ok (a - b) := by
  unfold u8sub; rw [if_neg (by omega)]

theorem i32add_safe {a b : Int} (h1 : -2147483648 ≤ a + b) (h2 : a + b ≤ 2147483647) :
    i32add a b = .ok (a + b) := by
  unfold i32add; rw [if_neg (by omega)]

/-! ## bit counting -/

theorem countP_or_le {α : Type} (p q : α → Bool) : ∀ l : List α,
    l.countP (fun x => p x || q x) ≤ l.countP p + l.countP q := by
  intro l
  induction l with
  | nil => simp
  | cons a l ih =>
    simp only [List.countP_cons]
    cases p a <;> cases q a <;> simp <;> omega

theorem countP_eq_range (c : Nat) : ∀ n, (List.range n).countP (fun i => decide (i = c)) = if c < n then 1 else 0 := by
  intro n
  induction n with
  | zero => simp
  | succ n ih =>
    rw [List.range_succ, List.countP_append, ih]
    by_cases h1 : c < n
    · have : ¬ n = c := by omega
      simp [h1, this]; omega
    · by_cases h2 : n = c
      · simp [h1, h2]
      · have : ¬ c < n + 1 := by omega
        simp [h1, h2, this]

/-- inserting one column raises `column_with_objs()` by at most one -/
theorem Cols.len_insert_le (s : Cols) (c : Nat) : Cols.len (s ||| 2 ^ c) ≤ Cols.len s + 1 := by
  rw [Cols.len_eq_countP, Cols.len_eq_countP]
  have h : ∀ i, (s ||| 2 ^ c).testBit i = (s.testBit i || decide (i = c)) := by
    intro i
    rw [Nat.testBit_or, Nat.testBit_two_pow]
    congr 1
    by_cases h : c = i
    · simp [h]
    · have : ¬ i = c := fun e => h e.symm
      simp [h, this]
  simp only [h]
  have h1 := countP_or_le (fun i => s.testBit i) (fun i => decide (i = c)) (List.range 16)
  have h2 := countP_eq_range c 16
  split at h2 <;> omega

theorem Cols.len_zero : Cols.len 0 = 0 := by decide

theorem Cols.len_two_pow_le (c : Nat) : Cols.len (2 ^ c) ≤ 1 := by
  have := Cols.len_insert_le 0 c
  rw [Nat.zero_or, Cols.len_zero] at this
  exact this

theorem Pat.add_safe (p : Pat) {c : Nat} (t : NoteTime) (h : c < 16) :
    p.add c t = .ok ⟨p.notes ++ [⟨c, t⟩], p.cols ||| 2 ^ c⟩ := by
  unfold Pat.add
  rw [Cols.insert_some _ h]

theorem Pat.add_cols {p p' : Pat} {c : Nat} {t : NoteTime} (h : p.add c t = .ok p') :
    p'.cols = p.cols ||| 2 ^ c := by
  rw [Pat.add_safe p t (Pat.add_lt16 h)] at h
  cases h; rfl

theorem Pat.has_safe (p : Pat) {c : Nat} (h : c < 16) : p.has c = .ok (p.cols.testBit c) := by
  unfold Pat.has
  rw [Cols.contains_eq_testBit _ h]

/-- fewer occupied columns (both patterns together) than the range has: a free column exists -/
theorem free_of_count (p1 p2 : Cols) (lo hi : Nat) (h : hi ≤ 16) (hc : Cols.len p1 + Cols.len p2 + lo < hi) :
    ∃ c, lo ≤ c ∧ c < hi ∧ p1.testBit c = false ∧ p2.testBit c = false := by
  obtain ⟨c, h1, h2, h3⟩ := exists_valid_of_count p1 p2 lo (hi - lo) (by omega) (by omega)
  refine ⟨c, h1, by omega, ?_⟩
  rw [isValid_eq _ (by omega : c < 16)] at h3
  simp only [List.all_cons, List.all_nil, Bool.and_true, Option.some.injEq, Bool.and_eq_true,
    Bool.not_eq_true'] at h3
  exact h3

/-! ## `find_available_column`, bound `B ≤ 16` on the column source -/

theorem facLoopA_totalB (B : Nat) (hB : B ≤ 16) (avoid : Option Nat) (pats : List Cols)
    (next : Osu → Nat → M (Nat × Osu))
    (hnext : ∀ s col, col < B → ∃ c s', next s col = .ok (c, s') ∧ c < B) :
    ∀ (fuel : Nat) (s : Osu) (col : Nat), col < B → OkOrFuel (facLoopA avoid pats next fuel s col) := by
  intro fuel
  induction fuel with
  | zero => intro s col _; exact Or.inr rfl
  | succ k ih =>
    intro s col hcol
    unfold facLoopA
    obtain ⟨c, s', hn, hc⟩ := hnext s col hcol
    rw [hn]
    simp only
    rw [isValidA_eq avoid pats (by omega : c < 16)]
    cases (decide (avoid ≠ some c) && pats.all (fun p => !p.testBit c))
    · exact ih s' c hc
    · exact Or.inl ⟨_, rfl⟩

theorem findAvail_totalB (B : Nat) (hB : B ≤ 16) (avoid : Option Nat) (pats : List Cols)
    (lower upper : Nat) (next : Osu → Nat → M (Nat × Osu)) (fuel : Nat) (s : Osu) (initial : Nat)
    (hu : upper ≤ 16) (hi : initial < B)
    (hnext : ∀ s col, col < B → ∃ c s', next s col = .ok (c, s') ∧ c < B)
    (hfree : ∃ c, lower ≤ c ∧ c < upper ∧ isValidA avoid pats c = .ok true) :
    OkOrFuel (findAvail avoid pats lower upper next fuel s initial) := by
  unfold findAvail
  rw [isValidA_eq avoid pats (by omega : initial < 16)]
  cases (decide (avoid ≠ some initial) && pats.all (fun p => !p.testBit initial))
  · simp only
    obtain ⟨c, h1, h2, h3⟩ := hfree
    rw [hasValidA_true avoid pats (upper - lower) lower (by omega) ⟨c, h1, by omega, h3⟩]
    exact facLoopA_totalB B hB avoid pats next hnext fuel s initial hi
  · exact Or.inl ⟨_, rfl⟩

theorem randomNext_totalB {A : PArith F} (hA : RangeLaw A) {lo hi : Nat} (h : lo < hi) (hh : hi ≤ 16)
    (s : Osu) (col : Nat) : ∃ c s', randomNext A lo hi s col = .ok (c, s') ∧ c < hi := by
  refine ⟨(getRandomColumn A s lo hi).1, (getRandomColumn A s lo hi).2, rfl, ?_⟩
  exact (getRandomColumn_bounds hA s lo hi h (by omega)).2

/-- validity of a free column w.r.t. one or two patterns -/
theorem isValidA_none_one {p : Cols} {c : Nat} (hc : c < 16) (h : p.testBit c = false) :
    isValidA none [p] c = .ok true := by
  rw [isValidA_eq none _ hc]; simp [h]

theorem isValidA_none_two {p q : Cols} {c : Nat} (hc : c < 16) (h1 : p.testBit c = false)
    (h2 : q.testBit c = false) : isValidA none [p, q] c = .ok true := by
  rw [isValidA_eq none _ hc]; simp [h1, h2]

/-! ## note-count caps -/

section caps
variable {A : PArith F} (hP : ProbLaw A)
include hP

omit hP in
theorem noteCount_fst (s : Osu) (p2 p3 p4 p5 p6 : F) :
    (noteCount A s p2 p3 p4 p5 p6).1 =
      (if A.ge (A.draw s.nextInt.1) (A.sub (A.pct 100) p6) then 6
       else if A.ge (A.draw s.nextInt.1) (A.sub (A.pct 100) p5) then 5
       else if A.ge (A.draw s.nextInt.1) (A.sub (A.pct 100) p4) then 4
       else if A.ge (A.draw s.nextInt.1) (A.sub (A.pct 100) p3) then 3
       else 1 + (if A.ge (A.draw s.nextInt.1) (A.sub (A.pct 100) p2) then 1 else 0) : Int) := by
  unfold noteCount nextDouble
  simp only [apply_ite Prod.fst]

omit hP in
theorem caps_key : ∀ b6 b5 b4 b3 b2 : Bool,
    1 ≤ (if b6 then 6 else if b5 then 5 else if b4 then 4 else if b3 then 3 else 1 + (if b2 then 1 else 0) : Int) ∧
    (if b6 then 6 else if b5 then 5 else if b4 then 4 else if b3 then 3 else 1 + (if b2 then 1 else 0) : Int) ≤ 6 ∧
    (b6 = false → (if b6 then 6 else if b5 then 5 else if b4 then 4 else if b3 then 3 else 1 + (if b2 then 1 else 0) : Int) ≤ 5) ∧
    (b6 = false → b5 = false → (if b6 then 6 else if b5 then 5 else if b4 then 4 else if b3 then 3 else 1 + (if b2 then 1 else 0) : Int) ≤ 4) ∧
    (b6 = false → b5 = false → b4 = false → (if b6 then 6 else if b5 then 5 else if b4 then 4 else if b3 then 3 else 1 + (if b2 then 1 else 0) : Int) ≤ 3) ∧
    (b6 = false → b5 = false → b4 = false → b3 = false → (if b6 then 6 else if b5 then 5 else if b4 then 4 else if b3 then 3 else 1 + (if b2 then 1 else 0) : Int) ≤ 2) ∧
    (b6 = false → b5 = false → b4 = false → b3 = false → b2 = false → (if b6 then 6 else if b5 then 5 else if b4 then 4 else if b3 then 3 else 1 + (if b2 then 1 else 0) : Int) = 1) := by
  intro b6 b5 b4 b3 b2
  cases b6 <;> cases b5 <;> cases b4 <;> cases b3 <;> cases b2 <;> simp

theorem noteCount_caps (s : Osu) (p2 p3 p4 p5 p6 : F) :
    1 ≤ (noteCount A s p2 p3 p4 p5 p6).1 ∧ (noteCount A s p2 p3 p4 p5 p6).1 ≤ 6 ∧
    (p6 = A.pct 0 → (noteCount A s p2 p3 p4 p5 p6).1 ≤ 5) ∧
    (p6 = A.pct 0 → p5 = A.pct 0 → (noteCount A s p2 p3 p4 p5 p6).1 ≤ 4) ∧
    (p6 = A.pct 0 → p5 = A.pct 0 → p4 = A.pct 0 → (noteCount A s p2 p3 p4 p5 p6).1 ≤ 3) ∧
    (p6 = A.pct 0 → p5 = A.pct 0 → p4 = A.pct 0 → p3 = A.pct 0 → (noteCount A s p2 p3 p4 p5 p6).1 ≤ 2) ∧
    (p6 = A.pct 0 → p5 = A.pct 0 → p4 = A.pct 0 → p3 = A.pct 0 → p2 = A.pct 0 →
      (noteCount A s p2 p3 p4 p5 p6).1 = 1) := by
  have hz : A.ge (A.draw s.nextInt.1) (A.sub (A.pct 100) (A.pct 0)) = false :=
    hP.never_ge_one s.nextInt.1 (Osu.nextInt_lt s)
  rw [noteCount_fst]
  have key := caps_key (A.ge (A.draw s.nextInt.1) (A.sub (A.pct 100) p6))
    (A.ge (A.draw s.nextInt.1) (A.sub (A.pct 100) p5)) (A.ge (A.draw s.nextInt.1) (A.sub (A.pct 100) p4))
    (A.ge (A.draw s.nextInt.1) (A.sub (A.pct 100) p3)) (A.ge (A.draw s.nextInt.1) (A.sub (A.pct 100) p2))
  refine ⟨key.1, key.2.1, ?_, ?_, ?_, ?_, ?_⟩
  · intro h6; exact key.2.2.1 (by rw [h6]; exact hz)
  · intro h6 h5; exact key.2.2.2.1 (by rw [h6]; exact hz) (by rw [h5]; exact hz)
  · intro h6 h5 h4; exact key.2.2.2.2.1 (by rw [h6]; exact hz) (by rw [h5]; exact hz) (by rw [h4]; exact hz)
  · intro h6 h5 h4 h3
    exact key.2.2.2.2.2.1 (by rw [h6]; exact hz) (by rw [h5]; exact hz) (by rw [h4]; exact hz) (by rw [h3]; exact hz)
  · intro h6 h5 h4 h3 h2
    exact key.2.2.2.2.2.2 (by rw [h6]; exact hz) (by rw [h5]; exact hz) (by rw [h4]; exact hz)
      (by rw [h3]; exact hz) (by rw [h2]; exact hz)

theorem clamp01_zero : A.clamp01 (A.pct 0) = A.pct 0 := by
  unfold PArith.clamp01
  rw [hP.one_not_lt_zero]
  split <;> simp

end caps

end Rosu.ManiaPattern
