import RosuModel.Lemmas.Rng
import Mathlib.Tactic.LinearCombination

/-!
`CompatPrng::initialize` establishes the range invariant for EVERY `i32` seed.

The first loop fills entries 1..54 with a Fibonacci-like sequence modulo `i32::MAX` (all in
`[0, i32::MAX)`), but entry 55 keeps the raw `mj = 161803398 - |seed|`, which may be negative.
In the first mixing round two steps touch that raw value (`i = 24` reads it, `i = 55` overwrites
it), both through a `wrapping_sub`.  For exactly two values of `|seed|` one of these steps yields
`-1` (a transient value that later rounds remove); these are settled by evaluation, all other
seeds by a number-theoretic argument on the linear form of the entries involved.
-/
namespace Rosu.Rng

def P : Int := 2147483647

theorem getD_set (sa : List Int) (i j : Nat) (v : Int) :
    (sa.set i v).getD j 0 = if i = j ∧ i < sa.length then v else sa.getD j 0 := by
  simp only [List.getD_eq_getElem?_getD, List.getElem?_set]
  by_cases h : i = j
  · subst h
    by_cases hl : i < sa.length
    · simp [hl]
    · simp [hl]
  · simp [h]

/-! ### first loop -/

def slot (j : Nat) : Nat := (21 * j) % 55

/-- `(mj, mk)` before iteration `k + 1` of the first loop. -/
def mkSeq (t : Int) : Nat → Int × Int
  | 0 => (t, 1)
  | k + 1 => ((mkSeq t k).2, fixNeg ((mkSeq t k).1 - (mkSeq t k).2))

theorem initFill_eq (t : Int) (fuel k : Nat) (sa : List Int) :
    initFill fuel sa (mkSeq t k).1 (mkSeq t k).2 (slot k)
      = (List.range' (k + 1) fuel).foldl (fun sa j => sa.set (slot j) (mkSeq t (j - 1)).2) sa := by
  induction fuel generalizing k sa with
  | zero => simp [initFill]
  | succ fuel ih =>
    have hslot : (if slot k + 21 ≥ 55 then slot k + 21 - 55 else slot k + 21) = slot (k + 1) := by
      unfold slot; split <;> omega
    simp only [initFill, hslot, List.range'_succ, List.foldl_cons, Nat.add_sub_cancel]
    exact ih (k + 1) _

theorem fixNeg_range {x : Int} (h1 : -P < x) (h2 : x < P) : 0 ≤ fixNeg x ∧ fixNeg x < P := by
  unfold fixNeg
  simp only [i32Max, P] at *
  by_cases h : x < 0
  · simp only [h, if_true]; omega
  · simp only [h, if_false]; omega

theorem mkSeq_range (t : Int) (ht : 161803398 - P ≤ t ∧ t ≤ 161803398) (k : Nat) :
    (0 ≤ (mkSeq t (k + 1)).1 ∧ (mkSeq t (k + 1)).1 < P) ∧ (0 ≤ (mkSeq t (k + 1)).2 ∧ (mkSeq t (k + 1)).2 < P) := by
  induction k with
  | zero =>
    simp only [mkSeq]
    refine ⟨by simp [P], fixNeg_range ?_ ?_⟩ <;> simp only [P] at * <;> omega
  | succ k ih =>
    have h := ih
    simp only [mkSeq] at h ⊢
    refine ⟨h.2, fixNeg_range ?_ ?_⟩ <;> simp only [P] at * <;> omega

/-- Unreduced integer coefficients: `mj_k ≡ a·t + b`, `mk_k ≡ c·t + d` modulo `P`. -/
def coef : Nat → (Int × Int) × (Int × Int)
  | 0 => ((1, 0), (0, 1))
  | k + 1 => ((coef k).2, ((coef k).1.1 - (coef k).2.1, (coef k).1.2 - (coef k).2.2))

theorem fixNeg_cong (x : Int) : ∃ e : Int, fixNeg x = x + e * P := by
  unfold fixNeg
  split
  · exact ⟨1, by simp [P, i32Max]⟩
  · exact ⟨0, by simp⟩

theorem mkSeq_cong (t : Int) (k : Nat) :
    (∃ q : Int, (mkSeq t k).1 = (coef k).1.1 * t + (coef k).1.2 + q * P) ∧
    (∃ q : Int, (mkSeq t k).2 = (coef k).2.1 * t + (coef k).2.2 + q * P) := by
  induction k with
  | zero => exact ⟨⟨0, by simp [mkSeq, coef]⟩, ⟨0, by simp [mkSeq, coef]⟩⟩
  | succ k ih =>
    obtain ⟨⟨q1, h1⟩, ⟨q2, h2⟩⟩ := ih
    refine ⟨⟨q2, by simp only [mkSeq, coef]; exact h2⟩, ?_⟩
    obtain ⟨e, he⟩ := fixNeg_cong ((mkSeq t k).1 - (mkSeq t k).2)
    refine ⟨q1 - q2 + e, ?_⟩
    simp only [mkSeq, coef]
    rw [he, h1, h2]
    simp only [Int.sub_mul, Int.add_mul, P]
    omega


/-! ### the first loop as a fold of `set`s -/

theorem foldl_set_length (v : Nat → Int) (js : List Nat) (sa : List Int) :
    (js.foldl (fun sa j => sa.set (slot j) (v j)) sa).length = sa.length := by
  induction js generalizing sa with
  | nil => rfl
  | cons j js ih => simp [ih]

theorem foldl_set_getD (v : Nat → Int) (js : List Nat) (sa : List Int) (i : Nat)
    (hlen : ∀ j ∈ js, slot j < sa.length) :
    (js.foldl (fun sa j => sa.set (slot j) (v j)) sa).getD i 0
      = match js.reverse.find? (fun j => slot j == i) with
        | some j => v j
        | none => sa.getD i 0 := by
  induction js generalizing sa with
  | nil => simp
  | cons j js ih =>
    have hl' : ∀ j' ∈ js, slot j' < (sa.set (slot j) (v j)).length := by
      intro j' hj'; simpa using hlen j' (List.mem_cons_of_mem _ hj')
    simp only [List.foldl_cons, List.reverse_cons, List.find?_append]
    rw [ih _ hl']
    cases hf : js.reverse.find? (fun j => slot j == i) with
    | some j' => simp
    | none =>
      simp only [Option.none_or, List.find?_cons, List.find?_nil]
      rw [getD_set]
      have hj : slot j < sa.length := hlen j (List.mem_cons_self ..)
      by_cases h : slot j = i
      · have hb : (slot j == i) = true := by simpa using h
        simp only [hb]
        rw [if_pos ⟨h, hj⟩]
      · have hb : (slot j == i) = false := by simpa using h
        simp only [hb]
        rw [if_neg (fun hh => h hh.1)]

theorem foldl_set_pred (Q : Nat → Int → Prop) (v : Nat → Int) (js : List Nat) (sa : List Int)
    (h0 : ∀ i, Q i (sa.getD i 0)) (hv : ∀ j ∈ js, Q (slot j) (v j)) :
    ∀ i, Q i ((js.foldl (fun sa j => sa.set (slot j) (v j)) sa).getD i 0) := by
  induction js generalizing sa with
  | nil => exact h0
  | cons j js ih =>
    simp only [List.foldl_cons]
    apply ih
    · intro i
      rw [getD_set]
      split
      · next h => rw [← h.1]; exact hv j (List.mem_cons_self ..)
      · exact h0 i
    · intro j' hj'; exact hv j' (List.mem_cons_of_mem _ hj')

/-- State after the first loop. -/
def sa1 (t : Int) : List Int := initFill 54 ((List.replicate 56 (0 : Int)).set 55 t) t 1 0

theorem sa1_eq (t : Int) :
    sa1 t = (List.range' 1 54).foldl (fun sa j => sa.set (slot j) (mkSeq t (j - 1)).2)
      ((List.replicate 56 (0 : Int)).set 55 t) :=
  initFill_eq t 54 0 _

theorem sa0_getD (t : Int) (i : Nat) :
    ((List.replicate 56 (0 : Int)).set 55 t).getD i 0 = if i = 55 then t else 0 := by
  rw [getD_set]
  by_cases h : i = 55
  · subst h; simp
  · have : ¬ (55 = i) := fun h' => h h'.symm
    simp only [this, false_and, if_false, h]
    rw [List.getD_eq_getElem?_getD, List.getElem?_replicate]
    split <;> rfl

theorem sa1_length (t : Int) : (sa1 t).length = 56 := by
  rw [sa1_eq, foldl_set_length]; simp

theorem sa1_getD_of_find (t : Int) (i : Nat) :
    (sa1 t).getD i 0 = match (List.range' 1 54).reverse.find? (fun j => slot j == i) with
      | some j => (mkSeq t (j - 1)).2
      | none => if i = 55 then t else 0 := by
  rw [sa1_eq, foldl_set_getD]
  · rw [sa0_getD]
  · intro j _; simp only [List.length_set, List.length_replicate, slot]; omega

theorem sa1_55 (t : Int) : (sa1 t).getD 55 0 = t := by
  rw [sa1_getD_of_find]
  have : (List.range' 1 54).reverse.find? (fun j => slot j == 55) = none := by decide
  rw [this]; rfl

theorem sa1_0 (t : Int) : (sa1 t).getD 0 0 = 0 := by
  rw [sa1_getD_of_find]
  have : (List.range' 1 54).reverse.find? (fun j => slot j == 0) = none := by decide
  rw [this]; rfl

theorem sa1_24 (t : Int) : (sa1 t).getD 24 0 = (mkSeq t 8).2 := by
  rw [sa1_getD_of_find]
  have : (List.range' 1 54).reverse.find? (fun j => slot j == 24) = some 9 := by decide
  rw [this]

theorem sa1_31 (t : Int) : (sa1 t).getD 31 0 = (mkSeq t 45).2 := by
  rw [sa1_getD_of_find]
  have : (List.range' 1 54).reverse.find? (fun j => slot j == 31) = some 46 := by decide
  rw [this]

theorem sa1_7 (t : Int) : (sa1 t).getD 7 0 = (mkSeq t 36).2 := by
  rw [sa1_getD_of_find]
  have : (List.range' 1 54).reverse.find? (fun j => slot j == 7) = some 37 := by decide
  rw [this]

theorem sa1_38 (t : Int) : (sa1 t).getD 38 0 = (mkSeq t 27).2 := by
  rw [sa1_getD_of_find]
  have : (List.range' 1 54).reverse.find? (fun j => slot j == 38) = some 28 := by decide
  rw [this]

/-- Entries 0..54 after the first loop are in `[0, P)`. -/
theorem sa1_range (t : Int) (ht : 161803398 - P ≤ t ∧ t ≤ 161803398) (i : Nat) (hi : i < 55) :
    0 ≤ (sa1 t).getD i 0 ∧ (sa1 t).getD i 0 < P := by
  have := foldl_set_pred (fun i x => i < 55 → 0 ≤ x ∧ x < P) (fun j => (mkSeq t (j - 1)).2)
    (List.range' 1 54) ((List.replicate 56 (0 : Int)).set 55 t)
    (by intro i hi; rw [sa0_getD]; have : ¬ i = 55 := by omega
        simp [this, P])
    (by
      intro j hj _
      have hj1 : 1 ≤ j := by
        have := List.mem_range'_1.mp hj; omega
      rcases Nat.lt_or_ge j 2 with h | h
      · have : j = 1 := by omega
        subst this; simp [mkSeq, P]
      · have : j - 1 = (j - 2) + 1 := by omega
        rw [this]; exact (mkSeq_range t ht (j - 2)).2)
  rw [sa1_eq]
  exact this i hi


/-! ### first mixing round -/

theorem foldl_range'_inv {β : Type} (f : β → Nat → β) (I : Nat → β → Prop) (n a : Nat) (b : β)
    (h0 : I a b) (hstep : ∀ i b, a ≤ i → i < a + n → I i b → I (i + 1) (f b i)) :
    I (a + n) ((List.range' a n).foldl f b) := by
  induction n generalizing a b with
  | zero => simpa using h0
  | succ n ih =>
    simp only [List.range'_succ, List.foldl_cons]
    have := ih (a + 1) (f b a) (hstep a b (Nat.le_refl _) (by omega) h0)
      (fun i b h1 h2 hI => hstep i b (by omega) (by omega) hI)
    have e : a + 1 + n = a + (n + 1) := by omega
    rw [e] at this; exact this

/-- The mixing operation on two entries. -/
def mixF (x y : Int) : Int := fixNeg (wrap32 (x - y))

theorem mixStep_getD (sa : List Int) (i j : Nat) (hl : sa.length = 56) (hi : i < 56) :
    (mixStep sa i).getD j 0 =
      if i = j then mixF (sa.getD i 0) (sa.getD (1 + (if i + 30 ≥ 55 then i + 30 - 55 else i + 30)) 0)
      else sa.getD j 0 := by
  unfold mixStep mixF
  rw [getD_set]
  by_cases h : i = j
  · rw [if_pos ⟨h, by omega⟩, if_pos h]
  · rw [if_neg (fun hh => h hh.1), if_neg h]

/-- State during the first round: `n` is the next index to be processed. -/
structure R1 (s1 : List Int) (v7 v31 : Int) (n : Nat) (sa : List Int) : Prop where
  len : sa.length = 56
  zero : sa.getD 0 0 = 0
  later : ∀ i, n ≤ i → sa.getD i 0 = s1.getD i 0
  done : ∀ i, 1 ≤ i → i < n → 0 ≤ sa.getD i 0 ∧ sa.getD i 0 ≤ P
  at7 : 7 < n → sa.getD 7 0 = v7
  at31 : 31 < n → sa.getD 31 0 = v31

theorem mixF_range {x y : Int} (hx : 0 ≤ x ∧ x ≤ P) (hy : 0 ≤ y ∧ y ≤ P) : 0 ≤ mixF x y ∧ mixF x y ≤ P :=
  fixNeg_wrap_range hx hy

theorem r1_step (s1 : List Int) (t : Int)
    (_h0 : s1.getD 0 0 = 0) (hr : ∀ i, i < 55 → 0 ≤ s1.getD i 0 ∧ s1.getD i 0 < P) (h55 : s1.getD 55 0 = t)
    (hA : 0 ≤ mixF (s1.getD 24 0) t ∧ mixF (s1.getD 24 0) t ≤ P)
    (hB : 0 ≤ mixF t (mixF (s1.getD 31 0) (mixF (s1.getD 7 0) (s1.getD 38 0))) ∧
          mixF t (mixF (s1.getD 31 0) (mixF (s1.getD 7 0) (s1.getD 38 0))) ≤ P)
    (i : Nat) (sa : List Int) (hi1 : 1 ≤ i) (hi2 : i < 1 + 55)
    (hI : R1 s1 (mixF (s1.getD 7 0) (s1.getD 38 0)) (mixF (s1.getD 31 0) (mixF (s1.getD 7 0) (s1.getD 38 0))) i sa) :
    R1 s1 (mixF (s1.getD 7 0) (s1.getD 38 0)) (mixF (s1.getD 31 0) (mixF (s1.getD 7 0) (s1.getD 38 0))) (i + 1)
      (mixStep sa i) := by
  have hg := fun j => mixStep_getD sa i j hI.len (by omega)
  -- the value written at index i
  have hnew : 0 ≤ (mixStep sa i).getD i 0 ∧ (mixStep sa i).getD i 0 ≤ P ∧
      (i = 7 → (mixStep sa i).getD i 0 = mixF (s1.getD 7 0) (s1.getD 38 0)) ∧
      (i = 31 → (mixStep sa i).getD i 0 = mixF (s1.getD 31 0) (mixF (s1.getD 7 0) (s1.getD 38 0))) := by
    rw [hg i, if_pos rfl]
    have hxi : sa.getD i 0 = s1.getD i 0 := hI.later i (Nat.le_refl _)
    rcases Nat.lt_or_ge i 24 with h | h
    · -- reads i + 31, not yet processed, both original and in [0, P)
      have hr' : (1 + (if i + 30 ≥ 55 then i + 30 - 55 else i + 30)) = i + 31 := by split <;> omega
      rw [hr', hxi, hI.later (i + 31) (by omega)]
      have a := hr i (by omega)
      have b := hr (i + 31) (by omega)
      have := mixF_range (x := s1.getD i 0) (y := s1.getD (i + 31) 0) ⟨a.1, by have := a.2; simp only [P] at *; omega⟩
        ⟨b.1, by have := b.2; simp only [P] at *; omega⟩
      refine ⟨this.1, this.2, ?_, by omega⟩
      intro h7; subst h7; rfl
    · rcases Nat.eq_or_lt_of_le h with h24 | h
      · -- i = 24 reads the raw entry 55
        subst h24
        have hr' : (1 + (if 24 + 30 ≥ 55 then 24 + 30 - 55 else 24 + 30)) = 55 := by decide
        rw [hr', hxi, hI.later 55 (by omega), h55]
        exact ⟨hA.1, hA.2, by omega, by omega⟩
      · rcases Nat.lt_or_ge i 55 with h' | h'
        · -- reads i - 24, already processed
          have hr' : (1 + (if i + 30 ≥ 55 then i + 30 - 55 else i + 30)) = i - 24 := by split <;> omega
          rw [hr', hxi]
          have a := hr i (by omega)
          have b := hI.done (i - 24) (by omega) (by omega)
          have := mixF_range (x := s1.getD i 0) (y := sa.getD (i - 24) 0) ⟨a.1, by have := a.2; simp only [P] at *; omega⟩ b
          refine ⟨this.1, this.2, by omega, ?_⟩
          intro h31; subst h31
          have : sa.getD (31 - 24) 0 = mixF (s1.getD 7 0) (s1.getD 38 0) := hI.at7 (by omega)
          rw [this]
        · -- i = 55 overwrites the raw entry, reads entry 31
          have : i = 55 := by omega
          subst this
          have hr' : (1 + (if 55 + 30 ≥ 55 then 55 + 30 - 55 else 55 + 30)) = 31 := by decide
          rw [hr', hxi, h55, hI.at31 (by omega)]
          exact ⟨hB.1, hB.2, by omega, by omega⟩
  refine ⟨?_, ?_, ?_, ?_, ?_, ?_⟩
  · unfold mixStep; simpa using hI.len
  · rw [hg 0, if_neg (by omega)]; exact hI.zero
  · intro j hj; rw [hg j, if_neg (by omega)]; exact hI.later j (by omega)
  · intro j hj1 hj2
    by_cases h : i = j
    · subst h; exact ⟨hnew.1, hnew.2.1⟩
    · rw [hg j, if_neg h]; exact hI.done j hj1 (by omega)
  · intro h7
    by_cases h : i = 7
    · subst h; exact hnew.2.2.1 rfl
    · rw [hg 7, if_neg h]; exact hI.at7 (by omega)
  · intro h31
    by_cases h : i = 31
    · subst h; exact hnew.2.2.2 rfl
    · rw [hg 31, if_neg h]; exact hI.at31 (by omega)

theorem saOk_of_getD (sa : List Int) (hl : sa.length = 56)
    (h : ∀ i, i < 56 → 0 ≤ sa.getD i 0 ∧ sa.getD i 0 ≤ P) : SaOk sa := by
  refine ⟨hl, ?_⟩
  intro x hx
  obtain ⟨i, hi, rfl⟩ := List.mem_iff_getElem.mp hx
  have := h i (by omega)
  rw [List.getD_eq_getElem?_getD, List.getElem?_eq_getElem hi] at this
  simpa [P, i32Max] using this

theorem round1_ok (s1 : List Int) (t : Int) (hl : s1.length = 56)
    (h0 : s1.getD 0 0 = 0) (hr : ∀ i, i < 55 → 0 ≤ s1.getD i 0 ∧ s1.getD i 0 < P) (h55 : s1.getD 55 0 = t)
    (hA : 0 ≤ mixF (s1.getD 24 0) t ∧ mixF (s1.getD 24 0) t ≤ P)
    (hB : 0 ≤ mixF t (mixF (s1.getD 31 0) (mixF (s1.getD 7 0) (s1.getD 38 0))) ∧
          mixF t (mixF (s1.getD 31 0) (mixF (s1.getD 7 0) (s1.getD 38 0))) ≤ P) :
    SaOk (mixRound s1) := by
  have := foldl_range'_inv mixStep
    (R1 s1 (mixF (s1.getD 7 0) (s1.getD 38 0)) (mixF (s1.getD 31 0) (mixF (s1.getD 7 0) (s1.getD 38 0))))
    55 1 s1
    ⟨hl, h0, fun _ _ => rfl, fun i h1 h2 => by omega, fun h => by omega, fun h => by omega⟩
    (fun i b h1 h2 hI => r1_step s1 t h0 hr h55 hA hB i b h1 h2 hI)
  apply saOk_of_getD _ this.len
  intro i hi
  rcases Nat.eq_zero_or_pos i with h | h
  · subst h; rw [this.zero]; simp [P]
  · exact this.done i h (by omega)


/-! ### the two steps that touch the raw entry -/

theorem mixF_small {x y : Int} (hx : 0 ≤ x ∧ x < P) (hy : 0 ≤ y ∧ y < P) :
    (mixF x y = x - y ∨ mixF x y = x - y + P) ∧ 0 ≤ mixF x y ∧ mixF x y < P := by
  unfold mixF
  simp only [P] at *
  rw [wrap32_id (by omega) (by omega)]
  unfold fixNeg i32Max
  split <;> omega

theorem mixF_raw_left {x t : Int} (hx : 0 ≤ x ∧ x < P) (ht : 161803398 - P ≤ t ∧ t ≤ 161803398)
    (hne : x - t ≠ 2147483648) : 0 ≤ mixF x t ∧ mixF x t ≤ P := by
  unfold mixF wrap32 fixNeg i32Max
  simp only [P] at *
  split <;> omega

theorem mixF_raw_right {t y : Int} (hy : 0 ≤ y ∧ y < P) (ht : 161803398 - P ≤ t ∧ t ≤ 161803398)
    (hne : t - y ≠ -2147483648) : 0 ≤ mixF t y ∧ mixF t y ≤ P := by
  unfold mixF wrap32 fixNeg i32Max
  simp only [P] at *
  split <;> omega

theorem coef_8 : (coef 8).2 = (-21, 34) := by decide
theorem coef_27 : (coef 27).2 = (196418, -317811) := by decide
theorem coef_36 : (coef 36).2 = (-14930352, 24157817) := by decide
theorem coef_45 : (coef 45).2 = (1134903170, -1836311903) := by decide

/-- The two values of `161803398 - |seed|` for which a transient `-1` appears. -/
def tA : Int := 161803398 - 1235545220
def tB : Int := 161803398 - 614279151

theorem stepA_ok (t : Int) (ht : 161803398 - P ≤ t ∧ t ≤ 161803398) (hne : t ≠ tA) :
    0 ≤ mixF ((sa1 t).getD 24 0) t ∧ mixF ((sa1 t).getD 24 0) t ≤ P := by
  rw [sa1_24]
  have hx : 0 ≤ (mkSeq t 8).2 ∧ (mkSeq t 8).2 < P := (mkSeq_range t ht 7).2
  obtain ⟨q, hq⟩ := (mkSeq_cong t 8).2
  rw [coef_8] at hq
  apply mixF_raw_left hx ht
  generalize (mkSeq t 8).2 = g at *
  simp only [P, tA] at *
  omega

/-- If the second special step hit `-2^31`, then `t` is pinned modulo `P`: multiply the linear
relation by the inverse `1526534390` of `1150029939` modulo `P`
(`1526534390 * 1150029939 = 1 + 817496447 * P`). -/
theorem stepB_arith (t g7 g38 g31 v7 v31 q7 q38 q31 e1 e2 : Int)
    (e7 : g7 = -14930352 * t + 24157817 + q7 * 2147483647)
    (e38 : g38 = 196418 * t + -317811 + q38 * 2147483647)
    (e31 : g31 = 1134903170 * t + -1836311903 + q31 * 2147483647)
    (a : v7 = g7 - g38 + e1 * 2147483647) (b : v31 = g31 - v7 + e2 * 2147483647)
    (heq : t - v31 = -2147483648) :
    ∃ z : Int, t + 2147483647 * z = 6118763799189345810 :=
  ⟨817496447 * t + 1526534390 * (q31 - q7 + q38 + e2 - e1), by
    linear_combination 1526534390 * (-heq - b + a - e31 + e7 - e38)⟩

theorem stepB_ok (t : Int) (ht : 161803398 - P ≤ t ∧ t ≤ 161803398) (hne : t ≠ tB) :
    0 ≤ mixF t (mixF ((sa1 t).getD 31 0) (mixF ((sa1 t).getD 7 0) ((sa1 t).getD 38 0))) ∧
    mixF t (mixF ((sa1 t).getD 31 0) (mixF ((sa1 t).getD 7 0) ((sa1 t).getD 38 0))) ≤ P := by
  rw [sa1_31, sa1_7, sa1_38]
  have h7 : 0 ≤ (mkSeq t 36).2 ∧ (mkSeq t 36).2 < P := (mkSeq_range t ht 35).2
  have h38 : 0 ≤ (mkSeq t 27).2 ∧ (mkSeq t 27).2 < P := (mkSeq_range t ht 26).2
  have h31 : 0 ≤ (mkSeq t 45).2 ∧ (mkSeq t 45).2 < P := (mkSeq_range t ht 44).2
  obtain ⟨q7, e7⟩ := (mkSeq_cong t 36).2
  obtain ⟨q38, e38⟩ := (mkSeq_cong t 27).2
  obtain ⟨q31, e31⟩ := (mkSeq_cong t 45).2
  rw [coef_36] at e7
  rw [coef_27] at e38
  rw [coef_45] at e31
  have hv7 := mixF_small h7 h38
  have hv31 := mixF_small h31 hv7.2
  apply mixF_raw_right hv31.2 ht
  generalize mixF (mkSeq t 36).2 (mkSeq t 27).2 = v7 at *
  generalize mixF (mkSeq t 45).2 v7 = v31 at *
  generalize (mkSeq t 36).2 = g7 at *
  generalize (mkSeq t 27).2 = g38 at *
  generalize (mkSeq t 45).2 = g31 at *
  intro heq
  have ha : ∃ e1 : Int, v7 = g7 - g38 + e1 * 2147483647 := by
    rcases hv7.1 with a | a
    · exact ⟨0, by rw [a]; simp⟩
    · exact ⟨1, by rw [a]; simp [P]⟩
  have hb : ∃ e2 : Int, v31 = g31 - v7 + e2 * 2147483647 := by
    rcases hv31.1 with b | b
    · exact ⟨0, by rw [b]; simp⟩
    · exact ⟨1, by rw [b]; simp [P]⟩
  obtain ⟨e1, a⟩ := ha
  obtain ⟨e2, b⟩ := hb
  simp only [P] at e7 e38 e31
  obtain ⟨z, hz⟩ := stepB_arith t g7 g38 g31 v7 v31 q7 q38 q31 e1 e2 e7 e38 e31 a b heq
  clear e7 e38 e31 a b heq hv7 hv31 h7 h38 h31
  simp only [P, tB] at *
  omega

/-! ### assembly -/

theorem ofMj_sa (t : Int) :
    (Csharp.ofMj t).sa = mixRound (mixRound (mixRound (mixRound (sa1 t)))) := by
  simp only [Csharp.ofMj, sa1]

theorem ofMj_ok_generic (t : Int) (ht : 161803398 - P ≤ t ∧ t ≤ 161803398) (hA : t ≠ tA) (hB : t ≠ tB) :
    CsOk (Csharp.ofMj t) := by
  have h1 : SaOk (mixRound (sa1 t)) :=
    round1_ok (sa1 t) t (sa1_length t) (sa1_0 t) (sa1_range t ht) (sa1_55 t) (stepA_ok t ht hA) (stepB_ok t ht hB)
  have h4 := mixRound_ok _ (mixRound_ok _ (mixRound_ok _ h1))
  refine ⟨by rw [ofMj_sa]; exact h4, ?_, ?_, ?_, ?_⟩ <;> simp [Csharp.ofMj]

/-- The two exceptional magnitudes, by evaluation (the transient `-1` is gone after round 2). -/
theorem ofMj_ok_tA : CsOk (Csharp.ofMj tA) := by
  unfold CsOk SaOk; decide +kernel

theorem ofMj_ok_tB : CsOk (Csharp.ofMj tB) := by
  unfold CsOk SaOk; decide +kernel

/-- … and in these two cases an entry really leaves `[0, i32::MAX]` during initialisation. -/
theorem transient_minus_one :
    (mixStep ((List.range' 1 23).foldl mixStep (sa1 tA)) 24).getD 24 0 = -1 ∧
    (mixRound (sa1 tB)).getD 55 0 = -1 := by
  decide +kernel

theorem ofMj_ok (t : Int) (ht : 161803398 - P ≤ t ∧ t ≤ 161803398) : CsOk (Csharp.ofMj t) := by
  by_cases hA : t = tA
  · rw [hA]; exact ofMj_ok_tA
  · by_cases hB : t = tB
    · rw [hB]; exact ofMj_ok_tB
    · exact ofMj_ok_generic t ht hA hB

theorem subtraction_range (seed : Int) (h : i32Min ≤ seed ∧ seed ≤ i32Max) :
    0 ≤ subtraction seed ∧ subtraction seed ≤ P := by
  unfold subtraction
  simp only [i32Min, i32Max, P] at *
  by_cases hs : seed = -2147483648
  · simp only [hs, if_true]; omega
  · simp only [hs, if_false]; omega

/-- `CompatPrng::initialize(seed)` establishes the invariant for every `i32` seed. -/
theorem Csharp.new_ok (seed : Int) (h : i32Min ≤ seed ∧ seed ≤ i32Max) : CsOk (Csharp.new seed) := by
  have := subtraction_range seed h
  unfold Csharp.new
  apply ofMj_ok
  simp only [P] at *
  omega

end Rosu.Rng
